#!/bin/bash
# Confirms a seeded change and records it under /verif/seeded/<PROP>/<name>/.
#   bin/seed.sh <PROP> <mutant-dir> <agent-worktree> <check-prop>...
# 1. in the agent's scratch worktree: apply patch; run the six modules' suites (must pass);
#    run the demonstration (must fail); revert; run the demonstration (must pass);
# 2. drill: bin/drill.sh <mutant-dir> <check-prop>... (own scratch worktree, VERIF_REPO);
# 3. copy patch.diff, the demonstration and meta.json (extended with what was run) to seeded/.
set -u
ROOT="$(cd "$(dirname "$0")/.." && pwd)"
prop="$1"; mdir="$2"; wt="$3"; shift 3
export GOFLAGS=-mod=mod GOPROXY=off GOSUMDB=off GOTOOLCHAIN=local
name="$(basename "$(dirname "$mdir")" | sed 's/-out//')-$(basename "$mdir")"
demo=$(python3 -c "
import json,re
d=json.load(open('$mdir/meta.json')).get('demo_cmd','')
d=re.sub(r'git -C \S+ apply \S+\s*&&\s*','',d)   # the script applies/reverts the patch itself
d=re.sub(r'#.*$','',d)
print(d)")
git -C "$wt" checkout -q -- . && git -C "$wt" clean -fdq
git -C "$wt" apply "$mdir/patch.diff" || { echo "SEED $name: patch does not apply"; exit 2; }
suite=pass
for m in api/v3 api/v3alpha util/maven util/pypi util/resolve util/semver; do
  (cd "$wt/$m" && go test -vet=off -count=1 ./... >/dev/null 2>&1) || suite=FAIL
done
o=$(bash -c "$demo" 2>&1); with=$?; echo "$o" | grep -qE "^(--- )?FAIL|^panic:|fatal error:|VIOLAT" && with=1
git -C "$wt" checkout -q -- . && git -C "$wt" clean -fdq
o=$(bash -c "$demo" 2>&1); without=$?; echo "$o" | grep -qE "^(--- )?FAIL|^panic:|fatal error:|VIOLAT" && without=1
echo "SEED $name: suite_with_mutant=$suite demo_with_mutant_rc=$with demo_without_rc=$without"
drill=$("$ROOT/bin/drill.sh" "$mdir" "$@" 2>&1)
echo "$drill"
if [ "$suite" = pass ] && [ $with -ne 0 ] && [ $without -eq 0 ]; then
  out="$ROOT/seeded/$prop/$name"; mkdir -p "$out"
  cp "$mdir/patch.diff" "$out/"
  for f in "$mdir"/demo_test.go "$mdir"/main.go "$mdir"/README.txt; do [ -e "$f" ] && cp "$f" "$out/"; done
  [ -d "$mdir/demo" ] && { mkdir -p "$out/demo"; cp "$mdir"/demo/*.go "$mdir"/demo/go.mod "$out/demo/" 2>/dev/null; }
  DRILL="$drill" python3 - "$mdir/meta.json" "$out/meta.json" "$suite" "$with" "$without" "$*" <<'PY'
import json,sys,os
m=json.load(open(sys.argv[1]))
d=os.environ["DRILL"]
caught={}
cur=None
for line in d.split("\n"):
    if line.startswith("== "):
        cur=line.split()[1]; caught[cur]={"exit":int(line.split("exit=")[1]),"violations":[],"summary":""}
    elif cur and "VIOLATION" in line: caught[cur]["violations"].append(line.strip())
    elif cur and line.startswith(cur+":"): caught[cur]["summary"]=line.strip()
m["confirmed_by_maintainer"]={"suite_passes_with_change":sys.argv[3]=="pass","demo_rc_with_change":int(sys.argv[4]),"demo_rc_without":int(sys.argv[5]),
  "ran":"bin/seed.sh: patch applied in a scratch worktree of /repo; six module suites; demo with and without; then VERIF_REPO=<worktree> ./check for "+sys.argv[6]}
m["checks"]=caught
m["detected"]=any(v["exit"]==1 and v["violations"] for v in caught.values())
json.dump(m,open(sys.argv[2],"w"),indent=1)
print("recorded", sys.argv[2], "detected=", m["detected"])
PY
else
  echo "SEED $name: NOT kept (confirmation failed)"
fi
