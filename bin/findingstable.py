#!/usr/bin/env python3
"""Markdown list of known_findings.json for DESIGN section 15."""
import json, os
root = os.path.join(os.path.dirname(os.path.abspath(__file__)), "..")
ks = json.load(open(os.path.join(root, "known_findings.json")))
def hexdec(w):
    out = []
    for f in w.split():
        try:
            if len(f) >= 4 and len(f) % 2 == 0 and all(c in "0123456789abcdef" for c in f):
                out.append("‹" + bytes.fromhex(f).decode("utf-8") + "›"); continue
        except Exception: pass
        out.append(f)
    return " ".join(out)
print("### 15.1 Repaired in /repo (`fix:` commits; a fixed entry suppresses nothing)\n")
for k in ks:
    if k["status"] == "fixed":
        print(f"* **{k['id']}** ({k['property']}, commit {k.get('commit','?')}): {k['what']}")
print("\n### 15.2 Recorded, not repaired (each: the class, the hypothesis of the `_partial` theorem it negates, the refutation theorem, one witness)\n")
for k in ks:
    if k["status"] == "finding":
        w = (k.get("witness") or [""])[0]
        w = hexdec(w)
        if len(w) > 160: w = w[:160] + "…"
        print(f"* **{k['id']}** ({k['property']}): {k['what']}  \n  hypothesis: `{k.get('hypothesis','')}`; refutation: `{k.get('refutation','')}`; witness: `{w}`")
