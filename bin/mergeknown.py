#!/usr/bin/env python3
"""Merges builders' staging files props/C*.known.json into known_findings.json (by id)."""
import json, glob, os
ROOT = os.path.dirname(os.path.dirname(os.path.abspath(__file__)))
kf = json.load(open(os.path.join(ROOT, "known_findings.json")))
ids = {k["id"]: i for i, k in enumerate(kf)}
for f in sorted(glob.glob(os.path.join(ROOT, "props", "C*.known.json"))):
    for k in json.load(open(f)):
        if k["id"] in ids: kf[ids[k["id"]]] = k
        else:
            ids[k["id"]] = len(kf); kf.append(k)
json.dump(kf, open(os.path.join(ROOT, "known_findings.json"), "w"), indent=1)
print(len(kf), "entries")

# plain-text companion (one line per entry, in the brief's wording)
lines = ["# Generated from known_findings.json by bin/mergeknown.py (never written at check time).",
         "# A `fixed:` line suppresses nothing: its witness is replayed on every run and a failure is a VIOLATION.", ""]
for k in kf:
    if k["status"] == "fixed":
        lines.append("fixed: property=%s %s %s %s" % (k["property"], k.get("commit", "?"), k["id"], " ".join((k.get("what") or "").split())))
for k in kf:
    if k["status"] == "finding":
        lines.append("finding: property=%s %s %s" % (k["property"], k["id"], " ".join((k.get("what") or "").split())))
open(os.path.join(ROOT, "known_findings.txt"), "w").write("\n".join(lines) + "\n")
