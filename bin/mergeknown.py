#!/usr/bin/env python3
"""Merges builders' staging files props/C*.known.json into known_findings.json (by id)."""
import json, glob, os
ROOT = os.path.dirname(os.path.dirname(os.path.abspath(__file__)))
kf = json.load(open(os.path.join(ROOT, "known_findings.json")))
ids = {k["id"]: i for i, k in enumerate(kf)}
for f in sorted(glob.glob(os.path.join(ROOT, "props", "C*.known.json"))):
    for k in json.load(open(f)):
        if k["id"] in ids: kf[ids[k["id"]]] = k
        else:
            ids[k["id"]] = len(kf); kf.append(k)
json.dump(kf, open(os.path.join(ROOT, "known_findings.json"), "w"), indent=1)
print(len(kf), "entries")
