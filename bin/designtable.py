#!/usr/bin/env python3
"""Markdown summary of what is proved per property, from props/C*.json and known_findings.json (DESIGN 13.5)."""
import json, glob, os
root = os.path.join(os.path.dirname(os.path.abspath(__file__)), "..")
known = json.load(open(os.path.join(root, "known_findings.json")))
print("| id | theorems (full / partial / refutation / tie) | findings recorded / fixed | Lean modules |")
print("|---|---|---|---|")
for f in sorted(glob.glob(os.path.join(root, "props", "C??.json"))):
    d = json.load(open(f))
    if not d.get("claimed"): continue
    k = {"full": 0, "partial": 0, "refutation": 0, "tie": 0}
    for t in d.get("theorems", []): k[t.get("kind", "full")] = k.get(t.get("kind", "full"), 0) + 1
    fi = sum(1 for x in known if x["property"] == d["id"] and x["status"] == "finding")
    fx = sum(1 for x in known if x["property"] == d["id"] and x["status"] == "fixed")
    print(f"| {d['id']} | {k['full']} / {k['partial']} / {k['refutation']} / {k['tie']} | {fi} / {fx} | {', '.join(m.replace('DepsDev.', '') for m in d.get('lean_modules', []))} |")
