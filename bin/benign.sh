#!/bin/bash
# False-alarm drill: runs EVERY registered check against a behaviour-preserving change.
#   bin/benign.sh <dir with patch.diff> ...      (prints one line per patch and check that alarms)
ROOT="$(cd "$(dirname "$0")/.." && pwd)"
props=$(python3 -c "import json;print(' '.join(c['property_id'] for c in json.load(open('$ROOT/MANIFEST.json'))['checks']))")
for d in "$@"; do
  out=$("$ROOT/bin/drill.sh" "$d" $props 2>&1)
  alarms=$(echo "$out" | grep -E '^== ' | grep -v 'exit=0' | tr '\n' ' ')
  echo "BENIGN $(basename "$d"): ${alarms:-no alarm}"
  echo "$out" | grep -E 'VIOLATION|MACHINERY' | head -5
done
