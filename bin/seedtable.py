#!/usr/bin/env python3
"""Prints the markdown table of seeded changes (seeded/<prop>/<name>/meta.json) for DESIGN.md section 14."""
import json, glob, os
ROOT = os.path.dirname(os.path.dirname(os.path.abspath(__file__)))
rows = []
for f in sorted(glob.glob(os.path.join(ROOT, "seeded", "*", "*", "meta.json"))):
    m = json.load(open(f))
    prop = f.split(os.sep)[-3]; name = f.split(os.sep)[-2]
    if prop.startswith("benign"):
        rows.append((prop, name, (m.get("summary") or "")[:110].replace("|", "/"), "(behaviour preserving)", (m.get("verdict") or "")[:160].replace("|", "/")))
        continue
    caught = []
    for p, v in (m.get("checks") or {}).items():
        if v.get("exit") == 1 and v.get("violations"):
            how = "no-failing-input-found (proof/correspondence only)" if all("no-failing-input-found" in x for x in v["violations"]) else "failing input replayed"
            caught.append(f"{p}: {how}")
        else:
            caught.append(f"{p}: not caught")
    rows.append((prop, name, (m.get("summary") or "")[:110].replace("|", "/"), (m.get("needs") or "")[:110].replace("|", "/"), "; ".join(caught)))
print("| property | seeded change | what | needs | checks |")
print("|---|---|---|---|---|")
for r in rows: print("| " + " | ".join(r) + " |")
