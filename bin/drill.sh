#!/bin/bash
# Runs registered checks against a seeded change without touching /repo.
#   bin/drill.sh <seed-dir containing patch.diff> <PROP> [<PROP>...]
# Creates a scratch worktree of /repo under /tmp, applies the patch, runs
# `VERIF_REPO=<worktree> ./check <PROP>` for each property, prints the verdict lines,
# removes the worktree.
set -u
ROOT="$(cd "$(dirname "$0")/.." && pwd)"
seed="$1"; shift
wt="/tmp/drill-$$"
git -C /repo worktree add -q --detach "$wt" HEAD || exit 2
suf=$(python3 -c "import hashlib,sys;print(hashlib.sha1(sys.argv[1].encode()).hexdigest())" "$wt")
cleanup() {
  git -C /repo worktree remove --force "$wt" >/dev/null 2>&1
  rm -rf "$ROOT"/work/*-alt"${suf:0:6}" "$ROOT/work/altmod-${suf:0:8}" "$ROOT"/harness/bin/*-alt"${suf:0:6}"
}
trap cleanup EXIT
if ! git -C "$wt" apply "$seed/patch.diff"; then echo "DRILL: patch does not apply"; exit 2; fi
for p in "$@"; do
  out=$(cd "$ROOT" && VERIF_REPO="$wt" ./check "$p" 2>&1)
  rc=$?
  echo "== $p exit=$rc"
  echo "$out" | grep -E "VIOLATION|MACHINERY|^$p:" | head -6
done
