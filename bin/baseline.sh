#!/bin/bash
# Runs the repository's pinned test suite with the verif build tag OFF.
export GOFLAGS=-mod=mod GOPROXY=off GOSUMDB=off GOTOOLCHAIN=local
rc=0
for m in api/v3 api/v3alpha util/maven util/pypi util/resolve util/semver; do
  (cd /repo/$m && go test -vet=off -count=1 -timeout 25m ./...) || rc=1
done
exit $rc
