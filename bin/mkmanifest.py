#!/usr/bin/env python3
"""Regenerates /verif/MANIFEST.json from props/C*.json (only properties with status 'claimed')."""
import json, glob, os, subprocess
ROOT = os.path.dirname(os.path.dirname(os.path.abspath(__file__)))
ids = [json.loads(l)["id"] for l in open(os.path.join(ROOT, "properties.jsonl"))]
checks, na = [], []
pending = json.load(open(os.path.join(ROOT, "props", "pending.json"))) if os.path.exists(os.path.join(ROOT, "props", "pending.json")) else {}
for pid in ids:
    p = os.path.join(ROOT, "props", pid + ".json")
    m = json.load(open(p)) if os.path.exists(p) else None
    if not m or not m.get("claimed"):
        na.append({"property_id": pid, "reason": pending.get(pid, "check under construction in this session: not yet claimed (the technique applies; see DESIGN.md section 7)")})
        continue
    checks.append({
        "property_id": pid,
        "quick_cmd": f"./check {pid}",
        "thorough_cmd": f"./check {pid} --tier thorough",
        "evidence_file": f"/verif/evidence/{pid}.json",
        "replay_cmd_template": f"./check {pid} --replay {{path}}",
        "engine": "lean4-model-correspondence",
        "level_claimed": {"category": m.get("level", "proof"), "text": m.get("level_text", ""), "design_ref": f"DESIGN.md section 7, {pid}"},
        "level_note": "Trusted base: " + "; ".join(m.get("trusted_base", [])) + ". Assumptions: " + "; ".join(m.get("assumptions", [])),
        "technique": m.get("technique", "Lean 4 theorems on a model + differential correspondence"),
    })
hooks_commits = ["f8651cc", "d4804cd", "1104ca3", "fdda9ea"]
man = {
 "version": 1,
 "setup_cmd": "./setup.sh",
 "hooks": {"guard": "verif",
  "enable": "go build -tags verif (harness binaries under /verif/harness/cmd are built with this tag against /repo via go.mod replace directives)",
  "baseline_off_cmd": "/verif/bin/baseline.sh", "source_commits": hooks_commits, "add_only": True},
 "engines": [{"name": "lean4-model-correspondence", "path": "/verif/check",
   "serves_properties": [c["property_id"] for c in checks],
   "kind_free_text": "Lean 4 theorems about a model of the code (lean/DepsDev), tied to /repo on every run by a translator (harness/*gen*, Gen/*.lean) and by a differential correspondence run of the real Go code against the model's executable definitions (harness/cmd/*, lean/Drivers/*)"}],
 "checks": checks,
 "notes": "See DESIGN.md. known_findings.json lists genuine defects (findings) and repaired ones (fixed).",
 "not_applicable": na,
}
json.dump(man, open(os.path.join(ROOT, "MANIFEST.json"), "w"), indent=1)
print("claimed:", [c["property_id"] for c in checks])
