#!/usr/bin/env python3
"""Union of the Go statement coverage of all checks' last runs (work/C*/cover.txt):
per file totals, and with -v FILE the uncovered blocks with their source lines."""
import glob, re, sys, os
blocks = {}
for f in glob.glob(os.path.join(os.path.dirname(os.path.abspath(__file__)), "..", "work", "C??", "cover.txt")):
    for line in open(f):
        m = re.match(r"(deps\.dev/\S+?):(\d+)\.(\d+),(\d+)\.(\d+) (\d+) (\d+)$", line.strip())
        if not m: continue
        k = (m.group(1)[9:], int(m.group(2)), int(m.group(3)), int(m.group(4)), int(m.group(5)), int(m.group(6)))
        blocks[k] = blocks.get(k, 0) + int(m.group(7))
files = {}
for k, c in blocks.items():
    a = files.setdefault(k[0], [0, 0]); a[0] += k[5]; a[1] += k[5] if c else 0
if len(sys.argv) > 2 and sys.argv[1] == "-v":
    repo = os.environ.get("VERIF_REPO", "/repo")
    for want in sys.argv[2:]:
        src = open(os.path.join(repo, want)).read().split("\n")
        for k in sorted(b for b, c in blocks.items() if b[0] == want and c == 0):
            print(f"{want}:{k[1]}-{k[3]}: " + " | ".join(s.strip() for s in src[k[1]-1:min(k[3], k[1]+3)])[:200])
else:
    for f, (n, k) in sorted(files.items()):
        if "_test" in f or ".pb." in f: continue
        print(f"{100.0*k/n:5.1f}% {k:5d}/{n:<5d} {f}")
