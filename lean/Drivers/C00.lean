import DepsDev.Drive.Loop
open DepsDev

def handleC00 : List String → String
  | ["echo", h] => match Bytes.ofHex h with
    | some b => "ok " ++ Bytes.toHex b
    | none => "bad-op"
  | _ => "bad-op"

def main : IO Unit := Drive.runDriver "C00" handleC00
