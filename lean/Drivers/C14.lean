import DepsDev.Model.Resolve.ClientWire
import DepsDev.Drive.Loop
open DepsDev

/-- C14 driver: one `seq` line = one history of the LocalClient model. -/
def handleC14 (args : List String) : String := (Resolve.Wire.handleC14 args).getD "bad-op"

def main : IO Unit := Drive.runDriver "C14" handleC14
