import DepsDev.Drive.Loop
import DepsDev.Model.Api.Render
open DepsDev DepsDev.Api.C17

/-- Hex of a string for result lines (as Go's `fw.Hx`). -/
def hexStr (s : String) : String := Bytes.toHex (Bytes.ofString s)

def unhex (h : String) : Option String :=
  match Bytes.ofHex h with
  | none => none
  | some b => String.fromUTF8? (ByteArray.mk b.toArray)

def handleC17 : List String → String
  | ["extract", src] => extract src
  | ["count", c] =>
    match checkList.find? (fun k => k.name == c) with
    | none => "bad-op"
    | some k => s!"ok {k.l.length} {k.r.length}"
  | ["group", c, h] =>
    match checkList.find? (fun k => k.name == c), unhex h with
    | some k, some owner => k.group owner
    | _, _ => "bad-op"
  | ["fact", c, h] =>
    match checkList.find? (fun k => k.name == c), unhex h with
    | some k, some key => k.fact key hexStr
    | _, _ => "bad-op"
  | _ => "bad-op"

def main : IO Unit := Drive.runDriver "C17" handleC17
