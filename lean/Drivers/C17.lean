import DepsDev.Drive.Loop
open DepsDev

/-- Stub: replaced by the property's builder. -/
def handleC17 : List String → String
  | _ => "bad-op"

def main : IO Unit := Drive.runDriver "C17" handleC17
