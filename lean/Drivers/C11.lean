import DepsDev.Drive.Semver
open DepsDev

def main : IO Unit := Drive.runDriver "C11" Drive.Semver.handleOrBad
