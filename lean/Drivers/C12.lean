import DepsDev.Drive.Loop
open DepsDev

/-- Stub: replaced by the property's builder. -/
def handleC12 : List String → String
  | _ => "bad-op"

def main : IO Unit := Drive.runDriver "C12" handleC12
