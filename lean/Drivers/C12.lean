import DepsDev.Drive.Semver
open DepsDev

def main : IO Unit := Drive.runDriver "C12" Drive.Semver.handleOrBad
