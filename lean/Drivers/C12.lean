import DepsDev.Model.Resolve.ClientWire
import DepsDev.Drive.Loop
open DepsDev

/-- C12 driver: `matchreq`, `sortv` answered by the model of match.go. -/
def handleC12 (args : List String) : String := (Resolve.Wire.handleC12 args).getD "bad-op"

def main : IO Unit := Drive.runDriver "C12" handleC12
