import DepsDev.Drive.Loop
import DepsDev.Model.Resolve.Maven
open DepsDev
open DepsDev.Resolve.Maven

/-! Line-protocol driver for C07 (wire format: `harness/cmd/c07/codec.go`).

  resolve U=<universe> T=<tables> root=<name>@<version>
      → `ok p=<passes> N=<root>;<nodes sorted> E=<edges sorted | ->` | `err incompatible|notfound|other`
  defaultkeys U=<universe>      → `ok true|false`   (`DefaultKeys`, the hypothesis of `m1_partial`)
-/

namespace C07Driver

def hx (s : String) : Option Bytes :=
  if s.isEmpty then none else Bytes.ofHex s

def nat? (s : String) : Option Nat :=
  match s.toNat? with
  | some n => if toString n == s then some n else none
  | none => none

def parseAttrs : List String → Nat → Option (List (Nat × Bytes))
  | [], _ => some []
  | p :: ps, last =>
    match p.splitOn "=" with
    | [k, v] => do
      let k ← nat? k
      if k ≤ last || k ≥ 64 then none
      let v ← hx v
      let rest ← parseAttrs ps k
      pure ((k, v) :: rest)
    | _ => none

def parseType : List String → Option DepType
  | [] => none
  | m :: ps => do
    let m ← nat? m
    if m > 31 then none
    let attrs ← parseAttrs ps 0
    pure { mask := m, attrs := attrs }

def parseImport (s : String) : Option Import :=
  match s.splitOn "~" with
  | n :: r :: t => do
    let n ← hx n
    let r ← hx r
    let t ← parseType t
    pure { name := n, req := r, typ := t }
  | _ => none

def parseVersion (s : String) : Option Version :=
  match s.splitOn ">" with
  | [] => none
  | v :: is => do
    let unlisted := v.startsWith "^"
    let v ← hx (if unlisted then (v.drop 1).toString else v)
    let is ← is.mapM parseImport
    pure { version := v, listed := !unlisted, imports := is }

def parsePackage (s : String) : Option Package :=
  match s.splitOn "|" with
  | [] => none
  | n :: vs => do
    let n ← hx n
    let vs ← vs.mapM parseVersion
    pure { name := n, versions := vs }

def parseReq (s : String) : Option ReqInfo :=
  match s.splitOn "|" with
  | r :: k :: sat => do
    let r ← hx r
    let k ← match k with
      | "s" => some ReqKind.soft
      | "h" => some ReqKind.hard
      | "b" => some ReqKind.bad
      | _ => none
    let sat ← sat.mapM hx
    pure { req := r, kind := k, sat := sat }
  | _ => none

def distinct [BEq α] : List α → Bool
  | [] => true
  | x :: xs => !xs.contains x && distinct xs

def wellFormed (u : Universe) : Bool :=
  distinct (u.pkgs.map (·.name))
  && u.pkgs.all (fun p => distinct (p.versions.map (·.version)))
  && distinct (u.reqs.map (·.req))
  && u.pkgs.all (fun p => p.versions.all fun v => v.imports.all fun d => (u.reqs.map (·.req)).contains d.req)

def parseLine : List String → Option (Universe × VK)
  | ["resolve", us, ts, rs] => do
    if !us.startsWith "U=" || !ts.startsWith "T=" || !rs.startsWith "root=" then none
    let us := (us.drop 2).toString
    let ts := (ts.drop 2).toString
    let pkgs ← if us == "-" then some [] else (us.splitOn ";").mapM parsePackage
    let reqs ← if ts == "-" then some [] else (ts.splitOn ";").mapM parseReq
    let root ← match ((rs.drop 5).toString).splitOn "@" with
      | [n, v] => do
        let n ← hx n
        let v ← hx v
        pure ({ name := n, version := v } : VK)
      | _ => none
    let u : Universe := { pkgs := pkgs, reqs := reqs }
    if !wellFormed u then none
    pure (u, root)
  | _ => none

def sortStrings (l : List String) : List String :=
  l.mergeSort (fun a b => decide (a ≤ b))

def insertAttr (a : Nat × Bytes) : List (Nat × Bytes) → List (Nat × Bytes)
  | [] => [a]
  | b :: bs => if a.1 ≤ b.1 then a :: b :: bs else b :: insertAttr a bs

def showType (t : DepType) : String :=
  let attrs := t.attrs.foldr insertAttr []
  toString t.mask ++ String.join (attrs.map fun (k, v) => s!",{k}={Bytes.toHex v}")

def showVK (v : VK) : String := Bytes.toHex v.name ++ "@" ++ Bytes.toHex v.version

def showNode (n : Node) : String :=
  showVK n.vk ++ String.join ((sortStrings (n.errors.map showVK)).map ("!" ++ ·))

def showGraph (g : Graph) : String :=
  let key (i : Nat) : String := match g.nodes[i]? with
    | some n => showVK n.vk
    | none => "?"
  let nodes := match g.nodes.map showNode with
    | [] => []
    | r :: rest => r :: sortStrings rest
  let edges := sortStrings (g.edges.map fun e => s!"{key e.src}>{key e.dst}:{Bytes.toHex e.req}:{showType e.typ}")
  let es := if edges.isEmpty then "-" else ";".intercalate edges
  "N=" ++ ";".intercalate nodes ++ " E=" ++ es

/-- `defaultkeys U=<universe>`: the hypothesis of `m1_partial` (classifier of F-C07-classifier). -/
def handleKeys (us : String) : String :=
  if !us.startsWith "U=" then "bad-op" else
  let us := (us.drop 2).toString
  match (if us == "-" then some [] else (us.splitOn ";").mapM parsePackage) with
  | none => "bad-op"
  | some pkgs => if DefaultKeys { pkgs := pkgs, reqs := [] } then "ok true" else "ok false"

def handle (f : List String) : String :=
  match f with
  | ["defaultkeys", us] => handleKeys us
  | _ =>
  match parseLine f with
  | none => "bad-op"
  | some (u, root) =>
    match Resolve u root u.fuel with
    | .graph s passes => s!"ok p={passes} {showGraph s.g}"
    | .err .incompatible => "err incompatible"
    | .err .notfound => "err notfound"
    | .err .other => "err other"
    | .outOfFuel => "fuel"

end C07Driver

def main : IO Unit := Drive.runDriver "C07" C07Driver.handle
