import DepsDev.Drive.Loop
import DepsDev.Model.Maven.Pipeline
import DepsDev.Model.Maven.Clauses
import DepsDev.Model.Maven.Api
import DepsDev.Ref.MavenModel
open DepsDev DepsDev.Model.Maven

/-! Line-protocol driver for C15. Ops (after the property id):

* `pom <lineage>`      → `ok deps=[…] mgmt=[…]` | `err`      (model of the Go pipeline)
* `ref <lineage>`      → `ok deps=[…] mgmt=[…]` | `err`      (the reference semantics)
* `classify <lineage>` → `ok a=0 b=0 c=0 d=0 f=0 g=0`        (1 = hypothesis clause violated)
* `interp <n> (<k> <v>)* <s>` → `ok <hex result> <0|1>`
* `apireq <lineage'>`    → `ok R[…]` | `err`   (model of `APIClient.Requirements` over the fake service)
* `apidirect <lineage'>` → `ok R[…]` | `err`   (the documented pipeline on the API's view of the lineage)
* `deptype <dep> <origin>` → `ok T[…] D[…]/o=…` | `ok T[…] err` | `ok T[…] panic`
* `typedep <type>`         → `ok D[…]/o=…` | `err` | `panic`

`<lineage>` is the token stream `L <n> pom…` documented in harness/cmd/c15/ast.go;
`<lineage'>` is that or the compact chain `C <n> <back|x> <0|1>` (harness/cmd/c15/api.go). -/

namespace C15Driver

abbrev P (α : Type) := List String → Option (α × List String)

def pStr : P Bytes
  | t :: rest => (Bytes.ofHex t).map (·, rest)
  | [] => none

/-- canonical decimal, at most 4 digits -/
def natOfDigits (cs : List Char) : Option Nat :=
  if cs.isEmpty || cs.length > 4 then none
  else if cs.length > 1 && cs.head? == some '0' then none
  else if cs.all Char.isDigit then some (cs.foldl (fun n c => n * 10 + (c.toNat - 48)) 0)
  else none

def pNat : P Nat
  | t :: rest => (natOfDigits t.toList).map (·, rest)
  | [] => none

def pLit (w : String) : P Unit
  | t :: rest => if t == w then some ((), rest) else none
  | [] => none

def splitOnChar (c : Char) : List Char → List (List Char)
  | [] => [[]]
  | x :: xs =>
    match splitOnChar c xs with
    | [] => [[]]
    | h :: t => if x = c then [] :: h :: t else (x :: h) :: t

/-- 1 to 5 dot separated canonical naturals -/
def numsOf (cs : List Char) : Option (List Nat) :=
  let parts := splitOnChar '.' cs
  if parts.length < 1 || parts.length > 5 then none else parts.mapM natOfDigits

def jdkOf (cs : List Char) : Option Jdk :=
  match cs with
  | ['-'] => some .absent
  | 's' :: rest => (numsOf rest).map (.simple false)
  | 'n' :: rest => (numsOf rest).map (.simple true)
  | 'r' :: body =>
    if body.length < 3 then none else
    match body.head?, body.getLast? with
    | some o, some c =>
      if (o = '[' || o = '(') && (c = ']' || c = ')') then
        let inner := (body.drop 1).dropLast
        match splitOnChar ',' inner with
        | [lo, hi] =>
          let plo := if lo.isEmpty then some none else (numsOf lo).map some
          let phi := if hi.isEmpty then some none else (numsOf hi).map some
          match plo, phi with
          | some l, some h => some (.range (o = '[') l h (c = ']'))
          | _, _ => none
        | _ => none
      else none
    | _, _ => none
  | _ => none

def pJdk : P Jdk
  | t :: rest => (jdkOf t.toList).map (·, rest)
  | [] => none

def pRepeat {α} (p : P α) : Nat → P (List α)
  | 0, ts => some ([], ts)
  | n + 1, ts => do
    let (x, ts) ← p ts
    let (xs, ts) ← pRepeat p n ts
    pure (x :: xs, ts)

def pCount (limit : Nat) : P Nat := fun ts => do
  let (n, ts) ← pNat ts
  if n > limit then none else pure (n, ts)

def pProp : P (Bytes × Bytes) := fun ts => do
  let (k, ts) ← pStr ts
  let (v, ts) ← pStr ts
  pure ((k, v), ts)

def pProps : P (List (Bytes × Bytes)) := fun ts => do
  let (n, ts) ← pCount 512 ts
  pRepeat pProp n ts

def pExcl : P Exclusion := fun ts => do
  let (g, ts) ← pStr ts
  let (a, ts) ← pStr ts
  pure (⟨g, a⟩, ts)

def pDep : P Dep := fun ts => do
  let (_, ts) ← pLit "D" ts
  let (g, ts) ← pStr ts
  let (a, ts) ← pStr ts
  let (v, ts) ← pStr ts
  let (typ, ts) ← pStr ts
  let (cls, ts) ← pStr ts
  let (scope, ts) ← pStr ts
  let (opt, ts) ← pStr ts
  let (n, ts) ← pCount 64 ts
  let (ex, ts) ← pRepeat pExcl n ts
  pure (⟨g, a, v, typ, cls, scope, opt, ex⟩, ts)

def pDeps : P (List Dep) := fun ts => do
  let (n, ts) ← pCount 64 ts
  pRepeat pDep n ts

def pProfile : P Profile := fun ts => do
  let (_, ts) ← pLit "F" ts
  let (abd, ts) ← pStr ts
  let (jdk, ts) ← pJdk ts
  let (on, ts) ← pStr ts
  let (ofam, ts) ← pStr ts
  let (oa, ts) ← pStr ts
  let (ov, ts) ← pStr ts
  let (props, ts) ← pProps ts
  let (deps, ts) ← pDeps ts
  let (mgmt, ts) ← pDeps ts
  pure (⟨abd, jdk, ⟨on, ofam, oa, ov⟩, props, deps, mgmt⟩, ts)

def pPom : P Project := fun ts => do
  let (_, ts) ← pLit "P" ts
  let (g, ts) ← pStr ts
  let (a, ts) ← pStr ts
  let (v, ts) ← pStr ts
  let (pg, ts) ← pStr ts
  let (pa, ts) ← pStr ts
  let (pv, ts) ← pStr ts
  let (pack, ts) ← pStr ts
  let (props, ts) ← pProps ts
  let (deps, ts) ← pDeps ts
  let (mgmt, ts) ← pDeps ts
  let (n, ts) ← pCount 64 ts
  let (profiles, ts) ← pRepeat pProfile n ts
  pure (⟨g, a, v, ⟨pg, pa, pv⟩, pack, props, deps, mgmt, profiles⟩, ts)

def pLineage (ts : List String) : Option Lineage := do
  let (_, ts) ← pLit "L" ts
  let (n, ts) ← pCount 64 ts
  if n < 1 then none else
  let (root, ts) ← pPom ts
  let (repo, ts) ← pRepeat pPom (n - 1) ts
  if ts.isEmpty then pure ⟨root, repo⟩ else none

/-! ### well-formedness: the strings on which XML decoding is the identity -/

def okText (s : Bytes) : Bool := s.all fun c => c ≥ 0x21 && c ≤ 0x7e && c != 60 && c != 62 && c != 38

def isLetter (c : UInt8) : Bool := (97 ≤ c && c ≤ 122) || (65 ≤ c && c ≤ 90) || c == 95

def okName (s : Bytes) : Bool :=
  match s with
  | [] => false
  | c :: rest => isLetter c && rest.all fun c => isLetter c || (48 ≤ c && c ≤ 57) || c == 46 || c == 45

def okBool (s : Bytes) : Bool :=
  s.isEmpty || s == bTrue || s == bFalse ||
    (okText s && Ref.MavenModel.containsSub s [cDollar, cOpen] && Ref.MavenModel.containsSub s [cClose])

def okJdk : Jdk → Bool
  | .range _ none none _ => false
  | .range _ (some lo) (some hi) _ => cmpNums lo hi == .lt
  | _ => true

def okDeps (ds : List Dep) : Bool :=
  ds.all fun d => okText d.g && okText d.a && okText d.v && okText d.typ && okText d.cls && okText d.scope &&
    okBool d.opt && d.excl.all fun e => okText e.g && okText e.a

def okProps (ps : List (Bytes × Bytes)) : Bool := ps.all fun kv => okName kv.1 && okText kv.2

def okPom (p : Project) : Bool :=
  okText p.g && okText p.a && okText p.v && okText p.parent.g && okText p.parent.a && okText p.parent.v &&
  okText p.packaging && okProps p.props && okDeps p.deps && okDeps p.mgmt &&
  p.profiles.all fun f => okBool f.abd && okJdk f.jdk && okProps f.props && okDeps f.deps && okDeps f.mgmt &&
    okText f.os.name && okText f.os.family && okText f.os.arch && okText f.os.version

def wf (L : Lineage) : Bool := okPom L.root && L.repo.all okPom

/-! ### output -/

def fmtDep (d : Dep) : String :=
  let ex := if d.excl.isEmpty then "-" else
    "+".intercalate (d.excl.map fun e => Bytes.toHex e.g ++ "/" ++ Bytes.toHex e.a)
  ":".intercalate [Bytes.toHex d.g, Bytes.toHex d.a, Bytes.toHex d.v, Bytes.toHex d.typ, Bytes.toHex d.cls,
    Bytes.toHex d.scope, Bytes.toHex d.opt, ex]

def fmtDeps (ds : List Dep) : String := "[" ++ ",".intercalate (ds.map fmtDep) ++ "]"

def fmtResult : Option (List Dep × List Dep) → String
  | none => "err"
  | some (deps, mgmt) => "ok deps=" ++ fmtDeps deps ++ " mgmt=" ++ fmtDeps mgmt

def b01 (holds : Bool) : String := if holds then "0" else "1"

/-! ### the API path -/

open DepsDev.Model.Maven.Api in
def pLineageArg : List String → Option Lineage
  | ["C", n, back, imp] => do
    let n ← natOfDigits n.toList
    if n > 400 then none else
    let back ← (if back == "x" then some none else (natOfDigits back.toList).map some)
    match back with
    | some b => if b > n then none else pure ()
    | none => pure ()
    if imp == "0" then some (chainLineage n back false)
    else if imp == "1" then some (chainLineage n back true)
    else none
  | ts =>
    match pLineage ts with
    | some L => if wf L then some L else none
    | none => none

def bit (b : Bool) : String := if b then "1" else "0"

def optHex : Option Bytes → String
  | none => "~"
  | some b => Bytes.toHex b

def fmtType (t : Api.DType) : String :=
  "m=" ++ bit t.dev ++ bit t.opt ++ bit t.test ++ "/s=" ++ optHex t.scope ++ "/c=" ++ optHex t.cls ++ "/t=" ++ optHex t.typ ++
    "/o=" ++ optHex t.origin ++ "/e=" ++ optHex t.excl

def fmtReqs : Option (List Api.Req) → String
  | none => "err"
  | some rs => "ok R[" ++ "+".intercalate (rs.map fun r => Bytes.toHex r.name ++ "/" ++ Bytes.toHex r.ver ++ "/" ++ fmtType r.typ) ++ "]"

def fmtBack : Api.Outcome (Dep × Bytes) → String
  | .ok (d, o) => "D" ++ fmtDeps [d] ++ "/o=" ++ Bytes.toHex o
  | .err => "err"
  | .panic => "panic"

/-- `~` (absent) or a hex string (`-` = empty) after the two-character prefix -/
def optOf (pre : String) (x : String) : Option (Option Bytes) :=
  if x.startsWith pre then
    let v := (x.drop 2).toString
    if v == "~" then some none
    else if v.isEmpty then none
    else (Bytes.ofHex v).map some
  else none

def bitOf : Char → Option Bool
  | '0' => some false
  | '1' => some true
  | _ => none

def typeOfToken (s : String) : Option Api.DType :=
  match (splitOnChar '/' s.toList).map String.ofList with
  | [m, sc, c, t, o, e] =>
    match m.toList with
    | ['m', '=', x, y, z] => do
      let dev ← bitOf x
      let opt ← bitOf y
      let test ← bitOf z
      let sc ← optOf "s=" sc
      let c ← optOf "c=" c
      let t ← optOf "t=" t
      let o ← optOf "o=" o
      let e ← optOf "e=" e
      pure ⟨dev, opt, test, sc, c, t, o, e⟩
    | _ => none
  | _ => none

def handle : List String → String
  | "pom" :: ts =>
    match pLineage ts with
    | some L => if wf L then fmtResult (goPipeline L) else "bad-op"
    | none => "bad-op"
  | "ref" :: ts =>
    match pLineage ts with
    | some L => if wf L then fmtResult (Ref.MavenModel.effective L) else "bad-op"
    | none => "bad-op"
  | "classify" :: ts =>
    match pLineage ts with
    | some L =>
      if wf L then
        "ok a=" ++ b01 (Clauses.clauseA L) ++ " b=" ++ b01 (Clauses.clauseB L) ++ " c=" ++ b01 (Clauses.clauseC L) ++
        " d=" ++ b01 (Clauses.clauseD L) ++ " f=" ++ b01 (Clauses.clauseF L) ++ " g=" ++ b01 (Clauses.clauseG L)
      else "bad-op"
    | none => "bad-op"
  | "apireq" :: ts =>
    match pLineageArg ts with
    | some L => fmtReqs (Api.apiOfLineage L)
    | none => "bad-op"
  | "apidirect" :: ts =>
    match pLineageArg ts with
    | some L => fmtReqs (Api.directOnView L)
    | none => "bad-op"
  | "deptype" :: ts =>
    match pDep ts with
    | some (d, [o]) =>
      match Bytes.ofHex o with
      | some origin =>
        let t := Api.mavenDepType d origin
        "ok T[" ++ fmtType t ++ "] " ++ fmtBack (Api.mavenDepTypeToDependency t)
      | none => "bad-op"
    | _ => "bad-op"
  | ["typedep", tok] =>
    match typeOfToken tok with
    | some t =>
      match Api.mavenDepTypeToDependency t with
      | .ok r => "ok " ++ fmtBack (.ok r)
      | r => fmtBack r
    | none => "bad-op"
  | "interp" :: ts =>
    match pProps ts with
    | some (table, [hs]) =>
      match Bytes.ofHex hs with
      | some s =>
        -- the project the harness builds: the string as Packaging and as the version of one dependency
        let p : Project := { Project.empty with props := table, packaging := s,
                                                deps := [⟨[103], [97], s, [], [], [], [], []⟩] }
        let q := p.Interpolate
        match q.deps with
        | [d] => if d.v == q.packaging then "ok " ++ Bytes.toHex q.packaging ++ " 1"
                 else "ok " ++ Bytes.toHex q.packaging ++ " inconsistent"
        | _ => "ok " ++ Bytes.toHex q.packaging ++ " 0"
      | none => "bad-op"
    | _ => "bad-op"
  | _ => "bad-op"

end C15Driver

def main : IO Unit := Drive.runDriver "C15" C15Driver.handle
