import DepsDev.Drive.Loop
import DepsDev.Model.Resolve.Graph
open DepsDev
open DepsDev.Resolve.GraphCanon

/-! Line-protocol driver for C13 (wire format: see `harness/cmd/c13/main.go`).

  gcanon v=<r>,<r>,…  e=<s>><d>:<reqhex>:<t>,…  err=<node>:<r>:<msghex>,…     (`-` = empty list)
      → `ok v=… e=… err=…` | `err` | `panic`
  ncmp <r>;<r>:<msghex>,…  <r>;<r>:<msghex>,…      → `ok -1|0|1`   (`Node.Compare`)
  vkorder | typeorder                               → `ok total`   (the rank encoding's assumption)
-/

namespace C13Driver

def listField (pfx : String) (s : String) : Option (List String) :=
  if s.startsWith pfx then
    let body := (s.drop pfx.length).toString
    if body == "-" then some [] else some (body.splitOn ",")
  else none

def parseEdge (s : String) : Option Edge :=
  match s.splitOn ":" with
  | [sd, rq, t] =>
    match sd.splitOn ">" with
    | [a, b] => do
      let a ← a.toNat?
      let b ← b.toNat?
      let rq ← Bytes.ofHex rq
      let t ← t.toNat?
      pure { src := a, dst := b, req := rq, typ := t }
    | _ => none
  | _ => none

def parseErr (s : String) : Option (Nat × NodeError) :=
  match s.splitOn ":" with
  | [n, r, m] => do
    let n ← n.toNat?
    let r ← r.toNat?
    let m ← Bytes.ofHex m
    pure (n, { req := r, msg := m })
  | _ => none

def parseNodeErr (s : String) : Option NodeError :=
  match s.splitOn ":" with
  | [r, m] => do
    let r ← r.toNat?
    let m ← Bytes.ofHex m
    pure { req := r, msg := m }
  | _ => none

/-- `AddError(n, …)`: append to node `n`'s errors; `none` if `n` is not a node. -/
def addError (nodes : List Node) (n : Nat) (e : NodeError) : Option (List Node) :=
  match nodes[n]? with
  | none => none
  | some nd => some (nodes.set n { nd with errs := nd.errs ++ [e] })

def parseGraph (v e er : String) : Option Graph := do
  let vs ← listField "v=" v
  let vs ← vs.mapM (·.toNat?)
  let es ← listField "e=" e
  let es ← es.mapM parseEdge
  let ers ← listField "err=" er
  let ers ← ers.mapM parseErr
  let nodes0 : List Node := vs.map (fun r => { ver := r, errs := [] })
  let nodes ← ers.foldlM (fun ns (p : Nat × NodeError) => addError ns p.1 p.2) nodes0
  pure { nodes := nodes, edges := es }

def joinOrDash (l : List String) : String :=
  if l.isEmpty then "-" else ",".intercalate l

def showGraph (g : Graph) : String :=
  let v := g.nodes.map (fun n => toString n.ver)
  let e := g.edges.map (fun e => s!"{e.src}>{e.dst}:{Bytes.toHex e.req}:{e.typ}")
  let er := g.nodes.zipIdx.flatMap (fun (n, i) =>
    n.errs.map (fun x => s!"{i}:{x.req}:{Bytes.toHex x.msg}"))
  s!"v={joinOrDash v} e={joinOrDash e} err={joinOrDash er}"

def parseNode (s : String) : Option Node :=
  match s.splitOn ";" with
  | [r, errs] => do
    let r ← r.toNat?
    let es ← if errs == "-" then some [] else (errs.splitOn ",").mapM parseNodeErr
    pure { ver := r, errs := es }
  | _ => none

def showOrd : Ordering → String
  | .lt => "-1"
  | .eq => "0"
  | .gt => "1"

def handle : List String → String
  | ["gcanon", v, e, er] =>
    match parseGraph v e er with
    | none => "bad-op"
    | some g =>
      match canon g with
      | .ok g' => "ok " ++ showGraph g'
      | .err => "err"
      | .panic _ => "panic"
  | ["ncmp", a, b] =>
    match parseNode a, parseNode b with
    | some a, some b => "ok " ++ showOrd (a.cmp b)
    | _, _ => "bad-op"
  | ["vkorder"] => "ok total"
  | ["typeorder"] => "ok total"
  | _ => "bad-op"

end C13Driver

def main : IO Unit := Drive.runDriver "C13" C13Driver.handle
