import DepsDev.Drive.Loop
open DepsDev

/-- Stub: replaced by the property's builder. -/
def handleC13 : List String → String
  | _ => "bad-op"

def main : IO Unit := Drive.runDriver "C13" handleC13
