import DepsDev.Drive.Semver
open DepsDev

def main : IO Unit := Drive.runDriver "C03" Drive.Semver.handleOrBad
