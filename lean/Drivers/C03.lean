import DepsDev.Drive.Semver
import DepsDev.Ref.CargoReq
import DepsDev.Ref.MavenRange
open DepsDev DepsDev.Ref

/-!
Driver of C03. Library ops (`cparse`, `match`, …) go to the shared semver handlers
(the model of util/semver). `refsat <eco> <range ast> <version ast>` is answered by
the Ref specs and `classify …` by the finding-class predicates of `DepsDev/Ref/*`.
The ASTs arrive as comma separated tokens `<letter><payload>` and are decoded
structurally (no version-string parsing); spelling tokens (`V`, `B…`, blank and
separator digits) are dropped.
-/
namespace C03Drive

/-- Decimal payload: digits only, below 2^63 (the harness's int64). -/
def natTok (cs : List Char) : Option Nat :=
  if cs.isEmpty || !cs.all Char.isDigit then none else
  let n := cs.foldl (fun n c => n * 10 + (c.toNat - 48)) 0
  if n < 2 ^ 63 then some n else none

def toks (s : String) : List (List Char) :=
  if s == "-" then [] else (s.splitOn ",").map String.toList

/-! ### SemVer family -/

structure PAcc where
  nums : List XR := []
  pre : List Ident := []
  v : Bool := false

def PAcc.ok (a : PAcc) : Bool := 1 ≤ a.nums.length && a.nums.length ≤ 3
def PAcc.partial (a : PAcc) : Partial := { nums := a.nums, pre := a.pre }

/-- Consumes the tokens of one partial version; `none` = malformed token. -/
def decPartial : List (List Char) → PAcc → Option (PAcc × List (List Char))
  | [], a => some (a, [])
  | t :: rest, a =>
    match t with
    | [] => none
    | 'V' :: _ => decPartial rest { a with v := true }
    | 'N' :: d => (natTok d).bind fun n => decPartial rest { a with nums := a.nums ++ [.n n] }
    | 'X' :: _ | 'Y' :: _ | 'Z' :: _ => decPartial rest { a with nums := a.nums ++ [.x] }
    | 'I' :: d => (natTok d).bind fun n => decPartial rest { a with pre := a.pre ++ [.num n] }
    | 'S' :: d => if d.isEmpty then none else decPartial rest { a with pre := a.pre ++ [.alnum (String.ofList d)] }
    | 'B' :: _ => decPartial rest a
    | _ => some (a, t :: rest)

def decSemVer (s : String) : Option SemVerAst := do
  let (a, rest) ← decPartial (toks s) {}
  if !rest.isEmpty || a.v then none else
  match a.nums with
  | [.n M, .n m, .n p] => some { major := M, minor := m, patch := p, pre := a.pre }
  | _ => none

def opOf : Char → Option Op
  | 'n' => some .none | 'e' => some .eq | 'g' => some .gt | 'G' => some .ge | 'l' => some .lt
  | 'L' => some .le | 'c' => some .caret | 't' => some .tilde | 'b' => some .tilde
  | _ => none

/-- The comparators of one alternative. -/
def decComps : List (List Char) → Nat → List Comparator → Option (List Comparator × List (List Char))
  | ts, 0, acc => some (acc, ts)
  | [], _, acc => some (acc, [])
  | t :: rest, fuel + 1, acc =>
    match t with
    | ['C', o, _, _] => do
      let op ← opOf o
      let (a, rest') ← decPartial rest {}
      if !a.ok then none else
      decComps rest' fuel (acc ++ [{ op := op, p := a.partial }])
    | 'C' :: _ => none
    | _ => some (acc, t :: rest)

def decAlts : List (List Char) → Nat → List Alt → Option (List Alt)
  | [], _, acc => some acc
  | _, 0, _ => none
  | t :: rest, fuel + 1, acc =>
    match t with
    | ['A', _] =>
      match rest with
      | ['H'] :: rest1 => do
        let (lo, rest2) ← decPartial rest1 {}
        if !lo.ok then none else
        match rest2 with
        | ['T'] :: rest3 => do
          let (hi, rest4) ← decPartial rest3 {}
          if !hi.ok then none else
          decAlts rest4 fuel (acc ++ [.hyphen lo.partial hi.partial])
        | _ => none
      | _ => do
        let (cs, rest') ← decComps rest (rest.length + 1) []
        if cs.isEmpty then none else
        decAlts rest' fuel (acc ++ [.comps cs])
    | _ => none

def decRange (s : String) : Option RangeAst :=
  let ts := toks s
  decAlts ts (ts.length + 1) []

/-- A Cargo requirement spelled with `~>` is not in the crate's grammar. -/
def hasBacon (s : String) : Bool := (toks s).any fun t => match t with | 'C' :: 'b' :: _ => true | _ => false

/-! ### PEP 440 -/

structure VAcc where
  v : PepVer := { rel := [] }
  star : Bool := false

def decPepVer : List (List Char) → VAcc → Option (VAcc × List (List Char))
  | [], a => some (a, [])
  | t :: rest, a =>
    match t with
    | [] => none
    | 'N' :: d => (natTok d).bind fun n => decPepVer rest { a with v := { a.v with rel := a.v.rel ++ [n] } }
    | 'P' :: k :: d =>
      if d.isEmpty then none else
      match (match k with | 'a' => some PreKind.a | 'b' => some PreKind.b | 'r' => some PreKind.rc | _ => none), natTok d with
      | some k, some n => decPepVer rest { a with v := { a.v with pre := some (k, n) } }
      | _, _ => none
    | 'P' :: _ => none
    | 'O' :: d => (natTok d).bind fun n => decPepVer rest { a with v := { a.v with post := some n } }
    | 'D' :: d => (natTok d).bind fun n => decPepVer rest { a with v := { a.v with dev := some n } }
    | 'X' :: _ => decPepVer rest { a with star := true }
    | _ => some (a, t :: rest)

def decPepCand (s : String) : Option PepVer := do
  let (a, rest) ← decPepVer (toks s) {}
  if !rest.isEmpty || a.star || a.v.rel.isEmpty then none else some a.v

def pepOpOf : Char → Option PepOp
  | 'e' => some .eq | 'x' => some .ne | 'L' => some .le | 'G' => some .ge | 'l' => some .lt | 'g' => some .gt
  | 'b' => some .compat | _ => none

def decPepSpecGo : List (List Char) → Nat → PepSpec → Option PepSpec
  | [], _, acc => some acc
  | _, 0, _ => none
  | t :: rest, fuel + 1, acc =>
    match t with
    | ['C', o, _, _] => do
      let op ← pepOpOf o
      let (a, rest') ← decPepVer rest {}
      if a.v.rel.isEmpty then none else
      decPepSpecGo rest' fuel (acc ++ [{ op := op, v := a.v, star := a.star }])
    | _ => none

def decPepSpec (s : String) : Option PepSpec :=
  let ts := toks s
  decPepSpecGo ts (ts.length + 1) []

/-! ### Maven -/

def qualOf (s : String) : Option MvnQual :=
  if s == "alpha" then some .alpha else if s == "beta" then some .beta else if s == "milestone" then some .milestone
  else if s == "rc" then some .rc else if s == "snapshot" then some .snapshot else if s == "sp" then some .sp else none

def decMvnVer : List (List Char) → MvnVer → Option (MvnVer × List (List Char))
  | [], a => some (a, [])
  | t :: rest, a =>
    match t with
    | [] => none
    | 'N' :: d => (natTok d).bind fun n => decMvnVer rest { a with nums := a.nums ++ [n] }
    | 'Q' :: d => (qualOf (String.ofList d)).bind fun q => decMvnVer rest { a with qual := q }
    | 'M' :: d => (natTok d).bind fun n => if n == 0 || a.qual == .release then none else decMvnVer rest { a with qn := n }
    | _ => some (a, t :: rest)

def decMvnVerNE (ts : List (List Char)) : Option (MvnVer × List (List Char)) := do
  let (v, rest) ← decMvnVer ts { nums := [] }
  if v.nums.isEmpty then none else some (v, rest)

def decMvnCand (s : String) : Option MvnVer := do
  let (v, rest) ← decMvnVerNE (toks s)
  if rest.isEmpty then some v else none

def decMvnItems : List (List Char) → Nat → MvnRange → Option MvnRange
  | [], _, acc => some acc
  | _, 0, _ => none
  | t :: rest, fuel + 1, acc =>
    match t with
    | ['S'] => do
      let (v, rest') ← decMvnVerNE rest
      decMvnItems rest' fuel (acc ++ [.soft v])
    | ['E', _] => do
      let (v, rest') ← decMvnVerNE rest
      decMvnItems rest' fuel (acc ++ [.exact v])
    | ['R', li, hi, _] => do
      let (lo, rest1) ← (match rest with
        | ['L'] :: r => (decMvnVerNE r).map fun (v, r') => (some v, r')
        | r => some (none, r))
      let (up, rest2) ← (match rest1 with
        | ['U'] :: r => (decMvnVerNE r).map fun (v, r') => (some v, r')
        | r => some (none, r))
      decMvnItems rest2 fuel (acc ++ [.range (li == '1') (hi == '1') lo up])
    | _ => none

def decMvnRange (s : String) : Option MvnRange :=
  let ts := toks s
  decMvnItems ts (ts.length + 1) []

/-! ### ops -/

def b2s (b : Bool) : String := if b then "1" else "0"

def refsat (eco r v : String) : Option String :=
  if eco == "npm" || eco == "cargo" then do
    let rg ← decRange r
    let ver ← decSemVer v
    if eco == "npm" then
      some (if !NpmRange.valid rg then "invalid" else b2s (NpmRange.satisfies rg ver))
    else
      some (if hasBacon r || !CargoReq.valid rg then "invalid" else b2s (CargoReq.matches rg ver))
  else if eco == "pypi" then do
    let s ← decPepSpec r
    let c ← decPepCand v
    if c.pre.isSome || c.post.isSome || c.dev.isSome then none else
    some (if !Pep440Spec.valid s then "invalid" else b2s (Pep440Spec.contains s c.rel))
  else if eco == "maven" then do
    let rg ← decMvnRange r
    let c ← decMvnCand v
    some (if !MavenRange.valid rg then "invalid" else b2s (MavenRange.contains rg c))
  else none

def classify (eco r v : String) : Option (List String) :=
  if eco == "npm" then do
    let rg ← decRange r
    let ver ← decSemVer v
    some (NpmRange.classes rg ver)
  else if eco == "cargo" then do
    let rg ← decRange r
    let ver ← decSemVer v
    some (CargoReq.classes rg ver)
  else if eco == "pypi" then do
    let s ← decPepSpec r
    let _ ← decPepCand v
    some (Pep440Spec.classes s)
  else if eco == "maven" then do
    let rg ← decMvnRange r
    let c ← decMvnCand v
    some (MavenRange.classes rg c)
  else none

def handle (args : List String) : String :=
  match args with
  | ["refsat", eco, r, v] => match refsat eco r v with | some a => "ok " ++ a | none => "bad-op"
  | ["classify", eco, r, v] =>
    match classify eco r v with
    | some [] => "ok -"
    | some cl => "ok " ++ ",".intercalate cl
    | none => "bad-op"
  | _ => Drive.Semver.handleOrBad args

end C03Drive

def main : IO Unit := Drive.runDriver "C03" C03Drive.handle
