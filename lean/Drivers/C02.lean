import DepsDev.Drive.Semver
open DepsDev

def main : IO Unit := Drive.runDriver "C02" Drive.Semver.handleOrBad
