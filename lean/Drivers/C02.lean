import DepsDev.Drive.Semver
import DepsDev.Proofs.C02Embed

/-!
Driver for C02. Ops (fields after the property id):

* `parse <Sys> <hex>`, `cmp <Sys> <hexA> <hexB>` — the model (`Drive.Semver.handle`);
* `refcmp <eco> <astA> <astB>` — the reference spec `Ref.<E>.compare` on the decoded trees;
* `embed <eco> <ast>` — `r=<hex of render a>`, what the model parser shows of that string,
  what `embed a` shows, and whether `parse sys (render a) = ok (embed a)` holds structurally;
* `classify <eco> <ast>` — validity, library range, and the finding classes of the tree.

Tree encodings (no spaces): see `harness/cmd/c02/ast.go`.
-/
open DepsDev DepsDev.Semver DepsDev.Ref DepsDev.Proofs.C02 DepsDev.Drive.Semver

namespace C02Drive

def splitOnChar (c : Char) (s : String) : List String := s.splitOn (String.singleton c)

def natOf (cs : List Char) : Option Nat :=
  if cs.isEmpty || !cs.all Char.isDigit then none else (String.ofList cs).toNat?

def natOfStr (s : String) : Option Nat := natOf s.toList

/-- `-` = empty list; otherwise comma separated. -/
def listOf {α} (f : String → Option α) (s : String) : Option (List α) :=
  if s == "-" then some [] else (splitOnChar ',' s).mapM f

def identOf (s : String) : Option SemVer.Ident :=
  match s.toList with
  | 'n' :: r => (natOf r).map .num
  | 's' :: r => (Bytes.ofHex (String.ofList r)).map .alnum
  | _ => none

def hexNonEmpty (s : String) : Option Bytes := if s == "-" then none else Bytes.ofHex s

def semverOf (s : String) : Option SemVer.Ast :=
  match splitOnChar '/' s with
  | [nums, pre, build] =>
    match (splitOnChar '.' nums).mapM natOfStr with
    | some [a, b, c] => do
      let p ← listOf identOf pre
      let bl ← listOf hexNonEmpty build
      some { major := a, minor := b, patch := c, pre := p, build := bl }
    | _ => none
  | _ => none

def nugetOf (s : String) : Option NuGet.Ast :=
  match splitOnChar '/' s with
  | [nums, pre, build] =>
    match (splitOnChar '.' nums).mapM natOfStr with
    | some [a, b, c, d] => do
      let p ← listOf identOf pre
      let bl ← listOf hexNonEmpty build
      some { major := a, minor := b, patch := c, revision := d, pre := p, metadata := bl }
    | _ => none
  | _ => none

def gemSegOf (s : String) : Option Gem.Seg :=
  match s.toList with
  | 'n' :: r => (natOf r).map .num
  | 's' :: r => (Bytes.ofHex (String.ofList r)).map .str
  | _ => none

def gemOf (s : String) : Option Gem.Ast := (listOf gemSegOf s).map (fun l => { segs := l })

def optNat (s : String) : Option (Option Nat) :=
  if s == "-" then some none else (natOfStr s).map some

def pepPreOf (s : String) : Option (Option (Pep440.PreKind × Nat)) :=
  match s.toList with
  | ['-'] => some none
  | 'a' :: r => (natOf r).map (fun n => some (.a, n))
  | 'b' :: r => (natOf r).map (fun n => some (.b, n))
  | 'c' :: r => (natOf r).map (fun n => some (.rc, n))
  | _ => none

def pepLocalOf (s : String) : Option Pep440.LocalSeg :=
  match s.toList with
  | 'n' :: r => (natOf r).map .num
  | 's' :: r => (Bytes.ofHex (String.ofList r)).map .str
  | _ => none

def pepOf (s : String) : Option Pep440.Ast :=
  match splitOnChar '/' s with
  | [e, rel, pre, post, dev, loc] => do
    let e ← natOfStr e
    let rel ← (splitOnChar '.' rel).mapM natOfStr
    let pre ← pepPreOf pre
    let post ← optNat post
    let dev ← optNat dev
    let loc ← listOf pepLocalOf loc
    some { epoch := e, release := rel, pre := pre, post := post, dev := dev, loc := loc }
  | _ => none

def sepOf : Char → Option MavenCV.Sep
  | 'd' => some .dot
  | 'h' => some .dash
  | 't' => some .trans
  | _ => none

def mavenOf (s : String) : Option MavenCV.Ast :=
  match splitOnChar '/' s with
  | [nums, q, qn, snap] => do
    let nums ← (splitOnChar '.' nums).mapM natOfStr
    let q ← (match q.toList with
      | ['-'] => some none
      | c :: r => do
        let sp ← sepOf c
        let w ← Bytes.ofHex (String.ofList r)
        some (some (sp, w))
      | [] => none)
    let qn ← (match qn.toList with
      | ['-'] => some none
      | c :: r => do
        let sp ← sepOf c
        let n ← natOf r
        some (some (sp, n))
      | [] => none)
    let snap ← (if snap == "1" then some true else if snap == "0" then some false else none)
    some { nums := nums, qual := q, qnum := qn, snapshot := snap }
  | _ => none

def ordStr : Ordering → String
  | .lt => "ok -1"
  | .eq => "ok 0"
  | .gt => "ok 1"

/-- `embed` result. -/
def embedLine (sys : System) (r : Bytes) (e : Version) : String :=
  match parse sys r with
  | .ok v => s!"ok r={Bytes.toHex r} {dumpVersion v} | {dumpVersion e} eq={b2s (v == e)}"
  | .err => s!"err r={Bytes.toHex r}"
  | .panic => "panic"

def flags (xs : List (String × Bool)) : String :=
  let on := (xs.filter (·.2)).map (·.1)
  if on.isEmpty then "-" else ",".intercalate on

def classLine (valid inLib : Bool) (cls : List (String × Bool)) : String :=
  s!"ok v={b2s valid} lib={b2s inLib} c={flags cls}"

def semverSys : String → Option System
  | "npm" => some .npm
  | "cargo" => some .cargo
  | "go" => some .go
  | _ => none

def semverRender (sys : System) (a : SemVer.Ast) : Bytes :=
  if sys == .go then GoMod.render a else SemVer.render a

def handle : List String → Option String
  | ["refcmp", eco, sa, sb] =>
    match eco with
    | "nuget" => do let a ← nugetOf sa; let b ← nugetOf sb; some (ordStr (NuGet.compare a b))
    | "gem" => do let a ← gemOf sa; let b ← gemOf sb; some (ordStr (Gem.compare a b))
    | "pypi" => do let a ← pepOf sa; let b ← pepOf sb; some (ordStr (Pep440.compare a b))
    | "maven" => do let a ← mavenOf sa; let b ← mavenOf sb; some (ordStr (MavenCV.compare a b))
    | _ => do
      let _ ← semverSys eco
      let a ← semverOf sa; let b ← semverOf sb
      some (ordStr (SemVer.precedence a b))
  | ["embed", eco, sa] =>
    match eco with
    | "nuget" => do let a ← nugetOf sa; some (embedLine .nuget (NuGet.render a) (embedNuGet a))
    | "gem" => do let a ← gemOf sa; some (embedLine .rubygems (Gem.render a) (embedGem a))
    | "pypi" => do let a ← pepOf sa; some (embedLine .pypi (Pep440.render a) (embedPep a))
    | "maven" => do let a ← mavenOf sa; some (embedLine .maven (MavenCV.render a) (embedMaven a))
    | _ => do
      let sys ← semverSys eco
      let a ← semverOf sa
      some (embedLine sys (semverRender sys a) (embedSemVer sys a))
  | ["classify", eco, sa] =>
    match eco with
    | "maven-spelling" => do let b ← Bytes.ofHex sa; some s!"ok z={b2s (zeroRun b)}"
    | "pypi-spelling" => do let b ← Bytes.ofHex sa; some s!"ok u={b2s (Pep.earlyUpper b)} ve={b2s (Pep.vEpoch b)}"
    | "nuget" => do let a ← nugetOf sa; some (classLine a.valid true [])
    | "gem" => do let a ← gemOf sa; some (classLine a.valid (Gem.inLib a) [("upper", !a.lower)])
    | "pypi" => do
      let a ← pepOf sa
      some (classLine a.valid (Pep.inLib a)
        [("post0", Pep.prePost0 a), ("localpostdev", Pep.localPostDev a), ("localpre", Pep.localPre a),
         ("localupper", Pep.localUpper a)])
    | "maven" => do
      let a ← mavenOf sa
      some (classLine a.valid (Maven.inLib a)
        [("finalsnapshot", Maven.finalSnapshot a), ("zerosnapshot", Maven.zeroSnapshot a),
         ("dotunknown", Maven.dotUnknown a), ("zerodot", Maven.zeroDot a)])
    | _ => do
      let _ ← semverSys eco
      let a ← semverOf sa
      some (classLine a.valid (SemVer.inLib a) [("bigpre", SemVer.bigPre a), ("negident", SemVer.negIdent a)])
  | args => Drive.Semver.handle args

end C02Drive

def main : IO Unit := Drive.runDriver "C02" (fun args => (C02Drive.handle args).getD "bad-op")
