import DepsDev.Drive.Loop
open DepsDev

/-- Stub: replaced by the property's builder. -/
def handleC08 : List String → String
  | _ => "bad-op"

def main : IO Unit := Drive.runDriver "C08" handleC08
