import DepsDev.Drive.Loop
import DepsDev.Model.Resolve.PypiHyp

/-! Line-protocol driver for C08: decodes the universe of an op line (format in
`harness/cmd/c08/universe.go`), runs the model, prints the canonical result. -/
open DepsDev DepsDev.Resolve.Pypi

namespace C08Drv

/-- decoded universe plus the tables needed to print results -/
structure Dec where
  pkgNames : Array String := #[]            -- hex
  verNames : Array (Array String) := #[]    -- hex, per package
  exts : Array (List Nat) := #[]
  reqs : Array (Array (List Req)) := #[]    -- per package, per version (reversed while parsing)
  extraIds : Array String := #[]            -- interned extras (hex)
  tyIds : Array (String × String) := #[]    -- interned (env token, extras token)
  rowKeys : Array (String × String) := #[]  -- (pkg hex, spec hex) per match row
  rows : Array MatchRow := #[]

def findIdx (a : Array String) (s : String) : Option Nat := a.findIdx? (· == s)

def intern (a : Array String) (s : String) : Array String × Nat :=
  match findIdx a s with
  | some i => (a, i)
  | none => (a.push s, a.size)

def splitComma (b : Bytes) : List Bytes :=
  let rec go : Bytes → Bytes → List Bytes
    | [], cur => [cur.reverse]
    | x :: xs, cur => if x == 44 then cur.reverse :: go xs [] else go xs (x :: cur)
  go b []

def containsEqEq : Bytes → Bool
  | 61 :: 61 :: _ => true
  | _ :: rest => containsEqEq rest
  | [] => false

def lowerAscii (b : Bytes) : Bytes := b.map fun x => if 65 ≤ x && x ≤ 90 then x + 32 else x

def parseCells (s : String) : Option Marker :=
  if s == "-" then some .none
  else if s == "E" then some .error
  else do
    let cs ← s.toList.mapM fun c =>
      if c == '0' then some Cell.f else if c == '1' then some Cell.t else if c == 'P' then some Cell.p else none
    some (.table cs)

def splitList (s : String) : List String := if s == "" then [] else s.splitOn ","

/-- first pass: package names, version names (P and V tokens only) -/
def pass1 : List String → Dec → Option Dec
  | [], d => some d
  | "P" :: n :: _x :: rest, d =>
    pass1 rest { d with pkgNames := d.pkgNames.push n, verNames := d.verNames.push #[] }
  | "V" :: v :: rest, d =>
    if d.verNames.size == 0 then none
    else
      let i := d.verNames.size - 1
      pass1 rest { d with verNames := d.verNames.modify i (·.push v) }
  | "R" :: _ :: _ :: _ :: _ :: _ :: rest, d => pass1 rest d
  | "M" :: p :: s :: _ :: _ :: _ :: rest, d => pass1 rest { d with rowKeys := d.rowKeys.push (p, s) }
  | _, _ => none

def internExtras (d : Dec) (hexes : List String) : Dec × List Nat :=
  hexes.foldl (fun (acc : Dec × List Nat) h =>
    let (a, i) := intern acc.1.extraIds h
    ({ acc.1 with extraIds := a }, acc.2 ++ [i])) (d, [])

def parseVers (d : Dec) (pkgHex : String) (s : String) : Option (Option (List Nat)) :=
  if s == "err" then some none
  else do
    let p ← findIdx d.pkgNames pkgHex
    let vs ← d.verNames[p]?
    let ids ← (splitList s).mapM fun h => findIdx vs h
    some (some ids)

/-- second pass: requirements and match rows; `cur` = (package, version) being filled -/
def pass2 : List String → Dec → Option Dec
  | [], d => some d
  | "P" :: _ :: x :: rest, d => do
    let xs ← if x.startsWith "X=" then some (splitList (x.drop 2).toString) else none
    let (d, ids) := internExtras d xs
    pass2 rest { d with exts := d.exts.push ids, reqs := d.reqs.push #[] }
  | "V" :: _ :: rest, d =>
    if d.reqs.size == 0 then none
    else pass2 rest { d with reqs := d.reqs.modify (d.reqs.size - 1) (·.push []) }
  | "R" :: p :: s :: env :: ex :: tr :: rest, d => do
    let pi := (findIdx d.pkgNames p).getD d.pkgNames.size
    let row ← d.rowKeys.findIdx? (· == (p, s))
    let sb ← Bytes.ofHex s
    let exIds ← if ex == "~" then some (d, []) else do
      let eb ← Bytes.ofHex ex
      some (internExtras d ((splitComma eb).map Bytes.toHex))
    let (d, exl) := exIds
    let ty := match d.tyIds.findIdx? (· == (env, ex)) with
      | some i => (d.tyIds, i)
      | none => (d.tyIds.push (env, ex), d.tyIds.size)
    let d := { d with tyIds := ty.1 }
    let m ← parseCells tr
    let r : Req := { pkg := pi, spec := row, ty := ty.2, nonEmpty := !sb.isEmpty, hasEqEq := containsEqEq sb,
                     extras := exl, marker := m }
    if d.reqs.size == 0 then none
    else
      let i := d.reqs.size - 1
      let vs := d.reqs[i]!
      if vs.size == 0 then none
      else pass2 rest { d with reqs := d.reqs.modify i (fun vs => vs.modify (vs.size - 1) (· ++ [r])) }
  | "M" :: p :: _ :: hp :: n :: pr :: rest, d => do
    let nv ← if n.startsWith "n=" then parseVers d p (n.drop 2).toString else none
    let pv ← if pr.startsWith "p=" then parseVers d p (pr.drop 2).toString else none
    let h ← if hp == "1" then some true else if hp == "0" then some false else none
    pass2 rest { d with rows := d.rows.push ⟨h, nv, pv⟩ }
  | _, _ => none

def toUniverse (d : Dec) : Universe :=
  { pkgs := (List.range d.pkgNames.size).map fun i =>
      let nameB := (Bytes.ofHex (d.pkgNames[i]!)).getD []
      { delay := lowerAscii nameB == Gen.C08Consts.delayedName,
        exts := d.exts[i]!,
        vers := (d.reqs[i]!).toList }
    rows := d.rows.toList }

def parseRoot (d : Dec) (tok : String) : Option Ver :=
  if !tok.startsWith "root=" then none
  else
    match ((tok.drop 5).toString).splitOn "@" with
    | [n, v] =>
      match findIdx d.pkgNames n with
      | none => some ⟨d.pkgNames.size, 0⟩
      | some p => some ⟨p, (findIdx (d.verNames[p]!) v).getD (d.verNames[p]!).size⟩
    | _ => none

def verTok (d : Dec) (v : Ver) : String :=
  match d.pkgNames[v.pkg]?, (d.verNames[v.pkg]?).bind (·[v.id]?) with
  | some n, some s => n ++ "@" ++ s
  | _, _ => "?"

def edgeTok (d : Dec) (e : Edge) : String :=
  let spec := match d.rowKeys[e.req.spec]? with | some (_, s) => s | none => "?"
  let (env, ex) := match d.tyIds[e.req.ty]? with | some t => t | none => ("?", "?")
  verTok d e.src ++ ">" ++ verTok d e.dst ++ ":" ++ spec ++ ":" ++ env ++ ":" ++ ex

def sortStrs (xs : List String) : List String := xs.mergeSort (fun a b => compare a b != .gt)

def b01 (b : Bool) : String := if b then "1" else "0"

def decode (toks : List String) : Option (Dec × Ver) := do
  match toks with
  | rootTok :: rest =>
    let d ← pass1 rest {}
    let d ← pass2 rest d
    if d.reqs.size != d.pkgNames.size || d.rows.size != d.rowKeys.size then none
    let root ← parseRoot d rootTok
    some (d, root)
  | [] => none

def handle : List String → String
  | "resolve" :: toks =>
    match decode toks with
    | none => "bad-op"
    | some (d, root) =>
      match Resolve (toUniverse d) root with
      | .err => "err"
      | .panic => "panic"
      | .fuel => "model-fuel"
      | .graphError => "ok gerr=1"
      | .graph g _ _ =>
        let rootTok := match g.nodes.head? with | some r => verTok d r | none => "none"
        "ok gerr=0 root=" ++ rootTok ++ " N=" ++ ",".intercalate (sortStrs (g.nodes.map (verTok d))) ++
          " E=" ++ ",".intercalate (sortStrs (g.edges.map (edgeTok d)))
  | "classify" :: toks =>
    match decode toks with
    | none => "bad-op"
    | some (d, root) =>
      let U := toUniverse d
      match Resolve U root with
      | .graph _ S ids => "ok late=" ++ b01 (!noLateExtras U S) ++ " route=" ++ b01 (!routeClosed S ids) ++
          " stale=" ++ b01 (!noStale S ids)
      | _ => "ok late=0 route=0 stale=0"
  | "dump" :: toks =>
    match decode toks with
    | none => "bad-op"
    | some (d, root) => (toString (repr (toUniverse d))).replace "\n" " " ++ " ROOT " ++ toString (repr root)
  | _ => "bad-op"

end C08Drv

def main : IO Unit := Drive.runDriver "C08" C08Drv.handle
