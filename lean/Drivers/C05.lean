import DepsDev.Drive.Loop
import DepsDev.Model.Resolve.Lru
open DepsDev

/-! Driver of C05. The tie of this property is NOT a model-vs-code output diff
(`"model_driver": false` in props/C05.json): the Lean side consists of theorems, tied to the
code by the regenerated translator facts and by the history / permutation / concurrency replay
oracle of harness/cmd/c05. The driver only offers the LRU model for manual exploration:

    C05 lru <cap> a<k>=<v> g<k> ...     ->  ok <get results, - for a miss> | <recency list>

`history` and `race` ops have no model counterpart and answer `not-modelled`. -/

def parseNat? (s : String) : Option Nat := s.toNat?

def runLru : Resolve.Lru.Cache Nat Nat → List String → List String → Option (List String × Resolve.Lru.Cache Nat Nat)
  | c, [], acc => some (acc.reverse, c)
  | c, op :: rest, acc =>
    if op.startsWith "a" then
      match (op.drop 1).toString.splitOn "=" with
      | [k, v] =>
        match parseNat? k, parseNat? v with
        | some k, some v =>
          match Resolve.Lru.add c k v with
          | none => none
          | some c' => runLru c' rest acc
        | _, _ => none
      | _ => none
    else if op.startsWith "g" then
      match parseNat? (op.drop 1).toString with
      | some k =>
        let (r, c') := Resolve.Lru.get c k
        runLru c' rest ((match r with | some v => toString v | none => "-") :: acc)
      | none => none
    else none

def handleC05 : List String → String
  | "lru" :: cap :: ops =>
    match parseNat? cap with
    | none => "bad-op"
    | some n =>
      match runLru (Resolve.Lru.new n) ops [] with
      | none => "panic"
      | some (rs, c) =>
        "ok " ++ " ".intercalate rs ++ " | " ++
          " ".intercalate (c.entries.map fun e => toString e.1 ++ "=" ++ toString e.2)
  | "history" :: _ => "not-modelled"
  | "race" :: _ => "not-modelled"
  | _ => "bad-op"

def main : IO Unit := Drive.runDriver "C05" handleC05
