import DepsDev.Drive.Loop
open DepsDev

/-- Stub: replaced by the property's builder. -/
def handleC05 : List String → String
  | _ => "bad-op"

def main : IO Unit := Drive.runDriver "C05" handleC05
