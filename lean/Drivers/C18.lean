import DepsDev.Drive.Loop
import DepsDev.Model.Resolve.ApiClientMatch
open DepsDev
open DepsDev.Model.Resolve.ApiClient

/-! Line-protocol driver for C18: decodes the universe and the call sequence of
harness/cmd/c18 (universe.go has the wire grammar), runs the calls on the model of the
API client over the service the universe denotes, and prints every call's result
exactly as the harness does. -/

namespace C18Driver

structure UVer where
  version : Bytes
  isDefault : Bool
  noNpm : Bool
  regs : List Bytes
  deps : Deps
  bundled : List Bundle

structure UPkg where
  name : Bytes
  vers : List UVer

abbrev Universe := List UPkg

/-! ### token parser -/

abbrev P (α : Type) := List String → Option (α × List String)

def unhex (s : String) : Option Bytes := if s.isEmpty then none else Bytes.ofHex s

def pStr : P Bytes
  | [] => none
  | t :: ts => (unhex t).map (·, ts)

/-- canonical decimal count: no sign, no leading zero, at most 4 digits. -/
def pNum : P Nat
  | [] => none
  | t :: ts =>
    let cs := t.toList
    if cs.isEmpty || cs.length > 4 || (cs.length > 1 && cs.head? == some '0') || !cs.all Char.isDigit then none
    else some (cs.foldl (fun n c => n * 10 + (c.toNat - 48)) 0, ts)

def pBool : P Bool
  | "0" :: ts => some (false, ts)
  | "1" :: ts => some (true, ts)
  | _ => none

def pMany {α} (p : P α) : Nat → P (List α)
  | 0, ts => some ([], ts)
  | n + 1, ts => do
    let (x, ts) ← p ts
    let (xs, ts) ← pMany p n ts
    some (x :: xs, ts)

def pCounted {α} (p : P α) : P (List α) := fun ts => do
  let (n, ts) ← pNum ts
  pMany p n ts

def pDep : P Dep := fun ts => do
  let (n, ts) ← pStr ts
  let (r, ts) ← pStr ts
  some (⟨n, r⟩, ts)

def pDeps : P Deps := fun ts => do
  let (a, ts) ← pCounted pDep ts
  let (b, ts) ← pCounted pDep ts
  let (c, ts) ← pCounted pDep ts
  let (d, ts) ← pCounted pDep ts
  let (e, ts) ← pCounted pStr ts
  some (⟨a, b, c, d, e⟩, ts)

def pBundle : P Bundle := fun ts => do
  let (p, ts) ← pStr ts
  let (n, ts) ← pStr ts
  let (v, ts) ← pStr ts
  let (d, ts) ← pDeps ts
  some (⟨p, n, v, d⟩, ts)

def pVer : P UVer := fun ts => do
  let (v, ts) ← pStr ts
  let (dflt, ts) ← pBool ts
  let (nonpm, ts) ← pBool ts
  let (regs, ts) ← pCounted pStr ts
  let (d, ts) ← pDeps ts
  let (bs, ts) ← pCounted pBundle ts
  some (⟨v, dflt, nonpm, regs, d, bs⟩, ts)

def pPkg : P UPkg := fun ts => do
  let (n, ts) ← pStr ts
  let (vs, ts) ← pCounted pVer ts
  some (⟨n, vs⟩, ts)

def decUniverse (s : String) : Option Universe :=
  match pCounted pPkg (s.splitOn ",") with
  | some (u, []) => some u
  | _ => none

def decVType : String → Option VType
  | "c" => some .concrete
  | "r" => some .requirement
  | _ => none

def decCall (s : String) : Option Call :=
  match s.splitOn ":" with
  | ["s", n] => (unhex n).map Call.versions
  | [k, n, t, v] => do
    let n ← unhex n
    let t ← decVType t
    let v ← unhex v
    match k with
    | "v" => some (.version ⟨n, t, v⟩)
    | "r" => some (.requirements ⟨n, t, v⟩)
    | "m" => some (.matching ⟨n, t, v⟩)
    | _ => none
  | _ => none

def decCalls (s : String) : Option (List Call) := (s.splitOn ",").mapM decCall

def decSegs (s : String) : Option (List Call) := do
  let segs ← (s.splitOn ";").mapM decCalls
  some segs.flatten

/-! ### the service a universe denotes (first package / first version of a name wins) -/

def findVer (u : Universe) (name ver : Bytes) : Option UVer := do
  let p ← u.find? (·.name == name)
  p.vers.find? (·.version == ver)

def serviceOf (u : Universe) : Service where
  getPackage name := (u.find? (·.name == name)).map fun p => p.vers.map fun v => ⟨v.version, v.isDefault⟩
  getVersion name ver := (findVer u name ver).map fun v => ⟨v.isDefault, v.regs⟩
  getRequirements name ver := (findVer u name ver).map fun v =>
    if v.noNpm then none else some ⟨v.deps, v.bundled⟩

/-! ### canonical dumps (fake.go) -/

def optHx : Option Bytes → String
  | none => "~"
  | some b => Bytes.toHex b

def b01 (b : Bool) : String := if b then "1" else "0"

def dumpVK (vk : VersionKey) : String :=
  Bytes.toHex vk.name ++ "/" ++ (match vk.vtype with | .concrete => "c" | .requirement => "r") ++ "/" ++ Bytes.toHex vk.version

def dumpVersion (v : Version) : String :=
  dumpVK v.key ++ "/t=" ++ optHx v.attrs.tags ++ "/g=" ++ optHx v.attrs.registries ++ "/d=" ++ optHx v.attrs.derivedFrom

def dumpReq (r : ReqVer) : String :=
  dumpVK r.key ++ "/m=" ++ b01 r.typ.dev ++ b01 r.typ.opt ++ "/s=" ++ optHx r.typ.scope ++ "/k=" ++ optHx r.typ.knownAs

def dumpRes {α} (f : α → String) : Res α → String
  | .ok a => f a
  | .err => "err"
  | .panic => "panic"

def dumpObs : Obs → String
  | .version r => dumpRes (fun v => "V" ++ dumpVersion v) r
  | .versions r => dumpRes (fun vs => "L[" ++ "+".intercalate (vs.map dumpVersion) ++ "]") r
  | .requirements r => dumpRes (fun rs => "R[" ++ "+".intercalate (rs.map dumpReq) ++ "]") r

def runDump (u : Universe) (cs : List Call) : String :=
  let r := runCalls DepsDev.Model.Resolve.ApiClientMatch.matchNPMRequirement (serviceOf u) Store.empty cs
  "ok " ++ ",".intercalate (r.1.map dumpObs)

def handle : List String → Option String
  | ["apiclient", u, cs] => do
    let u ← decUniverse u
    let cs ← decCalls cs
    some (runDump u cs)
  | ["resolve", u, cs, n, v] => do
    let u ← decUniverse u
    let cs ← decCalls cs
    let _ ← unhex n
    let _ ← unhex v
    some (runDump u cs)
  | ["conc", u, segs] => do
    let u ← decUniverse u
    let cs ← decSegs segs
    some (runDump u cs)
  | ["racedet", u, segs] => do
    let _ ← decUniverse u
    let _ ← decSegs segs
    -- the model's steps are atomic: it cannot exhibit a data race
    some "ok races=0"
  | ["classifyv", v] => do
    let v ← unhex v
    some ("ok " ++ b01 (rangeSyntax v))
  | ["classify", t] => do
    let t ← unhex t
    some ("ok " ++ b01 (hasRange t))
  | _ => none

end C18Driver

def handleC18 (args : List String) : String := (C18Driver.handle args).getD "bad-op"

def main : IO Unit := Drive.runDriver "C18" handleC18
