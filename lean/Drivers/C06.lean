import DepsDev.Drive.Loop
import DepsDev.Model.Resolve.Npm
import DepsDev.Model.Resolve.NpmBundle
import DepsDev.Props.C06
open DepsDev
open DepsDev.Resolve.Npm
open DepsDev.Resolve

/-! Line-protocol driver for C06 (wire format: see `harness/universe/npm_universe.go`).

  resolve t=<hex>,<hex>,…  <U>  root=<name>@<ver>  fuel=<n>
      → `ok N=… E=… T=…` | `err` | `timeout` | `bad-universe`
  classify t=…  <U>
      → `ok wf=<b> aliasfree=<b> latestlast=<b> optplain=<b> bundlefree=<b> conflictcycle=<b…>` (one bit per `v:` record: the root
        `v` reaches a conflict cycle): the hypotheses of the
        theorems of `Props/C06.lean`, evaluated by their own decision procedures (the harness's
        known-finding classifier must agree)

All strings are interned by the harness: the table `t=` (ignored here) lists them,
every other field uses indices into it (0 `""`, 1 `*`, 2 `bundle`, 3 `peer`, 4 `latest`).
`<U>` is a `;`-separated list of records

  v:<name>:<ver>:<mask>:<attrs>     a concrete version (`attrs` = `k=v,k=v…` or `_`)
  i:<name>:<req>:<mask>:<attrs>     an import of the preceding `v` (in `client.Requirements` order)
  m:<pkg>:<req>:<vers>              `client.MatchingVersions` (`!` = error, `_` = none, else `ver,ver…`)
  s:<req>:<vers>                    `semver.NPM.ParseConstraint(req)` (`!` = error) and the version strings it matches
  x:<name>:<suffix>                 for a name containing `>`: the part after the last `>` (bundles only)

Universes with a `DerivedFrom` version are answered by the extended model `NpmBundle`
(no theorems); all others by the core model `Npm`, and the extended model is run as well:
if the two differ the answer is `model-divergence`.

The run has `fuel` pops of the queue; exhausted fuel prints `timeout`. The harness
chooses the fuel: 2 + the number of edges of Go's graph when Go finishes (a run pops at
most 1 + |edges| times), a small constant when Go hits its deadline. -/

namespace C06Driver

def parseList (s : String) : Option (List String) :=
  if s == "_" then some [] else some (s.splitOn ",")

def parseAttrs (s : String) : Option (List (Nat × Name)) := do
  let items ← parseList s
  items.mapM fun it =>
    match it.splitOn "=" with
    | [k, v] => do
      let k ← k.toNat?
      let v ← v.toNat?
      pure (k, v)
    | _ => none

structure Raw where
  versions : List (Version × List Import) := []   -- reversed, imports reversed
  matching : List ((Name × Name) × Option (List Name)) := []
  semver : List (Name × Option (List Name)) := []
  suffix : List (Name × Name) := []

def parseRec (r : Raw) (rec : String) : Option Raw :=
  match rec.splitOn ":" with
  | ["v", n, v, m, a] => do
    let n ← n.toNat?
    let v ← v.toNat?
    let m ← m.toNat?
    let a ← parseAttrs a
    pure { r with versions := (⟨n, v, ⟨m, a⟩⟩, []) :: r.versions }
  | ["i", n, q, m, a] => do
    let n ← n.toNat?
    let q ← q.toNat?
    let m ← m.toNat?
    let a ← parseAttrs a
    match r.versions with
    | [] => none
    | (v, is) :: rest => pure { r with versions := (v, ⟨n, q, ⟨m, a⟩⟩ :: is) :: rest }
  | ["m", p, q, vs] => do
    let p ← p.toNat?
    let q ← q.toNat?
    if vs == "!" then pure { r with matching := ((p, q), none) :: r.matching }
    else
      let l ← parseList vs
      let l ← l.mapM (·.toNat?)
      pure { r with matching := ((p, q), some l) :: r.matching }
  | ["s", q, vs] => do
    let q ← q.toNat?
    if vs == "!" then pure { r with semver := (q, none) :: r.semver }
    else
      let l ← parseList vs
      let l ← l.mapM (·.toNat?)
      pure { r with semver := (q, some l) :: r.semver }
  | ["x", n, sfx] => do
    let n ← n.toNat?
    let sfx ← sfx.toNat?
    pure { r with suffix := (n, sfx) :: r.suffix }
  | _ => none

def parseUniverseB (s : String) : Option NpmBundle.BUniverse := do
  let r ← (s.splitOn ";").foldlM parseRec {}
  let versions := (r.versions.map fun (v, is) => (v, is.reverse)).reverse
  let matching ← r.matching.reverse.mapM fun ((p, q), a) =>
    match a with
    | none => some ((p, q), none)
    | some l => do
      let vs ← l.mapM fun ver =>
        match Universe.findVersion versions p ver with
        | some (v, _) => some v
        | none => none
      pure ((p, q), some vs)
  pure { u := { versions := versions, matching := matching, semver := r.semver.reverse }, suffix := r.suffix.reverse }

def parseUniverse (s : String) : Option Universe := (parseUniverseB s).map (·.u)

def parseRoot (s : String) : Option (Name × Name) :=
  if s.startsWith "root=" then
    match ((s.drop 5).toString).splitOn "@" with
    | [n, v] => do
      let n ← n.toNat?
      let v ← v.toNat?
      pure (n, v)
    | _ => none
  else none

def joinOr (sep : String) (l : List String) : String :=
  if l.isEmpty then "-" else sep.intercalate l

def showAttrs (a : AttrSet) : String :=
  s!"{a.mask}:" ++ joinOr "+" (a.attrs.map fun (k, v) => s!"{k}={v}")

def showNode (g : GNode) : String :=
  s!"{g.name}@{g.version}" ++ String.join (g.errs.map fun (p, q) => s!"!{p}@{q}")

def showEdge (e : Edge) : String :=
  s!"{e.src}>{e.dst}:{e.imp.req}:{showAttrs e.ty}"

/-- insertion sort of naturals (for the printed sets). -/
def insNat (x : Nat) : List Nat → List Nat
  | [] => [x]
  | y :: r => if x ≤ y then x :: y :: r else y :: insNat x r
def sortNat (l : List Nat) : List Nat := l.foldr insNat []

def lexLe : List Nat → List Nat → Bool
  | [], _ => true
  | _ :: _, [] => false
  | a :: r, b :: s => a < b || (a == b && lexLe r s)

/-- sort key of a tree entry: slot names from the root, then the alias flag of the last slot. -/
def entryKey (p : Path) : List Nat :=
  p.reverse.map (·.name) ++ [match p with | s :: _ => (if s.alias then 1 else 0) | [] => 0]

def insEntry (x : List Nat × String) : List (List Nat × String) → List (List Nat × String)
  | [] => [x]
  | y :: r => if lexLe x.1 y.1 then x :: y :: r else y :: insEntry x r

def showEntry (p : Path) (n : TNode) : String :=
  let path := if p.isEmpty then "." else "/".intercalate (p.reverse.map fun s => toString s.name)
  let isAlias := match p with | s :: _ => s.alias | [] => false
  let flags := (if isAlias then "a" else "") ++ (if n.processed then "p" else "")
  let flags := if flags.isEmpty then "-" else flags
  s!"{path}:{n.ver.name}@{n.ver.version}#{n.id}:{flags}:" ++
    joinOr "+" ((sortNat n.prot).map toString) ++ ":" ++ joinOr "+" ((sortNat n.aprot).map toString)

def showState (st : State) : String :=
  let entries := st.tree.foldr (fun (p, n) acc => insEntry (entryKey p, showEntry p n) acc) []
  "ok N=" ++ joinOr "," (st.nodes.map showNode) ++
  " E=" ++ joinOr "," (st.edges.map showEdge) ++
  " T=" ++ joinOr "," (entries.map (·.2))

def showEntryB (p : Path) (n : NpmBundle.BNode) : String :=
  let path := if p.isEmpty then "." else "/".intercalate (p.reverse.map fun s => toString s.name)
  let isAlias := match p with | s :: _ => s.alias | [] => false
  let flags := (if isAlias then "a" else "") ++ (if n.bundled.isSome then "b" else "") ++ (if n.processed then "p" else "")
  let flags := if flags.isEmpty then "-" else flags
  s!"{path}:{n.ver.name}@{n.ver.version}#{n.id}:{flags}:" ++
    joinOr "+" ((sortNat n.prot).map toString) ++ ":" ++ joinOr "+" ((sortNat n.aprot).map toString)

def insPair (x : Nat × Nat) : List (Nat × Nat) → List (Nat × Nat)
  | [] => [x]
  | y :: r => if x.1 < y.1 || (x.1 == y.1 && x.2 ≤ y.2) then x :: y :: r else y :: insPair x r

def showStateB (st : NpmBundle.BState) : String :=
  -- detached subtrees (ghost slots) are not reachable from the root: Go's export does not see them
  let live := st.tree.filter fun (p, _) => p.all fun s => s.name < NpmBundle.ghostBase
  let entries := live.foldr (fun (p, n) acc => insEntry (entryKey p, showEntryB p n) acc) []
  let unused := st.unused.foldr insPair []
  "ok N=" ++ joinOr "," (st.nodes.map showNode) ++
  " E=" ++ joinOr "," (st.edges.map showEdge) ++
  " T=" ++ joinOr "," (entries.map (·.2)) ++
  (if unused.isEmpty then "" else " X=" ++ "+".intercalate (unused.map fun (n, v) => s!"{n}@{v}"))

def runB (bu : NpmBundle.BUniverse) (rn rv fuel : Nat) : String :=
  match DepsDev.Resolve.NpmBundle.resolve bu rn rv fuel with
  | none => "timeout"
  | some .bad => "bad-universe"
  | some .err => "err"
  | some (.ok st) => showStateB st

def hasBundles (u : Universe) : Bool :=
  u.versions.any fun (v, _) => (v.attr.get verDerivedFrom).isSome

def run (us root : String) (fuel : Nat) : String :=
    match parseUniverseB us, parseRoot root with
    | some bu, some (rn, rv) =>
      if hasBundles bu.u then runB bu rn rv fuel else
      let core := match resolve bu.u rn rv fuel with
        | none => "timeout"
        | some .bad => "bad-universe"
        | some .err => "err"
        | some (.ok st) => showState st
      if core == runB bu rn rv fuel then core else "model-divergence"
    | _, _ => "bad-op"

def bit (b : Bool) : String := if b then "1" else "0"

def classify (us : String) : String :=
  match parseUniverse us with
  | none => "bad-op"
  | some u =>
    s!"ok wf={bit (decide (Props.C06.WF u))} aliasfree={bit (decide (Props.C06.AliasFree u))} " ++
    s!"latestlast={bit (decide (Props.C06.LatestLast u))} optplain={bit (decide (Props.C06.OptPlain u))} " ++
    s!"bundlefree={bit (!hasBundles u)} conflictcycle=" ++
    String.join (u.versions.map fun e => bit (Props.C06.conflictCycleFrom u e.1.name e.1.version))

def handle : List String → String
  | ["classify", _t, us] => classify us
  | ["resolve", _t, us, root, fuel] =>
    if fuel.startsWith "fuel=" then
      match ((fuel.drop 5).toString).toNat? with
      | some f => run us root f
      | none => "bad-op"
    else "bad-op"
  | _ => "bad-op"

end C06Driver

def main : IO Unit := Drive.runDriver "C06" C06Driver.handle
