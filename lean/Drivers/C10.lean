import DepsDev.Drive.Semver
open DepsDev

def main : IO Unit := Drive.runDriver "C10" Drive.Semver.handleOrBad
