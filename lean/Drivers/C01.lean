import DepsDev.Drive.Semver
open DepsDev

def main : IO Unit := Drive.runDriver "C01" Drive.Semver.handleOrBad
