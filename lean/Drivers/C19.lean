import DepsDev.Drive.Loop
import DepsDev.Model.Resolve.AttrMachine
open DepsDev
open DepsDev.Model.Resolve.Attr DepsDev.Model.Resolve.AttrMachine

/-! Line-protocol driver for C19: parses one op line of harness/cmd/c19/machine.go,
runs it on the model, prints the observations exactly as the harness does. -/

namespace C19Driver

def digitsVal (ds : List Char) : Nat := ds.foldl (fun acc c => acc * 10 + (c.toNat - 48)) 0

/-- the harness's `atoi`: canonical decimal, at most 4 characters. -/
def atoi (s : String) : Option Int :=
  let cs := s.toList
  if cs.length = 0 || cs.length > 4 then none else
  match cs with
  | '-' :: ds =>
    if ds.isEmpty || ds.head? == some '0' || !ds.all Char.isDigit then none
    else some (-(digitsVal ds : Int))
  | ds =>
    if !ds.all Char.isDigit || (ds.length > 1 && ds.head? == some '0') then none
    else some (digitsVal ds : Int)

def regIdx (s : String) : Option Nat :=
  match atoi s with
  | some n => if 0 ≤ n && n < 16 then some n.toNat else none
  | none => none

def count (s : String) : Option Nat :=
  match atoi s with
  | some n => if 0 ≤ n && n ≤ 16 then some n.toNat else none
  | none => none

def unhex (s : String) : Option Bytes :=
  if s == "-" then some [] else if s.isEmpty then none else Bytes.ofHex s

def parseOp (tok : String) : Option Op :=
  match tok.splitOn ":" with
  | ["n", r] => (regIdx r).map Op.new
  | ["s", r, k, v] => do some (Op.set (← regIdx r) (← atoi k) (← unhex v))
  | ["m", r, n] => do
    let n ← atoi n
    if n < 0 then none else some (Op.orMask (← regIdx r) n.toNat)
  | ["c", r, r2] => do some (Op.clone (← regIdx r) (← regIdx r2))
  | ["y", r, r2] => do some (Op.copy (← regIdx r) (← regIdx r2))
  | ["k", r, r2] => do some (Op.cmp (← regIdx r) (← regIdx r2))
  | ["g", r, k] => do some (Op.get (← regIdx r) (← atoi k))
  | ["r", r] => (regIdx r).map Op.isReg
  | ["e", r] => (regIdx r).map Op.each
  | ["t", r] => (regIdx r).map Op.str
  | ["x", r] => (regIdx r).map Op.vstr
  | ["w", r] => (regIdx r).map Op.write
  | ["cl", r] => (regIdx r).map Op.classify
  | ["p", r, t] => do some (Op.parse (← regIdx r) (← unhex t))
  | ["q", r, t] => do some (Op.parseSingle (← regIdx r) (← unhex t))
  | ["rt", r, r2] => do some (Op.roundTrip (← regIdx r) (← regIdx r2))
  | ["qs", r, k, v] => do some (Op.single (← regIdx r) (← atoi k) (← unhex v))
  | ["K", n] => (count n).map Op.matrix
  | ["D", n] => (count n).map Op.dump
  | _ => none

def b01 (b : Bool) : String := if b then "1" else "0"

def kvs (l : List (Int × Bytes)) : String :=
  ",".intercalate (l.map fun kv => toString kv.1 ++ ":" ++ Bytes.toHex kv.2)

def cmpStr : Obs → String
  | .cmp .lt => "-1"
  | .cmp .eq => "0"
  | .cmp .gt => "1"
  | .equal true => "0"
  | .equal false => "!"
  | _ => "?"

def cmpChar : Obs → String
  | .cmp .lt => "<"
  | .cmp .eq => "="
  | .cmp .gt => ">"
  | .equal true => "="
  | .equal false => "!"
  | _ => "?"

def dumpReg (d : RegDump) : String :=
  "m" ++ toString d.mask ++ ";e" ++ (match d.each with | some l => kvs l | none => "~") ++
  ";g" ++ kvs (d.view.map fun kv => ((kv.1 : Int), kv.2))

/-- `none` = the op makes no observation. -/
def render : Obs → Option String
  | .none => none
  | o@(.cmp _) => some ("k=" ++ cmpStr o)
  | o@(.equal _) => some ("k=" ++ cmpStr o)
  | .got (some v) => some ("g=" ++ Bytes.toHex v)
  | .got none => some "g=!"
  | .flag tag b => some (tag ++ "=" ++ b01 b)
  | .each l => some ("e=" ++ kvs l)
  | .text tag b => some (tag ++ "=" ++ Bytes.toHex b)
  | .cls a b => some ("cl=" ++ b01 a ++ b01 b)
  | .parsed tag ok => some (tag ++ "=" ++ (if ok then "ok" else "err"))
  | .rt text (some o) => some ("rt=" ++ Bytes.toHex text ++ ":ok:" ++ cmpStr o)
  | .rt text none => some ("rt=" ++ Bytes.toHex text ++ ":err")
  | .single text ok => some ("qs=" ++ Bytes.toHex text ++ (if ok then ":ok" else ":err"))
  | .matrix l => some ("K=" ++ String.join (l.map cmpChar))
  | .dump l => some ("D=" ++ "/".intercalate (l.map dumpReg))

def parseKind : String → Option Kind
  | "a" => some .a
  | "d" => some .d
  | "v" => some .v
  | _ => none

def handle : List String → String
  | [] => "bad-op"
  | k :: toks =>
    match parseKind k, toks.mapM parseOp with
    | some kind, some ops =>
      match runOps kind State.init ops [] with
      | .ok _ obs => " ".intercalate ("ok" :: obs.filterMap render)
      | .panic => "panic"
      | .bad => "bad-op"
    | _, _ => "bad-op"

end C19Driver

def main : IO Unit := Drive.runDriver "C19" C19Driver.handle
