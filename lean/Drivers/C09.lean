import DepsDev.Drive.Semver
open DepsDev

def main : IO Unit := Drive.runDriver "C09" Drive.Semver.handleOrBad
