import DepsDev.Drive.Loop
import DepsDev.Model.Pypi.Dep508
import DepsDev.Model.Pypi.Marker
open DepsDev DepsDev.Pypi

/-! Driver of property C16: answers the ops of harness/cmd/c16 with the Lean model.
The `ver=` / `leaf=` fields of a marker op are the values of the model's `Semver`
parameters on that marker's operands (see Model/Pypi/Marker.lean). -/

namespace C16Driver

def stripPrefix? (p s : String) : Option String :=
  if s.startsWith p then some (String.ofList (s.toList.drop p.length)) else none

def opOfName (n : String) : Option Nat :=
  let rec go (i : Nat) : List String → Option Nat
    | [] => none
    | x :: xs => if x == n then some i else go (i + 1) xs
  go 0 Gen.C16PypiEnv.opNames

structure Facts where
  ver : List (Bytes × Bool) := []
  leaf : List (Bytes × Nat × Bytes × Outcome Bool) := []

def parseVer (s : String) : Option (Bytes × Bool) :=
  match s.splitOn ":" with
  | [h, b] => do
    let v ← Bytes.ofHex h
    if b == "1" then some (v, true) else if b == "0" then some (v, false) else none
  | _ => none

def parseLeaf (s : String) : Option (Bytes × Nat × Bytes × Outcome Bool) :=
  match s.splitOn ":" with
  | [hl, on, hr, res] => do
    let l ← Bytes.ofHex hl
    let o ← opOfName on
    let r ← Bytes.ofHex hr
    let v : Outcome Bool ← match res with
      | "1" => some (.ok true)
      | "0" => some (.ok false)
      | "e" => some .err
      | "p" => some (.panic "semver")
      | _ => none
    some (l, o, r, v)
  | _ => none

/-- Reads the fields after `extras=`; unknown fields (`ast=`) are ignored. -/
def parseFacts : List String → Option Facts
  | [] => some {}
  | f :: rest => do
    let fs ← parseFacts rest
    match stripPrefix? "ver=" f with
    | some x => let v ← parseVer x; some { fs with ver := v :: fs.ver }
    | none =>
      match stripPrefix? "leaf=" f with
      | some x => let l ← parseLeaf x; some { fs with leaf := l :: fs.leaf }
      | none => if f.startsWith "ast=" then some fs else none

def parseExtrasField (f : String) : Option (List Bytes) := do
  let rest ← stripPrefix? "extras=" f
  if rest == "" then some [] else (rest.splitOn ",").mapM Bytes.ofHex

def Facts.semver (fs : Facts) : Semver where
  isVersion v := match fs.ver.find? (·.1 == v) with
    | some (_, b) => b
    | none => false
  cmpLeaf l o r := match fs.leaf.find? (fun x => x.1 == l && x.2.1 == o && x.2.2.1 == r) with
    | some (_, _, _, v) => v
    | none => .panic "missing-fact"

def showBool (o : Outcome Bool) : String :=
  match o with
  | .ok true => "ok 1"
  | .ok false => "ok 0"
  | .err => "err"
  | .panic "missing-fact" => "missing-fact"
  | .panic _ => "panic"

def handle : List String → String
  | ["pname", h] =>
    match Bytes.ofHex h with
    | some b => "ok " ++ Bytes.toHex (canonPackageName b)
    | none => "bad-op"
  | "dep508" :: h :: rest =>
    if !(rest.all (·.startsWith "ast=")) then "bad-op" else
    match Bytes.ofHex h with
    | none => "bad-op"
    | some b =>
      match parseDependency b with
      | .ok d => s!"ok name={Bytes.toHex d.name} extras={Bytes.toHex d.extras} constraint={Bytes.toHex d.constraint} env={Bytes.toHex d.environment}"
      | .err => "err"
      | .panic _ => "panic"
  | kind :: h :: ex :: rest =>
    if kind != "marker" && kind != "resolve" then "bad-op" else
    match Bytes.ofHex h, parseExtrasField ex, parseFacts rest with
    | some raw, some extras, some fs =>
      -- `marker`: the hook VerifEvalMarker; `resolve`: the filter of getDependencies on the
      -- single guarded requirement (the graph around it is C08's model, not this one).
      showBool (keepDependency fs.semver (some raw) extras)
    | _, _, _ => "bad-op"
  | _ => "bad-op"

end C16Driver

def main : IO Unit := Drive.runDriver "C16" C16Driver.handle
