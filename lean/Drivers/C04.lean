import DepsDev.Drive.Semver
open DepsDev

def main : IO Unit := Drive.runDriver "C04" Drive.Semver.handleOrBad
