import DepsDev.Proofs.C09bSys
import DepsDev.Proofs.C11SetOps

/-!
# C09b — `opVersionToSpan` and `excludeToSpans` only build well-formed spans (`SpanOK`)

C11 (`Proofs/C11Ops.lean`) proves that every version operation of `opVersionToSpan` keeps the
shape `BVw` and restates `opVersionToSpan` with its closures named (`opSpan`, equal by `rfl`).
Every span these functions return comes out of `newSpan` (or is the empty span), and `newSpan`
on two versions of a system without extension establishes C09's invariant `SpanOK`
(`newSpan_spanOK`: clean bounds, `min < max` for a vector, a closed point for a unit). The case
analysis below is C11's, with `SpanOK` as the conclusion.
-/
namespace DepsDev.Proofs.C09b

open Std DepsDev DepsDev.Semver DepsDev.Proofs DepsDev.Proofs.C09 DepsDev.Proofs.C10
open DepsDev.Proofs.C11 (BVw BV opFin opGe opEq opGt opLt opLe opCaret opTilde opBacon opSpan)

variable {s : System}

/-- `Generic` (C10) is `Sys6`. -/
theorem sys6_of_generic (hs : Generic s = true) : Sys6 s := by
  cases s <;> first | exact absurd hs (by decide) | (unfold Sys6 Sys4; simp)

theorem generic_of_sys6 (hs : Sys6 s) : Generic s = true := by
  rcases hs with (h | h | h | h) | h | h <;> subst h <;> rfl

theorem bvw_VG {v : Version} (h : BVw s v) : VG s v := ⟨h.sys, h.ext⟩

/-- Whatever span the computation returns is well-formed. -/
def OkOK (s : System) (o : Outcome Span) : Prop := ∀ sp, o = .ok sp → SpanOK s sp

theorem okOK_err : OkOK s .err := fun _ h => by cases h
theorem okOK_panic : OkOK s .panic := fun _ h => by cases h
theorem okOK_empty : OkOK s (.ok Span.emptySpan) := fun sp h => by
  injection h with h; subst h; exact spanOK_empty

theorem okOK_newSpan (hs : Generic s = true) (a b : Version) (ao bo : Bool) (ha : BVw s a) (hb : BVw s b) :
    OkOK s (newSpan a ao b bo) := fun _ h =>
  newSpan_spanOK (let h6 := (sys6_of_generic hs).ne; ⟨h6.1, h6.2.2.2.1, h6.2.2.2.2⟩) (bvw_VG ha) (bvw_VG hb) ao bo h

theorem opFin_ok (hs : Generic s = true) (lo hi : Version) (a b : Bool) (hl : BVw s lo) (hh : BVw s hi) :
    OkOK s (opFin lo hi a b) := by
  unfold opFin
  have h1 := C11.setTail_bvw hl infinity infinity C11.inf_ok
  have h2 := C11.setTail_bvw hh infinity infinity C11.inf_ok
  simp only [h1.sys, C11.generic_not_ext s hs, Bool.false_eq_true, ↓reduceIte]
  exact okOK_newSpan hs _ _ a b h1 h2

theorem opGe_ok (hs : Generic s = true) (lo hi : Version) (a : Bool) (hl : BVw s lo) (hh : BVw s hi) :
    OkOK s (opGe lo hi a) := by
  unfold opGe
  have hlo : BVw s (if lo.sys == .nuget && !lo.pre.isEmpty then
      match lo.pre.getLast? with
      | some p =>
        let (p, wc) := if p.getLast? == some 42 then (p.dropLast, true) else (p, false)
        let p := if p.isEmpty then [48] else p
        (({ lo with pre := lo.pre.dropLast ++ [p] }, wc) : Version × Bool)
      | none => (lo, false)
    else (lo, false)).1 := by
    split
    · split
      · rename_i p hp
        have hpm : p ∈ lo.pre := List.mem_of_getLast? hp
        have hpi := hl.pre p hpm
        refine ⟨hl.sys, hl.ext, hl.len, hl.num, ?_⟩
        intro i hi
        simp only [List.mem_append, List.mem_singleton] at hi
        rcases hi with hi | rfl
        · exact hl.pre i (C11.mem_of_mem_dropLast hi)
        · split
          · simp only
            split
            · exact C11.identOk_zero s
            · rename_i hne
              exact C11.identOk_dropLast s p hpi (by simpa using hne)
          · simp only
            split
            · exact C11.identOk_zero s
            · exact hpi
      · exact hl
    · exact hl
  generalize (if lo.sys == .nuget && !lo.pre.isEmpty then
      match lo.pre.getLast? with
      | some p =>
        let (p, wc) := if p.getLast? == some 42 then (p.dropLast, true) else (p, false)
        let p := if p.isEmpty then [48] else p
        (({ lo with pre := lo.pre.dropLast ++ [p] }, wc) : Version × Bool)
      | none => (lo, false)
    else (lo, false)) = pr at hlo
  obtain ⟨lo', wc⟩ := pr
  simp only at hlo ⊢
  have hhi : BVw s (setInfAll hi).clearPre := C11.clearPre_bvw (C11.setInfAll_bvw hh)
  split
  · exact okOK_newSpan hs _ _ _ _ hlo hhi
  · exact opFin_ok hs _ _ _ _ hlo (C11.build_bvw hhi [])

theorem okOK_bind (x : Outcome Version) (f : Version → Outcome Span)
    (h : ∀ v, x = .ok v → OkOK s (f v)) : OkOK s (x >>= f) := by
  intro sp hsp
  cases x with
  | ok v => exact h v rfl sp hsp
  | err => cases hsp
  | panic => cases hsp

/-- Closes `BVw` goals built from the operations of `opVersionToSpan` (C11's lemmas). -/
macro "bvw9" : tactic => `(tactic|
  repeat (first
    | assumption
    | apply C11.clearPre_bvw
    | apply C11.setInfAll_bvw
    | apply C11.setPatch_inf
    | apply C11.setMinor_inf
    | apply C11.setMajor_inf
    | apply C11.unwild_bvw
    | apply C11.build_bvw))

theorem opEq_ok (hs : Generic s = true) (lo : Version) (hlo : BVw s lo) : OkOK s (opEq lo) := by
  unfold opEq
  apply okOK_newSpan hs _ _ _ _ hlo
  split <;> bvw9

theorem opGt_ok (hs : Generic s = true) (lo : Version) (hlo : BVw s lo) : OkOK s (opGt lo) := by
  unfold opGt
  split
  · exact okOK_empty
  · split
    · exact opGe_ok hs _ _ _ (C11.build_bvw hlo []) hlo
    · apply okOK_bind
      intro lo' hinc
      exact opGe_ok hs _ _ _ (C11.build_bvw (C11.inc_bvw hlo hinc) []) hlo

theorem opLt_ok (hs : Generic s = true) (lo : Version) (hlo : BVw s lo) : OkOK s (opLt lo) := by
  unfold opLt
  split
  · exact okOK_empty
  · exact opFin_ok hs _ _ _ _ (C11.minVersion_bvw s hs lo hlo) (C11.unwild_bvw hlo)

theorem opLe_ok (hs : Generic s = true) (lo : Version) (hlo : BVw s lo) : OkOK s (opLe lo) := by
  unfold opLe
  apply opFin_ok hs _ _ _ _ (C11.minVersion_bvw s hs lo hlo)
  split <;> bvw9

theorem opCaret_ok (hs : Generic s = true) (lo : Version) (hlo : BVw s lo) : OkOK s (opCaret lo) := by
  unfold opCaret
  split
  · apply okOK_newSpan hs _ _ _ _ hlo; bvw9
  · split
    · apply okOK_newSpan hs _ _ _ _ hlo
      apply C11.clearPre_bvw
      split <;> bvw9
    · split
      · apply okOK_newSpan hs _ _ _ _ (C11.minVersion_bvw s hs lo hlo); bvw9
      · apply okOK_newSpan hs _ _ _ _ hlo; bvw9

theorem opTilde_ok (hs : Generic s = true) (lo : Version) (hlo : BVw s lo) : OkOK s (opTilde lo) := by
  unfold opTilde
  apply opFin_ok hs _ _ _ _ hlo
  split
  · bvw9
  · split <;> bvw9

theorem opBacon_ok (hs : Generic s = true) (lo : Version) (hlo : BVw s lo) : OkOK s (opBacon lo) := by
  unfold opBacon
  simp only
  generalize (if (lo.sys == System.rubygems || lo.sys == System.pypi) = true then lo.userNumCount else (lo.num.length : Int)) = n
  split
  · exact okOK_err
  · split
    · split
      · exact okOK_err
      · apply opFin_ok hs _ _ _ _ hlo; bvw9
    · split
      · split
        · apply okOK_newSpan hs _ _ _ _ hlo; bvw9
        · apply opFin_ok hs _ _ _ _ hlo; bvw9
      · split
        · apply opFin_ok hs _ _ _ _ hlo; bvw9
        · split
          · exact okOK_panic
          · rename_i hne
            apply opFin_ok hs _ _ _ _ hlo
            apply C11.setNum_bvw hlo _ _ _ C11.inf_ok
            right
            have : lo.num ≠ [] := by simpa using hne
            have := List.length_pos_iff.mpr this
            omega

theorem opSpan_ok (hs : Generic s = true) (typ : Nat) (lo0 : Version) (h0 : BVw s lo0) :
    OkOK s (opSpan typ lo0) := by
  unfold opSpan
  have hlo : BVw s (if lo0.isWildcard && lo0.sys != .nuget then lo0.clearPre else lo0) := by
    split
    · exact C11.clearPre_bvw h0
    · exact h0
  generalize (if lo0.isWildcard && lo0.sys != .nuget then lo0.clearPre else lo0) = lo at hlo
  simp only
  split
  · exact okOK_err
  · split
    · exact okOK_newSpan hs _ _ _ _ hlo hlo
    · split
      · exact opEq_ok hs lo hlo
      · split
        · exact opGt_ok hs lo hlo
        · split
          · exact opGe_ok hs _ _ _ hlo hlo
          · split
            · exact opLt_ok hs lo hlo
            · split
              · exact opLe_ok hs lo hlo
              · split
                · exact opCaret_ok hs lo hlo
                · split
                  · exact opTilde_ok hs lo hlo
                  · split
                    · exact opBacon_ok hs lo hlo
                    · exact okOK_err

/-- Every span `opVersionToSpan` returns on a version of a system without extension is
well-formed (`SpanOK`). -/
theorem opVersionToSpan_ok (hs : Generic s = true) (typ : Nat) (lo : Version) (h0 : BVw s lo) :
    OkOK s (opVersionToSpan typ lo) := by
  rw [C11.opVersionToSpan_eq]; exact opSpan_ok hs typ lo h0

end DepsDev.Proofs.C09b
