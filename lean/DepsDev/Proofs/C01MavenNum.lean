import DepsDev.Proofs.C01MavenShape

/-!
# C01 for Maven, stage M1 in explicit form: numbers only

On lists `N(.N)*` (first separator 0, the others `.`, trimmed: the last element after the
first is not the text `0`) the comparison is the plain lexicographic order of the integer
values in which a proper prefix is smaller: `1 < 1.0.1`, `1.1 < 1.1.0.1`, and `1 < 1.00`
(the spelling `00` is not trimmed and is a number, which is greater than nothing),
while `1.0` *is* `1` (same element list after trimming).
-/
namespace DepsDev.Proofs

open Std DepsDev DepsDev.Semver
open DepsDev.Gen.SemverTables (versionNumeric versionQualifier)

def numTail (t : List MavenElem) : Bool := t.all (fun e => isNumE e && e.sep == 46)

/-- Stage M1: numbers only. -/
def MavenNumeric : List MavenElem → Bool
  | [] => false
  | h :: t => h.sep == 0 && isNumE h && numTail t && trimmedTail t

def mavenInts (l : List MavenElem) : List Int := l.map (·.int)

theorem cmp_num_num {a b : MavenElem} (ha : isNumE a = true) (hb : isNumE b = true) (hs : a.sep = b.sep) :
    MK.cmp (mkey a) (mkey b) = compare a.int b.int := by
  have ha' : (mcat a == versionNumeric) = true := ha
  have hb' : (mcat b == versionNumeric) = true := hb
  simp [mkey, ha', hb', MK.cmp_def, hs]
  cases compare a.int b.int <;> simp

theorem mavenLex_numTail {a b : List MavenElem} (ha : numTail a = true) (hb : numTail b = true) :
    mavenLex a b = List.compareLex compare (mavenInts a) (mavenInts b) := by
  induction a generalizing b with
  | nil =>
    cases b with
    | nil => simp [mavenLex_nil_nil, mavenInts, List.compareLex]
    | cons y bs =>
      simp only [numTail, List.all_cons, Bool.and_eq_true] at hb
      simp [mavenLex_nil_cons, vsNone_of_num hb.1.1, mavenInts, List.compareLex]
  | cons x as ih =>
    simp only [numTail, List.all_cons, Bool.and_eq_true, beq_iff_eq] at ha
    cases b with
    | nil => simp [mavenLex_cons_nil, vsNone_of_num ha.1.1, mavenInts, List.compareLex]
    | cons y bs =>
      simp only [numTail, List.all_cons, Bool.and_eq_true, beq_iff_eq] at hb
      rw [mavenLex_cons_cons, cmp_num_num ha.1.1 hb.1.1 (ha.1.2.trans hb.1.2.symm),
        ih (by simpa [numTail] using ha.2) (by simpa [numTail] using hb.2)]
      simp [mavenInts, List.compareLex_cons_cons]

theorem shapeNums_of_numTail {t : List MavenElem} (h : numTail t = true) : shapeNums t = true := by
  induction t with
  | nil => rfl
  | cons e t ih =>
    simp only [numTail, List.all_cons, Bool.and_eq_true] at h
    have : (isNumE e && e.sep == 46) = true := by simp [h.1.1, h.1.2]
    simp only [shapeNums, this, ↓reduceIte]
    exact ih (by simpa [numTail] using h.2)

theorem zeroDotQual_of_allNum {l : List MavenElem} (h : l.all isNumE = true) : ZeroDotQual l = false := by
  induction l with
  | nil => rfl
  | cons e t ih =>
    cases t with
    | nil => rfl
    | cons f t' =>
      simp only [List.all_cons, Bool.and_eq_true] at h
      have hf : mcat f = 4 := by simpa [isNumE, versionNumeric] using h.2.1
      have iht := ih (by simp [h.2.1, h.2.2])
      simp [ZeroDotQual, iht, hf, versionQualifier]

theorem shape_of_numeric {l : List MavenElem} (h : MavenNumeric l = true) :
    MavenShape l = true ∧ ZeroDotQual l = false := by
  cases l with
  | nil => simp [MavenNumeric] at h
  | cons x t =>
    simp only [MavenNumeric, Bool.and_eq_true] at h
    obtain ⟨⟨⟨h0, hn⟩, hnt⟩, htr⟩ := h
    refine ⟨by simp [MavenShape, h0, hn, shapeNums_of_numTail hnt, htr], zeroDotQual_of_allNum ?_⟩
    simp only [List.all_cons, hn, Bool.true_and]
    simp only [numTail, List.all_eq_true, Bool.and_eq_true] at hnt ⊢
    exact fun e he => (hnt e he).1

/-- **M1, explicit**: on number-only lists the result is the lexicographic order of the
values, a proper prefix being smaller. -/
theorem mavenCompare_numeric {a b : List MavenElem} (ha : MavenNumeric a = true) (hb : MavenNumeric b = true) :
    mavenCompare a b = .ok (ordToInt (List.compareLex compare (mavenInts a) (mavenInts b))) := by
  obtain ⟨sa, za⟩ := shape_of_numeric ha
  obtain ⟨sb, zb⟩ := shape_of_numeric hb
  rw [mavenCompare_eq (mavenGood_of_shape sa za) (mavenGood_of_shape sb zb)]
  cases a with
  | nil => simp [MavenNumeric] at ha
  | cons x as =>
    cases b with
    | nil => simp [MavenNumeric] at hb
    | cons y bs =>
      simp only [MavenNumeric, Bool.and_eq_true, beq_iff_eq] at ha hb
      rw [mavenLex_cons_cons, cmp_num_num ha.1.1.2 hb.1.1.2 (ha.1.1.1.trans hb.1.1.1.symm),
        mavenLex_numTail ha.1.2 hb.1.2]
      simp [mavenInts, List.compareLex_cons_cons]

end DepsDev.Proofs
