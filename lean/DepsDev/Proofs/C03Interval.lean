import DepsDev.Model.Semver.Constraint

/-!
# C03 helper lemmas: spans of the extension-free systems as intervals of number triples

For versions without extension and with at most three numbers, `vcompare` is the
lexicographic comparison of the zero-padded number triple followed by the
prerelease rule (`cmp3`). `interval` evaluates `newSpan … >>= contains x` for a
release candidate `x` in these terms. Everything here is about the model only.
-/
namespace DepsDev.Proofs.C03

open DepsDev DepsDev.Semver

theorem inf_val : infinity = 9223372036854775807 := rfl
theorem wild_val : wildcard = -1 := rfl

/-! ## `sgnInt`, `thenInt` as propositions -/

@[simp] theorem sgnInt_self (a : Int) : sgnInt a a = 0 := by simp [sgnInt]
@[simp] theorem thenInt_zero_left (r : Int) : thenInt 0 r = r := by simp [thenInt]
@[simp] theorem thenInt_zero_right (s : Int) : thenInt s 0 = s := by
  unfold thenInt; split <;> simp_all

theorem sgnInt_lt {a b : Int} : sgnInt a b < 0 ↔ a < b := by unfold sgnInt; split <;> (try split) <;> omega
theorem sgnInt_eq0 {a b : Int} : sgnInt a b = 0 ↔ a = b := by unfold sgnInt; split <;> (try split) <;> omega
theorem sgnInt_gt {a b : Int} : 0 < sgnInt a b ↔ b < a := by unfold sgnInt; split <;> (try split) <;> omega
theorem sgnInt_le {a b : Int} : sgnInt a b ≤ 0 ↔ a ≤ b := by unfold sgnInt; split <;> (try split) <;> omega

theorem thenInt_lt {s r : Int} : thenInt s r < 0 ↔ s < 0 ∨ (s = 0 ∧ r < 0) := by
  unfold thenInt; split <;> simp_all <;> omega
theorem thenInt_eq0 {s r : Int} : thenInt s r = 0 ↔ s = 0 ∧ r = 0 := by
  unfold thenInt; split <;> simp_all
theorem thenInt_gt {s r : Int} : 0 < thenInt s r ↔ 0 < s ∨ (s = 0 ∧ 0 < r) := by
  unfold thenInt; split <;> simp_all <;> omega
theorem thenInt_le {s r : Int} : thenInt s r ≤ 0 ↔ s < 0 ∨ (s = 0 ∧ r ≤ 0) := by
  unfold thenInt; split <;> simp_all <;> omega

/-! ## number triples -/

/-- The zero-padded first three numbers of a version. -/
def t3 (v : Version) : Int × Int × Int := (v.getNum 0, v.getNum 1, v.getNum 2)

/-- Sign of the lexicographic comparison of two triples. -/
def lex3 (p q : Int × Int × Int) : Int :=
  thenInt (sgnInt p.1 q.1) (thenInt (sgnInt p.2.1 q.2.1) (sgnInt p.2.2 q.2.2))

theorem lex3_lt {p q : Int × Int × Int} :
    lex3 p q < 0 ↔ p.1 < q.1 ∨ (p.1 = q.1 ∧ (p.2.1 < q.2.1 ∨ (p.2.1 = q.2.1 ∧ p.2.2 < q.2.2))) := by
  simp only [lex3, thenInt_lt, sgnInt_lt, sgnInt_eq0]
theorem lex3_eq0 {p q : Int × Int × Int} :
    lex3 p q = 0 ↔ p.1 = q.1 ∧ p.2.1 = q.2.1 ∧ p.2.2 = q.2.2 := by
  simp only [lex3, thenInt_eq0, sgnInt_eq0]
theorem lex3_gt {p q : Int × Int × Int} :
    0 < lex3 p q ↔ q.1 < p.1 ∨ (p.1 = q.1 ∧ (q.2.1 < p.2.1 ∨ (p.2.1 = q.2.1 ∧ q.2.2 < p.2.2))) := by
  simp only [lex3, thenInt_gt, sgnInt_gt, sgnInt_eq0]
theorem lex3_le {p q : Int × Int × Int} :
    lex3 p q ≤ 0 ↔ p.1 < q.1 ∨ (p.1 = q.1 ∧ (p.2.1 < q.2.1 ∨ (p.2.1 = q.2.1 ∧ p.2.2 ≤ q.2.2))) := by
  simp only [lex3, thenInt_le, sgnInt_lt, sgnInt_eq0, sgnInt_le]

theorem compareNums_le3 (a b : List Int) (ha : a.length ≤ 3) (hb : b.length ≤ 3) :
    compareNums a b = lex3 (a.getD 0 0, a.getD 1 0, a.getD 2 0) (b.getD 0 0, b.getD 1 0, b.getD 2 0) := by
  match a, b with
  | [], [] => simp [compareNums, compareNumsNilL, lex3]
  | [], [b0] => simp [compareNums, compareNumsNilL, lex3]
  | [], [b0, b1] => simp [compareNums, compareNumsNilL, lex3]
  | [], [b0, b1, b2] => simp [compareNums, compareNumsNilL, lex3]
  | [a0], [] => simp [compareNums, compareNumsNilL, lex3]
  | [a0], [b0] => simp [compareNums, compareNumsNilL, lex3]
  | [a0], [b0, b1] => simp [compareNums, compareNumsNilL, lex3]
  | [a0], [b0, b1, b2] => simp [compareNums, compareNumsNilL, lex3]
  | [a0, a1], [] => simp [compareNums, compareNumsNilL, lex3]
  | [a0, a1], [b0] => simp [compareNums, compareNumsNilL, lex3]
  | [a0, a1], [b0, b1] => simp [compareNums, compareNumsNilL, lex3]
  | [a0, a1], [b0, b1, b2] => simp [compareNums, compareNumsNilL, lex3]
  | [a0, a1, a2], [] => simp [compareNums, compareNumsNilL, lex3]
  | [a0, a1, a2], [b0] => simp [compareNums, compareNumsNilL, lex3]
  | [a0, a1, a2], [b0, b1] => simp [compareNums, compareNumsNilL, lex3]
  | [a0, a1, a2], [b0, b1, b2] => simp [compareNums, compareNumsNilL, lex3]
  | _ :: _ :: _ :: _ :: _, _ => simp at ha
  | _, _ :: _ :: _ :: _ :: _ => simp at hb

/-! ## comparison of extension-free versions with at most three numbers -/

/-- Prerelease part of `compare`: no prerelease is greatest. -/
def preInt (sys : System) (p q : List Bytes) : Int :=
  if p.isEmpty && q.isEmpty then 0 else if p.isEmpty then 1 else if q.isEmpty then -1 else comparePre sys p q

def cmp3 (a b : Version) : Int := thenInt (lex3 (t3 a) (t3 b)) (preInt a.sys a.pre b.pre)

/-- A version of system `sys` without extension and with at most three numbers. -/
structure G3 (sys : System) (v : Version) : Prop where
  sys_eq : v.sys = sys
  ext : v.ext = .none
  len : v.num.length ≤ 3

theorem vcompare_g3 {sys : System} {a b : Version} (ha : G3 sys a) (hb : G3 sys b) :
    vcompare a b = .ok (cmp3 a b) := by
  unfold vcompare cmp3
  simp only [ha.sys_eq, hb.sys_eq, ha.ext, hb.ext, bne_self_eq_false, Bool.false_eq_true, ↓reduceIte]
  rw [compareNums_le3 _ _ ha.len hb.len]
  simp only [t3, Version.getNum, preInt, thenInt]
  split
  · simp_all
  · by_cases h1 : a.pre = [] <;> by_cases h2 : b.pre = [] <;> simp_all

/-- Against a release `x`: only whether `a` has a prerelease matters. -/
theorem cmp3_release_right (a x : Version) (hx : x.pre = []) :
    cmp3 a x = thenInt (lex3 (t3 a) (t3 x)) (if a.pre.isEmpty then 0 else -1) := by
  unfold cmp3 preInt; simp [hx]
  split <;> simp_all

theorem cmp3_release_left (x b : Version) (hx : x.pre = []) :
    cmp3 x b = thenInt (lex3 (t3 x) (t3 b)) (if b.pre.isEmpty then 0 else 1) := by
  unfold cmp3 preInt; simp [hx]

/-- `cmp3 a b = 0` forces equal triples and equal emptiness of the prerelease. -/
theorem cmp3_eq0 {a b : Version} (h : cmp3 a b = 0) :
    t3 a = t3 b ∧ (a.pre.isEmpty = b.pre.isEmpty) := by
  unfold cmp3 at h
  rw [thenInt_eq0, lex3_eq0] at h
  obtain ⟨⟨h1, h2, h3⟩, hp⟩ := h
  refine ⟨Prod.ext h1 (Prod.ext h2 h3), ?_⟩
  unfold preInt at hp
  cases ha : a.pre.isEmpty <;> cases hb : b.pre.isEmpty <;> simp_all

/-! ## `newSpan` and `contains` -/

/-- Systems whose `MinVersion` is `0.0.0-0` without extension. -/
def IsGen (sys : System) : Prop :=
  sys = .default ∨ sys = .cargo ∨ sys = .go ∨ sys = .npm ∨ sys = .nuget ∨ sys = .composer

/-- The lower bound as `newSpan` normalises it. -/
def nmin (min : Version) : Version :=
  { (if min.major == wildcard then minVersion min.sys min else min.setTail wildcard 0) with build := [] }

/-- The upper bound as `newSpan` normalises it. -/
def nmax (max : Version) : Version := { max.setTail wildcard infinity with build := [] }

theorem setTail_g3 {sys : System} {v : Version} (h : G3 sys v) (m f : Value) : G3 sys (v.setTail m f) := by
  simp only [Version.setTail]
  split
  · exact h
  · rename_i i hi
    refine ⟨h.sys_eq, h.ext, ?_⟩
    have hn : v.atLeast3 = 3 := by
      unfold Version.atLeast3
      have := h.len
      split <;> omega
    have hlt := (List.findIdx?_eq_some_iff_getElem.mp hi).1
    simp only [List.length_map, List.length_range] at hlt
    simp only [hn] at hlt ⊢
    simp only [List.length_append, List.length_take, List.length_map, List.length_range, List.length_replicate]
    omega

theorem nmin_g3 {sys : System} (hg : IsGen sys) {v : Version} (h : G3 sys v) : G3 sys (nmin v) := by
  unfold nmin
  split
  · refine ⟨?_, ?_, ?_⟩
    · rcases hg with h' | h' | h' | h' | h' | h' <;> simp [minVersion, h.sys_eq, h']
    · rcases hg with h' | h' | h' | h' | h' | h' <;> simp [minVersion, h.sys_eq, h']
    · rcases hg with h' | h' | h' | h' | h' | h' <;> simp [minVersion, h.sys_eq, h']
  · have := setTail_g3 h wildcard 0
    exact ⟨this.sys_eq, this.ext, this.len⟩

theorem nmax_g3 {sys : System} {v : Version} (h : G3 sys v) : G3 sys (nmax v) := by
  have := setTail_g3 h wildcard infinity
  exact ⟨this.sys_eq, this.ext, this.len⟩

/-- `newSpan` on extension-free bounds with at most three numbers. -/
theorem newSpan_g3 {sys : System} (hg : IsGen sys) {min max : Version} (mo xo : Bool)
    (hmin : G3 sys min) (hmax : G3 sys max) :
    newSpan min mo max xo =
      if cmp3 (nmin min) (nmax max) = 0 then
        if (mo || xo) = true then .ok Span.emptySpan
        else .ok { rank := .unit, minOpen := mo, maxOpen := xo, min := some (nmin min), max := some (nmin min) }
      else if cmp3 (nmin min) (nmax max) < 0 then
        .ok { rank := .vector, minOpen := mo, maxOpen := xo, min := some (nmin min), max := some (nmax max) }
      else .err := by
  have ga := nmin_g3 hg hmin
  have gb := nmax_g3 hmax
  have e1 : newSpan min mo max xo =
      (do let eq ← vEqual (nmin min) (nmax max)
          if eq && (mo || xo) then .ok Span.emptySpan
          else if eq then .ok { rank := .unit, minOpen := mo, maxOpen := xo, min := some (nmin min), max := some (nmin min) }
          else
            let lt ← vLess (nmin min) (nmax max)
            if lt then .ok { rank := .vector, minOpen := mo, maxOpen := xo, min := some (nmin min), max := some (nmax max) }
            else .err) := rfl
  rw [e1]
  simp only [vEqual, vLess, vcompare_g3 ga gb, bind, Outcome.bind]
  by_cases hc0 : cmp3 (nmin min) (nmax max) = 0
  · by_cases ho : (mo || xo) = true <;> simp [hc0, ho]
  · by_cases hlt : cmp3 (nmin min) (nmax max) < 0 <;> simp [hc0, hlt]

/-- Membership of a release candidate `x` in the span built by `newSpan`:
an error when the normalised bounds are out of order, otherwise the two bound tests
exactly as `span.contains` performs them. -/
theorem interval {sys : System} (hg : IsGen sys) {min max x : Version} (mo xo : Bool)
    (hmin : G3 sys min) (hmax : G3 sys max) (hx : G3 sys x) (hxpre : x.pre = [])
    (hxp : x.isPrerelease = false) :
    (newSpan min mo max xo).bind (fun s => s.contains x false) =
      if 0 < cmp3 (nmin min) (nmax max) then .err
      else .ok (decide (¬ ((cmp3 x (nmin min) = 0 ∧ mo = true) ∨ cmp3 x (nmin min) < 0) ∧
                        ¬ ((cmp3 (nmax max) x = 0 ∧ xo = true) ∨ cmp3 (nmax max) x < 0))) := by
  have ga := nmin_g3 hg hmin
  have gb := nmax_g3 hmax
  rw [newSpan_g3 hg mo xo hmin hmax]
  have hax := cmp3_release_right (nmin min) x hxpre
  have hxa := cmp3_release_left x (nmin min) hxpre
  have hbx := cmp3_release_right (nmax max) x hxpre
  by_cases hc0 : cmp3 (nmin min) (nmax max) = 0
  · obtain ⟨ht, hp⟩ := cmp3_eq0 hc0
    have ht1 : (t3 (nmin min)).1 = (t3 (nmax max)).1 := by rw [ht]
    have ht2 : (t3 (nmin min)).2.1 = (t3 (nmax max)).2.1 := by rw [ht]
    have ht3 : (t3 (nmin min)).2.2 = (t3 (nmax max)).2.2 := by rw [ht]
    have hn : ¬ (0 < cmp3 (nmin min) (nmax max)) := by omega
    simp only [hc0, ↓reduceIte, Int.lt_irrefl]
    by_cases ho : (mo || xo) = true
    · -- empty span
      simp only [ho, ↓reduceIte, Outcome.bind, Span.contains, Span.emptySpan]
      congr 1
      symm
      rw [decide_eq_false_iff_not]
      rw [hxa, hbx]
      simp only [thenInt_lt, thenInt_eq0, lex3_lt, lex3_eq0]
      cases hpa : (nmin min).pre.isEmpty <;> cases hpb : (nmax max).pre.isEmpty <;>
        cases mo <;> cases xo <;> simp_all <;> omega
    · -- unit span
      have hmo : mo = false := by cases mo <;> simp_all
      have hxo : xo = false := by cases xo <;> simp_all
      subst hmo hxo
      simp only [Bool.or_self, Bool.false_eq_true, ↓reduceIte, Outcome.bind, Span.contains, compareOpt,
        vcompare_g3 ga hx, bind, and_false, false_or]
      congr 1
      rw [hax, hxa, hbx]
      rw [Bool.eq_iff_iff]
      simp only [beq_iff_eq, decide_eq_true_eq, thenInt_lt, thenInt_eq0, lex3_lt, lex3_eq0]
      cases hpa : (nmin min).pre.isEmpty <;> cases hpb : (nmax max).pre.isEmpty <;> simp_all <;> omega
  · by_cases hlt : cmp3 (nmin min) (nmax max) < 0
    · have hn : ¬ (0 < cmp3 (nmin min) (nmax max)) := by omega
      simp only [hn, ↓reduceIte, hc0, hlt]
      simp only [Outcome.bind, bind, Span.contains, vcompare_g3 hx ga, vcompare_g3 gb hx, hxp,
        Bool.and_false, Bool.false_eq_true, ↓reduceIte]
      by_cases h1 : (cmp3 x (nmin min) = 0 ∧ mo = true) ∨ cmp3 x (nmin min) < 0
      · simp [h1]
      · by_cases h2 : (cmp3 (nmax max) x = 0 ∧ xo = true) ∨ cmp3 (nmax max) x < 0
        · simp [h1, h2]
        · simp [h1, h2]
    · have h3 : 0 < cmp3 (nmin min) (nmax max) := by omega
      simp [h3, hc0, hlt, Outcome.bind]

end DepsDev.Proofs.C03
