import DepsDev.Model.Pypi.Basic
import DepsDev.Ref.Pep508

/-! Lemmas about the byte-string primitives of `Model/Pypi/Basic.lean` (C16). -/

namespace DepsDev.Proofs.C16Bytes
open DepsDev DepsDev.Pypi DepsDev.Ref.Pep508

def StartsNonWs (s : Bytes) : Prop := ∃ c cs, s = c :: cs ∧ isWs c = false
def EndsNonWs (s : Bytes) : Prop := ∃ p c, s = p ++ [c] ∧ isWs c = false

theorem isWs_wsByte (b : Bool) : isWs (wsByte b) = true := by cases b <;> decide

theorem ws_all (w : Ws) : ∀ c ∈ w.bytes, isWs c = true := by
  intro c hc
  simp only [Ws.bytes, List.mem_map] at hc
  obtain ⟨b, _, rfl⟩ := hc
  exact isWs_wsByte b

/-! ### trimLeft -/

theorem trimLeft_ws_append (w : Ws) (t : Bytes) : trimLeft (w.bytes ++ t) = trimLeft t := by
  induction w with
  | nil => rfl
  | cons b w ih =>
    show List.dropWhile isWs (wsByte b :: (Ws.bytes w ++ t)) = _
    rw [List.dropWhile_cons_of_pos (isWs_wsByte b)]
    exact ih

theorem trimLeft_of_starts {s : Bytes} (h : StartsNonWs s) : trimLeft s = s := by
  obtain ⟨c, cs, rfl, hc⟩ := h
  simp [trimLeft, List.dropWhile, hc]

theorem trimLeft_ws (w : Ws) : trimLeft w.bytes = [] := by
  have := trimLeft_ws_append w []
  simpa [trimLeft] using this

/-! ### trimRight -/

theorem trimRight_cons (c : UInt8) (cs : Bytes) :
    trimRight (c :: cs) = if trimRight cs = [] then (if isWs c then [] else [c]) else c :: trimRight cs := by
  show (match trimRight cs with | [] => _ | r => _) = _
  cases h : trimRight cs <;> simp

theorem trimRight_append (a b : Bytes) :
    trimRight (a ++ b) = if trimRight b = [] then trimRight a else a ++ trimRight b := by
  induction a with
  | nil => by_cases h : trimRight b = [] <;> simp [h, trimRight]
  | cons c a ih =>
    rw [List.cons_append, trimRight_cons, ih]
    by_cases hb : trimRight b = []
    · simp only [hb, if_true]; rw [trimRight_cons]
    · simp [hb]

theorem trimRight_ws (w : Ws) : trimRight w.bytes = [] := by
  induction w with
  | nil => rfl
  | cons b w ih =>
    show trimRight (wsByte b :: Ws.bytes w) = []
    rw [trimRight_cons, ih]; simp [isWs_wsByte]

theorem trimRight_of_ends {s : Bytes} (h : EndsNonWs s) : trimRight s = s := by
  obtain ⟨p, c, rfl, hc⟩ := h
  rw [trimRight_append]
  have : trimRight [c] = [c] := by simp [trimRight, hc]
  simp [this]

theorem trimRight_append_ws (s : Bytes) (w : Ws) : trimRight (s ++ w.bytes) = trimRight s := by
  rw [trimRight_append, trimRight_ws]; simp

theorem ends_ne_nil {s : Bytes} (h : EndsNonWs s) : s ≠ [] := by
  obtain ⟨p, c, rfl, _⟩ := h; simp

theorem ends_append (a : Bytes) {b : Bytes} (h : EndsNonWs b) : EndsNonWs (a ++ b) := by
  obtain ⟨p, c, rfl, hc⟩ := h
  exact ⟨a ++ p, c, by simp, hc⟩

theorem starts_append {a : Bytes} (b : Bytes) (h : StartsNonWs a) : StartsNonWs (a ++ b) := by
  obtain ⟨c, cs, rfl, hc⟩ := h
  exact ⟨c, cs ++ b, by simp, hc⟩

/-- `strings.Trim` strips exactly the surrounding blanks of a tight string. -/
theorem trim_ws_tight (w1 w2 : Ws) {s : Bytes} (hs : StartsNonWs s) (he : EndsNonWs s) :
    trim (w1.bytes ++ s ++ w2.bytes) = s := by
  unfold trim
  rw [List.append_assoc, trimLeft_ws_append, trimLeft_of_starts (starts_append _ hs),
    trimRight_append_ws, trimRight_of_ends he]

theorem trim_ws_only (w1 w2 : Ws) : trim (w1.bytes ++ w2.bytes) = [] := by
  unfold trim
  rw [trimLeft_ws_append, trimLeft_ws]; rfl

theorem trim_of_tight {s : Bytes} (hs : StartsNonWs s) (he : EndsNonWs s) : trim s = s := by
  have := trim_ws_tight [] [] hs he
  simpa [Ws.bytes] using this

/-- What `trimRight` returns is empty or ends in a non-blank. -/
theorem trimRight_ends (s : Bytes) : trimRight s = [] ∨ EndsNonWs (trimRight s) := by
  induction s with
  | nil => left; rfl
  | cons c cs ih =>
    rw [trimRight_cons]
    rcases ih with h | h
    · simp only [h, if_true]
      by_cases hc : isWs c = true
      · left; simp [hc]
      · right; simp only [hc, if_false, Bool.false_eq_true]; exact ⟨[], c, rfl, by simpa using hc⟩
    · right
      simp only [ends_ne_nil h, if_false]
      exact ends_append [c] h

theorem trim_ends (v : Bytes) : trim v = [] ∨ EndsNonWs (trim v) := trimRight_ends _

/-! ### indexWhere / slices -/

theorem indexWhere_lt {p : UInt8 → Bool} : ∀ {s : Bytes} {i : Nat}, indexWhere p s = some i → i < s.length
  | [], _, h => by simp [indexWhere] at h
  | c :: cs, i, h => by
    unfold indexWhere at h
    by_cases hc : p c = true
    · simp [hc] at h; subst h; simp
    · simp only [hc, Bool.false_eq_true, if_false, Option.map_eq_some_iff] at h
      obtain ⟨j, hj, rfl⟩ := h
      have := indexWhere_lt hj
      simp; omega

theorem indexWhere_append {p : UInt8 → Bool} (a : Bytes) (h : ∀ c ∈ a, p c = false) (b : Bytes) :
    indexWhere p (a ++ b) = (indexWhere p b).map (· + a.length) := by
  induction a with
  | nil => simp
  | cons c a ih =>
    have hc : p c = false := h c (by simp)
    have ih' := ih (fun x hx => h x (by simp [hx]))
    simp only [List.cons_append, indexWhere, hc, Bool.false_eq_true, if_false, ih', Option.map_map,
      List.length_cons]
    cases indexWhere p b <;> simp <;> omega

theorem indexWhere_append_hit {p : UInt8 → Bool} (a : Bytes) (h : ∀ c ∈ a, p c = false) (c : UInt8)
    (hc : p c = true) (b : Bytes) : indexWhere p (a ++ c :: b) = some a.length := by
  rw [indexWhere_append a h]; simp [indexWhere, hc]

theorem indexWhere_none {p : UInt8 → Bool} (a : Bytes) (h : ∀ c ∈ a, p c = false) :
    indexWhere p a = none := by
  have := indexWhere_append a h []
  simpa [indexWhere] using this

theorem slice_prefix (site : String) (a b : Bytes) : slice site (a ++ b) 0 a.length = .ok a := by
  simp [slice]

theorem sliceFrom_suffix (site : String) (a b : Bytes) : sliceFrom site (a ++ b) a.length = .ok b := by
  simp [sliceFrom]

end DepsDev.Proofs.C16Bytes
