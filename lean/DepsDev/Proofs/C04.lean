import DepsDev.Props.C01

/-!
# C04 — no-panic lemmas for the modelled semver entry points

`Outcome.panic` marks every place where the Go code could panic (index out of
range, nil dereference, failed type assertion, explicit `panic`). The lemmas here
show those places unreachable for `System.Parse` and `System.Compare`.
-/
namespace DepsDev.Proofs

open DepsDev DepsDev.Semver

def NoPanic {α} (x : Outcome α) : Prop := x ≠ .panic

theorem noPanic_ok {α} (a : α) : NoPanic (Outcome.ok a) := by intro h; cases h
theorem noPanic_err {α} : NoPanic (Outcome.err : Outcome α) := by intro h; cases h

theorem noPanic_bind {α β} {x : Outcome α} {f : α → Outcome β}
    (hx : NoPanic x) (hf : ∀ a, x = .ok a → NoPanic (f a)) : NoPanic (x >>= f) := by
  cases x with
  | ok a => exact hf a rfl
  | err => intro h; cases h
  | panic => exact absurd rfl hx

/-! ## Maven -/

theorem mavenFill_noPanic (l : List MavenElem) : NoPanic (mavenInit.fillInts l) := by
  induction l with
  | nil => unfold mavenInit.fillInts; exact noPanic_ok _
  | cons e rest ih =>
    unfold mavenInit.fillInts
    split
    · split
      · exact noPanic_bind ih (fun _ _ => noPanic_ok _)
      · split
        · exact noPanic_err
        · exact noPanic_bind ih (fun _ _ => noPanic_ok _)
    · exact noPanic_bind ih (fun _ _ => noPanic_ok _)

theorem mavenInit_noPanic (b : Bytes) : NoPanic (mavenInit b) := by
  unfold mavenInit; exact mavenFill_noPanic _

/-! ## RubyGems extension -/

theorem gemSplitGo_noPanic (fuel : Nat) (s : Bytes) (acc : List GemElem) : NoPanic (gemSplit.go s acc fuel) := by
  induction fuel generalizing s acc with
  | zero => unfold gemSplit.go; exact noPanic_ok _
  | succ n ih =>
    unfold gemSplit.go
    split
    · exact noPanic_ok _
    · simp only
      repeat' split
      all_goals first | exact noPanic_err | exact ih _ _ | exact noPanic_ok _

theorem gemFill_noPanic (l : List GemElem) : NoPanic (gemInit.fillInts l) := by
  induction l with
  | nil => unfold gemInit.fillInts; exact noPanic_ok _
  | cons e rest ih =>
    unfold gemInit.fillInts
    split
    · split
      · exact noPanic_bind ih (fun _ _ => noPanic_ok _)
      · split
        · exact noPanic_err
        · exact noPanic_bind ih (fun _ _ => noPanic_ok _)
    · exact noPanic_bind ih (fun _ _ => noPanic_ok _)

theorem gemInit_noPanic (b : Bytes) : NoPanic (gemInit b) := by
  unfold gemInit
  simp only
  split
  · exact noPanic_ok _
  · exact noPanic_bind (gemSplitGo_noPanic _ _ _) (fun _ _ => gemFill_noPanic _)

/-! ## PyPI -/

/-- Closes `NoPanic` goals made of `ok`/`err` leaves, `if`/`match` splits and binds. -/
macro "np_auto" : tactic => `(tactic|
  repeat (first
    | exact noPanic_ok _
    | exact noPanic_err
    | assumption
    | (refine noPanic_bind ?_ ?_)
    | (intro _ _)
    | split))

theorem pepNumsGo_noPanic (fuel : Nat) (p : PepState) (s : Bytes) : NoPanic (pepNums.go p s fuel) := by
  induction fuel generalizing p s with
  | zero => unfold pepNums.go; exact noPanic_ok _
  | succ n ih =>
    unfold pepNums.go
    have ih' : ∀ p s, NoPanic (pepNums.go p s n) := ih
    simp only
    repeat (first
      | exact noPanic_ok _
      | exact noPanic_err
      | exact ih' _ _
      | (refine noPanic_bind ?_ ?_)
      | (intro _ _)
      | split)

theorem pepParseLocal_noPanic (p : PepState) (s : Bytes) : NoPanic (pepParseLocal p s) := by
  unfold pepParseLocal
  np_auto

theorem pepInitCore_noPanic (sys : System) (b : Bytes) : NoPanic (pepInitCore sys b) := by
  unfold pepInitCore
  have h1 := pepNumsGo_noPanic
  have h2 := pepParseLocal_noPanic
  unfold pepNums
  simp only
  repeat (first
    | exact noPanic_ok _
    | exact noPanic_err
    | exact h1 _ _ _
    | exact h2 _ _
    | (refine noPanic_bind ?_ ?_)
    | (intro _ _)
    | split)

theorem pepInit_noPanic (sys : System) (b : Bytes) : NoPanic (pepInit sys b) := by
  unfold pepInit
  have := pepInitCore_noPanic sys b
  split
  · exact noPanic_ok _
  · exact noPanic_err
  · rename_i h; exact absurd h this


/-! ## the generic parser -/

theorem elem_v (p : PS) : (PS.elem p).2.v = p.v := by
  unfold PS.elem
  simp only
  repeat' split
  all_goals rfl

theorem elem_some_ne (p : PS) (e : Bytes) (p' : PS) (h : PS.elem p = (some e, p')) : e ≠ [] := by
  unfold PS.elem at h
  simp only at h
  repeat' split at h
  all_goals first
    | (simp at h; done)
    | (rename_i hc
       simp only [Prod.mk.injEq, Option.some.injEq] at h
       obtain ⟨he, _⟩ := h
       subst he
       intro hnil
       have hlen := congrArg List.length hnil
       simp only [List.length_take, List.length_nil] at hlen
       simp only [beq_iff_eq] at hc
       omega)

theorem metadataGo_spec (fuel : Nat) (p : PS) (acc : List Bytes) (r : Rune)
    (hacc : ∀ e ∈ acc, e ≠ []) :
    (∀ e ∈ (PS.metadata.go p acc r fuel).1, e ≠ []) ∧ (PS.metadata.go p acc r fuel).2.2.v = p.v := by
  induction fuel generalizing p acc r with
  | zero => unfold PS.metadata.go; exact ⟨hacc, rfl⟩
  | succ n ih =>
    unfold PS.metadata.go
    have hv := elem_v p
    split
    · rename_i p' heq
      rw [heq] at hv
      refine ⟨hacc, ?_⟩
      split <;> simpa [PS.setErr] using hv
    · rename_i e p' heq
      rw [heq] at hv
      have hne := elem_some_ne p e p' heq
      have hacc' : ∀ x ∈ acc ++ [e], x ≠ [] := by
        intro x hx
        rcases List.mem_append.mp hx with h | h
        · exact hacc x h
        · simp at h; subst h; exact hne
      simp only
      split
      · have := ih { v := p'.v, lex := p'.lex.next.snd } (acc ++ [e]) p'.lex.next.fst hacc'
        exact ⟨this.1, this.2.trans hv⟩
      · exact ⟨hacc', hv⟩

theorem gPre_noPanic (sys : System) (p : PS) (r : Rune) (hp : ∀ e ∈ p.v.pre, e ≠ []) :
    NoPanic (PS.gPre sys p r) := by
  unfold PS.gPre
  split
  · split
    · exact noPanic_err
    · exact noPanic_ok _
  · split
    · simp only
      split
      · -- the NuGet `*` branch
        have hm := metadataGo_spec ({ v := { p.v with isPrerelease := true }, lex := p.lex.next.snd } : PS).lex.rest.length.succ
          { v := { p.v with isPrerelease := true }, lex := p.lex.next.snd } [] 0 (by simp)
        unfold PS.metadata
        simp only at hm ⊢
        split
        · exact noPanic_err
        · rename_i l hl
          split
          · rename_i hnil
            exfalso
            have hmem : l ∈ _ := List.mem_of_getLast? hl
            have hlne : l ≠ [] := by
              rcases List.mem_append.mp hmem with h | h
              · rw [hm.2] at h; exact hp l h
              · exact hm.1 l h
            cases l with
            | nil => exact hlne rfl
            | cons a t => simp at hnil
          · split
            · exact noPanic_err
            · exact noPanic_ok _
      · exact noPanic_ok _
    · split
      · exact noPanic_ok _
      · exact noPanic_ok _

theorem metadata_v (p : PS) : (PS.metadata p).2.2.v = p.v := by
  unfold PS.metadata
  exact (metadataGo_spec _ p [] 0 (by simp)).2

theorem addNum_pre (p : PS) (x : Value) : (PS.addNum p x).2.v.pre = p.v.pre := by
  unfold PS.addNum PS.setErr
  simp only
  split <;> split <;> (try split) <;> simp [Version.addNum]

theorem number_pre (p : PS) : (PS.number p).2.v.pre = p.v.pre := by
  unfold PS.number
  simp only
  repeat' split
  all_goals simp [addNum_pre, PS.setErr]

theorem gNums_pre (fuel : Nat) (p : PS) (r : Rune) : (PS.gNums p r fuel).1.v.pre = p.v.pre := by
  induction fuel generalizing p r with
  | zero => rfl
  | succ n ih =>
    unfold PS.gNums
    split
    · simp only
      split
      · rw [ih]; exact number_pre p
      · exact number_pre p
    · rfl

theorem gLead_pre (sys : System) (str : Bytes) (ai : Bool) : (PS.gLead sys str ai).v.pre = [] := by
  unfold PS.gLead
  simp only
  repeat' split
  all_goals rfl

theorem gHead_pre (sys : System) (str : Bytes) (ai : Bool) (p : PS) (r : Rune)
    (h : PS.gHead sys str ai = some (p, r)) : p.v.pre = [] := by
  unfold PS.gHead at h
  simp only at h
  have h0 := number_pre (PS.gLead sys str ai)
  rw [gLead_pre] at h0
  repeat' split at h
  all_goals (first | (cases h; done) | skip)
  all_goals
    (cases h
     first
       | (simp [gNums_pre, h0]; done)
       | (split <;> simp [gNums_pre, h0]))

theorem parseGenericCore_noPanic (sys : System) (str : Bytes) (ai : Bool) :
    NoPanic (parseGenericCore sys str ai) := by
  unfold parseGenericCore
  split
  · exact noPanic_err
  · rename_i p r hh
    have hpre := gHead_pre sys str ai p r hh
    have h1 := gPre_noPanic sys p r (by rw [hpre]; simp)
    split
    · exact noPanic_err
    · rename_i hpanic; exact absurd hpanic h1
    · split
      · exact noPanic_err
      · rename_i hb
        exfalso
        unfold PS.gBuild at hb
        repeat' split at hb
        all_goals cases hb
      · unfold PS.gFinish
        simp only
        repeat' split
        all_goals first | exact noPanic_err | exact noPanic_ok _

theorem parseGeneric_noPanic (sys : System) (str : Bytes) (ai : Bool) : NoPanic (parseGeneric sys str ai) := by
  unfold parseGeneric
  have h := parseGenericCore_noPanic sys str ai
  split
  · exact noPanic_err
  · rename_i hp; exact absurd hp h
  · split
    · have hg := gemInit_noPanic str
      split
      · exact noPanic_ok _
      · exact noPanic_err
      · rename_i hp; exact absurd hp hg
    · exact noPanic_ok _

/-- `System.Parse` never panics, for every system and every byte string. -/
theorem parse_noPanic (sys : System) (b : Bytes) : NoPanic (parse sys b) := by
  unfold parse
  split
  · exact noPanic_err
  · unfold parseInf
    split
    · exact noPanic_ok _
    · cases sys <;> simp only
      case maven =>
        have := mavenInit_noPanic b
        split
        · exact noPanic_ok _
        · exact noPanic_err
        · rename_i hp; exact absurd hp this
      case pypi => exact pepInit_noPanic _ b
      all_goals exact parseGeneric_noPanic _ b false

end DepsDev.Proofs
