import DepsDev.Proofs.C03L3InclEq

/-!
# C03 layer L3 for npm, operator `eq`: interval membership, operands with a prerelease tag; `L1PNpm .eq`
-/
namespace DepsDev.Proofs.C03

open DepsDev DepsDev.Semver DepsDev.Ref

set_option linter.unusedSimpArgs false
set_option linter.unusedVariables false

theorem l1p_pre_lt_eq : L1PPreO .eq .lt := by l1p_pre
theorem l1p_pre_eq_eq : L1PPreO .eq .eq := by l1p_pre
theorem l1p_pre_gt_eq : L1PPreO .eq .gt := by l1p_pre

theorem l1p_npm_eq : L1PNpm .eq :=
  l1p_assemble _ l1p_full_eq (l1p_pre_assemble _ l1p_pre_lt_eq l1p_pre_eq_eq l1p_pre_gt_eq) l1p_part_eq

end DepsDev.Proofs.C03
