import DepsDev.Proofs.C13Cmp

/-!
# Relabelings of graphs (exact form) and list/permutation lemmas for C13
-/

namespace DepsDev.Resolve.GraphCanon

open List

/-- Rename the endpoints of an edge. -/
def mapE (f : Nat → Nat) (e : Edge) : Edge := { e with src := f e.src, dst := f e.dst }

@[simp] theorem mapE_src (f : Nat → Nat) (e : Edge) : (mapE f e).src = f e.src := rfl
@[simp] theorem mapE_dst (f : Nat → Nat) (e : Edge) : (mapE f e).dst = f e.dst := rfl
@[simp] theorem mapE_req (f : Nat → Nat) (e : Edge) : (mapE f e).req = e.req := rfl
@[simp] theorem mapE_typ (f : Nat → Nat) (e : Edge) : (mapE f e).typ = e.typ := rfl

theorem mapE_mapE (f g : Nat → Nat) (e : Edge) : mapE g (mapE f e) = mapE (fun x => g (f x)) e := rfl

theorem mapE_comp (f g : Nat → Nat) : mapE g ∘ mapE f = mapE (fun x => g (f x)) := rfl

/-- Every edge endpoint is a node id `< n`. -/
def EdgesIn (n : Nat) (E : List Edge) : Prop := ∀ e ∈ E, e.src < n ∧ e.dst < n

theorem EdgesIn.perm {n : Nat} {E E' : List Edge} (h : EdgesIn n E) (p : E' ~ E) : EdgesIn n E' :=
  fun e he => h e (p.mem_iff.mp he)

theorem mapE_congr {n : Nat} {E : List Edge} (h : EdgesIn n E) {f g : Nat → Nat}
    (hfg : ∀ x, x < n → f x = g x) : E.map (mapE f) = E.map (mapE g) := by
  apply List.map_congr_left
  intro e he
  have := h e he
  simp [mapE, hfg _ this.1, hfg _ this.2]

/-! ### pigeonhole -/

/-- A duplicate-free list of `n` or more numbers below `n` is a permutation of `0..n-1`. -/
theorem perm_range_of_nodup {l : List Nat} {n : Nat} (nd : l.Nodup) (hlt : ∀ x ∈ l, x < n)
    (hlen : n ≤ l.length) : l ~ List.range n := by
  rw [perm_ext_iff_of_nodup nd List.nodup_range]
  intro a
  constructor
  · intro h; exact List.mem_range.mpr (hlt a h)
  · intro h
    by_cases ha : a ∈ l
    · exact ha
    · exfalso
      have hsub : l ⊆ (List.range n).erase a := by
        intro x hx
        have hxa : x ≠ a := fun e => ha (e ▸ hx)
        exact (List.mem_erase_of_ne hxa).mpr (List.mem_range.mpr (hlt x hx))
      have h1 := nd.length_le_of_subset hsub
      rw [List.length_erase_of_mem h, List.length_range] at h1
      have : 0 < n := by have := List.mem_range.mp h; omega
      omega

theorem nodup_map_of_inj_on {α β : Type} {f : α → β} {l : List α} (nd : l.Nodup)
    (inj : ∀ a b, a ∈ l → b ∈ l → f a = f b → a = b) : (l.map f).Nodup := by
  induction l with
  | nil => simp
  | cons x xs ih =>
    rw [List.nodup_cons] at nd
    simp only [List.map_cons, List.nodup_cons, List.mem_map, not_exists, not_and]
    refine ⟨?_, ih nd.2 (fun a b ha hb => inj a b (List.mem_cons_of_mem _ ha) (List.mem_cons_of_mem _ hb))⟩
    intro y hy hxy
    have := inj y x (List.mem_cons_of_mem _ hy) List.mem_cons_self hxy
    exact nd.1 (this ▸ hy)

/-- An injection of `0..n-1` into itself permutes it. -/
theorem map_range_perm {n : Nat} {f : Nat → Nat} (lt : ∀ i, i < n → f i < n)
    (inj : ∀ i j, i < n → j < n → f i = f j → i = j) : (List.range n).map f ~ List.range n := by
  apply perm_range_of_nodup
  · apply nodup_map_of_inj_on List.nodup_range
    intro a b ha hb
    exact inj a b (List.mem_range.mp ha) (List.mem_range.mp hb)
  · intro x hx
    obtain ⟨i, hi, rfl⟩ := List.mem_map.mp hx
    exact lt i (List.mem_range.mp hi)
  · simp

theorem surj_of_inj {n : Nat} {f : Nat → Nat} (lt : ∀ i, i < n → f i < n)
    (inj : ∀ i j, i < n → j < n → f i = f j → i = j) (j : Nat) (hj : j < n) : ∃ i, i < n ∧ f i = j := by
  have := (map_range_perm lt inj).mem_iff.mpr (List.mem_range.mpr hj)
  obtain ⟨i, hi, rfl⟩ := List.mem_map.mp this
  exact ⟨i, List.mem_range.mp hi, rfl⟩

/-! ### lists as functions on `0..n-1` -/

theorem map_getElem?_range {α : Type} (l : List α) :
    (List.range l.length).map (fun i => l[i]?) = l.map some := by
  apply List.ext_getElem?
  intro i
  simp only [List.getElem?_map]
  by_cases h : i < l.length
  · simp [h]
  · simp [h]

theorem filterMap_id_map_some {α : Type} (l : List α) : (l.map some).filterMap id = l := by
  induction l with
  | nil => rfl
  | cons x xs ih => simp [ih]

/-- Two lists of the same length related by a bijection of positions are permutations. -/
theorem perm_of_getElem?_bij {α : Type} {l l' : List α} {f : Nat → Nat} (len : l'.length = l.length)
    (lt : ∀ i, i < l.length → f i < l.length)
    (inj : ∀ i j, i < l.length → j < l.length → f i = f j → i = j)
    (node : ∀ i, i < l.length → l'[f i]? = l[i]?) : l' ~ l := by
  have h1 : (List.range l.length).map (fun i => l[i]?) = ((List.range l.length).map f).map (fun j => l'[j]?) := by
    rw [List.map_map]
    apply List.map_congr_left
    intro i hi
    simp [node i (List.mem_range.mp hi)]
  have h2 : ((List.range l.length).map f).map (fun j => l'[j]?) ~ (List.range l.length).map (fun j => l'[j]?) :=
    (map_range_perm lt inj).map _
  rw [← h1, map_getElem?_range, ← len, map_getElem?_range] at h2
  have := h2.filterMap id
  rw [filterMap_id_map_some, filterMap_id_map_some] at this
  exact this.symm

/-! ### `idxOf` on duplicate-free lists -/

theorem idxOf_inj {l : List Nat} {a b : Nat} (ha : a ∈ l) (hab : l.idxOf a = l.idxOf b) : a = b := by
  have h1 : l.idxOf a < l.length := List.idxOf_lt_length_of_mem ha
  have h2 : l.idxOf b < l.length := hab ▸ h1
  have e1 := List.getElem_idxOf h1
  have e2 := List.getElem_idxOf h2
  rw [← e1, ← e2]
  simp [hab]

theorem idxOf_map_inj {l : List Nat} {f : Nat → Nat} {n : Nat} (hl : ∀ x ∈ l, x < n) {a : Nat} (ha : a < n)
    (inj : ∀ i j, i < n → j < n → f i = f j → i = j) : (l.map f).idxOf (f a) = l.idxOf a := by
  induction l with
  | nil => simp
  | cons x xs ih =>
    have hx : x < n := hl x List.mem_cons_self
    have ih' := ih (fun y hy => hl y (List.mem_cons_of_mem _ hy))
    simp only [List.map_cons, List.idxOf_cons]
    by_cases hxa : x = a
    · simp [hxa]
    · have hfx : f x ≠ f a := fun e => hxa (inj x a hx ha e)
      have b1 : (f x == f a) = false := by simpa using hfx
      have b2 : (x == a) = false := by simpa using hxa
      simp [b1, b2, ih']

theorem contains_map_inj {l : List Nat} {f : Nat → Nat} {n : Nat} (hl : ∀ x ∈ l, x < n) {a : Nat} (ha : a < n)
    (inj : ∀ i j, i < n → j < n → f i = f j → i = j) : (l.map f).contains (f a) = l.contains a := by
  rw [Bool.eq_iff_iff]
  simp only [List.contains_iff_mem, List.mem_map]
  constructor
  · rintro ⟨x, hx, hxa⟩
    rw [← inj x a (hl x hx) ha hxa]; exact hx
  · intro h; exact ⟨a, h, rfl⟩

/-! ### exact relabelings -/

/-- `g'` is `g` with node `i` moved to position `f i` (contents identical, edges up to order). -/
structure Iso (f : Nat → Nat) (N : List Node) (E : List Edge) (N' : List Node) (E' : List Edge) : Prop where
  len : N'.length = N.length
  lt : ∀ i, i < N.length → f i < N.length
  inj : ∀ i j, i < N.length → j < N.length → f i = f j → i = j
  root : f 0 = 0
  node : ∀ i, i < N.length → N'[f i]? = N[i]?
  edges : E' ~ E.map (mapE f)

theorem Iso.nodes_perm {f : Nat → Nat} {N N' : List Node} {E E' : List Edge} (h : Iso f N E N' E') : N' ~ N :=
  perm_of_getElem?_bij h.len h.lt h.inj h.node

theorem Iso.edgesIn {f : Nat → Nat} {N N' : List Node} {E E' : List Edge} (h : Iso f N E N' E')
    (hE : EdgesIn N.length E) : EdgesIn N'.length E' := by
  intro e he
  have := h.edges.mem_iff.mp he
  obtain ⟨e0, he0, rfl⟩ := List.mem_map.mp this
  have := hE e0 he0
  rw [h.len]
  exact ⟨h.lt _ this.1, h.lt _ this.2⟩

theorem Iso.trans {f g : Nat → Nat} {N N' N'' : List Node} {E E' E'' : List Edge}
    (h1 : Iso f N E N' E') (h2 : Iso g N' E' N'' E'') : Iso (fun x => g (f x)) N E N'' E'' where
  len := h2.len.trans h1.len
  lt := fun i hi => by have := h2.lt (f i) (h1.len ▸ h1.lt i hi); rwa [h1.len] at this
  inj := fun i j hi hj e =>
    h1.inj i j hi hj (h2.inj _ _ (h1.len ▸ h1.lt i hi) (h1.len ▸ h1.lt j hj) e)
  root := by simp [h1.root, h2.root]
  node := fun i hi => by
    rw [h2.node (f i) (h1.len ▸ h1.lt i hi), h1.node i hi]
  edges := by
    have := (h1.edges.map (mapE g))
    rw [List.map_map, mapE_comp] at this
    exact h2.edges.trans this

/-- The head and the tail multiset are preserved. -/
theorem Iso.head_tail {f : Nat → Nat} {r r' : Node} {t t' : List Node} {E E' : List Edge}
    (h : Iso f (r :: t) E (r' :: t') E') : r' = r ∧ t' ~ t := by
  have h0 := h.node 0 (by simp)
  rw [h.root] at h0
  simp only [List.getElem?_cons_zero, Option.some.injEq] at h0
  subst h0
  exact ⟨rfl, (List.perm_cons _).mp h.nodes_perm⟩

end DepsDev.Resolve.GraphCanon
