import DepsDev.Proofs.C03L3Npm

/-!
# C03 layer L3 for npm, operator `le`: one comparator, prerelease candidates

See `C03L3Npm` for the statement (`L3Npm`) and the proof script.
-/
namespace DepsDev.Proofs.C03

open DepsDev DepsDev.Semver DepsDev.Ref

set_option linter.unusedSimpArgs false
set_option linter.unusedVariables false

theorem l3_full_le : L3Full .le := by l3_full
theorem l3_pre_lt_le : L3PreO .le .lt := by l3_pre
theorem l3_pre_eq_le : L3PreO .le .eq := by l3_pre
theorem l3_pre_gt_le : L3PreO .le .gt := by l3_pre
theorem l3_part_le : L3Part .le := by l3_part

theorem l3_npm_le : L3Npm .le :=
  l3_assemble _ l3_full_le (l3_pre_assemble _ l3_pre_lt_le l3_pre_eq_le l3_pre_gt_le) l3_part_le

end DepsDev.Proofs.C03
