import DepsDev.Model.Resolve.Client

/-!
# C14 — the map-based specification of the in-memory client

`Spec` is a pure finite map: version key ↦ (attributes, requirements) of the most recent
non-deleted addition, plus the set of known packages. `specStep` is what an operation does
to it (only `AddVersion` changes it), `abs` reads a `Spec` off a `LocalClient` state, `Inv`
is the representation invariant of `LocalClient`, `ObsOK` says what each call must return
in terms of the `Spec` alone. The refinement theorem (`Props/C14.lean`) is
`abs (step s op) = specStep (abs s) op` + `ObsOK (abs s) op (output)`.
-/
namespace DepsDev.Proofs.C14Spec

open DepsDev DepsDev.Semver DepsDev.Resolve.Match DepsDev.Resolve.Client


/-- The specification state: a map and a set. -/
structure Spec where
  /-- attributes and requirements (in resolution order) of the most recent non-deleted addition -/
  vers : VersionKey → Option (VAttrs × List RequirementVersion)
  /-- packages that were added or mentioned in a requirement -/
  known : PackageKey → Bool

def Spec.empty : Spec := ⟨fun _ => none, fun _ => false⟩

/-- What an operation does to the map: only a non-deleted `AddVersion` changes it. -/
def specStep (sp : Spec) : Op → Spec
  | .add v deps =>
    if v.attrs.deleted then sp else
    { vers := fun k => if k = v.key then some (v.attrs, sortDependencies deps) else sp.vers k
      known := fun p => decide (p = v.key.pk) || deps.any (fun d => d.key.pk = p) || sp.known p }
  | _ => sp

def specRun (sp : Spec) (ops : List Op) : Spec := ops.foldl specStep sp

/-- `lc.PackageVersions[pk]` (nil when missing). -/
abbrev versionsOrNil (lc : LocalClient) (pk : PackageKey) : List RVersion := lc.versionsOf pk

/-- The stored record with the given key. -/
def findVersion (lc : LocalClient) (k : VersionKey) : Option RVersion :=
  (versionsOrNil lc k.pk).find? (fun v => v.key = k)

/-- Abstraction function. -/
def abs (lc : LocalClient) : Spec where
  vers := fun k =>
    match findVersion lc k, lookup lc.imports k with
    | some v, some ds => some (v.attrs, ds)
    | _, _ => none
  known := fun p => hasKey lc.packageVersions p

/-- Representation invariant of `LocalClient`. -/
structure Inv (lc : LocalClient) : Prop where
  /-- a package's list holds non-deleted records of that package … -/
  own : ∀ p vs, lookup lc.packageVersions p = some vs → ∀ v ∈ vs, v.key.pk = p ∧ v.attrs.deleted = false
  /-- … each key once … -/
  nodup : ∀ p vs, lookup lc.packageVersions p = some vs → (vs.map (fun v => v.key)).Nodup
  /-- … and is empty or an output of `SortVersions` -/
  sorted : ∀ p vs, lookup lc.packageVersions p = some vs → vs = [] ∨ ∃ l, sortVersions l = .ok vs
  /-- `imports` has exactly the stored keys -/
  sync : ∀ k, (lookup lc.imports k).isSome = (findVersion lc k).isSome
  /-- every package mentioned in a stored requirement is known -/
  mentioned : ∀ k ds, lookup lc.imports k = some ds → ∀ d ∈ ds, hasKey lc.packageVersions d.key.pk = true

/-- "listing a package returns each added (non-deleted) version once, in `SortVersions` order":
what a returned version list must be, in terms of the map alone. -/
structure IsListing (sp : Spec) (p : PackageKey) (vs : List RVersion) : Prop where
  once : (vs.map (fun v => v.key)).Nodup
  exactly : ∀ v, v ∈ vs ↔ v.key.pk = p ∧ ∃ ds, sp.vers v.key = some (v.attrs, ds)
  ordered : vs = [] ∨ ∃ l, sortVersions l = .ok vs

/-- What each call must return, in terms of the map alone. -/
def ObsOK (sp : Spec) (op : Op) (o : Obs) : Prop :=
  match op with
  | .add _ _ => o = .done
  | .ver k =>
    o = match sp.vers k with
      | some (a, _) => .attrs a
      | none => .notFound
  | .reqs k =>
    o = match sp.vers k with
      | some (_, ds) => .deps ds
      | none => .notFound
  | .vers p =>
    if sp.known p then ∃ vs, o = .versions vs ∧ IsListing sp p vs else o = .notFound
  | .mtch k =>
    if sp.known k.pk then
      ∃ vs, IsListing sp k.pk vs ∧
        o = match matchReq k vs with
          | .ok ms => .versions ms
          | .err | .panic => .panicked
    else o = .notFound

/-- Every `AddVersion` of the history returns normally (no panic inside `SortVersions`; see
Model/Resolve/Match.lean: never observed, not proved impossible). -/
def AddsReturn : LocalClient → List Op → Prop
  | _, [] => True
  | lc, op :: ops =>
    (match op with
     | .add _ _ => (step lc op).2 = .done
     | _ => True) ∧ AddsReturn (step lc op).1 ops

/-- Observations of a history agree with the map, step by step. -/
def AllObsOK : Spec → List Op → List Obs → Prop
  | _, [], [] => True
  | sp, op :: ops, o :: os => ObsOK sp op o ∧ AllObsOK (specStep sp op) ops os
  | _, _, _ => False

end DepsDev.Proofs.C14Spec
