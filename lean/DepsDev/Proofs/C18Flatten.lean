/-
Helper lemmas for C18/B4: alias splitting in `flattenNPMDeps`.
-/
import DepsDev.Model.Resolve.ApiClient

namespace DepsDev.Proofs.C18
open DepsDev
open DepsDev.Model.Resolve.ApiClient

theorem splitLast_none {c : UInt8} : ∀ {s : Bytes}, c ∉ s → splitLast c s = none
  | [], _ => rfl
  | x :: xs, h => by
    have hx : x ≠ c := fun e => h (by simp [e])
    have hxs : c ∉ xs := fun m => h (by simp [m])
    simp [splitLast, splitLast_none hxs, hx]

/-- the split-at-the-LAST-occurrence law. -/
theorem splitLast_append {c : UInt8} {b : Bytes} (hb : c ∉ b) :
    ∀ a : Bytes, splitLast c (a ++ c :: b) = some (a, b)
  | [] => by simp [splitLast, splitLast_none hb]
  | x :: a => by simp [splitLast, splitLast_append hb a]

theorem splitLast_some {c : UInt8} : ∀ {s a b : Bytes}, splitLast c s = some (a, b) → s = a ++ c :: b ∧ c ∉ b
  | [], _, _, h => by simp [splitLast] at h
  | x :: xs, a, b, h => by
    unfold splitLast at h
    cases hr : splitLast c xs with
    | some ab =>
      obtain ⟨a', b'⟩ := ab
      rw [hr] at h
      simp at h
      obtain ⟨rfl, rfl⟩ := h
      obtain ⟨e, nb⟩ := splitLast_some hr
      exact ⟨by simp [e], nb⟩
    | none =>
      rw [hr] at h
      by_cases hx : x = c
      · simp [hx] at h
        obtain ⟨rfl, rfl⟩ := h
        refine ⟨by simp [hx], ?_⟩
        intro m
        have : ∀ {s : Bytes}, c ∈ s → splitLast c s ≠ none := by
          intro s
          induction s with
          | nil => intro m; cases m
          | cons y ys ih =>
            intro m
            unfold splitLast
            cases hys : splitLast c ys with
            | some p => simp
            | none =>
              by_cases hy : y = c
              · simp [hy]
              · have : c ∈ ys := by
                  cases m with
                  | head => exact absurd rfl hy
                  | tail _ t => exact t
                exact absurd hys (ih this)
        exact this m hr
      · simp [hx] at h

theorem cutPrefix_append : ∀ (p s : Bytes), cutPrefix p (p ++ s) = some s
  | [], s => by cases s <;> rfl
  | x :: p, s => by simp [cutPrefix, cutPrefix_append p s]

/-- B4, the law: `npm:<name>@<range>` (any `name`, also with '@' and '/'; `range`
without '@') is a requirement on `name` with `range`, carrying the alias. -/
theorem addDep_alias (t : DepType) (alias name range : Bytes) (hr : atSign ∉ range) :
    addDep t ⟨alias, npmPrefix ++ (name ++ atSign :: range)⟩ =
      ⟨⟨name, .requirement, range⟩, { t with knownAs := some alias }⟩ := by
  simp [addDep, cutPrefix_append, splitLast_append hr]

/-- a non-aliased dependency is taken as declared. -/
theorem addDep_plain (t : DepType) (d : Dep) (h : cutPrefix npmPrefix d.requirement = none) :
    addDep t d = ⟨⟨d.name, .requirement, d.requirement⟩, t⟩ := by
  simp [addDep, h]

/-- `hasRange target` says exactly that the target splits at its last '@' into a
NON-EMPTY name and a range. -/
theorem hasRange_iff (target : Bytes) :
    hasRange target = true ↔ ∃ name range, name ≠ [] ∧ atSign ∉ range ∧ target = name ++ atSign :: range := by
  constructor
  · intro h
    cases target with
    | nil => simp [hasRange] at h
    | cons x xs =>
      have hm : atSign ∈ xs := by simpa [hasRange] using h
      have : ∃ a b, splitLast atSign xs = some (a, b) := by
        cases hs : splitLast atSign xs with
        | some p => exact ⟨p.1, p.2, rfl⟩
        | none =>
          exfalso
          have : ∀ {s : Bytes}, atSign ∈ s → splitLast atSign s ≠ none := by
            intro s
            induction s with
            | nil => intro m; cases m
            | cons y ys ih =>
              intro m
              unfold splitLast
              cases hys : splitLast atSign ys with
              | some p => simp
              | none =>
                by_cases hy : y = atSign
                · simp [hy]
                · have : atSign ∈ ys := by
                    cases m with
                    | head => exact absurd rfl hy
                    | tail _ t => exact t
                  exact absurd hys (ih this)
          exact this hm hs
      obtain ⟨a, b, hab⟩ := this
      obtain ⟨e, nb⟩ := splitLast_some hab
      exact ⟨x :: a, b, by simp, nb, by simp [e]⟩
  · rintro ⟨name, range, hne, _, rfl⟩
    cases name with
    | nil => exact absurd rfl hne
    | cons x xs => simp [hasRange]

theorem insertBy_perm {α : Type} (less : α → α → Bool) (x : α) : ∀ l : List α, (insertBy less x l).Perm (x :: l)
  | [] => List.Perm.refl _
  | y :: ys => by
    unfold insertBy
    by_cases h : less y x = true
    · simp only [h, if_true]
      exact ((insertBy_perm less x ys).cons y).trans (List.Perm.swap x y ys)
    · simp only [h]
      exact List.Perm.refl _

/-- the sort is a permutation: nothing is invented, nothing is dropped. -/
theorem stableSort_perm {α : Type} (less : α → α → Bool) : ∀ l : List α, (stableSort less l).Perm l
  | [] => List.Perm.refl _
  | x :: xs => (insertBy_perm less x _).trans ((stableSort_perm less xs).cons x)

theorem mem_stableSort {α : Type} (less : α → α → Bool) (l : List α) (a : α) : a ∈ stableSort less l ↔ a ∈ l :=
  (stableSort_perm less l).mem_iff

theorem flatten_perm (d : Deps) : (flattenNPMDeps d).Perm (flattenRaw d) :=
  stableSort_perm _ _

theorem mem_flatten (d : Deps) (r : ReqVer) : r ∈ flattenNPMDeps d ↔ r ∈ flattenRaw d :=
  (flatten_perm d).mem_iff

end DepsDev.Proofs.C18
