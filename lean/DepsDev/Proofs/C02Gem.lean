import DepsDev.Proofs.C02SemVer
import DepsDev.Proofs.C01Gem

/-!
# C02 — RubyGems: the model comparator is `Gem::Version#<=>` (after repair F9)

The reference compares `canonical_segments` = (numeric prefix without trailing zeros) ++
(rest without trailing zeros) position by position with `0` for a missing segment. The
library keeps the numeric prefix in `Version.num` (zero-padded comparison) and the rest in
the extension (trailing `"0"` elements trimmed, "no elements" greatest). `split_claim`
shows that the one position-wise comparison of the reference splits into exactly these
two stages.
-/
namespace DepsDev.Proofs.C02

open Std DepsDev DepsDev.Semver DepsDev.Ref DepsDev.Proofs
open DepsDev.Gen.SemverTables (versionNumeric versionQualifier versionEOF)
open DepsDev.Ref.Gem (Seg)

/-! ## `padLex` facts -/

theorem padLex_map {α β} (f : β → β → Ordering) (c : α → α → Ordering) (g : α → β) (d : α) :
    ∀ (l l' : List α), (∀ i, (i ∈ l ∨ i = d) → ∀ j, (j ∈ l' ∨ j = d) → f (g i) (g j) = c i j) →
      padLex f (g d) (l.map g) (l'.map g) = padLex c d l l' := by
  intro l
  induction l with
  | nil =>
    intro l'
    induction l' with
    | nil => intro _; simp [padLex]
    | cons y ys ih =>
      intro h
      simp only [List.map_cons, List.map_nil, padLex]
      rw [h d (Or.inr rfl) y (Or.inl (by simp))]
      have := ih (fun i hi j hj => h i hi j (by rcases hj with hj | hj <;> simp [hj]))
      simp only [List.map_nil] at this
      rw [this]
  | cons x xs ih =>
    intro l' h
    cases l' with
    | nil =>
      simp only [List.map_cons, List.map_nil, padLex]
      rw [h x (Or.inl (by simp)) d (Or.inr rfl)]
      have := ih [] (fun i hi j hj => h i (by rcases hi with hi | hi <;> simp [hi]) j hj)
      simp only [List.map_nil] at this
      rw [this]
    | cons y ys =>
      simp only [List.map_cons, padLex]
      rw [h x (Or.inl (by simp)) y (Or.inl (by simp)),
        ih ys (fun i hi j hj => h i (by rcases hi with hi | hi <;> simp [hi]) j (by rcases hj with hj | hj <;> simp [hj]))]

/-- Trailing default elements do not matter (left). -/
theorem padLex_pad_left {α} (cmp : α → α → Ordering) (d : α) (hd : cmp d d = .eq) (k : Nat) :
    ∀ (l m : List α), padLex cmp d (l ++ List.replicate k d) m = padLex cmp d l m := by
  intro l
  induction l with
  | nil =>
    induction k with
    | zero => intro m; rfl
    | succ k ih =>
      intro m
      cases m with
      | nil =>
        have := ih []
        simp only [List.nil_append] at this ⊢
        simp only [List.replicate_succ, padLex, hd, this, Ordering.then]
      | cons y ys =>
        have := ih ys
        simp only [List.nil_append] at this ⊢
        simp only [List.replicate_succ, padLex, this]
  | cons x xs ih =>
    intro m
    cases m with
    | nil => simp only [List.cons_append, padLex, ih []]
    | cons y ys => simp only [List.cons_append, padLex, ih ys]

/-- Trailing default elements do not matter (right). -/
theorem padLex_pad_right {α} (cmp : α → α → Ordering) (d : α) (hd : cmp d d = .eq) (k : Nat) :
    ∀ (l m : List α), padLex cmp d l (m ++ List.replicate k d) = padLex cmp d l m := by
  intro l m
  induction m generalizing l with
  | nil =>
    induction k generalizing l with
    | zero => rfl
    | succ k ih =>
      cases l with
      | nil =>
        have := ih []
        simp only [List.nil_append] at this ⊢
        simp only [List.replicate_succ, padLex, hd, this, Ordering.then]
      | cons x xs =>
        have := ih xs
        simp only [List.nil_append] at this ⊢
        simp only [List.replicate_succ, padLex, this]
  | cons y ys ih =>
    cases l with
    | nil => simp only [List.cons_append, padLex, ih []]
    | cons x xs => simp only [List.cons_append, padLex, ih xs]

/-! ## the reference, as `padLex` -/

theorem padCmpNil_eq : ∀ (m : List Seg), Gem.padCmpNil m = padLex Gem.segCmp (.num 0) [] m := by
  intro m
  induction m with
  | nil => simp [Gem.padCmpNil, padLex]
  | cons y ys ih => simp only [Gem.padCmpNil, padLex, ih]

theorem padCmp_eq : ∀ (l m : List Seg), Gem.padCmp l m = padLex Gem.segCmp (.num 0) l m := by
  intro l
  induction l with
  | nil => intro m; simp only [Gem.padCmp, padCmpNil_eq]
  | cons x xs ih =>
    intro m
    cases m with
    | nil => simp only [Gem.padCmp, padLex, ih]
    | cons y ys => simp only [Gem.padCmp, padLex, ih]

theorem segCmp_zero_zero : Gem.segCmp (.num 0) (.num 0) = .eq := by simp [Gem.segCmp]

/-- A list split into what remains after dropping trailing zeros, and the zeros. -/
theorem dropTrailingZeros_split (l : List Seg) :
    ∃ k, l = Gem.dropTrailingZeros l ++ List.replicate k (.num 0) := by
  unfold Gem.dropTrailingZeros
  have key : ∀ (r : List Seg), ∃ k, r = List.replicate k (Seg.num 0) ++ r.dropWhile Seg.isZero := by
    intro r
    induction r with
    | nil => exact ⟨0, rfl⟩
    | cons x xs ih =>
      by_cases hx : x.isZero = true
      · obtain ⟨k, hk⟩ := ih
        have hx0 : x = .num 0 := by
          cases x with
          | num n => cases n <;> simp_all [Seg.isZero]
          | str s => simp [Seg.isZero] at hx
        refine ⟨k + 1, ?_⟩
        simp only [List.dropWhile_cons, hx, ↓reduceIte, List.replicate_succ, List.cons_append]
        rw [← hk, hx0]
      · exact ⟨0, by simp [List.dropWhile_cons, hx]⟩
  obtain ⟨k, hk⟩ := key l.reverse
  refine ⟨k, ?_⟩
  have := congrArg List.reverse hk
  simp only [List.reverse_reverse, List.reverse_append, List.reverse_replicate] at this
  exact this

/-- What stays after dropping trailing zeros does not end in a zero. -/
def Trimmed (l : List Seg) : Prop := ∀ x, l.getLast? = some x → x.isZero = false

theorem dropTrailingZeros_trimmed (l : List Seg) : Trimmed (Gem.dropTrailingZeros l) := by
  intro x hx
  unfold Gem.dropTrailingZeros at hx
  rw [List.getLast?_reverse] at hx
  have := List.head?_dropWhile_not Seg.isZero l.reverse
  rw [hx] at this
  simpa using this

theorem Trimmed.tail {x : Seg} {xs : List Seg} (h : Trimmed (x :: xs)) : Trimmed xs := by
  intro y hy
  cases xs with
  | nil => simp at hy
  | cons z zs => exact h y (by rw [List.getLast?_cons_cons]; exact hy)

def AllNum (l : List Seg) : Prop := ∀ x ∈ l, x.isNum = true

/-- A list that is empty or starts with a string segment. -/
def HeadStr : List Seg → Prop
  | [] => True
  | x :: _ => x.isNum = false

theorem segCmp_zero_num (n : Nat) : Gem.segCmp (.num 0) (.num n) = if n = 0 then .eq else .lt := by
  simp only [Gem.segCmp]
  cases n with
  | zero => simp
  | succ n => simp [Nat.compare_eq_lt]

theorem segCmp_num_zero (n : Nat) : Gem.segCmp (.num n) (.num 0) = if n = 0 then .eq else .gt := by
  simp only [Gem.segCmp]
  cases n with
  | zero => simp
  | succ n => simp [Nat.compare_eq_gt]

/-- Nothing against a non-empty trimmed numeric list is lower, whatever follows. -/
theorem nil_lt_trimmed (N X : List Seg) (hN : AllNum N) (ht : Trimmed N) (hne : N ≠ []) :
    padLex Gem.segCmp (.num 0) [] (N ++ X) = .lt := by
  induction N with
  | nil => exact absurd rfl hne
  | cons n r ih =>
    have hn := hN n (by simp)
    cases n with
    | str s => simp [Seg.isNum] at hn
    | num v =>
      simp only [List.cons_append, padLex, segCmp_zero_num]
      by_cases hv : v = 0
      · subst hv
        cases r with
        | nil => have := ht (.num 0) rfl; simp [Seg.isZero] at this
        | cons m r' =>
          simp only [↓reduceIte, Ordering.then]
          exact ih (fun x hx => hN x (by simp [hx])) ht.tail (by simp)
      · simp [hv, Ordering.then]

theorem trimmed_gt_nil (N X : List Seg) (hN : AllNum N) (ht : Trimmed N) (hne : N ≠ []) :
    padLex Gem.segCmp (.num 0) (N ++ X) [] = .gt := by
  induction N with
  | nil => exact absurd rfl hne
  | cons n r ih =>
    have hn := hN n (by simp)
    cases n with
    | str s => simp [Seg.isNum] at hn
    | num v =>
      simp only [List.cons_append, padLex, segCmp_num_zero]
      by_cases hv : v = 0
      · subst hv
        cases r with
        | nil => have := ht (.num 0) rfl; simp [Seg.isZero] at this
        | cons m r' =>
          simp only [↓reduceIte, Ordering.then]
          exact ih (fun x hx => hN x (by simp [hx])) ht.tail (by simp)
      · simp [hv, Ordering.then]

theorem headStr_twist (S S' : List Seg) (hS : HeadStr S) (hS' : HeadStr S') :
    padLex Gem.segCmp (.num 0) S S' = twist (padLex Gem.segCmp (.num 0)) S S' := by
  cases S with
  | nil =>
    cases S' with
    | nil => simp [padLex, twist]
    | cons y ys =>
      cases y with
      | num n => simp [HeadStr, Seg.isNum] at hS'
      | str t => simp [padLex, twist, Gem.segCmp, Ordering.then]
  | cons x xs =>
    cases S' with
    | nil =>
      cases x with
      | num n => simp [HeadStr, Seg.isNum] at hS
      | str t => simp [padLex, twist, Gem.segCmp, Ordering.then]
    | cons y ys => simp [twist]

/-- The reference's single position-wise comparison = numeric prefixes first, then the rests
with "no rest" greatest. -/
theorem split_claim (S S' : List Seg) (hS : HeadStr S) (hS' : HeadStr S') :
    ∀ (N N' : List Seg), AllNum N → AllNum N' → Trimmed N → Trimmed N' →
      padLex Gem.segCmp (.num 0) (N ++ S) (N' ++ S') =
        (padLex Gem.segCmp (.num 0) N N').then (twist (padLex Gem.segCmp (.num 0)) S S') := by
  intro N
  induction N with
  | nil =>
    intro N' _ hN' _ ht'
    cases N' with
    | nil => simp only [List.nil_append, padLex, Ordering.then]; exact headStr_twist S S' hS hS'
    | cons n' r' =>
      have h2 : padLex Gem.segCmp (.num 0) [] (n' :: r') = .lt := by
        have := nil_lt_trimmed (n' :: r') [] hN' ht' (by simp)
        simpa using this
      rw [h2]
      simp only [Ordering.then, List.nil_append]
      cases S with
      | nil => exact nil_lt_trimmed (n' :: r') S' hN' ht' (by simp)
      | cons s ss =>
        have hn' := hN' n' (by simp)
        cases s with
        | num v => simp [HeadStr, Seg.isNum] at hS
        | str t =>
          cases n' with
          | str u => simp [Seg.isNum] at hn'
          | num w => simp [padLex, Gem.segCmp, Ordering.then]
  | cons n r ih =>
    intro N' hN hN' ht ht'
    have hn := hN n (by simp)
    cases N' with
    | nil =>
      have h2 : padLex Gem.segCmp (.num 0) (n :: r) [] = .gt := by
        have := trimmed_gt_nil (n :: r) [] hN ht (by simp)
        simpa using this
      rw [h2]
      simp only [Ordering.then, List.nil_append]
      cases S' with
      | nil => exact trimmed_gt_nil (n :: r) S hN ht (by simp)
      | cons s ss =>
        cases s with
        | num v => simp [HeadStr, Seg.isNum] at hS'
        | str t =>
          cases n with
          | str u => simp [Seg.isNum] at hn
          | num w => simp [padLex, Gem.segCmp, Ordering.then]
    | cons n' r' =>
      simp only [List.cons_append, padLex]
      rw [ih r' (fun x hx => hN x (by simp [hx])) (fun x hx => hN' x (by simp [hx])) ht.tail ht'.tail]
      cases Gem.segCmp n n' <;> simp [Ordering.then]

/-! ## elements -/

theorem byte_forall (P : UInt8 → Prop) (h : ∀ n < 256, P (UInt8.ofNat n)) (c : UInt8) : P c := by
  have := h c.toNat c.toNat_lt
  simpa only [UInt8.ofNat_toNat] using this

theorem digit_facts (c : UInt8) : isDigitB c = true → (c < 0x80) = true ∧ c.toNat ≠ 0x221E :=
  byte_forall (fun c => isDigitB c = true → (c < 0x80) = true ∧ c.toNat ≠ 0x221E) (by decide +kernel) c

theorem lower_facts (c : UInt8) : Gem.isLower c = true →
    (c < 0x80) = true ∧ c.toNat ≠ 0x221E ∧ isDigitB c = false ∧ (97 ≤ c && c ≤ 122) = true ∧ toLowerB c = c ∧ c ≠ 48 :=
  byte_forall (fun c => Gem.isLower c = true →
    (c < 0x80) = true ∧ c.toNat ≠ 0x221E ∧ isDigitB c = false ∧ (97 ≤ c && c ≤ 122) = true ∧ toLowerB c = c ∧ c ≠ 48)
    (by decide +kernel) c

theorem versionCategory_digit (c : UInt8) (r : Bytes) (h : isDigitB c = true) :
    versionCategory (c :: r) = versionNumeric := by
  obtain ⟨h1, h2⟩ := digit_facts c h
  have h1' : c < 0x80 := by simpa using h1
  simp [versionCategory, versionNext, Bytes.decodeRune, h1', h2, h]

theorem versionCategory_lower (c : UInt8) (r : Bytes) (h : Gem.isLower c = true) :
    versionCategory (c :: r) = versionQualifier := by
  obtain ⟨h1, h2, h3, h4, _, _⟩ := lower_facts c h
  have h1' : c < 0x80 := by simpa using h1
  have h4' : (97 ≤ c ∧ c ≤ 122) := by simpa using h4
  simp [versionCategory, versionNext, Bytes.decodeRune, h1', h2, h3, h4'.1, h4'.2]

/-- Segments as the theorem takes them: string segments are non-empty lower-case words. -/
def SegOk : Seg → Prop
  | .num _ => True
  | .str s => s ≠ [] ∧ s.all Gem.isLower = true

theorem map_lower_id (s : Bytes) (h : s.all Gem.isLower = true) : s.map toLowerB = s := by
  induction s with
  | nil => rfl
  | cons c r ih =>
    simp only [List.all_cons, Bool.and_eq_true] at h
    simp only [List.map_cons, (lower_facts c h.1).2.2.2.2.1, ih h.2]

theorem gkey_num (n : Nat) : gkey (gemElem (.num n)) = { cat := versionNumeric, n := n, s := [] } := by
  obtain ⟨c, r, hc, hd, _⟩ := dec_head n
  have hcat : gemCat (gemElem (.num n)) = versionNumeric := by
    simp only [gemCat, gemElem, hc, versionCategory_digit c r hd]
    decide
  unfold gkey
  rw [hcat]
  simp [gemElem]

theorem gkey_str (s : Bytes) (h : SegOk (.str s)) : gkey (gemElem (.str s)) = { cat := versionQualifier, n := 0, s := s } := by
  obtain ⟨hne, hall⟩ := h
  cases s with
  | nil => exact absurd rfl hne
  | cons c r =>
    have hc : Gem.isLower c = true := by simp only [List.all_cons, Bool.and_eq_true] at hall; exact hall.1
    have hm := map_lower_id (c :: r) hall
    have hcat : gemCat (gemElem (.str (c :: r))) = versionQualifier := by
      simp only [gemCat, gemElem, hm, versionCategory_lower c r hc]
      decide
    have hne' : (versionQualifier == versionNumeric) = false := by decide
    unfold gkey
    rw [hcat]
    simp only [hne', Bool.false_eq_true, ↓reduceIte, gemElem, hm]

theorem gemElemOrd_gemElem (x y : Seg) (hx : SegOk x) (hy : SegOk y) :
    gemElemOrd (gemElem x) (gemElem y) = Gem.segCmp x y := by
  unfold gemElemOrd GK.cmp compareLex compareOn
  have hlt : compare versionQualifier versionNumeric = .lt := by decide
  have hgt : compare versionNumeric versionQualifier = .gt := by decide
  cases x with
  | num n =>
    cases y with
    | num m =>
      simp only [gkey_num, Gem.segCmp, compare_natCast, Std.ReflCmp.compare_self, Ordering.eq_then, List.compareLex_nil_nil]
      cases compare n m <;> rfl
    | str t => simp only [gkey_num, gkey_str t hy, Gem.segCmp, hgt, Ordering.then]
  | str s =>
    cases y with
    | num m => simp only [gkey_num, gkey_str s hx, Gem.segCmp, hlt, Ordering.then]
    | str t =>
      simp only [gkey_str s hx, gkey_str t hy, Gem.segCmp, Std.ReflCmp.compare_self, Ordering.eq_then]

theorem gemElem_isZero (x : Seg) (hx : SegOk x) : ((gemElem x).str == [48]) = x.isZero := by
  cases x with
  | num n =>
    by_cases h : n = 0
    · subst h; simp [gemElem, dec_zero, Seg.isZero]
    · have : dec n ≠ [48] := fun e => h (dec_injective (e.trans dec_zero.symm))
      have hz : Seg.isZero (.num n) = false := by
        cases n with
        | zero => exact absurd rfl h
        | succ k => rfl
      simp [gemElem, this, hz]
  | str s =>
    obtain ⟨hne, hall⟩ := hx
    cases s with
    | nil => exact absurd rfl hne
    | cons c r =>
      have hc : Gem.isLower c = true := by simp only [List.all_cons, Bool.and_eq_true] at hall; exact hall.1
      have h48 := (lower_facts c hc).2.2.2.2.2
      have hm := map_lower_id (c :: r) hall
      simp [gemElem, hm, Seg.isZero, h48]

theorem dropWhile_map_congr {α β} (g : α → β) (p : β → Bool) (q : α → Bool) :
    ∀ l : List α, (∀ x ∈ l, p (g x) = q x) → (l.map g).dropWhile p = (l.dropWhile q).map g := by
  intro l
  induction l with
  | nil => intro _; rfl
  | cons x xs ih =>
    intro h
    simp only [List.map_cons, List.dropWhile_cons, h x (by simp)]
    split
    · exact ih (fun y hy => h y (by simp [hy]))
    · rfl

theorem gemTrim_map (R : List Seg) (h : ∀ x ∈ R, SegOk x) :
    gemTrim (R.map gemElem) = (Gem.dropTrailingZeros R).map gemElem := by
  unfold gemTrim Gem.dropTrailingZeros
  rw [← List.map_reverse, dropWhile_map_congr gemElem (fun e => e.str == [48]) Seg.isZero R.reverse
    (fun x hx => gemElem_isZero x (h x (by simpa using hx))), List.map_reverse]

/-! ## assembly -/

theorem pad3_eq (l : List Int) : ∃ k, pad3 l = l ++ List.replicate k 0 := by
  unfold pad3
  split
  · exact ⟨_, rfl⟩
  · exact ⟨0, by simp⟩

theorem gemPadElem_eq : gemPadElem = gemElem (.num 0) := by
  simp [gemPadElem, gemElem, dec_zero]

theorem mem_dropTrailingZeros {l : List Seg} {x : Seg} (h : x ∈ Gem.dropTrailingZeros l) : x ∈ l := by
  obtain ⟨k, hk⟩ := dropTrailingZeros_split l
  rw [hk]; exact List.mem_append_left _ h

theorem headStr_dropWhile (l : List Seg) : HeadStr (l.dropWhile Seg.isNum) := by
  have := List.head?_dropWhile_not Seg.isNum l
  cases h : l.dropWhile Seg.isNum with
  | nil => trivial
  | cons x xs => rw [h] at this; simpa [HeadStr] using this

theorem headStr_dropTrailingZeros (R : List Seg) (h : HeadStr R) : HeadStr (Gem.dropTrailingZeros R) := by
  obtain ⟨k, hk⟩ := dropTrailingZeros_split R
  cases hd : Gem.dropTrailingZeros R with
  | nil => trivial
  | cons y ys =>
    rw [hd] at hk
    rw [hk] at h
    exact h

theorem numeric_stage (N N' : List Seg) (hN : AllNum N) (hN' : AllNum N') :
    padLex compare (0 : Int) (pad3 (N.map gemNum)) (pad3 (N'.map gemNum)) =
      padLex Gem.segCmp (.num 0) (Gem.dropTrailingZeros N) (Gem.dropTrailingZeros N') := by
  obtain ⟨k, hk⟩ := pad3_eq (N.map gemNum)
  obtain ⟨k', hk'⟩ := pad3_eq (N'.map gemNum)
  have h00 : compare (0 : Int) 0 = .eq := by decide
  rw [hk, hk', padLex_pad_left compare 0 h00, padLex_pad_right compare 0 h00]
  have hmap : padLex compare (gemNum (.num 0)) (N.map gemNum) (N'.map gemNum) = padLex Gem.segCmp (.num 0) N N' := by
    apply padLex_map
    intro i hi j hj
    have hi' : i.isNum = true := by rcases hi with hi | hi; exact hN i hi; subst hi; rfl
    have hj' : j.isNum = true := by rcases hj with hj | hj; exact hN' j hj; subst hj; rfl
    cases i with
    | str s => simp [Seg.isNum] at hi'
    | num n =>
      cases j with
      | str s => simp [Seg.isNum] at hj'
      | num m => simp [gemNum, Gem.segCmp, compare_natCast]
  have h0 : gemNum (.num 0) = 0 := rfl
  rw [h0] at hmap
  rw [hmap]
  obtain ⟨j, hj⟩ := dropTrailingZeros_split N
  obtain ⟨j', hj'⟩ := dropTrailingZeros_split N'
  have e : padLex Gem.segCmp (.num 0) N N' =
      padLex Gem.segCmp (.num 0) (Gem.dropTrailingZeros N ++ List.replicate j (.num 0))
        (Gem.dropTrailingZeros N' ++ List.replicate j' (.num 0)) := by rw [← hj, ← hj']
  rw [e, padLex_pad_left Gem.segCmp (.num 0) segCmp_zero_zero, padLex_pad_right Gem.segCmp (.num 0) segCmp_zero_zero]

theorem rest_stage (X Y : List Seg) (hX : ∀ x ∈ X, SegOk x) (hY : ∀ x ∈ Y, SegOk x) :
    twist (padLex gemElemOrd gemPadElem) (X.map gemElem) (Y.map gemElem) =
      twist (padLex Gem.segCmp (.num 0)) X Y := by
  have key : padLex gemElemOrd (gemElem (.num 0)) (X.map gemElem) (Y.map gemElem) = padLex Gem.segCmp (.num 0) X Y := by
    apply padLex_map
    intro i hi j hj
    apply gemElemOrd_gemElem
    · rcases hi with hi | hi
      · exact hX i hi
      · subst hi; trivial
    · rcases hj with hj | hj
      · exact hY j hj
      · subst hj; trivial
  rw [gemPadElem_eq]
  cases X with
  | nil => cases Y <;> simp [twist]
  | cons x xs =>
    cases Y with
    | nil => simp [twist]
    | cons y ys =>
      simp only [List.map_cons, twist]
      simpa only [List.map_cons] using key

theorem mem_of_mem_dropWhile' {α} {p : α → Bool} {l : List α} {x : α} (h : x ∈ l.dropWhile p) : x ∈ l := by
  rw [← List.takeWhile_append_dropWhile (p := p) (l := l)]
  exact List.mem_append_right _ h

theorem of_mem_takeWhile' {α} {p : α → Bool} : ∀ {l : List α} {x : α}, x ∈ l.takeWhile p → p x = true := by
  intro l
  induction l with
  | nil => intro x h; simp at h
  | cons y ys ih =>
    intro x h
    simp only [List.takeWhile_cons] at h
    split at h
    · rename_i hy
      rcases List.mem_cons.mp h with e | e
      · subst e; exact hy
      · exact ih e
    · simp at h

theorem segOk_of_valid (a : Gem.Ast) (hv : a.valid = true) (hl : a.lower = true) : ∀ x ∈ a.segs, SegOk x := by
  intro x hx
  cases x with
  | num n => trivial
  | str s =>
    simp only [Gem.Ast.valid, Bool.and_eq_true] at hv
    have h1 := List.all_eq_true.mp hv.2 _ hx
    have h2 := List.all_eq_true.mp hl _ hx
    simp only [Gem.Seg.valid, Bool.and_eq_true, Bool.not_eq_true', List.isEmpty_eq_false_iff] at h1
    exact ⟨h1.1, h2⟩

theorem gem_agree (a b : Gem.Ast) (hva : a.valid = true) (hla : a.lower = true)
    (hvb : b.valid = true) (hlb : b.lower = true) :
    vcompare (embedGem a) (embedGem b) = .ok (ordToInt (Gem.compare a b)) := by
  rw [compare_gem (embedGem a) (embedGem b) rfl _ _ rfl rfl]
  congr 2
  have hoa := segOk_of_valid a hva hla
  have hob := segOk_of_valid b hvb hlb
  have hRa : ∀ x ∈ a.segs.dropWhile Seg.isNum, SegOk x := fun x hx => hoa x (mem_of_mem_dropWhile' hx)
  have hRb : ∀ x ∈ b.segs.dropWhile Seg.isNum, SegOk x := fun x hx => hob x (mem_of_mem_dropWhile' hx)
  have hNa : AllNum (a.segs.takeWhile Seg.isNum) := fun x hx => of_mem_takeWhile' hx
  have hNb : AllNum (b.segs.takeWhile Seg.isNum) := fun x hx => of_mem_takeWhile' hx
  -- the reference side
  have href : Gem.compare a b =
      (padLex Gem.segCmp (.num 0) (Gem.dropTrailingZeros (a.segs.takeWhile Seg.isNum))
        (Gem.dropTrailingZeros (b.segs.takeWhile Seg.isNum))).then
      (twist (padLex Gem.segCmp (.num 0)) (Gem.dropTrailingZeros (a.segs.dropWhile Seg.isNum))
        (Gem.dropTrailingZeros (b.segs.dropWhile Seg.isNum))) := by
    unfold Gem.compare Gem.canonicalSegments
    rw [padCmp_eq]
    exact split_claim _ _ (headStr_dropTrailingZeros _ (headStr_dropWhile _)) (headStr_dropTrailingZeros _ (headStr_dropWhile _))
      _ _ (fun x hx => hNa x (mem_dropTrailingZeros hx)) (fun x hx => hNb x (mem_dropTrailingZeros hx))
      (dropTrailingZeros_trimmed _) (dropTrailingZeros_trimmed _)
  rw [href]
  show gemOrd (embedGem a) (embedGem b) = _
  unfold gemOrd compareLex gemElems
  simp only [embedGem]
  rw [numeric_stage _ _ hNa hNb, gemTrim_map _ hRa, gemTrim_map _ hRb,
    rest_stage _ _ (fun x hx => hRa x (mem_dropTrailingZeros hx)) (fun x hx => hRb x (mem_dropTrailingZeros hx))]

end DepsDev.Proofs.C02
