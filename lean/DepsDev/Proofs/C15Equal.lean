import DepsDev.Proofs.C15Interp
import DepsDev.Proofs.C15Precedence
import DepsDev.Model.Maven.Clauses
import DepsDev.Ref.MavenModel

/-!
# C15: the Go pipeline equals the reference semantics on the single-POM fragment
-/
namespace DepsDev.Proofs.C15Equal
open DepsDev DepsDev.Model.Maven DepsDev.Ref DepsDev.Ref.MavenModel DepsDev.Gen
open DepsDev.Proofs.C15Interp DepsDev.Proofs.C15Precedence

/-- no `${` -/
def plain (s : Bytes) : Bool := !Clauses.hasPlaceholder s

def plainDep (d : Dep) : Bool :=
  plain d.g && plain d.a && plain d.v && plain d.typ && plain d.cls && plain d.scope && plain d.opt &&
  d.excl.all fun e => plain e.g && plain e.a

/-- The fragment: one POM (no parent, no profiles, empty repository irrelevant), no `${` in
the project's coordinates or in any dependency field, no import-scoped managed entry. -/
def SinglePlain (L : Lineage) : Bool :=
  L.root.parent == ⟨[], [], []⟩ && L.root.profiles.isEmpty &&
  plain L.root.g && plain L.root.v &&
  L.root.deps.all plainDep && L.root.mgmt.all plainDep &&
  L.root.mgmt.all fun d => d.scope != bImport

/-- the managed entry of a key (distinct keys: the only one) -/
def managed (mgmt : List Dep) (k : DepKey) : Option Dep := mgmt.find? fun md => md.key = k

/-- Maven accepts the effective model: ids well-formed, every dependency has a version
once dependency management is applied. -/
def ValidSingle (L : Lineage) : Bool :=
  validId L.root.g && validId L.root.a && !L.root.v.isEmpty &&
  L.root.mgmt.all (fun d => validId d.g && validId d.a) &&
  L.root.deps.all fun d => validId d.g && validId d.a &&
    (!d.v.isEmpty || match managed L.root.mgmt d.key with
      | some md => !md.v.isEmpty
      | none => false)

/-! ## plain strings are fixed points of both interpolations -/

theorem containsSub_iff (s sub : Bytes) : containsSub s sub = true ↔ sub <:+: s := by
  induction s with
  | nil =>
    simp only [containsSub, List.isEmpty_iff]
    constructor
    · intro h; subst h; exact ⟨[], [], rfl⟩
    · intro ⟨a, b, e⟩; simp at e; exact e.2.1
  | cons c rest ih =>
    simp only [containsSub, Bool.or_eq_true, ih, List.isPrefixOf_iff_prefix]
    constructor
    · intro h
      cases h with
      | inl h => exact h.isInfix
      | inr h => exact h.trans (List.suffix_cons c rest).isInfix
    · intro h
      rw [List.infix_cons_iff] at h
      exact h

theorem plain_not_infix {s : Bytes} (h : plain s = true) : ¬ [cDollar, cOpen] <:+: s := by
  intro hi
  have := (containsSub_iff s [cDollar, cOpen]).2 hi
  simp [plain, Clauses.hasPlaceholder, this] at h

theorem go_interp_plain (m : Dict) {s : Bytes} (h : plain s = true) : interpolateStr m s = (s, true) :=
  interp_identity (plain_not_infix h)

theorem scan_plain (s lit : Bytes) (h : ¬ [cDollar, cOpen] <:+: s) : scan s lit none = [.lit (lit ++ s)] := by
  induction s generalizing lit with
  | nil => simp [scan]
  | cons c rest ih =>
    have hr : ¬ [cDollar, cOpen] <:+: rest := fun hi => h (hi.trans (List.suffix_cons c rest).isInfix)
    cases rest with
    | nil => simp [scan]
    | cons c2 rest2 =>
      unfold scan
      have : ¬ (c = cDollar ∧ c2 = cOpen) := by
        intro ⟨e1, e2⟩; subst e1; subst e2
        exact h ⟨[], rest2, by simp⟩
      simp only [this, if_false]
      rw [ih _ hr]; simp

theorem ref_interp_plain (m : RModel) (fuel : Nat) (stack : List Bytes) {s : Bytes} (h : plain s = true) :
    interp m (fuel + 1) stack s = some s := by
  unfold interp segments
  rw [scan_plain s [] (plain_not_infix h)]
  simp

theorem ref_interpTop_plain (m : RModel) {s : Bytes} (h : plain s = true) : interpTop m s = some s := by
  unfold interpTop; exact ref_interp_plain m _ [] h

theorem ref_interpDep_plain (m : RModel) {d : Dep} (h : plainDep d = true) : interpDep m d = some d := by
  simp only [plainDep, Bool.and_eq_true, List.all_eq_true] at h
  obtain ⟨⟨⟨⟨⟨⟨⟨hg, ha⟩, hv⟩, ht⟩, hc⟩, hs⟩, ho⟩, he⟩ := h
  have hex : d.excl.mapM (fun e => do
      let eg ← interpTop m e.g
      let ea ← interpTop m e.a
      pure (⟨eg, ea⟩ : Exclusion)) = some d.excl := by
    generalize d.excl = ex at he
    induction ex with
    | nil => rfl
    | cons e rest ih =>
      have h1 := he e (by simp)
      have ih := ih (fun x hx => he x (by simp [hx]))
      simp only [List.mapM_cons, ref_interpTop_plain m h1.1, ref_interpTop_plain m h1.2, ih]
      rfl
  unfold interpDep
  simp only [ref_interpTop_plain m hg, ref_interpTop_plain m ha, ref_interpTop_plain m hv, ref_interpTop_plain m ht,
    ref_interpTop_plain m hc, ref_interpTop_plain m hs, ref_interpTop_plain m ho, hex]
  rfl

theorem ref_mapM_plain (m : RModel) {ds : List Dep} (h : ds.all plainDep = true) : ds.mapM (interpDep m) = some ds := by
  induction ds with
  | nil => rfl
  | cons d rest ih =>
    simp only [List.all_cons, Bool.and_eq_true] at h
    simp only [List.mapM_cons, ref_interpDep_plain m h.1, ih h.2]
    rfl

theorem go_interpDep_plain (m : Dict) {d : Dep} (h : plainDep d = true) : d.interpolate m = (d, true) := by
  simp only [plainDep, Bool.and_eq_true] at h
  obtain ⟨⟨⟨⟨⟨⟨⟨hg, ha⟩, hv⟩, ht⟩, hc⟩, hs⟩, ho⟩, _⟩ := h
  simp [Dep.interpolate, Dep.interpolateWith, go_interp_plain m hg, go_interp_plain m ha, go_interp_plain m hv,
    go_interp_plain m ht, go_interp_plain m hc, go_interp_plain m hs, go_interp_plain m ho]

theorem go_interpolateDeps_plain (m : Dict) {ds : List Dep} (h : ds.all plainDep = true)
    (hne : ds.all (fun d => !d.g.isEmpty && !d.a.isEmpty) = true) : interpolateDeps m ds = ds := by
  induction ds with
  | nil => rfl
  | cons d rest ih =>
    simp only [List.all_cons, Bool.and_eq_true] at h hne
    have hd := go_interpDep_plain m h.1
    simp only [Dep.interpolate] at hd
    have e1 : d.g.isEmpty = false := by simpa using hne.1.1
    have e2 : d.a.isEmpty = false := by simpa using hne.1.2
    simp only [interpolateDeps, interpolateDepsWith, e1, e2, Bool.or_self, Bool.false_eq_true, if_false, hd, if_true]
    have := ih h.2 hne.2
    simp only [interpolateDeps] at this
    rw [this]

/-! ## distinct keys: the dedupe steps are the identity on both sides -/

theorem key_eq_mkey (d : Dep) : d.key = mkey d := by
  unfold Dep.key Dep.normType mkey
  split <;> simp_all

theorem normType_key (d : Dep) : d.normType.key = d.key := by
  unfold Dep.key Dep.normType
  split <;> simp_all [bJar]

theorem allDistinct_cons {k : DepKey} {rest : List DepKey} (h : Clauses.allDistinct (k :: rest) = true) :
    k ∉ rest ∧ Clauses.allDistinct rest = true := by
  simpa [Clauses.allDistinct] using h

theorem put_fresh (r : Bool) (acc : List Dep) (d : Dep) (h : ∀ x ∈ acc, mkey x ≠ mkey d) : put r acc d = acc ++ [d] := by
  induction acc with
  | nil => rfl
  | cons x xs ih =>
    have hx := h x (by simp)
    simp only [put, hx, if_false, List.cons_append]
    rw [ih (fun y hy => h y (by simp [hy]))]

theorem foldl_put_distinct (r : Bool) (ds acc : List Dep)
    (h : Clauses.allDistinct ((acc ++ ds).map mkey) = true) : ds.foldl (put r) acc = acc ++ ds := by
  induction ds generalizing acc with
  | nil => simp
  | cons d rest ih =>
    have hd : ∀ x ∈ acc, mkey x ≠ mkey d := by
      intro x hx e
      clear ih
      induction acc with
      | nil => cases hx
      | cons y ys ihy =>
        simp only [List.cons_append, List.map_cons] at h
        have ⟨h1, h2⟩ := allDistinct_cons h
        cases hx with
        | head => exact h1 (by simp [e])
        | tail _ hx' => exact ihy h2 hx'
    simp only [List.foldl, put_fresh r acc d hd]
    rw [ih (acc ++ [d]) (by simpa using h)]
    simp

theorem mergeDuplicates_distinct (ds : List Dep) (h : Clauses.allDistinct (ds.map mkey) = true) :
    mergeDuplicates ds = ds := by
  unfold mergeDuplicates
  rw [foldl_put_distinct true ds [] (by simpa using h)]; simp

theorem lookup_none_of_not_mem (m : DepMap) (k : DepKey) (h : k ∉ m.map (·.1)) : m.get k = none := by
  unfold DepMap.get
  induction m with
  | nil => rfl
  | cons kv rest ih =>
    obtain ⟨k', v⟩ := kv
    simp only [List.map_cons, List.mem_cons, not_or] at h
    have : (k == k') = false := by simpa using h.1
    simp only [List.lookup, this]
    exact ih h.2

theorem insertIfAbsent_fresh (m : DepMap) (k : DepKey) (d : Dep) (h : k ∉ m.map (·.1)) :
    m.insertIfAbsent k d = m ++ [(k, d)] := by
  unfold DepMap.insertIfAbsent; rw [lookup_none_of_not_mem m k h]

def entry (d : Dep) : DepKey × Dep := (d.key, d.normType)

theorem allDistinct_append_left {a : List DepKey} {k : DepKey} {b : List DepKey}
    (h : Clauses.allDistinct (a ++ k :: b) = true) : k ∉ a := by
  induction a with
  | nil => simp
  | cons x xs ih =>
    simp only [List.cons_append] at h
    have ⟨h1, h2⟩ := allDistinct_cons h
    simp only [List.mem_cons, not_or]
    exact ⟨fun e => h1 (by simp [e]), ih h2⟩

theorem allDistinct_snoc {a : List DepKey} {k : DepKey} {b : List DepKey}
    (h : Clauses.allDistinct (a ++ k :: b) = true) : Clauses.allDistinct ((a ++ [k]) ++ b) = true := by
  simpa using h

theorem dedupeDeps_distinct (ds : List Dep) (m : DepMap)
    (h : Clauses.allDistinct (m.map (·.1) ++ ds.map Dep.key) = true) : dedupeDeps ds m = m ++ ds.map entry := by
  induction ds generalizing m with
  | nil => simp [dedupeDeps]
  | cons d rest ih =>
    simp only [List.map_cons] at h
    have hk := allDistinct_append_left h
    simp only [dedupeDeps, insertIfAbsent_fresh m d.key d.normType hk]
    rw [ih (m ++ [(d.key, d.normType)]) (by simpa using h)]
    simp [entry]

theorem addDepManagement_distinct (ds : List Dep) (m : DepMap)
    (hs : ds.all (fun d => d.scope != bImport) = true)
    (h : Clauses.allDistinct (m.map (·.1) ++ ds.map Dep.key) = true) :
    addDepManagement ds m = (m ++ ds.map entry, []) := by
  induction ds generalizing m with
  | nil => simp [addDepManagement]
  | cons d rest ih =>
    simp only [List.map_cons] at h
    simp only [List.all_cons, Bool.and_eq_true] at hs
    have hk := allDistinct_append_left h
    have hne : ¬ d.scope = bImport := by simpa using hs.1
    simp only [addDepManagement, hne, if_false, insertIfAbsent_fresh m d.key d.normType hk]
    rw [ih (m ++ [(d.key, d.normType)]) hs.2 (by simpa using h)]
    simp [entry]

theorem importLoop_empty (get : Bytes → Bytes → Bytes → Option (List Dep)) (fuel : Nat) (imported : List DepKey) (m : DepMap) :
    importLoop get fuel [] imported m = m := by
  cases fuel <;> simp [importLoop]

/-! ## management injection: Maven's fold over the managed entries = the library's map over the dependencies -/

theorem mkey_fill (d md : Dep) : mkey (fill d md) = mkey d := rfl

/-- one step of Maven's injection, on dependencies with distinct keys -/
def stepFill (md : Dep) (d : Dep) : Dep := if mkey d = mkey md then fill d md else d

theorem mkey_stepFill (md d : Dep) : mkey (stepFill md d) = mkey d := by
  unfold stepFill; split <;> simp [mkey_fill]

theorem fillLast_distinct (md : Dep) (ds : List Dep) (h : Clauses.allDistinct (ds.map mkey) = true) :
    fillLast md ds = (ds.map (stepFill md), ds.any fun d => mkey d = mkey md) := by
  induction ds with
  | nil => rfl
  | cons d rest ih =>
    simp only [List.map_cons] at h
    have ⟨h1, h2⟩ := allDistinct_cons h
    have ih := ih h2
    simp only [fillLast, ih, List.map_cons, List.any_cons]
    by_cases hany : (rest.any fun d => decide (mkey d = mkey md)) = true
    · -- the key occurs later: `d` has another key
      have hd : ¬ mkey d = mkey md := by
        intro e
        simp only [List.any_eq_true, decide_eq_true_eq] at hany
        obtain ⟨x, hx, ex⟩ := hany
        exact h1 (by rw [e, ← ex]; exact List.mem_map_of_mem hx)
      simp [hany, stepFill, hd]
    · have hany' : (rest.any fun d => decide (mkey d = mkey md)) = false := by simpa using hany
      by_cases hd : mkey d = mkey md
      · simp [hany', stepFill, hd]
      · simp [hany', stepFill, hd]

/-- the reference result for one dependency -/
def refFill (mgmt : List Dep) (d : Dep) : Dep :=
  match mgmt.find? fun md => mkey md = mkey d with
  | some md => fill d md
  | none => d

theorem mkey_refFill (mgmt : List Dep) (d : Dep) : mkey (refFill mgmt d) = mkey d := by
  unfold refFill; split <;> simp [mkey_fill]

theorem foldl_fillLast_distinct (mgmt deps : List Dep)
    (hm : Clauses.allDistinct (mgmt.map mkey) = true) (hd : Clauses.allDistinct (deps.map mkey) = true) :
    mgmt.foldl (fun ds md => (fillLast md ds).1) deps = deps.map (refFill mgmt) := by
  induction mgmt generalizing deps with
  | nil =>
    have : refFill [] = id := funext fun d => by simp [refFill]
    simp [this]
  | cons md rest ih =>
    simp only [List.map_cons] at hm
    have ⟨h1, h2⟩ := allDistinct_cons hm
    simp only [List.foldl, fillLast_distinct md deps hd]
    have hd' : Clauses.allDistinct ((deps.map (stepFill md)).map mkey) = true := by
      have : (deps.map (stepFill md)).map mkey = deps.map mkey := by
        simp [List.map_map, Function.comp_def, mkey_stepFill]
      rw [this]; exact hd
    rw [ih (deps.map (stepFill md)) h2 hd', List.map_map]
    apply List.map_congr_left
    intro d _
    simp only [Function.comp]
    by_cases e : mkey d = mkey md
    · -- `md` manages `d`; nothing in `rest` has that key
      have hnone : (rest.find? fun x => mkey x = mkey (fill d md)) = none := by
        rw [List.find?_eq_none]
        intro x hx ex
        have ex := of_decide_eq_true ex
        rw [mkey_fill] at ex
        exact h1 (by rw [← e, ← ex]; exact List.mem_map_of_mem hx)
      have : (stepFill md d) = fill d md := by simp [stepFill, e]
      rw [this]
      simp only [refFill, hnone, List.find?, e.symm, decide_true]
    · have : (stepFill md d) = d := by simp [stepFill, e]
      rw [this]
      have e' : ¬ mkey md = mkey d := fun x => e x.symm
      simp only [refFill, List.find?, e', decide_false]

theorem get_map_entry (mgmt : List Dep) (k : DepKey) :
    DepMap.get (mgmt.map entry) k = (mgmt.find? fun md => mkey md = k).map Dep.normType := by
  unfold DepMap.get
  induction mgmt with
  | nil => rfl
  | cons md rest ih =>
    simp only [List.map_cons, entry, List.lookup, List.find?, key_eq_mkey]
    by_cases e : k = mkey md
    · subst e; simp
    · have : (k == mkey md) = false := by simpa using e
      have e' : ¬ mkey md = k := fun x => e x.symm
      simp only [this, e', decide_false]
      simpa [entry, key_eq_mkey] using ih

@[simp] theorem normType_v (d : Dep) : d.normType.v = d.v := by unfold Dep.normType; split <;> rfl
@[simp] theorem normType_scope (d : Dep) : d.normType.scope = d.scope := by unfold Dep.normType; split <;> rfl
@[simp] theorem normType_excl (d : Dep) : d.normType.excl = d.excl := by unfold Dep.normType; split <;> rfl

/-- the library's result for one dependency is the reference result with the type defaulted -/
theorem go_fill_eq (mgmt : List Dep) (d : Dep) :
    fillFromManagement (mgmt.map entry) (entry d) = (refFill mgmt d).normType := by
  have h1 : (entry d).1 = mkey d := by simp [entry, key_eq_mkey]
  have h2 : (entry d).2 = d.normType := rfl
  unfold fillFromManagement refFill
  simp only [h1, h2, get_map_entry]
  cases mgmt.find? (fun md => mkey md = mkey d) with
  | none => simp
  | some md =>
    simp only [Option.map_some, normType_v, normType_scope, normType_excl]
    unfold fill Dep.normType
    split <;> simp_all

theorem canon_normType (b : Bool) (d : Dep) : canonDep b d.normType = canonDep b d := by
  unfold Dep.normType canonDep
  split <;> simp_all [bJar]

/-! ## the two sides on the fragment -/

theorem validId_nonempty {s : Bytes} (h : validId s = true) : s.isEmpty = false := by
  unfold validId at h
  cases s <;> simp_all

theorem loop_no_parent (repo : List Project) (fuel n : Nat) (visited : List Key) (result : Project) :
    mergeParentsLoop repo fuel n visited ⟨[], [], []⟩ result = some result := by
  cases fuel <;> simp [mergeParentsLoop]

structure Frag (L : Lineage) : Prop where
  parent : L.root.parent = ⟨[], [], []⟩
  profiles : L.root.profiles = []
  pg : plain L.root.g = true
  pv : plain L.root.v = true
  pdeps : L.root.deps.all plainDep = true
  pmgmt : L.root.mgmt.all plainDep = true
  noimp : L.root.mgmt.all (fun d => d.scope != bImport) = true
  ddeps : Clauses.allDistinct (L.root.deps.map mkey) = true
  dmgmt : Clauses.allDistinct (L.root.mgmt.map mkey) = true
  vg : validId L.root.g = true
  va : validId L.root.a = true
  vv : L.root.v.isEmpty = false
  vmgmt : L.root.mgmt.all (fun d => validId d.g && validId d.a) = true
  vdeps : L.root.deps.all (fun d => validId d.g && validId d.a &&
    (!d.v.isEmpty || match managed L.root.mgmt d.key with
      | some md => !md.v.isEmpty
      | none => false)) = true

theorem mergeProfiles_none (p : Project) (h : p.profiles = []) : p.MergeProfiles jdkEnv osEnv = some p := by
  unfold Project.MergeProfiles Model.Maven.activeProfiles
  simp [h]

theorem frag_of (L : Lineage) (hfrag : SinglePlain L = true) (hB : Clauses.clauseB L = true)
    (hvalid : ValidSingle L = true) : Frag L := by
  simp only [SinglePlain, Bool.and_eq_true, beq_iff_eq, List.isEmpty_iff] at hfrag
  obtain ⟨⟨⟨⟨⟨⟨hpar, hprof⟩, hpg⟩, hpv⟩, hpd⟩, hpm⟩, hni⟩ := hfrag
  simp only [ValidSingle, Bool.and_eq_true, Bool.not_eq_true'] at hvalid
  obtain ⟨⟨⟨⟨hvg, hva⟩, hvv⟩, hvm⟩, hvd⟩ := hvalid
  have hB' : Clauses.noDup L.root = true := by
    simp only [Clauses.clauseB, List.all_cons, Bool.and_eq_true] at hB
    exact hB.1
  unfold Clauses.noDup at hB'
  rw [mergeProfiles_none L.root hprof] at hB'
  simp only [Bool.and_eq_true] at hB'
  have kk : ∀ ds : List Dep, ds.map Dep.key = ds.map mkey := fun ds => by simp [key_eq_mkey]
  exact ⟨hpar, hprof, hpg, hpv, hpd, hpm, hni, by rw [← kk]; exact hB'.1, by rw [← kk]; exact hB'.2,
    hvg, hva, hvv, hvm, hvd⟩

theorem all_nonempty_of_valid {ds : List Dep} {q : Dep → Bool}
    (h : ds.all (fun d => validId d.g && validId d.a && q d) = true) :
    ds.all (fun d => !d.g.isEmpty && !d.a.isEmpty) = true := by
  simp only [List.all_eq_true, Bool.and_eq_true] at h ⊢
  intro d hd
  have := h d hd
  simp [validId_nonempty this.1.1, validId_nonempty this.1.2]

theorem go_side (L : Lineage) (F : Frag L) :
    goPipeline L = some (L.root.deps.map (fun d => (refFill L.root.mgmt d).normType), L.root.mgmt.map Dep.normType) := by
  have hne1 : L.root.deps.all (fun d => !d.g.isEmpty && !d.a.isEmpty) = true := all_nonempty_of_valid F.vdeps
  have hne2 : L.root.mgmt.all (fun d => !d.g.isEmpty && !d.a.isEmpty) = true :=
    all_nonempty_of_valid (q := fun _ => true) (by simpa using F.vmgmt)
  have kk : ∀ ds : List Dep, ds.map Dep.key = ds.map mkey := fun ds => by simp [key_eq_mkey]
  unfold goPipeline goPipelineWith goProjectWith
  rw [mergeProfiles_none L.root F.profiles]
  simp only [mergeParentsWith, F.parent, loop_no_parent, Option.map_some]
  have hi := go_interpolateDeps_plain L.root.propertyMap F.pdeps hne1
  have hm := go_interpolateDeps_plain L.root.propertyMap F.pmgmt hne2
  simp only [interpolateDeps] at hi hm
  simp only [Project.InterpolateWith, hi, hm, Project.ProcessDependencies]
  rw [dedupeDeps_distinct L.root.deps [] (by simpa [kk] using F.ddeps)]
  rw [addDepManagement_distinct L.root.mgmt [] F.noimp (by simpa [kk] using F.dmgmt)]
  simp only [List.nil_append, importLoop_empty, List.map_map]
  congr 1
  congr 1
  · apply List.map_congr_left
    intro d _
    simp only [Function.comp]
    exact go_fill_eq L.root.mgmt d

theorem filter_all {α} (p : α → Bool) (l : List α) (h : l.all p = true) : l.filter p = l := by
  rw [List.filter_eq_self]; simpa using h

theorem filter_none {α} (p : α → Bool) (l : List α) (h : l.all (fun x => !p x) = true) : l.filter p = [] := by
  rw [List.filter_eq_nil_iff]; simpa using h

theorem not_isImport_of_scope {ds : List Dep} (h : ds.all (fun d => d.scope != bImport) = true) :
    ds.all (fun d => !isImport d) = true := by
  simp only [List.all_eq_true] at h ⊢
  intro d hd
  have := h d hd
  simp only [isImport, Bool.not_eq_true', Bool.and_eq_false_iff]
  right
  simpa using this

theorem ref_side (L : Lineage) (F : Frag L) :
    MavenModel.effective L = some (L.root.deps.map (refFill L.root.mgmt), L.root.mgmt) := by
  unfold MavenModel.effective effectiveIn
  have hchain : chain L.repo (L.repo.length + 1) [] L.root = some [L.root] := by
    unfold chain; simp [F.parent]
  have hact : MavenModel.activeProfiles libEnv L.root = [] := by
    unfold MavenModel.activeProfiles; simp [F.profiles]
  have hmd : mergeDuplicates L.root.deps = L.root.deps := mergeDuplicates_distinct _ F.ddeps
  have hni := not_isImport_of_scope F.noimp
  have hown : L.root.mgmt.filter (fun d => !isImport d) = L.root.mgmt := filter_all _ _ hni
  have himp : L.root.mgmt.filter isImport = [] := filter_none _ _ hni
  -- validation facts
  have hvd : (L.root.deps.map (refFill L.root.mgmt)).any (fun d => !validId d.g || !validId d.a || d.v.isEmpty) = false := by
    rw [List.any_eq_false]
    intro x hx
    obtain ⟨d, hd, rfl⟩ := List.mem_map.1 hx
    have hv := (List.all_eq_true.1 F.vdeps) d hd
    simp only [Bool.and_eq_true, Bool.or_eq_true, Bool.not_eq_true'] at hv
    obtain ⟨⟨h1, h2⟩, h3⟩ := hv
    have eg : (refFill L.root.mgmt d).g = d.g := by unfold refFill; split <;> rfl
    have ea : (refFill L.root.mgmt d).a = d.a := by unfold refFill; split <;> rfl
    have ev : (refFill L.root.mgmt d).v.isEmpty = false := by
      unfold refFill managed at *
      simp only [key_eq_mkey] at h3
      cases hf : L.root.mgmt.find? (fun md => mkey md = mkey d) with
      | none => simp [hf] at h3 ⊢; exact h3
      | some md =>
        simp only [hf] at h3 ⊢
        unfold fill
        cases hdv : d.v with
        | nil => simp [hdv] at h3 ⊢; exact h3
        | cons c t => simp
    simp [eg, ea, ev, h1, h2]
  have hvm : L.root.mgmt.any (fun d => !validId d.g || !validId d.a) = false := by
    rw [List.any_eq_false]
    intro d hd
    have hv := (List.all_eq_true.1 F.vmgmt) d hd
    simp only [Bool.and_eq_true] at hv
    simp [hv.1, hv.2]
  unfold effectiveModel
  simp only [hchain, assemble, injectProfiles, hact, List.foldl, hmd, Option.bind_eq_bind, Option.bind_some,
    Option.pure_def]
  simp only [ref_mapM_plain _ F.pdeps, ref_mapM_plain _ F.pmgmt, ref_interpTop_plain _ F.pg,
    ref_interpTop_plain _ F.pv, Option.bind_some, hown, himp, List.mapM_nil, Option.pure_def, List.isEmpty_nil, if_true]
  rw [foldl_fillLast_distinct L.root.mgmt L.root.deps F.dmgmt F.ddeps]
  simp only [hvd, hvm, F.vg, F.va, F.vv, Bool.not_true, Bool.or_self, Bool.false_eq_true, if_false, Option.map_some]

/-- The Go pipeline agrees with the reference semantics on the single-POM fragment. -/
theorem single_plain_agrees' (L : Lineage) (F : Frag L) :
    (goPipeline L).map canon = (MavenModel.effective L).map canon := by
  rw [go_side L F, ref_side L F]
  simp only [Option.map_some, canon, List.map_map]
  congr 1
  congr 1
  · apply List.map_congr_left
    intro d _
    simp only [Function.comp, canon_normType]
  · apply List.map_congr_left
    intro d _
    simp only [Function.comp, canon_normType]

theorem single_plain_agrees (L : Lineage) (hfrag : SinglePlain L = true) (hB : Clauses.clauseB L = true)
    (hvalid : ValidSingle L = true) :
    (goPipeline L).map canon = (MavenModel.effective L).map canon :=
  single_plain_agrees' L (frag_of L hfrag hB hvalid)

end DepsDev.Proofs.C15Equal
