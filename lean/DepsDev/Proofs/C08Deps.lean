import DepsDev.Proofs.C08Base

/-! `filterSlice` / `getDependencies`: the result holds exactly the requirements whose
marker is true (in some order), and inherits "at most one requirement per package". -/
namespace DepsDev.Resolve.Pypi

theorem filterSliceAux_spec {α} (pred : α → Res Bool) :
    ∀ (n : Nat) (kept rest out : List α), rest.length ≤ n → filterSliceAux pred n kept rest = .ok out →
      ∃ l, List.Perm (kept.reverse ++ rest) (out ++ l) ∧ (∀ y ∈ l, pred y = .ok false) ∧
        (∀ y ∈ out, y ∈ kept ∨ pred y = .ok true) := by
  intro n
  induction n with
  | zero =>
    intro kept rest out hl h
    have : rest = [] := List.eq_nil_of_length_eq_zero (Nat.le_zero.mp hl)
    subst this
    simp [filterSliceAux] at h; subst h
    exact ⟨[], by simp, by simp, fun y hy => Or.inl (List.mem_reverse.mp hy)⟩
  | succ n ih =>
    intro kept rest out hl h
    cases rest with
    | nil =>
      simp [filterSliceAux] at h; subst h
      exact ⟨[], by simp, by simp, fun y hy => Or.inl (List.mem_reverse.mp hy)⟩
    | cons x rest' =>
      simp only [filterSliceAux] at h
      have hl' : rest'.length ≤ n := by simp at hl; omega
      split at h
      · rename_i hp
        obtain ⟨l, h1, h2, h3⟩ := ih (x :: kept) rest' out hl' h
        refine ⟨l, ?_, h2, ?_⟩
        · simpa [List.reverse_cons, List.append_assoc] using h1
        · intro y hy
          rcases h3 y hy with h4 | h4
          · rcases List.mem_cons.mp h4 with e | e
            · subst e; exact Or.inr hp
            · exact Or.inl e
          · exact Or.inr h4
      · rename_i hp
        split at h
        · rename_i hlast
          simp at h; subst h
          have : rest' = [] := by
            cases rest' with
            | nil => rfl
            | cons a t => simp [List.getLast?] at hlast
          subst this
          refine ⟨[x], by simp, ?_, fun y hy => Or.inl (List.mem_reverse.mp hy)⟩
          intro y hy; simp at hy; subst hy; exact hp
        · rename_i last hlast
          have hsplit : rest'.dropLast ++ [last] = rest' := by
            obtain ⟨ys, hys⟩ := List.getLast?_eq_some_iff.mp hlast
            subst hys; simp
          have hlen : (last :: rest'.dropLast).length ≤ n := by
            simp [List.length_dropLast]
            have : rest'.length ≥ 1 := by
              cases rest' with
              | nil => simp at hlast
              | cons a t => simp
            omega
          obtain ⟨l, h1, h2, h3⟩ := ih kept (last :: rest'.dropLast) out hlen h
          refine ⟨x :: l, ?_, ?_, h3⟩
          · have p1 : List.Perm rest' (last :: rest'.dropLast) := by
              conv => lhs; rw [← hsplit]
              exact List.perm_append_comm
            have p2 : List.Perm (kept.reverse ++ x :: rest') (x :: (kept.reverse ++ rest')) := List.perm_middle
            have p3 : List.Perm (x :: (kept.reverse ++ rest')) (x :: (kept.reverse ++ (last :: rest'.dropLast))) :=
              List.Perm.cons x (List.Perm.append_left _ p1)
            have p4 : List.Perm (x :: (kept.reverse ++ (last :: rest'.dropLast))) (x :: (out ++ l)) := List.Perm.cons x h1
            have p5 : List.Perm (x :: (out ++ l)) (out ++ x :: l) := List.perm_middle.symm
            exact p2.trans (p3.trans (p4.trans p5))
          · intro y hy
            rcases List.mem_cons.mp hy with e | e
            · subst e; exact hp
            · exact h2 y e
      · simp at h
      · simp at h
      · simp at h

theorem filterSlice_spec {α} {pred : α → Res Bool} {ts out : List α} (h : filterSlice pred ts = .ok out) :
    (∀ y, y ∈ out ↔ (y ∈ ts ∧ pred y = .ok true)) ∧ ∃ l, List.Perm ts (out ++ l) := by
  obtain ⟨l, h1, h2, h3⟩ := filterSliceAux_spec pred ts.length [] ts out (Nat.le_refl _) h
  simp at h1 h3
  refine ⟨?_, l, h1⟩
  intro y
  constructor
  · intro hy
    exact ⟨(h1.mem_iff).mpr (List.mem_append_left _ hy), h3 y hy⟩
  · rintro ⟨hy, hp⟩
    rcases List.mem_append.mp ((h1.mem_iff).mp hy) with e | e
    · exact e
    · have := h2 y e; rw [hp] at this; simp at this

theorem distinctPkgs_nodup : ∀ (rs : List Req), distinctPkgs rs = true → (rs.map (·.pkg)).Nodup := by
  intro rs
  induction rs with
  | nil => simp
  | cons r rs ih =>
    intro h
    simp only [distinctPkgs, Bool.and_eq_true, Bool.not_eq_eq_eq_not, Bool.not_true] at h
    simp only [List.map_cons, List.nodup_cons]
    refine ⟨?_, ih h.2⟩
    intro hm
    obtain ⟨x, hx, hxe⟩ := List.mem_map.mp hm
    have : rs.any (fun y => y.pkg == r.pkg) = true := List.any_eq_true.mpr ⟨x, hx, by simp [hxe]⟩
    rw [this] at h; simp at h

theorem u4_reqs {U : Universe} (h : u4 U = true) {v : Ver} {reqs : List Req} (hr : U.reqsOf v = some reqs) :
    (reqs.map (·.pkg)).Nodup := by
  simp only [Universe.reqsOf] at hr
  split at hr
  · rename_i i hi
    simp only [u4, List.all_eq_true] at h
    have hmem : i ∈ U.pkgs := List.mem_of_getElem? hi
    have := h i hmem
    exact distinctPkgs_nodup reqs (this reqs (List.mem_of_getElem? hr))
  · simp at hr

/-- `getDependencies`: exactly the requirements with a true marker -/
theorem getDependencies_spec {U : Universe} {v : Ver} {ex : List Nat} {deps : List Req}
    (h : getDependencies U v ex = .ok deps) :
    ∃ reqs, U.reqsOf v = some reqs ∧ (∀ d, d ∈ deps ↔ (d ∈ reqs ∧ evalMarker U v ex d = .ok true)) ∧
      ((reqs.map (·.pkg)).Nodup → (deps.map (·.pkg)).Nodup) := by
  simp only [getDependencies] at h
  split at h
  · simp at h
  · rename_i reqs hr
    obtain ⟨h1, l, h2⟩ := filterSlice_spec h
    refine ⟨reqs, hr, h1, ?_⟩
    intro nd
    have := (List.Perm.map (·.pkg) h2).nodup_iff.mp nd
    rw [List.map_append] at this
    exact (List.nodup_append.mp this).1

/-- under U4 two requirements of one version on the same package are the same -/
theorem nodup_pkg_eq {rs : List Req} (nd : (rs.map (·.pkg)).Nodup) {a b : Req} (ha : a ∈ rs) (hb : b ∈ rs)
    (hp : a.pkg = b.pkg) : a = b := by
  induction rs with
  | nil => simp at ha
  | cons r rs ih =>
    simp only [List.map_cons, List.nodup_cons] at nd
    rcases List.mem_cons.mp ha with e1 | e1 <;> rcases List.mem_cons.mp hb with e2 | e2
    · rw [e1, e2]
    · subst e1; exact absurd (List.mem_map.mpr ⟨b, e2, hp.symm⟩) nd.1
    · subst e2; exact absurd (List.mem_map.mpr ⟨a, e1, hp⟩) nd.1
    · exact ih nd.2 e1 e2

end DepsDev.Resolve.Pypi
