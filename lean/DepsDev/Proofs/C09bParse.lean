import DepsDev.Proofs.C09bOps
import DepsDev.Proofs.C11ParseConstraint

/-!
# C09b — everything `ParseConstraint` returns is a well-formed set, sorted by `min`

For the systems whose constraints go through `value`/`andList`/`orList` (Default, NPM, Cargo,
Composer) and for Go (a single `newSpan`), the set of every accepted constraint satisfies C09's
domain predicate `SetOK` (spans as `newSpan` builds them) and is `MinSorted` (the order
`Intersect`'s early `break` relies on). Every span comes out of `newSpan` (`opVersionToSpan_ok`,
`excludeToSpans_ok`), `Intersect` inside `andList` and `canon` at the end of `orList` keep
`SpanOK` and return sorted lists (C09's `intersect_eq`, `canonSpans_spec`); non-emptiness of the
span list is C11's `parseConstraint_spec`. The parser state only matters through `sys`.
-/
namespace DepsDev.Proofs.C09b

open Std DepsDev DepsDev.Semver DepsDev.Proofs DepsDev.Proofs.C09 DepsDev.Proofs.C10
open DepsDev.Proofs.C11 (BVw BV cpUnop cpPlain cpHyphen cpValue' alNext)

variable {s : System}

/-- Every span of the list is well-formed. -/
def AllOK (s : System) (l : List Span) : Prop := ∀ sp ∈ l, SpanOK s sp

theorem allOK_nil : AllOK s [] := fun _ h => by cases h
theorem allOK_one {sp : Span} (h : SpanOK s sp) : AllOK s [sp] := by
  intro y hy; simp at hy; subst hy; exact h
theorem allOK_append {l l' : List Span} (h : AllOK s l) (h' : AllOK s l') : AllOK s (l ++ l') := by
  intro y hy
  rcases List.mem_append.mp hy with hy | hy
  · exact h y hy
  · exact h' y hy

theorem minSorted_nil : MinSorted s [] := List.Pairwise.nil
theorem minSorted_one (sp : Span) : MinSorted s [sp] := List.pairwise_singleton _ _

theorem ne3 (hs : Generic s = true) : s ≠ .maven ∧ s ≠ .pypi ∧ s ≠ .rubygems :=
  let h6 := (sys6_of_generic hs).ne; ⟨h6.1, h6.2.2.2.1, h6.2.2.2.2⟩

/-! ### what `newSpan` stores -/

/-- The bounds of a non-empty span returned by `newSpan`: `min` is the normalised first argument,
and it is not above the normalised second argument. -/
theorem newSpan_min (hs : Generic s = true) {a b : Version} (ha : VG s a) (hb : VG s b) (ao bo : Bool)
    {sp : Span} (h : newSpan a ao b bo = .ok sp) (hne : sp.rank ≠ .empty) :
    sp.min = some (normMin a) ∧ pt s (normMin a) ≤ pt s (normMax b) := by
  have h1 := normMin_VOK (ne3 hs) ha
  have h2 := normMax_VOK hb
  rw [newSpan_unfold, vEqual_eq h1.1 h2.1, vLess_eq h1.1 h2.1] at h
  generalize normMin a = x at *
  generalize normMax b = y at *
  simp only [ok_bind] at h
  by_cases q1 : pt s x ≤ pt s y ∧ pt s y ≤ pt s x
  · by_cases q2 : (ao || bo) = true
    · simp only [q1, and_self, decide_true, q2, Bool.and_self, ↓reduceIte] at h
      injection h with h; subst h; exact absurd rfl hne
    · have q : ao = false ∧ bo = false := by
        cases ao <;> cases bo <;> simp_all
      simp only [q1, and_self, decide_true, q.1, q.2, Bool.or_self, Bool.and_false, Bool.false_eq_true,
        ↓reduceIte] at h
      injection h with h; subst h
      exact ⟨rfl, q1.1⟩
  · simp only [q1, decide_false, Bool.false_and, Bool.false_eq_true, ↓reduceIte] at h
    by_cases q3 : pt s x < pt s y
    · simp only [q3, decide_true, ↓reduceIte] at h
      injection h with h; subst h
      exact ⟨rfl, by grind⟩
    · simp only [q3, decide_false, Bool.false_eq_true, ↓reduceIte] at h
      cases h

/-- On a clean bound the normalisations of `newSpan` are the identity. -/
theorem normMax_clean {v : Version} (h : Clean v) : normMax v = v := by
  unfold normMax
  rw [setTail_clean h.1]
  obtain ⟨_, hb⟩ := h
  rw [← hb]

theorem normMin_clean {v : Version} (h : Clean v) : normMin v = v := by
  unfold normMin
  simp only [major_ne_wildcard h.1, Bool.false_eq_true, ↓reduceIte]
  rw [setTail_clean h.1]
  obtain ⟨_, hb⟩ := h
  rw [← hb]

/-- Without a wildcard number the two normalisations agree (they only drop the build tag). -/
theorem normMin_eq_normMax {v : Version} (h : v.isWildcard = false) : normMin v = normMax v := by
  unfold normMin normMax
  simp only [major_ne_wildcard h, Bool.false_eq_true, ↓reduceIte]
  rw [setTail_clean h, setTail_clean h]

/-! ### `excludeToSpans` (`!=`) -/

theorem isWildcard_of_last {v : Version} (h1 : (v.num.dropLast).any (fun x => x == wildcard || x == infinity) = false)
    (h2 : (v.num.getLastD 0 == wildcard) = false) : v.isWildcard = false := by
  unfold Version.isWildcard
  rw [List.any_eq_false]
  intro x hx
  rw [List.any_eq_false] at h1
  rcases List.eq_nil_or_concat v.num with hn | ⟨l, y, hl⟩
  · rw [hn] at hx; cases hx
  · rw [hl] at hx h1 h2
    simp only [List.concat_eq_append, List.dropLast_concat, List.mem_append, List.mem_singleton] at hx h1
    rcases hx with hx | rfl
    · have := h1 x hx
      simp only [Bool.or_eq_true, beq_iff_eq, not_or] at this
      simpa using this.1
    · have e : (l.concat x).getLastD (0 : Int) = x := by simp [List.getLastD_eq_getLast?]
      rw [e] at h2
      simpa using h2

theorem excludeToSpans_ok (hs : Generic s = true) (v : Version) (hv : BVw s v) (s1 s2 : Span)
    (h : excludeToSpans v = .ok (s1, s2)) : AllOK s [s1, s2] ∧ MinSorted s [s1, s2] := by
  unfold excludeToSpans at h
  simp only [bind, Outcome.bind] at h
  split at h
  · cases h
  · split at h
    · cases h
    · rename_i hdl
      split at h
      · cases h
      · split at h
        · rename_i lohi hlh
          obtain ⟨lo, hi⟩ := lohi
          -- the two inner bounds: of the system, and `normMax lo ≤ normMin hi`
          have hb : BVw s lo ∧ BVw s hi ∧ pt s (normMax lo) ≤ pt s (normMin hi) := by
            split at hlh
            · rename_i hlast
              split at hlh
              · rename_i opp hopp
                have hinv := C11.opVersionToSpan_spec s hs tokEmpty v hv opp hopp
                have hok := opVersionToSpan_ok hs tokEmpty v hv opp hopp
                split at hlh
                · rename_i a b ha hb
                  injection hlh with hlh
                  injection hlh with h1 h2
                  subst h1 h2
                  have hne : opp.rank ≠ .empty := by
                    intro he
                    unfold SpanOK at hok
                    rw [he] at hok
                    rw [hok.1] at ha
                    cases ha
                  obtain ⟨a', b', e1, e2, hca, hcb, hle, -⟩ := hok.bounds hne
                  rw [ha] at e1; cases e1
                  rw [hb] at e2; cases e2
                  have := C11.spanInv_bounds hinv a b ha hb
                  refine ⟨this.1.toBVw, this.2.toBVw, ?_⟩
                  rw [normMax_clean hca.2, normMin_clean hcb.2]
                  exact hle
                · cases hlh
              · cases hlh
              · cases hlh
            · rename_i hlast
              injection hlh with hlh
              injection hlh with h1 h2
              subst h1 h2
              refine ⟨hv, hv, ?_⟩
              have hw : v.isWildcard = false :=
                isWildcard_of_last (by simpa using hdl) (by simpa using hlast)
              rw [normMin_eq_normMax hw]
              exact Std.le_refl _
          simp only at h
          split at h
          · rename_i sp1 h1
            split at h
            · rename_i sp2 h2
              injection h with h
              injection h with e1 e2
              subst e1 e2
              have hz : BVw s { sys := v.sys, num := [0, 0, 0] } := by
                rw [hv.sys]; exact C11.const_bvw s 0 C11.zero_ok
              have hi' : BVw s { sys := v.sys, num := [infinity, infinity, infinity] } := by
                rw [hv.sys]; exact C11.const_bvw s infinity C11.inf_ok
              have ok1 := okOK_newSpan hs _ _ _ _ hz hb.1 _ h1
              have ok2 := okOK_newSpan hs _ _ _ _ hb.2.1 hi' _ h2
              refine ⟨?_, ?_⟩
              · intro y hy
                simp only [List.mem_cons, List.not_mem_nil, or_false] at hy
                rcases hy with rfl | rfl <;> assumption
              · unfold MinSorted
                rw [List.pairwise_cons]
                refine ⟨?_, List.pairwise_singleton _ _⟩
                intro y hy a c hne1 hne2 ea ec
                rw [List.mem_singleton] at hy
                subst hy
                obtain ⟨m1, l1⟩ := newSpan_min hs (bvw_VG hz) (bvw_VG hb.1) _ _ h1 hne1
                obtain ⟨m2, -⟩ := newSpan_min hs (bvw_VG hb.2.1) (bvw_VG hi') _ _ h2 hne2
                rw [m1] at ea; cases ea
                rw [m2] at ec; cases ec
                exact Std.le_trans l1 hb.2.2
            · cases h
            · cases h
          · cases h
          · cases h
        · cases h
        · cases h

/-! ### `Intersect` and `canon` on well-formed lists -/

theorem allB_true (sp : Span) : AllB (fun _ => True) sp := ⟨fun _ _ => trivial, fun _ _ => trivial⟩

/-- `canon` on well-formed spans: never fails, keeps well-formedness and non-emptiness, returns a
list sorted by `min`. -/
theorem canonSpans_ok (hs : s ≠ .maven) (l : List Span) (hl : AllOK s l) :
    ∃ r, canonSpans l = .ok r ∧ AllOK s r ∧ MinSorted s r ∧ (l ≠ [] → r ≠ []) := by
  obtain ⟨r, e, h1, h2, h3, -⟩ := canonSpans_spec (fun _ => True) hs l (fun x hx => ⟨hl x hx, allB_true x⟩)
  exact ⟨r, e, fun x hx => (h1 x hx).1, h3, h2⟩

/-- `Intersect` on well-formed span lists (second one sorted by `min`): never fails, the result is
well-formed, non-empty and sorted. -/
theorem intersect_ok (hs : s ≠ .maven) (A B : VSet) (hA : AllOK s A.span) (hB : AllOK s B.span)
    (hsorted : MinSorted s B.span) :
    ∃ R, A.intersect B = .ok R ∧ AllOK s R.span ∧ MinSorted s R.span ∧ R.span ≠ [] := by
  obtain ⟨out, hne, hout, -, -, e⟩ := intersect_eq (fun _ => True) A B hA hB (fun x _ => allB_true x)
    (fun x _ => allB_true x) hsorted
  obtain ⟨r, e', h1, h2, h3⟩ := canonSpans_ok hs out (fun x hx => (hout x hx).1)
  exact ⟨{ A with span := r }, by rw [e, e']; rfl, h1, h2, h3 hne⟩

/-! ### `value` -/

/-- What a successful `value()` call guarantees, as far as C09 is concerned. -/
def VRok (s : System) (o : Outcome (ValueRes × CP)) : Prop :=
  ∀ vr p', o = .ok (vr, p') → AllOK s vr.spans ∧ MinSorted s vr.spans ∧ p'.sys = s

theorem vrok_none (p' : CP) (hs : p'.sys = s) : VRok s (.ok ({}, p')) := by
  intro vr q h
  injection h with h
  injection h with h1 h2
  subst h1 h2
  exact ⟨allOK_nil, minSorted_nil, hs⟩

theorem vrok_fail (o : Outcome (ValueRes × CP)) (h : o = .err ∨ o = .panic) : VRok s o := by
  intro _ _ h'
  rcases h with h | h <;> rw [h] at h' <;> cases h'

theorem cpUnop_ok (hs : Generic s = true) (p : CP) (hp : p.sys = s) (typ : Nat) (tok r1 : Bytes) :
    VRok s (cpUnop p typ tok r1) := by
  unfold cpUnop
  simp only [bind, Outcome.bind, hp]
  split
  · rename_i t ht
    obtain ⟨typ2, tok2, r2⟩ := t
    simp only
    split
    · exact vrok_none _ (by simp [CP.setErr, hp])
    · split
      · exact vrok_fail _ (Or.inr rfl)
      · exact vrok_none _ (by simp [CP.setErr, hp])
      · rename_i version hv
        have hbv := C11.parse_bvw s hs tok2 version hv
        split
        · exact vrok_fail _ (Or.inr rfl)
        · exact vrok_none _ (by simp [CP.setErr])
        · rename_i spans hspans
          intro vr q h
          injection h with h
          injection h with h1 h2
          subst h1 h2
          refine ⟨?_, ?_, rfl⟩
          all_goals
            simp only
            split at hspans
            · split at hspans
              · rename_i pr hpr
                obtain ⟨l, r⟩ := pr
                injection hspans with hspans
                subst hspans
                first
                  | exact (excludeToSpans_ok hs version hbv l r hpr).1
                  | exact (excludeToSpans_ok hs version hbv l r hpr).2
              · cases hspans
              · cases hspans
            · split at hspans
              · rename_i sp hsp
                injection hspans with hspans
                subst hspans
                first
                  | exact allOK_one (opVersionToSpan_ok hs typ version hbv sp hsp)
                  | exact minSorted_one sp
              · cases hspans
              · cases hspans
  · exact vrok_fail _ (Or.inl rfl)
  · exact vrok_fail _ (Or.inr rfl)

theorem cpPlain_ok (hs : Generic s = true) (p : CP) (hp : p.sys = s) (typ : Nat) (tok r1 : Bytes) :
    VRok s (cpPlain p typ tok r1) := by
  unfold cpPlain
  simp only [hp]
  split
  · exact vrok_fail _ (Or.inr rfl)
  · intro vr q h
    injection h with h
    injection h with h1 h2
    subst h1 h2
    exact ⟨allOK_nil, minSorted_nil, rfl⟩
  · rename_i version hv
    have hbv := C11.parse_bvw s hs tok version hv
    split
    · exact vrok_fail _ (Or.inr rfl)
    · exact vrok_none _ (by simp [CP.setErr])
    · rename_i sp hsp
      intro vr q h
      injection h with h
      injection h with h1 h2
      subst h1 h2
      exact ⟨allOK_one (opVersionToSpan_ok hs _ version hbv sp hsp), minSorted_one sp, rfl⟩

theorem cpHyphen_ok (hs : Generic s = true) (p : CP) (hp : p.sys = s) (tok r2 : Bytes) :
    VRok s (cpHyphen p tok r2) := by
  unfold cpHyphen
  simp only [bind, Outcome.bind, hp]
  split
  · rename_i t ht
    obtain ⟨typ3, tok3, r3⟩ := t
    simp only
    split
    · exact vrok_none _ (by simp [CP.setErr, hp])
    · split
      · exact vrok_fail _ (Or.inr rfl)
      · split
        · rename_i lo hi hlo hhi
          have hbl := C11.parse_bvw s hs tok lo hlo
          have hbh := C11.parse_bvw s hs tok3 hi hhi
          split
          · split
            · exact vrok_none _ (by simp [CP.setErr])
            · split
              · exact vrok_fail _ (Or.inr rfl)
              · exact vrok_none _ (by simp [CP.setErr])
              · rename_i sp hsp
                intro vr q h
                injection h with h
                injection h with h1 h2
                subst h1 h2
                exact ⟨allOK_one (okOK_newSpan hs _ _ _ _ hbl (C11.fill_bvw hbh _ C11.inf_ok) sp hsp),
                  minSorted_one sp, rfl⟩
          · exact vrok_fail _ (Or.inl rfl)
          · exact vrok_fail _ (Or.inr rfl)
        · intro vr q h
          injection h with h
          injection h with h1 h2
          subst h1 h2
          exact ⟨allOK_nil, minSorted_nil, rfl⟩
  · exact vrok_fail _ (Or.inl rfl)
  · exact vrok_fail _ (Or.inr rfl)

theorem cpValue_ok (hs : Generic s = true) (p : CP) (hp : p.sys = s) : VRok s (cpValue p) := by
  rw [C11.cpValue_eq]
  unfold cpValue'
  simp only [bind, Outcome.bind, hp]
  split
  · rename_i t ht
    obtain ⟨typ, tok, r1⟩ := t
    simp only
    split
    · exact vrok_none p hp
    · split
      · exact vrok_none _ (by simp [CP.setErr, hp])
      · split
        · exact cpUnop_ok hs p hp typ tok r1
        · split
          · split
            · rename_i t2 ht2
              obtain ⟨typ2, tok2', r2⟩ := t2
              simp only
              split
              · exact vrok_none _ (by simp [CP.setErr, hp])
              · split
                · exact cpPlain_ok hs p hp typ tok r1
                · exact cpHyphen_ok hs p hp tok r2
            · exact vrok_fail _ (Or.inl rfl)
            · exact vrok_fail _ (Or.inr rfl)
          · exact vrok_none p hp
  · exact vrok_fail _ (Or.inl rfl)
  · exact vrok_fail _ (Or.inr rfl)

/-! ### `andList` -/

def ALok (s : System) (o : C11.ALRes) : Prop :=
  ∀ set ok p', o = .ok (set, ok, p') → AllOK s set ∧ p'.sys = s

theorem alok_ok (p' : CP) (set : List Span) (ok : Bool) (h1 : AllOK s set) (h2 : p'.sys = s) :
    ALok s (.ok (set, ok, p')) := by
  intro a b c h
  injection h with h
  injection h with e1 h
  injection h with e2 e3
  subst e1 e2 e3
  exact ⟨h1, h2⟩

theorem alok_fail (o : C11.ALRes) (h : o = .err ∨ o = .panic) : ALok s o := by
  intro _ _ _ h'
  rcases h with h | h <;> rw [h] at h' <;> cases h'

theorem alNext_ok (k : CP → List Span → Bool → C11.ALRes)
    (hk : ∀ q set l, q.sys = s → AllOK s set → ALok s (k q set l))
    (p : CP) (set' : List Span) (hp : p.sys = s) (hset : AllOK s set') : ALok s (alNext k p set') := by
  unfold alNext
  simp only [bind, Outcome.bind]
  split
  · rename_i t ht
    obtain ⟨typ, tok, r⟩ := t
    simp only
    split
    · exact hk p set' false hp hset
    · split
      · exact hk _ set' false (by simp [CP.setErr, hp]) hset
      · split
        · exact hk _ set' true hp hset
        · split
          · exact hk p set' false hp hset
          · apply hk _ set' false _ hset
            split <;> split <;> simp [CP.setErr, hp]
  · exact alok_fail _ (Or.inl rfl)
  · exact alok_fail _ (Or.inr rfl)

theorem andList_go_ok (hs : Generic s = true) (fuel : Nat) :
    ∀ (p : CP) (set : List Span) (first lwc : Bool), p.sys = s → AllOK s set →
      ALok s (cpAndList.go p set first lwc fuel) := by
  induction fuel with
  | zero =>
    intro p set first lwc hp hset
    simp only [cpAndList.go]
    exact alok_ok p set _ hset hp
  | succ k ih =>
    intro p set first lwc hp hset
    rw [C11.andList_go_succ]
    cases hv : cpValue p with
    | err => exact alok_fail _ (Or.inl rfl)
    | panic => exact alok_fail _ (Or.inr rfl)
    | ok res =>
      obtain ⟨vr, p1⟩ := res
      obtain ⟨v1, v2, v3⟩ := cpValue_ok hs p hp vr p1 hv
      have hk : ∀ q set l, q.sys = s → AllOK s set → ALok s (cpAndList.go q set false l k) :=
        fun q set l h1 h2 => ih q set false l h1 h2
      simp only [Outcome.bind]
      split
      · apply alok_ok _ set _ hset
        split <;> simp [CP.setErr, v3]
      · split
        · split
          · exact alok_ok p1 vr.spans true v1 v3
          · exact alNext_ok _ hk p1 vr.spans v3 v1
        · split
          · exact alok_ok _ set true hset (by simp [CP.setErr, v3])
          · obtain ⟨R, eR, r1, -, -⟩ := intersect_ok (ne3 hs).1 { sys := .default, span := set }
              { sys := .default, span := vr.spans } hset v1 v2
            rw [eR]
            exact alNext_ok _ hk p1 R.span v3 r1

theorem cpAndList_ok (hs : Generic s = true) (hn : s ≠ .nuget) (p : CP) (hp : p.sys = s) :
    ALok s (cpAndList p) := by
  unfold cpAndList
  have hm : (p.sys == System.maven || p.sys == System.nuget) = false := by
    rw [hp]
    have := (ne3 hs).1
    cases s <;> simp_all
  simp only [hm, Bool.false_eq_true, ↓reduceIte]
  exact andList_go_ok hs _ p [] true false hp allOK_nil

/-! ### `orList` -/

def OLok (s : System) (o : Outcome (List Span × CP)) : Prop :=
  ∀ spans p', o = .ok (spans, p') → AllOK s spans ∧ MinSorted s spans

theorem olok_nil (p' : CP) : OLok s (.ok ([], p')) := by
  intro a b h
  injection h with h
  injection h with e1 e2
  subst e1 e2
  exact ⟨allOK_nil, minSorted_nil⟩

theorem olok_fail (o : Outcome (List Span × CP)) (h : o = .err ∨ o = .panic) : OLok s o := by
  intro _ _ h'
  rcases h with h | h <;> rw [h] at h' <;> cases h'

theorem orList_fin_ok (hs : Generic s = true) (p : CP) (spans : List Span) (hsp : AllOK s spans) :
    OLok s (cpOrList.fin p spans) := by
  unfold cpOrList.fin
  obtain ⟨r, e, h1, h2, -⟩ := canonSpans_ok (ne3 hs).1 spans hsp
  rw [e]
  intro a b h
  injection h with h
  injection h with e1 e2
  subst e1 e2
  exact ⟨h1, h2⟩

theorem orList_go_ok (hs : Generic s = true) (hn : s ≠ .nuget) (fuel : Nat) :
    ∀ (p : CP) (spans : List Span) (lwo : Bool), p.sys = s → AllOK s spans →
      OLok s (cpOrList.go p spans lwo fuel) := by
  induction fuel with
  | zero =>
    intro p spans lwo hp hsp
    simp only [cpOrList.go]
    exact orList_fin_ok hs p spans hsp
  | succ k ih =>
    intro p spans lwo hp hsp
    rw [C11.orList_go_succ]
    cases ha : cpAndList p with
    | err => exact olok_fail _ (Or.inl rfl)
    | panic => exact olok_fail _ (Or.inr rfl)
    | ok res =>
      obtain ⟨set, ok, p1⟩ := res
      obtain ⟨a1, a2⟩ := cpAndList_ok hs hn p hp set ok p1 ha
      simp only [Outcome.bind]
      split
      · split
        · exact olok_nil _
        · exact orList_fin_ok hs p1 spans hsp
      · have hsp' : AllOK s (spans ++ set) := allOK_append hsp a1
        split
        · exact olok_nil _
        · cases ht : token p.sys p1.rest with
          | err => exact olok_fail _ (Or.inl rfl)
          | panic => exact olok_fail _ (Or.inr rfl)
          | ok t =>
            obtain ⟨typ, tok, r⟩ := t
            simp only
            generalize (if (p.sys == System.maven || p.sys == System.nuget) = true then tokComma else tokOr) = orTok
            split
            · exact ih { p1 with rest := r } (spans ++ set) true a2 hsp'
            · exact orList_fin_ok hs p1 _ hsp'

theorem cpOrList_ok (hs : Generic s = true) (hn : s ≠ .nuget) (p : CP) (hp : p.sys = s) : OLok s (cpOrList p) := by
  unfold cpOrList
  exact orList_go_ok hs hn _ p [] false hp allOK_nil

/-! ### `ParseConstraint` -/

/-- **Parser output is in the domain of the laws.** For Default, NPM, Cargo, Go and Composer, the
set of every constraint `ParseConstraint` accepts is well-formed (`SetOK`: at least one span, every
span as `newSpan` builds it) and sorted by `min`. -/
theorem parseConstraint_setOK (hs : Generic s = true) (hn : s ≠ .nuget) (b : Bytes) (c : Constraint)
    (h : parseConstraint s b = .ok c) : SetOK s c.set ∧ MinSorted s c.set.span ∧ c.set.sys = s := by
  obtain ⟨-, hne, hsys⟩ := C11.parseConstraint_spec s hs b c h
  suffices hh : AllOK s c.set.span ∧ MinSorted s c.set.span from ⟨⟨hne, hh.1⟩, hh.2, hsys⟩
  unfold parseConstraint at h
  simp only [bind, Outcome.bind] at h
  split at h
  · cases h
  · generalize (if (Bytes.trimSpace b).isEmpty then ">=0.0.0".toUTF8.toList else Bytes.trimSpace b) = lexStr at h
    split at h
    · -- Go
      rename_i hgo
      have hsgo : s = .go := by simpa using hgo
      subst hsgo
      split at h
      · cases h
      · cases h
      · rename_i lo hlo
        have hbl := C11.parse_bvw .go hs lexStr lo hlo
        split at h
        · rename_i hi1 hhi1
          split at h
          · rename_i hi2 hhi2
            split at h
            · rename_i sp hsp
              injection h with h
              subst h
              have h1 : BVw .go hi1 := by
                split at hhi1
                · exact C11.incN_bvw hbl 0 hhi1
                · injection hhi1 with e; subst e; exact hbl
              have h2 := C11.incN_bvw h1 0 hhi2
              have h3 : BVw .go ((hi2.setMinor 0).setPatch 0) :=
                C11.setNum_bvw (C11.setNum_bvw h2 1 _ (Or.inl (by omega)) C11.zero_ok) 2 _ (Or.inl (by omega)) C11.zero_ok
              exact ⟨allOK_one (okOK_newSpan hs _ _ _ _ hbl h3 sp hsp), minSorted_one sp⟩
            · cases h
            · cases h
          · cases h
          · cases h
        · cases h
        · cases h
    · -- the recursive-descent parser
      split at h
      · rename_i p0 hp0
        have hp0s : p0.sys = s := by
          split at hp0
          · split at hp0
            · injection hp0 with hp0
              subst hp0
              split <;> simp [CP.setErr]
            · cases hp0
            · cases hp0
          · injection hp0 with hp0; subst hp0; rfl
        split at h
        · rename_i res hres
          obtain ⟨spans, p1⟩ := res
          obtain ⟨o1, o2⟩ := cpOrList_ok hs hn p0 hp0s spans p1 hres
          simp only at h
          split at h
          · rename_i tk htk
            obtain ⟨typ, tok, r⟩ := tk
            by_cases ht : (typ != tokEOF) = true
            · simp only [ht, ↓reduceIte, CP.setErr] at h
              cases h
            · simp only [ht, Bool.false_eq_true, ↓reduceIte] at h
              split at h
              · cases h
              injection h with h
              subst h
              simp only
              split
              · exact ⟨allOK_nil, minSorted_nil⟩
              · exact ⟨o1, o2⟩
          · cases h
          · cases h
        · cases h
        · cases h
      · cases h
      · cases h

end DepsDev.Proofs.C09b
