import DepsDev.Proofs.C02Gem
import DepsDev.Proofs.C01Pep

/-!
# C02 — PyPI, part 1: release numbers and local versions

* `release_stage`: the library's zero-padded comparison of the (padded) release numbers
  is packaging's tuple comparison of the releases without trailing zeros;
* `local_agree`: the library's comparison of the dot-joined local strings is packaging's
  comparison of the local keys (`NegativeInfinity` when absent, numbers above words),
  for local versions whose words carry no upper-case letters and whose numbers are below 2^64.
-/
namespace DepsDev.Proofs.C02

open Std DepsDev DepsDev.Semver DepsDev.Ref DepsDev.Proofs

/-! ## release numbers -/

theorem dtzN_split (l : List Nat) : ∃ k, l = Pep440.dropTrailingZeros l ++ List.replicate k 0 := by
  unfold Pep440.dropTrailingZeros
  have key : ∀ (r : List Nat), ∃ k, r = List.replicate k 0 ++ r.dropWhile (· == 0) := by
    intro r
    induction r with
    | nil => exact ⟨0, rfl⟩
    | cons x xs ih =>
      by_cases hx : x = 0
      · obtain ⟨k, hk⟩ := ih
        refine ⟨k + 1, ?_⟩
        subst hx
        simp only [List.dropWhile_cons, beq_self_eq_true, ↓reduceIte, List.replicate_succ, List.cons_append]
        rw [← hk]
      · exact ⟨0, by simp [List.dropWhile_cons, hx]⟩
  obtain ⟨k, hk⟩ := key l.reverse
  refine ⟨k, ?_⟩
  have := congrArg List.reverse hk
  simp only [List.reverse_reverse, List.reverse_append, List.reverse_replicate] at this
  exact this

def TrimmedN (l : List Nat) : Prop := ∀ x, l.getLast? = some x → x ≠ 0

theorem dtzN_trimmed (l : List Nat) : TrimmedN (Pep440.dropTrailingZeros l) := by
  intro x hx
  unfold Pep440.dropTrailingZeros at hx
  rw [List.getLast?_reverse] at hx
  have := List.head?_dropWhile_not (· == 0) l.reverse
  rw [hx] at this
  simpa using this

theorem TrimmedN.tail {x : Nat} {xs : List Nat} (h : TrimmedN (x :: xs)) : TrimmedN xs := by
  intro y hy
  cases xs with
  | nil => simp at hy
  | cons z zs => exact h y (by rw [List.getLast?_cons_cons]; exact hy)

theorem nil_lt_trimmedN (N : List Nat) (ht : TrimmedN N) (hne : N ≠ []) :
    padLex compare 0 [] N = .lt := by
  induction N with
  | nil => exact absurd rfl hne
  | cons n r ih =>
    simp only [padLex]
    by_cases hv : n = 0
    · subst hv
      cases r with
      | nil => exact absurd rfl (ht 0 rfl)
      | cons m r' =>
        have : compare (0 : Nat) 0 = .eq := by decide
        simp only [this, Ordering.then]
        exact ih ht.tail (by simp)
    · have : compare 0 n = .lt := Nat.compare_eq_lt.mpr (by omega)
      simp [this, Ordering.then]

theorem trimmedN_gt_nil (N : List Nat) (ht : TrimmedN N) (hne : N ≠ []) :
    padLex compare 0 N [] = .gt := by
  induction N with
  | nil => exact absurd rfl hne
  | cons n r ih =>
    simp only [padLex]
    by_cases hv : n = 0
    · subst hv
      cases r with
      | nil => exact absurd rfl (ht 0 rfl)
      | cons m r' =>
        have : compare (0 : Nat) 0 = .eq := by decide
        simp only [this, Ordering.then]
        exact ih ht.tail (by simp)
    · have : compare n 0 = .gt := Nat.compare_eq_gt.mpr (by omega)
      simp [this, Ordering.then]

/-- On lists without trailing zeros, zero-padded comparison is tuple comparison. -/
theorem padLex_trimmed (X : List Nat) : ∀ (Y : List Nat), TrimmedN X → TrimmedN Y →
    padLex compare 0 X Y = List.compareLex compare X Y := by
  induction X with
  | nil =>
    intro Y _ hY
    cases Y with
    | nil => simp [padLex, List.compareLex_nil_nil]
    | cons y ys => rw [nil_lt_trimmedN _ hY (by simp)]; simp [List.compareLex_nil_cons]
  | cons x xs ih =>
    intro Y hX hY
    cases Y with
    | nil => rw [trimmedN_gt_nil _ hX (by simp)]; simp [List.compareLex_cons_nil]
    | cons y ys => simp only [padLex, List.compareLex_cons_cons, ih ys hX.tail hY.tail]

theorem padLex_ints (X Y : List Nat) :
    padLex compare (0 : Int) (ints X) (ints Y) = padLex compare 0 X Y := by
  have := padLex_map (compare : Int → Int → Ordering) (compare : Nat → Nat → Ordering) Int.ofNat 0 X Y
    (fun i _ j _ => compare_natCast i j)
  exact this

theorem release_stage (r r' : List Nat) :
    padLex compare (0 : Int) (pad3 (ints r)) (pad3 (ints r')) =
      List.compareLex Pep440.natCmp (Pep440.dropTrailingZeros r) (Pep440.dropTrailingZeros r') := by
  obtain ⟨k, hk⟩ := pad3_eq (ints r)
  obtain ⟨k', hk'⟩ := pad3_eq (ints r')
  have h00 : compare (0 : Int) 0 = .eq := by decide
  have h00' : compare (0 : Nat) 0 = .eq := by decide
  rw [hk, hk', padLex_pad_left compare 0 h00, padLex_pad_right compare 0 h00, padLex_ints]
  obtain ⟨j, hj⟩ := dtzN_split r
  obtain ⟨j', hj'⟩ := dtzN_split r'
  have e : padLex compare 0 r r' = padLex compare 0 (Pep440.dropTrailingZeros r ++ List.replicate j 0)
      (Pep440.dropTrailingZeros r' ++ List.replicate j' 0) := by rw [← hj, ← hj']
  rw [e, padLex_pad_left compare 0 h00', padLex_pad_right compare 0 h00',
    padLex_trimmed _ _ (dtzN_trimmed r) (dtzN_trimmed r')]
  rfl

/-! ## local versions -/

open DepsDev.Ref.Pep440 (LocalSeg)

theorem go_nodot (x : Bytes) (h : ∀ c ∈ x, c ≠ 46) : ∀ cur, localElems.go cur x = [cur ++ x] := by
  induction x with
  | nil => intro cur; simp [localElems.go]
  | cons c r ih =>
    intro cur
    have hc : (c == 46) = false := by simpa using h c (by simp)
    simp only [localElems.go, hc, Bool.false_eq_true, ↓reduceIte]
    rw [ih (fun d hd => h d (by simp [hd]))]
    simp

theorem go_dot (x rest : Bytes) (h : ∀ c ∈ x, c ≠ 46) :
    ∀ cur, localElems.go cur (x ++ 46 :: rest) = (cur ++ x) :: localElems.go [] rest := by
  induction x with
  | nil => intro cur; simp [localElems.go]
  | cons c r ih =>
    intro cur
    have hc : (c == 46) = false := by simpa using h c (by simp)
    simp only [List.cons_append, localElems.go, hc, Bool.false_eq_true, ↓reduceIte]
    rw [ih (fun d hd => h d (by simp [hd]))]
    simp

theorem localElems_join : ∀ (xs : List Bytes), xs ≠ [] → (∀ x ∈ xs, ∀ c ∈ x, c ≠ 46) →
    localElems (joinSep 46 xs) = xs := by
  intro xs
  induction xs with
  | nil => intro h; exact absurd rfl h
  | cons a rest ih =>
    intro _ h
    cases rest with
    | nil =>
      simp only [joinSep, localElems]
      rw [go_nodot a (h a (by simp))]; simp
    | cons b rest' =>
      simp only [joinSep, localElems]
      rw [go_dot a _ (h a (by simp))]
      have := ih (by simp) (fun x hx => h x (by simp [hx]))
      simp only [localElems] at this
      rw [this]; simp

/-- The hypothesis on one local segment: numbers below 2^64; words alphanumeric with a
letter and without upper-case letters. -/
def LocOk : LocalSeg → Prop
  | .num n => n < 2 ^ 64
  | .str s => LocalSeg.valid (.str s) = true ∧ s.all (fun c => !isUpperB c) = true

theorem alnum_facts (c : UInt8) : Pep440.isAlnum c = true → c ≠ 46 :=
  byte_forall (fun c => Pep440.isAlnum c = true → c ≠ 46) (by decide +kernel) c

theorem letter_not_digit (c : UInt8) : Ref.isLetter c = true → isDigitB c = false :=
  byte_forall (fun c => Ref.isLetter c = true → isDigitB c = false) (by decide +kernel) c

theorem digit_not_dot (c : UInt8) : isDigitB c = true → c ≠ 46 :=
  byte_forall (fun c => isDigitB c = true → c ≠ 46) (by decide +kernel) c

theorem render_nodot (x : LocalSeg) (h : LocOk x) : ∀ c ∈ x.render, c ≠ 46 := by
  cases x with
  | num n =>
    intro c hc
    exact digit_not_dot c (List.all_eq_true.mp (dec_all_digits n) c hc)
  | str s =>
    intro c hc
    have hv := h.1
    simp only [LocalSeg.valid, Bool.and_eq_true] at hv
    exact alnum_facts c (List.all_eq_true.mp hv.1.2 c hc)

theorem render_ne_nil (x : LocalSeg) (h : LocOk x) : x.render ≠ [] := by
  cases x with
  | num n => exact dec_ne_nil n
  | str s =>
    have hv := h.1
    simp only [LocalSeg.valid, Bool.and_eq_true, Bool.not_eq_true', List.isEmpty_eq_false_iff] at hv
    exact hv.1.1

theorem pepLocal_ne_nil (x : LocalSeg) (xs : List LocalSeg) (h : LocOk x) : pepLocal (x :: xs) ≠ [] := by
  unfold pepLocal
  cases xs with
  | nil => simpa [joinSep] using render_ne_nil x h
  | cons y ys =>
    simp only [List.map_cons, joinSep]
    intro e
    have := congrArg List.length e
    simp at this

theorem lkey_num (n : Nat) (h : n < 2 ^ 64) : lkey (dec n) = { d := 1, n := n, s := [] } := by
  have h1 : allDigits (dec n) = true := by
    unfold allDigits
    have : (dec n).isEmpty = false := by
      cases hd : dec n with
      | nil => exact absurd hd (dec_ne_nil n)
      | cons _ _ => rfl
    simp [this, dec_all_digits]
  have h2 : parseUint64Lossy (dec n) = n := by
    unfold parseUint64Lossy
    have : (dec n).isEmpty = false := by
      cases hd : dec n with
      | nil => exact absurd hd (dec_ne_nil n)
      | cons _ _ => rfl
    simp only [this, dec_all_digits, Bool.not_true, Bool.or_self, Bool.false_eq_true, ↓reduceIte, digitsVal_dec]
    have : ¬ n > 2 ^ 64 - 1 := by omega
    simp [this]
  simp [lkey, h1, h2]

theorem lkey_str (s : Bytes) (h : LocOk (.str s)) : lkey s = { d := 0, n := 0, s := s } := by
  have hv := h.1
  simp only [LocalSeg.valid, Bool.and_eq_true] at hv
  obtain ⟨c, hc, hl⟩ := List.any_eq_true.mp hv.2
  have : allDigits s = false := by
    unfold allDigits
    have : s.all isDigitB = false := by
      rw [List.all_eq_false]; exact ⟨c, hc, by simp [letter_not_digit c hl]⟩
    simp [this]
  simp [lkey, this]

theorem lkey_nil : lkey [] = { d := 0, n := 0, s := [] } := by
  simp [lkey, allDigits]

theorem lower_id (s : Bytes) (h : s.all (fun c => !isUpperB c) = true) : s.map Pep440.lower = s := by
  induction s with
  | nil => rfl
  | cons c r ih =>
    simp only [List.all_cons, Bool.and_eq_true, Bool.not_eq_true'] at h
    have hc : Pep440.lower c = c := by
      have := h.1
      unfold isUpperB at this
      simp [Pep440.lower, this]
    simp only [List.map_cons, hc, ih (by simpa using h.2)]

theorem localElemOrd_render (x y : LocalSeg) (hx : LocOk x) (hy : LocOk y) :
    localElemOrd x.render y.render =
      Pep440.pairCmp (Pep440.Inf.cmp Pep440.natCmp) Pep440.bytesCmp (Pep440.localKey x) (Pep440.localKey y) := by
  unfold localElemOrd LK.cmp compareLex compareOn Pep440.pairCmp
  have h01 : compare (0 : Nat) 1 = .lt := by decide
  have h10 : compare (1 : Nat) 0 = .gt := by decide
  cases x with
  | num n =>
    cases y with
    | num m =>
      simp only [LocalSeg.render, lkey_num n hx, lkey_num m hy, Pep440.localKey, Pep440.Inf.cmp, Pep440.natCmp,
        Pep440.bytesCmp, Std.ReflCmp.compare_self, Ordering.eq_then, List.compareLex_nil_nil]
    | str t =>
      simp only [LocalSeg.render, lkey_num n hx, lkey_str t hy, Pep440.localKey, Pep440.Inf.cmp, h10, Ordering.then]
  | str s =>
    cases y with
    | num m =>
      simp only [LocalSeg.render, lkey_num m hy, lkey_str s hx, Pep440.localKey, Pep440.Inf.cmp, h01, Ordering.then]
    | str t =>
      simp only [LocalSeg.render, lkey_str s hx, lkey_str t hy, Pep440.localKey, Pep440.Inf.cmp, Pep440.bytesCmp,
        Std.ReflCmp.compare_self, Ordering.eq_then, lower_id s hx.2, lower_id t hy.2]

theorem localElemOrd_nil_render (y : LocalSeg) (hy : LocOk y) : localElemOrd [] y.render = .lt := by
  unfold localElemOrd LK.cmp compareLex compareOn
  have h01 : compare (0 : Nat) 1 = .lt := by decide
  cases y with
  | num m => simp only [LocalSeg.render, lkey_num m hy, lkey_nil, h01, Ordering.then]
  | str t =>
    have hne := render_ne_nil (.str t) hy
    simp only [LocalSeg.render] at hne
    cases t with
    | nil => exact absurd rfl hne
    | cons c r =>
      simp only [LocalSeg.render, lkey_str (c :: r) hy, lkey_nil, Std.ReflCmp.compare_self, Ordering.eq_then,
        List.compareLex_nil_cons]

theorem localElems_pepLocal (x : LocalSeg) (xs : List LocalSeg) (h : ∀ y ∈ x :: xs, LocOk y) :
    localElems (pepLocal (x :: xs)) = (x :: xs).map LocalSeg.render := by
  unfold pepLocal
  apply localElems_join
  · simp
  · intro r hr
    obtain ⟨y, hy, e⟩ := List.mem_map.mp hr
    subst e
    exact render_nodot y (h y hy)

theorem localElems_nil : localElems [] = [[]] := by simp [localElems, localElems.go]

/-- The `_local` component of `_cmpkey`. -/
def locKey : List LocalSeg → Pep440.Inf (List (Pep440.Inf Nat × Bytes))
  | [] => .neg
  | x :: xs => .fin ((x :: xs).map Pep440.localKey)

theorem key_loc (v : Pep440.Ast) : (Pep440.key v).loc = locKey v.loc := by
  unfold Pep440.key locKey
  cases v.loc <;> rfl

theorem local_agree (l l' : List LocalSeg) (h : ∀ x ∈ l, LocOk x) (h' : ∀ x ∈ l', LocOk x) :
    localOrd (pepLocal l) (pepLocal l') =
      Pep440.Inf.cmp (List.compareLex (Pep440.pairCmp (Pep440.Inf.cmp Pep440.natCmp) Pep440.bytesCmp))
        (locKey l) (locKey l') := by
  unfold localOrd locKey
  cases l with
  | nil =>
    cases l' with
    | nil =>
      have : pepLocal [] = [] := by simp [pepLocal, joinSep]
      simp [this, localElems_nil, Pep440.Inf.cmp, List.compareLex_cons_cons, List.compareLex_nil_nil,
        Std.ReflCmp.compare_self]
    | cons y ys =>
      have : pepLocal [] = [] := by simp [pepLocal, joinSep]
      rw [this, localElems_nil, localElems_pepLocal y ys h']
      simp only [List.map_cons, List.compareLex_cons_cons, localElemOrd_nil_render y (h' y (by simp)),
        Ordering.then, Pep440.Inf.cmp]
  | cons x xs =>
    cases l' with
    | nil =>
      have : pepLocal [] = [] := by simp [pepLocal, joinSep]
      rw [this, localElems_nil, localElems_pepLocal x xs h]
      have hsw : localElemOrd x.render [] = .gt := by
        have := localElemOrd_nil_render x (h x (by simp))
        rw [Std.OrientedCmp.eq_swap (cmp := localElemOrd)] at this
        cases hc : localElemOrd x.render [] <;> simp_all
      simp only [List.map_cons, List.compareLex_cons_cons, hsw, Ordering.then, Pep440.Inf.cmp]
    | cons y ys =>
      rw [localElems_pepLocal x xs h, localElems_pepLocal y ys h']
      simp only [Pep440.Inf.cmp]
      rw [compareLex_map localElemOrd
          (fun i j => Pep440.pairCmp (Pep440.Inf.cmp Pep440.natCmp) Pep440.bytesCmp (Pep440.localKey i) (Pep440.localKey j))
          LocalSeg.render (x :: xs) (y :: ys) (fun i hi j hj => localElemOrd_render i j (h i hi) (h' j hj)),
        compareLex_map (Pep440.pairCmp (Pep440.Inf.cmp Pep440.natCmp) Pep440.bytesCmp)
          (fun i j => Pep440.pairCmp (Pep440.Inf.cmp Pep440.natCmp) Pep440.bytesCmp (Pep440.localKey i) (Pep440.localKey j))
          Pep440.localKey (x :: xs) (y :: ys) (fun _ _ _ _ => rfl)]

end DepsDev.Proofs.C02
