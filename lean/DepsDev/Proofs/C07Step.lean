import DepsDev.Model.Resolve.Maven

/-! C07 helper lemmas: what one successful `processDep` does (`DepStep`), and the
induction principle for the breadth-first loop (`loop_inv`). -/

namespace DepsDev.Resolve.Maven
open DepsDev.Gen

/-- The four ways `processDep` succeeds. -/
inductive DepStep (u : Universe) (mgt : List (PackageKey × Bytes)) (first : Bool) (cur : Todo)
    (d : Dep) (s : State) : State → Prop
  | excluded :
      isExcluded cur.exclusions d.name = some true →
      DepStep u mgt first cur d s s
  | noMatch :
      isExcluded cur.exclusions d.name = some false →
      findMatch u d.name ((reqsAfter s.requirements (depKey d) (depVer mgt first d)).get (depKey d)) = .noMatch →
      DepStep u mgt first cur d s
        { s with requirements := reqsAfter s.requirements (depKey d) (depVer mgt first d)
                 g := s.g.addError (curIdOf s cur) { name := d.name, version := depVer mgt first d } }
  | edge (mv : Bytes) (id : Nat) (g' : Graph) :
      isExcluded cur.exclusions d.name = some false →
      findMatch u d.name ((reqsAfter s.requirements (depKey d) (depVer mgt first d)).get (depKey d)) = .ok mv →
      (s.concreteVersions.lookup { pk := depKey d, vk := { name := d.name, version := mv } } = some id ∨
        (s.concreteVersions.lookup { pk := depKey d, vk := { name := d.name, version := mv } } = none ∧
         s.resolvedPackages.contains (depKey d) = false ∧
         s.nodes.lookup { name := d.name, version := mv } = some id)) →
      s.g.addEdge (curIdOf s cur) id (depVer mgt first d) d.typ = some g' →
      DepStep u mgt first cur d s
        { s with requirements := reqsAfter s.requirements (depKey d) (depVer mgt first d), g := g' }
  | newNode (mv : Bytes) (g2 : Graph) :
      isExcluded cur.exclusions d.name = some false →
      findMatch u d.name ((reqsAfter s.requirements (depKey d) (depVer mgt first d)).get (depKey d)) = .ok mv →
      s.concreteVersions.lookup { pk := depKey d, vk := { name := d.name, version := mv } } = none →
      s.resolvedPackages.contains (depKey d) = false →
      s.nodes.lookup { name := d.name, version := mv } = none →
      (s.g.addNode { name := d.name, version := mv }).1.addEdge (curIdOf s cur) s.g.nodes.length
          (depVer mgt first d) (d.typ.setAttr C07Consts.keySelector.toNat []) = some g2 →
      DepStep u mgt first cur d s
        { requirements := reqsAfter s.requirements (depKey d) (depVer mgt first d)
          g := g2
          todo := s.todo ++ [childTodo cur d { pk := depKey d, vk := { name := d.name, version := mv } }]
          resolvedPackages := depKey d :: s.resolvedPackages
          concreteVersions := ({ pk := depKey d, vk := { name := d.name, version := mv } }, s.g.nodes.length) :: s.concreteVersions
          nodes := ({ name := d.name, version := mv }, s.g.nodes.length) :: s.nodes
          done := s.done
          created := s.created ++ [(s.g.nodes.length,
            { src := curIdOf s cur, dst := s.g.nodes.length, req := depVer mgt first d,
              typ := d.typ.setAttr C07Consts.keySelector.toNat [] },
            childTodo cur d { pk := depKey d, vk := { name := d.name, version := mv } })] }

theorem processDep_ok {u : Universe} {mgt : List (PackageKey × Bytes)} {first : Bool} {cur : Todo}
    {d : Dep} {s s' : State} (h : processDep u mgt first cur d s = .ok s') :
    DepStep u mgt first cur d s s' := by
  unfold processDep at h
  split at h
  · cases h
  · cases h; exact .excluded ‹_›
  · rename_i hex
    simp only at h
    split at h
    · cases h; exact .noMatch hex ‹_›
    · cases h
    · cases h
    · rename_i mv hfm
      split at h
      · rename_i id hcv
        split at h
        · cases h
        · rename_i g' hadd
          cases h; exact .edge mv id g' hex hfm (.inl hcv) hadd
      · rename_i hcv
        split at h
        · cases h
        · rename_i hrp
          have hrp' : s.resolvedPackages.contains (depKey d) = false := by simpa using hrp
          split at h
          · rename_i id hn
            split at h
            · cases h
            · rename_i g' hadd
              cases h; exact .edge mv id g' hex hfm (.inr ⟨hcv, hrp', hn⟩) hadd
          · rename_i hn
            split at h
            · cases h
            · rename_i g2 hadd
              cases h; exact .newNode mv g2 hex hfm hcv hrp' hn hadd

/-- Induction over `processDeps`: `J ds s` where `ds` are the declarations handled so far. -/
theorem processDeps_inv {u : Universe} {mgt : List (PackageKey × Bytes)} {first : Bool} {cur : Todo}
    (J : List Dep → State → Prop) (imps : List Dep)
    (hstep : ∀ ds d s s', (∃ rest, imps = ds ++ d :: rest) → J ds s → DepStep u mgt first cur d s s' → J (ds ++ [d]) s') :
    ∀ rest ds s s', imps = ds ++ rest → J ds s → processDeps u mgt first cur rest s = .ok s' → J imps s' := by
  intro rest
  induction rest with
  | nil =>
    intro ds s s' himps hJ h
    simp only [processDeps] at h
    cases h
    simpa [himps] using hJ
  | cons d rest ih =>
    intro ds s s' himps hJ h
    simp only [processDeps] at h
    split at h
    · cases h
    · rename_i s1 h1
      have hJ1 := hstep ds d s s1 ⟨rest, himps⟩ hJ (processDep_ok h1)
      exact ih (ds ++ [d]) s1 s' (by simp [himps]) hJ1 h

/-- Induction principle for the breadth-first loop. `I first s` holds between iterations,
`J first cur curId ds s` while the declarations of `cur` are processed (`ds` handled so far). -/
theorem loop_inv {u : Universe} {mgt : List (PackageKey × Bytes)}
    (I : Bool → State → Prop) (J : Bool → Todo → Nat → List Dep → State → Prop)
    (hpop : ∀ first s cur rest, I first s → s.todo = cur :: rest →
      J first cur (curIdOf s cur) [] { s with todo := rest })
    (hdep : ∀ first cur curId imps ds d s s', cur.includesDependencies = false →
      imports u cur.key.vk (optsOf first) = some imps → (∃ rest, imps = ds ++ d :: rest) →
      J first cur curId ds s → DepStep u mgt first cur d s s' → J first cur curId (ds ++ [d]) s')
    (hfin : ∀ first cur curId ds s,
      ((cur.includesDependencies = true ∧ ds = []) ∨
       (cur.includesDependencies = false ∧ imports u cur.key.vk (optsOf first) = some ds)) →
      J first cur curId ds s → I false { s with done := s.done ++ [(curId, first, cur)] }) :
    ∀ fuel first s0 s, I first s0 → loop u mgt fuel first s0 = .ok (some s) →
      ∃ f, I f s ∧ s.todo = [] := by
  intro fuel
  induction fuel with
  | zero =>
    intro first s0 s hI h
    simp only [loop] at h
    split at h
    · rename_i he
      cases h
      exact ⟨first, hI, by simpa using he⟩
    · cases h
  | succ fuel ih =>
    intro first s0 s hI h
    simp only [loop] at h
    split at h
    · rename_i he
      cases h
      exact ⟨first, hI, he⟩
    · rename_i cur rest htodo
      have hJ0 := hpop first s0 cur rest hI htodo
      split at h
      · rename_i hinc
        have hcur : curIdOf { s0 with todo := rest } cur = curIdOf s0 cur := rfl
        rw [hcur] at h
        exact ih false _ s (hfin first cur _ [] _ (.inl ⟨hinc, rfl⟩) hJ0) h
      · rename_i hinc
        have hinc' : cur.includesDependencies = false := by simpa using hinc
        split at h
        · cases h
        · rename_i imps himps
          split at h
          · cases h
          · rename_i s1 h1
            have hcur : curIdOf { s0 with todo := rest } cur = curIdOf s0 cur := rfl
            rw [hcur] at h
            have hJ1 : J first cur (curIdOf s0 cur) imps s1 :=
              processDeps_inv (J first cur (curIdOf s0 cur)) imps
                (fun ds d s s' hpos hJ hs => hdep first cur _ imps ds d s s' hinc' himps hpos hJ hs)
                imps [] _ s1 (by simp) hJ0 h1
            exact ih false _ s (hfin first cur _ imps s1 (.inr ⟨hinc', himps⟩) hJ1) h

end DepsDev.Resolve.Maven
