import DepsDev.Proofs.C03L2Good

/-!
# C03 layer L3: the prerelease-tagged bounds of one npm comparator's span

For every operator and operand shape of layer L1: a lower bound with a prerelease tag is the
library's minimum version `0.0.0-0` or is flagged prerelease with exactly three numbers, and a
flagged lower bound has a tag; an upper bound (of a vector span) with a prerelease tag is flagged
prerelease with exactly three numbers, and a flagged upper bound has a tag or an `∞` component
(`clearPre` keeps the flag).
These are the facts the admission test `equalValues v.num bound.num && bound.isPrerelease` needs
when the effective bound of an AND list comes from another comparator than the one node looks at.
-/
namespace DepsDev.Proofs.C03

open DepsDev DepsDev.Semver DepsDev.Ref DepsDev.Proofs.C09

set_option linter.unusedSimpArgs false

def LoInv (x : Version) : Prop :=
  (x.pre ≠ [] → x.num = [0, 0, 0] ∨ (x.isPrerelease = true ∧ x.num.length = 3)) ∧ (x.isPrerelease = true → x.pre ≠ [])
def HiInv (x : Version) : Prop := x.pre ≠ [] → x.isPrerelease = true ∧ x.num.length = 3
/-- A flagged upper bound has a tag, or an `∞` component, or (`^0.0.c-pre`, whose upper bound is the
flagged release `0.0.c`) the lower bound is flagged and has the same numbers. -/
def FlagInv (a b : Version) : Prop :=
  b.isPrerelease = true → b.pre ≠ [] ∨ (9223372036854775807 : Int) ∈ b.num ∨ (a.isPrerelease = true ∧ a.num = b.num)

/-- The invariant on the bounds of a span. -/
def BInv (sp : Span) : Prop :=
  (∀ x, sp.min = some x → LoInv x) ∧ (∀ x, sp.max = some x → sp.rank = .vector → HiInv x) ∧
  (∀ a b, sp.min = some a → sp.max = some b → sp.rank = .vector → FlagInv a b)

def InvOut (o : Outcome Span) : Prop := ∀ sp, o = .ok sp → BInv sp

theorem invOut_empty : InvOut (.ok Span.emptySpan) := by
  intro sp h
  injection h with h
  subst h
  exact ⟨fun x h => (by cases h), fun x h => (by cases h), fun a b h => (by cases h)⟩

theorem invOut_err : InvOut .err := fun _ h => by cases h

theorem invOut_newSpan {a b : Version} (ao bo : Bool) (ta : LoInv (nmin a)) (tb : HiInv (nmax b))
    (tc : FlagInv (nmin a) (nmax b)) : InvOut (newSpan a ao b bo) := by
  intro sp h
  rw [newSpan_unfold] at h
  simp only [bind, Outcome.bind] at h
  split at h
  · split at h
    · injection h with h; subst h
      exact ⟨fun x hx => (by cases hx), fun y hy => (by cases hy), fun _ _ hx => (by cases hx)⟩
    · split at h
      · injection h with h; subst h
        exact ⟨fun x hx => (by injection hx with hx; rw [← hx]; exact ta), fun y _ hr => (by cases hr),
          fun _ _ _ _ hr => (by cases hr)⟩
      · split at h
        · split at h
          · injection h with h; subst h
            exact ⟨fun x hx => (by injection hx with hx; rw [← hx]; exact ta),
              fun y hy _ => (by injection hy with hy; rw [← hy]; exact tb),
              fun x y hx hy _ => (by injection hx with hx; injection hy with hy; rw [← hx, ← hy]; exact tc)⟩
          · cases h
        · cases h
        · cases h
  · cases h
  · cases h

/-- Close a `LoInv`/`HiInv` goal on an explicit normalised bound. -/
macro "inv_close" : tactic => `(tactic|
  (simp [LoInv, HiInv, FlagInv, nmin, nmax, Version.major, Version.getNum, Version.setTail, Version.atLeast3, range3,
     wild_val, inf_val, List.findIdx?_cons, minVersion, natCast_beq_wild, natCast_ne_wild, natCast_succ_beq_wild,
     natCast_succ_ne_wild, Gen.SemverTables.minPre, embedPre, *]))

macro "inv_npm_fin" : tactic => `(tactic| first
  | with_reducible exact invOut_empty
  | with_reducible exact invOut_err
  | ((with_reducible refine invOut_newSpan _ _ ?_ ?_ ?_) <;> inv_close))

macro "inv_npm" : tactic => `(tactic| first
  | inv_npm_fin
  | (split <;> inv_npm_fin)
  | (split <;> split <;> inv_npm_fin))

/-- The statement for one npm operator. -/
def InvNpm (op : Op) : Prop :=
  ∀ (nums : List XR), TShape nums → ∀ (pre : List Ident), (pre ≠ [] → nums.length = 3 ∧ XR.x ∉ nums) →
    InvOut (opVersionToSpan (tokOf op) (embedPartial .npm ⟨nums, pre⟩))

macro "inv_npm_all" : tactic => `(tactic| (
  intro nums hs pre hpre
  cases hs with
  | n3 a b c ha hb hc =>
    have ia := natCast_beq_inf a ha; have ja := value_inc_nat a ha; have ka := natCast_succ_ne_inf a ha; have ib := natCast_beq_inf b hb; have jb := value_inc_nat b hb; have kb := natCast_succ_ne_inf b hb; have ic := natCast_beq_inf c hc; have jc := value_inc_nat c hc; have kc := natCast_succ_ne_inf c hc
    by_cases h0 : a = 0 <;> by_cases h1 : b = 0 <;> by_cases h2 : c = 0 <;> cases pre <;> l1_eval <;> inv_npm
  | nnx a b ha hb =>
    have ia := natCast_beq_inf a ha; have ja := value_inc_nat a ha; have ka := natCast_succ_ne_inf a ha; have ib := natCast_beq_inf b hb; have jb := value_inc_nat b hb; have kb := natCast_succ_ne_inf b hb
    have hp : pre = [] := pre_ne_nil_of hpre (by simp)
    subst hp
    by_cases h0 : a = 0 <;> by_cases h1 : b = 0 <;> l1_eval <;> inv_npm
  | n2 a b ha hb =>
    have ia := natCast_beq_inf a ha; have ja := value_inc_nat a ha; have ka := natCast_succ_ne_inf a ha; have ib := natCast_beq_inf b hb; have jb := value_inc_nat b hb; have kb := natCast_succ_ne_inf b hb
    have hp : pre = [] := pre_ne_nil_of hpre (by simp)
    subst hp
    by_cases h0 : a = 0 <;> by_cases h1 : b = 0 <;> l1_eval <;> inv_npm
  | nxx a ha =>
    have ia := natCast_beq_inf a ha; have ja := value_inc_nat a ha; have ka := natCast_succ_ne_inf a ha
    have hp : pre = [] := pre_ne_nil_of hpre (by simp)
    subst hp
    by_cases h0 : a = 0 <;> l1_eval <;> inv_npm
  | nx a ha =>
    have ia := natCast_beq_inf a ha; have ja := value_inc_nat a ha; have ka := natCast_succ_ne_inf a ha
    have hp : pre = [] := pre_ne_nil_of hpre (by simp)
    subst hp
    by_cases h0 : a = 0 <;> l1_eval <;> inv_npm
  | n1 a ha =>
    have ia := natCast_beq_inf a ha; have ja := value_inc_nat a ha; have ka := natCast_succ_ne_inf a ha
    have hp : pre = [] := pre_ne_nil_of hpre (by simp)
    subst hp
    by_cases h0 : a = 0 <;> l1_eval <;> inv_npm
  | x1 =>
    have hp : pre = [] := pre_ne_nil_of hpre (by simp)
    subst hp
    l1_eval <;> inv_npm
  | xx =>
    have hp : pre = [] := pre_ne_nil_of hpre (by simp)
    subst hp
    l1_eval <;> inv_npm
  | xxx =>
    have hp : pre = [] := pre_ne_nil_of hpre (by simp)
    subst hp
    l1_eval <;> inv_npm))

end DepsDev.Proofs.C03
