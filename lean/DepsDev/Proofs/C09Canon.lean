import DepsDev.Proofs.C09Sort

/-!
# C09 — `canon`: one merge step, the inner and outer loops, and the union law (T6)

A merge step of `canon` replaces `this` by a span that denotes `this ∪ next`
(`canonInner_spec`). Containment and overlap merges are purely order-theoretic. The
successor-abutment merge (`this.max < next.min`, both ends closed, no prerelease on
`this.max`, `inc(fill(this.max,0)) ≥ next.min`) is sound only for candidates that do
not lie strictly between `this.max` and `next.min`: that is the hypothesis
`SeamFree` of the law, and it is exactly what fails for the S-succ witnesses.
-/
namespace DepsDev.Proofs.C09

open Std DepsDev DepsDev.Semver DepsDev.Proofs

variable {s : System}

/-- `(a, b)` is a successor seam: two release bounds with `a < b ≤ inc(fill(a, 0))`. -/
def Seam (s : System) (a b : Version) : Prop :=
  a.pre = [] ∧ b.pre = [] ∧ pt s a < pt s b ∧ ∃ m, (a.fill 0).inc = .ok m ∧ ¬ pt s m < pt s b

/-- `v` does not lie strictly inside a successor seam between two bounds satisfying `P`. -/
def SeamFree (s : System) (P : Version → Prop) (v : Version) : Prop :=
  ∀ a b, P a → P b → Seam s a b → ¬ (pt s a < pt s v ∧ pt s v < pt s b)

/-- `x`'s lower end is not above `y`'s (what the sort guarantees for `this` and every later `next`). -/
def MinLE (s : System) (x y : Span) : Prop :=
  ∃ a c, x.min = some a ∧ y.min = some c ∧
    (pt s a < pt s c ∨ ((pt s a ≤ pt s c ∧ pt s c ≤ pt s a) ∧ (x.minOpen = true → y.minOpen = true)))

theorem minLE_of_sle {x y : Span} {a : Version} (hx : x.min = some a) (h : sle s x y) : MinLE s x y := by
  unfold sle spanOrd compareLex at h
  simp only [] at h
  rw [hx] at h
  cases hy : y.min with
  | none => rw [hy] at h; simp [optOrd] at h
  | some c =>
    rw [hy] at h
    refine ⟨a, c, hx, hy, ?_⟩
    simp only [optOrd] at h
    have e := ord_eq_iff (s := s) a c
    have l := Pt.lt_def (pt s a) (pt s c)
    simp only [pt] at e l
    cases hg : genericOrd s a c with
    | lt => exact Or.inl (l.mpr hg)
    | gt => rw [hg] at h; simp at h
    | eq =>
      rw [hg] at h
      refine Or.inr ⟨e.mp hg, ?_⟩
      intro hxo
      cases hyo : y.minOpen with
      | true => rfl
      | false =>
        have hgt : minOpenOrd true false = .gt := by decide
        rw [hxo, hyo, hgt] at h
        simp [Ordering.then] at h

theorem MinLE.congr_left {x x' y : Span} (h : MinLE s x y) (h1 : x'.min = x.min) (h2 : x'.minOpen = x.minOpen) :
    MinLE s x' y := by
  obtain ⟨a, c, e1, e2, e3⟩ := h
  exact ⟨a, c, by rw [h1, e1], e2, by rw [h2]; exact e3⟩

/-! ### `inc` after `fill` succeeds -/

theorem fill_length (v : Version) (x : Value) : 3 ≤ (v.fill x).num.length := by
  unfold Version.fill
  split
  · simp; omega
  · omega

theorem setNum_VG {v : Version} (h : VG s v) (i : Nat) (x : Value) : VG s (v.setNum i x) := h

theorem incN_ok {v : Version} (h : VG s v) {n : Nat} (hn : n < v.num.length) :
    ∃ m, v.incN n = .ok m ∧ VG s m := by
  unfold Version.incN
  rw [List.getElem?_eq_getElem hn]
  exact ⟨_, rfl, setNum_VG h _ _⟩

/-- `inc` cannot fail on a release bound with at least three numbers. -/
theorem inc_ok {v : Version} (h : VG s v) (hpre : v.pre = []) (hlen : 3 ≤ v.num.length) :
    ∃ m, v.inc = .ok m ∧ VG s m := by
  unfold Version.inc
  simp only [hpre, List.isEmpty_nil, Bool.not_true, Bool.false_eq_true, ↓reduceIte]
  split
  · omega
  · omega
  · omega
  · rename_i n _ _ _
    split
    · exact incN_ok h (by omega)
    · exact ⟨v, rfl, h⟩
    · rename_i w _ hw
      have hwl : w < v.num.length := by
        have := List.findIdx?_eq_some_iff_getElem.mp hw
        exact this.1
      obtain ⟨m, e, hm⟩ := incN_ok h (n := w - 1) (by omega)
      rw [e]
      exact ⟨_, rfl, hm⟩

theorem fill_VG {v : Version} (h : VG s v) (x : Value) : VG s (v.fill x) := by
  unfold Version.fill
  split
  · exact h
  · exact h

theorem fill_pre (v : Version) (x : Value) : (v.fill x).pre = v.pre := by
  unfold Version.fill
  split <;> rfl

theorem inc_fill_ok {v : Version} (h : VG s v) (hpre : v.pre = []) :
    ∃ m, (v.fill 0).inc = .ok m ∧ VG s m :=
  inc_ok (fill_VG h 0) (by rw [fill_pre, hpre]) (fill_length v 0)

theorem comparePre_nil_right {sys : System} {p : List Bytes} (h : (comparePre sys p [] == 0) = true) : p = [] := by
  cases p with
  | nil => rfl
  | cons x xs => simp [comparePre] at h

theorem comparePre_nil_left {sys : System} {q : List Bytes} (h : (comparePre sys [] q == 0) = true) : q = [] := by
  cases q with
  | nil => rfl
  | cons x xs => simp [comparePre] at h

/-! ### the three merge shapes, on points -/

theorem merge_contain (a b c d v : Pt s) (ao bo co dO : Bool)
    (hcd : c < d ∨ (c ≤ d ∧ co = false ∧ dO = false))
    (hle : a < c ∨ ((a ≤ c ∧ c ≤ a) ∧ (ao = true → co = true))) (hdb : d ≤ b) :
    inItv a ao b (if b ≤ d ∧ d ≤ b then bo && dO else bo) v ↔ (inItv a ao b bo v ∨ inItv c co d dO v) := by
  unfold inItv
  by_cases h : b ≤ d ∧ d ≤ b
  · simp only [h, and_self, ↓reduceIte]
    cases ao <;> cases bo <;> cases co <;> cases dO <;> simp at hcd hle ⊢ <;> grind
  · simp only [h, ↓reduceIte]
    cases ao <;> cases bo <;> cases co <;> cases dO <;> simp at hcd hle ⊢ <;> grind

theorem merge_extend (a b c d v : Pt s) (ao bo co dO : Bool)
    (hab : a < b ∨ (a ≤ b ∧ ao = false ∧ bo = false))
    (hcd : c < d ∨ (c ≤ d ∧ co = false ∧ dO = false))
    (hle : a < c ∨ ((a ≤ c ∧ c ≤ a) ∧ (ao = true → co = true))) (hcb : ¬ b < c)
    (hopen : ¬ (bo = true ∧ co = true)) (hbd : ¬ d ≤ b) :
    inItv a ao d dO v ↔ (inItv a ao b bo v ∨ inItv c co d dO v) := by
  unfold inItv
  cases ao <;> cases bo <;> cases co <;> cases dO <;> simp at hab hcd hle hopen ⊢ <;> grind

theorem merge_abut (a b c d v : Pt s) (ao dO : Bool)
    (hab : a < b ∨ (a ≤ b ∧ ao = false))
    (hcd : c ≤ d) (hbc : b < c) (hgap : ¬ (b < v ∧ v < c)) :
    inItv a ao d dO v ↔ (inItv a ao b false v ∨ inItv c false d dO v) := by
  unfold inItv
  cases ao <;> cases dO <;> simp at hab ⊢ <;> grind

/-! ### one iteration of the inner loop -/

/-- What one inner iteration guarantees. -/
def Step (s : System) (P : Version → Prop) (this next this' : Span) : InnerCtl → Prop
  | .merge => SpanOK s this' ∧ this'.rank ≠ .empty ∧ this'.min = this.min ∧ this'.minOpen = this.minOpen ∧
      AllB P this' ∧ ∀ v, SeamFree s P v → has s this' v = (has s this v || has s next v)
  | _ => this' = this

/-- The part of one inner iteration after the disjointness tests. -/
def mergeTail (s : System) (this next : Span) (a b c d : Version) : Outcome (Span × InnerCtl) :=
  if (this.maxOpen && next.minOpen) = true then Outcome.ok (this, InnerCtl.cont)
  else if (!comparePre a.sys a.pre b.pre == 0) = true then Outcome.ok (this, InnerCtl.cont)
  else if (!comparePre a.sys a.pre c.pre == 0) = true then Outcome.ok (this, InnerCtl.cont)
  else if (!comparePre a.sys a.pre d.pre == 0) = true then Outcome.ok (this, InnerCtl.cont)
  else if (next.rank == Rank.empty) = true then Outcome.ok (this, InnerCtl.merge)
  else if decide (pt s d ≤ pt s b) = true then
    Outcome.ok (if decide (pt s b ≤ pt s d ∧ pt s d ≤ pt s b) = true then
        { rank := this.rank, minOpen := this.minOpen, maxOpen := this.maxOpen && next.maxOpen,
          min := some a, max := some b }
      else this, InnerCtl.merge)
  else
    Outcome.ok ({ rank := Rank.vector, minOpen := this.minOpen, maxOpen := next.maxOpen,
                  min := some a, max := some d }, InnerCtl.merge)

theorem bool_eq_of_iff {x y : Bool} (h : x = true ↔ y = true) : x = y := by
  cases x <;> cases y <;> simp_all

theorem mergeTail_spec (P : Version → Prop) {this next : Span} {a b c d : Version}
    (ht : SpanOK s this) (htne : this.rank ≠ .empty) (h1 : this.min = some a) (h2 : this.max = some b)
    (hn : SpanOK s next) (hnne : next.rank ≠ .empty) (h3 : next.min = some c) (h4 : next.max = some d)
    (hle : MinLE s this next) (hPt : AllB P this) (hPn : AllB P next)
    (hroute : ¬ pt s b < pt s c ∨ (this.maxOpen = false ∧ next.minOpen = false ∧ b.pre = [] ∧
      ∃ m, (b.fill 0).inc = .ok m ∧ ¬ pt s m < pt s c)) :
    ∃ this' ctl, mergeTail s this next a b c d = .ok (this', ctl) ∧ Step s P this next this' ctl := by
  obtain ⟨a', b', e1, e2, ha, hb, hab, hfl, hu, hvec⟩ := ht.bounds htne
  rw [h1] at e1; cases e1
  rw [h2] at e2; cases e2
  obtain ⟨c', d', e3, e4, hc, hd, hcd, nfl, -, -⟩ := hn.bounds hnne
  rw [h3] at e3; cases e3
  rw [h4] at e4; cases e4
  obtain ⟨a', c', e1, e3, hle⟩ := hle
  rw [h1] at e1; cases e1
  rw [h3] at e3; cases e3
  have hab' : pt s a < pt s b ∨ (pt s a ≤ pt s b ∧ this.minOpen = false ∧ this.maxOpen = false) := by
    rcases hfl with h | h
    · exact Or.inl h
    · exact Or.inr ⟨hab, h⟩
  have hcd' : pt s c < pt s d ∨ (pt s c ≤ pt s d ∧ next.minOpen = false ∧ next.maxOpen = false) := by
    rcases nfl with h | h
    · exact Or.inl h
    · exact Or.inr ⟨hcd, h⟩
  unfold mergeTail
  by_cases q1 : (this.maxOpen && next.minOpen) = true
  · exact ⟨this, .cont, by simp only [q1, ↓reduceIte], rfl⟩
  simp only [q1, Bool.false_eq_true, ↓reduceIte]
  by_cases q2 : (!comparePre a.sys a.pre b.pre == 0) = true
  · exact ⟨this, .cont, by simp only [q2, ↓reduceIte], rfl⟩
  simp only [q2, Bool.false_eq_true, ↓reduceIte]
  by_cases q3 : (!comparePre a.sys a.pre c.pre == 0) = true
  · exact ⟨this, .cont, by simp only [q3, ↓reduceIte], rfl⟩
  simp only [q3, Bool.false_eq_true, ↓reduceIte]
  by_cases q4 : (!comparePre a.sys a.pre d.pre == 0) = true
  · exact ⟨this, .cont, by simp only [q4, ↓reduceIte], rfl⟩
  simp only [q4, Bool.false_eq_true, ↓reduceIte]
  have hnne' : (next.rank == Rank.empty) = false := by simpa using hnne
  simp only [hnne', Bool.false_eq_true, ↓reduceIte, decide_eq_true_eq]
  have hopen : ¬ (this.maxOpen = true ∧ next.minOpen = true) := by simpa using q1
  -- the gap between `this.max` and `next.min` holds no candidate
  have hgap : ∀ v, SeamFree s P v → pt s b < pt s c → ¬ (pt s b < pt s v ∧ pt s v < pt s c) := by
    intro v hv hbc
    rcases hroute with h | ⟨-, -, hbpre, m, hm, hmc⟩
    · exact absurd hbc h
    · have hapre : a.pre = [] := by
        rw [hbpre] at q2
        exact comparePre_nil_right (by simpa using q2)
      have hcpre : c.pre = [] := by
        rw [hapre] at q3
        exact comparePre_nil_left (by simpa using q3)
      exact hv b c (hPt.2 b h2) (hPn.1 c h3) ⟨hbpre, hcpre, hbc, m, hm, hmc⟩
  by_cases q5 : pt s d ≤ pt s b
  · -- containment: `next ⊆ this` up to the flag of a shared upper end
    rw [if_pos q5]
    refine ⟨_, .merge, rfl, ?_⟩
    by_cases q6 : pt s b ≤ pt s d ∧ pt s d ≤ pt s b
    · rw [if_pos q6]
      refine ⟨?_, htne, h1.symm, rfl, ⟨fun x hx => hPt.1 x (h1.trans hx), fun x hx => hPt.2 x (h2.trans hx)⟩, ?_⟩
      · unfold SpanOK
        cases hr : this.rank with
        | empty => exact absurd hr htne
        | unit =>
          rcases hfl with h | ⟨f1, f2⟩
          · have := hu hr; subst this; exact absurd h (by grind)
          · have := hu hr; subst this
            exact ⟨a, rfl, rfl, ha, f1, by simp [f2]⟩
        | vector => exact ⟨a, b, rfl, rfl, ha, hb, hvec hr⟩
      · intro v _
        rw [has_eq (sp := { rank := this.rank, minOpen := this.minOpen,
                            maxOpen := this.maxOpen && next.maxOpen, min := some a, max := some b })
          htne rfl rfl, has_eq htne h1 h2, has_eq hnne h3 h4]
        apply bool_eq_of_iff
        rw [Bool.or_eq_true, decide_eq_true_eq, decide_eq_true_eq, decide_eq_true_eq]
        have := merge_contain (pt s a) (pt s b) (pt s c) (pt s d) (pt s v) this.minOpen this.maxOpen
          next.minOpen next.maxOpen hcd' hle q5
        simpa only [q6, and_self, ↓reduceIte] using this
    · rw [if_neg q6]
      refine ⟨ht, htne, rfl, rfl, hPt, ?_⟩
      intro v _
      rw [has_eq htne h1 h2, has_eq hnne h3 h4]
      apply bool_eq_of_iff
      rw [Bool.or_eq_true, decide_eq_true_eq, decide_eq_true_eq]
      have := merge_contain (pt s a) (pt s b) (pt s c) (pt s d) (pt s v) this.minOpen this.maxOpen
        next.minOpen next.maxOpen hcd' hle q5
      simpa only [q6, ↓reduceIte] using this
  · -- extension of `this` up to `next.max`
    rw [if_neg q5]
    refine ⟨_, .merge, rfl, ?_⟩
    have had : pt s a < pt s d := by grind
    refine ⟨spanOK_vector ha hd had _ _, by simp, h1.symm, rfl,
      ⟨fun x hx => hPt.1 x (h1.trans hx), fun x hx => hPn.2 x (h4.trans hx)⟩, ?_⟩
    intro v hv
    rw [has_eq (sp := { rank := Rank.vector, minOpen := this.minOpen, maxOpen := next.maxOpen,
                        min := some a, max := some d }) (by simp) rfl rfl,
      has_eq htne h1 h2, has_eq hnne h3 h4]
    apply bool_eq_of_iff
    rw [Bool.or_eq_true, decide_eq_true_eq, decide_eq_true_eq, decide_eq_true_eq]
    by_cases hbc : pt s b < pt s c
    · rcases hroute with h | ⟨f1, f2, -, -⟩
      · exact absurd hbc h
      · have := merge_abut (pt s a) (pt s b) (pt s c) (pt s d) (pt s v) this.minOpen next.maxOpen
          (by rcases hab' with h | h; exact Or.inl h; exact Or.inr ⟨h.1, h.2.1⟩) hcd hbc (hgap v hv hbc)
        rw [f1, f2]
        exact this
    · exact merge_extend (pt s a) (pt s b) (pt s c) (pt s d) (pt s v) this.minOpen this.maxOpen
        next.minOpen next.maxOpen hab' hcd' hle hbc hopen q5

/-- One iteration of `canon`'s inner loop (merge-step soundness): it never fails on
well-formed sorted operands; when it merges, the new `this` denotes `this ∪ next` for every
candidate outside successor seams, keeps its lower end, and stays well-formed; otherwise
`this` is unchanged. -/
theorem canonInner_spec (P : Version → Prop) {this next : Span}
    (ht : SpanOK s this) (htne : this.rank ≠ .empty) (hn : SpanOK s next) (hnne : next.rank ≠ .empty)
    (hle : MinLE s this next) (hPt : AllB P this) (hPn : AllB P next) :
    ∃ this' ctl, canonInner this next = .ok (this', ctl) ∧ Step s P this next this' ctl := by
  obtain ⟨a, b, h1, h2, ha, hb, -, -, -, -⟩ := ht.bounds htne
  obtain ⟨c, d, h3, h4, hc, hd, -, -, -, -⟩ := hn.bounds hnne
  have tail := fun hroute => mergeTail_spec P ht htne h1 h2 hn hnne h3 h4 hle hPt hPn hroute
  unfold mergeTail at tail
  unfold canonInner
  simp only [h1, h2, h3, h4, vLess_eq hb.1 hc.1, vEqual_eq hb.1 hc.1, ok_bind, equalPrerelease,
    vLessEq_eq hd.1 hb.1, vEqual_eq hb.1 hd.1]
  by_cases hbc : pt s b < pt s c
  · simp only [hbc, decide_true, ↓reduceIte]
    by_cases hpre : b.pre.isEmpty = true
    · simp only [hpre, ↓reduceIte]
      by_cases hop : (this.maxOpen || next.minOpen) = true
      · exact ⟨this, .brk, by simp only [hop, ↓reduceIte, ok_bind], rfl⟩
      · simp only [hop, Bool.false_eq_true, ↓reduceIte]
        have hpre' : b.pre = [] := by simpa using hpre
        obtain ⟨m, hm, hmg⟩ := inc_fill_ok hb.1 hpre'
        simp only [hm, ok_bind, vLess_eq hmg hc.1]
        by_cases hmc : pt s m < pt s c
        · exact ⟨this, .brk, by simp only [hmc, decide_true, ↓reduceIte, ok_bind], rfl⟩
        · simp only [hmc, decide_false, Bool.false_eq_true, ↓reduceIte, ok_bind]
          have hop' : this.maxOpen = false ∧ next.minOpen = false := by
            cases h : this.maxOpen <;> cases h' : next.minOpen <;> simp_all
          exact tail (Or.inr ⟨hop'.1, hop'.2, hpre', m, hm, hmc⟩)
    · exact ⟨this, .cont, by simp only [hpre, Bool.false_eq_true, ↓reduceIte, ok_bind], rfl⟩
  · simp only [hbc, decide_false, Bool.false_eq_true, ↓reduceIte]
    by_cases hq : (!decide (pt s b ≤ pt s c ∧ pt s c ≤ pt s b) && !b.pre.isEmpty) = true
    · exact ⟨this, .cont, by simp only [hq, ↓reduceIte, ok_bind], rfl⟩
    · simp only [hq, Bool.false_eq_true, ↓reduceIte, ok_bind]
      exact tail (Or.inl hbc)

end DepsDev.Proofs.C09
