import DepsDev.Proofs.C09Sort

/-!
# C09 — `canon`: one merge step, the inner and outer loops, and the union law (T6)

A merge step of `canon` replaces `this` by a span that denotes `this ∪ next`
(`canonInner_spec`). Containment and overlap merges are purely order-theoretic. The
successor-abutment merge (`this.max < next.min`, both ends closed, no prerelease on
`this.max`, `inc(fill(this.max,0)) ≥ next.min`) is sound only for candidates that do
not lie strictly between `this.max` and `next.min`: that is the hypothesis
`SeamFree` of the law, and it is exactly what fails for the S-succ witnesses.
-/
namespace DepsDev.Proofs.C09

open Std DepsDev DepsDev.Semver DepsDev.Proofs

variable {s : System}

/-- `(a, b)` is a successor seam: two release bounds with `a < b ≤ inc(fill(a, 0))`. -/
def Seam (s : System) (a b : Version) : Prop :=
  a.pre = [] ∧ b.pre = [] ∧ pt s a < pt s b ∧ ∃ m, (a.fill 0).inc = .ok m ∧ ¬ pt s m < pt s b

/-- `v` does not lie strictly inside a successor seam between two bounds satisfying `P`. -/
def SeamFree (s : System) (P : Version → Prop) (v : Version) : Prop :=
  ∀ a b, P a → P b → Seam s a b → ¬ (pt s a < pt s v ∧ pt s v < pt s b)

/-- `x`'s lower end is not above `y`'s (what the sort guarantees for `this` and every later `next`). -/
def MinLE (s : System) (x y : Span) : Prop :=
  ∃ a c, x.min = some a ∧ y.min = some c ∧
    (pt s a < pt s c ∨ ((pt s a ≤ pt s c ∧ pt s c ≤ pt s a) ∧ (x.minOpen = true → y.minOpen = true)))

theorem minLE_of_sle {x y : Span} {a : Version} (hx : x.min = some a) (h : sle s x y) : MinLE s x y := by
  unfold sle spanOrd compareLex at h
  simp only [] at h
  rw [hx] at h
  cases hy : y.min with
  | none => rw [hy] at h; simp [optOrd] at h
  | some c =>
    rw [hy] at h
    refine ⟨a, c, hx, hy, ?_⟩
    simp only [optOrd] at h
    have e := ord_eq_iff (s := s) a c
    have l := Pt.lt_def (pt s a) (pt s c)
    simp only [pt] at e l
    cases hg : genericOrd s a c with
    | lt => exact Or.inl (l.mpr hg)
    | gt => rw [hg] at h; simp at h
    | eq =>
      rw [hg] at h
      refine Or.inr ⟨e.mp hg, ?_⟩
      intro hxo
      cases hyo : y.minOpen with
      | true => rfl
      | false =>
        have hgt : minOpenOrd true false = .gt := by decide
        rw [hxo, hyo, hgt] at h
        simp [Ordering.then] at h

theorem MinLE.congr_left {x x' y : Span} (h : MinLE s x y) (h1 : x'.min = x.min) (h2 : x'.minOpen = x.minOpen) :
    MinLE s x' y := by
  obtain ⟨a, c, e1, e2, e3⟩ := h
  exact ⟨a, c, by rw [h1, e1], e2, by rw [h2]; exact e3⟩

/-! ### `inc` after `fill` succeeds -/

theorem fill_length (v : Version) (x : Value) : 3 ≤ (v.fill x).num.length := by
  unfold Version.fill
  split
  · simp; omega
  · omega

theorem setNum_VG {v : Version} (h : VG s v) (i : Nat) (x : Value) : VG s (v.setNum i x) := h

theorem incN_ok {v : Version} (h : VG s v) {n : Nat} (hn : n < v.num.length) :
    ∃ m, v.incN n = .ok m ∧ VG s m := by
  unfold Version.incN
  rw [List.getElem?_eq_getElem hn]
  exact ⟨_, rfl, setNum_VG h _ _⟩

/-- `inc` cannot fail on a release bound with at least three numbers. -/
theorem inc_ok {v : Version} (h : VG s v) (hpre : v.pre = []) (hlen : 3 ≤ v.num.length) :
    ∃ m, v.inc = .ok m ∧ VG s m := by
  unfold Version.inc
  simp only [hpre, List.isEmpty_nil, Bool.not_true, Bool.false_eq_true, ↓reduceIte]
  split
  · omega
  · omega
  · omega
  · rename_i n _ _ _
    split
    · exact incN_ok h (by omega)
    · exact ⟨v, rfl, h⟩
    · rename_i w _ hw
      have hwl : w < v.num.length := by
        have := List.findIdx?_eq_some_iff_getElem.mp hw
        exact this.1
      obtain ⟨m, e, hm⟩ := incN_ok h (n := w - 1) (by omega)
      rw [e]
      exact ⟨_, rfl, hm⟩

theorem fill_VG {v : Version} (h : VG s v) (x : Value) : VG s (v.fill x) := by
  unfold Version.fill
  split
  · exact h
  · exact h

theorem fill_pre (v : Version) (x : Value) : (v.fill x).pre = v.pre := by
  unfold Version.fill
  split <;> rfl

theorem inc_fill_ok {v : Version} (h : VG s v) (hpre : v.pre = []) :
    ∃ m, (v.fill 0).inc = .ok m ∧ VG s m :=
  inc_ok (fill_VG h 0) (by rw [fill_pre, hpre]) (fill_length v 0)

theorem comparePre_nil_right {sys : System} {p : List Bytes} (h : (comparePre sys p [] == 0) = true) : p = [] := by
  cases p with
  | nil => rfl
  | cons x xs => simp [comparePre] at h

theorem comparePre_nil_left {sys : System} {q : List Bytes} (h : (comparePre sys [] q == 0) = true) : q = [] := by
  cases q with
  | nil => rfl
  | cons x xs => simp [comparePre] at h

/-! ### the three merge shapes, on points -/

theorem merge_contain (a b c d v : Pt s) (ao bo co dO : Bool)
    (hcd : c < d ∨ (c ≤ d ∧ co = false ∧ dO = false))
    (hle : a < c ∨ ((a ≤ c ∧ c ≤ a) ∧ (ao = true → co = true))) (hdb : d ≤ b) :
    inItv a ao b (if b ≤ d ∧ d ≤ b then bo && dO else bo) v ↔ (inItv a ao b bo v ∨ inItv c co d dO v) := by
  unfold inItv
  by_cases h : b ≤ d ∧ d ≤ b
  · simp only [h, and_self, ↓reduceIte]
    cases ao <;> cases bo <;> cases co <;> cases dO <;> simp at hcd hle ⊢ <;> grind
  · simp only [h, ↓reduceIte]
    cases ao <;> cases bo <;> cases co <;> cases dO <;> simp at hcd hle ⊢ <;> grind

theorem merge_extend (a b c d v : Pt s) (ao bo co dO : Bool)
    (hab : a < b ∨ (a ≤ b ∧ ao = false ∧ bo = false))
    (hcd : c < d ∨ (c ≤ d ∧ co = false ∧ dO = false))
    (hle : a < c ∨ ((a ≤ c ∧ c ≤ a) ∧ (ao = true → co = true))) (hcb : ¬ b < c)
    (hopen : ¬ (bo = true ∧ co = true)) (hbd : ¬ d ≤ b) :
    inItv a ao d dO v ↔ (inItv a ao b bo v ∨ inItv c co d dO v) := by
  unfold inItv
  cases ao <;> cases bo <;> cases co <;> cases dO <;> simp at hab hcd hle hopen ⊢ <;> grind

theorem merge_abut (a b c d v : Pt s) (ao dO : Bool)
    (hab : a < b ∨ (a ≤ b ∧ ao = false))
    (hcd : c ≤ d) (hbc : b < c) (hgap : ¬ (b < v ∧ v < c)) :
    inItv a ao d dO v ↔ (inItv a ao b false v ∨ inItv c false d dO v) := by
  unfold inItv
  cases ao <;> cases dO <;> simp at hab ⊢ <;> grind

/-! ### one iteration of the inner loop -/

/-- What one inner iteration guarantees. -/
def Step (s : System) (P : Version → Prop) (this next this' : Span) : InnerCtl → Prop
  | .merge => SpanOK s this' ∧ this'.rank ≠ .empty ∧ this'.min = this.min ∧ this'.minOpen = this.minOpen ∧
      AllB P this' ∧ ∀ v, SeamFree s P v → has s this' v = (has s this v || has s next v)
  | _ => this' = this

/-- The part of one inner iteration after the disjointness tests. -/
def mergeTail (s : System) (this next : Span) (a b c d : Version) : Outcome (Span × InnerCtl) :=
  if (this.maxOpen && next.minOpen) = true then Outcome.ok (this, InnerCtl.cont)
  else if (!comparePre a.sys a.pre b.pre == 0) = true then Outcome.ok (this, InnerCtl.cont)
  else if (!comparePre a.sys a.pre c.pre == 0) = true then Outcome.ok (this, InnerCtl.cont)
  else if (!comparePre a.sys a.pre d.pre == 0) = true then Outcome.ok (this, InnerCtl.cont)
  else if (next.rank == Rank.empty) = true then Outcome.ok (this, InnerCtl.merge)
  else if decide (pt s d ≤ pt s b) = true then
    Outcome.ok (if decide (pt s b ≤ pt s d ∧ pt s d ≤ pt s b) = true then
        { rank := this.rank, minOpen := this.minOpen, maxOpen := this.maxOpen && next.maxOpen,
          min := some a, max := some b }
      else this, InnerCtl.merge)
  else
    Outcome.ok ({ rank := Rank.vector, minOpen := this.minOpen, maxOpen := next.maxOpen,
                  min := some a, max := some d }, InnerCtl.merge)

theorem bool_eq_of_iff {x y : Bool} (h : x = true ↔ y = true) : x = y := by
  cases x <;> cases y <;> simp_all

theorem mergeTail_spec (P : Version → Prop) {this next : Span} {a b c d : Version}
    (ht : SpanOK s this) (htne : this.rank ≠ .empty) (h1 : this.min = some a) (h2 : this.max = some b)
    (hn : SpanOK s next) (hnne : next.rank ≠ .empty) (h3 : next.min = some c) (h4 : next.max = some d)
    (hle : MinLE s this next) (hPt : AllB P this) (hPn : AllB P next)
    (hroute : ¬ pt s b < pt s c ∨ (this.maxOpen = false ∧ next.minOpen = false ∧ b.pre = [] ∧
      ∃ m, (b.fill 0).inc = .ok m ∧ ¬ pt s m < pt s c)) :
    ∃ this' ctl, mergeTail s this next a b c d = .ok (this', ctl) ∧ Step s P this next this' ctl := by
  obtain ⟨a', b', e1, e2, ha, hb, hab, hfl, hu, hvec⟩ := ht.bounds htne
  rw [h1] at e1; cases e1
  rw [h2] at e2; cases e2
  obtain ⟨c', d', e3, e4, hc, hd, hcd, nfl, -, -⟩ := hn.bounds hnne
  rw [h3] at e3; cases e3
  rw [h4] at e4; cases e4
  obtain ⟨a', c', e1, e3, hle⟩ := hle
  rw [h1] at e1; cases e1
  rw [h3] at e3; cases e3
  have hab' : pt s a < pt s b ∨ (pt s a ≤ pt s b ∧ this.minOpen = false ∧ this.maxOpen = false) := by
    rcases hfl with h | h
    · exact Or.inl h
    · exact Or.inr ⟨hab, h⟩
  have hcd' : pt s c < pt s d ∨ (pt s c ≤ pt s d ∧ next.minOpen = false ∧ next.maxOpen = false) := by
    rcases nfl with h | h
    · exact Or.inl h
    · exact Or.inr ⟨hcd, h⟩
  unfold mergeTail
  by_cases q1 : (this.maxOpen && next.minOpen) = true
  · exact ⟨this, .cont, by simp only [q1, ↓reduceIte], rfl⟩
  simp only [q1, Bool.false_eq_true, ↓reduceIte]
  by_cases q2 : (!comparePre a.sys a.pre b.pre == 0) = true
  · exact ⟨this, .cont, by simp only [q2, ↓reduceIte], rfl⟩
  simp only [q2, Bool.false_eq_true, ↓reduceIte]
  by_cases q3 : (!comparePre a.sys a.pre c.pre == 0) = true
  · exact ⟨this, .cont, by simp only [q3, ↓reduceIte], rfl⟩
  simp only [q3, Bool.false_eq_true, ↓reduceIte]
  by_cases q4 : (!comparePre a.sys a.pre d.pre == 0) = true
  · exact ⟨this, .cont, by simp only [q4, ↓reduceIte], rfl⟩
  simp only [q4, Bool.false_eq_true, ↓reduceIte]
  have hnne' : (next.rank == Rank.empty) = false := by simpa using hnne
  simp only [hnne', Bool.false_eq_true, ↓reduceIte, decide_eq_true_eq]
  have hopen : ¬ (this.maxOpen = true ∧ next.minOpen = true) := by simpa using q1
  -- the gap between `this.max` and `next.min` holds no candidate
  have hgap : ∀ v, SeamFree s P v → pt s b < pt s c → ¬ (pt s b < pt s v ∧ pt s v < pt s c) := by
    intro v hv hbc
    rcases hroute with h | ⟨-, -, hbpre, m, hm, hmc⟩
    · exact absurd hbc h
    · have hapre : a.pre = [] := by
        rw [hbpre] at q2
        exact comparePre_nil_right (by simpa using q2)
      have hcpre : c.pre = [] := by
        rw [hapre] at q3
        exact comparePre_nil_left (by simpa using q3)
      exact hv b c (hPt.2 b h2) (hPn.1 c h3) ⟨hbpre, hcpre, hbc, m, hm, hmc⟩
  by_cases q5 : pt s d ≤ pt s b
  · -- containment: `next ⊆ this` up to the flag of a shared upper end
    rw [if_pos q5]
    refine ⟨_, .merge, rfl, ?_⟩
    by_cases q6 : pt s b ≤ pt s d ∧ pt s d ≤ pt s b
    · rw [if_pos q6]
      refine ⟨?_, htne, h1.symm, rfl, ⟨fun x hx => hPt.1 x (h1.trans hx), fun x hx => hPt.2 x (h2.trans hx)⟩, ?_⟩
      · unfold SpanOK
        cases hr : this.rank with
        | empty => exact absurd hr htne
        | unit =>
          rcases hfl with h | ⟨f1, f2⟩
          · have := hu hr; subst this; exact absurd h (by grind)
          · have := hu hr; subst this
            exact ⟨a, rfl, rfl, ha, f1, by simp [f2]⟩
        | vector => exact ⟨a, b, rfl, rfl, ha, hb, hvec hr⟩
      · intro v _
        rw [has_eq (sp := { rank := this.rank, minOpen := this.minOpen,
                            maxOpen := this.maxOpen && next.maxOpen, min := some a, max := some b })
          htne rfl rfl, has_eq htne h1 h2, has_eq hnne h3 h4]
        apply bool_eq_of_iff
        rw [Bool.or_eq_true, decide_eq_true_eq, decide_eq_true_eq, decide_eq_true_eq]
        have := merge_contain (pt s a) (pt s b) (pt s c) (pt s d) (pt s v) this.minOpen this.maxOpen
          next.minOpen next.maxOpen hcd' hle q5
        simpa only [q6, and_self, ↓reduceIte] using this
    · rw [if_neg q6]
      refine ⟨ht, htne, rfl, rfl, hPt, ?_⟩
      intro v _
      rw [has_eq htne h1 h2, has_eq hnne h3 h4]
      apply bool_eq_of_iff
      rw [Bool.or_eq_true, decide_eq_true_eq, decide_eq_true_eq]
      have := merge_contain (pt s a) (pt s b) (pt s c) (pt s d) (pt s v) this.minOpen this.maxOpen
        next.minOpen next.maxOpen hcd' hle q5
      simpa only [q6, ↓reduceIte] using this
  · -- extension of `this` up to `next.max`
    rw [if_neg q5]
    refine ⟨_, .merge, rfl, ?_⟩
    have had : pt s a < pt s d := by grind
    refine ⟨spanOK_vector ha hd had _ _, by simp, h1.symm, rfl,
      ⟨fun x hx => hPt.1 x (h1.trans hx), fun x hx => hPn.2 x (h4.trans hx)⟩, ?_⟩
    intro v hv
    rw [has_eq (sp := { rank := Rank.vector, minOpen := this.minOpen, maxOpen := next.maxOpen,
                        min := some a, max := some d }) (by simp) rfl rfl,
      has_eq htne h1 h2, has_eq hnne h3 h4]
    apply bool_eq_of_iff
    rw [Bool.or_eq_true, decide_eq_true_eq, decide_eq_true_eq, decide_eq_true_eq]
    by_cases hbc : pt s b < pt s c
    · rcases hroute with h | ⟨f1, f2, -, -⟩
      · exact absurd hbc h
      · have := merge_abut (pt s a) (pt s b) (pt s c) (pt s d) (pt s v) this.minOpen next.maxOpen
          (by rcases hab' with h | h; exact Or.inl h; exact Or.inr ⟨h.1, h.2.1⟩) hcd hbc (hgap v hv hbc)
        rw [f1, f2]
        exact this
    · exact merge_extend (pt s a) (pt s b) (pt s c) (pt s d) (pt s v) this.minOpen this.maxOpen
        next.minOpen next.maxOpen hab' hcd' hle hbc hopen q5

/-- One iteration of `canon`'s inner loop (merge-step soundness): it never fails on
well-formed sorted operands; when it merges, the new `this` denotes `this ∪ next` for every
candidate outside successor seams, keeps its lower end, and stays well-formed; otherwise
`this` is unchanged. -/
theorem canonInner_spec (P : Version → Prop) {this next : Span}
    (ht : SpanOK s this) (htne : this.rank ≠ .empty) (hn : SpanOK s next) (hnne : next.rank ≠ .empty)
    (hle : MinLE s this next) (hPt : AllB P this) (hPn : AllB P next) :
    ∃ this' ctl, canonInner this next = .ok (this', ctl) ∧ Step s P this next this' ctl := by
  obtain ⟨a, b, h1, h2, ha, hb, -, -, -, -⟩ := ht.bounds htne
  obtain ⟨c, d, h3, h4, hc, hd, -, -, -, -⟩ := hn.bounds hnne
  have tail := fun hroute => mergeTail_spec P ht htne h1 h2 hn hnne h3 h4 hle hPt hPn hroute
  unfold mergeTail at tail
  unfold canonInner
  simp only [h1, h2, h3, h4, vLess_eq hb.1 hc.1, vEqual_eq hb.1 hc.1, ok_bind, equalPrerelease,
    vLessEq_eq hd.1 hb.1, vEqual_eq hb.1 hd.1]
  by_cases hbc : pt s b < pt s c
  · simp only [hbc, decide_true, ↓reduceIte]
    by_cases hpre : b.pre.isEmpty = true
    · simp only [hpre, ↓reduceIte]
      by_cases hop : (this.maxOpen || next.minOpen) = true
      · exact ⟨this, .brk, by simp only [hop, ↓reduceIte, ok_bind], rfl⟩
      · simp only [hop, Bool.false_eq_true, ↓reduceIte]
        have hpre' : b.pre = [] := by simpa using hpre
        obtain ⟨m, hm, hmg⟩ := inc_fill_ok hb.1 hpre'
        simp only [hm, ok_bind, vLess_eq hmg hc.1]
        by_cases hmc : pt s m < pt s c
        · exact ⟨this, .brk, by simp only [hmc, decide_true, ↓reduceIte, ok_bind], rfl⟩
        · simp only [hmc, decide_false, Bool.false_eq_true, ↓reduceIte, ok_bind]
          have hop' : this.maxOpen = false ∧ next.minOpen = false := by
            cases h : this.maxOpen <;> cases h' : next.minOpen <;> simp_all
          exact tail (Or.inr ⟨hop'.1, hop'.2, hpre', m, hm, hmc⟩)
    · exact ⟨this, .cont, by simp only [hpre, Bool.false_eq_true, ↓reduceIte, ok_bind], rfl⟩
  · simp only [hbc, decide_false, Bool.false_eq_true, ↓reduceIte]
    by_cases hq : (!decide (pt s b ≤ pt s c ∧ pt s c ≤ pt s b) && !b.pre.isEmpty) = true
    · exact ⟨this, .cont, by simp only [hq, ↓reduceIte, ok_bind], rfl⟩
    · simp only [hq, Bool.false_eq_true, ↓reduceIte, ok_bind]
      exact tail (Or.inl hbc)

/-! ### the inner loop -/

/-- Some not-yet-merged span of the flagged list contains `v`. -/
def live (s : System) (L : List (Span × Bool)) (v : Version) : Bool :=
  L.any (fun p => !p.2 && has s p.1 v)

@[simp] theorem live_nil (v : Version) : live s [] v = false := rfl
@[simp] theorem live_cons (p : Span × Bool) (L : List (Span × Bool)) (v : Version) :
    live s (p :: L) v = ((!p.2 && has s p.1 v) || live s L v) := by simp [live]

/-- Every element after `this` is a well-formed non-empty span whose lower end is not below `this`'s. -/
def RestOK (s : System) (P : Version → Prop) (this : Span) (rest : List (Span × Bool)) : Prop :=
  ∀ p ∈ rest, SpanOK s p.1 ∧ p.1.rank ≠ .empty ∧ MinLE s this p.1 ∧ AllB P p.1

theorem RestOK.tail {P : Version → Prop} {this : Span} {p : Span × Bool} {rest : List (Span × Bool)}
    (h : RestOK s P this (p :: rest)) : RestOK s P this rest :=
  fun q hq => h q (List.mem_cons_of_mem _ hq)

theorem RestOK.congr {P : Version → Prop} {this this' : Span} {rest : List (Span × Bool)}
    (h : RestOK s P this rest) (h1 : this'.min = this.min) (h2 : this'.minOpen = this.minOpen) :
    RestOK s P this' rest :=
  fun q hq => let ⟨a, b, c, d⟩ := h q hq; ⟨a, b, c.congr_left h1 h2, d⟩

theorem canonInnerLoop_spec (P : Version → Prop) :
    ∀ (rest : List (Span × Bool)) (this : Span), SpanOK s this → this.rank ≠ .empty → AllB P this →
      RestOK s P this rest →
      ∃ this' rest', canonInnerLoop this rest = .ok (this', rest') ∧
        SpanOK s this' ∧ this'.rank ≠ .empty ∧ this'.min = this.min ∧ this'.minOpen = this.minOpen ∧
        AllB P this' ∧ rest'.map (·.1) = rest.map (·.1) ∧
        ∀ v, SeamFree s P v → (has s this' v || live s rest' v) = (has s this v || live s rest v) := by
  intro rest
  induction rest with
  | nil =>
    intro this ht htne hPt _
    exact ⟨this, [], rfl, ht, htne, rfl, rfl, hPt, rfl, fun _ _ => rfl⟩
  | cons p rest ih =>
    intro this ht htne hPt hrest
    obtain ⟨next, m⟩ := p
    cases m with
    | true =>
      obtain ⟨t', r', e, h1, h2, h3, h4, h5, h6, h7⟩ := ih this ht htne hPt hrest.tail
      refine ⟨t', (next, true) :: r', ?_, h1, h2, h3, h4, h5, by simp [h6], ?_⟩
      · rw [canonInnerLoop, e]; rfl
      · intro v hv
        simpa using h7 v hv
    | false =>
      obtain ⟨hn, hnne, hle, hPn⟩ := hrest (next, false) List.mem_cons_self
      obtain ⟨this1, ctl, e1, hstep⟩ := canonInner_spec P ht htne hn hnne hle hPt hPn
      rw [canonInnerLoop, e1]
      cases ctl with
      | brk =>
        have : this1 = this := hstep
        subst this
        exact ⟨this1, (next, false) :: rest, rfl, ht, htne, rfl, rfl, hPt, rfl, fun _ _ => rfl⟩
      | cont =>
        have : this1 = this := hstep
        subst this
        obtain ⟨t', r', e, h1, h2, h3, h4, h5, h6, h7⟩ := ih this1 ht htne hPt hrest.tail
        refine ⟨t', (next, false) :: r', ?_, h1, h2, h3, h4, h5, by simp [h6], ?_⟩
        · simp only [ok_bind, e]
        · intro v hv
          have := h7 v hv
          simp only [live_cons, Bool.not_false, Bool.true_and]
          rw [Bool.or_left_comm, this, Bool.or_left_comm]
      | merge =>
        obtain ⟨s1, s2, s3, s4, s5, s6⟩ := hstep
        obtain ⟨t', r', e, h1, h2, h3, h4, h5, h6, h7⟩ := ih this1 s1 s2 s5 (hrest.tail.congr s3 s4)
        refine ⟨t', (next, true) :: r', ?_, h1, h2, h3.trans s3, h4.trans s4, h5, by simp [h6], ?_⟩
        · simp only [ok_bind, e]
        · intro v hv
          have := h7 v hv
          simp only [live_cons, Bool.not_true, Bool.false_and, Bool.false_or, Bool.not_false, Bool.true_and]
          rw [this, s6 v hv, Bool.or_assoc]

/-! ### the outer loop -/

theorem sle_nonempty {x y : Span} (hx : SpanOK s x) (hxne : x.rank ≠ .empty) (hy : SpanOK s y)
    (h : sle s x y) : y.rank ≠ .empty ∧ MinLE s x y := by
  obtain ⟨a, b, h1, -⟩ := hx.bounds hxne
  have hm := minLE_of_sle h1 h
  refine ⟨?_, hm⟩
  obtain ⟨_, c, _, hc, _⟩ := hm
  intro he
  unfold SpanOK at hy
  rw [he] at hy
  rw [hy.1] at hc
  cases hc

theorem MinLE.le {x y : Span} {a c : Version} (h : MinLE s x y) (hx : x.min = some a) (hy : y.min = some c) :
    pt s a ≤ pt s c := by
  obtain ⟨a', c', e1, e2, h⟩ := h
  rw [hx] at e1; cases e1
  rw [hy] at e2; cases e2
  grind

theorem canonOuter_spec (P : Version → Prop) :
    ∀ (fuel : Nat) (L : List (Span × Bool)), L.length ≤ fuel →
      (∀ x ∈ L.map (·.1), SpanOK s x ∧ AllB P x) → Sorted s (L.map (·.1)) →
      ∃ out allEmpty, canonOuter L fuel = .ok (out, allEmpty) ∧
        (∀ x ∈ out, SpanOK s x ∧ x.rank ≠ .empty ∧ AllB P x ∧ ∃ y ∈ L.map (·.1), y.rank ≠ .empty ∧ x.min = y.min) ∧
        MinSorted s out ∧
        (∀ v, SeamFree s P v → anyHas s out v = live s L v) ∧
        (allEmpty = true → out = [] ∧ ∀ p ∈ L, p.2 = true ∨ p.1.rank = .empty) ∧
        (allEmpty = false → out ≠ []) := by
  intro fuel
  induction fuel with
  | zero =>
    intro L hlen _ _
    have : L = [] := List.eq_nil_of_length_eq_zero (by omega)
    subst this
    exact ⟨[], true, rfl, by simp, by simp [MinSorted], by simp, by simp, by simp⟩
  | succ fuel ih =>
    intro L hlen hok hsorted
    cases L with
    | nil => exact ⟨[], true, rfl, by simp, by simp [MinSorted], by simp, by simp, by simp⟩
    | cons p rest =>
      obtain ⟨this, m⟩ := p
      have hlen' : rest.length ≤ fuel := by simp at hlen; omega
      have hok' : ∀ x ∈ rest.map (·.1), SpanOK s x ∧ AllB P x := fun x hx => hok x (by simp at hx ⊢; exact Or.inr hx)
      have hsorted' : Sorted s (rest.map (·.1)) := by
        simp only [List.map_cons, Sorted, List.pairwise_cons] at hsorted
        exact hsorted.2
      -- skipping the head
      have skip : (m = true ∨ this.rank = .empty) →
          ∃ out allEmpty, canonOuter rest fuel = .ok (out, allEmpty) ∧
            (∀ x ∈ out, SpanOK s x ∧ x.rank ≠ .empty ∧ AllB P x ∧
              ∃ y ∈ ((this, m) :: rest).map (·.1), y.rank ≠ .empty ∧ x.min = y.min) ∧
            MinSorted s out ∧
            (∀ v, SeamFree s P v → anyHas s out v = live s ((this, m) :: rest) v) ∧
            (allEmpty = true → out = [] ∧ ∀ p ∈ (this, m) :: rest, p.2 = true ∨ p.1.rank = .empty) ∧
            (allEmpty = false → out ≠ []) := by
        intro hskip
        obtain ⟨out, ae, e, h1, h2, h3, h4, h4'⟩ := ih rest hlen' hok' hsorted'
        refine ⟨out, ae, e, ?_, h2, ?_, ?_, h4'⟩
        · intro x hx
          obtain ⟨q1, q2, q3, y, hy, q4⟩ := h1 x hx
          exact ⟨q1, q2, q3, y, by simp at hy ⊢; exact Or.inr hy, q4⟩
        · intro v hv
          rw [h3 v hv, live_cons]
          rcases hskip with h | h
          · simp [h]
          · simp [has_empty h]
        · intro hae
          obtain ⟨q1, q2⟩ := h4 hae
          refine ⟨q1, ?_⟩
          intro p hp
          rcases List.mem_cons.mp hp with rfl | hp
          · exact hskip
          · exact q2 p hp
      rw [canonOuter]
      by_cases hm : m = true
      · simp only [hm, ↓reduceIte]
        subst hm
        exact skip (Or.inl rfl)
      · have hm' : m = false := by simpa using hm
        subst hm'
        simp only [Bool.false_eq_true, ↓reduceIte]
        by_cases hte : this.rank = .empty
        · have hte' : (this.rank == Rank.empty) = true := by simp [hte]
          simp only [hte', ↓reduceIte]
          exact skip (Or.inr hte)
        · have hte' : (this.rank == Rank.empty) = false := by simpa using hte
          simp only [hte', Bool.false_eq_true, ↓reduceIte]
          obtain ⟨htok, htP⟩ := hok this (by simp)
          have hrest : RestOK s P this rest := by
            intro q hq
            have hq' : q.1 ∈ rest.map (·.1) := List.mem_map_of_mem hq
            obtain ⟨qok, qP⟩ := hok' q.1 hq'
            simp only [List.map_cons, Sorted, List.pairwise_cons] at hsorted
            obtain ⟨qne, qle⟩ := sle_nonempty htok hte qok (hsorted.1 q.1 hq')
            exact ⟨qok, qne, qle, qP⟩
          obtain ⟨t', r', e, h1, h2, h3, h4, h5, h6, h7⟩ := canonInnerLoop_spec P rest this htok hte htP hrest
          have hlen'' : r'.length ≤ fuel := by
            have := congrArg List.length h6
            simp at this; omega
          obtain ⟨out, ae, e', g1, g2, g3, -, -⟩ := ih r' hlen'' (by rw [h6]; exact hok') (by rw [h6]; exact hsorted')
          refine ⟨t' :: out, false, by simp only [e, ok_bind, e'], ?_, ?_, ?_, by simp, by simp⟩
          · intro x hx
            rcases List.mem_cons.mp hx with rfl | hx
            · exact ⟨h1, h2, h5, this, by simp, hte, h3⟩
            · obtain ⟨q1, q2, q3, y, hy, q4⟩ := g1 x hx
              rw [h6] at hy
              exact ⟨q1, q2, q3, y, by simp at hy ⊢; exact Or.inr hy, q4⟩
          · unfold MinSorted
            rw [List.pairwise_cons]
            refine ⟨?_, g2⟩
            intro x hx a c _ _ ea ec
            obtain ⟨_, _, _, y, hy, hyne, q4⟩ := g1 x hx
            rw [h6] at hy
            simp only [List.map_cons, Sorted, List.pairwise_cons] at hsorted
            obtain ⟨yok, _⟩ := hok' y hy
            obtain ⟨_, yle⟩ := sle_nonempty htok hte yok (hsorted.1 y hy)
            exact yle.le (h3 ▸ ea) (q4 ▸ ec)
          · intro v hv
            rw [anyHas_cons, g3 v hv, h7 v hv, live_cons]
            simp

/-! ### `canon` (T6) -/

theorem live_init (l : List Span) (v : Version) : live s (l.map (fun x => (x, false))) v = anyHas s l v := by
  induction l with
  | nil => rfl
  | cons x l ih => simp [ih]

theorem anyHas_congr {l l' : List Span} (h : ∀ y, y ∈ l ↔ y ∈ l') (v : Version) : anyHas s l v = anyHas s l' v := by
  apply bool_eq_of_iff
  rw [anyHas_iff, anyHas_iff]
  constructor
  · rintro ⟨x, hx, hv⟩; exact ⟨x, (h x).mp hx, hv⟩
  · rintro ⟨x, hx, hv⟩; exact ⟨x, (h x).mpr hx, hv⟩

theorem sysOfSpans_eq (l : List Span) (hok : ∀ x ∈ l, SpanOK s x) : sysOfSpans l = s ∨ sysOfSpans l = .default := by
  unfold sysOfSpans
  cases h : l.findSome? (fun sp => sp.min) with
  | none => exact Or.inr rfl
  | some v =>
    left
    obtain ⟨x, hx, hv⟩ := List.exists_of_findSome?_eq_some h
    have := (hok x hx).optVG.1
    rw [hv] at this
    exact this.1

theorem minSorted_of_length_le_one (l : List Span) (h : l.length ≤ 1) : MinSorted s l := by
  cases l with
  | nil => exact List.Pairwise.nil
  | cons x l =>
    cases l with
    | nil => exact List.pairwise_singleton _ _
    | cons y l => simp at h

/-- **Soundness of `canon`** (T6): on well-formed spans of a non-Maven generic system it
succeeds; the result is well-formed, non-empty if the input is, sorted by `min`, every
bound of it is a bound of the input, and it denotes the union of the input spans for every
candidate outside successor seams. -/
theorem canonSpans_spec (P : Version → Prop) (hs : s ≠ .maven) (l : List Span)
    (hok : ∀ x ∈ l, SpanOK s x ∧ AllB P x) :
    ∃ r, canonSpans l = .ok r ∧ (∀ x ∈ r, SpanOK s x ∧ AllB P x) ∧ (l ≠ [] → r ≠ []) ∧
      MinSorted s r ∧
      ∀ v, (l.length ≤ 1 ∨ SeamFree s P v) → anyHas s r v = anyHas s l v := by
  unfold canonSpans
  by_cases h1 : l.length ≤ 1
  · refine ⟨l, by simp only [h1, ↓reduceIte], hok, id, ?_, fun _ _ => rfl⟩
    exact minSorted_of_length_le_one l h1
  simp only [h1, ↓reduceIte]
  have hmv : (sysOfSpans l == System.maven) = false := by
    rcases sysOfSpans_eq l (fun x hx => (hok x hx).1) with h | h
    · rw [h]; simpa using hs
    · rw [h]; rfl
  simp only [hmv, Bool.false_eq_true, ↓reduceIte]
  obtain ⟨sorted, e1, hsorted, hmem⟩ := sort_spec l (fun x hx => (hok x hx).1)
  simp only [e1, ok_bind, canonMerge]
  have hok' : ∀ x ∈ (sorted.map (fun x => (x, false))).map (·.1), SpanOK s x ∧ AllB P x := by
    intro x hx
    simp only [List.map_map, Function.comp_def, List.map_id'] at hx
    exact hok x ((hmem x).mp hx)
  obtain ⟨out, ae, e2, g1, g2, g3, g4, g5⟩ := canonOuter_spec P (sorted.length + 1)
    (sorted.map (fun x => (x, false))) (by simp) hok'
    (by simpa only [List.map_map, Function.comp_def, List.map_id'] using hsorted)
  simp only [e2, ok_bind]
  have hsne : sorted ≠ [] := by
    intro h
    cases l with
    | nil => simp at h1
    | cons x _ =>
      have := (hmem x).mpr List.mem_cons_self
      rw [h] at this
      cases this
  cases ae with
  | true =>
    obtain ⟨-, hall⟩ := g4 rfl
    simp only [↓reduceIte]
    refine ⟨sorted.take 1, rfl, ?_, ?_, ?_, ?_⟩
    · intro x hx
      exact hok x ((hmem x).mp (List.mem_of_mem_take hx))
    · intro _
      cases sorted with
      | nil => exact absurd rfl hsne
      | cons _ _ => simp
    · cases sorted with
      | nil => simp [MinSorted]
      | cons _ _ => simp [MinSorted]
    · intro v _
      have hempty : ∀ x ∈ sorted, x.rank = .empty := by
        intro x hx
        rcases hall (x, false) (List.mem_map_of_mem hx) with h | h
        · cases h
        · exact h
      have z1 : anyHas s (sorted.take 1) v = false := by
        rw [← Bool.not_eq_true, anyHas_iff]
        rintro ⟨x, hx, hv⟩
        rw [has_empty (hempty x (List.mem_of_mem_take hx))] at hv
        cases hv
      have z2 : anyHas s l v = false := by
        rw [← Bool.not_eq_true, anyHas_iff]
        rintro ⟨x, hx, hv⟩
        rw [has_empty (hempty x ((hmem x).mpr hx))] at hv
        cases hv
      rw [z1, z2]
  | false =>
    simp only [Bool.false_eq_true, ↓reduceIte]
    refine ⟨out, rfl, ?_, fun _ => g5 rfl, g2, ?_⟩
    · intro x hx
      obtain ⟨q1, -, q3, -⟩ := g1 x hx
      exact ⟨q1, q3⟩
    · intro v hv
      rcases hv with hv | hv
      · exact hv.elim
      rw [g3 v hv, live_init, anyHas_congr hmem]

end DepsDev.Proofs.C09
