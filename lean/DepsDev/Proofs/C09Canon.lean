import DepsDev.Proofs.C09Sort

/-!
# C09 — `canon`: one merge step, the inner and outer loops, and the union law (T6)

A merge step of `canon` replaces `this` by a span that denotes `this ∪ next`
(`canonInner_spec`). Containment and overlap merges are purely order-theoretic. The
successor-abutment merge (`this.max < next.min`, both ends closed, no prerelease on
`this.max`, `inc(fill(this.max,0)) ≥ next.min`) is sound only for candidates that do
not lie strictly between `this.max` and `next.min`: that is the hypothesis
`SeamFree` of the law, and it is exactly what fails for the S-succ witnesses.
-/
namespace DepsDev.Proofs.C09

open Std DepsDev DepsDev.Semver DepsDev.Proofs

variable {s : System}

/-- `(a, b)` is a successor seam: two release bounds with `a < b ≤ inc(fill(a, 0))`. -/
def Seam (s : System) (a b : Version) : Prop :=
  a.pre = [] ∧ b.pre = [] ∧ pt s a < pt s b ∧ ∃ m, (a.fill 0).inc = .ok m ∧ ¬ pt s m < pt s b

/-- `v` does not lie strictly inside a successor seam between two bounds satisfying `P`. -/
def SeamFree (s : System) (P : Version → Prop) (v : Version) : Prop :=
  ∀ a b, P a → P b → Seam s a b → ¬ (pt s a < pt s v ∧ pt s v < pt s b)

/-- `x`'s lower end is not above `y`'s (what the sort guarantees for `this` and every later `next`). -/
def MinLE (s : System) (x y : Span) : Prop :=
  ∃ a c, x.min = some a ∧ y.min = some c ∧
    (pt s a < pt s c ∨ ((pt s a ≤ pt s c ∧ pt s c ≤ pt s a) ∧ (x.minOpen = true → y.minOpen = true)))

theorem minLE_of_sle {x y : Span} {a : Version} (hx : x.min = some a) (h : sle s x y) : MinLE s x y := by
  unfold sle spanOrd compareLex at h
  simp only [] at h
  rw [hx] at h
  cases hy : y.min with
  | none => rw [hy] at h; simp [optOrd] at h
  | some c =>
    rw [hy] at h
    refine ⟨a, c, hx, hy, ?_⟩
    simp only [optOrd] at h
    have e := ord_eq_iff (s := s) a c
    have l := Pt.lt_def (pt s a) (pt s c)
    simp only [pt] at e l
    cases hg : genericOrd s a c with
    | lt => exact Or.inl (l.mpr hg)
    | gt => rw [hg] at h; simp at h
    | eq =>
      rw [hg] at h
      refine Or.inr ⟨e.mp hg, ?_⟩
      intro hxo
      cases hyo : y.minOpen with
      | true => rfl
      | false =>
        have hgt : minOpenOrd true false = .gt := by decide
        rw [hxo, hyo, hgt] at h
        simp [Ordering.then] at h

theorem MinLE.congr_left {x x' y : Span} (h : MinLE s x y) (h1 : x'.min = x.min) (h2 : x'.minOpen = x.minOpen) :
    MinLE s x' y := by
  obtain ⟨a, c, e1, e2, e3⟩ := h
  exact ⟨a, c, by rw [h1, e1], e2, by rw [h2]; exact e3⟩

/-! ### `inc` after `fill` succeeds -/

theorem fill_length (v : Version) (x : Value) : 3 ≤ (v.fill x).num.length := by
  unfold Version.fill
  split
  · simp; omega
  · omega

theorem setNum_VG {v : Version} (h : VG s v) (i : Nat) (x : Value) : VG s (v.setNum i x) := h

theorem incN_ok {v : Version} (h : VG s v) {n : Nat} (hn : n < v.num.length) :
    ∃ m, v.incN n = .ok m ∧ VG s m := by
  unfold Version.incN
  rw [List.getElem?_eq_getElem hn]
  exact ⟨_, rfl, setNum_VG h _ _⟩

/-- `inc` cannot fail on a release bound with at least three numbers. -/
theorem inc_ok {v : Version} (h : VG s v) (hpre : v.pre = []) (hlen : 3 ≤ v.num.length) :
    ∃ m, v.inc = .ok m ∧ VG s m := by
  unfold Version.inc
  simp only [hpre, List.isEmpty_nil, Bool.not_true, Bool.false_eq_true, ↓reduceIte]
  split
  · omega
  · omega
  · omega
  · rename_i n _ _ _
    split
    · exact incN_ok h (by omega)
    · exact ⟨v, rfl, h⟩
    · rename_i w _ hw
      have hwl : w < v.num.length := by
        have := List.findIdx?_eq_some_iff_getElem.mp hw
        exact this.1
      obtain ⟨m, e, hm⟩ := incN_ok h (n := w - 1) (by omega)
      rw [e]
      exact ⟨_, rfl, hm⟩

theorem fill_VG {v : Version} (h : VG s v) (x : Value) : VG s (v.fill x) := by
  unfold Version.fill
  split
  · exact h
  · exact h

theorem fill_pre (v : Version) (x : Value) : (v.fill x).pre = v.pre := by
  unfold Version.fill
  split <;> rfl

theorem inc_fill_ok {v : Version} (h : VG s v) (hpre : v.pre = []) :
    ∃ m, (v.fill 0).inc = .ok m ∧ VG s m :=
  inc_ok (fill_VG h 0) (by rw [fill_pre, hpre]) (fill_length v 0)

theorem comparePre_nil_right {sys : System} {p : List Bytes} (h : (comparePre sys p [] == 0) = true) : p = [] := by
  cases p with
  | nil => rfl
  | cons x xs => simp [comparePre] at h

theorem comparePre_nil_left {sys : System} {q : List Bytes} (h : (comparePre sys [] q == 0) = true) : q = [] := by
  cases q with
  | nil => rfl
  | cons x xs => simp [comparePre] at h

end DepsDev.Proofs.C09
