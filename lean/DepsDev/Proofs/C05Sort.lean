/-!
# C05: a sort with a comparator that is total on distinct elements has ONE possible result

Go's `sort.Slice` / `sort.Sort` are unstable (pdqsort); all the code guarantees about the
result is: it is a permutation of the input in which no later element is `less` than an
earlier one. `sorted_perm_unique` shows that when `less` orders every two *distinct* elements
of the list (one way or the other) there is exactly one such list, so the result does not
depend on the order of the input nor on the algorithm. An insertion sort is given as an
instance showing that the specification `SortSpec` is satisfiable for strict total orders.
Core Lean only.
-/

namespace DepsDev.Resolve.Purity

open List

/-- What `sort.Slice(xs, less)` leaves behind: no later element is less than an earlier one. -/
abbrev Sorted {α : Type} (lt : α → α → Bool) (l : List α) : Prop :=
  l.Pairwise (fun a b => lt b a = false)

/-- `lt` decides every two distinct elements of `l`. -/
def TotalOn {α : Type} (lt : α → α → Bool) (l : List α) : Prop :=
  ∀ a, a ∈ l → ∀ b, b ∈ l → a ≠ b → lt a b = true ∨ lt b a = true

theorem TotalOn.tail {α : Type} {lt : α → α → Bool} {a : α} {l : List α}
    (h : TotalOn lt (a :: l)) : TotalOn lt l :=
  fun x hx y hy => h x (mem_cons_of_mem _ hx) y (mem_cons_of_mem _ hy)

theorem TotalOn.perm {α : Type} {lt : α → α → Bool} {l l' : List α}
    (h : TotalOn lt l) (p : l.Perm l') : TotalOn lt l' :=
  fun x hx y hy => h x (p.mem_iff.mpr hx) y (p.mem_iff.mpr hy)

/-- **Uniqueness of the sorted permutation.** Two sorted permutations of the same list are
equal as soon as `lt` decides every two distinct elements. (No transitivity is needed.) -/
theorem sorted_perm_unique {α : Type} (lt : α → α → Bool) :
    ∀ (l₁ l₂ : List α), TotalOn lt l₁ → l₁.Perm l₂ → Sorted lt l₁ → Sorted lt l₂ → l₁ = l₂
  | [], l₂, _, p, _, _ => by
      have := p.symm.eq_nil; exact this.symm
  | a :: t₁, [], _, p, _, _ => by
      have := p.eq_nil; cases this
  | a :: t₁, b :: t₂, htot, p, s₁, s₂ => by
      have hab : a = b := by
        by_cases hab : a = b
        · exact hab
        · exfalso
          have ha2 : a ∈ b :: t₂ := p.mem_iff.mp (mem_cons_self)
          have hb1 : b ∈ a :: t₁ := p.mem_iff.mpr (mem_cons_self)
          have ha2' : a ∈ t₂ := by
            rcases mem_cons.mp ha2 with h | h
            · exact absurd h hab
            · exact h
          have hb1' : b ∈ t₁ := by
            rcases mem_cons.mp hb1 with h | h
            · exact absurd h.symm hab
            · exact h
          -- b stands before a in l₂, a stands before b in l₁
          have h1 : lt a b = false := (pairwise_cons.mp s₂).1 a ha2'
          have h2 : lt b a = false := (pairwise_cons.mp s₁).1 b hb1'
          rcases htot a mem_cons_self b hb1 hab with h | h
          · rw [h1] at h; cases h
          · rw [h2] at h; cases h
      subst hab
      have pt : t₁.Perm t₂ := (perm_cons a).mp p
      have := sorted_perm_unique lt t₁ t₂ htot.tail pt (pairwise_cons.mp s₁).2 (pairwise_cons.mp s₂).2
      rw [this]

/-- The contract of a sorting routine for `lt` on the lists in `dom`. -/
structure SortSpec {α : Type} (lt : α → α → Bool) (dom : List α → Prop) (sort : List α → List α) : Prop where
  perm : ∀ l, (sort l).Perm l
  sorted : ∀ l, dom l → Sorted lt (sort l)

/-- **Any** routine meeting `SortSpec` returns the same list for every permutation of its
input, provided `lt` decides distinct elements. -/
theorem sort_perm_invariant {α : Type} {lt : α → α → Bool} {dom : List α → Prop} {sort : List α → List α}
    (hs : SortSpec lt dom sort) {l l' : List α} (p : l.Perm l') (hd : dom l) (hd' : dom l')
    (htot : TotalOn lt l) : sort l = sort l' :=
  sorted_perm_unique lt _ _ (htot.perm (hs.perm l).symm)
    ((hs.perm l).trans (p.trans (hs.perm l').symm)) (hs.sorted l hd) (hs.sorted l' hd')

/-- Two routines meeting the contract agree (so modelling pdqsort by insertion sort loses nothing). -/
theorem sort_unique {α : Type} {lt : α → α → Bool} {dom : List α → Prop} {s₁ s₂ : List α → List α}
    (h₁ : SortSpec lt dom s₁) (h₂ : SortSpec lt dom s₂) {l : List α} (hd : dom l) (htot : TotalOn lt l) :
    s₁ l = s₂ l :=
  sorted_perm_unique lt _ _ (htot.perm (h₁.perm l).symm)
    ((h₁.perm l).trans (h₂.perm l).symm) (h₁.sorted l hd) (h₂.sorted l hd)

/-! ## Insertion sort: the contract is satisfiable -/

/-- Insert `a` before the first element that is greater than it. -/
def insertSorted {α : Type} (lt : α → α → Bool) (a : α) : List α → List α
  | [] => [a]
  | b :: l => if lt a b then a :: b :: l else b :: insertSorted lt a l

def insertionSort {α : Type} (lt : α → α → Bool) : List α → List α
  | [] => []
  | a :: l => insertSorted lt a (insertionSort lt l)

theorem insertSorted_perm {α : Type} (lt : α → α → Bool) (a : α) :
    ∀ l, (insertSorted lt a l).Perm (a :: l)
  | [] => Perm.refl _
  | b :: l => by
      unfold insertSorted
      split
      · exact Perm.refl _
      · exact ((insertSorted_perm lt a l).cons b).trans (Perm.swap a b l)

theorem insertionSort_perm {α : Type} (lt : α → α → Bool) : ∀ l, (insertionSort lt l).Perm l
  | [] => Perm.refl _
  | a :: l => (insertSorted_perm lt a _).trans ((insertionSort_perm lt l).cons a)

/-- The order properties insertion sort needs, relative to the elements of one list. -/
structure StrictOrderOn {α : Type} (lt : α → α → Bool) (l : List α) : Prop where
  asymm : ∀ a, a ∈ l → ∀ b, b ∈ l → lt a b = true → lt b a = false
  /-- "not greater" is transitive (a strict weak order; implied by a strict total order) -/
  nlt_trans : ∀ a, a ∈ l → ∀ b, b ∈ l → ∀ c, c ∈ l → lt b a = false → lt c b = false → lt c a = false

theorem StrictOrderOn.mono {α : Type} {lt : α → α → Bool} {l l' : List α}
    (h : StrictOrderOn lt l) (sub : ∀ x, x ∈ l' → x ∈ l) : StrictOrderOn lt l' where
  asymm := fun a ha b hb => h.asymm a (sub a ha) b (sub b hb)
  nlt_trans := fun a ha b hb c hc => h.nlt_trans a (sub a ha) b (sub b hb) c (sub c hc)

theorem insertSorted_sorted {α : Type} (lt : α → α → Bool) (a : α) :
    ∀ l, StrictOrderOn lt (a :: l) → Sorted lt l → Sorted lt (insertSorted lt a l)
  | [], _, _ => by simp [insertSorted, Sorted]
  | b :: l, ho, hs => by
      unfold insertSorted
      have hb : b ∈ a :: b :: l := by simp
      have ha : a ∈ a :: b :: l := by simp
      split
      · rename_i hab
        -- a < b: a is not greater than anything in b :: l
        refine pairwise_cons.mpr ⟨?_, hs⟩
        intro x hx
        rcases mem_cons.mp hx with rfl | hx'
        · exact ho.asymm a ha x hb hab
        · have hxm : x ∈ a :: b :: l := by simp [hx']
          have hbx : lt x b = false := (pairwise_cons.mp hs).1 x hx'
          exact ho.nlt_trans a ha b hb x hxm (ho.asymm a ha b hb hab) hbx
      · rename_i hab
        have hab' : lt a b = false := by simpa using hab
        have hs' := pairwise_cons.mp hs
        have ih := insertSorted_sorted lt a l
          (ho.mono (by intro x hx; rcases mem_cons.mp hx with rfl | h <;> simp [*])) hs'.2
        refine pairwise_cons.mpr ⟨?_, ih⟩
        intro x hx
        have hx2 : x ∈ a :: l := (insertSorted_perm lt a l).mem_iff.mp hx
        rcases mem_cons.mp hx2 with rfl | hx'
        · exact hab'
        · exact hs'.1 x hx'

theorem insertionSort_sorted {α : Type} (lt : α → α → Bool) :
    ∀ l, StrictOrderOn lt l → Sorted lt (insertionSort lt l)
  | [], _ => by simp [insertionSort, Sorted]
  | a :: l, ho => by
      unfold insertionSort
      have ih := insertionSort_sorted lt l (ho.mono (fun x hx => mem_cons_of_mem _ hx))
      refine insertSorted_sorted lt a _ (ho.mono ?_) ih
      intro x hx
      rcases mem_cons.mp hx with rfl | h
      · exact mem_cons_self
      · exact mem_cons_of_mem _ ((insertionSort_perm lt l).mem_iff.mp h)

/-- Insertion sort meets the contract on every list on which `lt` is a strict (weak) order. -/
theorem insertionSort_spec {α : Type} (lt : α → α → Bool) :
    SortSpec lt (StrictOrderOn lt) (insertionSort lt) where
  perm := insertionSort_perm lt
  sorted := insertionSort_sorted lt

end DepsDev.Resolve.Purity
