import DepsDev.Proofs.C10Gem

/-!
# C10 — PEP 440 (PyPI), part 1: the pieces of `pep440Extension.init` on canonical text

`pepNumber`, the optional parts (`parsePre`, `parsePost`, `parseDev`, `parseLocal`) present and
absent, the release-number loop `pepNums`, `strings.TrimSpace` and the rune check on printable
ASCII, the epoch search. `PepAst`: the AST of what `pep440Extension.canon` prints.
-/
namespace DepsDev.Proofs.C10
open DepsDev DepsDev.Semver Digits

/-! ## PEP 440: scanning numbers -/

/-- What may follow a number in PEP 440 canonical text: the end or an ASCII non-digit. -/
def NonNum (ys : Bytes) : Prop := ys = [] ∨ ∃ c r, ys = c :: r ∧ c < 0x80 ∧ isDigitB c = false

theorem versionNext_digit (c : UInt8) (r : Bytes) (h : isDigitB c = true) :
    versionNext (c :: r) = (Gen.SemverTables.versionNumeric, 1) := by
  unfold versionNext
  have hc : c < 0x80 := digit_lt c h
  simp only [decodeRune_ascii c r hc]
  have : ¬ (c.toNat == 0x221E) = true := by
    have := c.toNat_lt
    simp; omega
  simp [this, h]

theorem versionNext_nonNum (ys : Bytes) (h : NonNum ys) : ((versionNext ys).1 == Gen.SemverTables.versionNumeric) = false := by
  rcases h with rfl | ⟨c, r, rfl, hc, hd⟩
  · decide
  · unfold versionNext
    simp only [decodeRune_ascii c r hc]
    have : ¬ (c.toNat == 0x221E) = true := by
      have := c.toNat_lt
      simp; omega
    simp only [this, Bool.false_eq_true, ↓reduceIte, hd]
    repeat' split
    all_goals decide

theorem numericPrefixLen_go (ds ys : Bytes) (hd : ∀ c ∈ ds, isDigitB c = true) (hy : NonNum ys) :
    ∀ fuel, ds.length < fuel → numericPrefixLen.go (ds ++ ys) fuel = ds.length := by
  induction ds with
  | nil =>
    intro fuel hf
    obtain ⟨k, rfl⟩ : ∃ k, fuel = k + 1 := ⟨fuel - 1, by simp at hf; omega⟩
    simp only [List.nil_append, numericPrefixLen.go, versionNext_nonNum ys hy, Bool.false_eq_true, ↓reduceIte,
      List.length_nil]
  | cons c r ih =>
    intro fuel hf
    obtain ⟨k, rfl⟩ : ∃ k, fuel = k + 1 := ⟨fuel - 1, by simp at hf; omega⟩
    simp only [List.cons_append, numericPrefixLen.go, versionNext_digit c _ (hd c (by simp)), beq_self_eq_true,
      ↓reduceIte, List.drop_one, List.tail_cons, List.length_cons]
    rw [ih (fun x hx => hd x (by simp [hx])) k (by simpa using hf)]
    omega

theorem numericPrefixLen_digits (ds ys : Bytes) (hd : ∀ c ∈ ds, isDigitB c = true) (hy : NonNum ys) :
    numericPrefixLen (ds ++ ys) = ds.length := by
  unfold numericPrefixLen
  exact numericPrefixLen_go ds ys hd hy _ (by simp; omega)


theorem allowSeparator_digit (c : UInt8) (r : Bytes) (h : isDigitB c = true) : allowSeparator (c :: r) = c :: r := by
  have := (isDigitB_iff c).mp h
  have h1 : (c == 46) = false := by rw [beq_eq_false_iff_ne]; intro e; subst e; simp at this
  have h2 : (c == 45) = false := by rw [beq_eq_false_iff_ne]; intro e; subst e; simp at this
  have h3 : (c == 95) = false := by rw [beq_eq_false_iff_ne]; intro e; subst e; simp at this
  simp [allowSeparator, h1, h2, h3]

/-- `pep440Extension.number` on a printed number below 2^63. -/
theorem pepNumber_nat (n : Nat) (ys : Bytes) (hn : n < 2 ^ 63) (hy : NonNum ys) :
    pepNumber (natToBytes n ++ ys) = ((n : Int), ys) := by
  obtain ⟨d, ds, hd, hdd⟩ := natToBytes_cons n
  have hall : ∀ c ∈ natToBytes n, isDigitB c = true := fun c hc => List.all_eq_true.mp (natToBytes_all_digit n) c hc
  unfold pepNumber
  have h1 : allowSeparator (natToBytes n ++ ys) = natToBytes n ++ ys := by
    rw [hd]; exact allowSeparator_digit d _ hdd
  simp only [h1, numericPrefixLen_digits _ ys hall hy]
  have hpos : 0 < (natToBytes n).length := List.length_pos_iff.mpr (natToBytes_ne_nil n)
  have h0 : ((natToBytes n).length == 0) = false := by rw [beq_eq_false_iff_ne]; omega
  simp only [h0, Bool.false_eq_true, ↓reduceIte, List.take_left', List.drop_left']
  have hne : (natToBytes n).isEmpty = false := by
    cases h : natToBytes n with
    | nil => exact absurd h (natToBytes_ne_nil n)
    | cons _ _ => rfl
  have htw : ∀ l : Bytes, (∀ c ∈ l, isDigitB c = true) → l.takeWhile isDigitB = l := by
    intro l
    induction l with
    | nil => intro _; rfl
    | cons a t ih =>
      intro h
      have ha : isDigitB a = true := h a (List.mem_cons_self ..)
      simp only [List.takeWhile_cons, ha, ↓reduceIte]
      rw [ih (fun c hc => h c (List.mem_cons_of_mem _ hc))]
  have htw := htw (natToBytes n) hall
  have hp : parseUint63Lossy (natToBytes n) = n := by
    unfold parseUint63Lossy
    simp only [htw, hne, digitsVal_natToBytes, Nat.lt_irrefl, Bool.or_self, Bool.false_eq_true, ↓reduceIte,
      decide_false]
    have : ¬ n > 2 ^ 63 - 1 := by omega
    simp [this]
  rw [hp]
  simp [wrapInt64, hn]


/-! ## PEP 440: the AST of canonical text -/

/-- The canonical prerelease kinds. -/
inductive PreKind where
  | a | b | rc
  deriving Repr, DecidableEq

def PreKind.bytes : PreKind → Bytes
  | .a => [97]
  | .b => [98]
  | .rc => [114, 99]

/-- What `pep440Extension.canon` prints: `[E!]N.N.N[{a|b|rc}N][.postN][.devN][+local]`. -/
structure PepAst where
  epoch : Nat := 0
  nums : List Int
  pre : Option (PreKind × Nat) := none
  post : Option Nat := none
  dev : Option Nat := none
  loc : Bytes := []
  deriving Repr, DecidableEq

namespace PepAst

def locPart (a : PepAst) : Bytes := if a.loc.isEmpty then [] else 43 :: a.loc
def devPart (a : PepAst) : Bytes := match a.dev with | some n => [46, 100, 101, 118] ++ natToBytes n | none => []
def postPart (a : PepAst) : Bytes := match a.post with | some n => [46, 112, 111, 115, 116] ++ natToBytes n | none => []
def prePart (a : PepAst) : Bytes := match a.pre with | some (k, n) => k.bytes ++ natToBytes n | none => []
def epochPart (a : PepAst) : Bytes := if a.epoch ≠ 0 then natToBytes a.epoch ++ [33] else []

/-- The canonical text. -/
def render (a : PepAst) : Bytes :=
  a.epochPart ++ (renderNums a.nums ++ (a.prePart ++ (a.postPart ++ (a.devPart ++ a.locPart))))

/-- Local version labels as `parseLocal` stores them: alphanumerics and `.`, alphanumeric ends. -/
def LocOk (l : Bytes) : Prop :=
  l = [] ∨ (l.all (fun c => c == 46 || isAlnumB c) = true ∧ isAlnumB (l.headD 0) = true ∧ isAlnumB (l.getLastD 0) = true)

structure Valid (a : PepAst) : Prop where
  epoch : a.epoch ≤ 255
  len : 3 ≤ a.nums.length
  num : ∀ x ∈ a.nums, NumOk false x
  pre : ∀ k n, a.pre = some (k, n) → n < 2 ^ 63
  post : ∀ n, a.post = some n → n < 2 ^ 63
  dev : ∀ n, a.dev = some n → n < 2 ^ 63
  loc : LocOk a.loc

/-- The `pep440` details of the version the text denotes (`nil` when nothing beyond numbers). -/
def ext (a : PepAst) : Option Pep440 :=
  if a.epoch = 0 ∧ a.pre = none ∧ a.post = none ∧ a.dev = none ∧ a.loc = [] then none
  else some
    { epoch := a.epoch,
      pre := match a.pre with | some (k, _) => k.bytes | none => [],
      preNum := match a.pre with | some (_, n) => n | none => 0,
      postPresent := a.post.isSome, postNum := match a.post with | some n => n | none => 0,
      devPresent := a.dev.isSome, devNum := match a.dev with | some n => n | none => 0,
      loc := a.loc }

/-- The version the text denotes. -/
def embed (a : PepAst) : Version :=
  { sys := .pypi, userNumCount := a.nums.length, isPrerelease := a.pre.isSome, num := a.nums,
    pre := match a.pre with | some (k, n) => [k.bytes, natToBytes n] | none => [],
    ext := .pep a.ext }

end PepAst


/-! ## PEP 440: the optional parts -/

def dotIf (b : Bool) : Bytes := if b then [46] else []

theorem allowSeparator_dotIf (dot : Bool) (c : UInt8) (r : Bytes) (hc : c ≠ 46 ∧ c ≠ 45 ∧ c ≠ 95) :
    allowSeparator (dotIf dot ++ c :: r) = c :: r := by
  cases dot
  · simp [dotIf, allowSeparator, hc.1, hc.2.1, hc.2.2]
  · simp [dotIf, allowSeparator]

theorem nonNum_plus (r : Bytes) : NonNum (43 :: r) := Or.inr ⟨43, r, rfl, by decide, by decide⟩
theorem nonNum_dot (r : Bytes) : NonNum (46 :: r) := Or.inr ⟨46, r, rfl, by decide, by decide⟩

-- local
theorem loc_byte_id : ∀ c : UInt8, (c == 46 || isAlnumB c) = true → (if c == 45 || c == 95 then (46 : UInt8) else c) = c := by
  apply forall_uint8; decide +kernel

theorem pepParseLocal_absent (p : PepState) : pepParseLocal p [] = .ok (p, []) := rfl

theorem pepParseLocal_present (p : PepState) (l : Bytes) (hne : l ≠ [])
    (h : l.all (fun c => c == 46 || isAlnumB c) = true ∧ isAlnumB (l.headD 0) = true ∧ isAlnumB (l.getLastD 0) = true) :
    pepParseLocal p (43 :: l) = .ok ({ p with ext := some { p.mk' with loc := l } }, []) := by
  cases l with
  | nil => exact absurd rfl hne
  | cons c r =>
    unfold pepParseLocal
    simp only
    have hall : (c :: r).all (fun c => c == 46 || c == 45 || c == 95 || isAlnumB c) = true := by
      rw [List.all_eq_true] at h ⊢
      intro x hx
      have := h.1 x hx
      simp only [Bool.or_eq_true] at this ⊢
      rcases this with h1 | h1
      · exact Or.inl (Or.inl (Or.inl h1))
      · exact Or.inr h1
    have hmap : (c :: r).map (fun c => if c == 45 || c == 95 then (46 : UInt8) else c) = c :: r := by
      conv => rhs; rw [← List.map_id (c :: r)]
      apply List.map_congr_left
      intro x hx
      exact loc_byte_id x (List.all_eq_true.mp h.1 x hx)
    simp only [hall, Bool.not_true, Bool.false_eq_true, ↓reduceIte, h.2.1, h.2.2, Bool.or_self, hmap]

-- dev
theorem pepParseDev_present (p : PepState) (dot : Bool) (n : Nat) (L : Bytes) (hn : n < 2 ^ 63) (hL : NonNum L) :
    pepParseDev p (dotIf dot ++ [100, 101, 118] ++ (natToBytes n ++ L)) =
      ({ p with ext := some { p.mk' with devPresent := true, devNum := n } }, L) := by
  unfold pepParseDev
  have hne : (dotIf dot ++ [100, 101, 118] ++ (natToBytes n ++ L)).isEmpty = false := by cases dot <;> simp [dotIf]
  have hin : allowSeparator (dotIf dot ++ [100, 101, 118] ++ (natToBytes n ++ L)) = 100 :: 101 :: 118 :: (natToBytes n ++ L) := by
    have := allowSeparator_dotIf dot 100 (101 :: 118 :: (natToBytes n ++ L)) (by decide)
    simpa using this
  have hpre : hasASCIIPrefix (100 :: 101 :: 118 :: (natToBytes n ++ L)) "dev".toUTF8.toList = true := by
    have : "dev".toUTF8.toList = [100, 101, 118] := by rw [toList_eq]; rfl
    rw [this]
    simp only [hasASCIIPrefix]
    decide
  simp only [hne, Bool.false_eq_true, ↓reduceIte, hin, hpre, Bool.not_true, List.drop_succ_cons, List.drop_zero,
    pepNumber_nat n L hn hL]

theorem pepParseDev_absent (p : PepState) (L : Bytes) (hL : L = [] ∨ ∃ r, L = 43 :: r) : pepParseDev p L = (p, L) := by
  rcases hL with rfl | ⟨r, rfl⟩
  · rfl
  · unfold pepParseDev
    have : "dev".toUTF8.toList = [100, 101, 118] := by rw [toList_eq]; rfl
    rw [this]
    have h1 : allowSeparator (43 :: r) = 43 :: r := by simp [allowSeparator]
    have h2 : hasASCIIPrefix (43 :: r) [100, 101, 118] = false := by
      simp only [hasASCIIPrefix]
      have : ((43 : UInt8) ||| 32 == 100) = false := by decide
      simp [this]
    simp [h1, h2]


-- post
theorem postStrings_eq : Gen.SemverTables.pep440PostStrings = [[112, 111, 115, 116], [114, 101, 118], [114]] := rfl

theorem pepParsePost_present (p : PepState) (dot : Bool) (n : Nat) (R : Bytes) (hn : n < 2 ^ 63) (hR : NonNum R) :
    pepParsePost p (dotIf dot ++ [112, 111, 115, 116] ++ (natToBytes n ++ R)) =
      ({ p with ext := some { p.mk' with postPresent := true, postNum := n } }, R) := by
  unfold pepParsePost
  have hne : (dotIf dot ++ [112, 111, 115, 116] ++ (natToBytes n ++ R)).isEmpty = false := by cases dot <;> simp [dotIf]
  have hin : allowSeparator (dotIf dot ++ [112, 111, 115, 116] ++ (natToBytes n ++ R)) =
      112 :: 111 :: 115 :: 116 :: (natToBytes n ++ R) := by
    have := allowSeparator_dotIf dot 112 (111 :: 115 :: 116 :: (natToBytes n ++ R)) (by decide)
    simpa using this
  have hfind : Gen.SemverTables.pep440PostStrings.find? (fun pat => hasASCIIPrefix (112 :: 111 :: 115 :: 116 :: (natToBytes n ++ R)) pat) =
      some [112, 111, 115, 116] := by
    rw [postStrings_eq]
    simp only [List.find?, hasASCIIPrefix]
    decide
  simp only [hne, Bool.false_eq_true, ↓reduceIte, hin, hfind, List.length_cons, List.length_nil]
  have : ((0 + 1 + 1 + 1 + 1 : Nat) == 0) = false := by decide
  simp only [this, Bool.false_and, Bool.false_eq_true, ↓reduceIte]
  have hdrop : List.drop (0 + 1 + 1 + 1 + 1) (112 :: 111 :: 115 :: 116 :: (natToBytes n ++ R)) = natToBytes n ++ R := rfl
  rw [hdrop, pepNumber_nat n R hn hR]

theorem pepParsePost_absent (p : PepState) (t : Bytes)
    (ht : t = [] ∨ (∃ dot r, t = dotIf dot ++ 100 :: r) ∨ ∃ r, t = 43 :: r) : pepParsePost p t = (p, t) := by
  rcases ht with rfl | ⟨dot, r, rfl⟩ | ⟨r, rfl⟩
  · rfl
  · unfold pepParsePost
    have hne : (dotIf dot ++ 100 :: r).isEmpty = false := by cases dot <;> simp [dotIf]
    have hin : allowSeparator (dotIf dot ++ 100 :: r) = 100 :: r := allowSeparator_dotIf dot 100 r (by decide)
    have hfind : Gen.SemverTables.pep440PostStrings.find? (fun pat => hasASCIIPrefix (100 :: r) pat) = none := by
      rw [postStrings_eq]
      simp only [List.find?, hasASCIIPrefix]
      have h1 : ((100 : UInt8) ||| 32 == 112) = false := by decide
      have h2 : ((100 : UInt8) ||| 32 == 114) = false := by decide
      simp only [h1, h2, Bool.false_and]
    have hdash : ((dotIf dot ++ 100 :: r).head? == some 45) = false := by cases dot <;> simp [dotIf]
    simp only [hne, Bool.false_eq_true, ↓reduceIte, hin, hfind, hdash]
    simp
  · unfold pepParsePost
    have hin : allowSeparator (43 :: r) = 43 :: r := by simp [allowSeparator]
    have hfind : Gen.SemverTables.pep440PostStrings.find? (fun pat => hasASCIIPrefix (43 :: r) pat) = none := by
      rw [postStrings_eq]
      simp only [List.find?, hasASCIIPrefix]
      have h1 : ((43 : UInt8) ||| 32 == 112) = false := by decide
      have h2 : ((43 : UInt8) ||| 32 == 114) = false := by decide
      simp only [h1, h2, Bool.false_and]
    simp only [List.isEmpty_cons, Bool.false_eq_true, ↓reduceIte, hin, hfind, List.head?_cons]
    simp


-- pre
theorem preStrings_eq : Gen.SemverTables.pep440PreStrings =
    [([97, 108, 112, 104, 97], [97]), ([97], [97]), ([98, 101, 116, 97], [98]), ([98], [98]),
     ([112, 114, 101, 118, 105, 101, 119], [114, 99]), ([112, 114, 101], [114, 99]), ([114, 99], [114, 99]), ([99], [114, 99])] := rfl

theorem digit_or32 : ∀ d : UInt8, isDigitB d = true → (d ||| 32 == 108) = false ∧ (d ||| 32 == 101) = false := by
  apply forall_uint8; decide +kernel

theorem or32_97 : (97 : UInt8) ||| 32 = 97 := by decide
theorem or32_98 : (98 : UInt8) ||| 32 = 98 := by decide
theorem or32_99 : (99 : UInt8) ||| 32 = 99 := by decide
theorem or32_114 : (114 : UInt8) ||| 32 = 114 := by decide
theorem or32_112 : (112 : UInt8) ||| 32 = 112 := by decide
theorem or32_111 : (111 : UInt8) ||| 32 = 111 := by decide
theorem or32_100 : (100 : UInt8) ||| 32 = 100 := by decide
theorem or32_43 : (43 : UInt8) ||| 32 = 43 := by decide

theorem pre_find (k : PreKind) (d : UInt8) (r : Bytes) (hd : isDigitB d = true) :
    Gen.SemverTables.pep440PreStrings.find? (fun s => hasASCIIPrefix (k.bytes ++ d :: r) s.1) = some (k.bytes, k.bytes) := by
  obtain ⟨h1, h2⟩ := digit_or32 d hd
  rw [preStrings_eq]
  cases k
  · simp only [PreKind.bytes, List.cons_append, List.nil_append, List.find?, hasASCIIPrefix, h1]
    simp [or32_97, or32_98, or32_99, or32_114]
  · simp only [PreKind.bytes, List.cons_append, List.nil_append, List.find?, hasASCIIPrefix, h2]
    simp [or32_97, or32_98, or32_99, or32_114]
  · simp only [PreKind.bytes, List.cons_append, List.nil_append, List.find?, hasASCIIPrefix]
    simp [or32_97, or32_98, or32_99, or32_114]

theorem preKind_head (k : PreKind) : ∃ c r, k.bytes = c :: r ∧ c ≠ 46 ∧ c ≠ 45 ∧ c ≠ 95 := by
  cases k <;> exact ⟨_, _, rfl, by decide, by decide, by decide⟩

theorem intToBytes_nat (n : Nat) : intToBytes (n : Int) = natToBytes n := by
  simp [intToBytes]

theorem pepParsePre_present (p : PepState) (k : PreKind) (n : Nat) (T : Bytes) (hn : n < 2 ^ 63) (hT : NonNum T) :
    pepParsePre p (k.bytes ++ (natToBytes n ++ T)) =
      ({ v := { p.v with pre := [k.bytes, natToBytes n], isPrerelease := true },
         ext := some { p.mk' with pre := k.bytes, preNum := n } }, T) := by
  obtain ⟨d, ds, hd, hdd⟩ := natToBytes_cons n
  obtain ⟨c, r, hk, hc⟩ := preKind_head k
  unfold pepParsePre
  have hne : (k.bytes ++ (natToBytes n ++ T)).isEmpty = false := by rw [hk]; rfl
  have hin : allowSeparator (k.bytes ++ (natToBytes n ++ T)) = k.bytes ++ (natToBytes n ++ T) := by
    rw [hk]; simp [allowSeparator, hc.1, hc.2.1, hc.2.2]
  have hfind := pre_find k d (ds ++ T) hdd
  have htext : k.bytes ++ (natToBytes n ++ T) = k.bytes ++ d :: (ds ++ T) := by rw [hd]; rfl
  simp only [hne, Bool.false_eq_true, ↓reduceIte, hin]
  rw [htext, hfind]
  simp only [List.drop_left']
  rw [← List.cons_append, ← hd, pepNumber_nat n T hn hT, intToBytes_nat]

theorem pre_find_none (c : UInt8) (r : Bytes) (hc : (c = 112 ∧ ∃ r', r = 111 :: r') ∨ c = 100 ∨ c = 43) :
    Gen.SemverTables.pep440PreStrings.find? (fun s => hasASCIIPrefix (c :: r) s.1) = none := by
  rw [preStrings_eq]
  rcases hc with ⟨rfl, r', rfl⟩ | rfl | rfl
  · simp only [List.find?, hasASCIIPrefix]
    simp [or32_112, or32_111]
  · simp only [List.find?, hasASCIIPrefix]
    simp [or32_100]
  · simp only [List.find?, hasASCIIPrefix]
    simp [or32_43]

theorem pepParsePre_absent (p : PepState) (t : Bytes)
    (ht : t = [] ∨ (∃ r, t = 112 :: 111 :: r) ∨ (∃ r, t = 100 :: r) ∨ ∃ r, t = 43 :: r) : pepParsePre p t = (p, t) := by
  rcases ht with rfl | ⟨r, rfl⟩ | ⟨r, rfl⟩ | ⟨r, rfl⟩
  · rfl
  · unfold pepParsePre
    have h1 : allowSeparator (112 :: 111 :: r) = 112 :: 111 :: r := by simp [allowSeparator]
    simp only [List.isEmpty_cons, Bool.false_eq_true, ↓reduceIte, h1,
      pre_find_none 112 (111 :: r) (Or.inl ⟨rfl, r, rfl⟩)]
  · unfold pepParsePre
    have h1 : allowSeparator (100 :: r) = 100 :: r := by simp [allowSeparator]
    simp only [List.isEmpty_cons, Bool.false_eq_true, ↓reduceIte, h1, pre_find_none 100 r (Or.inr (Or.inl rfl))]
  · unfold pepParsePre
    have h1 : allowSeparator (43 :: r) = 43 :: r := by simp [allowSeparator]
    simp only [List.isEmpty_cons, Bool.false_eq_true, ↓reduceIte, h1, pre_find_none 43 r (Or.inr (Or.inr rfl))]


/-! ## PEP 440: the release numbers -/

/-- What follows the release numbers in canonical text: nothing, a non-digit other than `.`
(`a`/`b`/`rc`, `+`), or `.` followed by a letter (`.post`, `.dev`). -/
inductive TailOk : Bytes → Prop
  | nil : TailOk []
  | plain (c : UInt8) (r : Bytes) (h1 : c < 0x80) (h2 : isDigitB c = false) (h3 : c ≠ 46) : TailOk (c :: r)
  | dotted (c : UInt8) (r : Bytes) (h1 : c < 0x80) (h2 : isDigitB c = false) (h3 : c ≠ 42) : TailOk (46 :: c :: r)

/-- The text handed on after the numbers (a leading `.` is consumed by the number loop). -/
def afterNums : Bytes → Bytes
  | 46 :: r => r
  | t => t

theorem TailOk.nonNum {t : Bytes} (h : TailOk t) : NonNum t := by
  cases h with
  | nil => exact Or.inl rfl
  | plain c r h1 h2 _ => exact Or.inr ⟨c, r, rfl, h1, h2⟩
  | dotted c r _ _ _ => exact nonNum_dot _

theorem pepNums_go (tail : Bytes) (ht : TailOk tail) (xs : List Int) :
    ∀ (x : Int) (p : PepState) (fuel : Nat), (∀ y ∈ x :: xs, NumOk false y) → xs.length + 1 < fuel →
      pepNums.go p (valueBytes x ++ (dotNums xs ++ tail)) fuel =
        .ok ({ p with v := { p.v with num := p.v.num ++ x :: xs } }, afterNums tail) := by
  induction xs with
  | nil =>
    intro x p fuel hx hf
    obtain ⟨k, rfl⟩ : ∃ k, fuel = k + 1 := ⟨fuel - 1, by omega⟩
    have hx0 := hx x (by simp)
    have hx1 : x < 9223372036854775807 := by rcases hx0.2 with h | ⟨h, _⟩; exact h; cases h
    rw [valueBytes_num x hx0.1 hx1]
    obtain ⟨d, ds, hd, hdd⟩ := natToBytes_cons x.toNat
    have hall : ∀ c ∈ natToBytes x.toNat, isDigitB c = true := fun c hc => List.all_eq_true.mp (natToBytes_all_digit _) c hc
    simp only [dotNums, List.flatMap_nil, List.nil_append]
    unfold pepNums.go
    have hne : (natToBytes x.toNat ++ tail).isEmpty = false := by rw [hd]; rfl
    have hlen := numericPrefixLen_digits (natToBytes x.toNat) tail hall ht.nonNum
    have hpos : 0 < (natToBytes x.toNat).length := List.length_pos_iff.mpr (natToBytes_ne_nil _)
    have h0 : ((natToBytes x.toNat).length == 0) = false := by rw [beq_eq_false_iff_ne]; omega
    have hinf : (natToBytes x.toNat == [0xE2, 0x88, 0x9E]) = false := by
      rw [hd, beq_eq_false_iff_ne]; intro e; injection e with e _; subst e; exact absurd hdd (by decide)
    have hstar : (natToBytes x.toNat == [42]) = false := by
      rw [hd, beq_eq_false_iff_ne]; intro e; injection e with e _; subst e; exact absurd hdd (by decide)
    have hemp : (natToBytes x.toNat).isEmpty = false := by rw [hd]; rfl
    have hparse := parseNum_natToBytes x.toNat (by rw [infinity_lit]; omega)
    rw [Int.toNat_of_nonneg hx0.1] at hparse
    simp only [hne, Bool.false_eq_true, ↓reduceIte, hlen, h0, Bool.false_and, List.take_left', List.drop_left',
      hemp, hinf, hstar, hparse, bind, Outcome.bind, Version.addNum]
    cases ht with
    | nil => simp [afterNums]
    | plain c r h1 h2 h3 =>
      have : (c != 46) = true := by simp [h3]
      simp only [this, ↓reduceIte]
      have ha : afterNums (c :: r) = c :: r := by
        unfold afterNums
        split
        · rename_i heq; injection heq with e _; exact absurd e h3
        · rfl
      rw [ha]
    | dotted c r h1 h2 h3 =>
      have : ((46 : UInt8) != 46) = false := by decide
      simp only [this, Bool.false_eq_true, ↓reduceIte, List.isEmpty_cons]
      obtain ⟨k', rfl⟩ : ∃ k', k = k' + 1 := ⟨k - 1, by simp at hf; omega⟩
      unfold pepNums.go
      have hn0 : numericPrefixLen (c :: r) = 0 := by
        have := numericPrefixLen_digits [] (c :: r) (by simp) (Or.inr ⟨c, r, rfl, h1, h2⟩)
        simpa using this
      have hc42 : ((c :: r).head? == some 42) = false := by simp [h3]
      simp only [List.isEmpty_cons, Bool.false_eq_true, ↓reduceIte, hn0, beq_self_eq_true, hc42, Bool.and_false,
        List.take_zero, List.isEmpty_nil]
      rfl
  | cons y ys ih =>
    intro x p fuel hx hf
    obtain ⟨k, rfl⟩ : ∃ k, fuel = k + 1 := ⟨fuel - 1, by omega⟩
    have hx0 := hx x (by simp)
    have hx1 : x < 9223372036854775807 := by rcases hx0.2 with h | ⟨h, _⟩; exact h; cases h
    rw [valueBytes_num x hx0.1 hx1]
    obtain ⟨d, ds, hd, hdd⟩ := natToBytes_cons x.toNat
    have hall : ∀ c ∈ natToBytes x.toNat, isDigitB c = true := fun c hc => List.all_eq_true.mp (natToBytes_all_digit _) c hc
    have hR : dotNums (y :: ys) ++ tail = 46 :: (valueBytes y ++ (dotNums ys ++ tail)) := by simp [dotNums]
    rw [hR]
    unfold pepNums.go
    have hne : (natToBytes x.toNat ++ 46 :: (valueBytes y ++ (dotNums ys ++ tail))).isEmpty = false := by rw [hd]; rfl
    have hlen := numericPrefixLen_digits (natToBytes x.toNat) (46 :: (valueBytes y ++ (dotNums ys ++ tail))) hall (nonNum_dot _)
    have hpos : 0 < (natToBytes x.toNat).length := List.length_pos_iff.mpr (natToBytes_ne_nil _)
    have h0 : ((natToBytes x.toNat).length == 0) = false := by rw [beq_eq_false_iff_ne]; omega
    have hinf : (natToBytes x.toNat == [0xE2, 0x88, 0x9E]) = false := by
      rw [hd, beq_eq_false_iff_ne]; intro e; injection e with e _; subst e; exact absurd hdd (by decide)
    have hstar : (natToBytes x.toNat == [42]) = false := by
      rw [hd, beq_eq_false_iff_ne]; intro e; injection e with e _; subst e; exact absurd hdd (by decide)
    have hemp : (natToBytes x.toNat).isEmpty = false := by rw [hd]; rfl
    have hparse := parseNum_natToBytes x.toNat (by rw [infinity_lit]; omega)
    rw [Int.toNat_of_nonneg hx0.1] at hparse
    have hy0 := hx y (by simp)
    have hyne : (valueBytes y ++ (dotNums ys ++ tail)).isEmpty = false := by
      have hy1 : y < 9223372036854775807 := by rcases hy0.2 with h | ⟨h, _⟩; exact h; cases h
      rw [valueBytes_num y hy0.1 hy1]
      obtain ⟨e, es, he, _⟩ := natToBytes_cons y.toNat
      rw [he]; rfl
    have : ((46 : UInt8) != 46) = false := by decide
    simp only [hne, Bool.false_eq_true, ↓reduceIte, hlen, h0, Bool.false_and, List.take_left', List.drop_left',
      hemp, hinf, hstar, hparse, bind, Outcome.bind, Version.addNum, this, hyne]
    rw [ih y _ k (fun w hw => hx w (by simp at hw ⊢; right; exact hw)) (by simp at hf; omega)]
    simp

/-! ## Printable ASCII text: `TrimSpace`, the rune check -/

/-- Printable ASCII without the space. -/
def isPrintB (c : UInt8) : Bool := 0x20 < c && c < 0x7F

theorem print_not_space : ∀ c : UInt8, isPrintB c = true → Bytes.isSpaceRune c.toNat = false ∧ c < 0x80 ∧
    ((c.toNat > 0x20 && c.toNat < 0x7F) || c.toNat == 0x221E) = true := by
  apply forall_uint8; decide +kernel

theorem dropWhile_none {α} (p : α → Bool) (l : List α) (h : ∀ x ∈ l, p x = false) : l.dropWhile p = l := by
  cases l with
  | nil => rfl
  | cons a as => simp [List.dropWhile, h a (by simp)]

theorem flatMap_snd_map (b : Bytes) : (b.map (fun c => (c.toNat, [c]))).flatMap (·.2) = b := by
  induction b with
  | nil => rfl
  | cons c r ih => simp [ih]

theorem trimSpace_print (b : Bytes) (h : ∀ c ∈ b, isPrintB c = true) : Bytes.trimSpace b = b := by
  unfold Bytes.trimSpace
  rw [runes_ascii b (fun c hc => (print_not_space c (h c hc)).2.1)]
  have hns : ∀ x ∈ b.map (fun c => (c.toNat, [c])), Bytes.isSpaceRune x.1 = false := by
    intro x hx
    obtain ⟨c, hc, rfl⟩ := List.mem_map.mp hx
    exact (print_not_space c (h c hc)).1
  simp only
  rw [dropWhile_none _ _ hns, dropWhile_none _ _ (fun x hx => hns x (List.mem_reverse.mp hx)), List.reverse_reverse,
    flatMap_snd_map]

theorem runes_check_print (b : Bytes) (h : ∀ c ∈ b, isPrintB c = true) :
    (Bytes.runes b).all (fun r => (r.1 > 0x20 && r.1 < 0x7F) || r.1 == 0x221E) = true := by
  rw [runes_ascii b (fun c hc => (print_not_space c (h c hc)).2.1), List.all_eq_true]
  intro x hx
  obtain ⟨c, hc, rfl⟩ := List.mem_map.mp hx
  exact (print_not_space c (h c hc)).2.2

theorem findIdx?_bang (ds r : Bytes) (h : ∀ c ∈ ds, c ≠ 33) : (ds ++ 33 :: r).findIdx? (· == 33) = some ds.length := by
  induction ds with
  | nil => simp [List.findIdx?_cons]
  | cons c cs ih =>
    have hc : (c == 33) = false := by simpa using h c (by simp)
    simp only [List.cons_append, List.findIdx?_cons, hc, Bool.false_eq_true, ↓reduceIte, List.length_cons]
    rw [ih (fun x hx => h x (by simp [hx]))]
    simp

theorem findIdx?_nobang (l : Bytes) (h : ∀ c ∈ l, c ≠ 33) : l.findIdx? (· == 33) = none := by
  rw [List.findIdx?_eq_none_iff]
  intro c hc
  simpa using h c hc

end DepsDev.Proofs.C10
