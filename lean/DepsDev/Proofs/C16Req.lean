import DepsDev.Proofs.C16Render
import DepsDev.Proofs.C16MarkerRender

/-! C16: `ParseDependency (render r) = fields r` for every well-formed requirement tree. -/

namespace DepsDev.Proofs.C16Req
open DepsDev DepsDev.Pypi DepsDev.Ref.Pep508 DepsDev.Proofs.C16Bytes DepsDev.Proofs.C16Dep
open DepsDev.Proofs.C16Render

/-- Shape facts of a specifier body as written. -/
structure BodyOK (body : Bytes) : Prop where
  clean : Clean body
  head : ∃ c cs, body = c :: cs ∧ isWs c = false ∧ isNameStop c = true ∧ c.toNat ≠ 91
  ends : EndsNonWs body

def ePart : Option (Ws × Bytes) → Bytes
  | none => []
  | some (w, i) => w.bytes ++ [91] ++ i ++ [93]

def sPart : Option (Ws × Bytes) → Bytes
  | none => []
  | some (w, body) => w.bytes ++ body

def mPart : Option (Ws × Bytes) → Bytes
  | none => []
  | some (w, t) => w.bytes ++ [59] ++ t

def mWs : Option (Ws × Bytes) → Ws
  | none => []
  | some (w, _) => w

def sBody : Option (Ws × Bytes) → Bytes
  | none => []
  | some (_, body) => body

theorem mPart_eq (M : Option (Ws × Bytes)) : mPart M = (mWs M).bytes ++ rSeg (M.map (·.2)) := by
  cases M with
  | none => rfl
  | some wt => obtain ⟨w, t⟩ := wt; simp [mPart, mWs, rSeg]

theorem rSeg_ends (M : Option (Ws × Bytes)) (hM : ∀ w t, M = some (w, t) → EndsNonWs t)
    {pre : Bytes} (hp : EndsNonWs pre) : EndsNonWs (pre ++ (mWs M).bytes ++ rSeg (M.map (·.2))) := by
  cases M with
  | none => simpa [mWs, rSeg, Ws.bytes] using hp
  | some wt =>
    obtain ⟨w, t⟩ := wt
    simp only [Option.map, rSeg]
    have : EndsNonWs (59 :: t) := ends_append [59] (hM w t rfl)
    exact ends_append _ this

theorem stripParensVal_nil : stripParensVal [] = [] := by simp [stripParensVal, hasPrefix]

/-- All eight shapes of a requirement at once, over abstract part texts. -/
theorem parseDependency_parts (wL wT : Ws) (name : Bytes) (E S M : Option (Ws × Bytes))
    (hname : name ≠ []) (hns : ∀ x ∈ name, isNameStop x = false)
    (hE : ∀ w i, E = some (w, i) → ∀ c ∈ i, c ≠ 93)
    (hS : ∀ w body, S = some (w, body) → BodyOK body)
    (hM : ∀ w t, M = some (w, t) → EndsNonWs t) :
    parseDependency (wL.bytes ++ name ++ ePart E ++ sPart S ++ mPart M ++ wT.bytes) =
      .ok { name := canonPackageName name,
            extras := optTrim (E.map (·.2)),
            constraint := stripParensVal (sBody S),
            environment := optTrim (M.map (·.2)) } := by
  rw [mPart_eq]
  have clean59 : ∀ {l : Bytes}, Clean l → ∀ c ∈ l, c ≠ 59 := fun h c hc => (h c hc).1
  cases E with
  | none =>
    cases S with
    | none =>
      cases M with
      | none =>
        have := parseDependency_bare wL wT name hname hns
        simpa [ePart, sPart, mWs, rSeg, Ws.bytes, optTrim, sBody, stripParensVal_nil] using this
      | some wt =>
        obtain ⟨w, t⟩ := wt
        have h := parseDependency_segments wL wT w name none [] (some t) hname hns (by simp) (by simp)
          ⟨59, t, rfl, by decide⟩ (ends_append [59] (hM w t rfl))
          (fun _ c cs hc => by simp [exSeg, rSeg] at hc; rw [← hc.1]; decide)
          (fun _ c cs hc => by simp [rSeg] at hc; rw [← hc.1]; decide)
        have htrim : trim ([] : Bytes) = [] := rfl
        simpa [ePart, sPart, mWs, rSeg, exSeg, optTrim, sBody, stripParensVal_nil, htrim, List.append_assoc] using h
    | some wb =>
      obtain ⟨ws, body⟩ := wb
      obtain ⟨hc, ⟨c, cs, hb, hws, hstop, h91⟩, he⟩ := hS ws body rfl
      have hP : ∀ x ∈ body ++ (mWs M).bytes, x ≠ 59 := clean59 (clean_append hc (clean_ws _))
      have hstart : StartsNonWs (exSeg none ++ (body ++ (mWs M).bytes) ++ rSeg (M.map (·.2))) :=
        ⟨c, cs ++ (mWs M).bytes ++ rSeg (M.map (·.2)), by simp [exSeg, hb], hws⟩
      have hend : EndsNonWs (exSeg none ++ (body ++ (mWs M).bytes) ++ rSeg (M.map (·.2))) := by
        have := rSeg_ends M hM he
        simpa [exSeg, List.append_assoc] using this
      have h := parseDependency_segments wL wT ws name none (body ++ (mWs M).bytes) (M.map (·.2)) hname hns
        (by simp) hP hstart hend
        (fun _ c' cs' hc' => by simp [exSeg, hb] at hc'; rw [← hc'.1]; exact hstop)
        (fun _ c' cs' hc' => by simp [hb] at hc'; rw [← hc'.1]; exact h91)
      have htrim : trim (body ++ (mWs M).bytes) = body := by
        have := trim_ws_tight [] (mWs M) ⟨c, cs, hb, hws⟩ he
        simpa [Ws.bytes] using this
      rw [htrim] at h
      simpa [ePart, sPart, exSeg, optTrim, sBody, List.append_assoc] using h
  | some wi =>
    obtain ⟨we, i⟩ := wi
    have hi := hE we i rfl
    -- the constraint text P and what trimming it leaves
    have hPS : (∀ x ∈ sPart S ++ (mWs M).bytes, x ≠ 59) ∧ trim (sPart S ++ (mWs M).bytes) = sBody S ∧
        (sPart S = [] ∨ EndsNonWs (sPart S)) := by
      cases S with
      | none =>
        refine ⟨clean59 (clean_append clean_nil (clean_ws _)), ?_, Or.inl rfl⟩
        simpa [sPart, sBody, Ws.bytes] using trim_ws_only [] (mWs M)
      | some wb =>
        obtain ⟨ws, body⟩ := wb
        obtain ⟨hc, ⟨c, cs, hb, hws, _, _⟩, he⟩ := hS ws body rfl
        refine ⟨clean59 (clean_append (clean_append (clean_ws _) hc) (clean_ws _)), ?_, Or.inr (ends_append _ he)⟩
        exact trim_ws_tight ws (mWs M) ⟨c, cs, hb, hws⟩ he
    obtain ⟨hP, htrim, hSe⟩ := hPS
    have hstart : StartsNonWs (exSeg (some i) ++ (sPart S ++ (mWs M).bytes) ++ rSeg (M.map (·.2))) :=
      ⟨91, i ++ [93] ++ (sPart S ++ (mWs M).bytes) ++ rSeg (M.map (·.2)), by simp [exSeg], by decide⟩
    have hend : EndsNonWs (exSeg (some i) ++ (sPart S ++ (mWs M).bytes) ++ rSeg (M.map (·.2))) := by
      have hpre : EndsNonWs (exSeg (some i) ++ sPart S) := by
        rcases hSe with h0 | h0
        · rw [h0, List.append_nil]; exact ⟨91 :: i, 93, by simp [exSeg], by decide⟩
        · exact ends_append _ h0
      have := rSeg_ends M hM hpre
      simpa [List.append_assoc] using this
    have h := parseDependency_segments wL wT we name (some i) (sPart S ++ (mWs M).bytes) (M.map (·.2)) hname hns
      (fun j hj c hc => by cases hj; exact hi c hc) hP hstart hend
      (fun _ c' cs' hc' => by simp [exSeg] at hc'; rw [← hc'.1]; decide)
      (fun hne => by cases hne)
    rw [htrim] at h
    simpa [ePart, exSeg, optTrim, List.append_assoc] using h

end DepsDev.Proofs.C16Req

namespace DepsDev.Proofs.C16Req
open DepsDev DepsDev.Pypi DepsDev.Ref.Pep508 DepsDev.Proofs.C16Bytes DepsDev.Proofs.C16Dep
open DepsDev.Proofs.C16Render

/-- For every well-formed requirement tree and every layout, `ParseDependency` of the
rendering yields packaging's normalised name, the extras list text, the specifier list text
and the marker text. -/
theorem parseDependency_render (r : Requirement) (h : r.wf = true) :
    parseDependency r.render =
      .ok { name := normalize r.name, extras := r.extrasText, constraint := r.specText,
            environment := r.markerText trim } := by
  obtain ⟨wL, name, extras, specs, marker, wT⟩ := r
  simp only [Requirement.wf, Bool.and_eq_true] at h
  obtain ⟨⟨⟨hn, hex⟩, hsp⟩, hmk⟩ := h
  obtain ⟨hname, hns⟩ := ident_name hn
  have hcanon : canonPackageName name = normalize name :=
    (C16Name.canonLoop_eq_normalize name (ident_facts hn).1).1
  let E : Option (Ws × Bytes) := extras.map fun x => (x.1, x.2.1.bytes ++ renderExtraList x.2.2.1 ++ x.2.2.2.bytes)
  let S : Option (Ws × Bytes) := specs.map fun x => (x.1, renderSpecBody x.2.1 x.2.2.1 x.2.2.2)
  let M : Option (Ws × Bytes) := marker.map fun x => (x.1, x.2.render)
  have hrender : Requirement.render ⟨wL, name, extras, specs, marker, wT⟩ =
      wL.bytes ++ name ++ ePart E ++ sPart S ++ mPart M ++ wT.bytes := by
    cases extras with
    | none => cases specs <;> cases marker <;> simp [Requirement.render, E, S, M, ePart, sPart, mPart, List.append_assoc]
    | some e =>
      obtain ⟨w, a, xs, b⟩ := e
      cases specs <;> cases marker <;> simp [Requirement.render, E, S, M, ePart, sPart, mPart, List.append_assoc]
  -- facts about the parts
  have hEi : ∀ w i, E = some (w, i) → (∀ c ∈ i, c ≠ 93) ∧ trim i = Requirement.extrasText ⟨wL, name, extras, specs, marker, wT⟩ := by
    intro w i hE
    cases extras with
    | none => simp [E] at hE
    | some e =>
      obtain ⟨w', a, xs, b⟩ := e
      simp only [E, Option.map, Option.some.injEq, Prod.mk.injEq] at hE
      obtain ⟨_, rfl⟩ := hE
      have hx : (match xs with
          | some (e, rest) => e :: rest.map (fun (x : Ws × Ws × Bytes) => x.2.2)
          | none => []).all validIdentifier = true := by
        cases xs with
        | none => rfl
        | some er => simpa [Requirement.extrasList] using hex
      exact extrasInner_facts a b xs hx
  have hSb : ∀ w body, S = some (w, body) → BodyOK body ∧
      stripParensVal body = Requirement.specText ⟨wL, name, extras, specs, marker, wT⟩ := by
    intro w body hS
    cases specs with
    | none => simp [S] at hS
    | some sp =>
      obtain ⟨w', p, s, rest⟩ := sp
      simp only [S, Option.map, Option.some.injEq, Prod.mk.injEq] at hS
      obtain ⟨_, rfl⟩ := hS
      simp only [Bool.and_eq_true] at hsp
      obtain ⟨hc, hhead, he, hstrip⟩ := specBody_facts p hsp.1 hsp.2
      exact ⟨⟨hc, hhead, he⟩, hstrip⟩
  have hMe : ∀ w t, M = some (w, t) → EndsNonWs t := by
    intro w t hM
    cases marker with
    | none => simp [M] at hM
    | some wm =>
      obtain ⟨w', m⟩ := wm
      simp only [M, Option.map, Option.some.injEq, Prod.mk.injEq] at hM
      obtain ⟨_, rfl⟩ := hM
      exact C16MarkerRender.render_ends m hmk
  rw [hrender, parseDependency_parts wL wT name E S M hname hns (fun w i h => (hEi w i h).1)
    (fun w b h => (hSb w b h).1) hMe, hcanon]
  congr 2
  · cases extras with
    | none => rfl
    | some e => exact (hEi _ _ rfl).2
  · cases specs with
    | none => simp [S, sBody, stripParensVal_nil, Requirement.specText]
    | some sp => exact (hSb _ _ rfl).2
  · cases marker with
    | none => rfl
    | some wm => rfl

end DepsDev.Proofs.C16Req
