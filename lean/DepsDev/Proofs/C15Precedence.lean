import DepsDev.Model.Maven.Pipeline
import DepsDev.Ref.MavenModel

/-!
# Precedence lemmas for C15: property tables, duplicate keys, management fill-in, imports
-/
namespace DepsDev.Proofs.C15Precedence
open DepsDev DepsDev.Model.Maven DepsDev.Ref DepsDev.Gen

/-! ## Property tables -/

theorem get_insert (m : Dict) (k v k' : Bytes) :
    (Dict.insert m k v).get k' = if k' = k then some v else m.get k' := by
  unfold Dict.get
  induction m with
  | nil => simp [Dict.insert, List.lookup]
  | cons kv rest ih =>
    obtain ⟨k1, v1⟩ := kv
    unfold Dict.insert
    by_cases h : k1 = k
    · subst h
      by_cases h' : k' = k1
      · subst h'; simp
      · have : (k' == k1) = false := by simpa using h'
        simp [List.lookup, this, h']
    · by_cases h' : k' = k1
      · subst h'
        have : ¬ k' = k := h
        simp [List.lookup, h, this]
      · have : (k' == k1) = false := by simpa using h'
        simp only [List.lookup, this, h, if_false]
        exact ih

/-- the value the LAST declaration of `k` in a property list gives it -/
def lastVal : List (Bytes × Bytes) → Bytes → Option Bytes
  | [], _ => none
  | (k', v) :: rest, k =>
    match lastVal rest k with
    | some w => some w
    | none => if k = k' then some v else none

theorem foldl_insert_get (props : List (Bytes × Bytes)) (m : Dict) (k : Bytes) :
    (props.foldl (fun m kv => m.insert kv.1 kv.2) m).get k =
      match lastVal props k with
      | some v => some v
      | none => m.get k := by
  induction props generalizing m with
  | nil => simp [lastVal]
  | cons kv rest ih =>
    obtain ⟨k', v⟩ := kv
    simp only [List.foldl, lastVal]
    rw [ih]
    cases lastVal rest k with
    | some w => rfl
    | none => simp only [get_insert]; split <;> rfl

theorem propsToDict_get (props : List (Bytes × Bytes)) (k : Bytes) :
    (propsToDict props).get k = lastVal props k := by
  unfold propsToDict
  rw [foldl_insert_get]
  cases lastVal props k <;> rfl

theorem lastVal_append (a b : List (Bytes × Bytes)) (k : Bytes) :
    lastVal (a ++ b) k = match lastVal b k with
      | some v => some v
      | none => lastVal a k := by
  induction a with
  | nil => simp [lastVal]; cases lastVal b k <;> rfl
  | cons kv rest ih =>
    obtain ⟨k', v⟩ := kv
    simp only [List.cons_append, lastVal, ih]
    cases lastVal b k <;> rfl

/-- `Properties.merge` followed by the first loop of `propertyMap`: the child's value wins,
the parent's is used only where the child has none. -/
theorem propsMerge_get (child parent : List (Bytes × Bytes)) (k : Bytes) :
    (propsToDict (propsMerge child parent)).get k =
      match (propsToDict child).get k with
      | some v => some v
      | none => (propsToDict parent).get k := by
  simp only [propsToDict_get, propsMerge, lastVal_append]

/-! ## Built-in names (rest on `Gen.C15Consts.builtins` / `builtinPrefixes`) -/

theorem has_eq (m : Dict) (k : Bytes) : m.has k = (m.get k).isSome := rfl

/-- `addProjectProperty(k, v)` leaves every name other than `k`, `pom.k`, `project.k` alone -/
theorem get_addProjectProperty_other (m : Dict) (k v q : Bytes)
    (h1 : q ≠ k) (h2 : ∀ pre ∈ C15Consts.builtinPrefixes, q ≠ pre ++ k) :
    (addProjectProperty m k v).get q = m.get q := by
  unfold addProjectProperty
  split
  · rfl
  · simp only [C15Consts.builtinPrefixes, List.foldl, get_insert]
    have a := h2 [112, 111, 109, 46] (by simp [C15Consts.builtinPrefixes])
    have b := h2 [112, 114, 111, 106, 101, 99, 116, 46] (by simp [C15Consts.builtinPrefixes])
    simp only [a, b, if_false]
    split
    · rfl
    · rw [get_insert]; simp [h1]

theorem project_version_fixed (p : Project) (h : p.v ≠ []) :
    p.propertyMap.get (MavenModel.bProjectDot ++ MavenModel.bVersion) = some p.v := by
  unfold Project.propertyMap
  simp only [C15Consts.builtins, List.foldl, Project.field]
  rw [get_addProjectProperty_other _ _ _ _ (by decide) (by decide)]
  rw [get_addProjectProperty_other _ _ _ _ (by decide) (by decide)]
  unfold addProjectProperty
  have : p.v.isEmpty = false := by cases hv : p.v <;> simp_all
  simp only [this, Bool.false_eq_true, if_false, C15Consts.builtinPrefixes, List.foldl, get_insert]
  simp [MavenModel.bProjectDot, MavenModel.bVersion]

theorem pom_version_fixed (p : Project) (h : p.v ≠ []) :
    p.propertyMap.get (MavenModel.bPomDot ++ MavenModel.bVersion) = some p.v := by
  unfold Project.propertyMap
  simp only [C15Consts.builtins, List.foldl, Project.field]
  rw [get_addProjectProperty_other _ _ _ _ (by decide) (by decide)]
  rw [get_addProjectProperty_other _ _ _ _ (by decide) (by decide)]
  unfold addProjectProperty
  have : p.v.isEmpty = false := by cases hv : p.v <;> simp_all
  simp only [this, Bool.false_eq_true, if_false, C15Consts.builtinPrefixes, List.foldl, get_insert]
  simp [MavenModel.bPomDot, MavenModel.bVersion]

theorem bare_version_kept (p : Project) (v : Bytes) (h : (propsToDict p.props).get MavenModel.bVersion = some v) :
    p.propertyMap.get MavenModel.bVersion = some v := by
  unfold Project.propertyMap
  simp only [C15Consts.builtins, List.foldl, Project.field]
  rw [get_addProjectProperty_other _ _ _ _ (by decide) (by decide)]
  rw [get_addProjectProperty_other _ _ _ _ (by decide) (by decide)]
  have hg : (addProjectProperty (propsToDict p.props) [103, 114, 111, 117, 112, 73, 100] p.g).get MavenModel.bVersion = some v := by
    rw [get_addProjectProperty_other _ _ _ _ (by decide) (by decide)]; exact h
  generalize addProjectProperty (propsToDict p.props) [103, 114, 111, 117, 112, 73, 100] p.g = m at hg
  unfold addProjectProperty
  split
  · exact hg
  · have hh : m.has [118, 101, 114, 115, 105, 111, 110] = true := by
      rw [has_eq]; have : m.get [118, 101, 114, 115, 105, 111, 110] = some v := hg
      rw [this]; rfl
    simp only [hh, if_true, C15Consts.builtinPrefixes, List.foldl, get_insert]
    simp [MavenModel.bVersion]
    exact hg

/-! ## `DepMap` -/

theorem get_insertIfAbsent (m : DepMap) (k : DepKey) (d : Dep) (k' : DepKey) :
    (m.insertIfAbsent k d).get k' =
      match m.get k' with
      | some x => some x
      | none => if k' = k then some d else none := by
  unfold DepMap.insertIfAbsent
  cases hk : m.get k with
  | some x =>
    simp only
    cases hk' : m.get k' with
    | some y => rfl
    | none =>
      have : ¬ k' = k := by intro e; subst e; rw [hk] at hk'; cases hk'
      simp [this]
  | none =>
    simp only [DepMap.get, List.lookup_append]
    unfold DepMap.get at hk
    cases hk' : List.lookup k' m with
    | some y => simp
    | none =>
      by_cases e : k' = k
      · subst e; simp [List.lookup]
      · have : (k' == k) = false := by simpa using e
        simp [List.lookup, this, e]

/-- once a key is in the map, `insertIfAbsent` never changes its value -/
theorem insertIfAbsent_keeps {m : DepMap} {k' : DepKey} {x : Dep} (h : m.get k' = some x) (k : DepKey) (d : Dep) :
    (m.insertIfAbsent k d).get k' = some x := by
  rw [get_insertIfAbsent, h]

/-- the first loop of `ProcessDependencies`: the entry recorded under a key is the FIRST
declaration with that key -/
theorem dedupeDeps_get (ds : List Dep) (m : DepMap) (k : DepKey) :
    (dedupeDeps ds m).get k =
      match m.get k with
      | some x => some x
      | none => (ds.find? fun d => d.key = k).map Dep.normType := by
  induction ds generalizing m with
  | nil => simp [dedupeDeps]; cases m.get k <;> rfl
  | cons d rest ih =>
    simp only [dedupeDeps]
    rw [ih, get_insertIfAbsent]
    cases hm : m.get k with
    | some x => rfl
    | none =>
      by_cases e : k = d.key
      · subst e; simp [List.find?]
      · have : ¬ d.key = k := fun h => e h.symm
        simp [List.find?, e, this]

/-- `addDepManagement`: an entry already in the map stays -/
theorem addDepManagement_keeps (ds : List Dep) {m : DepMap} {k : DepKey} {x : Dep} (h : m.get k = some x) :
    (addDepManagement ds m).1.get k = some x := by
  induction ds generalizing m with
  | nil => simpa [addDepManagement] using h
  | cons d rest ih =>
    unfold addDepManagement
    split
    · exact ih h
    · exact ih (insertIfAbsent_keeps h _ _)

/-- `addDepManagement`: among new entries the first non-import declaration of a key wins -/
theorem addDepManagement_get (ds : List Dep) (m : DepMap) (k : DepKey) :
    (addDepManagement ds m).1.get k =
      match m.get k with
      | some x => some x
      | none => (ds.find? fun d => d.scope ≠ bImport ∧ d.key = k).map Dep.normType := by
  induction ds generalizing m with
  | nil => simp [addDepManagement]; cases m.get k <;> rfl
  | cons d rest ih =>
    unfold addDepManagement
    split
    · rename_i hs
      simp only
      rw [ih]
      cases m.get k with
      | some x => rfl
      | none => simp [List.find?, hs]
    · rename_i hs
      rw [ih, get_insertIfAbsent]
      cases hm : m.get k with
      | some x => rfl
      | none =>
        by_cases e : k = d.key
        · subst e; simp [List.find?, hs]
        · have : ¬ d.key = k := fun h => e h.symm
          simp [List.find?, e, this]

/-- the import loop never changes an entry that is already managed -/
theorem importLoop_keeps (get : Bytes → Bytes → Bytes → Option (List Dep)) (fuel : Nat) :
    ∀ (queue : List Dep) (imported : List DepKey) {m : DepMap} {k : DepKey} {x : Dep},
      m.get k = some x → (importLoop get fuel queue imported m).get k = some x := by
  induction fuel with
  | zero => intro queue imported m k x h; simpa [importLoop] using h
  | succ fuel ih =>
    intro queue imported m k x h
    cases queue with
    | nil => simpa [importLoop] using h
    | cons dep queue =>
      unfold importLoop
      simp only
      split
      · exact ih _ _ h
      · split
        · exact ih _ _ h
        · split
          · exact ih _ _ h
          · exact ih _ _ (addDepManagement_keeps _ h)

/-! ## Management fill-in -/

theorem fill_keeps_present (mgmt : DepMap) (k : DepKey) (dep : Dep) :
    let r := fillFromManagement mgmt (k, dep)
    (dep.v ≠ [] → r.v = dep.v) ∧ (dep.scope ≠ [] → r.scope = dep.scope) ∧ (dep.excl ≠ [] → r.excl = dep.excl) ∧
    r.g = dep.g ∧ r.a = dep.a ∧ r.typ = dep.typ ∧ r.cls = dep.cls ∧ r.opt = dep.opt := by
  unfold fillFromManagement
  cases mgmt.get k with
  | none => simp
  | some dm =>
    refine ⟨?_, ?_, ?_, rfl, rfl, rfl, rfl, rfl⟩
    · intro h; simp [h]
    · intro h; simp [h]
    · intro h; simp [h]

theorem fill_fills_empty (mgmt : DepMap) (k : DepKey) (dep dm : Dep) (h : mgmt.get k = some dm) :
    let r := fillFromManagement mgmt (k, dep)
    (dep.v = [] → r.v = dm.v) ∧ (dep.scope = [] → r.scope = dm.scope) ∧ (dep.excl = [] → r.excl = dm.excl) := by
  unfold fillFromManagement
  simp only [h]
  refine ⟨?_, ?_, ?_⟩ <;> intro e <;> simp [e]

theorem fill_unmanaged (mgmt : DepMap) (k : DepKey) (dep : Dep) (h : mgmt.get k = none) :
    fillFromManagement mgmt (k, dep) = dep := by
  unfold fillFromManagement; simp [h]

end DepsDev.Proofs.C15Precedence
