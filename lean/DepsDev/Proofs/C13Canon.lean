import DepsDev.Proofs.C13Bfs

/-!
# `Canon`: the node-sort stage, the duplicate scan, the BFS stage, and the two
internal theorems (`canonSorted_iso`, `canonSorted_relabel`) behind `Props/C13.lean`.
-/

namespace DepsDev.Resolve.GraphCanon

open List

/-! ### the duplicate scan (graph.go:144-148) -/

theorem dupScanFrom_eq (r : Node) : ∀ (prev : Option Node) (l : List Node),
    dupScanFrom r prev l = (l.any (fun x => x.cmp r == .eq) || adjDupN (prev.toList ++ l))
  | none, [] => rfl
  | some _, [] => rfl
  | none, x :: xs => by
    simp only [dupScanFrom, dupScanFrom_eq r (some x) xs, List.any_cons, Option.toList, List.nil_append,
      List.singleton_append, Bool.or_false]
    cases xs with
    | nil => simp [adjDupN]
    | cons y ys => simp [adjDupN, Bool.or_assoc, Bool.or_comm, Bool.or_left_comm]
  | some p, x :: xs => by
    simp only [dupScanFrom, dupScanFrom_eq r (some x) xs, List.any_cons, Option.toList,
      List.singleton_append, adjDupN]
    have hpx : (x.cmp p == .eq) = (p.cmp x == .eq) := by
      rw [Bool.eq_iff_iff]
      simp only [beq_iff_eq, Node.cmp_eq_iff]
      exact eq_comm
    rw [hpx]
    cases (x.cmp r == .eq) <;> cases (p.cmp x == .eq) <;> simp

/-- On `root :: sorted others` the scan is true exactly when two nodes are identical. -/
theorem dupScan_false_iff (r : Node) (s : List Node) (hs : Sorted Node.less s) :
    dupScan (r :: s) = false ↔ (r :: s).Nodup := by
  simp only [dupScan, dupScanFrom_eq, Option.toList, List.nil_append, Bool.or_eq_false_iff, List.nodup_cons]
  constructor
  · rintro ⟨h1, h2⟩
    refine ⟨?_, nodup_of_adjDupN_false s hs h2⟩
    intro hr
    rw [List.any_eq_false] at h1
    have := h1 r hr
    simp [(Node.cmp_eq_iff r r).mpr rfl] at this
  · rintro ⟨h1, h2⟩
    refine ⟨?_, adjDupN_false_of_nodup s h2⟩
    rw [List.any_eq_false]
    intro x hx
    have : x ≠ r := fun e => h1 (e ▸ hx)
    have : x.cmp r ≠ .eq := fun h => this ((Node.cmp_eq_iff x r).mp h)
    simpa using this

/-! ### the node sort (graph.go:133-140) -/

/-- What `sort.Sort(on)` with `KeepZero` may leave behind, for **any** correct sorting
algorithm: a permutation of the (node, old id) pairs, the root pair first, the others
sorted by `Node.Compare` (pairs of identical nodes in any relative order). -/
structure NodeSorted (N0 : List Node) (P : List (Node × Nat)) : Prop where
  perm : P ~ N0.zipIdx
  head : P.head? = N0.zipIdx.head?
  sorted : Sorted pairLess P.tail

theorem sortNodes_perm (N0 : List Node) : sortNodes N0 ~ N0.zipIdx := by
  unfold sortNodes
  split
  · rename_i h; rw [h]
  · rename_i r rest h; rw [h]; exact (sortBy_perm rest).cons r

/-- The model's (stable insertion) sort is one such result. -/
theorem sortNodes_nodeSorted (N0 : List Node) : NodeSorted N0 (sortNodes N0) where
  perm := sortNodes_perm N0
  head := by
    unfold sortNodes
    split
    · rename_i h; rw [h]
    · rename_i r rest h; rw [h]; rfl
  sorted := by
    unfold sortNodes
    split
    · exact List.Pairwise.nil
    · exact sortBy_sorted pairLess_strictWeak _

namespace NodeSorted
variable {N0 : List Node} {P : List (Node × Nat)}

theorem ids_perm (h : NodeSorted N0 P) : P.map Prod.snd ~ List.range N0.length := by
  have := h.perm.map Prod.snd
  rwa [List.zipIdx_map_snd, ← List.range_eq_range'] at this

theorem length_eq (h : NodeSorted N0 P) : P.length = N0.length := by
  simpa using h.perm.length_eq

theorem mem (h : NodeSorted N0 P) {p : Node × Nat} (hp : p ∈ P) : N0[p.2]? = some p.1 :=
  List.mem_zipIdx_iff_getElem?.mp (h.perm.mem_iff.mp hp)

theorem idxOf_zero (h : NodeSorted N0 P) : (P.map Prod.snd).idxOf 0 = 0 := by
  have hh := h.head
  cases N0 with
  | nil =>
    have : P = [] := by simpa using h.perm
    rw [this]; rfl
  | cons r t =>
    cases P with
    | nil => simp at hh
    | cons p ps =>
      simp only [List.zipIdx_cons, List.head?_cons, Option.some.injEq] at hh
      subst hh; simp

/-- The sorted node slice is determined by the contents: the root, then the others sorted. -/
theorem fst_cons {r : Node} {t : List Node} (h : NodeSorted (r :: t) P) :
    P.map Prod.fst = r :: sortBy Node.less t := by
  have hh := h.head
  cases P with
  | nil => simp at hh
  | cons p ps =>
    simp only [List.zipIdx_cons, List.head?_cons, Option.some.injEq] at hh
    subst hh
    have hp : ps ~ t.zipIdx 1 := by
      have := h.perm
      rw [List.zipIdx_cons] at this
      exact (List.perm_cons _).mp this
    have hs : Sorted Node.less (ps.map Prod.fst) :=
      List.Pairwise.map Prod.fst (fun _ _ hab => hab) h.sorted
    have hp' : ps.map Prod.fst ~ t := by
      have := hp.map Prod.fst
      rwa [List.zipIdx_map_fst] at this
    simp only [List.map_cons]
    rw [eq_sortBy_of_sorted_perm nodeLess_strictTotal hs hp']

theorem fst_eq (h : NodeSorted N0 P) : P.map Prod.fst = (sortNodes N0).map Prod.fst := by
  cases N0 with
  | nil =>
    have : P = [] := by simpa using h.perm
    rw [this]; rfl
  | cons r t => rw [h.fst_cons, (sortNodes_nodeSorted (r :: t)).fst_cons]

/-- The node sort followed by `renumber(on.Mapping(), false)` is a relabeling. -/
theorem iso (h : NodeSorted N0 P) {E : List Edge} :
    Iso (fun x => (P.map Prod.snd).idxOf x) N0 E (P.map Prod.fst)
      (sortBy Edge.less (E.map (mapE (fun x => (P.map Prod.snd).idxOf x)))) := by
  have hidsP := h.ids_perm
  have hidsL : (P.map Prod.snd).length = N0.length := by simp [h.length_eq]
  have hmem : ∀ i, i < N0.length → i ∈ P.map Prod.snd :=
    fun i hi => hidsP.mem_iff.mpr (List.mem_range.mpr hi)
  refine ⟨by simp [h.length_eq], ?_, ?_, h.idxOf_zero, ?_, sortBy_perm _⟩
  · intro i hi
    have := List.idxOf_lt_length_of_mem (hmem i hi)
    rwa [hidsL] at this
  · intro i j hi _ e
    exact idxOf_inj (hmem i hi) e
  · intro i hi
    have hk : (P.map Prod.snd).idxOf i < (P.map Prod.snd).length := List.idxOf_lt_length_of_mem (hmem i hi)
    have hk' : (P.map Prod.snd).idxOf i < P.length := by simpa using hk
    have e1 : (P.map Prod.snd)[(P.map Prod.snd).idxOf i] = i := List.getElem_idxOf hk
    have hp := h.mem (List.getElem_mem hk')
    have e2 : (P[(P.map Prod.snd).idxOf i]).2 = i := by
      have := e1
      simp only [List.getElem_map] at this
      exact this
    rw [e2] at hp
    rw [hp]
    simp [hk']

end NodeSorted

/-! ### the BFS stage (graph.go:150-160) -/

theorem getElem?_filterMap_lookup {N : List Node} : ∀ (order : List Nat), (∀ x ∈ order, x < N.length) →
    ∀ k : Nat, (order.filterMap (fun (i : Nat) => N[i]?))[k]? = (order[k]?).bind (fun (i : Nat) => N[i]?)
  | [], _, k => by simp
  | x :: xs, h, k => by
    have hx : x < N.length := h x List.mem_cons_self
    have ih := getElem?_filterMap_lookup xs (fun y hy => h y (List.mem_cons_of_mem _ hy))
    have e : N[x]? = some N[x] := List.getElem?_eq_getElem hx
    rw [List.filterMap_cons, e]
    cases k with
    | zero => simp [e]
    | succ k => simp [ih k]

theorem length_filterMap_lookup {N : List Node} : ∀ (order : List Nat), (∀ x ∈ order, x < N.length) →
    (order.filterMap (fun (i : Nat) => N[i]?)).length = order.length
  | [], _ => rfl
  | x :: xs, h => by
    have hx : x < N.length := h x List.mem_cons_self
    have ih := length_filterMap_lookup xs (fun y hy => h y (List.mem_cons_of_mem _ hy))
    have e : N[x]? = some N[x] := List.getElem?_eq_getElem hx
    rw [List.filterMap_cons, e]
    simp [ih]

theorem reorderNodes_ok {N : List Node} {order : List Nat} (h : ∀ x ∈ order, x < N.length) :
    reorderNodes N order = some (order.filterMap (fun i => N[i]?)) := by
  unfold reorderNodes
  have : order.all (fun i => decide (i < N.length)) = true := by
    rw [List.all_eq_true]; intro x hx; simpa using h x hx
  rw [if_pos this]

/-- What `bfsStage` computes when `canonBFS` succeeds. -/
theorem bfsStage_ok {N : List Node} {E : List Edge} (hE : EdgesIn N.length E) (hn : 0 < N.length)
    {order : List Nat} (h : canonBFS N E = .ok order) :
    bfsStage N E = .ok { nodes := order.filterMap (fun i => N[i]?),
                         edges := sortBy Edge.less (E.map (mapE (fun x => order.idxOf x))) } := by
  obtain ⟨hp, _⟩ := canonBFS_perm hE hn h
  have hlt : ∀ x ∈ order, x < N.length := fun x hx => List.mem_range.mp (hp.mem_iff.mp hx)
  have hlen : order.length = N.length := by simpa using hp.length_eq
  unfold bfsStage
  rw [h]
  simp only []
  rw [reorderNodes_ok hlt, renumberEdges_ok (hlen ▸ hE)]

/-- The BFS stage gives the same result on relabelled graphs. -/
theorem bfsStage_iso {f : Nat → Nat} {N N' : List Node} {E E' : List Edge} (h : Iso f N E N' E')
    (hE : EdgesIn N.length E) (hn : 0 < N.length) : bfsStage N E = bfsStage N' E' := by
  have hb := canonBFS_iso h hE hn
  cases hc : canonBFS N E with
  | err => rw [hc] at hb; simp only [Outcome.map] at hb; simp [bfsStage, hc, hb]
  | panic s => rw [hc] at hb; simp only [Outcome.map] at hb; simp [bfsStage, hc, hb]
  | ok order =>
    rw [hc] at hb
    simp only [Outcome.map] at hb
    have hE' : EdgesIn N'.length E' := h.edgesIn hE
    have hn' : 0 < N'.length := h.len ▸ hn
    rw [bfsStage_ok hE hn hc, bfsStage_ok hE' hn' hb]
    obtain ⟨hp, _⟩ := canonBFS_perm hE hn hc
    have hlt : ∀ x ∈ order, x < N.length := fun x hx => List.mem_range.mp (hp.mem_iff.mp hx)
    congr 2
    · rw [List.filterMap_map]
      apply filterMap_congr'
      intro x hx
      simp [Function.comp, h.node x (hlt x hx)]
    · apply sortBy_eq_of_perm edgeLess_strictTotal
      have p1 := h.edges.map (mapE (fun x => (order.map f).idxOf x))
      rw [List.map_map, mapE_comp] at p1
      refine (Perm.of_eq ?_).trans p1.symm
      apply mapE_congr hE
      intro x hx
      exact (idxOf_map_inj hlt hx h.inj).symm

/-- The BFS stage relabels its input. -/
theorem bfsStage_relabel {N : List Node} {E : List Edge} (hE : EdgesIn N.length E) (hn : 0 < N.length)
    {g2 : Graph} (h : bfsStage N E = .ok g2) : ∃ β, Iso β N E g2.nodes g2.edges := by
  cases hc : canonBFS N E with
  | err => simp [bfsStage, hc] at h
  | panic s => simp [bfsStage, hc] at h
  | ok order =>
    rw [bfsStage_ok hE hn hc] at h
    simp only [Outcome.ok.injEq] at h
    subst h
    obtain ⟨hp, hhead⟩ := canonBFS_perm hE hn hc
    have hlt : ∀ x ∈ order, x < N.length := fun x hx => List.mem_range.mp (hp.mem_iff.mp hx)
    have hlen : order.length = N.length := by simpa using hp.length_eq
    have hmem : ∀ i, i < N.length → i ∈ order := fun i hi => hp.mem_iff.mpr (List.mem_range.mpr hi)
    refine ⟨fun x => order.idxOf x, ?_, ?_, ?_, ?_, ?_, sortBy_perm _⟩
    · simp only []; rw [length_filterMap_lookup order hlt, hlen]
    · intro i hi
      have := List.idxOf_lt_length_of_mem (hmem i hi)
      rwa [hlen] at this
    · intro i j hi _ e
      exact idxOf_inj (hmem i hi) e
    · cases order with
      | nil => simp
      | cons a t =>
        simp only [List.head?_cons, Option.some.injEq] at hhead
        subst hhead; simp
    · intro i hi
      simp only []
      rw [getElem?_filterMap_lookup order hlt]
      have hk : order.idxOf i < order.length := List.idxOf_lt_length_of_mem (hmem i hi)
      rw [List.getElem?_eq_getElem hk, List.getElem_idxOf hk]
      rfl

/-! ### `Canon` after the error sort, for an arbitrary result of the node sort -/

theorem renumberEdges_panic {m : List Nat} {E : List Edge} (h : ¬ EdgesIn m.length E) :
    renumberEdges m E = .panic "graph.go:oldToNew[e.From]" := by
  unfold renumberEdges
  split
  · rename_i hall
    exfalso; apply h
    rw [List.all_eq_true] at hall
    intro e he
    simpa using hall e he
  · rfl

/-- graph.go:136-162 with `P` standing for `on` after `sort.Sort(on)`. -/
def canonWith (P : List (Node × Nat)) (E : List Edge) : Outcome Graph :=
  match renumberEdges (mapping (P.map (·.2))) E with
  | .err => .err
  | .panic s => .panic s
  | .ok E1 =>
    if dupScan (P.map (·.1)) then bfsStage (P.map (·.1)) E1
    else .ok { nodes := P.map (·.1), edges := E1 }

theorem canonSorted_eq_canonWith (N0 : List Node) (E : List Edge) :
    canonSorted N0 E = canonWith (sortNodes N0) E := by
  unfold canonSorted canonWith stage1
  simp only []
  cases renumberEdges (mapping ((sortNodes N0).map (·.2))) E <;> rfl

theorem canonWith_ok {N0 : List Node} {P : List (Node × Nat)} (h : NodeSorted N0 P) {E : List Edge}
    (hE : EdgesIn N0.length E) :
    canonWith P E =
      if dupScan (P.map Prod.fst) then
        bfsStage (P.map Prod.fst) (sortBy Edge.less (E.map (mapE (fun x => (P.map Prod.snd).idxOf x))))
      else .ok { nodes := P.map Prod.fst,
                 edges := sortBy Edge.less (E.map (mapE (fun x => (P.map Prod.snd).idxOf x))) } := by
  unfold canonWith
  have hl : (P.map Prod.snd).length = N0.length := by simp [h.length_eq]
  rw [renumberEdges_ok (hl ▸ hE)]

/-- **Relabel invariance, exact form**, for any two results of the node sort. -/
theorem canonWith_iso {f : Nat → Nat} {N0 N0' : List Node} {E E' : List Edge} (h : Iso f N0 E N0' E')
    (hE : EdgesIn N0.length E) {P P' : List (Node × Nat)} (hP : NodeSorted N0 P) (hP' : NodeSorted N0' P') :
    canonWith P E = canonWith P' E' := by
  have hE' : EdgesIn N0'.length E' := h.edgesIn hE
  have I1 := hP.iso (E := E)
  have I1' := hP'.iso (E := E')
  -- the sorted node slices coincide
  have hN : P'.map Prod.fst = P.map Prod.fst := by
    cases N0 with
    | nil =>
      have e0 : N0' = [] := List.eq_nil_of_length_eq_zero (by simpa using h.len)
      subst e0
      rw [hP.fst_eq, hP'.fst_eq]
    | cons r t =>
      cases N0' with
      | nil => have := h.len; simp at this
      | cons r' t' =>
        obtain ⟨hr, ht⟩ := h.head_tail
        rw [hP.fst_cons, hP'.fst_cons, hr, sortBy_eq_of_perm nodeLess_strictTotal ht]
  rw [canonWith_ok hP hE, canonWith_ok hP' hE', hN]
  by_cases hd : dupScan (P.map Prod.fst) = true
  · simp only [hd, if_true]
    have hn : 0 < N0.length := by
      cases N0 with
      | nil =>
        have : P = [] := by simpa using hP.perm
        rw [this] at hd; simp [dupScan] at hd
      | cons _ _ => simp
    have hn' : 0 < N0'.length := h.len ▸ hn
    rw [(bfsStage_iso I1 hE hn).symm, bfsStage_iso h hE hn, ← hN]
    exact bfsStage_iso I1' hE' hn'
  · simp only [hd, Bool.false_eq_true, if_false]
    have hd' : dupScan (P.map Prod.fst) = false := by simpa using hd
    congr 2
    -- no duplicates: positions in the sorted slice are determined by contents
    have hnd : (P.map Prod.fst).Nodup := by
      cases N0 with
      | nil =>
        have : P = [] := by simpa using hP.perm
        rw [this]; exact List.nodup_nil
      | cons r t =>
        rw [hP.fst_cons] at hd' ⊢
        exact (dupScan_false_iff r _ (sortBy_sorted nodeLess_strictTotal.weak t)).mp hd'
    apply sortBy_eq_of_perm edgeLess_strictTotal
    have p1 := h.edges.map (mapE (fun x => (P'.map Prod.snd).idxOf x))
    rw [List.map_map, mapE_comp] at p1
    refine (Perm.of_eq ?_).trans p1.symm
    apply mapE_congr hE
    intro x hx
    -- node x of N0 sits at σ x; its image f x of N0' sits at σ' (f x); same content, no duplicates
    have a1 := I1.node x hx
    have a2 := I1'.node (f x) (h.len ▸ h.lt x hx)
    rw [h.node x hx, hN, ← a1] at a2
    have hlt1 : (P.map Prod.snd).idxOf x < (P.map Prod.fst).length := by
      have := I1.lt x hx; rwa [← I1.len] at this
    exact (List.getElem?_inj hlt1 hnd).mp a2.symm

theorem Iso.refl (N : List Node) (E : List Edge) : Iso (fun x => x) N E N E where
  len := rfl
  lt := fun _ h => h
  inj := fun _ _ _ _ e => e
  root := rfl
  node := fun _ _ => rfl
  edges := by
    have : E.map (mapE (fun x => x)) = E := by
      rw [show mapE (fun x => x) = id from rfl]; exact List.map_id _
    rw [this]

/-- **The node sort's tie-breaking does not matter**: whatever order `sort.Sort` leaves
identical nodes in, the rest of `Canon` computes what the model computes. -/
theorem canonWith_eq_canonSorted {N0 : List Node} {P : List (Node × Nat)} (hP : NodeSorted N0 P)
    {E : List Edge} (hE : EdgesIn N0.length E) : canonWith P E = canonSorted N0 E := by
  rw [canonSorted_eq_canonWith]
  exact canonWith_iso (Iso.refl N0 E) hE hP (sortNodes_nodeSorted N0)

/-- **Relabel invariance, exact form.** -/
theorem canonSorted_iso {f : Nat → Nat} {N0 N0' : List Node} {E E' : List Edge} (h : Iso f N0 E N0' E')
    (hE : EdgesIn N0.length E) : canonSorted N0 E = canonSorted N0' E' := by
  rw [canonSorted_eq_canonWith, canonSorted_eq_canonWith]
  exact canonWith_iso h hE (sortNodes_nodeSorted N0) (sortNodes_nodeSorted N0')

/-- `Canon` panics (index out of range in `renumber`) exactly on edges that are not in range. -/
theorem canonSorted_panic_of_not_edgesIn {N0 : List Node} {E : List Edge} (hE : ¬ EdgesIn N0.length E) :
    canonSorted N0 E = .panic "graph.go:oldToNew[e.From]" := by
  rw [canonSorted_eq_canonWith]
  unfold canonWith
  have hl : (mapping ((sortNodes N0).map (·.2))).length = N0.length := by
    rw [length_mapping, List.length_map, (sortNodes_nodeSorted N0).length_eq]
  rw [renumberEdges_panic (hl ▸ hE)]

theorem bfsStage_no_panic {N : List Node} {E : List Edge} (hE : EdgesIn N.length E) (hn : 0 < N.length) :
    ∀ s, bfsStage N E ≠ .panic s := by
  intro s
  cases hc : canonBFS N E with
  | err => simp [bfsStage, hc]
  | panic s' => exact absurd hc (canonBFS_no_panic hE s')
  | ok order => rw [bfsStage_ok hE hn hc]; simp

/-- On in-range edges the model never reports a panic; in particular the loop bound
`1 + len(edges)` of `canonBFS` is never hit. -/
theorem canonSorted_no_panic {N0 : List Node} {E : List Edge} (hE : EdgesIn N0.length E) :
    ∀ s, canonSorted N0 E ≠ .panic s := by
  intro s
  have hP := sortNodes_nodeSorted N0
  rw [canonSorted_eq_canonWith, canonWith_ok hP hE]
  split
  · rename_i hd
    have hn : 0 < N0.length := by
      cases N0 with
      | nil => simp [sortNodes, dupScan] at hd
      | cons _ _ => simp
    have I1 := hP.iso (E := E)
    exact bfsStage_no_panic (I1.edgesIn hE) (by rw [I1.len]; exact hn) s
  · simp

/-- **`Canon` relabels its input** (after the error sort): the output is the input with its
nodes renumbered by a permutation fixing the root, and its edges reordered. -/
theorem canonSorted_relabel {N0 : List Node} {E : List Edge} {g' : Graph}
    (h : canonSorted N0 E = .ok g') : EdgesIn N0.length E ∧ ∃ π, Iso π N0 E g'.nodes g'.edges := by
  have hE : EdgesIn N0.length E := by
    apply Classical.byContradiction
    intro hE
    rw [canonSorted_panic_of_not_edgesIn hE] at h
    cases h
  refine ⟨hE, ?_⟩
  have hP := sortNodes_nodeSorted N0
  have I1 := hP.iso (E := E)
  rw [canonSorted_eq_canonWith, canonWith_ok hP hE] at h
  by_cases hd : dupScan ((sortNodes N0).map Prod.fst) = true
  · simp only [hd, if_true] at h
    have hn : 0 < N0.length := by
      cases N0 with
      | nil => simp [sortNodes, dupScan] at hd
      | cons _ _ => simp
    obtain ⟨β, I2⟩ := bfsStage_relabel (I1.edgesIn hE) (by rw [I1.len]; exact hn) h
    exact ⟨_, I1.trans I2⟩
  · simp only [hd, Bool.false_eq_true, if_false, Outcome.ok.injEq] at h
    subst h
    exact ⟨_, I1⟩

end DepsDev.Resolve.GraphCanon
