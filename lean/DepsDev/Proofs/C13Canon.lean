import DepsDev.Proofs.C13Bfs

/-!
# `Canon`: the node-sort stage, the duplicate scan, the BFS stage, and the two
internal theorems (`canonSorted_iso`, `canonSorted_relabel`) behind `Props/C13.lean`.
-/

namespace DepsDev.Resolve.GraphCanon

open List

/-! ### the duplicate scan (graph.go:144-148) -/

theorem dupScanFrom_eq (r : Node) : ∀ (prev : Option Node) (l : List Node),
    dupScanFrom r prev l = (l.any (fun x => x.cmp r == .eq) || adjDupN (prev.toList ++ l))
  | none, [] => rfl
  | some _, [] => rfl
  | none, x :: xs => by
    simp only [dupScanFrom, dupScanFrom_eq r (some x) xs, List.any_cons, Option.toList, List.nil_append,
      List.singleton_append, Bool.or_false]
    cases xs with
    | nil => simp [adjDupN]
    | cons y ys => simp [adjDupN, Bool.or_assoc, Bool.or_comm, Bool.or_left_comm]
  | some p, x :: xs => by
    simp only [dupScanFrom, dupScanFrom_eq r (some x) xs, List.any_cons, Option.toList,
      List.singleton_append, adjDupN]
    have hpx : (x.cmp p == .eq) = (p.cmp x == .eq) := by
      rw [Bool.eq_iff_iff]
      simp only [beq_iff_eq, Node.cmp_eq_iff]
      exact eq_comm
    rw [hpx]
    cases (x.cmp r == .eq) <;> cases (p.cmp x == .eq) <;> simp

/-- On `root :: sorted others` the scan is true exactly when two nodes are identical. -/
theorem dupScan_false_iff (r : Node) (s : List Node) (hs : Sorted Node.less s) :
    dupScan (r :: s) = false ↔ (r :: s).Nodup := by
  simp only [dupScan, dupScanFrom_eq, Option.toList, List.nil_append, Bool.or_eq_false_iff, List.nodup_cons]
  constructor
  · rintro ⟨h1, h2⟩
    refine ⟨?_, nodup_of_adjDupN_false s hs h2⟩
    intro hr
    rw [List.any_eq_false] at h1
    have := h1 r hr
    simp [(Node.cmp_eq_iff r r).mpr rfl] at this
  · rintro ⟨h1, h2⟩
    refine ⟨?_, adjDupN_false_of_nodup s h2⟩
    rw [List.any_eq_false]
    intro x hx
    have : x ≠ r := fun e => h1 (e ▸ hx)
    have : x.cmp r ≠ .eq := fun h => this ((Node.cmp_eq_iff x r).mp h)
    simpa using this

/-! ### the node sort (graph.go:133-140) -/

theorem sortNodes_perm (N0 : List Node) : sortNodes N0 ~ N0.zipIdx := by
  unfold sortNodes
  split
  · rename_i h; rw [h]
  · rename_i r rest h; rw [h]; exact (sortBy_perm rest).cons r

theorem sortNodes_ids_perm (N0 : List Node) : (sortNodes N0).map Prod.snd ~ List.range N0.length := by
  have := (sortNodes_perm N0).map Prod.snd
  rwa [List.zipIdx_map_snd, ← List.range_eq_range'] at this

theorem sortNodes_length (N0 : List Node) : (sortNodes N0).length = N0.length := by
  simpa using (sortNodes_perm N0).length_eq

theorem sortNodes_mem {N0 : List Node} {p : Node × Nat} (h : p ∈ sortNodes N0) : N0[p.2]? = some p.1 :=
  List.mem_zipIdx_iff_getElem?.mp ((sortNodes_perm N0).mem_iff.mp h)

theorem sortNodes_cons (r : Node) (t : List Node) :
    sortNodes (r :: t) = (r, 0) :: sortBy pairLess (t.zipIdx 1) := by
  simp [sortNodes, List.zipIdx_cons]

/-- The sorted node slice: the root, then the others sorted by `Node.Compare`. -/
theorem sortNodes_fst_cons (r : Node) (t : List Node) :
    (sortNodes (r :: t)).map Prod.fst = r :: sortBy Node.less t := by
  rw [sortNodes_cons, List.map_cons, map_fst_sortBy_pairLess, List.zipIdx_map_fst]

theorem sortNodes_idxOf_zero (N0 : List Node) : ((sortNodes N0).map Prod.snd).idxOf 0 = 0 := by
  cases N0 with
  | nil => simp [sortNodes]
  | cons r t => rw [sortNodes_cons]; simp

theorem getElem?_map_fst_of_snd {P : List (Node × Nat)} {k : Nat} (hk : k < P.length) :
    (P.map Prod.fst)[k]? = some (P[k]).1 ∧ (P.map Prod.snd)[k]'(by simpa using hk) = (P[k]).2 := by
  simp [hk]

/-- The node-sort stage succeeds on in-range edges and is a relabeling by `Mapping()`. -/
theorem stage1_iso {N0 : List Node} {E : List Edge} (hE : EdgesIn N0.length E) :
    ∃ σ E1, stage1 N0 E = .ok ((sortNodes N0).map Prod.fst, E1) ∧
      Iso σ N0 E ((sortNodes N0).map Prod.fst) E1 ∧
      E1 = sortBy Edge.less (E.map (mapE σ)) ∧ σ = (fun x => ((sortNodes N0).map Prod.snd).idxOf x) := by
  let ids := (sortNodes N0).map Prod.snd
  have hidsP : ids ~ List.range N0.length := sortNodes_ids_perm N0
  have hidsL : ids.length = N0.length := by simp [ids, sortNodes_length]
  have hE' : EdgesIn ids.length E := hidsL ▸ hE
  refine ⟨fun x => ids.idxOf x, sortBy Edge.less (E.map (mapE (fun x => ids.idxOf x))), ?_, ?_, rfl, rfl⟩
  · unfold stage1
    simp only []
    rw [renumberEdges_ok hE']
  · have hmem : ∀ i, i < N0.length → i ∈ ids := fun i hi => hidsP.mem_iff.mpr (List.mem_range.mpr hi)
    refine ⟨by simp [sortNodes_length], ?_, ?_, sortNodes_idxOf_zero N0, ?_, sortBy_perm _⟩
    · intro i hi
      have := List.idxOf_lt_length_of_mem (hmem i hi)
      rwa [hidsL] at this
    · intro i j hi _ e
      exact idxOf_inj (hmem i hi) e
    · intro i hi
      have hk : ids.idxOf i < ids.length := List.idxOf_lt_length_of_mem (hmem i hi)
      have hk' : ids.idxOf i < (sortNodes N0).length := by simpa [ids] using hk
      have e1 : ids[ids.idxOf i] = i := List.getElem_idxOf hk
      have hp := sortNodes_mem (List.getElem_mem hk')
      have e2 : ((sortNodes N0)[ids.idxOf i]).2 = i := by
        have := e1
        simp only [ids, List.getElem_map] at this
        exact this
      rw [e2] at hp
      rw [hp]
      simp [hk']

/-! ### the BFS stage (graph.go:150-160) -/

theorem getElem?_filterMap_lookup {N : List Node} : ∀ (order : List Nat), (∀ x ∈ order, x < N.length) →
    ∀ k : Nat, (order.filterMap (fun (i : Nat) => N[i]?))[k]? = (order[k]?).bind (fun (i : Nat) => N[i]?)
  | [], _, k => by simp
  | x :: xs, h, k => by
    have hx : x < N.length := h x List.mem_cons_self
    have ih := getElem?_filterMap_lookup xs (fun y hy => h y (List.mem_cons_of_mem _ hy))
    have e : N[x]? = some N[x] := List.getElem?_eq_getElem hx
    rw [List.filterMap_cons, e]
    cases k with
    | zero => simp [e]
    | succ k => simp [ih k]

theorem length_filterMap_lookup {N : List Node} : ∀ (order : List Nat), (∀ x ∈ order, x < N.length) →
    (order.filterMap (fun (i : Nat) => N[i]?)).length = order.length
  | [], _ => rfl
  | x :: xs, h => by
    have hx : x < N.length := h x List.mem_cons_self
    have ih := length_filterMap_lookup xs (fun y hy => h y (List.mem_cons_of_mem _ hy))
    have e : N[x]? = some N[x] := List.getElem?_eq_getElem hx
    rw [List.filterMap_cons, e]
    simp [ih]

theorem reorderNodes_ok {N : List Node} {order : List Nat} (h : ∀ x ∈ order, x < N.length) :
    reorderNodes N order = some (order.filterMap (fun i => N[i]?)) := by
  unfold reorderNodes
  have : order.all (fun i => decide (i < N.length)) = true := by
    rw [List.all_eq_true]; intro x hx; simpa using h x hx
  rw [if_pos this]

/-- What `bfsStage` computes when `canonBFS` succeeds. -/
theorem bfsStage_ok {N : List Node} {E : List Edge} (hE : EdgesIn N.length E) (hn : 0 < N.length)
    {order : List Nat} (h : canonBFS N E = .ok order) :
    bfsStage N E = .ok { nodes := order.filterMap (fun i => N[i]?),
                         edges := sortBy Edge.less (E.map (mapE (fun x => order.idxOf x))) } := by
  obtain ⟨hp, _⟩ := canonBFS_perm hE hn h
  have hlt : ∀ x ∈ order, x < N.length := fun x hx => List.mem_range.mp (hp.mem_iff.mp hx)
  have hlen : order.length = N.length := by simpa using hp.length_eq
  unfold bfsStage
  rw [h]
  simp only []
  rw [reorderNodes_ok hlt, renumberEdges_ok (hlen ▸ hE)]

/-- The BFS stage gives the same result on relabelled graphs. -/
theorem bfsStage_iso {f : Nat → Nat} {N N' : List Node} {E E' : List Edge} (h : Iso f N E N' E')
    (hE : EdgesIn N.length E) (hn : 0 < N.length) : bfsStage N E = bfsStage N' E' := by
  have hb := canonBFS_iso h hE hn
  cases hc : canonBFS N E with
  | err => rw [hc] at hb; simp only [Outcome.map] at hb; simp [bfsStage, hc, hb]
  | panic s => rw [hc] at hb; simp only [Outcome.map] at hb; simp [bfsStage, hc, hb]
  | ok order =>
    rw [hc] at hb
    simp only [Outcome.map] at hb
    have hE' : EdgesIn N'.length E' := h.edgesIn hE
    have hn' : 0 < N'.length := h.len ▸ hn
    rw [bfsStage_ok hE hn hc, bfsStage_ok hE' hn' hb]
    obtain ⟨hp, _⟩ := canonBFS_perm hE hn hc
    have hlt : ∀ x ∈ order, x < N.length := fun x hx => List.mem_range.mp (hp.mem_iff.mp hx)
    congr 2
    · rw [List.filterMap_map]
      apply filterMap_congr'
      intro x hx
      simp [Function.comp, h.node x (hlt x hx)]
    · apply sortBy_eq_of_perm edgeLess_strictTotal
      have p1 := h.edges.map (mapE (fun x => (order.map f).idxOf x))
      rw [List.map_map, mapE_comp] at p1
      refine (Perm.of_eq ?_).trans p1.symm
      apply mapE_congr hE
      intro x hx
      exact (idxOf_map_inj hlt hx h.inj).symm

/-- The BFS stage relabels its input. -/
theorem bfsStage_relabel {N : List Node} {E : List Edge} (hE : EdgesIn N.length E) (hn : 0 < N.length)
    {g2 : Graph} (h : bfsStage N E = .ok g2) : ∃ β, Iso β N E g2.nodes g2.edges := by
  cases hc : canonBFS N E with
  | err => simp [bfsStage, hc] at h
  | panic s => simp [bfsStage, hc] at h
  | ok order =>
    rw [bfsStage_ok hE hn hc] at h
    simp only [Outcome.ok.injEq] at h
    subst h
    obtain ⟨hp, hhead⟩ := canonBFS_perm hE hn hc
    have hlt : ∀ x ∈ order, x < N.length := fun x hx => List.mem_range.mp (hp.mem_iff.mp hx)
    have hlen : order.length = N.length := by simpa using hp.length_eq
    have hmem : ∀ i, i < N.length → i ∈ order := fun i hi => hp.mem_iff.mpr (List.mem_range.mpr hi)
    refine ⟨fun x => order.idxOf x, ?_, ?_, ?_, ?_, ?_, sortBy_perm _⟩
    · simp only []; rw [length_filterMap_lookup order hlt, hlen]
    · intro i hi
      have := List.idxOf_lt_length_of_mem (hmem i hi)
      rwa [hlen] at this
    · intro i j hi _ e
      exact idxOf_inj (hmem i hi) e
    · cases order with
      | nil => simp
      | cons a t =>
        simp only [List.head?_cons, Option.some.injEq] at hhead
        subst hhead; simp
    · intro i hi
      simp only []
      rw [getElem?_filterMap_lookup order hlt]
      have hk : order.idxOf i < order.length := List.idxOf_lt_length_of_mem (hmem i hi)
      rw [List.getElem?_eq_getElem hk, List.getElem_idxOf hk]
      rfl

/-! ### `Canon` after the error sort -/

theorem stage1_edgesIn {N0 : List Node} {E : List Edge} {r : List Node × List Edge}
    (h : stage1 N0 E = .ok r) : EdgesIn N0.length E := by
  unfold stage1 at h
  simp only [] at h
  cases hr : renumberEdges (mapping ((sortNodes N0).map (·.2))) E with
  | err => simp [hr] at h
  | panic s => simp [hr] at h
  | ok E1 =>
    have := edgesIn_of_renumberEdges_ok hr
    rwa [length_mapping, List.length_map, sortNodes_length] at this

/-- **Relabel invariance, exact form**: relabelled inputs give the same outcome. -/
theorem canonSorted_iso {f : Nat → Nat} {N0 N0' : List Node} {E E' : List Edge} (h : Iso f N0 E N0' E')
    (hE : EdgesIn N0.length E) : canonSorted N0 E = canonSorted N0' E' := by
  have hE' : EdgesIn N0'.length E' := h.edgesIn hE
  obtain ⟨σ, E1, hs, I1, hE1, hσ⟩ := stage1_iso hE
  obtain ⟨σ', E1', hs', I1', hE1', hσ'⟩ := stage1_iso hE'
  -- the sorted node slices coincide
  have hN : (sortNodes N0').map Prod.fst = (sortNodes N0).map Prod.fst := by
    cases N0 with
    | nil =>
      have : N0' = [] := List.eq_nil_of_length_eq_zero (by simpa using h.len)
      rw [this]
    | cons r t =>
      cases N0' with
      | nil => have := h.len; simp at this
      | cons r' t' =>
        obtain ⟨hr, ht⟩ := h.head_tail
        rw [sortNodes_fst_cons, sortNodes_fst_cons, hr, sortBy_eq_of_perm nodeLess_strictTotal ht]
  unfold canonSorted
  rw [hs, hs']
  simp only []
  rw [hN]
  by_cases hd : dupScan ((sortNodes N0).map Prod.fst) = true
  · simp only [hd, if_true]
    have hn : 0 < N0.length := by
      cases N0 with
      | nil => simp [sortNodes, dupScan] at hd
      | cons _ _ => simp
    have hn' : 0 < N0'.length := h.len ▸ hn
    have hN' := hN
    rw [bfsStage_iso I1 hE hn |>.symm, bfsStage_iso h hE hn]
    rw [← hN]
    exact bfsStage_iso I1' hE' hn'
  · simp only [hd, Bool.false_eq_true, if_false]
    have hd' : dupScan ((sortNodes N0).map Prod.fst) = false := by simpa using hd
    congr 2
    -- no duplicates: positions in the sorted slice are determined by contents
    have hnd : ((sortNodes N0).map Prod.fst).Nodup := by
      cases N0 with
      | nil => simp [sortNodes]
      | cons r t =>
        rw [sortNodes_fst_cons] at hd' ⊢
        exact (dupScan_false_iff r _ (sortBy_sorted nodeLess_strictTotal.weak t)).mp hd'
    rw [hE1, hE1']
    apply sortBy_eq_of_perm edgeLess_strictTotal
    have p1 := h.edges.map (mapE σ')
    rw [List.map_map, mapE_comp] at p1
    refine (Perm.of_eq ?_).trans p1.symm
    apply mapE_congr hE
    intro x hx
    -- node x of N0 sits at σ x; its image f x of N0' sits at σ' (f x); same content, no duplicates
    have a1 := I1.node x hx
    have a2 := I1'.node (f x) (h.len ▸ h.lt x hx)
    rw [h.node x hx, hN, ← a1] at a2
    have hlt1 : σ x < ((sortNodes N0).map Prod.fst).length := by
      have := I1.lt x hx; rwa [← I1.len] at this
    exact (List.getElem?_inj hlt1 hnd).mp a2.symm

/-- **`Canon` relabels its input** (after the error sort): the output is the input with its
nodes renumbered by a permutation fixing the root, and its edges reordered. -/
theorem canonSorted_relabel {N0 : List Node} {E : List Edge} {g' : Graph}
    (h : canonSorted N0 E = .ok g') : EdgesIn N0.length E ∧ ∃ π, Iso π N0 E g'.nodes g'.edges := by
  have hE : EdgesIn N0.length E := by
    unfold canonSorted at h
    cases hs : stage1 N0 E with
    | err => simp [hs] at h
    | panic s => simp [hs] at h
    | ok r => exact stage1_edgesIn hs
  refine ⟨hE, ?_⟩
  obtain ⟨σ, E1, hs, I1, _, _⟩ := stage1_iso hE
  unfold canonSorted at h
  rw [hs] at h
  simp only [] at h
  by_cases hd : dupScan ((sortNodes N0).map Prod.fst) = true
  · simp only [hd, if_true] at h
    have hn : 0 < N0.length := by
      cases N0 with
      | nil => simp [sortNodes, dupScan] at hd
      | cons _ _ => simp
    have hE1 : EdgesIn ((sortNodes N0).map Prod.fst).length E1 := I1.edgesIn hE
    have hn1 : 0 < ((sortNodes N0).map Prod.fst).length := by rw [I1.len]; exact hn
    obtain ⟨β, I2⟩ := bfsStage_relabel hE1 hn1 h
    exact ⟨_, I1.trans I2⟩
  · simp only [hd, Bool.false_eq_true, if_false, Outcome.ok.injEq] at h
    subst h
    exact ⟨σ, I1⟩

end DepsDev.Resolve.GraphCanon
