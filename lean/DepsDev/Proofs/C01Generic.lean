import DepsDev.Proofs.Cmp

/-!
# C01 for the systems without an extension (Default, Cargo, Go, NPM, NuGet, Composer)

`compare` on versions with `ext = .none` is `ordToInt` of
`compareLex (padLex compare 0 on num) (twist (List.compareLex elemOrd) on pre)`,
assembled from core's lawful combinators.
-/
namespace DepsDev.Proofs

open Std DepsDev DepsDev.Semver

/-- Pull a `TransCmp` back along a function. -/
theorem TransCmp.comap {α β} (c : α → α → Ordering) [h : TransCmp c] (g : β → α) :
    TransCmp (fun x y => c (g x) (g y)) :=
  { eq_swap := fun {_ _} => h.eq_swap, isLE_trans := fun {_ _ _} h1 h2 => h.isLE_trans h1 h2 }

/-- "An empty list is greatest, otherwise compare with `c`" (no prerelease beats any prerelease). -/
def twist {α} (c : List α → List α → Ordering) : List α → List α → Ordering
  | [], [] => .eq
  | [], _ :: _ => .gt
  | _ :: _, [] => .lt
  | a :: as, b :: bs => c (a :: as) (b :: bs)

instance {α} (c : List α → List α → Ordering) [OrientedCmp c] : OrientedCmp (twist c) where
  eq_swap := by
    intro a b
    cases a <;> cases b <;> simp [twist]
    exact OrientedCmp.eq_swap

instance {α} (c : List α → List α → Ordering) [TransCmp c] : TransCmp (twist c) where
  isLE_trans := by
    intro a b c' h1 h2
    cases a <;> cases b <;> cases c' <;> simp_all [twist]
    exact TransCmp.isLE_trans h1 h2

/-! ## numbers -/

theorem compareNumsNilL_eq (b : List Int) : compareNumsNilL b = ordToInt (padLex compare 0 [] b) := by
  induction b with
  | nil => simp [compareNumsNilL, padLex]
  | cons b bs ih => simp [compareNumsNilL, padLex, ih, sgnInt_eq, thenInt_eq]

theorem compareNums_eq (a b : List Int) : compareNums a b = ordToInt (padLex compare 0 a b) := by
  induction a generalizing b with
  | nil => simp [compareNums, compareNumsNilL_eq]
  | cons a as ih =>
    cases b with
    | nil => simp [compareNums, padLex, ih, sgnInt_eq, thenInt_eq]
    | cons b bs => simp [compareNums, padLex, ih, sgnInt_eq, thenInt_eq]

/-! ## prerelease elements -/

/-- Key of a prerelease element: numbers sort before non-numbers. -/
inductive EK where
  | num (n : Int)
  | str (s : Bytes)

def EK.cmp : EK → EK → Ordering
  | .num a, .num b => compare a b
  | .num _, .str _ => .lt
  | .str _, .num _ => .gt
  | .str a, .str b => List.compareLex compare a b

instance : OrientedCmp EK.cmp where
  eq_swap := by
    intro a b
    cases a <;> cases b <;> simp [EK.cmp]
    · exact OrientedCmp.eq_swap
    · exact OrientedCmp.eq_swap (cmp := List.compareLex compare)

instance : TransCmp EK.cmp where
  isLE_trans := by
    intro a b c h1 h2
    cases a <;> cases b <;> cases c <;> simp_all [EK.cmp]
    · exact TransCmp.isLE_trans h1 h2
    · exact TransCmp.isLE_trans (cmp := List.compareLex compare) h1 h2

def ekey (sys : System) (s : Bytes) : EK :=
  match isNumeric sys s with
  | some n => .num n
  | none => .str (if sys == .nuget then s.map toLowerB else s)

def elemOrd (sys : System) (a b : Bytes) : Ordering := EK.cmp (ekey sys a) (ekey sys b)

instance (sys : System) : TransCmp (elemOrd sys) := TransCmp.comap EK.cmp (ekey sys)

theorem sgnInt_nat_lower (a b : UInt8) :
    sgnInt (a.toNat : Int) (b.toNat : Int) = ordToInt (compare a b) := by
  rw [sgnInt_eq]
  congr 1
  by_cases h1 : a < b
  · have h1' : (a.toNat : Int) < b.toNat := by exact_mod_cast UInt8.lt_iff_toNat_lt.mp h1
    simp [compare, compareOfLessAndEq, h1, h1']
  · by_cases h2 : a = b
    · subst h2; simp [compare, compareOfLessAndEq]
    · have h1n : ¬ a.toNat < b.toNat := by simpa [UInt8.lt_iff_toNat_lt] using h1
      have h2n : a.toNat ≠ b.toNat := fun e => h2 (UInt8.toNat_inj.mp e)
      have h3 : ¬ (a.toNat : Int) < b.toNat := by omega
      have h4 : ¬ (a.toNat : Int) = b.toNat := by omega
      simp [compare, compareOfLessAndEq, h1, h2, h3, h4]

theorem compareNuget_eq (a b : Bytes) :
    compareNugetPrerelease a b = ordToInt (List.compareLex compare (a.map toLowerB) (b.map toLowerB)) := by
  fun_induction compareNugetPrerelease a b <;>
    simp_all [List.compareLex_nil_nil, List.compareLex_nil_cons, List.compareLex_cons_nil,
      List.compareLex_cons_cons, sgnInt_nat_lower, thenInt_eq]

theorem compareElem_eq (sys : System) (a b : Bytes) :
    compareElem sys a b = ordToInt (elemOrd sys a b) := by
  unfold compareElem elemOrd ekey
  cases ha : isNumeric sys a <;> cases hb : isNumeric sys b <;> simp [EK.cmp, sgnInt_eq]
  by_cases hn : sys = .nuget
  · simp [hn, compareNuget_eq]
  · simp [hn, cmpBytes_eq]

theorem comparePre_eq (sys : System) (a b : List Bytes) :
    comparePre sys a b = ordToInt (List.compareLex (elemOrd sys) a b) := by
  fun_induction comparePre sys a b <;>
    simp_all [List.compareLex_nil_nil, List.compareLex_nil_cons, List.compareLex_cons_nil,
      List.compareLex_cons_cons, compareElem_eq, thenInt_eq]

/-! ## the generic comparator -/

def preOrd (sys : System) : List Bytes → List Bytes → Ordering := twist (List.compareLex (elemOrd sys))

def genericOrd (sys : System) : Version → Version → Ordering :=
  compareLex (fun a b => padLex compare 0 a.num b.num) (fun a b => preOrd sys a.pre b.pre)

instance (sys : System) : TransCmp (genericOrd sys) := by
  haveI : TransCmp (fun a b : Version => padLex compare (0 : Int) a.num b.num) :=
    TransCmp.comap (padLex compare (0 : Int)) Version.num
  haveI : TransCmp (preOrd sys) := by unfold preOrd; infer_instance
  haveI : TransCmp (fun a b : Version => preOrd sys a.pre b.pre) :=
    TransCmp.comap (preOrd sys) Version.pre
  unfold genericOrd
  infer_instance

/-- `compare` on two versions without extension, of the same system. -/
theorem compare_generic (a b : Version) (hs : a.sys = b.sys) (ha : a.ext = .none) (hb : b.ext = .none) :
    vcompare a b = .ok (ordToInt (genericOrd a.sys a b)) := by
  unfold vcompare genericOrd compareLex preOrd
  simp only [hs, ha, hb, bne_self_eq_false, Bool.false_eq_true, ↓reduceIte, compareNums_eq, ordToInt_then]
  by_cases h0 : ordToInt (padLex compare 0 a.num b.num) = 0
  · simp only [h0, bne_self_eq_false, Bool.false_eq_true, ↓reduceIte, ne_eq, not_true_eq_false]
    cases hp : a.pre <;> cases hq : b.pre <;> simp [twist, comparePre_eq]
  · simp [h0]

end DepsDev.Proofs
