import DepsDev.Proofs.C03L3NpmGe

/-!
# C03 layer L3 for npm, operator `ge`: operands with a prerelease tag; `L3Npm .ge`
-/
namespace DepsDev.Proofs.C03

open DepsDev DepsDev.Semver DepsDev.Ref

set_option linter.unusedSimpArgs false
set_option linter.unusedVariables false

theorem l3_pre_lt_ge : L3PreO .ge .lt := by l3_pre
theorem l3_pre_eq_ge : L3PreO .ge .eq := by l3_pre
theorem l3_pre_gt_ge : L3PreO .ge .gt := by l3_pre

theorem l3_npm_ge : L3Npm .ge :=
  l3_assemble _ l3_full_ge (l3_pre_assemble _ l3_pre_lt_ge l3_pre_eq_ge l3_pre_gt_ge) l3_part_ge

end DepsDev.Proofs.C03
