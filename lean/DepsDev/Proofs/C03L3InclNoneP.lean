import DepsDev.Proofs.C03L3InclNone

/-!
# C03 layer L3 for npm, operator `none`: interval membership, operands with a prerelease tag; `L1PNpm .none`
-/
namespace DepsDev.Proofs.C03

open DepsDev DepsDev.Semver DepsDev.Ref

set_option linter.unusedSimpArgs false
set_option linter.unusedVariables false

theorem l1p_pre_lt_none : L1PPreO .none .lt := by l1p_pre
theorem l1p_pre_eq_none : L1PPreO .none .eq := by l1p_pre
theorem l1p_pre_gt_none : L1PPreO .none .gt := by l1p_pre

theorem l1p_npm_none : L1PNpm .none :=
  l1p_assemble _ l1p_full_none (l1p_pre_assemble _ l1p_pre_lt_none l1p_pre_eq_none l1p_pre_gt_none) l1p_part_none

end DepsDev.Proofs.C03
