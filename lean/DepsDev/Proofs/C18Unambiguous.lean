/-
C18/B6: a checkable condition under which `F(S)` is a function (`Unambiguous S`):
version strings of the served versions contain no '>' (package names asked through
the plain path never do). Then a mangled name `name>version>path` determines the
bundler, and the bundler's response determines the entry.
-/
import DepsDev.Proofs.C18Store

namespace DepsDev.Proofs.C18
open DepsDev
open DepsDev.Model.Resolve.ApiClient

/-! ### the version TYPE of the bundler key does not matter -/

/-- forget the `vk` field of the entries stored under the bundler's own name. -/
def eraseRoot (n : Bytes) (dummy : VersionKey) (all : AllDeps) : AllDeps :=
  all.map fun x => if x.1 = n then (x.1, { x.2 with vk := dummy }) else x

theorem lookup_eraseRoot (n : Bytes) (dummy : VersionKey) (k : Bytes) : ∀ all : AllDeps,
    (eraseRoot n dummy all).lookup k =
      (all.lookup k).map fun a => if k = n then { a with vk := dummy } else a
  | [] => rfl
  | (k', a) :: rest => by
    have ih := lookup_eraseRoot n dummy k rest
    unfold eraseRoot at ih ⊢
    simp only [List.map_cons]
    by_cases hk'n : k' = n
    · simp only [hk'n, if_true]
      rw [lookup_cons_ite, lookup_cons_ite, ih]
      by_cases hk : k = n
      · simp [hk]
      · simp [hk]
    · simp only [hk'n, if_false]
      rw [lookup_cons_ite, lookup_cons_ite, ih]
      by_cases hk : k = k'
      · subst hk; simp [hk'n]
      · simp [hk]

theorem stepBundle_eraseRoot (root : VersionKey) (dummy : VersionKey) (all : AllDeps) (b : Bundle) :
    (stepBundle root all b).map (eraseRoot root.name dummy) =
      stepBundle root (eraseRoot root.name dummy all) b := by
  unfold stepBundle
  simp only
  have hm : mangledOf root b ≠ root.name := mangledOf_ne_name root b
  rw [lookup_cons_ite, lookup_cons_ite, lookup_eraseRoot]
  by_cases hp : parentNameOf root b = mangledOf root b
  · simp only [hp, if_true, Option.map_some]
    simp [eraseRoot, hm]
  · simp only [hp, if_false]
    cases hl : List.lookup (parentNameOf root b) all with
    | none => simp
    | some pb =>
      simp only [Option.map_some]
      by_cases hr : parentNameOf root b = root.name
      · simp [eraseRoot, hr, hm]
      · simp [eraseRoot, hr, hm]

theorem processBundles_eraseRoot (root : VersionKey) (dummy : VersionKey) : ∀ (bs : List Bundle) (all : AllDeps),
    (processBundles root all bs).map (eraseRoot root.name dummy) =
      processBundles root (eraseRoot root.name dummy all) bs
  | [], _ => rfl
  | b :: bs, all => by
    unfold processBundles
    rw [← stepBundle_eraseRoot]
    cases hs : stepBundle root all b with
    | none => rfl
    | some all1 => simpa using processBundles_eraseRoot root dummy bs all1

/-- the entries `Requirements` stores do not depend on the version type it is asked with. -/
theorem buildAllDeps_vtype (n v : Bytes) (t t' : VType) (reqs : NpmReqs) (k : Bytes) (hk : k ≠ n) :
    (buildAllDeps ⟨n, t, v⟩ reqs).map (fun all => all.lookup k) =
    (buildAllDeps ⟨n, t', v⟩ reqs).map (fun all => all.lookup k) := by
  have key : ∀ (tt : VType), (buildAllDeps ⟨n, tt, v⟩ reqs).map (fun all => all.lookup k) =
      (processBundles ⟨n, .concrete, v⟩
        [(n, ⟨⟨n, .concrete, v⟩, [], flattenNPMDeps reqs.dependencies⟩)] (sortBundled reqs.bundled)).map
        (fun all => all.lookup k) := by
    intro tt
    have h1 := processBundles_eraseRoot ⟨n, tt, v⟩ ⟨n, .concrete, v⟩ (sortBundled reqs.bundled)
      [(n, ⟨⟨n, tt, v⟩, [], flattenNPMDeps reqs.dependencies⟩)]
    have h2 := processBundles_eraseRoot ⟨n, .concrete, v⟩ ⟨n, .concrete, v⟩ (sortBundled reqs.bundled)
      [(n, ⟨⟨n, .concrete, v⟩, [], flattenNPMDeps reqs.dependencies⟩)]
    -- the loop body reads the bundler key through its name and version only
    have hstep : ∀ all bs, processBundles ⟨n, tt, v⟩ all bs = processBundles ⟨n, .concrete, v⟩ all bs := by
      intro all bs
      induction bs generalizing all with
      | nil => rfl
      | cons b bs ih =>
        unfold processBundles
        have : stepBundle ⟨n, tt, v⟩ all b = stepBundle ⟨n, .concrete, v⟩ all b := rfl
        rw [this]
        cases stepBundle ⟨n, .concrete, v⟩ all b with
        | none => rfl
        | some a => exact ih a
    have e0 : eraseRoot n ⟨n, .concrete, v⟩ [(n, (⟨⟨n, tt, v⟩, [], flattenNPMDeps reqs.dependencies⟩ : BundleAcc))] =
        eraseRoot n ⟨n, .concrete, v⟩ [(n, (⟨⟨n, .concrete, v⟩, [], flattenNPMDeps reqs.dependencies⟩ : BundleAcc))] := by
      simp [eraseRoot]
    simp only at h1 h2
    rw [e0] at h1
    simp only [hstep] at h1
    have h3 := h1.trans h2.symm
    -- lookups away from the bundler's own name ignore the erasure
    have lk : ∀ o : Option AllDeps, (o.map (eraseRoot n ⟨n, .concrete, v⟩)).map (fun all => all.lookup k) =
        o.map (fun all => all.lookup k) := by
      intro o
      cases o with
      | none => rfl
      | some all =>
        simp only [Option.map_some, lookup_eraseRoot, hk, if_false]
        cases List.lookup k all <;> rfl
    unfold buildAllDeps
    rw [hstep, ← lk, ← lk (processBundles ⟨n, .concrete, v⟩ _ _)]
    exact congrArg _ h3
  rw [key t, key t']

/-! ### a mangled name determines the bundler -/

theorem append_sep_inj {c : UInt8} : ∀ {a b x y : Bytes}, c ∉ a → c ∉ b →
    a ++ c :: x = b ++ c :: y → a = b ∧ x = y
  | [], [], _, _, _, _, h => by simpa using h
  | [], p :: b, _, _, _, hb, h => by
    simp only [List.nil_append, List.cons_append, List.cons.injEq] at h
    exact absurd (by simp [h.1]) hb
  | p :: a, [], _, _, ha, _, h => by
    simp only [List.nil_append, List.cons_append, List.cons.injEq] at h
    exact absurd (by simp [h.1]) ha
  | p :: a, q :: b, _, _, ha, hb, h => by
    simp only [List.cons_append, List.cons.injEq] at h
    have := append_sep_inj (a := a) (b := b) (fun m => ha (by simp [m])) (fun m => hb (by simp [m])) h.2
    exact ⟨by simp [h.1, this.1], this.2⟩

theorem not_bundle_iff (n : Bytes) : isNPMBundle n = false ↔ gtSign ∉ n := by
  simp [isNPMBundle]

/-- no served version string contains '>'. -/
def VersionsGtFree (S : Service) : Prop :=
  ∀ n v, S.getRequirements n v ≠ none → gtSign ∉ v

/-- `F(S)` is a function whenever no served version string contains '>'. -/
theorem unambiguous_of_gtfree (S : Service) (h : VersionsGtFree S) : Unambiguous S := by
  rintro k e₁ e₂ ⟨vk₁, reqs₁, all₁, acc₁, p₁, r₁, b₁, n₁, l₁, rfl⟩ ⟨vk₂, reqs₂, all₂, acc₂, p₂, r₂, b₂, n₂, l₂, rfl⟩
  -- `k` is a mangled name under both bundlers
  have m₁ : ∃ x, mangledOf vk₁ x = k := by
    rcases (buildAllDeps_invA b₁).entries k acc₁ l₁ with e | ⟨x, _, hx, _⟩
    · exact absurd e n₁
    · exact ⟨x, hx⟩
  have m₂ : ∃ x, mangledOf vk₂ x = k := by
    rcases (buildAllDeps_invA b₂).entries k acc₂ l₂ with e | ⟨x, _, hx, _⟩
    · exact absurd e n₂
    · exact ⟨x, hx⟩
  obtain ⟨x₁, hx₁⟩ := m₁
  obtain ⟨x₂, hx₂⟩ := m₂
  have g₁ := (not_bundle_iff _).mp p₁
  have g₂ := (not_bundle_iff _).mp p₂
  have v₁ := h vk₁.name vk₁.version (by simp [r₁])
  have v₂ := h vk₂.name vk₂.version (by simp [r₂])
  have e : mangledName vk₁ (pkgsOf x₁.path) = mangledName vk₂ (pkgsOf x₂.path) := hx₁.trans hx₂.symm
  unfold mangledName at e
  obtain ⟨en, e'⟩ := append_sep_inj g₁ g₂ e
  obtain ⟨ev, _⟩ := append_sep_inj v₁ v₂ e'
  -- same bundler (up to the version type), same response, same entry
  cases vk₁ with
  | mk a t c =>
    cases vk₂ with
    | mk a' t' c' =>
      simp only at en ev
      subst en ev
      rw [r₁] at r₂
      simp only [Option.some.injEq] at r₂
      subst r₂
      have := buildAllDeps_vtype a c t t' reqs₁ k n₁
      rw [b₁, b₂] at this
      simp only [Option.map_some, Option.some.injEq, l₁, l₂] at this
      rw [this]

end DepsDev.Proofs.C18
