import DepsDev.Proofs.C16MarkerRender

/-! C16: `Eval` cannot reach its `default: panic(...)` on a marker that `parseMarker` returned. -/

namespace DepsDev.Proofs.C16NoPanic
open DepsDev DepsDev.Pypi DepsDev.Proofs.C16MarkerRender

/-- Invariant of parsed trees: a comparison either involves `extra`, or carries a constraint,
or has one of the operators the string switch handles. -/
def TreeOK : Marker → Bool
  | .expr op l r cons =>
    (l.name == extraName || r.name == extraName) || cons.isSome || (1 ≤ op && op ≤ 10 && op != 7)
  | .and a b => TreeOK a && TreeOK b
  | .or a b => TreeOK a && TreeOK b

theorem eval_no_panic (extras : List Bytes) : ∀ M : Marker, TreeOK M = true → (M.eval extras).isPanic = false
  | .expr op l r cons, h => by
    unfold Marker.eval
    by_cases hx : (l.name == extraName || r.name == extraName) = true
    · simp [hx, Outcome.isPanic]
    · simp only [hx, Bool.false_eq_true, if_false]
      cases cons with
      | some b => rfl
      | none =>
        simp only [TreeOK, hx, Option.isSome_none, Bool.false_or, Bool.and_eq_true, decide_eq_true_eq,
          bne_iff_ne, ne_eq] at h
        obtain ⟨⟨h1, h2⟩, h3⟩ := h
        have : op = 1 ∨ op = 2 ∨ op = 3 ∨ op = 4 ∨ op = 5 ∨ op = 6 ∨ op = 8 ∨ op = 9 ∨ op = 10 := by omega
        rcases this with rfl | rfl | rfl | rfl | rfl | rfl | rfl | rfl | rfl <;>
          simp [opLessEqual, opLess, opNotEqual, opEqualEqual, opEqualEqualEqual, opGreaterEqual, opGreater,
            opIn, opNotIn, Outcome.isPanic]
  | .and a b, h => by
    simp only [TreeOK, Bool.and_eq_true] at h
    have ha := eval_no_panic extras a h.1
    have hb := eval_no_panic extras b h.2
    unfold Marker.eval
    split
    · exact hb
    · exact ha
  | .or a b, h => by
    simp only [TreeOK, Bool.and_eq_true] at h
    have ha := eval_no_panic extras a h.1
    have hb := eval_no_panic extras b h.2
    unfold Marker.eval
    split
    · exact hb
    · exact ha

theorem acceptOp_mem {s : Bytes} : ∀ {L : List Nat} {o : Nat} {r : Bytes},
    acceptOp s L = .ok (some (o, r)) → o ∈ L
  | [], _, _, h => by simp [acceptOp] at h
  | x :: L, o, r, h => by
    unfold acceptOp at h
    split at h
    · cases h
    · rename_i str _
      cases ha : accept str s with
      | some r' =>
        simp only [ha, Outcome.ok.injEq, Option.some.injEq, Prod.mk.injEq] at h
        simp [h.1]
      | none =>
        simp only [ha] at h
        exact List.mem_cons_of_mem _ (acceptOp_mem h)

theorem parseMarkerOp_range {s r : Bytes} {o : Nat} (h : parseMarkerOp s = .ok (o, r)) : 1 ≤ o ∧ o ≤ 10 := by
  unfold parseMarkerOp at h
  simp only at h
  split at h
  · rename_i x hx
    simp only [Outcome.ok.injEq] at h
    subst h
    have hm := acceptOp_mem hx
    have hall : Gen.C16PypiEnv.markerOpsByLength.all (fun o => 1 ≤ o && o ≤ 9) = true := by decide
    have := List.all_eq_true.mp hall _ hm
    simp at this; omega
  · split at h
    · cases h
    · split at h
      · cases h
      · split at h
        · cases h
        · simp only [Outcome.ok.injEq, Prod.mk.injEq] at h
          rw [← h.1]; decide
  · cases h
  · cases h

theorem mkExpr_ok (sv : Semver) {o : Nat} {l r : MarkerVar} {e : Marker}
    (h : mkExpr sv o l r = .ok e) (ho : 1 ≤ o ∧ o ≤ 10) : TreeOK e = true := by
  unfold mkExpr at h
  split at h
  · cases h
  · rename_i htilde
    by_cases hc : (l.hasVersion && r.hasVersion && o != opEqualEqualEqual) = true
    · simp only [hc, if_true, bind, Outcome.bind] at h
      cases hcl : sv.cmpLeaf l.value o r.value with
      | err => simp [hcl] at h
      | panic p => simp [hcl] at h
      | ok b =>
        simp only [hcl] at h
        split at h
        · cases h
        · simp only [pure, Outcome.ok.injEq] at h
          subst h
          simp [TreeOK]
    · simp only [hc, Bool.false_eq_true, if_false, bind, Outcome.bind, pure] at h
      split at h
      · cases h
      · simp only [Outcome.ok.injEq] at h
        subst h
        -- o is not ~=: otherwise one operand is not a version and the first check fails
        have h7 : o ≠ 7 := by
          intro h7
          subst h7
          simp [opTildeEqual, opEqualEqualEqual] at htilde hc
          cases hl : l.hasVersion <;> cases hr : r.hasVersion <;> simp_all
        simp only [TreeOK, Option.isSome_none, Bool.false_or, Bool.or_eq_true, Bool.and_eq_true,
          decide_eq_true_eq, bne_iff_ne, ne_eq]
        right; exact ⟨ho, h7⟩

theorem parseLeaf_ok (sv : Semver) {s r : Bytes} {M : Marker} (h : parseLeaf sv s = .ok (M, r)) :
    TreeOK M = true := by
  unfold parseLeaf at h
  cases h1 : parseMarkerVar sv s with
  | err => simp [h1, bind, Outcome.bind] at h
  | panic p => simp [h1, bind, Outcome.bind] at h
  | ok x1 =>
    obtain ⟨l, s1⟩ := x1
    simp only [h1, bind, Outcome.bind] at h
    cases h2 : parseMarkerOp s1 with
    | err => simp [h2] at h
    | panic p => simp [h2] at h
    | ok x2 =>
      obtain ⟨o, s2⟩ := x2
      simp only [h2] at h
      cases h3 : parseMarkerVar sv s2 with
      | err => simp [h3] at h
      | panic p => simp [h3] at h
      | ok x3 =>
        obtain ⟨r', s3⟩ := x3
        simp only [h3] at h
        cases h4 : mkExpr sv o l r' with
        | err => simp [h4] at h
        | panic p => simp [h4] at h
        | ok e =>
          simp only [h4, pure, Outcome.ok.injEq, Prod.mk.injEq] at h
          rw [← h.1]
          exact mkExpr_ok sv h4 (parseMarkerOp_range h2)

theorem parsed_ok (sv : Semver) : ∀ fuel : Nat, ∀ (s r : Bytes) (M : Marker),
    (parseMarkerExpr sv fuel s = .done (.ok (M, r)) → TreeOK M = true) ∧
    (parseMarkerAnd sv fuel s = .done (.ok (M, r)) → TreeOK M = true) ∧
    (parseMarkerOr sv fuel s = .done (.ok (M, r)) → TreeOK M = true) := by
  intro fuel
  induction fuel with
  | zero =>
    intro s r M
    refine ⟨fun h => ?_, fun h => ?_, fun h => ?_⟩
    · rw [parseMarkerExpr] at h; cases h
    · rw [parseMarkerAnd] at h; cases h
    · rw [parseMarkerOr] at h; cases h
  | succ f ih =>
    intro s r M
    refine ⟨fun h => ?_, fun h => ?_, fun h => ?_⟩
    · rw [expr_step] at h
      cases ha : accept [40] (skipWsp s) with
      | none =>
        simp only [ha, Fuelled.done.injEq] at h
        exact parseLeaf_ok sv h
      | some s1 =>
        simp only [ha] at h
        cases hr : parseMarkerOr sv f s1 with
        | outOfFuel => simp [hr, Fuelled.bind] at h
        | done o =>
          cases o with
          | err => simp [hr] at h
          | panic p => simp [hr] at h
          | ok x =>
            obtain ⟨M', r1⟩ := x
            simp only [hr, fbind_ok] at h
            cases hb : accept [41] r1 with
            | none => simp [hb] at h
            | some s2 =>
              simp only [hb, Fuelled.done.injEq, Outcome.ok.injEq, Prod.mk.injEq] at h
              rw [← h.1]
              exact (ih s1 r1 M').2.2 hr
    · rw [and_step] at h
      cases hr : parseMarkerExpr sv f s with
      | outOfFuel => simp [hr, Fuelled.bind] at h
      | done o =>
        cases o with
        | err => simp [hr] at h
        | panic p => simp [hr] at h
        | ok x =>
          obtain ⟨L, r1⟩ := x
          have hL := (ih s r1 L).1 hr
          simp only [hr, fbind_ok] at h
          cases ha : accept [97, 110, 100] (skipWsp r1) with
          | none =>
            simp only [ha, Fuelled.done.injEq, Outcome.ok.injEq, Prod.mk.injEq] at h
            rw [← h.1]; exact hL
          | some s2 =>
            simp only [ha] at h
            cases hr2 : parseMarkerAnd sv f s2 with
            | outOfFuel => simp [hr2, Fuelled.bind] at h
            | done o2 =>
              cases o2 with
              | err => simp [hr2] at h
              | panic p => simp [hr2] at h
              | ok y =>
                obtain ⟨R, r2⟩ := y
                simp only [hr2, fbind_ok, Fuelled.done.injEq, Outcome.ok.injEq, Prod.mk.injEq] at h
                rw [← h.1]
                simp [TreeOK, hL, (ih s2 r2 R).2.1 hr2]
    · rw [or_step] at h
      cases hr : parseMarkerAnd sv f s with
      | outOfFuel => simp [hr, Fuelled.bind] at h
      | done o =>
        cases o with
        | err => simp [hr] at h
        | panic p => simp [hr] at h
        | ok x =>
          obtain ⟨L, r1⟩ := x
          have hL := (ih s r1 L).2.1 hr
          simp only [hr, fbind_ok] at h
          cases ha : accept [111, 114] (skipWsp r1) with
          | none =>
            simp only [ha, Fuelled.done.injEq, Outcome.ok.injEq, Prod.mk.injEq] at h
            rw [← h.1]; exact hL
          | some s2 =>
            simp only [ha] at h
            cases hr2 : parseMarkerOr sv f s2 with
            | outOfFuel => simp [hr2, Fuelled.bind] at h
            | done o2 =>
              cases o2 with
              | err => simp [hr2] at h
              | panic p => simp [hr2] at h
              | ok y =>
                obtain ⟨R, r2⟩ := y
                simp only [hr2, fbind_ok, Fuelled.done.injEq, Outcome.ok.injEq, Prod.mk.injEq] at h
                rw [← h.1]
                simp [TreeOK, hL, (ih s2 r2 R).2.2 hr2]

/-- `Eval` does not panic on any marker `parseMarker` accepted, whatever the extras. -/
theorem eval_parsed_no_panic (sv : Semver) (raw : Bytes) (M : Marker) (extras : List Bytes)
    (h : parseMarker sv raw = .ok M) : (M.eval extras).isPanic = false := by
  apply eval_no_panic
  unfold parseMarker at h
  split at h
  · rename_i M' hM
    simp only [Outcome.ok.injEq] at h
    subst h
    exact (parsed_ok sv _ raw [] M').2.2 hM
  all_goals cases h

end DepsDev.Proofs.C16NoPanic
