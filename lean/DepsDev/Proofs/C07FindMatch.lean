import DepsDev.Model.Resolve.Maven

/-! C07 helper lemmas about `findMatch`. -/

namespace DepsDev.Resolve.Maven

def isHard (u : Universe) (r : Bytes) : Bool := reqKind u r == .hard

theorem scan_hard {u : Universe} {name : Bytes} :
    ∀ (rs : List Bytes) (i : Nat) (s s' : Scan), scan u name rs i s = .ok s' →
      s'.hardConstraints = s.hardConstraints ++ rs.filter (isHard u) := by
  intro rs
  induction rs with
  | nil => intro i s s' h; simp only [scan] at h; cases h; simp
  | cons r rs ih =>
    intro i s s' h
    simp only [scan] at h
    split at h
    · cases h
    · rename_i hk
      have := ih _ _ _ h
      simp [this, isHard, hk]
    · rename_i hk
      split at h
      · cases h
      · rename_i s1 hs1
        have hh : s1.hardConstraints = s.hardConstraints := by
          split at hs1
          · cases hs1; rfl
          · split at hs1
            · cases hs1
            · cases hs1; rfl
        split at h
        · cases h
        · have := ih _ _ _ h
          simp [this, isHard, hk, hh]

theorem pick_ok {u : Universe} {name : Bytes} {s : Scan} :
    ∀ (softs : List Bytes) (i : Nat) (v : Bytes), pick u name s softs i = .ok v →
      matchesAll u s.hardConstraints v = true := by
  intro softs
  induction softs with
  | nil =>
    intro i v h
    simp only [pick] at h
    split at h
    · split at h
      · rename_i w hw
        cases h
        simpa using List.find?_some hw
      · cases h
    · cases h
  | cons vk rest ih =>
    intro i v h
    simp only [pick] at h
    split at h
    · rename_i w hw
      cases h
      split at hw
      · simpa using List.find?_some hw
      · cases hw
    · split at h
      · rename_i hm
        split at h
        · cases h; exact hm
        · cases h
      · exact ih _ _ h

/-- What `findMatch` returns satisfies every hard requirement of the list. -/
theorem findMatch_sat {u : Universe} {name : Bytes} {reqs : List Bytes} {v : Bytes}
    (h : findMatch u name reqs = .ok v) :
    ∀ r ∈ reqs, reqKind u r = .hard → reqMatches u r v = true := by
  unfold findMatch at h
  split at h
  · cases h
  · split at h
    · rename_i e _
      subst h
      -- an error value is never `.ok`; but `e` is a FindMatch, so it could be: rule it out via scan
      rename_i hs
      intro r hr hk
      exact absurd hs (by
        intro hs
        -- scan never fails with `.ok _`
        have : ∀ (rs : List Bytes) (i : Nat) (s : Scan) (w : Bytes), scan u name rs i s ≠ .error (.ok w) := by
          intro rs
          induction rs with
          | nil => intro i s w h; simp [scan] at h
          | cons r rs ih =>
            intro i s w h
            simp only [scan] at h
            split at h
            · cases h
            · exact ih _ _ _ h
            · split at h
              · rename_i e' he'
                cases h
                split at he'
                · cases he'
                · split at he'
                  · cases he'
                  · cases he'
              · split at h
                · cases h
                · exact ih _ _ _ h
        exact this _ _ _ _ hs)
    · rename_i s hs
      have hp := pick_ok _ _ _ h
      have hh := scan_hard _ _ _ _ hs
      simp only [List.nil_append] at hh
      intro r hr hk
      have : r ∈ s.hardConstraints := by
        rw [hh]; simp [isHard, hr, hk]
      simp only [matchesAll, List.all_eq_true] at hp
      exact hp r this

theorem scan_all_soft {u : Universe} {name : Bytes} :
    ∀ (rs : List Bytes) (i : Nat) (s : Scan), (∀ r ∈ rs, reqKind u r = .soft) →
      scan u name rs i s = .ok { s with softVersions := s.softVersions ++ rs } := by
  intro rs
  induction rs with
  | nil => intro i s _; simp [scan]
  | cons r rs ih =>
    intro i s h
    have hr : reqKind u r = .soft := h r (by simp)
    simp only [scan, hr]
    rw [ih _ _ (fun x hx => h x (by simp [hx]))]
    simp

/-- With only soft requirements `findMatch` asks the client for the first one. -/
theorem findMatch_all_soft {u : Universe} {name : Bytes} {r0 : Bytes} {rest : List Bytes}
    (h : ∀ r ∈ r0 :: rest, reqKind u r = .soft) :
    findMatch u name (r0 :: rest) =
      match clientVersion u name r0 with
      | some _ => .ok r0
      | none => .errNotFound := by
  unfold findMatch
  simp only [scan_all_soft _ _ _ h, List.nil_append]
  cases hc : clientVersion u name r0 <;> simp [pick, matchesAll, hc]

theorem findMatch_all_soft_ok {u : Universe} {name : Bytes} {r0 v : Bytes} {rest : List Bytes}
    (h : ∀ r ∈ r0 :: rest, reqKind u r = .soft) (hf : findMatch u name (r0 :: rest) = .ok v) : v = r0 := by
  rw [findMatch_all_soft h] at hf
  split at hf
  · cases hf; rfl
  · cases hf

theorem findMatch_all_soft_ne_noMatch {u : Universe} {name : Bytes} {r0 : Bytes} {rest : List Bytes}
    (h : ∀ r ∈ r0 :: rest, reqKind u r = .soft) : findMatch u name (r0 :: rest) ≠ .noMatch := by
  rw [findMatch_all_soft h]
  split <;> simp

/-! ### no unparsable requirement survives `findMatch`; one range after soft requirements always has an answer -/

theorem scan_error {u : Universe} {name : Bytes} :
    ∀ (rs : List Bytes) (i : Nat) (s : Scan) (e : FindMatch), scan u name rs i s = .error e →
      e = .errOther ∨ e = .errNotFound := by
  intro rs
  induction rs with
  | nil => intro i s e h; simp [scan] at h
  | cons r rs ih =>
    intro i s e h
    simp only [scan] at h
    split at h
    · cases h; exact .inl rfl
    · exact ih _ _ _ h
    · split at h
      · rename_i e' he'
        cases h
        split at he'
        · cases he'
        · split at he'
          · cases he'; exact .inr rfl
          · cases he'
      · split at h
        · cases h; exact .inl rfl
        · exact ih _ _ _ h

theorem scan_ok_no_bad {u : Universe} {name : Bytes} :
    ∀ (rs : List Bytes) (i : Nat) (s s' : Scan), scan u name rs i s = .ok s' →
      ∀ r ∈ rs, reqKind u r ≠ .bad := by
  intro rs
  induction rs with
  | nil => intro i s s' _ r hr; cases hr
  | cons r rs ih =>
    intro i s s' h x hx
    simp only [scan] at h
    split at h
    · cases h
    · rename_i hk
      simp only [List.mem_cons] at hx
      rcases hx with rfl | hx
      · rw [hk]; simp
      · exact ih _ _ _ h x hx
    · rename_i hk
      split at h
      · cases h
      · split at h
        · cases h
        · simp only [List.mem_cons] at hx
          rcases hx with rfl | hx
          · rw [hk]; simp
          · exact ih _ _ _ h x hx

/-- If `findMatch` answers (a version or "no match"), no requirement of the list is unparsable. -/
theorem findMatch_no_bad {u : Universe} {name : Bytes} {reqs : List Bytes}
    (h : (∃ v, findMatch u name reqs = .ok v) ∨ findMatch u name reqs = .noMatch) :
    ∀ r ∈ reqs, reqKind u r ≠ .bad := by
  unfold findMatch at h
  split at h
  · intro r hr; cases hr
  · split at h
    · rename_i e hs
      rcases scan_error _ _ _ _ hs with rfl | rfl
      · rcases h with ⟨v, h⟩ | h <;> cases h
      · rcases h with ⟨v, h⟩ | h <;> cases h
    · rename_i s hs
      exact scan_ok_no_bad _ _ _ _ hs

theorem scan_append {u : Universe} {name : Bytes} :
    ∀ (a b : List Bytes) (i : Nat) (s : Scan),
      scan u name (a ++ b) i s =
        match scan u name a i s with
        | .ok s' => scan u name b (i + a.length) s'
        | .error e => .error e := by
  intro a
  induction a with
  | nil => intro b i s; simp [scan]
  | cons r a ih =>
    intro b i s
    simp only [List.cons_append, scan, List.length_cons]
    split
    · rfl
    · rw [ih]; simp [Nat.add_assoc, Nat.add_comm 1]
    · split
      · rfl
      · split
        · rfl
        · rw [ih]; simp [Nat.add_assoc, Nat.add_comm 1]

theorem pick_ne_noMatch {u : Universe} {name : Bytes} {s : Scan}
    (hfind : ∃ v, s.versions.find? (matchesAll u s.hardConstraints) = some v) :
    ∀ (l : List Bytes) (i : Nat), s.hardIdx = some (i + l.length) → pick u name s l i ≠ .noMatch := by
  obtain ⟨v, hv⟩ := hfind
  intro l
  induction l with
  | nil =>
    intro i hi
    simp only [List.length_nil, Nat.add_zero] at hi
    simp [pick, hi, hv]
  | cons vk rest ih =>
    intro i hi
    simp only [pick]
    split
    · simp
    · split
      · split <;> simp
      · exact ih (i + 1) (by rw [hi]; simp only [List.length_cons]; congr 1; omega)

/-- One range requirement after soft ones: `findMatch` never answers "no match" (it returns a
version, or fails fatally when no listed version is in the range). -/
theorem findMatch_softs_hard_ne_noMatch {u : Universe} {name : Bytes} {softs : List Bytes} {h : Bytes}
    (hs : ∀ r ∈ softs, reqKind u r = .soft) (hh : reqKind u h = .hard) :
    findMatch u name (softs ++ [h]) ≠ .noMatch := by
  unfold findMatch
  split
  · rename_i heq; simp at heq
  · rw [scan_append, scan_all_soft _ _ _ hs]
    simp only [List.nil_append, Nat.zero_add, scan, hh]
    cases hc : clientVersions u name with
    | none => simp
    | some vs =>
      simp only
      by_cases hany : (vs.reverse.any fun v => reqMatches u h v) = true
      · simp only [hany, Bool.not_true, Bool.false_eq_true, if_false]
        apply pick_ne_noMatch
        · simp only [List.nil_append]
          have hp : matchesAll u [h] = fun v => reqMatches u h v := by
            funext v; simp [matchesAll]
          rw [hp]
          simp only [List.any_eq_true] at hany
          obtain ⟨v, hv, hm⟩ := hany
          cases hf : vs.reverse.find? (fun v => reqMatches u h v) with
          | none =>
            have := List.find?_eq_none.mp hf v hv
            simp [hm] at this
          | some w => exact ⟨w, rfl⟩
        · simp
      · simp [hany]

end DepsDev.Resolve.Maven
