/-
Helper lemmas for C19, part 2: the register machine.
Every op other than the raw struct copy either leaves the state alone or rewrites ONE
register `t` in the way described by `Upd` (only that register's own map, or fresh
maps, are written). `Upd` preserves the invariant and the view of every other register.
-/
import DepsDev.Proofs.C19Heap

namespace DepsDev.Proofs.C19
open DepsDev DepsDev.Gen DepsDev.Model.Resolve DepsDev.Model.Resolve.Attr DepsDev.Model.Resolve.AttrMachine
open DepsDev.Model.Resolve.AttrText DepsDev.Model.Resolve.AttrSpec

/-- `s'` was built in `h'` from a private set, starting from heap `h`: nothing
allocated in `h` changed and the map of `s'` (if any) is newer than `h`. -/
structure Fresh (h h' : Heap) (s' : Set) : Prop where
  ext : Heap.Ext h h'
  ref : ∀ r, s'.ref = some r → h.next ≤ r
  ok : SetOK h' s'

theorem fresh_zero (h : Heap) : Fresh h h Set.zero :=
  ⟨⟨Nat.le_refl _, fun _ _ => rfl⟩, fun r hr => by simp [Set.zero] at hr, setOK_zero h⟩

theorem addAttr_fresh {h h1 h2 : Heap} {s s2 : Set} {k : Int} {v : Bytes}
    (hf : Fresh h h1 s) (he : addAttr h1 s k v = .ok (h2, s2)) : Fresh h h2 s2 := by
  unfold addAttr at he
  split at he
  · -- flag: only the mask changes
    injection he with he; injection he with e1 e2; subst e1; subst e2
    exact ⟨hf.ext, hf.ref, ⟨hf.ok.wf, hf.ok.bitsOK, hf.ok.bitsLt⟩⟩
  · by_cases hk : k.toNat < C19AttrKeys.setAttrKeyLimit
    · obtain ⟨h', s', r', hset, hr', hor, hn, hlt, hcells, _, _, _, hok⟩ :=
        setAttr_spec h1 s k.toNat v hf.ok hk
      rw [hset] at he
      injection he with he; injection he with e1 e2; subst e1; subst e2
      have hge : h.next ≤ r' := by
        rcases hor with hor | ⟨_, hor⟩
        · exact hf.ref r' hor
        · rw [hor]; exact hf.ext.1
      refine ⟨⟨Nat.le_trans hf.ext.1 hn, ?_⟩, ?_, hok⟩
      · intro r hr
        rw [hcells r (by omega)]
        exact hf.ext.2 r hr
      · intro r hr; rw [hr'] at hr; injection hr with hr; subst hr; exact hge
    · have : setAttr h1 s k.toNat v = .panic := (setAttr_panic_iff _ _ _ _).mpr (by omega)
      rw [this] at he; cases he

theorem applyAttrs_fresh {h : Heap} (calls : List (Int × Bytes)) :
    ∀ {h1 h2 : Heap} {s s2 : Set}, Fresh h h1 s → applyAttrs h1 s calls = .ok (h2, s2) → Fresh h h2 s2 := by
  induction calls with
  | nil =>
    intro h1 h2 s s2 hf he
    simp [applyAttrs] at he
    obtain ⟨e1, e2⟩ := he; subst e1; subst e2; exact hf
  | cons kv rest ih =>
    intro h1 h2 s s2 hf he
    obtain ⟨k, v⟩ := kv
    simp only [applyAttrs] at he
    split at he
    · rename_i h' s' heq
      exact ih (addAttr_fresh hf heq) he
    · cases he
    · cases he

theorem depParseString_fresh {h h' : Heap} {txt : Bytes} {s' : Set}
    (he : depParseString h txt = .ok (h', s')) : Fresh h h' s' := by
  unfold depParseString at he
  split at he
  · split at he
    · exact applyAttrs_fresh _ (fresh_zero h) he
    · cases he
    · cases he
  · cases he
  · cases he

theorem versionParseString_fresh {h h' : Heap} {txt : Bytes} {s' : Set}
    (he : versionParseString h txt = .ok (h', s')) : Fresh h h' s' := by
  unfold versionParseString at he
  split at he
  · exact applyAttrs_fresh _ (fresh_zero h) he
  · cases he
  · cases he

theorem versionParseSingle_fresh {h h' : Heap} {txt : Bytes} {s' : Set}
    (he : versionParseSingle h txt = .ok (h', s')) : Fresh h h' s' := by
  dsimp only [versionParseSingle] at he
  split at he
  · cases he
  · split at he
    · cases he
    · exact addAttr_fresh (fresh_zero h) he

/-- `st'` is `st` with register `t` rewritten; the only allocated map that may have
been written is the one register `t` held. -/
structure Upd (st st' : State) (t : Nat) : Prop where
  others : ∀ i, i ≠ t → st'.regs i = st.regs i
  next_le : st.heap.next ≤ st'.heap.next
  frame : ∀ r, r < st.heap.next → (st.regs t).ref ≠ some r → st'.heap.cells r = st.heap.cells r
  ref' : ∀ r, (st'.regs t).ref = some r → (st.regs t).ref = some r ∨ st.heap.next ≤ r
  ok' : SetOK st'.heap (st'.regs t)

theorem Upd.other_attrs {st st' : State} {t : Nat} (hinv : Inv st) (hu : Upd st st' t) (i : Nat)
    (hi : i ≠ t) : SetOK st'.heap (st'.regs i) ∧ (st'.regs i).attrs st'.heap = (st.regs i).attrs st.heap := by
  rw [hu.others i hi]
  apply SetOK.frame (hinv.ok i) hu.next_le
  intro r hr
  apply hu.frame r ((hinv.ok i).wf r hr)
  intro ht
  exact hi (hinv.noAlias i t r hr ht)

/-- `Upd` preserves the invariant. -/
theorem Upd.inv {st st' : State} {t : Nat} (hinv : Inv st) (hu : Upd st st' t) : Inv st' := by
  constructor
  · intro i
    by_cases hi : i = t
    · subst hi; exact hu.ok'
    · exact (hu.other_attrs hinv i hi).1
  · intro i j r hri hrj
    by_cases hi : i = t
    · by_cases hj : j = t
      · rw [hi, hj]
      · subst hi
        rw [hu.others j hj] at hrj
        rcases hu.ref' r hri with h1 | h1
        · exact hinv.noAlias _ _ r h1 hrj
        · have := (hinv.ok j).wf r hrj; omega
    · by_cases hj : j = t
      · subst hj
        rw [hu.others i hi] at hri
        rcases hu.ref' r hrj with h1 | h1
        · exact hinv.noAlias _ _ r hri h1
        · have := (hinv.ok i).wf r hri; omega
      · rw [hu.others i hi] at hri
        rw [hu.others j hj] at hrj
        exact hinv.noAlias i j r hri hrj

/-- Frame: `Upd` on register `t` leaves the view of every other register alone. -/
theorem Upd.view {st st' : State} {t : Nat} (hinv : Inv st) (hu : Upd st st' t) (i : Nat)
    (hi : i ≠ t) : view st' i = view st i := by
  have := (hu.other_attrs hinv i hi).2
  unfold AttrSpec.view
  rw [this, hu.others i hi]

/-! ### building `Upd` -/

theorem setReg_regs_self (st : State) (r : Nat) (s : Set) : (st.setReg r s).regs r = s := by
  simp [State.setReg]

theorem setReg_regs_other (st : State) (r i : Nat) (s : Set) (h : i ≠ r) :
    (st.setReg r s).regs i = st.regs i := by
  simp [State.setReg, h]

/-- writing a set that is `Fresh` into register `t`. -/
theorem upd_of_fresh (st : State) (t : Nat) {h' : Heap} {s' : Set} (hf : Fresh st.heap h' s') :
    Upd st ((State.mk h' st.regs).setReg t s') t :=
  ⟨fun i hi => setReg_regs_other _ _ _ _ hi, hf.ext.1, fun r hr _ => hf.ext.2 r hr,
   fun r hr => by rw [setReg_regs_self] at hr; exact Or.inr (hf.ref r hr),
   by rw [setReg_regs_self]; exact hf.ok⟩

theorem upd_zero (st : State) (t : Nat) : Upd st (st.setReg t Set.zero) t :=
  upd_of_fresh st t (fresh_zero st.heap)

/-- changing only the mask of register `t`. -/
theorem upd_mask (st : State) (hinv : Inv st) (t m : Nat) :
    Upd st (st.setReg t { st.regs t with mask := m }) t :=
  ⟨fun i hi => setReg_regs_other _ _ _ _ hi, Nat.le_refl _, fun _ _ _ => rfl,
   fun r hr => by rw [setReg_regs_self] at hr; exact Or.inl hr,
   by rw [setReg_regs_self]
      exact ⟨(hinv.ok t).wf, (hinv.ok t).bitsOK, (hinv.ok t).bitsLt⟩⟩

theorem upd_setAttr (st : State) (hinv : Inv st) (t key : Nat) (v : Bytes) {h' : Heap} {s' : Set}
    (he : setAttr st.heap (st.regs t) key v = .ok (h', s')) :
    Upd st ((State.mk h' st.regs).setReg t s') t := by
  by_cases hk : key < C19AttrKeys.setAttrKeyLimit
  · obtain ⟨h2, s2, r', hset, hr', hor, hn, hlt, hcells, _, _, _, hok⟩ :=
      setAttr_spec st.heap (st.regs t) key v (hinv.ok t) hk
    rw [hset] at he
    injection he with he; injection he with e1 e2; subst e1; subst e2
    refine ⟨fun i hi => setReg_regs_other _ _ _ _ hi, hn, ?_, ?_, ?_⟩
    · intro r hr hne
      apply hcells
      intro e; subst e
      rcases hor with hor | ⟨_, hor⟩
      · exact hne hor
      · omega
    · intro r hr
      rw [setReg_regs_self, hr'] at hr
      injection hr with hr; subst hr
      rcases hor with hor | ⟨_, hor⟩
      · exact Or.inl hor
      · exact Or.inr (by omega)
    · rw [setReg_regs_self]; exact hok
  · have : setAttr st.heap (st.regs t) key v = .panic := (setAttr_panic_iff _ _ _ _).mpr (by omega)
    rw [this] at he; cases he

theorem upd_addAttr (st : State) (hinv : Inv st) (t : Nat) (key : Int) (v : Bytes) {h' : Heap} {s' : Set}
    (he : addAttr st.heap (st.regs t) key v = .ok (h', s')) :
    Upd st ((State.mk h' st.regs).setReg t s') t := by
  unfold addAttr at he
  split at he
  · injection he with he; injection he with e1 e2; subst e1; subst e2
    exact upd_mask st hinv t _
  · exact upd_setAttr st hinv t _ v he

theorem upd_clone (st : State) (hinv : Inv st) (r t : Nat) :
    Upd st ((State.mk (clone st.heap (st.regs r)).1 st.regs).setReg t (clone st.heap (st.regs r)).2) t := by
  obtain ⟨hr, hn, hcells, _, _, _, hok⟩ := clone_spec st.heap (st.regs r) (hinv.ok r)
  refine ⟨fun i hi => setReg_regs_other _ _ _ _ hi, ?_, ?_, ?_, ?_⟩
  · show st.heap.next ≤ (clone st.heap (st.regs r)).1.next
    rw [hn]; omega
  · intro r0 hr0 _
    exact hcells r0 (by omega)
  · intro r0 h0
    rw [setReg_regs_self, hr] at h0
    injection h0 with h0; subst h0
    exact Or.inr (Nat.le_refl _)
  · rw [setReg_regs_self]; exact hok

/-- The effect of one op (other than the raw struct copy) on a state satisfying the
invariant: nothing, or an `Upd` of its target register. -/
theorem exec_effect (k : Kind) (st st' : State) (op : Op) (o : Obs) (hinv : Inv st)
    (hnc : op.noCopy = true) (he : exec k st op = .ok st' o) :
    match op.target with
    | none => st' = st
    | some t => Upd st st' t := by
  cases op with
  | new r =>
    simp only [exec] at he
    injection he with e1 e2; subst e1
    exact upd_zero st r
  | set r key v =>
    simp only [exec] at he
    split at he
    · cases he
    · split at he
      · rename_i h s heq
        injection he with e1 e2; subst e1
        simp only [Op.target]
        cases k with
        | a => exact upd_setAttr st hinv r _ v heq
        | d => exact upd_addAttr st hinv r _ v heq
        | v => exact upd_addAttr st hinv r _ v heq
      · cases he
      · cases he
  | orMask r n =>
    simp only [exec] at he
    split at he
    · cases he
    · injection he with e1 e2; subst e1
      exact upd_mask st hinv r _
  | clone r r2 =>
    simp only [exec] at he
    injection he with e1 e2; subst e1
    exact upd_clone st hinv r r2
  | copy r r2 => simp [Op.noCopy] at hnc
  | cmp r r2 => simp only [exec] at he; injection he with e1 e2; exact e1.symm
  | get r key =>
    simp only [exec] at he
    split at he
    · cases he
    · injection he with e1 e2; exact e1.symm
  | isReg r => simp only [exec] at he; injection he with e1 e2; exact e1.symm
  | each r =>
    simp only [exec] at he
    split at he
    · injection he with e1 e2; exact e1.symm
    · cases he
  | str r =>
    simp only [exec] at he
    split at he
    · cases he
    · injection he with e1 e2; exact e1.symm
    · injection he with e1 e2; exact e1.symm
  | vstr r =>
    simp only [exec] at he
    split at he
    · cases he
    · injection he with e1 e2; exact e1.symm
  | write r =>
    simp only [exec] at he
    split at he
    · cases he
    · injection he with e1 e2; exact e1.symm
  | classify r =>
    simp only [exec] at he
    split at he
    · cases he
    · injection he with e1 e2; exact e1.symm
    · injection he with e1 e2; exact e1.symm
  | parse r txt =>
    simp only [exec] at he
    split at he
    · cases he
    · split at he
      · rename_i h s heq
        injection he with e1 e2; subst e1
        simp only [Op.target]
        apply upd_of_fresh
        split at heq
        · exact depParseString_fresh heq
        · exact versionParseString_fresh heq
      · injection he with e1 e2; subst e1; exact upd_zero st r
      · cases he
  | parseSingle r txt =>
    simp only [exec] at he
    split at he
    · cases he
    · split at he
      · rename_i h s heq
        injection he with e1 e2; subst e1
        exact upd_of_fresh st r (versionParseSingle_fresh heq)
      · injection he with e1 e2; subst e1; exact upd_zero st r
      · cases he
  | roundTrip r r2 =>
    simp only [exec] at he
    split at he
    · cases he
    · split at he
      · rename_i h s heq
        injection he with e1 e2; subst e1
        simp only [Op.target]
        apply upd_of_fresh
        split at heq
        · exact depParseString_fresh heq
        · exact versionParseString_fresh heq
      · injection he with e1 e2; subst e1; exact upd_zero st r2
      · cases he
  | single r key v =>
    simp only [exec] at he
    split at he
    · cases he
    · split at he
      · rename_i h s heq
        injection he with e1 e2; subst e1
        exact upd_of_fresh st r (versionParseSingle_fresh heq)
      · injection he with e1 e2; subst e1; exact upd_zero st r
      · cases he
  | matrix n => simp only [exec] at he; injection he with e1 e2; exact e1.symm
  | dump n => simp only [exec] at he; injection he with e1 e2; exact e1.symm

theorem inv_init : Inv State.init :=
  ⟨fun _ => setOK_zero _, fun i j r hr _ => by simp [State.init, Set.zero] at hr⟩

/-- One op preserves the invariant. -/
theorem exec_inv (k : Kind) (st st' : State) (op : Op) (o : Obs) (hinv : Inv st)
    (hnc : op.noCopy = true) (he : exec k st op = .ok st' o) : Inv st' := by
  have := exec_effect k st st' op o hinv hnc he
  cases ht : op.target with
  | none => rw [ht] at this; rw [this]; exact hinv
  | some t => rw [ht] at this; exact this.inv hinv

/-- One op leaves the view of every register it does not target alone. -/
theorem exec_frame (k : Kind) (st st' : State) (op : Op) (o : Obs) (hinv : Inv st)
    (hnc : op.noCopy = true) (he : exec k st op = .ok st' o) (i : Nat) (hi : op.target ≠ some i) :
    view st' i = view st i := by
  have := exec_effect k st st' op o hinv hnc he
  cases ht : op.target with
  | none => rw [ht] at this; rw [this]
  | some t =>
    rw [ht] at this
    exact this.view hinv i (fun e => hi (by rw [ht, e]))

/-- A whole sequence preserves the invariant. -/
theorem runState_inv (k : Kind) (ops : List Op) :
    ∀ (st st' : State), Inv st → (∀ op ∈ ops, op.noCopy = true) → runState k st ops = some st' → Inv st' := by
  induction ops with
  | nil => intro st st' hinv _ he; simp [runState] at he; subst he; exact hinv
  | cons op ops ih =>
    intro st st' hinv hnc he
    simp only [runState] at he
    split at he
    · rename_i st1 o heq
      exact ih st1 st' (exec_inv k st st1 op o hinv (hnc op (by simp)) heq)
        (fun op' hm => hnc op' (by simp [hm])) he
    · cases he

/-- A whole sequence leaves the view of every register it never targets alone. -/
theorem runState_frame (k : Kind) (ops : List Op) (i : Nat) :
    ∀ (st st' : State), Inv st → (∀ op ∈ ops, op.noCopy = true) → (∀ op ∈ ops, op.target ≠ some i) →
      runState k st ops = some st' → view st' i = view st i := by
  induction ops with
  | nil => intro st st' _ _ _ he; simp [runState] at he; subst he; rfl
  | cons op ops ih =>
    intro st st' hinv hnc hti he
    simp only [runState] at he
    split at he
    · rename_i st1 o heq
      have h1 := exec_inv k st st1 op o hinv (hnc op (by simp)) heq
      have h2 := exec_frame k st st1 op o hinv (hnc op (by simp)) heq i (hti op (by simp))
      rw [← h2]
      exact ih st1 st' h1 (fun op' hm => hnc op' (by simp [hm])) (fun op' hm => hti op' (by simp [hm])) he
    · cases he

end DepsDev.Proofs.C19
