import DepsDev.Proofs.C03L3Interval
import DepsDev.Proofs.C03Npm

/-!
# C03 layer L3 for npm: one comparator, prerelease candidates

For every operator, every operand shape of layer L1 and every **prerelease** candidate outside the
finding classes `pre000`/`lt0pre`, `gt-succ-pre`, `lt-partial-pre`, release-mode membership in the
span built by `opVersionToSpan` (bounds tests and the library's admission rule) equals
`semver.satisfies` of the single-comparator range (node's comparator tests and its rule "some
comparator with the candidate's `[major, minor, patch]` has a prerelease"). The comparison of the
candidate's identifiers with the operand's is the hypothesis `PreAgree`.
-/
namespace DepsDev.Proofs.C03

open DepsDev DepsDev.Semver DepsDev.Ref

set_option linter.unusedSimpArgs false
set_option linter.unusedVariables false

/-- Reference side for a prerelease candidate: the whole single-comparator `satisfies`. -/
macro "l3_ref" : tactic => `(tactic|
  simp [cmp3, t3, Version.getNum, preInt, thenInt_lt, thenInt_gt, thenInt_le, thenInt_ge, thenInt_eq0,
    lex3_lt, lex3_gt, lex3_le, lex3_ge, lex3_eq0, comparePre_self, equalValues,
    NpmRange.satisfies, rangeSets, comparatorSet, testSet, gte0, Prim.isNull, Prim.isAny,
    desugarComparator, Partial.isX, Partial.num, Prim.test, SemVerAst.cmp, ge, lt0, nullSet, zeroPre,
    then_lt, then_eq, then_gt, ne_gt, ne_lt, Nat.compare_eq_lt, Nat.compare_eq_eq, Nat.compare_eq_gt,
    cmpPre, Gen.SemverTables.minPre, Outcome.bind, Span.contains, Span.emptySpan, *])

/-- Arithmetic, after unfolding `Value`. -/
macro "l3_arith" : tactic => `(tactic| ((try simp only [Value] at *) <;> omega))

macro "l3_side" : tactic => `(tactic|
  (simp [cmp3, t3, Version.getNum, preInt, thenInt_gt, thenInt_eq0, thenInt_lt, lex3_gt, lex3_eq0, lex3_lt,
       Gen.SemverTables.minPre, comparePre_self, *] <;> l3_arith))

/-- Goal `(newSpan L o1 H o2).bind (contains x) = ok ref` for an operand without prerelease tag. -/
macro "l3_iv0" : tactic => `(tactic|
  (rw [interval_pre (sys := System.npm) (by simp [IsGen]) _ _ (g3_mk _ _ rfl rfl (by simp)) (g3_mk _ _ rfl rfl (by simp))
        (g3_mk _ _ rfl rfl (by simp)) (by simp)]
   simp [nmin, nmax, Version.major, Version.getNum, Version.setTail, Version.atLeast3, range3, wild_val, inf_val,
     List.findIdx?_cons, minVersion, natCast_beq_wild, natCast_ne_wild, natCast_succ_beq_wild, natCast_succ_ne_wild, *]
   first
   | (refine ite3_vec ?_ ?_ ?_
      · l3_side
      · l3_side
      · rw [Bool.eq_iff_iff]
        l3_ref <;> l3_arith)
   | (refine ite3_unit ?_ ?_
      · l3_side
      · rw [Bool.eq_iff_iff]
        l3_ref <;> l3_arith)))

macro "l3_dir0" : tactic => `(tactic| (l3_ref <;> l3_arith))

macro "l3_npm0" : tactic => `(tactic| first
  | l3_iv0
  | (split <;> first | l3_iv0 | l3_dir0)
  | l3_dir0)

/-- The statement of L3 for one operator and one operand. -/
def L3At (op : Op) (nums : List XR) (pre : List Ident) : Prop :=
  ∀ (x y z : Nat) (i : Ident) (l : List Ident), x < B∞ → y < B∞ → z < B∞ →
  (pre ≠ [] → PreAgree .npm (i :: l) pre) →
  NpmRange.pre000 ⟨x, y, z, i :: l⟩ = false →
  NpmRange.gtSuccPre [.comps [⟨op, ⟨nums, pre⟩⟩]] ⟨x, y, z, i :: l⟩ = false →
  NpmRange.ltPartialPre [.comps [⟨op, ⟨nums, pre⟩⟩]] ⟨x, y, z, i :: l⟩ = false →
    (opVersionToSpan (tokOf op) (embedPartial .npm ⟨nums, pre⟩)).bind
        (fun s => s.contains (embedVer .npm ⟨x, y, z, i :: l⟩) false)
      = .ok (NpmRange.satisfies [.comps [⟨op, ⟨nums, pre⟩⟩]] ⟨x, y, z, i :: l⟩)

/-- Full operand without prerelease tag. -/
def L3Full (op : Op) : Prop :=
  ∀ (a b c : Nat), a < B∞' → b < B∞' → c < B∞' → L3At op [.n a, .n b, .n c] []

/-- Full operand with a prerelease tag (not `<=0.0.0-pre`). -/
def L3Pre (op : Op) : Prop :=
  ∀ (a b c : Nat), a < B∞' → b < B∞' → c < B∞' → ∀ (j : Ident) (l' : List Ident),
    (op = .le → ¬ (a = 0 ∧ b = 0 ∧ c = 0)) → L3At op [.n a, .n b, .n c] (j :: l')

/-- Partial operand (fewer than three components, or trailing wildcards). -/
def L3Part (op : Op) : Prop :=
  ∀ (nums : List XR), TShape nums → ¬ (nums.length = 3 ∧ XR.x ∉ nums) → L3At op nums []

/-- The statement of L3 for one operator. -/
def L3Npm (op : Op) : Prop :=
  ∀ (nums : List XR), TShape nums → ∀ (pre : List Ident), (pre ≠ [] → nums.length = 3 ∧ XR.x ∉ nums) →
  (op = .le → pre ≠ [] → nums ≠ [.n 0, .n 0, .n 0]) → L3At op nums pre

theorem l3_assemble (op : Op) (h1 : L3Full op) (h2 : L3Pre op) (h3 : L3Part op) : L3Npm op := by
  intro nums hs pre hpre hle
  by_cases hfull : nums.length = 3 ∧ XR.x ∉ nums
  · cases hs with
    | n3 a b c ha hb hc =>
      cases pre with
      | nil => exact h1 a b c ha hb hc
      | cons j l' =>
        refine h2 a b c ha hb hc j l' ?_
        intro hop ⟨e1, e2, e3⟩
        subst e1 e2 e3
        exact hle hop (by simp) rfl
    | _ => simp at hfull
  · have hp : pre = [] := pre_ne_nil_of hpre hfull
    subst hp
    exact h3 nums hs hfull

macro "l3_full" : tactic => `(tactic| (
  intro a b c ha hb hc x y z i l hx hy hz hpa h000 hgs hlp
  have hz0 := cmpIdents_zero_ne_lt i l
  try simp [NpmRange.pre000] at h000
  have ia := natCast_beq_inf a ha; have ja := value_inc_nat a ha; have ka := natCast_succ_ne_inf a ha; have ib := natCast_beq_inf b hb; have jb := value_inc_nat b hb; have kb := natCast_succ_ne_inf b hb; have ic := natCast_beq_inf c hc; have jc := value_inc_nat c hc; have kc := natCast_succ_ne_inf c hc
  try simp [NpmRange.gtSuccPre, NpmRange.allComps] at hgs
  try simp [NpmRange.ltPartialPre, NpmRange.allComps, Partial.isPartial, Partial.isX, Partial.num] at hlp
  by_cases h0 : a = 0 <;> by_cases h1 : b = 0 <;> by_cases h2 : c = 0 <;> l1_eval <;> l3_npm0))

/-- For an operand with a prerelease tag the three possible outcomes of the identifier
comparison are split first (`PreAgree` then fixes the library's result). -/
macro "l3_pre" : tactic => `(tactic| (
  intro a b c ha hb hc j l' hle x y z i l hx hy hz hpa h000 hgs hlp
  have hz0 := cmpIdents_zero_ne_lt i l
  try simp [NpmRange.pre000] at h000
  have ia := natCast_beq_inf a ha; have ja := value_inc_nat a ha; have ka := natCast_succ_ne_inf a ha; have ib := natCast_beq_inf b hb; have jb := value_inc_nat b hb; have kb := natCast_succ_ne_inf b hb; have ic := natCast_beq_inf c hc; have jc := value_inc_nat c hc; have kc := natCast_succ_ne_inf c hc
  try simp [NpmRange.gtSuccPre, NpmRange.allComps] at hgs
  try simp [NpmRange.ltPartialPre, NpmRange.allComps, Partial.isPartial, Partial.isX, Partial.num] at hlp
  have hk := hpa (by simp)
  simp only [PreAgree, embedPre, List.map_cons] at hk
  have hks := comparePre_swap System.npm (embedIdent i :: List.map embedIdent l) (embedIdent j :: List.map embedIdent l')
  rcases ordToInt_cases (cmpIdents (i :: l) (j :: l')) with ⟨e, f⟩ | ⟨e, f⟩ | ⟨e, f⟩ <;> rw [f] at hk <;> rw [hk] at hks <;>
  by_cases h0 : a = 0 <;> by_cases h1 : b = 0 <;> by_cases h2 : c = 0 <;>
    first
    | (refine absurd ⟨?_, ?_, ?_⟩ (hle rfl) <;> assumption)
    | (l1_eval <;> l3_npm0)
    | (by_cases hj : (j = Ident.num 0 ∧ l' = []) <;> l1_eval <;> l3_npm0)))

macro "l3_part" : tactic => `(tactic| (
  intro nums hs hnf x y z i l hx hy hz hpa h000 hgs hlp
  have hz0 := cmpIdents_zero_ne_lt i l
  try simp [NpmRange.pre000] at h000
  cases hs with
  | n3 a b c ha hb hc => exact absurd ⟨rfl, by simp⟩ hnf
  | nnx a b ha hb =>
    have ia := natCast_beq_inf a ha; have ja := value_inc_nat a ha; have ka := natCast_succ_ne_inf a ha; have ib := natCast_beq_inf b hb; have jb := value_inc_nat b hb; have kb := natCast_succ_ne_inf b hb
    try simp [NpmRange.gtSuccPre, NpmRange.allComps] at hgs
    try simp [NpmRange.ltPartialPre, NpmRange.allComps, Partial.isPartial, Partial.isX, Partial.num] at hlp
    by_cases h0 : a = 0 <;> by_cases h1 : b = 0 <;> l1_eval <;> l3_npm0
  | n2 a b ha hb =>
    have ia := natCast_beq_inf a ha; have ja := value_inc_nat a ha; have ka := natCast_succ_ne_inf a ha; have ib := natCast_beq_inf b hb; have jb := value_inc_nat b hb; have kb := natCast_succ_ne_inf b hb
    try simp [NpmRange.gtSuccPre, NpmRange.allComps] at hgs
    try simp [NpmRange.ltPartialPre, NpmRange.allComps, Partial.isPartial, Partial.isX, Partial.num] at hlp
    by_cases h0 : a = 0 <;> by_cases h1 : b = 0 <;> l1_eval <;> l3_npm0
  | nxx a ha =>
    have ia := natCast_beq_inf a ha; have ja := value_inc_nat a ha; have ka := natCast_succ_ne_inf a ha
    try simp [NpmRange.gtSuccPre, NpmRange.allComps] at hgs
    try simp [NpmRange.ltPartialPre, NpmRange.allComps, Partial.isPartial, Partial.isX, Partial.num] at hlp
    by_cases h0 : a = 0 <;> l1_eval <;> l3_npm0
  | nx a ha =>
    have ia := natCast_beq_inf a ha; have ja := value_inc_nat a ha; have ka := natCast_succ_ne_inf a ha
    try simp [NpmRange.gtSuccPre, NpmRange.allComps] at hgs
    try simp [NpmRange.ltPartialPre, NpmRange.allComps, Partial.isPartial, Partial.isX, Partial.num] at hlp
    by_cases h0 : a = 0 <;> l1_eval <;> l3_npm0
  | n1 a ha =>
    have ia := natCast_beq_inf a ha; have ja := value_inc_nat a ha; have ka := natCast_succ_ne_inf a ha
    try simp [NpmRange.gtSuccPre, NpmRange.allComps] at hgs
    try simp [NpmRange.ltPartialPre, NpmRange.allComps, Partial.isPartial, Partial.isX, Partial.num] at hlp
    by_cases h0 : a = 0 <;> l1_eval <;> l3_npm0
  | x1 => l1_eval <;> l3_npm0
  | xx => l1_eval <;> l3_npm0
  | xxx => l1_eval <;> l3_npm0))

end DepsDev.Proofs.C03
