import DepsDev.Proofs.C03Embed
import DepsDev.Ref.MavenRange

/-!
# C03 layer L1 for PyPI: `== == .* != != .* <= >= < > ~=` on plain release operands

For a clause version that is a plain release (no pre/post/dev suffix: then
`rebuildExtension` is the identity) with at most three release segments, and a
final-release candidate given by three segments, membership in the span(s) built by
`opVersionToSpan` / `excludeToSpans` equals `Ref.PepClause.contains`.

`interval_abs` is the system-independent form of `interval`: it only needs the four
comparisons among the normalised bounds and the candidate to succeed and to be
consistent when the bounds compare equal.
-/
namespace DepsDev.Proofs.C03

open DepsDev DepsDev.Semver DepsDev.Ref

set_option linter.unusedSimpArgs false

theorem sgnInt_ge {a b : Int} : 0 ≤ sgnInt a b ↔ b ≤ a := by unfold sgnInt; split <;> (try split) <;> omega

theorem natCast_eq_inf_iff (a : Nat) (h : a < B∞') : ((a : Int) = 9223372036854775807) ↔ False := by
  simp; omega

/-- The result of `compare` when it succeeds. -/
def vc (a b : Version) : Int := match vcompare a b with | .ok c => c | _ => 0

theorem ok_of_isOk {a b : Version} (h : (vcompare a b).isOk = true) : vcompare a b = .ok (vc a b) := by
  unfold vc
  cases hv : vcompare a b <;> simp_all [Outcome.isOk]

/-- `newSpan … >>= contains x` for a non-prerelease candidate, in terms of the comparisons
among the normalised bounds and the candidate (any system). -/
theorem interval_abs {min max x : Version} (mo xo : Bool)
    (hab : (vcompare (nmin min) (nmax max)).isOk = true)
    (hxa : (vcompare x (nmin min)).isOk = true) (hax : (vcompare (nmin min) x).isOk = true)
    (hbx : (vcompare (nmax max) x).isOk = true)
    (hxp : x.isPrerelease = false)
    (hcons : vc (nmin min) (nmax max) = 0 →
      ((vc (nmin min) x = 0 ↔ (0 ≤ vc x (nmin min) ∧ 0 ≤ vc (nmax max) x)) ∧
       (0 ≤ vc x (nmin min) → 0 ≤ vc (nmax max) x → vc x (nmin min) = 0 ∧ vc (nmax max) x = 0))) :
    (newSpan min mo max xo).bind (fun s => s.contains x false) =
      if 0 < vc (nmin min) (nmax max) then .err
      else .ok (decide (¬ ((vc x (nmin min) = 0 ∧ mo = true) ∨ vc x (nmin min) < 0) ∧
                        ¬ ((vc (nmax max) x = 0 ∧ xo = true) ∨ vc (nmax max) x < 0))) := by
  have e1 : newSpan min mo max xo =
      (do let eq ← vEqual (nmin min) (nmax max)
          if eq && (mo || xo) then .ok Span.emptySpan
          else if eq then .ok { rank := .unit, minOpen := mo, maxOpen := xo, min := some (nmin min), max := some (nmin min) }
          else
            let lt ← vLess (nmin min) (nmax max)
            if lt then .ok { rank := .vector, minOpen := mo, maxOpen := xo, min := some (nmin min), max := some (nmax max) }
            else .err) := rfl
  have e2 : newSpan min mo max xo =
      if vc (nmin min) (nmax max) = 0 then
        if (mo || xo) = true then .ok Span.emptySpan
        else .ok { rank := .unit, minOpen := mo, maxOpen := xo, min := some (nmin min), max := some (nmin min) }
      else if vc (nmin min) (nmax max) < 0 then
        .ok { rank := .vector, minOpen := mo, maxOpen := xo, min := some (nmin min), max := some (nmax max) }
      else .err := by
    rw [e1]
    simp only [vEqual, vLess, ok_of_isOk hab, bind, Outcome.bind]
    by_cases hc0 : vc (nmin min) (nmax max) = 0
    · by_cases ho : (mo || xo) = true <;> simp [hc0, ho]
    · by_cases hlt : vc (nmin min) (nmax max) < 0 <;> simp [hc0, hlt]
  rw [e2]
  by_cases hc0 : vc (nmin min) (nmax max) = 0
  · obtain ⟨hu, he⟩ := hcons hc0
    simp only [hc0, ↓reduceIte, Int.lt_irrefl]
    by_cases ho : (mo || xo) = true
    · simp only [ho, ↓reduceIte, Outcome.bind, Span.contains, Span.emptySpan]
      congr 1
      symm
      rw [decide_eq_false_iff_not]
      intro ⟨h1, h2⟩
      have g1 : 0 ≤ vc x (nmin min) := by omega
      have g2 : 0 ≤ vc (nmax max) x := by omega
      obtain ⟨z1, z2⟩ := he g1 g2
      have m1 : mo = false := by
        cases mo
        · rfl
        · exact absurd (Or.inl ⟨z1, rfl⟩) h1
      have m2 : xo = false := by
        cases xo
        · rfl
        · exact absurd (Or.inl ⟨z2, rfl⟩) h2
      rw [m1, m2] at ho
      exact absurd ho (by decide)
    · have hmo : mo = false := by
        cases mo
        · rfl
        · exact absurd (by simp) ho
      have hxo : xo = false := by
        cases xo
        · rfl
        · exact absurd (by simp) ho
      subst hmo hxo
      simp only [Bool.or_self, Bool.false_eq_true, ↓reduceIte, Outcome.bind, Span.contains, compareOpt,
        ok_of_isOk hax, bind, and_false, false_or]
      congr 1
      rw [Bool.eq_iff_iff]
      simp only [beq_iff_eq, decide_eq_true_eq, Int.not_lt]
      exact hu
  · by_cases hlt : vc (nmin min) (nmax max) < 0
    · have hn : ¬ (0 < vc (nmin min) (nmax max)) := by omega
      simp only [hn, ↓reduceIte, hc0, hlt]
      simp only [Outcome.bind, bind, Span.contains, ok_of_isOk hxa, ok_of_isOk hbx, hxp,
        Bool.and_false, Bool.false_eq_true, ↓reduceIte]
      by_cases h1 : (vc x (nmin min) = 0 ∧ mo = true) ∨ vc x (nmin min) < 0
      · simp [h1]
      · by_cases h2 : (vc (nmax max) x = 0 ∧ xo = true) ∨ vc (nmax max) x < 0
        · simp [h1, h2]
        · simp [h1, h2]
    · have h3 : 0 < vc (nmin min) (nmax max) := by omega
      simp [h3, hc0, hlt, Outcome.bind]

/-! ## PyPI operands -/

/-- The parsed form of a plain PEP 440 release with at most three segments (zero padded to three). -/
def embedPepRel (rel : List Nat) : Version :=
  { sys := .pypi, userNumCount := rel.length,
    num := rel.map (fun (n : Nat) => (n : Int)) ++ List.replicate (3 - rel.length) 0, ext := .pep none }

/-- The parsed form of `N(.N)*.*`. -/
def embedPepStar (rel : List Nat) : Version :=
  { sys := .pypi, userNumCount := rel.length + 1, num := rel.map (fun (n : Nat) => (n : Int)) ++ [wildcard], ext := .pep none }

/-- Release shapes: one to three segments below `infinity - 1`. -/
inductive RShape : List Nat → Prop
  | r1 (a : Nat) (ha : a < B∞') : RShape [a]
  | r2 (a b : Nat) (ha : a < B∞') (hb : b < B∞') : RShape [a, b]
  | r3 (a b c : Nat) (ha : a < B∞') (hb : b < B∞') (hc : c < B∞') : RShape [a, b, c]

theorem rebuild_of_ext (v : Version) (h : v.ext = .pep none) : v.rebuildExtension = .ok v := by
  unfold Version.rebuildExtension
  rw [h]
  rfl

theorem setTail_ext (v : Version) (m f : Value) : (v.setTail m f).ext = v.ext := by
  simp only [Version.setTail]; split <;> rfl
theorem setTail_sys (v : Version) (m f : Value) : (v.setTail m f).sys = v.sys := by
  simp only [Version.setTail]; split <;> rfl

theorem minVersion_pypi_sys (v : Version) : (minVersion .pypi v).sys = .pypi := rfl

/-- PyPI's minimum version `0.0.0.dev0` after `setTail` and `rebuildExtension`. -/
def minPy : Version :=
  { sys := .pypi, userNumCount := 3, isPrerelease := false, num := [0, 0, 0],
    ext := .pep (some { devPresent := true, devNum := 0 }) }

theorem rebuild_minPy (v : Version) :
    ((minVersion .pypi v).setTail infinity infinity).rebuildExtension = .ok minPy := by
  have : (minVersion .pypi v) = minVersion .pypi default := rfl
  rw [this]
  decide +kernel

/-- A PyPI operand: plain release or `.*` pattern, no extension data. -/
structure PyOperand (lo : Version) : Prop where
  sys : lo.sys = .pypi
  ext : lo.ext = .pep none
  pre : lo.pre = []

theorem ovs_ge_pypi {lo : Version} (h : PyOperand lo) (hw : lo.isWildcard = false) :
    opVersionToSpan tokGreaterEqual lo =
      newSpan (lo.setTail infinity infinity) false
        ({ (setInfAll lo) with build := [] }.setTail infinity infinity) false := by
  unfold opVersionToSpan
  simp [h.sys, h.ext, h.pre, hw, tokCaret, tokEmpty, tokEqual, tokGreater, tokGreaterEqual, tokLess, tokLessEqual,
    tokTilde, tokBacon, Version.clearPre, setInfAll, rebuild_of_ext, setTail_ext, setTail_sys, ok_bind, ok_bind']

theorem ovs_gt_pypi {lo : Version} (h : PyOperand lo) (hw : lo.isWildcard = false) (hne : lo.allEq wildcard = false) :
    opVersionToSpan tokGreater lo =
      newSpan ({ lo with build := [] }.setTail infinity infinity) true
        ({ (setInfAll lo) with build := [] }.setTail infinity infinity) false := by
  unfold opVersionToSpan
  simp [h.sys, h.ext, h.pre, hw, hne, tokCaret, tokEmpty, tokEqual, tokGreater, tokGreaterEqual, tokLess, tokLessEqual,
    tokTilde, tokBacon, Version.clearPre, setInfAll, rebuild_of_ext, setTail_ext, setTail_sys, ok_bind, ok_bind']

theorem ovs_le_pypi {lo : Version} (h : PyOperand lo) (hw : lo.isWildcard = false) (hl : lo.num.length = 3) :
    opVersionToSpan tokLessEqual lo = newSpan minPy false (lo.setTail infinity infinity) false := by
  unfold opVersionToSpan
  simp [h.sys, h.ext, h.pre, hw, hl, tokCaret, tokEmpty, tokEqual, tokGreater, tokGreaterEqual, tokLess, tokLessEqual,
    tokTilde, tokBacon, rebuild_of_ext, rebuild_minPy, setTail_ext, setTail_sys, minVersion_pypi_sys, ok_bind, ok_bind']

theorem ovs_lt_pypi {lo : Version} (h : PyOperand lo) (hw : lo.isWildcard = false)
    (hne : lo.allEq wildcard = false) :
    opVersionToSpan tokLess lo =
      if lo.allEq 0 = true then .ok Span.emptySpan else
      newSpan minPy false
        ({ lo with num := lo.num.map (fun x => if x == wildcard then 0 else x), build := [] }.setTail infinity infinity) true := by
  unfold opVersionToSpan
  by_cases hz : lo.allEq 0 = true
  · simp [h.sys, h.ext, h.pre, hw, hne, hz, tokCaret, tokEmpty, tokEqual, tokGreater, tokGreaterEqual, tokLess,
      tokLessEqual, tokTilde, tokBacon]
  · simp [h.sys, h.ext, h.pre, hw, hne, hz, tokCaret, tokEmpty, tokEqual, tokGreater, tokGreaterEqual, tokLess,
      tokLessEqual, tokTilde, tokBacon, rebuild_of_ext, rebuild_minPy, setTail_ext, setTail_sys, minVersion_pypi_sys,
      ok_bind, ok_bind']

theorem ovs_bacon3_pypi {lo : Version} (h : PyOperand lo) (hw : lo.isWildcard = false) (hu : lo.userNumCount = 3) :
    opVersionToSpan tokBacon lo =
      newSpan (lo.setTail infinity infinity) false ((lo.setPatch infinity).setTail infinity infinity) false := by
  unfold opVersionToSpan
  simp [h.sys, h.ext, h.pre, hw, hu, tokCaret, tokEmpty, tokEqual, tokGreater, tokGreaterEqual, tokLess,
    tokLessEqual, tokTilde, tokBacon, rebuild_of_ext, setTail_ext, setTail_sys, ok_bind, ok_bind',
    Version.setPatch, Version.setNum]

/-! ## Layer L1 for PyPI -/

/-- Evaluate the operand-side records. -/
macro "py_eval" : tactic => `(tactic|
  simp [embedPepRel, embedPepStar, Version.isWildcard, Version.allNumbers, Version.allEq, wild_val, inf_val,
    Version.major, Version.minor, Version.getNum, Version.clearPre, Version.setMajor, Version.setMinor,
    Version.setPatch, Version.setNum, Version.setTail, Version.atLeast3, range3, List.findIdx?_cons,
    setInfAll, ok_bind, ok_bind', natCast_beq_wild, natCast_ne_wild, minPy, *])

macro "py_vc" : tactic => `(tactic|
  simp [vc, nmin, nmax, vcompare, pepCompare, compareNums, compareNumsNilL, Outcome.isOk, minPy,
    Version.major, Version.getNum, Version.setTail, Version.atLeast3, range3, wild_val, inf_val,
    List.findIdx?_cons, minVersion, natCast_beq_wild, natCast_ne_wild,
    thenInt_lt, thenInt_gt, thenInt_le, thenInt_ge, thenInt_eq0, sgnInt_lt, sgnInt_gt, sgnInt_le, sgnInt_ge, sgnInt_eq0,
    Pep440.rank, pepTail, isPreRank, Gen.SemverTables.pep440Dev, Gen.SemverTables.pep440Empty,
    PepClause.contains, cmpFinal, cmpRelease, cmpReleaseNil, prefixMatch,
    then_lt, then_eq, then_gt, ne_gt, ne_lt, Nat.compare_eq_lt, Nat.compare_eq_eq, Nat.compare_eq_gt,
    Outcome.bind, Span.contains, Span.emptySpan, *])

macro "py_iv" : tactic => `(tactic|
  (rw [interval_abs _ _ (by py_vc) (by py_vc) (by py_vc) (by py_vc) (by simp) (by py_vc <;> omega)]
   refine ite_err_ok ?_ ?_
   · py_vc <;> omega
   · rw [Bool.eq_iff_iff]
     py_vc <;> omega))

def L1Py (tok : Nat) (op : PepOp) : Prop :=
  ∀ (rel : List Nat), RShape rel → ∀ (x y z : Nat), x < B∞ → y < B∞ → z < B∞ →
    (opVersionToSpan tok (embedPepRel rel)).bind (fun s => s.contains (embedPepRel [x, y, z]) false)
      = .ok (PepClause.contains ⟨op, { rel := rel }, false⟩ [x, y, z])

/-- Literal evaluation of `opVersionToSpan` (paths that do not rebuild extensions). -/
macro "py_ovs" : tactic => `(tactic|
  simp [opVersionToSpan, embedPepRel, embedPepStar, Version.isWildcard, Version.allNumbers, Version.allEq, wild_val, inf_val,
    tokCaret, tokEmpty, tokEqual, tokGreater, tokGreaterEqual, tokLess, tokLessEqual, tokTilde, tokBacon,
    Version.major, Version.minor, Version.getNum, Version.clearPre, Version.setMajor, Version.setMinor,
    Version.setPatch, Version.setNum, Version.setTail, Version.atLeast3, range3, List.findIdx?_cons,
    setInfAll, ok_bind, ok_bind', natCast_beq_wild, natCast_ne_wild, *])

macro "py_dir" : tactic => `(tactic| (py_vc <;> omega))

macro "py_fin" : tactic => `(tactic| first | py_iv | (split <;> first | py_iv | py_dir) | py_dir)

/-- Shared script: `spec` rewrites with the operator's specialisation lemma (or evaluates literally). -/
macro "py_all " spec:tacticSeq : tactic => `(tactic| (
  intro rel hs x y z hx hy hz
  cases hs with
  | r1 a ha =>
    have ia := natCast_beq_inf a ha
    by_cases h0 : a = 0 <;> ($spec) <;> (try py_eval) <;> py_fin
  | r2 a b ha hb =>
    have ia := natCast_beq_inf a ha; have ib := natCast_beq_inf b hb
    by_cases h0 : a = 0 <;> by_cases h1 : b = 0 <;> ($spec) <;> (try py_eval) <;> py_fin
  | r3 a b c ha hb hc =>
    have ia := natCast_beq_inf a ha; have ib := natCast_beq_inf b hb; have ic := natCast_beq_inf c hc
    by_cases h0 : a = 0 <;> by_cases h1 : b = 0 <;> by_cases h2 : c = 0 <;> ($spec) <;> (try py_eval) <;> py_fin))

theorem l1_py_ge : L1Py tokGreaterEqual .ge := by
  py_all rw [ovs_ge_pypi ⟨rfl, rfl, rfl⟩ (by py_eval)]
theorem l1_py_gt : L1Py tokGreater .gt := by
  py_all rw [ovs_gt_pypi ⟨rfl, rfl, rfl⟩ (by py_eval) (by py_eval)]
theorem l1_py_le : L1Py tokLessEqual .le := by
  py_all rw [ovs_le_pypi ⟨rfl, rfl, rfl⟩ (by py_eval) (by py_eval)]
theorem l1_py_eq : L1Py tokEqual .eq := by
  py_all py_ovs
theorem l1_py_lt : L1Py tokLess .lt := by
  py_all rw [ovs_lt_pypi ⟨rfl, rfl, rfl⟩ (by py_eval) (by py_eval)]

theorem l1_py_compat2 (a b x y z : Nat) (ha : a < B∞') (hb : b < B∞') (hx : x < B∞) (hy : y < B∞) (hz : z < B∞) :
    (opVersionToSpan tokBacon (embedPepRel [a, b])).bind (fun s => s.contains (embedPepRel [x, y, z]) false)
      = .ok (PepClause.contains ⟨.compat, { rel := [a, b] }, false⟩ [x, y, z]) := by
  have ia := natCast_beq_inf a ha; have ib := natCast_beq_inf b hb; have na := natCast_eq_inf_iff a ha
  by_cases h0 : a = 0 <;> by_cases h1 : b = 0 <;> py_ovs <;> py_fin

theorem l1_py_compat3 (a b c x y z : Nat) (ha : a < B∞') (hb : b < B∞') (hc : c < B∞')
    (hx : x < B∞) (hy : y < B∞) (hz : z < B∞) :
    (opVersionToSpan tokBacon (embedPepRel [a, b, c])).bind (fun s => s.contains (embedPepRel [x, y, z]) false)
      = .ok (PepClause.contains ⟨.compat, { rel := [a, b, c] }, false⟩ [x, y, z]) := by
  have ia := natCast_beq_inf a ha; have ib := natCast_beq_inf b hb; have ic := natCast_beq_inf c hc
  by_cases h0 : a = 0 <;> by_cases h1 : b = 0 <;> by_cases h2 : c = 0 <;>
    rw [ovs_bacon3_pypi ⟨rfl, rfl, rfl⟩ (by py_eval) (by py_eval)] <;> (try py_eval) <;> py_fin

theorem l1_py_eqstar1 (a x y z : Nat) (ha : a < B∞') (hx : x < B∞) (hy : y < B∞) (hz : z < B∞) :
    (opVersionToSpan tokEqual (embedPepStar [a])).bind (fun s => s.contains (embedPepRel [x, y, z]) false)
      = .ok (PepClause.contains ⟨.eq, { rel := [a] }, true⟩ [x, y, z]) := by
  have ia := natCast_beq_inf a ha
  by_cases h0 : a = 0 <;> py_ovs <;> py_fin

theorem l1_py_eqstar2 (a b x y z : Nat) (ha : a < B∞') (hb : b < B∞') (hx : x < B∞) (hy : y < B∞) (hz : z < B∞) :
    (opVersionToSpan tokEqual (embedPepStar [a, b])).bind (fun s => s.contains (embedPepRel [x, y, z]) false)
      = .ok (PepClause.contains ⟨.eq, { rel := [a, b] }, true⟩ [x, y, z]) := by
  have ia := natCast_beq_inf a ha; have ib := natCast_beq_inf b hb
  by_cases h0 : a = 0 <;> by_cases h1 : b = 0 <;> py_ovs <;> py_fin

end DepsDev.Proofs.C03
