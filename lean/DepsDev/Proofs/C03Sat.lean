import DepsDev.Proofs.C03Cargo

/-!
# C03: a single-comparator requirement on a release candidate

`NpmRange.satisfies [.comps [c]] x` is the conjunction of the desugared comparators of
`c` (node's `>=0.0.0 ⇒ *`, null-set and `*`-removal rules do not change the answer on a
release), and `CargoReq.matches [.comps [c]] x` is `matchesImpl` of the one comparator.
-/
namespace DepsDev.Proofs.C03

open DepsDev DepsDev.Semver DepsDev.Ref

set_option linter.unusedSimpArgs false

theorem nat_compare_zero_ne_lt (n : Nat) : compare n 0 ≠ Ordering.lt := by
  rw [Ne, Nat.compare_eq_lt]; omega

/-- A release is never below `0.0.0` nor below `0.0.0-0`. -/
theorem release_ge_zero (x : SemVerAst) (hx : x.pre = []) (pre : List Ident) :
    x.cmp ⟨0, 0, 0, pre⟩ ≠ .lt := by
  obtain ⟨M, m, p, xpre⟩ := x
  simp only at hx; subst hx
  simp only [SemVerAst.cmp, Ne, then_lt, Nat.compare_eq_lt, Nat.compare_eq_eq, cmpPre_nil_left]
  cases pre <;> simp

theorem gte0_test (c : Prim) (x : SemVerAst) (hx : x.pre = []) : (gte0 c).test x = c.test x := by
  unfold gte0
  split
  · rename_i h
    have hc : c = ge 0 0 0 := by simpa using h
    subst hc
    have := release_ge_zero x hx []
    simp [Prim.test, ge, this]
  · rfl

theorem null_test (c : Prim) (x : SemVerAst) (hx : x.pre = []) (h : c.isNull = true) : c.test x = false := by
  have hc : c = nullSet := by simpa [Prim.isNull] using h
  subst hc
  have := release_ge_zero x hx zeroPre
  simp [Prim.test, nullSet, lt0, this]

theorem any_test (c : Prim) (x : SemVerAst) (h : c.isAny = true) : c.test x = true := by
  have hc : c = .any := by simpa [Prim.isAny] using h
  subst hc; rfl

theorem testSet_release (s : List Prim) (x : SemVerAst) (hx : x.pre = []) : testSet s x = s.all (·.test x) := by
  simp [testSet, hx]

theorem filter_any_all (cs : List Prim) (x : SemVerAst) :
    (cs.filter (fun c => !c.isAny)).all (·.test x) = cs.all (·.test x) := by
  induction cs with
  | nil => rfl
  | cons a t ih =>
    by_cases ha : a.isAny = true
    · simp only [List.filter, ha, Bool.not_true, List.all_cons, any_test a x ha, Bool.true_and]
      exact ih
    · have ha' : a.isAny = false := by simpa using ha
      simp only [List.filter, ha', Bool.not_false, List.all_cons]
      rw [ih]

/-- The normalisation of `comparatorSet` does not change the conjunction on a release. -/
theorem norm_all (l : List Prim) (x : SemVerAst) (hx : x.pre = []) :
    testSet (match (l.map gte0).find? Prim.isNull with
      | some c => [c]
      | none => if ((l.map gte0).filter (fun c => !c.isAny)).isEmpty then [.any]
                else (l.map gte0).filter (fun c => !c.isAny)) x = l.all (·.test x) := by
  have hmap : (l.map gte0).all (·.test x) = l.all (·.test x) := by
    simp [List.all_map, Function.comp_def, gte0_test _ x hx]
  rw [← hmap]
  generalize l.map gte0 = cs
  rw [testSet_release _ x hx]
  split
  · rename_i c hc
    have hmem := List.mem_of_find?_eq_some hc
    have hnull := List.find?_some hc
    have hf := null_test c x hx hnull
    simp only [List.all_cons, List.all_nil, Bool.and_true, hf]
    symm
    rw [List.all_eq_false]
    exact ⟨c, hmem, by simp [hf]⟩
  · have hfilter := filter_any_all cs x
    split
    · rename_i he
      have : cs.filter (fun c => !c.isAny) = [] := by simpa using he
      rw [this] at hfilter
      rw [← hfilter]
      rfl
    · exact hfilter

theorem satisfies_single_release (c : Comparator) (x : SemVerAst) (hx : x.pre = []) :
    NpmRange.satisfies [.comps [c]] x = (desugarComparator c).all (·.test x) := by
  have h := norm_all (desugarComparator c) x hx
  simp only [NpmRange.satisfies, rangeSets, List.map_cons, List.map_nil, List.length_cons, List.length_nil,
    Nat.lt_irrefl, ↓reduceIte, List.any_cons, List.any_nil, Bool.or_false, comparatorSet,
    List.flatMap_cons, List.flatMap_nil, List.append_nil, Nat.zero_add]
  exact h

theorem matches_single_release (c : Comparator) (x : SemVerAst) (hx : x.pre = []) (hc : c.p.isX 0 = false) :
    CargoReq.matches [.comps [c]] x = matchesImpl (cargoComparator c) x := by
  simp [CargoReq.matches, CargoReq.comparators, hc, hx]

theorem cargo_star_aux (x y z : Nat) (hx : x < B∞) (hy : y < B∞) (hz : z < B∞) :
    (opVersionToSpan tokEmpty (embedPartial .cargo ⟨[.x], []⟩)).bind
        (fun s => s.contains (embedVer .cargo ⟨x, y, z, []⟩) false)
      = .ok (CargoReq.matches [.comps [⟨.none, ⟨[.x], []⟩⟩]] ⟨x, y, z, []⟩) := by
  have hm : CargoReq.matches [.comps [⟨.none, ⟨[.x], []⟩⟩]] ⟨x, y, z, []⟩ = true := by
    simp [CargoReq.matches, CargoReq.comparators, Partial.isX]
  rw [hm]
  l1_eval
  rw [interval (sys := System.cargo) (by simp [IsGen]) _ _ (g3_mk _ _ rfl rfl (by simp)) (g3_mk _ _ rfl rfl (by simp))
        (g3_mk _ _ rfl rfl (by simp)) (by simp) (by simp)]
  simp [nmin, nmax, Version.major, Version.getNum, Version.setTail, Version.atLeast3, range3, wild_val, inf_val,
     List.findIdx?_cons, minVersion]
  refine ite_err_ok ?_ ?_
  · simp [cmp3, t3, Version.getNum, preInt, thenInt_gt, thenInt_eq0, thenInt_lt, lex3_gt, lex3_eq0, lex3_lt,
       Gen.SemverTables.minPre]
  · simp [cmp3, t3, Version.getNum, preInt, thenInt_lt, thenInt_gt, thenInt_le, thenInt_ge, thenInt_eq0,
      lex3_lt, lex3_gt, lex3_le, lex3_ge, lex3_eq0, Gen.SemverTables.minPre]
    omega

end DepsDev.Proofs.C03
