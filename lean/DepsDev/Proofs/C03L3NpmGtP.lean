import DepsDev.Proofs.C03L3NpmGt

/-!
# C03 layer L3 for npm, operator `gt`: operands with a prerelease tag; `L3Npm .gt`
-/
namespace DepsDev.Proofs.C03

open DepsDev DepsDev.Semver DepsDev.Ref

set_option linter.unusedSimpArgs false
set_option linter.unusedVariables false

theorem l3_pre_lt_gt : L3PreO .gt .lt := by l3_pre
theorem l3_pre_eq_gt : L3PreO .gt .eq := by l3_pre
theorem l3_pre_gt_gt : L3PreO .gt .gt := by l3_pre

theorem l3_npm_gt : L3Npm .gt :=
  l3_assemble _ l3_full_gt (l3_pre_assemble _ l3_pre_lt_gt l3_pre_eq_gt l3_pre_gt_gt) l3_part_gt

end DepsDev.Proofs.C03
