import DepsDev.Model.Resolve.PypiHyp

/-! Generic preservation theorem for state invariants of `resolution.resolve`: a
predicate that holds for the empty state and is preserved by the three ways a state is
created (initial merge, successful pin, patched copy during backtracking) holds for
the state `resolve` returns, for every number of rounds. -/
namespace DepsDev.Resolve.Pypi

/-- preservation by the two ways a round creates a state -/
structure RoundInv (U : Universe) (root : Ver) (I : State → Prop) : Prop where
  pin : ∀ S name cand upd, I S → cand ∈ ((getCrit S.criteria name).getD Criterion.empty).cands →
    getCriteriaToUpdate U root S ⟨name, cand⟩ ((getCrit S.criteria name).getD Criterion.empty).extras = .ok upd →
    I { mapping := setPin S.mapping ⟨name, cand, ((getCrit S.criteria name).getD Criterion.empty).extras⟩,
        criteria := putAll S.criteria upd }
  patch : ∀ prev incs cs, I prev → patchCriteria incs prev.criteria = some cs → I ⟨prev.mapping, cs⟩

/-- ... and by the initial merges -/
structure StepInv (U : Universe) (root : Ver) (direct : List Req) (I : State → Prop) : Prop extends RoundInv U root I where
  init : I ⟨[], []⟩
  merge0 : ∀ S r c, I S → r ∈ direct → mergeIntoCriterion U root S r root = .ok c →
    I { S with criteria := putCrit S.criteria r.pkg c }

variable {U : Universe} {root : Ver} {direct : List Req} {I : State → Prop}

theorem initCriteria_inv (si : StepInv U root direct I) :
    ∀ (rs : List Req) (S S' : State), (∀ r ∈ rs, r ∈ direct) → I S → initCriteria U root rs S = .ok S' → I S' := by
  intro rs
  induction rs with
  | nil => intro S S' _ hI h; simp [initCriteria] at h; subst h; exact hI
  | cons r rs ih =>
    intro S S' hsub hI h
    simp only [initCriteria] at h
    split at h <;> try (simp at h)
    rename_i c hm
    exact ih _ _ (fun x hx => hsub x (List.mem_cons_of_mem _ hx)) (si.merge0 S r c hI (hsub r List.mem_cons_self) hm) h

theorem tryCandidates_inv (si : RoundInv U root I) (S : State) (name : Nat) (hI : I S) :
    ∀ (cs : List Nat) (causes : Nat) (S' : State),
      (∀ c ∈ cs, c ∈ ((getCrit S.criteria name).getD Criterion.empty).cands) →
      tryCandidates U root S name ((getCrit S.criteria name).getD Criterion.empty).extras cs causes = .pinned S' → I S' := by
  intro cs
  induction cs with
  | nil => intro causes S' _ h; simp [tryCandidates] at h
  | cons c cs ih =>
    intro causes S' hsub h
    simp only [tryCandidates] at h
    split at h
    · rename_i upd hu
      simp at h; subst h
      exact si.pin S name c upd hI (hsub c List.mem_cons_self) hu
    · exact ih _ _ (fun x hx => hsub x (List.mem_cons_of_mem _ hx)) h
    · simp at h
    · simp at h

theorem attempt_inv (si : RoundInv U root I) (S S' : State) (name : Nat) (hI : I S)
    (h : attemptToPinCriterion U root S name = .pinned S') : I S' := by
  simp only [attemptToPinCriterion] at h
  exact tryCandidates_inv si S name hI _ _ _ (fun c hc => List.mem_reverse.mp hc) h

theorem backtrack_inv (si : RoundInv U root I) :
    ∀ (n : Nat) (st st' : List State) (b : Bool), (∀ S ∈ st, I S) → backtrack n st = (st', b) → ∀ S ∈ st', I S := by
  intro n
  induction n with
  | zero => intro st st' b hI h; simp [backtrack] at h; obtain ⟨rfl, _⟩ := h; exact hI
  | succ n ih =>
    intro st st' b hI h
    match st with
    | [] => simp [backtrack] at h; obtain ⟨rfl, _⟩ := h; exact hI
    | [_] => simp [backtrack] at h; obtain ⟨rfl, _⟩ := h; exact hI
    | [_, _] => simp [backtrack] at h; obtain ⟨rfl, _⟩ := h; exact hI
    | top :: broken :: prev :: rest =>
      simp only [backtrack] at h
      have hprev : I prev := hI prev (by simp)
      have hrest : ∀ S ∈ prev :: rest, I S := fun S hS => hI S (List.mem_cons_of_mem _ (List.mem_cons_of_mem _ hS))
      split at h
      · simp at h; obtain ⟨rfl, _⟩ := h; exact hI
      · split at h
        · rename_i cs hp
          simp at h; obtain ⟨rfl, _⟩ := h
          intro S hS
          rcases List.mem_cons.mp hS with e | e
          · subst e; exact si.patch prev _ cs hprev hp
          · exact hrest S e
        · refine ih _ _ _ ?_ h
          intro S hS
          rcases List.mem_cons.mp hS with e | e
          · subst e; exact hprev
          · exact hrest S e

theorem all_cons2 {a : State} {l : List State} (ha : I a) (hl : ∀ X ∈ l, I X) : ∀ X ∈ a :: a :: l, I X := by
  intro X hX
  rcases List.mem_cons.mp hX with e | e
  · subst e; exact ha
  · rcases List.mem_cons.mp e with e | e
    · subst e; exact ha
    · exact hl X e

theorem rounds_inv (si : RoundInv U root I) :
    ∀ (fuel : Nat) (st : List State) (S : State), (∀ T ∈ st, I T) → rounds U root direct fuel st = .done S → I S := by
  intro fuel
  induction fuel with
  | zero => intro st S _ h; simp [rounds] at h
  | succ fuel ih =>
    intro st S hI h
    match st with
    | [] => simp [rounds] at h
    | T :: below =>
      simp only [rounds] at h
      split at h
      · simp at h; subst h; exact hI T (by simp)
      · rename_i n0 ns _
        split at h
        · simp at h
        · simp at h
        · rename_i S' hp
          refine ih _ S ?_ h
          have hS' : I S' := attempt_inv si T S' _ (hI T (by simp)) hp
          exact all_cons2 hS' (fun X hX => hI X (List.mem_cons_of_mem _ hX))
        · rename_i causes _
          split at h
          · split at h
            · rename_i st2 hb
              exact ih _ S (backtrack_inv si _ _ _ _ hI hb) h
            · simp at h
          · refine ih _ S ?_ h
            exact all_cons2 (hI T List.mem_cons_self) (fun X hX => hI X (List.mem_cons_of_mem _ hX))

/-- an invariant established by the initial merges and preserved by the rounds -/
theorem resolve_inv_from_init (ri : RoundInv U root I)
    (h0 : ∀ S0, initCriteria U root direct ⟨[], []⟩ = .ok S0 → I S0) {n : Nat} {S : State}
    (h : resolve U root direct n = .done S) : I S := by
  simp only [resolve] at h
  split at h <;> try (simp at h)
  rename_i S0 hS0
  exact rounds_inv (direct := direct) ri n _ S (all_cons2 (h0 S0 hS0) (fun X hX => by simp at hX)) h

theorem resolve_inv (si : StepInv U root direct I) {n : Nat} {S : State}
    (h : resolve U root direct n = .done S) : I S :=
  resolve_inv_from_init si.toRoundInv (fun S0 h0 => initCriteria_inv si direct _ _ (fun _ hr => hr) si.init h0) h

end DepsDev.Resolve.Pypi
