import DepsDev.Proofs.C01Generic
import DepsDev.Model.Semver.Set

/-!
# C09 — the order on versions as a linear preorder, and the model's comparison wrappers

C09 is order-theoretic: versions enter only through C01's lawful comparator
`genericOrd s` (`compare_generic`). `Pt s` wraps a version as a point of the linear
preorder of system `s`; its `≤`/`<` instances satisfy `Std.IsLinearPreorder`, so
`grind` decides interval facts about finitely many points. The lemmas `vLess_eq`,
`vEqual_eq`, … evaluate the model's `Outcome`-valued wrappers on versions of one
generic system to decidable propositions about points.
-/
namespace DepsDev.Proofs.C09

open Std DepsDev DepsDev.Semver DepsDev.Proofs

/-- A version seen as a point of the total preorder of system `s`. -/
structure Pt (s : System) where
  v : Version

variable {s : System}

instance : LE (Pt s) := ⟨fun a b => (genericOrd s a.v b.v).isLE = true⟩
instance : LT (Pt s) := ⟨fun a b => genericOrd s a.v b.v = .lt⟩
instance : DecidableLE (Pt s) := fun a b => inferInstanceAs (Decidable ((genericOrd s a.v b.v).isLE = true))
instance : DecidableLT (Pt s) := fun a b => inferInstanceAs (Decidable (genericOrd s a.v b.v = .lt))

theorem Pt.le_def (a b : Pt s) : a ≤ b ↔ (genericOrd s a.v b.v).isLE = true := Iff.rfl
theorem Pt.lt_def (a b : Pt s) : a < b ↔ genericOrd s a.v b.v = .lt := Iff.rfl

instance : Std.IsLinearPreorder (Pt s) where
  le_refl a := by
    show (genericOrd s a.v a.v).isLE = true
    simp [ReflCmp.compare_self]
  le_trans a b c h1 h2 := TransCmp.isLE_trans (cmp := genericOrd s) h1 h2
  le_total a b := by
    show (genericOrd s a.v b.v).isLE = true ∨ (genericOrd s b.v a.v).isLE = true
    rw [OrientedCmp.eq_swap (cmp := genericOrd s) (a := b.v)]
    cases genericOrd s a.v b.v <;> simp

instance : Std.LawfulOrderLT (Pt s) where
  lt_iff a b := by
    show genericOrd s a.v b.v = .lt ↔
      (genericOrd s a.v b.v).isLE = true ∧ ¬ (genericOrd s b.v a.v).isLE = true
    rw [OrientedCmp.eq_swap (cmp := genericOrd s) (a := b.v)]
    cases genericOrd s a.v b.v <;> simp

/-- The point of a version. -/
abbrev pt (s : System) (v : Version) : Pt s := ⟨v⟩

theorem ord_eq_iff (a b : Version) :
    genericOrd s a b = .eq ↔ (pt s a ≤ pt s b ∧ pt s b ≤ pt s a) := by
  show _ ↔ ((genericOrd s a b).isLE = true ∧ (genericOrd s b a).isLE = true)
  rw [OrientedCmp.eq_swap (cmp := genericOrd s) (a := b)]
  cases genericOrd s a b <;> simp

/-- The four generic three-component SemVer systems of the property. -/
def Sys4 (s : System) : Prop := s = .default ∨ s = .npm ∨ s = .cargo ∨ s = .go

/-- A version of system `s` without extension (every version of a generic system). -/
def VG (s : System) (v : Version) : Prop := v.sys = s ∧ v.ext = .none

instance (s : System) (v : Version) : Decidable (VG s v) := inferInstanceAs (Decidable (_ ∧ _))

theorem vcompare_eq {a b : Version} (ha : VG s a) (hb : VG s b) :
    vcompare a b = .ok (ordToInt (genericOrd s a b)) := by
  have := compare_generic a b (ha.1.trans hb.1.symm) ha.2 hb.2
  rw [ha.1] at this
  exact this

@[simp] theorem ok_bind {α β} (a : α) (f : α → Outcome β) : (Outcome.ok a >>= f) = f a := rfl
@[simp] theorem err_bind {α β} (f : α → Outcome β) : ((Outcome.err : Outcome α) >>= f) = .err := rfl
@[simp] theorem panic_bind {α β} (f : α → Outcome β) : ((Outcome.panic : Outcome α) >>= f) = .panic := rfl
@[simp] theorem pure_eq {α} (a : α) : (pure a : Outcome α) = .ok a := rfl

theorem ordToInt_lt_zero (o : Ordering) : (decide (ordToInt o < 0)) = decide (o = .lt) := by
  cases o <;> simp [ordToInt]
theorem ordToInt_beq_zero (o : Ordering) : (ordToInt o == 0) = decide (o = .eq) := by
  cases o <;> simp [ordToInt]
theorem ordToInt_le_zero' (o : Ordering) : (decide (ordToInt o ≤ 0)) = o.isLE := by
  cases o <;> simp [ordToInt, Ordering.isLE]
theorem ordToInt_gt_zero (o : Ordering) : (decide (ordToInt o > 0)) = decide (o = .gt) := by
  cases o <;> simp [ordToInt]

theorem vLess_eq {a b : Version} (ha : VG s a) (hb : VG s b) :
    vLess a b = .ok (decide (pt s a < pt s b)) := by
  unfold vLess
  rw [vcompare_eq ha hb]
  simp only [ok_bind, ordToInt_lt_zero]
  rfl

theorem vEqual_eq {a b : Version} (ha : VG s a) (hb : VG s b) :
    vEqual a b = .ok (decide (pt s a ≤ pt s b ∧ pt s b ≤ pt s a)) := by
  unfold vEqual
  rw [vcompare_eq ha hb]
  simp only [ok_bind, ordToInt_beq_zero]
  congr 1
  exact decide_eq_decide.mpr (ord_eq_iff a b)

theorem vLessEq_eq {a b : Version} (ha : VG s a) (hb : VG s b) :
    vLessEq a b = .ok (decide (pt s a ≤ pt s b)) := by
  unfold vLessEq
  rw [vcompare_eq ha hb]
  simp only [ok_bind, ordToInt_le_zero']
  congr 1
  exact (Bool.decide_eq_true).symm

theorem vGreater_eq {a b : Version} (ha : VG s a) (hb : VG s b) :
    vGreater a b = .ok (decide (pt s b < pt s a)) := by
  unfold vGreater
  rw [vcompare_eq ha hb]
  simp only [ok_bind, ordToInt_gt_zero]
  congr 1
  apply decide_eq_decide.mpr
  show _ ↔ genericOrd s b a = .lt
  rw [OrientedCmp.eq_swap (cmp := genericOrd s) (a := b)]
  cases genericOrd s a b <;> simp

/-! ### kernel-evaluable comparisons (through the structural `vcompare`) for concrete instances -/

def ltB (a b : Version) : Bool := match vcompare a b with | .ok c => decide (c < 0) | _ => false
def leB (a b : Version) : Bool := match vcompare a b with | .ok c => decide (c ≤ 0) | _ => false

theorem ltB_iff {a b : Version} (ha : VG s a) (hb : VG s b) : ltB a b = true ↔ pt s a < pt s b := by
  unfold ltB
  rw [vcompare_eq ha hb]
  simp only [ordToInt_lt_zero, decide_eq_true_eq]
  rfl

theorem leB_iff {a b : Version} (ha : VG s a) (hb : VG s b) : leB a b = true ↔ pt s a ≤ pt s b := by
  unfold leB
  rw [vcompare_eq ha hb]
  simp only [ordToInt_le_zero']
  rfl

end DepsDev.Proofs.C09
