import DepsDev.Proofs.C04bSet
import DepsDev.Props.C04

/-!
# C04 (extension) — `ParseConstraint`, `ParseSetConstraint`, `Match` never panic

The recursive-descent parser is restated with its cases named (`cpUnop`, `cpPlain`, `cpHyphen`,
`cpBare`, `cpBracket`, `cpUpper`, `alNext`; the same restatements as in `Proofs/C11Constraint`,
each equal to the model by `rfl`), and every stage is shown to satisfy an `OKP` triple: no panic,
spans `SpOK` of the system, the parser state stays in the system. All nine systems.
-/
namespace DepsDev.Proofs.C04b
open DepsDev DepsDev.Semver DepsDev.Proofs

/-! ## the parser, restated -/

/-- `value()`: the unary-operator case (`typ`, `tok` = the operator token, `r1` = input after it). -/
def cpUnop (p : CP) (typ : Nat) (tok r1 : Bytes) : Outcome (ValueRes × CP) := do
  let sys := p.sys
  let (typ2, tok2, r2) ← token sys r1
  if typ2 != tokVersion && typ2 != tokWildcard then .ok ({}, p.setErr) else
  match parse sys tok2 with
  | .panic => .panic
  | .err => .ok ({}, p.setErr)
  | .ok version =>
    let p := { p with rest := r2 }
    let spansRes : Outcome (List Span) :=
      if tok == [33, 61] then do
        let (l, r) ← excludeToSpans version
        .ok [l, r]
      else do
        let s ← opVersionToSpan typ version
        .ok [s]
    match spansRes with
    | .panic => .panic
    | .err => .ok ({}, p.setErr)
    | .ok spans =>
      let w := p.weight + 1 + (if typ != tokEqual then 1 else 0)
      .ok ({ spans := spans, valid := true }, { p with weight := w })

/-- `value()`: a bare version (no hyphen range follows). -/
def cpPlain (p : CP) (typ : Nat) (tok r1 : Bytes) : Outcome (ValueRes × CP) :=
  let sys := p.sys
  match parse sys tok with
  | .panic => .panic
  | .err => .ok ({ valid := true }, { p with weight := p.weight + 1, err := true, rest := r1 })
  | .ok version =>
    let w := p.weight + 1 + (if version.isWildcard then 1 else 0)
    let p := { p with weight := w, rest := r1 }
    let opType := if sys == .cargo && typ == tokVersion then tokCaret else tokEmpty
    match opVersionToSpan opType version with
    | .panic => .panic
    | .err => .ok ({}, p.setErr)
    | .ok s => .ok ({ spans := [s], valid := true }, p)

/-- `value()`: a hyphen range `lo - hi` (`r2` = input after the hyphen). -/
def cpHyphen (p : CP) (tok r2 : Bytes) : Outcome (ValueRes × CP) := do
  let sys := p.sys
  let (typ3, tok3, r3) ← token sys r2
  if typ3 != tokVersion && typ3 != tokWildcard then .ok ({}, p.setErr) else
  let lo := parse sys tok
  let hi := parse sys tok3
  if lo.isPanic || hi.isPanic then .panic else
  let p := { p with err := p.err || !lo.isOk || !hi.isOk, rest := r3, weight := p.weight + 2 }
  match lo, hi with
  | .ok lo, .ok hi => do
    let lt ← vLess hi lo
    if lt then .ok ({}, p.setErr) else
    match newSpan lo false (hi.fill infinity) false with
    | .panic => .panic
    | .err => .ok ({}, p.setErr)
    | .ok s => .ok ({ spans := [s], hyphenated := true, valid := true }, p)
  | _, _ => .ok ({ hyphenated := true, valid := true }, p)

/-- `constraintParser.value` with its cases named. -/
def cpValue' (p : CP) : Outcome (ValueRes × CP) := do
  let sys := p.sys
  let (typ, tok, r1) ← token sys p.rest
  if typ == tokEOF then .ok ({}, p)
  else if typ == tokInvalid then .ok ({}, p.setErr)
  else if isUnop typ then cpUnop p typ tok r1
  else if typ == tokVersion || typ == tokWildcard then
    let (typ2, _, r2) ← token sys r1
    if typ2 == tokInvalid then .ok ({}, p.setErr) else
    if typ2 != tokHyphen then cpPlain p typ tok r1
    else cpHyphen p tok r2
  else .ok ({}, p)

theorem cpValue_eq (p : CP) : cpValue p = cpValue' p := rfl


/-- The "optional version, then look at the next token" step of `setRange` (used for both bounds). -/
def cpOptVersion (sys : System) (p : CP) (typ : Nat) (tok r : Bytes) :
    Outcome (Option (Option Version × Nat × Bytes × Bytes × CP)) :=
  if typ == tokVersion then
    match parse sys tok with
    | .panic => .panic
    | .err => .ok none
    | .ok m => do
      let p := { p with rest := r }
      let (typ', tok', r') ← token sys p.rest
      .ok (some (some m, typ', tok', r', p))
  else .ok (some (none, typ, tok, r, p))

/-- `setRange` after the optional lower bound, at `,` … `]`. -/
def cpUpper (sys : System) (p : CP) (min : Version) (minOpen : Bool) : Outcome (Option Span × CP) := do
  let (typ, tok, r) ← token sys p.rest
  match ← cpOptVersion sys p typ tok r with
  | none => .ok (none, p.setErr)
  | some (max?, typ, tok, r, p) =>
  let maxOpen0 := tok == [41]
  let (max, maxOpen) : Version × Bool := match max? with
    | some m => (m, maxOpen0)
    | none => ({ sys := sys, num := [infinity, infinity, infinity] }, false)
  if typ != tokRbracket then .ok (none, p.setErr) else
  match newSpan min minOpen max maxOpen with
  | .panic => .panic
  | .err => .ok (none, p.setErr)
  | .ok sp => .ok (some sp, { p with rest := r })

/-- `setRange`: the bracket form (`tok` = the opening bracket, `r1` = input after it). -/
def cpBracket (p0 : CP) (tok0 r1 : Bytes) : Outcome (Option Span × CP) := do
  let sys := p0.sys
  let p := { p0 with weight := p0.weight + 2, rest := r1 }
  let minOpen0 := tok0 == [40]
  let (typ, tok, r) ← token sys p.rest
  match ← cpOptVersion sys p typ tok r with
  | none => .ok (none, p.setErr)
  | some (min?, typ, tok, r, p) =>
  let (min, minOpen) ← (match min? with
    | some m => Outcome.ok (m, minOpen0)
    | none =>
      match parse sys [48] with
      | .ok m => Outcome.ok (m, false)
      | .err => Outcome.panic
      | .panic => Outcome.panic)
  if typ != tokComma && typ != tokRbracket then .ok (none, p.setErr) else
  let p := { p with rest := r }
  if typ == tokRbracket then
    let p := if minOpen || tok == [41] then p.setErr else p
    match newSpanAliased min with
    | .panic => .panic
    | .err => .ok (none, p.setErr)
    | .ok sp => .ok (some sp, p)
  else cpUpper sys p min minOpen

/-- `setRange`: a bare (possibly floating) version. -/
def cpBare (p0 : CP) (tok r1 : Bytes) : Outcome (Option Span × CP) :=
  let sys := p0.sys
  match parse sys tok with
  | .panic => .panic
  | .err => .ok (none, p0.setErr)
  | .ok v =>
    let p := { p0 with weight := p0.weight + 1 + (if v.isWildcard then 1 else 0) }
    if sys == .maven then
      let zero : Version := { sys := sys, num := [0, 0, 0] }
      match opVersionToSpan tokGreaterEqual zero with
      | .panic => .panic
      | .err => .ok (some Span.emptySpan, { p with rest := r1 })
      | .ok sp => .ok (some sp, { p with rest := r1 })
    else if sys == .nuget then
      match opVersionToSpan tokGreaterEqual v with
      | .panic => .panic
      | .err => .ok (some Span.emptySpan, { p with rest := r1 })
      | .ok sp => .ok (some sp, { p with rest := r1 })
    else .ok (none, p.setErr)

def cpSetRange' (p : CP) : Outcome (Option Span × CP) := do
  let sys := p.sys
  let (typ, tok, r1) ← token sys p.rest
  if typ == tokEOF then .ok (none, p)
  else if typ == tokInvalid then .ok (none, p.setErr)
  else if typ == tokWildcard && sys != .nuget then .ok (none, p.setErr)
  else if typ == tokVersion || typ == tokWildcard then cpBare p tok r1
  else if typ == tokLbracket then cpBracket p tok r1
  else .ok (none, p)

theorem cpSetRange_eq (p : CP) : cpSetRange p = cpSetRange' p := rfl


abbrev ALRes := Outcome (List Span × Bool × CP)

/-- The token switch after a value in `andList`; `k p set lastWasComma` = the next iteration. -/
def alNext (k : CP → List Span → Bool → ALRes) (p : CP) (set' : List Span) : ALRes := do
  let (typ, _, r) ← token p.sys p.rest
  if typ == tokEOF then k p set' false
  else if typ == tokInvalid then k p.setErr set' false
  else if typ == tokComma then k { p with rest := r } set' true
  else if typ == tokOr then k p set' false
  else
    let p := if !p.sys.supportsAnd then p.setErr else p
    let p := if p.sys == .rubygems then p.setErr else p
    k p set' false

theorem andList_go_succ (p : CP) (set : List Span) (first lwc : Bool) (fuel : Nat) :
    cpAndList.go p set first lwc (fuel + 1) =
      (cpValue p).bind (fun (vr, p) =>
        if !vr.valid then .ok (set, !first, if lwc then p.setErr else p)
        else if first then
          if vr.hyphenated then .ok (vr.spans, true, p)
          else alNext (fun p s l => cpAndList.go p s false l fuel) p vr.spans
        else if vr.hyphenated then .ok (set, true, p.setErr)
        else
          match VSet.intersect { sys := .default, span := set } { sys := .default, span := vr.spans } with
          | .panic => .panic
          | .err => .ok (set, false, p.setErr)
          | .ok s => alNext (fun p s l => cpAndList.go p s false l fuel) p s.span) := rfl


theorem orList_go_succ (p : CP) (spans : List Span) (lwo : Bool) (k : Nat) :
    cpOrList.go p spans lwo (k + 1) =
      (cpAndList p).bind (fun (set, ok, p1) =>
        if !ok then (if lwo then .ok ([], p1.setErr) else cpOrList.fin p1 spans)
        else
          if p.sys == .nuget && (spans ++ set).length > 1 then .ok ([], p1.setErr) else
          (token p.sys p1.rest).bind (fun (typ, _, r) =>
            if typ == (if p.sys == .maven || p.sys == .nuget then tokComma else tokOr)
            then cpOrList.go { p1 with rest := r } (spans ++ set) true k
            else cpOrList.fin p1 (spans ++ set))) := rfl


/-! ## `value()` -/

theorem token_okp (s : System) (b : Bytes) : OKP (fun _ => True) (token s b) :=
  okp_true (Props.C04.token_total s b)

theorem isPanic_false {α} {x : Outcome α} (h : NoPanic x) : x.isPanic = false := by
  cases x with
  | ok a => rfl
  | err => rfl
  | panic => exact absurd rfl h

theorem allOK_nil (s : System) : AllOK s [] := fun _ h => nomatch h
theorem allOK_one {s : System} {sp : Span} (h : SpOK s sp) : AllOK s [sp] := by
  intro z hz; simp only [List.mem_singleton] at hz; subst hz; exact h
theorem allOK_two {s : System} {a b : Span} (ha : SpOK s a) (hb : SpOK s b) : AllOK s [a, b] := by
  intro z hz
  simp only [List.mem_cons, List.not_mem_nil, or_false] at hz
  rcases hz with rfl | rfl
  · exact ha
  · exact hb
theorem allOK_append {s : System} {a b : List Span} (ha : AllOK s a) (hb : AllOK s b) : AllOK s (a ++ b) := by
  intro z hz
  rcases List.mem_append.mp hz with h | h
  · exact ha z h
  · exact hb z h

/-- Postcondition of `value()`: well-formed spans, same system. -/
def VRes (s : System) (r : ValueRes × CP) : Prop := AllOK s r.1.spans ∧ r.2.sys = s

theorem vres_none (p : CP) : VRes p.sys (({} : ValueRes), p) := ⟨allOK_nil _, rfl⟩
theorem vres_err (p : CP) : VRes p.sys (({} : ValueRes), p.setErr) := ⟨allOK_nil _, rfl⟩

theorem spansRes_okp {s : System} {version : Version} (hv : VK s version) (typ : Nat) (tok : Bytes)
    (hnum : typ = tokBacon → (version.sys = .rubygems ∨ version.sys = .pypi) → version.num ≠ []) :
    OKP (AllOK s) (if tok == [33, 61] then (do
        let (l, r) ← excludeToSpans version
        Outcome.ok [l, r])
      else (do
        let sp ← opVersionToSpan typ version
        Outcome.ok [sp])) := by
  split
  · refine okp_bind (excludeToSpans_okp hv) ?_
    intro p ⟨h1, h2⟩
    exact okp_ok (allOK_two h1 h2)
  · refine okp_bind (opVersionToSpan_okp typ hv hnum) ?_
    intro sp hsp
    exact okp_ok (allOK_one hsp)

theorem parse_num_of_sys {s : System} {v : Version} (hv : VK s v) (hnum : s ≠ .maven → v.num ≠ []) :
    (v.sys = .rubygems ∨ v.sys = .pypi) → v.num ≠ [] := by
  intro h
  apply hnum
  rw [← hv.sys]
  rcases h with h | h <;> rw [h] <;> decide

theorem cpUnop_okp (p : CP) (typ : Nat) (tok r1 : Bytes) : OKP (VRes p.sys) (cpUnop p typ tok r1) := by
  unfold cpUnop
  refine okp_bind (token_okp _ _) ?_
  intro t2 _
  obtain ⟨typ2, tok2, r2⟩ := t2
  simp only
  split
  · exact okp_ok (vres_err p)
  · have hpv := parse_okp p.sys tok2
    split
    · rename_i heq; exact (okp_not_panic hpv heq).elim
    · exact okp_ok (vres_err p)
    · rename_i version heq
      obtain ⟨hv, hnum⟩ := okp_val hpv heq
      have hsr := spansRes_okp hv typ tok (fun _ => parse_num_of_sys hv hnum)
      split
      · rename_i heq2; exact (okp_not_panic hsr heq2).elim
      · exact okp_ok ⟨allOK_nil _, rfl⟩
      · rename_i spans heq2
        exact okp_ok ⟨okp_val hsr heq2, rfl⟩

theorem cpPlain_okp (p : CP) (typ : Nat) (tok r1 : Bytes) : OKP (VRes p.sys) (cpPlain p typ tok r1) := by
  unfold cpPlain
  simp only
  have hpv := parse_okp p.sys tok
  split
  · rename_i heq; exact (okp_not_panic hpv heq).elim
  · exact okp_ok ⟨allOK_nil _, rfl⟩
  · rename_i version heq
    obtain ⟨hv, hnum⟩ := okp_val hpv heq
    have hsr := opVersionToSpan_okp (if p.sys == .cargo && typ == tokVersion then tokCaret else tokEmpty) hv
      (fun _ => parse_num_of_sys hv hnum)
    split
    · rename_i heq2; exact (okp_not_panic hsr heq2).elim
    · exact okp_ok ⟨allOK_nil _, rfl⟩
    · rename_i sp heq2
      exact okp_ok ⟨allOK_one (okp_val hsr heq2), rfl⟩

theorem cpHyphen_okp (p : CP) (tok r2 : Bytes) : OKP (VRes p.sys) (cpHyphen p tok r2) := by
  unfold cpHyphen
  refine okp_bind (token_okp _ _) ?_
  intro t3 _
  obtain ⟨typ3, tok3, r3⟩ := t3
  simp only
  split
  · exact okp_ok (vres_err p)
  · have hlo := parse_vk p.sys tok
    have hhi := parse_vk p.sys tok3
    rw [isPanic_false (okp_np hlo), isPanic_false (okp_np hhi)]
    simp only [Bool.or_self, Bool.false_eq_true, ↓reduceIte]
    split
    · rename_i lo hi e1 e2
      have vlo := okp_val hlo e1
      have vhi := okp_val hhi e2
      refine okp_bind (vLess_okp vhi vlo) ?_
      intro lt _
      split
      · exact okp_ok ⟨allOK_nil _, rfl⟩
      · have hsr := newSpan_spok vlo (vk_fill vhi infinity) false false
        split
        · rename_i heq2; exact (okp_not_panic hsr heq2).elim
        · exact okp_ok ⟨allOK_nil _, rfl⟩
        · rename_i sp heq2
          exact okp_ok ⟨allOK_one (okp_val hsr heq2), rfl⟩
    · exact okp_ok ⟨allOK_nil _, rfl⟩

theorem cpValue_okp (p : CP) : OKP (VRes p.sys) (cpValue p) := by
  rw [cpValue_eq]
  unfold cpValue'
  refine okp_bind (token_okp _ _) ?_
  intro t1 _
  obtain ⟨typ, tok, r1⟩ := t1
  simp only
  split
  · exact okp_ok (vres_none p)
  · split
    · exact okp_ok (vres_err p)
    · split
      · exact cpUnop_okp p typ tok r1
      · split
        · refine okp_bind (token_okp _ _) ?_
          intro t2 _
          obtain ⟨typ2, tok2, r2⟩ := t2
          simp only
          split
          · exact okp_ok (vres_err p)
          · split
            · exact cpPlain_okp p typ tok r1
            · exact cpHyphen_okp p tok r2
        · exact okp_ok (vres_none p)

/-! ## `setRange()` (Maven, NuGet) -/

/-- Postcondition of `setRange()`. -/
def SRes (s : System) (r : Option Span × CP) : Prop := (∀ sp, r.1 = some sp → SpOK s sp) ∧ r.2.sys = s

theorem sres_none {s : System} {p : CP} (hp : p.sys = s) : SRes s (none, p) := ⟨(fun _ h => nomatch h), hp⟩
theorem sres_some {s : System} {p : CP} {sp : Span} (hsp : SpOK s sp) (hp : p.sys = s) : SRes s (some sp, p) :=
  ⟨fun _ h => (by injection h with h; subst h; exact hsp), hp⟩

theorem cpOptVersion_okp (sys : System) (p : CP) (hp : p.sys = sys) (typ : Nat) (tok r : Bytes) :
    OKP (fun o => ∀ x, o = some x → (∀ m, x.1 = some m → VK sys m) ∧ x.2.2.2.2.sys = sys)
      (cpOptVersion sys p typ tok r) := by
  unfold cpOptVersion
  split
  · have hpv := parse_vk sys tok
    split
    · rename_i heq; exact (okp_not_panic hpv heq).elim
    · exact okp_ok (fun _ h => nomatch h)
    · rename_i m heq
      have hm := okp_val hpv heq
      refine okp_bind (token_okp _ _) ?_
      intro t _
      obtain ⟨typ', tok', r'⟩ := t
      refine okp_ok ?_
      intro x hx
      injection hx with hx; subst hx
      exact ⟨fun m' hm' => (by injection hm' with hm'; subst hm'; exact hm), hp⟩
  · refine okp_ok ?_
    intro x hx
    injection hx with hx; subst hx
    exact ⟨(fun _ h => nomatch h), hp⟩

theorem cpUpper_okp (sys : System) (p : CP) (hp : p.sys = sys) {min : Version} (hmin : VK sys min) (minOpen : Bool) :
    OKP (SRes sys) (cpUpper sys p min minOpen) := by
  unfold cpUpper
  refine okp_bind (token_okp _ _) ?_
  intro t _
  obtain ⟨typ, tok, r⟩ := t
  simp only
  refine okp_bind (cpOptVersion_okp sys p hp typ tok r) ?_
  intro o ho
  split
  · exact okp_ok (sres_none hp)
  · rename_i max? typ' tok' r' p'
    obtain ⟨hm, hp'⟩ := ho _ rfl
    try simp only at hm hp'
    have hmax : VK sys (match max? with
        | some m => (m, tok' == [41])
        | none => (({ sys := sys, num := [infinity, infinity, infinity] } : Version), false)).1 := by
      split
      · exact hm _ rfl
      · exact vk_const sys _
    split
    · exact okp_ok (sres_none hp')
    · have hsr := newSpan_spok hmin hmax minOpen (match max? with
        | some m => (m, tok' == [41])
        | none => (({ sys := sys, num := [infinity, infinity, infinity] } : Version), false)).2
      split
      · rename_i heq2; exact (okp_not_panic hsr heq2).elim
      · exact okp_ok (sres_none hp')
      · rename_i sp heq2
        exact okp_ok (sres_some (okp_val hsr heq2) hp')

theorem parse_zero (s : System) (hs : s = .maven ∨ s = .nuget) : ∃ m, parse s [48] = .ok m ∧ VK s m := by
  have h : (parse s [48]).isOk = true := by
    rcases hs with rfl | rfl <;> decide +kernel
  cases hp : parse s [48] with
  | ok m => exact ⟨m, rfl, okp_val (parse_vk s [48]) hp⟩
  | err => rw [hp] at h; cases h
  | panic => rw [hp] at h; cases h

theorem cpBracket_okp (p0 : CP) (hs : p0.sys = .maven ∨ p0.sys = .nuget) (tok0 r1 : Bytes) :
    OKP (SRes p0.sys) (cpBracket p0 tok0 r1) := by
  unfold cpBracket
  refine okp_bind (token_okp _ _) ?_
  intro t _
  obtain ⟨typ, tok, r⟩ := t
  simp only
  refine okp_bind (cpOptVersion_okp p0.sys { p0 with weight := p0.weight + 2, rest := r1 } rfl typ tok r) ?_
  intro o ho
  split
  · exact okp_ok (sres_none rfl)
  · rename_i min? typ' tok' r' p'
    obtain ⟨hm, hp'⟩ := ho _ rfl
    try simp only at hm hp'
    refine okp_bind (P := fun mo : Version × Bool => VK p0.sys mo.1) ?_ ?_
    · split
      · exact okp_ok (hm _ rfl)
      · obtain ⟨m, e, vm⟩ := parse_zero p0.sys hs
        rw [e]
        exact okp_ok vm
    · intro mo hmo
      obtain ⟨min, minOpen⟩ := mo
      simp only at hmo ⊢
      split
      · exact okp_ok (sres_none hp')
      · split
        · have hsr := newSpanAliased_spok hmo
          split
          · rename_i heq2; exact (okp_not_panic hsr heq2).elim
          · exact okp_ok (sres_none (by split <;> exact hp'))
          · rename_i sp heq2
            exact okp_ok (sres_some (okp_val hsr heq2) (by split <;> exact hp'))
        · exact cpUpper_okp p0.sys { p' with rest := r' } hp' hmo minOpen

theorem cpBare_okp (p0 : CP) (tok r1 : Bytes) : OKP (SRes p0.sys) (cpBare p0 tok r1) := by
  unfold cpBare
  simp only
  have hpv := parse_vk p0.sys tok
  split
  · rename_i heq; exact (okp_not_panic hpv heq).elim
  · exact okp_ok (sres_none rfl)
  · rename_i v heq
    have hv := okp_val hpv heq
    split
    · have hsr := opVersionToSpan_okp tokGreaterEqual (vk_const p0.sys [0, 0, 0]) (fun h => nomatch h)
      split
      · rename_i heq2; exact (okp_not_panic hsr heq2).elim
      · exact okp_ok (sres_some (spOK_empty _) rfl)
      · rename_i sp heq2
        exact okp_ok (sres_some (okp_val hsr heq2) rfl)
    · split
      · have hsr := opVersionToSpan_okp tokGreaterEqual hv (fun h => nomatch h)
        split
        · rename_i heq2; exact (okp_not_panic hsr heq2).elim
        · exact okp_ok (sres_some (spOK_empty _) rfl)
        · rename_i sp heq2
          exact okp_ok (sres_some (okp_val hsr heq2) rfl)
      · exact okp_ok (sres_none rfl)

theorem cpSetRange_okp (p : CP) (hs : p.sys = .maven ∨ p.sys = .nuget) : OKP (SRes p.sys) (cpSetRange p) := by
  rw [cpSetRange_eq]
  unfold cpSetRange'
  refine okp_bind (token_okp _ _) ?_
  intro t1 _
  obtain ⟨typ, tok, r1⟩ := t1
  simp only
  split
  · exact okp_ok (sres_none rfl)
  · split
    · exact okp_ok (sres_none rfl)
    · split
      · exact okp_ok (sres_none rfl)
      · split
        · exact cpBare_okp p tok r1
        · split
          · exact cpBracket_okp p hs tok r1
          · exact okp_ok (sres_none rfl)

/-! ## `andList()`, `orList()` -/

/-- Postcondition of `andList()`. -/
def ARes (s : System) (r : List Span × Bool × CP) : Prop := AllOK s r.1 ∧ r.2.2.sys = s

theorem alNext_okp {s : System} (k : CP → List Span → Bool → ALRes)
    (hk : ∀ p set l, p.sys = s → AllOK s set → OKP (ARes s) (k p set l))
    (p : CP) (hp : p.sys = s) (set' : List Span) (hset : AllOK s set') : OKP (ARes s) (alNext k p set') := by
  unfold alNext
  refine okp_bind (token_okp _ _) ?_
  intro t _
  obtain ⟨typ, tok, r⟩ := t
  simp only
  split
  · exact hk _ _ _ hp hset
  · split
    · exact hk _ _ _ hp hset
    · split
      · exact hk _ _ _ hp hset
      · split
        · exact hk _ _ _ hp hset
        · apply hk _ _ _ _ hset
          split <;> split <;> exact hp

theorem andList_go_okp {s : System} (fuel : Nat) : ∀ (p : CP) (set : List Span) (first lwc : Bool),
    p.sys = s → AllOK s set → OKP (ARes s) (cpAndList.go p set first lwc fuel) := by
  induction fuel with
  | zero => intro p set first lwc hp hset; exact okp_ok ⟨hset, hp⟩
  | succ n ih =>
    intro p set first lwc hp hset
    rw [andList_go_succ]
    subst hp
    refine okp_bind' (cpValue_okp p) ?_
    intro r hr
    obtain ⟨vr, p'⟩ := r
    obtain ⟨h1, h2⟩ := hr
    simp only at h1 h2 ⊢
    have hk : ∀ (q : CP) (st : List Span) (l : Bool), q.sys = p.sys → AllOK p.sys st →
        OKP (ARes p.sys) (cpAndList.go q st false l n) := fun q st l hq hst => ih q st false l hq hst
    split
    · exact okp_ok ⟨hset, by split <;> exact h2⟩
    · split
      · split
        · exact okp_ok ⟨h1, h2⟩
        · exact alNext_okp _ hk p' h2 _ h1
      · split
        · exact okp_ok ⟨hset, h2⟩
        · have hi := intersect_okp (S := { sys := .default, span := set }) (T := { sys := .default, span := vr.spans }) hset h1
          split
          · rename_i heq; exact (okp_not_panic hi heq).elim
          · exact okp_ok ⟨hset, h2⟩
          · rename_i R heq
            have hR : AllOK p.sys R.span := okp_val (Q := fun R : VSet => AllOK p.sys R.span) hi heq
            exact alNext_okp _ hk p' h2 _ hR

theorem cpAndList_okp (p : CP) : OKP (ARes p.sys) (cpAndList p) := by
  unfold cpAndList
  split
  · rename_i hc
    have hs : p.sys = .maven ∨ p.sys = .nuget := by simpa using hc
    refine okp_bind (cpSetRange_okp p hs) ?_
    intro r hr
    obtain ⟨sp?, p'⟩ := r
    obtain ⟨h1, h2⟩ := hr
    simp only at h1 h2 ⊢
    split
    · exact okp_ok ⟨allOK_one (h1 _ rfl), h2⟩
    · exact okp_ok ⟨allOK_nil _, h2⟩
  · exact andList_go_okp _ p [] true false rfl (allOK_nil _)

/-- Postcondition of `orList()`. -/
def ORes (s : System) (r : List Span × CP) : Prop := AllOK s r.1 ∧ r.2.sys = s

theorem orList_fin_okp {s : System} (p : CP) (hp : p.sys = s) (spans : List Span) (hsp : AllOK s spans) :
    OKP (ORes s) (cpOrList.fin p spans) := by
  unfold cpOrList.fin
  have hc := canonSpans_okp hsp
  split
  · rename_i heq; exact (okp_not_panic hc heq).elim
  · exact okp_ok ⟨allOK_nil _, hp⟩
  · rename_i sp heq
    exact okp_ok ⟨okp_val hc heq, hp⟩

theorem orList_go_okp {s : System} (fuel : Nat) : ∀ (p : CP) (spans : List Span) (lwo : Bool),
    p.sys = s → AllOK s spans → OKP (ORes s) (cpOrList.go p spans lwo fuel) := by
  induction fuel with
  | zero =>
    intro p spans lwo hp hsp
    simp only [cpOrList.go]
    exact orList_fin_okp p hp spans hsp
  | succ n ih =>
    intro p spans lwo hp hsp
    rw [orList_go_succ]
    subst hp
    refine okp_bind' (cpAndList_okp p) ?_
    intro r hr
    obtain ⟨set, ok, p1⟩ := r
    obtain ⟨h1, h2⟩ := hr
    simp only at h1 h2 ⊢
    split
    · split
      · exact okp_ok ⟨allOK_nil _, h2⟩
      · exact orList_fin_okp p1 h2 spans hsp
    · split
      · exact okp_ok ⟨allOK_nil _, h2⟩
      · refine okp_bind' (token_okp _ _) ?_
        intro t _
        obtain ⟨typ, tok, r⟩ := t
        simp only
        split <;> split <;> first
          | exact ih _ _ _ h2 (allOK_append hsp h1)
          | exact orList_fin_okp p1 h2 _ (allOK_append hsp h1)

theorem cpOrList_okp (p : CP) : OKP (ORes p.sys) (cpOrList p) := by
  unfold cpOrList
  exact orList_go_okp _ p [] false rfl (allOK_nil _)

/-! ## `ParseConstraint`, `ParseSetConstraint`, `Match` -/

/-- What a parsed constraint carries: its system and a well-formed set. -/
def CRes (s : System) (c : Constraint) : Prop := c.sys = s ∧ AllOK s c.set.span

theorem parseConstraint_okp (s : System) (b : Bytes) : OKP (CRes s) (parseConstraint s b) := by
  unfold parseConstraint
  simp only
  split
  · exact okp_err
  · split
    · rename_i hgo
      have hs : s = .go := by simpa using hgo
      subst hs
      have hpv := parse_okp .go (if (Bytes.trimSpace b).isEmpty then ">=0.0.0".toUTF8.toList else Bytes.trimSpace b)
      split
      · rename_i heq; exact (okp_not_panic hpv heq).elim
      · exact okp_err
      · rename_i lo heq
        obtain ⟨hv, hnum⟩ := okp_val hpv heq
        have hlen : 0 < lo.num.length := List.length_pos_iff.mpr (hnum (by decide))
        refine okp_bind (P := fun hi => VK .go hi ∧ 0 < hi.num.length) ?_ ?_
        · split
          · exact okp_mono (incN_okp hv 0 hlen) (fun w hw => ⟨hw.1, by rw [hw.2]; exact hlen⟩)
          · exact okp_ok ⟨hv, hlen⟩
        · intro hi ⟨vhi, lhi⟩
          refine okp_bind (incN_okp vhi 0 lhi) ?_
          intro hi' ⟨vhi', _⟩
          refine okp_bind (newSpan_spok hv (vk_setPatch (vk_setMinor vhi' 0) 0) false true) ?_
          intro sp hsp
          exact okp_ok ⟨rfl, allOK_one hsp⟩
    · refine okp_bind (P := fun p : CP => p.sys = s) ?_ ?_
      · split
        · refine okp_bind (token_okp _ _) ?_
          intro t _
          obtain ⟨typ, tok, r⟩ := t
          exact okp_ok (by split <;> rfl)
        · exact okp_ok rfl
      · intro p hp
        subst hp
        refine okp_bind (cpOrList_okp p) ?_
        intro r hr
        obtain ⟨spans, p'⟩ := r
        obtain ⟨h1, h2⟩ := hr
        simp only at h1 h2 ⊢
        refine okp_bind (token_okp _ _) ?_
        intro t _
        obtain ⟨typ, tok, r⟩ := t
        simp only
        repeat' split
        all_goals first
          | exact okp_err
          | exact okp_ok ⟨rfl, allOK_nil _⟩
          | exact okp_ok ⟨rfl, h1⟩

theorem parseSetConstraint_okp (s : System) (b : Bytes) : OKP (CRes s) (parseSetConstraint s b) := by
  unfold parseSetConstraint
  refine okp_bind (parseSet_okp s _) ?_
  intro r hr
  obtain ⟨set, simple⟩ := r
  exact okp_ok ⟨rfl, hr⟩

theorem matchV_okp {s : System} {c : Constraint} (hc : CRes s c) {v : Version} (hv : VK s v)
    (hpep : s = .pypi → ∃ e, v.ext = .pep e) : OKP (fun _ => True) (c.matchV v) := by
  unfold Constraint.matchV
  simp only
  split
  · rename_i hcond
    have hs : s = .pypi := by
      rw [← hc.1]
      simp only [Bool.and_eq_true, beq_iff_eq] at hcond
      exact hcond.1
    obtain ⟨e, he⟩ := hpep hs
    rw [he]
    simp only
    repeat' split
    all_goals first
      | trivial
      | exact matchVersion_okp hc.2 hv _
  · exact matchVersion_okp hc.2 hv _

/-- `Constraint.Match(version string)` never panics on a constraint the parsers return. -/
theorem matchStr_okp {s : System} {c : Constraint} (hc : CRes s c) (b : Bytes) :
    OKP (fun _ => True) (c.matchStr b) := by
  unfold Constraint.matchStr
  rw [hc.1]
  have hpv := parse_vk s b
  split
  · rename_i heq; exact (okp_not_panic hpv heq).elim
  · trivial
  · rename_i v heq
    refine matchV_okp hc (okp_val hpv heq) ?_
    intro hs
    subst hs
    exact (Props.C01.parse_wf .pypi b v heq).2

end DepsDev.Proofs.C04b
