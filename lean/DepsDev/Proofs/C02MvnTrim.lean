import DepsDev.Model.Semver.Compare

/-!
# C02 — Maven, part 2: the trimming loop of `mavenExtension.init` as a stack machine

`mavenTrim` (an index machine with fuel, mirroring the Go loops) equals `trimF`: push the next
element; when nothing or a `-` element follows, pop "empty" elements (`0`, `ga`, `final`,
`release`) off the stack while more than one element is left. For all lists.
-/
namespace DepsDev.Proofs.C02Mvn
open DepsDev DepsDev.Semver

/-- Pop "empty" elements off a stack (top first) while more than one element is left:
the inner loop of `mavenTrim`. -/
def popE : List MavenElem → List MavenElem
  | x :: y :: t => if isEmptyMavenElem x.str then popE (y :: t) else x :: y :: t
  | l => l

/-- The trimming loop as a stack machine: `st` is the processed prefix (reversed). -/
def trimF (st : List MavenElem) : List MavenElem → List MavenElem
  | [] => st.reverse
  | e :: rest =>
    trimF (if (match rest with | f :: _ => f.sep != 45 | [] => false) then e :: st else popE (e :: st)) rest

theorem trimF_nil (st : List MavenElem) : trimF st [] = st.reverse := rfl
theorem trimF_cons (st : List MavenElem) (e : MavenElem) (rest : List MavenElem) :
    trimF st (e :: rest) =
      trimF (if (match rest with | f :: _ => f.sep != 45 | [] => false) then e :: st else popE (e :: st)) rest := rfl

theorem popE_ne_nil : ∀ {l : List MavenElem}, l ≠ [] → popE l ≠ []
  | [x], _ => by simp [popE]
  | x :: y :: t, _ => by
    unfold popE
    split
    · exact popE_ne_nil (by simp)
    · simp

theorem inner_eq (fuel : Nat) : ∀ (pre : List MavenElem) (e : MavenElem) (post : List MavenElem),
    pre.length < fuel →
    mavenTrim.inner (pre.reverse ++ e :: post) pre.length fuel =
      ((popE (e :: pre)).reverse ++ post, (popE (e :: pre)).length - 1) := by
  induction fuel with
  | zero => intro pre e post h; omega
  | succ k ih =>
    intro pre e post hf
    have hget : (pre.reverse ++ e :: post)[pre.length]? = some e := by
      rw [List.getElem?_append_right (by simp)]; simp
    simp only [mavenTrim.inner, hget]
    cases pre with
    | nil => simp [popE]
    | cons y t =>
      by_cases hemp : isEmptyMavenElem e.str = true
      · have : (decide ((y :: t).length > 0) && isEmptyMavenElem e.str) = true := by simp [hemp]
        simp only [this, ↓reduceIte]
        have herase : ((y :: t).reverse ++ e :: post).eraseIdx (y :: t).length = t.reverse ++ y :: post := by
          rw [List.eraseIdx_append_of_length_le (by simp)]
          simp
        rw [herase]
        have hlen : (y :: t).length - 1 = t.length := by simp
        rw [hlen, ih t y post (by simp at hf; omega)]
        simp [popE, hemp]
      · simp only [hemp, Bool.and_false, Bool.false_eq_true, ↓reduceIte]
        simp [popE, hemp]

theorem outer_eq (fuel : Nat) : ∀ (st post : List MavenElem), st ≠ [] → post.length < fuel →
    mavenTrim.outer (st.reverse ++ post) st.length fuel = trimF st post := by
  induction fuel with
  | zero => intro st post _ h; omega
  | succ k ih =>
    intro st post hst hf
    cases post with
    | nil => simp [mavenTrim.outer, trimF_nil]
    | cons e rest =>
      have hlt : st.length < (st.reverse ++ e :: rest).length := by simp
      simp only [mavenTrim.outer, hlt, ↓reduceIte]
      have hnext : (st.reverse ++ e :: rest)[st.length + 1]? = rest.head? := by
        rw [List.getElem?_append_right (by simp)]
        simp
        cases rest <;> simp
      rw [hnext]
      cases rest with
      | nil =>
        simp only [List.head?_nil, Bool.and_false, Bool.false_eq_true, ↓reduceIte]
        rw [trimF_cons]
        simp only [Bool.false_eq_true, ↓reduceIte]
        have := inner_eq ((st.reverse ++ [e]).length + 1) st e [] (by simp; omega)
        rw [this]
        simp only [List.append_nil]
        have hne := popE_ne_nil (l := e :: st) (by simp)
        have hl : (popE (e :: st)).length - 1 + 1 = (popE (e :: st)).length := by
          have : (popE (e :: st)).length ≠ 0 := by simpa using hne
          omega
        rw [hl]
        have := ih (popE (e :: st)) [] hne (by simp at hf ⊢; omega)
        simpa [trimF_nil] using this
      | cons f rest' =>
        have hlt2 : st.length < (st.reverse ++ e :: f :: rest').length - 1 := by simp
        simp only [List.head?_cons, hlt2, decide_true, Bool.true_and]
        by_cases hs : (f.sep != 45) = true
        · simp only [hs, ↓reduceIte]
          rw [trimF_cons]
          simp only [hs, ↓reduceIte]
          have := ih (e :: st) (f :: rest') (by simp) (by simp at hf ⊢; omega)
          simpa using this
        · simp only [hs, Bool.false_eq_true, ↓reduceIte]
          rw [trimF_cons]
          simp only [hs, Bool.false_eq_true, ↓reduceIte]
          have := inner_eq ((st.reverse ++ e :: f :: rest').length + 1) st e (f :: rest') (by simp; omega)
          rw [this]
          have hne := popE_ne_nil (l := e :: st) (by simp)
          have hl : (popE (e :: st)).length - 1 + 1 = (popE (e :: st)).length := by
            have : (popE (e :: st)).length ≠ 0 := by simpa using hne
            omega
          simp only [hl]
          exact ih (popE (e :: st)) (f :: rest') hne (by simp at hf ⊢; omega)

/-- **`mavenTrim` is the stack machine.** -/
theorem mavenTrim_eq (e0 : MavenElem) (rest : List MavenElem) : mavenTrim (e0 :: rest) = trimF [e0] rest := by
  unfold mavenTrim
  have := outer_eq ((e0 :: rest).length * (e0 :: rest).length + (e0 :: rest).length + 2) [e0] rest (by simp)
    (by simp; omega)
  simpa using this

end DepsDev.Proofs.C02Mvn
