import DepsDev.Proofs.C10Lex

/-!
# C10 — stage 1 of the generic version parser (`PS.gLead`, `PS.gNums`, `PS.gHead`) on printed numbers

`gHead_render`: on `[v]n0.n1.….nk` (k ≥ 2, each a printed number below `infinity`, or '∞' when
the parser runs with `allowInfinity`) followed by the end of the input or an accepted byte that
is neither a digit nor `.`, stage 1 returns exactly the numbers, no error recorded, and the
lexer positioned after the first byte of what follows.
-/
namespace DepsDev.Proofs.C10
open DepsDev DepsDev.Semver Digits

/-- `next` does not read `prev`. -/
theorem next_prev (l : Lex) (pv : Bytes) : ({ l with prev := pv } : Lex).next = l.next := by
  obtain ⟨r1, p1, a1, e1⟩ := l
  cases r1 with
  | nil => rfl
  | cons c r => rfl

/-- `infinity` as a literal (`SemverTies.values_ok` ties it to the Go constant). -/
theorem infinity_lit : infinity = (9223372036854775807 : Int) := rfl
theorem wildcard_lit : wildcard = (-1 : Int) := rfl

/-- A numeric component as the canonical form prints it: a number in `[0, infinity)`,
or (only where the parser is run with `allowInfinity`) `infinity` itself. -/
def NumOk (allowInf : Bool) (x : Int) : Prop :=
  0 ≤ x ∧ (x < 9223372036854775807 ∨ (allowInf = true ∧ x = 9223372036854775807))

theorem valueBytes_num (x : Int) (h0 : 0 ≤ x) (h1 : x < 9223372036854775807) :
    valueBytes x = natToBytes x.toNat := by
  have h1 : ¬ x = 9223372036854775807 := by omega
  have h2 : ¬ x = -1 := by omega
  have h3 : ¬ x < 0 := by omega
  simp [valueBytes, infinity_lit, wildcard_lit, h1, h2, intToBytes, h3]

theorem valueBytes_inf : valueBytes infinity = infB := by
  simp [valueBytes, infB]

/-- What the lexer is left with after a number (the `prev` field; never read again). -/
def prevAfter (x : Int) (ys : Bytes) : Bytes := if x = 9223372036854775807 then infB ++ ys else ys

theorem number_value (p : PS) (x : Int) (ys : Bytes) (hr : p.lex.rest = valueBytes x ++ ys)
    (hx : NumOk p.lex.allowInf x) (hy : StopsNum ys) (hw : p.v.isWildcard = false) :
    PS.number p = PS.addNum { p with lex := { p.lex with rest := ys, prev := prevAfter x ys } } x := by
  rcases hx with ⟨h0, h1 | ⟨ha, rfl⟩⟩
  · have hne : ¬ x = 9223372036854775807 := by omega
    rw [valueBytes_num x h0 h1] at hr
    rw [number_digits p x.toNat ys hr (by rw [infinity_lit]; omega) hy hw]
    simp [prevAfter, hne, Int.toNat_of_nonneg h0]
  · rw [← infinity_lit, valueBytes_inf] at hr
    rw [number_inf p ys hr ha]
    simp [prevAfter, infinity_lit]


/-- `.n1.n2…` -/
def dotNums (xs : List Int) : Bytes := xs.flatMap (fun x => 46 :: valueBytes x)

/-- What may follow the numbers: the end, or an accepted byte that is neither a digit nor `.`. -/
def StopsNums (ys : Bytes) : Prop :=
  ys = [] ∨ ∃ c r, ys = c :: r ∧ isVS c = true ∧ isDigitB c = false ∧ c ≠ 46

/-- How many numbers the system's `addNum` accepts. -/
def LenOk (sys : System) (k : Nat) : Prop :=
  k ≤ 3 ∨ (sys.allowsManyNumbers = true ∧ (sys = .nuget → k ≤ 4))

theorem isVS_dot : isVS 46 = true := by decide
theorem isDigitB_dot : isDigitB 46 = false := by decide

theorem stopsNum_dotNums (xs : List Int) (ys : Bytes) (hy : StopsNums ys) : StopsNum (dotNums xs ++ ys) := by
  cases xs with
  | nil =>
    rcases hy with h | ⟨c, r, h, h1, h2, _⟩
    · exact Or.inl (by simpa [dotNums] using h)
    · exact Or.inr ⟨c, r, by simpa [dotNums] using h, h1, h2⟩
  | cons x xs => exact Or.inr ⟨46, valueBytes x ++ (dotNums xs ++ ys), by simp [dotNums], isVS_dot, isDigitB_dot⟩

theorem isWildcard_addNum (v : Version) (x : Int) (hx : 0 ≤ x) (hw : v.isWildcard = false) :
    (v.addNum x).isWildcard = false := by
  have : ¬ x = -1 := by omega
  simp only [Version.isWildcard, Version.addNum, List.any_append, List.any_cons, List.any_nil,
    Bool.or_false, wildcard_lit] at hw ⊢
  simp [hw, this]

theorem gNums_ne_dot (p : PS) (r : Rune) (fuel : Nat) (h : (r == 46) = false) : PS.gNums p r fuel = (p, r) := by
  cases fuel <;> simp [PS.gNums, h]

theorem gNums_dot (ys : Bytes) (hy : StopsNums ys) (xs : List Int) :
    ∀ (p : PS) (fuel : Nat), p.lex.rest = dotNums xs ++ ys → (∀ x ∈ xs, NumOk p.lex.allowInf x) →
      LenOk p.v.sys (p.v.num.length + xs.length) → p.v.isWildcard = false → xs.length < fuel →
      PS.gNums { p with lex := p.lex.next.2 } p.lex.next.1 fuel =
        ({ v := { p.v with num := p.v.num ++ xs },
           lex := ({ p.lex with rest := ys, prev := ys } : Lex).next.2 },
         ({ p.lex with rest := ys, prev := ys } : Lex).next.1) := by
  induction xs with
  | nil =>
    intro p fuel hr _ _ _ _
    simp only [dotNums, List.flatMap_nil, List.nil_append] at hr
    have e1 : ({ p.lex with rest := ys, prev := ys } : Lex).next = p.lex.next := by
      have : ({ p.lex with rest := ys, prev := ys } : Lex) = { p.lex with prev := ys } := by rw [← hr]
      rw [this, next_prev]
    rw [e1]
    have hne : (p.lex.next.1 == 46) = false := by
      rcases hy with h | ⟨c, r, h, h1, _, h3⟩
      · rw [next_nil p.lex (hr.trans h)]; rfl
      · rw [next_vs p.lex c r (hr.trans h) h1]
        have : c.toNat ≠ 46 := fun e => h3 (UInt8.toNat_inj.mp e)
        simp only [beq_eq_false_iff_ne, ne_eq]
        show ¬ ((c.toNat : Int) = 46)
        omega
    rw [gNums_ne_dot _ _ _ hne]
    simp
  | cons x xs ih =>
    intro p fuel hr hx hlen hw hf
    obtain ⟨fuel, rfl⟩ : ∃ k, fuel = k + 1 := ⟨fuel - 1, by simp at hf; omega⟩
    have hr' : p.lex.rest = 46 :: (valueBytes x ++ (dotNums xs ++ ys)) := by
      rw [hr]; simp [dotNums]
    rw [next_vs p.lex 46 _ hr' isVS_dot]
    have h46 : (((46 : UInt8).toNat : Int) == (46 : Rune)) = true := by decide
    simp only [PS.gNums, h46, ↓reduceIte]
    have hx0 := hx x (by simp)
    have hnum := number_value
      { v := p.v, lex := { p.lex with rest := valueBytes x ++ (dotNums xs ++ ys), prev := 46 :: (valueBytes x ++ (dotNums xs ++ ys)) } }
      x (dotNums xs ++ ys) rfl hx0 (stopsNum_dotNums xs ys hy) hw
    rw [hnum]
    rw [addNum_ok _ x (by show (x : Int) ≤ 9223372036854775807; rcases hx0 with ⟨_, h | ⟨_, h⟩⟩ <;> omega)
      (by
        simp only [List.length_cons] at hlen
        rcases hlen with h | ⟨h1, h2⟩
        · left; show p.v.num.length < 3; omega
        · right; exact ⟨h1, fun e => by have := h2 e; show p.v.num.length < 4; omega⟩)]
    simp only [↓reduceIte]
    have := ih { v := p.v.addNum x, lex := { p.lex with rest := dotNums xs ++ ys, prev := prevAfter x (dotNums xs ++ ys) } }
      fuel rfl (fun y hy => hx y (by simp [hy]))
      (by simp only [Version.addNum, List.length_append, List.length_cons, List.length_nil] at hlen ⊢
          rw [show p.v.num.length + 1 + xs.length = p.v.num.length + (xs.length + 1) by omega]; exact hlen)
      (isWildcard_addNum p.v x hx0.1 hw) (by simpa using hf)
    simp only [Version.addNum, List.append_assoc, List.singleton_append] at this ⊢
    exact this


/-- The systems whose versions carry no extension (the SemVer family). -/
def Generic (s : System) : Bool :=
  s == .default || s == .cargo || s == .go || s == .npm || s == .nuget || s == .composer

/-- Go versions are printed with a leading `v`. -/
def lead (s : System) : Bytes := if s == .go then [118] else []

theorem peek_inf (l : Lex) (r : Bytes) (hr : l.rest = infB ++ r) (ha : l.allowInf = true) :
    l.peek = (runeInf, { l with prev := infB ++ r }) := by
  unfold Lex.peek
  rw [next_inf l r hr ha]
  simp [Lex.back, hr]

/-- Peeking at the first byte of a printed number: not a `v`/`V`, nothing consumed. -/
theorem peek_value (l : Lex) (x : Int) (ys : Bytes) (hr : l.rest = valueBytes x ++ ys) (hx : NumOk l.allowInf x) :
    ∃ r : Rune, l.peek = (r, { l with prev := l.rest }) ∧ (r == 118) = false ∧ (r == 86) = false := by
  rcases hx with ⟨h0, h1 | ⟨ha, rfl⟩⟩
  · rw [valueBytes_num x h0 h1] at hr
    obtain ⟨d, ds, hd, hdd⟩ := natToBytes_cons x.toNat
    have hr' : l.rest = d :: (ds ++ ys) := by rw [hr, hd]; rfl
    refine ⟨(d.toNat : Int), ?_, ?_, ?_⟩
    · rw [peek_vs l d _ hr' (digit_vs d hdd).1, hr']
    · have := (isDigitB_iff d).mp hdd
      rw [beq_eq_false_iff_ne]; show ¬ ((d.toNat : Int) = 118); omega
    · have := (isDigitB_iff d).mp hdd
      rw [beq_eq_false_iff_ne]; show ¬ ((d.toNat : Int) = 86); omega
  · rw [← infinity_lit, valueBytes_inf] at hr
    exact ⟨runeInf, by rw [peek_inf l ys hr ha, hr], by decide, by decide⟩

theorem gLead_render (sys : System) (hs : Generic sys = true) (x : Int) (ys : Bytes) (ai : Bool) (hx : NumOk ai x) :
    ∃ pv, PS.gLead sys (lead sys ++ (valueBytes x ++ ys)) ai =
      { v := { sys := sys }, lex := { rest := valueBytes x ++ ys, prev := pv, allowInf := ai, err := false } } := by
  cases sys <;> simp only [Generic] at hs <;> try (exact absurd hs (by decide))
  case default => exact ⟨_, rfl⟩
  case cargo => exact ⟨_, rfl⟩
  case nuget => exact ⟨_, rfl⟩
  case go =>
    refine ⟨118 :: (valueBytes x ++ ys), ?_⟩
    unfold PS.gLead
    simp only [lead, beq_self_eq_true, ↓reduceIte, List.singleton_append]
    rw [next_vs _ 118 (valueBytes x ++ ys) rfl (by decide)]
    rfl
  case npm =>
    obtain ⟨r, hp, h1, _⟩ := peek_value { rest := valueBytes x ++ ys, prev := valueBytes x ++ ys, allowInf := ai } x ys rfl hx
    refine ⟨valueBytes x ++ ys, ?_⟩
    unfold PS.gLead
    simp only [lead, show (System.npm == System.go) = false by decide, Bool.false_eq_true, ↓reduceIte, List.nil_append,
      PS.stripV, hp, h1]
  case composer =>
    obtain ⟨r, hp, h1, h2⟩ := peek_value { rest := valueBytes x ++ ys, prev := valueBytes x ++ ys, allowInf := ai } x ys rfl hx
    refine ⟨valueBytes x ++ ys, ?_⟩
    unfold PS.gLead
    simp only [lead, show (System.composer == System.go) = false by decide, Bool.false_eq_true, ↓reduceIte, List.nil_append,
      hp, h1, h2]


theorem dotNums_length (xs : List Int) : xs.length ≤ (dotNums xs).length := by
  induction xs with
  | nil => simp [dotNums]
  | cons x xs ih =>
    simp only [dotNums, List.flatMap_cons, List.length_append, List.length_cons] at ih ⊢
    omega

theorem generic_ne_rubygems (sys : System) (hs : Generic sys = true) : (sys == System.rubygems) = false := by
  cases sys <;> first | rfl | exact absurd hs (by decide)

/-- The end of stage 1: NuGet drops a zero fourth number; a dangling `.`; RubyGems. -/
def gHeadTail (sys : System) (p : PS) (r : Rune) : Option (PS × Rune) :=
  let p := if sys == .nuget && p.v.num.length == 4 && p.v.getNum 3 == 0
    then { p with v := { p.v with num := p.v.num.take 3 } } else p
  if r == 46 && p.v.num.length < 3 && sys != .rubygems then none else
  if sys == .rubygems && isAlnumRune r then some ({ p with lex := p.lex.back }, (45 : Rune)) else some (p, r)

theorem gHead_of (sys : System) (str : Bytes) (ai : Bool) (p1 p2 : PS) (r : Rune)
    (h1 : PS.number (PS.gLead sys str ai) = (true, p1))
    (h2 : PS.gNums { p1 with lex := p1.lex.next.2 } p1.lex.next.1 (str.length + 1) = (p2, r)) :
    PS.gHead sys str ai = gHeadTail sys p2 r := by
  unfold PS.gHead
  simp only [h1, Bool.not_true, Bool.false_eq_true, ↓reduceIte, h2]
  rfl

/-- Stage 1 on `n0.n1.….nk` (at least three numbers) followed by a non-digit, non-dot byte or the end. -/
theorem gHead_render (sys : System) (hs : Generic sys = true) (ai : Bool) (x : Int) (xs : List Int) (ys : Bytes)
    (hx : ∀ y ∈ x :: xs, NumOk ai y) (hlen : LenOk sys (1 + xs.length)) (h3 : 2 ≤ xs.length)
    (hy : StopsNums ys) (hn4 : sys = .nuget → xs.length = 3 → xs[2]? ≠ some 0) :
    PS.gHead sys (lead sys ++ (valueBytes x ++ (dotNums xs ++ ys))) ai =
      some ({ v := { sys := sys, num := x :: xs },
              lex := ({ rest := ys, prev := ys, allowInf := ai, err := false } : Lex).next.2 },
            ({ rest := ys, prev := ys, allowInf := ai, err := false } : Lex).next.1) := by
  obtain ⟨pv, hlead⟩ := gLead_render sys hs x (dotNums xs ++ ys) ai (hx x (by simp))
  have hx0 := hx x (by simp)
  have hnum : PS.number (PS.gLead sys (lead sys ++ (valueBytes x ++ (dotNums xs ++ ys))) ai) =
      (true, { v := { sys := sys, num := [x] }, lex := { rest := dotNums xs ++ ys, prev := prevAfter x (dotNums xs ++ ys), allowInf := ai, err := false } }) := by
    rw [hlead, number_value _ x (dotNums xs ++ ys) rfl (hx x (by simp)) (stopsNum_dotNums xs ys hy) rfl,
      addNum_ok _ x (by show (x : Int) ≤ 9223372036854775807; rcases hx0 with ⟨_, h | ⟨_, h⟩⟩ <;> omega)
        (by left; show (0 : Nat) < 3; omega)]
    rfl
  have hloop := gNums_dot ys hy xs
    { v := { sys := sys, num := [x] }, lex := { rest := dotNums xs ++ ys, prev := prevAfter x (dotNums xs ++ ys), allowInf := ai, err := false } }
    ((lead sys ++ (valueBytes x ++ (dotNums xs ++ ys))).length + 1) rfl
    (fun y hy' => hx y (by simp [hy']))
    (by simpa using hlen)
    (by have := isWildcard_addNum { sys := sys } x (hx x (by simp)).1 rfl; simpa [Version.addNum] using this)
    (by have := dotNums_length xs; simp only [List.length_append]; omega)
  rw [gHead_of sys _ ai _ _ _ hnum hloop]
  unfold gHeadTail
  simp only [List.singleton_append]
  have h1 : (sys == System.nuget && xs.length + 1 == 4 && ({ sys := sys, num := x :: xs } : Version).getNum 3 == 0) = false := by
    by_cases hsn : sys = .nuget
    · by_cases h4 : xs.length = 3
      · have := hn4 hsn h4
        match xs, h4 with
        | [a, b, c], _ =>
          have hc : c ≠ 0 := by simpa using this
          simp [Version.getNum, hc]
      · have : (xs.length + 1 == 4) = false := by rw [beq_eq_false_iff_ne]; omega
        rw [this]; simp
    · simp [hsn]
  have h2 : (decide (xs.length + 1 < 3)) = false := by simp; omega
  simp only [List.length_cons, h1, Bool.false_eq_true, ↓reduceIte, h2, Bool.and_false, Bool.false_and,
    generic_ne_rubygems sys hs]

end DepsDev.Proofs.C10
