import DepsDev.Proofs.C06Loop

/-! Helper lemmas for C06: the specification of the pick of a fresh install, of
`regularImports`, and table look-ups. -/

namespace DepsDev.Resolve.Npm

/-! ## Table look-ups -/

theorem findMatching_mem {l : List ((Name × Name) × Option (List Version))} {p r : Name}
    {a : Option (List Version)} (h : Universe.findMatching l p r = some a) : ((p, r), a) ∈ l := by
  induction l with
  | nil => simp [Universe.findMatching] at h
  | cons x l ih =>
    obtain ⟨⟨p', r'⟩, a'⟩ := x
    simp only [Universe.findMatching] at h
    split at h
    · rename_i hc; cases h; obtain ⟨rfl, rfl⟩ := hc; exact List.mem_cons_self
    · exact List.mem_cons_of_mem _ (ih h)

theorem matchingVersions_row {u : Universe} {p r : Name} {vs : List Version}
    (h : u.matchingVersions p r = .ok vs) : ((p, r), some vs) ∈ u.matching := by
  unfold Universe.matchingVersions at h
  split at h
  · cases h
  · cases h
  · rename_i vs' hf; cases h; exact findMatching_mem hf

theorem findVersion_mem {l : List (Version × List Import)} {n v : Name} {e : Version × List Import}
    (h : Universe.findVersion l n v = some e) : e ∈ l ∧ e.1.name = n ∧ e.1.version = v := by
  induction l with
  | nil => simp [Universe.findVersion] at h
  | cons x l ih =>
    obtain ⟨w, is⟩ := x
    simp only [Universe.findVersion] at h
    split at h
    · rename_i hc; cases h; exact ⟨List.mem_cons_self, hc.1, hc.2⟩
    · obtain ⟨h1, h2⟩ := ih h; exact ⟨List.mem_cons_of_mem _ h1, h2⟩

theorem requirements_mem {u : Universe} {n v : Name} {reqs : List Import}
    (h : u.requirements n v = some reqs) : ∃ w, (w, reqs) ∈ u.versions ∧ w.name = n ∧ w.version = v := by
  unfold Universe.requirements at h
  split at h
  · rename_i w is hf; cases h
    obtain ⟨h1, h2, h3⟩ := findVersion_mem hf
    exact ⟨w, h1, h2, h3⟩
  · cases h

/-! ## The pick of a fresh install (lines 321–332) -/

/-- `r` is the pick among `dvers` (in the client's ascending order) given `latest`: every
version above `r` is blocked and is not the latest; `r` itself is the latest, or is not
blocked, or nothing qualifies at all and `r` is the highest. -/
def PickSpec (latest : Option Version) (dvers : List Version) (r : Version) : Prop :=
  ∃ lower higher, dvers = lower ++ r :: higher ∧
    (∀ w ∈ higher, w.blocked = true ∧ w.equalOpt latest = false) ∧
    (r.equalOpt latest = true ∨ r.blocked = false ∨
      (higher = [] ∧ ∀ w ∈ lower, w.blocked = true ∧ w.equalOpt latest = false))

theorem pickLoop_some {latest : Option Version} {l : List Version} {v : Version}
    (h : pickLoop latest l = some v) :
    ∃ pre post, l = pre ++ v :: post ∧ (v.equalOpt latest = true ∨ v.blocked = false) ∧
      ∀ w ∈ pre, w.blocked = true ∧ w.equalOpt latest = false := by
  induction l with
  | nil => simp [pickLoop] at h
  | cons x l ih =>
    simp only [pickLoop] at h
    split at h
    · rename_i hc
      cases h
      refine ⟨[], l, rfl, ?_, by simp⟩
      simp only [Bool.or_eq_true, Bool.not_eq_true'] at hc
      exact hc
    · rename_i hc
      obtain ⟨pre, post, hl, hv, hpre⟩ := ih h
      refine ⟨x :: pre, post, by rw [hl]; rfl, hv, ?_⟩
      intro w hw
      rcases List.mem_cons.1 hw with hw | hw
      · subst hw
        simp only [Bool.or_eq_true, Bool.not_eq_true', not_or, Bool.not_eq_true, Bool.not_eq_false] at hc
        exact ⟨hc.2, hc.1⟩
      · exact hpre w hw

theorem pickLoop_none {latest : Option Version} {l : List Version} (h : pickLoop latest l = none) :
    ∀ w ∈ l, w.blocked = true ∧ w.equalOpt latest = false := by
  induction l with
  | nil => simp
  | cons x l ih =>
    simp only [pickLoop] at h
    split at h
    · cases h
    · rename_i hc
      intro w hw
      rcases List.mem_cons.1 hw with hw | hw
      · subst hw
        simp only [Bool.or_eq_true, Bool.not_eq_true', not_or, Bool.not_eq_true, Bool.not_eq_false] at hc
        exact ⟨hc.2, hc.1⟩
      · exact ih h w hw

theorem pickFrom_spec (latest : Option Version) (last : Version) (rest : List Version) :
    PickSpec latest (rest.reverse ++ [last]) (pickFrom latest last rest) := by
  unfold pickFrom
  cases hp : pickLoop latest (last :: rest) with
  | some v =>
    obtain ⟨pre, post, hl, hv, hpre⟩ := pickLoop_some hp
    refine ⟨post.reverse, pre.reverse, ?_, ?_, ?_⟩
    · have : (last :: rest).reverse = (pre ++ v :: post).reverse := by rw [hl]
      simpa using this
    · intro w hw; exact hpre w (List.mem_reverse.1 hw)
    · rcases hv with hv | hv
      · exact Or.inl hv
      · exact Or.inr (Or.inl hv)
  | none =>
    have hall := pickLoop_none hp
    refine ⟨rest.reverse, [], rfl, by simp, Or.inr (Or.inr ⟨rfl, ?_⟩)⟩
    intro w hw
    exact hall w (List.mem_cons_of_mem _ (List.mem_reverse.1 hw))

/-- `wouldPick` returns the specified pick; `latest` is what `concreteForLatest` answers for
the package of the highest matching version. -/
theorem wouldPick_spec {u : Universe} {dvers : List Version} {r : Version}
    (h : wouldPick u dvers = .ok (some r)) :
    ∃ latest init w, dvers = init ++ [w] ∧ concreteForLatest u w.name = .ok latest ∧
      PickSpec latest dvers r := by
  unfold wouldPick at h
  split at h
  · cases h
  · rename_i last rest hrev
    have hd : dvers = rest.reverse ++ [last] := by
      have := congrArg List.reverse hrev
      simpa using this
    split at h
    · cases h
    · cases h
    · rename_i latest hl
      simp only [Outcome.ok.injEq, Option.some.injEq] at h
      subst h
      refine ⟨latest, rest.reverse, last, hd, hl, ?_⟩
      rw [hd]; exact pickFrom_spec latest last rest

theorem PickSpec.mem {latest : Option Version} {dvers : List Version} {r : Version}
    (h : PickSpec latest dvers r) : r ∈ dvers := by
  obtain ⟨lower, higher, hd, _⟩ := h
  rw [hd]; simp

theorem wouldPick_mem {u : Universe} {dvers : List Version} {r : Version}
    (h : wouldPick u dvers = .ok (some r)) : r ∈ dvers := by
  obtain ⟨_, _, _, _, _, hs⟩ := wouldPick_spec h
  exact hs.mem

theorem equalOpt_self (v : Version) : v.equalOpt (some v) = true := by
  simp [Version.equalOpt, Version.keyEq]

theorem equalOpt_of_keyEq {v w : Version} (h : v.keyEq w = true) : v.equalOpt (some w) = true := by
  simp [Version.equalOpt, h]

/-- "latest if it satisfies", provided the client lists it last. -/
theorem PickSpec.latest_last {L : Version} {init : List Version} {l r : Version}
    (h : PickSpec (some L) (init ++ [l]) r) (hl : l.keyEq L = true) : r = l := by
  obtain ⟨lower, higher, hd, hhigh, _⟩ := h
  cases hh : higher.reverse with
  | nil =>
    have : higher = [] := by simpa using hh
    subst this
    have := congrArg List.reverse hd
    simp only [List.reverse_append, List.reverse_cons, List.reverse_nil, List.nil_append,
      List.singleton_append, List.cons.injEq] at this
    exact this.1.symm
  | cons x xs =>
    have hh' : higher = xs.reverse ++ [x] := by
      have := congrArg List.reverse hh; simpa using this
    have := congrArg List.reverse hd
    rw [hh'] at this
    simp only [List.reverse_append, List.reverse_cons, List.reverse_nil, List.nil_append,
      List.cons_append, List.cons.injEq, List.reverse_reverse] at this
    have hlx : l = x := this.1
    subst hlx
    have := (hhigh l (by rw [hh']; simp)).2
    rw [equalOpt_of_keyEq hl] at this
    cases this

theorem blocked_of_attr_empty {v : Version} (h : v.attr = AttrSet.empty) : v.blocked = false := by
  simp [Version.blocked, h, AttrSet.maskBit, AttrSet.empty]

/-- When no matching version is the latest, `equalOpt` does not matter: the pick is the
highest non-blocked version, or the highest if all are blocked. -/
theorem PickSpec.no_latest {latest : Option Version} {dvers : List Version} {r : Version}
    (h : PickSpec latest dvers r)
    (hno : ∀ w ∈ dvers, w.equalOpt latest = true → w.blocked = false) :
    ∃ lower higher, dvers = lower ++ r :: higher ∧ (∀ w ∈ higher, w.blocked = true) ∧
      (r.blocked = false ∨ (higher = [] ∧ ∀ w ∈ lower, w.blocked = true)) := by
  obtain ⟨lower, higher, hd, hhigh, hr⟩ := h
  refine ⟨lower, higher, hd, fun w hw => (hhigh w hw).1, ?_⟩
  rcases hr with hr | hr | ⟨h1, h2⟩
  · exact Or.inl (hno r (by rw [hd]; simp) hr)
  · exact Or.inl hr
  · exact Or.inr ⟨h1, fun w hw => (h2 w hw).1⟩

/-! ## regularImports -/

theorem mem_regularImports {imps : List Import} {d : Import} :
    d ∈ regularImports imps ↔ d ∈ imps ∧ keepImport imps d = true := by
  simp [regularImports, List.mem_filter]

/-- Hypothesis of E2: an optional requirement is not also peer- or bundle-scoped. -/
def OptPlainList (imps : List Import) : Prop :=
  ∀ d ∈ imps, d.dev = false → d.opt = true → d.scope ≠ Name.peer ∧ d.scope ≠ Name.bundle

theorem keepImport_of_opt {imps : List Import} {d : Import} (hdev : d.dev = false) (hopt : d.opt = true)
    (hs : d.scope ≠ Name.peer ∧ d.scope ≠ Name.bundle) : keepImport imps d = true := by
  unfold keepImport
  simp [hdev, hopt, hs.1, hs.2]

theorem regular_not_opt {d : Import} (h : d.regular = true) : d.opt = false ∧ d.scope = Name.empty := by
  unfold Import.regular AttrSet.isRegular at h
  simp only [Bool.and_eq_true, beq_iff_eq, List.isEmpty_iff] at h
  constructor
  · simp [Import.opt, AttrSet.maskBit, h.1]
  · simp [Import.scope, AttrSet.get, h.2, AttrSet.getL]

/-- Every non-dev, non-peer requirement has a surviving requirement of the same name. -/
theorem regularImports_covers {imps : List Import} (hO : OptPlainList imps) {d : Import}
    (hd : d ∈ imps) (hdev : d.dev = false) (hpeer : d.scope ≠ Name.peer) :
    ∃ d' ∈ regularImports imps, d'.name = d.name := by
  have optCase : optPackage imps d.name = true → ∃ d' ∈ regularImports imps, d'.name = d.name := by
    intro ho
    unfold optPackage at ho
    obtain ⟨x, hx, hc⟩ := List.any_eq_true.1 ho
    simp only [Bool.and_eq_true, Bool.not_eq_true', beq_iff_eq] at hc
    exact ⟨x, mem_regularImports.2 ⟨hx, keepImport_of_opt hc.1.1 hc.1.2 (hO x hx hc.1.1 hc.1.2)⟩, hc.2⟩
  by_cases hk : keepImport imps d = true
  · exact ⟨d, mem_regularImports.2 ⟨hd, hk⟩, rfl⟩
  · unfold keepImport at hk
    simp only [hdev, Bool.false_eq_true, if_false] at hk
    split at hk
    · rename_i hc
      simp only [Bool.and_eq_true, Bool.not_eq_true'] at hc
      exact optCase hc.2
    · rename_i hc
      split at hk
      · rename_i hb
        simp only [Bool.not_eq_true', Bool.not_eq_false] at hk
        unfold regPackage at hk
        obtain ⟨x, hx, hxc⟩ := List.any_eq_true.1 hk
        simp only [Bool.and_eq_true, Bool.not_eq_true', beq_iff_eq] at hxc
        obtain ⟨hxo, hxs⟩ := regular_not_opt hxc.1.2
        by_cases ho : optPackage imps x.name = true
        · rw [hxc.2] at ho; exact optCase ho
        · refine ⟨x, mem_regularImports.2 ⟨hx, ?_⟩, hxc.2⟩
          unfold keepImport
          simp only [hxc.1.1, Bool.false_eq_true, if_false, hxo, Bool.not_false, Bool.true_and, ho, hxs]
          simp [Name.empty, Name.bundle, Name.peer]
      · simp only at hk
        exact (hk trivial).elim

end DepsDev.Resolve.Npm
