import DepsDev.Proofs.C10Pep

/-!
# C10 — PEP 440 (PyPI), part 2: `pep440Extension.init` on the canonical text of an AST

`pepInitCore` restated in stages (`pepInitCore_eq`, by `rfl`); the optional parts in sequence
(`run_pre`); `pepInitCore_render`: the canonical text of a valid `PepAst` parses to the AST's
numbers, prerelease elements and `pep440` details.
-/
namespace DepsDev.Proofs.C10
open DepsDev DepsDev.Semver Digits

/-! ## PEP 440: the optional parts in sequence -/

namespace PepAst

/-- Text from the dev part on (`dot`: whether its leading `.` is still there). -/
def textDev (dot : Bool) (a : PepAst) : Bytes :=
  (match a.dev with | some n => dotIf dot ++ [100, 101, 118] ++ natToBytes n | none => []) ++ a.locPart

def textPost (dot : Bool) (a : PepAst) : Bytes :=
  match a.post with
  | some n => dotIf dot ++ [112, 111, 115, 116] ++ (natToBytes n ++ a.textDev true)
  | none => a.textDev dot

def textPre (a : PepAst) : Bytes :=
  match a.pre with
  | some (k, n) => k.bytes ++ (natToBytes n ++ a.textPost true)
  | none => a.textPost false

def extLoc (e : Option Pep440) (a : PepAst) : Option Pep440 :=
  if a.loc.isEmpty then e else some { e.getD {} with loc := a.loc }
def extDev (e : Option Pep440) (a : PepAst) : Option Pep440 :=
  a.extLoc (match a.dev with | some n => some { e.getD {} with devPresent := true, devNum := n } | none => e)
def extPost (e : Option Pep440) (a : PepAst) : Option Pep440 :=
  a.extDev (match a.post with | some n => some { e.getD {} with postPresent := true, postNum := n } | none => e)
def extPre (e : Option Pep440) (a : PepAst) : Option Pep440 :=
  a.extPost (match a.pre with | some (k, n) => some { e.getD {} with pre := k.bytes, preNum := n } | none => e)

end PepAst

theorem locPart_shape (a : PepAst) (h : a.Valid) : a.locPart = [] ∨ ∃ r, a.locPart = 43 :: r := by
  unfold PepAst.locPart
  split
  · exact Or.inl rfl
  · exact Or.inr ⟨_, rfl⟩

theorem run_loc (p : PepState) (a : PepAst) (h : a.Valid) :
    pepParseLocal p a.locPart = .ok ({ p with ext := a.extLoc p.ext }, []) := by
  unfold PepAst.locPart PepAst.extLoc
  split
  · rfl
  · rename_i hne
    have hne' : a.loc ≠ [] := by simpa using hne
    rcases h.loc with h0 | h1
    · exact absurd h0 hne'
    · rw [pepParseLocal_present p a.loc hne' h1]
      rfl

def runDev (p : PepState) (t : Bytes) : Outcome (PepState × Bytes) :=
  pepParseLocal (pepParseDev p t).1 (pepParseDev p t).2
def runPost (p : PepState) (t : Bytes) : Outcome (PepState × Bytes) :=
  runDev (pepParsePost p t).1 (pepParsePost p t).2
def runPre (p : PepState) (t : Bytes) : Outcome (PepState × Bytes) :=
  runPost (pepParsePre p t).1 (pepParsePre p t).2

theorem run_dev (p : PepState) (dot : Bool) (a : PepAst) (h : a.Valid) :
    runDev p (a.textDev dot) = .ok ({ p with ext := a.extDev p.ext }, []) := by
  unfold runDev PepAst.textDev PepAst.extDev
  cases hd : a.dev with
  | none =>
    simp only [List.nil_append]
    rw [pepParseDev_absent p a.locPart (locPart_shape a h)]
    exact run_loc p a h
  | some n =>
    have hL : NonNum a.locPart := by
      rcases locPart_shape a h with h0 | ⟨r, h0⟩ <;> rw [h0]
      · exact Or.inl rfl
      · exact nonNum_plus r
    simp only
    rw [List.append_assoc, pepParseDev_present p dot n a.locPart (h.dev n hd) hL]
    have := run_loc { p with ext := some { p.mk' with devPresent := true, devNum := n } } a h
    simpa [PepState.mk'] using this


theorem textDev_shape (a : PepAst) (h : a.Valid) (dot : Bool) :
    a.textDev dot = [] ∨ (∃ r, a.textDev dot = dotIf dot ++ 100 :: r) ∨ ∃ r, a.textDev dot = 43 :: r := by
  unfold PepAst.textDev
  cases a.dev with
  | none =>
    rcases locPart_shape a h with h0 | ⟨r, h0⟩
    · left; simp [h0]
    · right; right; exact ⟨r, by simp [h0]⟩
  | some n => right; left; exact ⟨101 :: 118 :: (natToBytes n ++ a.locPart), by simp⟩

theorem nonNum_textDev (a : PepAst) (h : a.Valid) : NonNum (a.textDev true) := by
  rcases textDev_shape a h true with h0 | ⟨r, h0⟩ | ⟨r, h0⟩ <;> rw [h0]
  · exact Or.inl rfl
  · exact nonNum_dot _
  · exact nonNum_plus r

theorem run_post (p : PepState) (dot : Bool) (a : PepAst) (h : a.Valid) :
    runPost p (a.textPost dot) = .ok ({ p with ext := a.extPost p.ext }, []) := by
  unfold runPost PepAst.textPost PepAst.extPost
  cases hp : a.post with
  | none =>
    simp only
    rw [pepParsePost_absent p (a.textDev dot) ((textDev_shape a h dot).imp id (Or.imp (fun ⟨r, hr⟩ => ⟨dot, r, hr⟩) id))]
    exact run_dev p dot a h
  | some n =>
    simp only
    rw [pepParsePost_present p dot n (a.textDev true) (h.post n hp) (nonNum_textDev a h)]
    have := run_dev { p with ext := some { p.mk' with postPresent := true, postNum := n } } true a h
    simpa [PepState.mk'] using this

theorem textPost_false_shape (a : PepAst) (h : a.Valid) :
    a.textPost false = [] ∨ (∃ r, a.textPost false = 112 :: 111 :: r) ∨ (∃ r, a.textPost false = 100 :: r) ∨
      ∃ r, a.textPost false = 43 :: r := by
  unfold PepAst.textPost
  cases a.post with
  | some n => right; left; exact ⟨115 :: 116 :: (natToBytes n ++ a.textDev true), by simp [dotIf]⟩
  | none =>
    rcases textDev_shape a h false with h0 | ⟨r, h0⟩ | ⟨r, h0⟩
    · exact Or.inl h0
    · right; right; left; exact ⟨r, by simpa [dotIf] using h0⟩
    · right; right; right; exact ⟨r, h0⟩

theorem nonNum_textPost (a : PepAst) (h : a.Valid) : NonNum (a.textPost true) := by
  unfold PepAst.textPost
  cases a.post with
  | some n => simp only [dotIf, ↓reduceIte, List.singleton_append, List.cons_append]; exact nonNum_dot _
  | none => exact nonNum_textDev a h

theorem run_pre (p : PepState) (a : PepAst) (h : a.Valid) :
    runPre p a.textPre =
      .ok ({ v := match a.pre with
                  | some (k, n) => { p.v with pre := [k.bytes, natToBytes n], isPrerelease := true }
                  | none => p.v,
             ext := a.extPre p.ext }, []) := by
  unfold runPre PepAst.textPre PepAst.extPre
  cases hp : a.pre with
  | none =>
    simp only
    rw [pepParsePre_absent p (a.textPost false) (textPost_false_shape a h)]
    exact run_post p false a h
  | some kn =>
    obtain ⟨k, n⟩ := kn
    simp only
    rw [pepParsePre_present p k n (a.textPost true) (h.pre k n hp) (nonNum_textPost a h)]
    have := run_post ⟨{ p.v with pre := [k.bytes, natToBytes n], isPrerelease := true }, some { p.mk' with pre := k.bytes, preNum := n }⟩ true a h
    simpa [PepState.mk'] using this


/-! ## `pep440Extension.init` in stages -/

/-- The epoch stage. -/
def pepEpoch (sys : System) (input : Bytes) : Outcome (PepState × Bytes) :=
  let v0 : Version := { sys := sys }
  match input.findIdx? (· == 33) with
  | some b =>
    if b > 0 then
      let e := input.take b
      if e.isEmpty || !e.all isDigitB || digitsVal e > 255 then (Outcome.err : Outcome (PepState × Bytes))
      else .ok ({ v := v0, ext := some { epoch := digitsVal e } }, input.drop (b + 1))
    else .ok ({ v := v0, ext := none }, input)
  | none => .ok ({ v := v0, ext := none }, input)

/-- Everything after the release numbers. -/
def pepAfterNums (p : PepState) (rest : Bytes) : Outcome (Version × Option Pep440) :=
  if p.v.num.isEmpty then .err else
  let userN := p.v.num.length
  let padded := if p.v.num.getLastD 0 != wildcard && p.v.num.length < 3
    then p.v.num ++ List.replicate (3 - p.v.num.length) 0 else p.v.num
  let p := { p with v := { p.v with num := padded, userNumCount := userN } }
  (runPre p rest).bind (fun (p, rest) => if !rest.isEmpty then .err else .ok (p.v, p.ext))

/-- The optional leading `v`/`V`. -/
def stripVee (input : Bytes) : Bytes :=
  match input with
  | c :: r => if c == 118 || c == 86 then r else input
  | [] => input

/-- Optional `v`, then the release numbers, then the rest. -/
def pepAfterEpoch (p0 : PepState) (input : Bytes) : Outcome (Version × Option Pep440) :=
  (pepNums p0 (stripVee input)).bind (fun (p, rest) => pepAfterNums p rest)

theorem pepInitCore_eq (sys : System) (input0 : Bytes) :
    pepInitCore sys input0 =
      if !((Bytes.runes (Bytes.trimSpace input0)).all (fun r => (r.1 > 0x20 && r.1 < 0x7F) || r.1 == 0x221E)) then .err
      else (pepEpoch sys (Bytes.trimSpace input0)).bind (fun (p0, input) => pepAfterEpoch p0 input) := rfl


/-! ## C10-a for PEP 440 -/

namespace PepAst
/-- Everything after the release numbers in the canonical text. -/
def tail (a : PepAst) : Bytes := a.prePart ++ (a.postPart ++ (a.devPart ++ a.locPart))
end PepAst

theorem tail_facts (a : PepAst) (h : a.Valid) : TailOk a.tail ∧ afterNums a.tail = a.textPre := by
  unfold PepAst.tail PepAst.textPre PepAst.textPost PepAst.textDev PepAst.prePart PepAst.postPart PepAst.devPart
  cases hpre : a.pre with
  | some kn =>
    obtain ⟨k, n⟩ := kn
    obtain ⟨c, r, hk, hc⟩ := preKind_head k
    have hc80 : c < 0x80 ∧ isDigitB c = false := by cases k <;> (injection hk with e _; subst e; decide)
    simp only
    constructor
    · rw [hk]; exact TailOk.plain c _ hc80.1 hc80.2 hc.1
    · have : afterNums (k.bytes ++ natToBytes n ++ (a.postPart ++ (a.devPart ++ a.locPart))) =
          k.bytes ++ natToBytes n ++ (a.postPart ++ (a.devPart ++ a.locPart)) := by
        rw [hk]
        unfold afterNums
        split
        · rename_i heq; injection heq with e _; exact absurd e hc.1
        · rfl
      unfold PepAst.postPart PepAst.devPart at this
      rw [this]
      cases a.post <;> cases a.dev <;> simp [dotIf]
  | none =>
    simp only [List.nil_append]
    cases hpost : a.post with
    | some n =>
      simp only
      exact ⟨TailOk.dotted 112 _ (by decide) (by decide) (by decide), by cases a.dev <;> simp [afterNums, dotIf]⟩
    | none =>
      simp only [List.nil_append]
      cases hdev : a.dev with
      | some n =>
        simp only
        exact ⟨TailOk.dotted 100 _ (by decide) (by decide) (by decide), by simp [afterNums, dotIf]⟩
      | none =>
        simp only [List.nil_append]
        rcases locPart_shape a h with h0 | ⟨r, h0⟩
        · rw [h0]; exact ⟨TailOk.nil, rfl⟩
        · rw [h0]; exact ⟨TailOk.plain 43 r (by decide) (by decide) (by decide), rfl⟩


/-- Bytes of the canonical text after the epoch. -/
def pepByte (c : UInt8) : Bool := isDigitB c || isAlphaB c || c == 46 || c == 43

theorem pepByte_facts : ∀ c : UInt8, pepByte c = true → isPrintB c = true ∧ c ≠ 33 := by
  apply forall_uint8; decide +kernel

theorem digit_pepByte (c : UInt8) (h : isDigitB c = true) : pepByte c = true := by simp [pepByte, h]

theorem loc_pepByte : ∀ c : UInt8, (c == 46 || isAlnumB c) = true → pepByte c = true := by
  apply forall_uint8; decide +kernel

theorem natToBytes_pepByte (n : Nat) : ∀ c ∈ natToBytes n, pepByte c = true :=
  fun c hc => digit_pepByte c (List.all_eq_true.mp (natToBytes_all_digit n) c hc)

theorem body_pepByte (a : PepAst) (h : a.Valid) :
    ∀ c ∈ renderNums a.nums ++ a.tail, pepByte c = true := by
  intro c hc
  simp only [List.mem_append, PepAst.tail] at hc
  rcases hc with hc | hc | hc | hc | hc
  · match hn : a.nums, h.len with
    | x :: xs, _ =>
      rw [hn] at hc
      have := renderNums_digits x xs (by rw [← hn]; exact h.num) c hc
      rcases this with h1 | rfl
      · exact digit_pepByte c h1
      · decide
  · unfold PepAst.prePart at hc
    cases hp : a.pre with
    | none => rw [hp] at hc; cases hc
    | some kn =>
      obtain ⟨k, n⟩ := kn
      rw [hp] at hc
      simp only [List.mem_append] at hc
      rcases hc with hc | hc
      · cases k <;> simp [PreKind.bytes] at hc <;> (try rcases hc with rfl | rfl) <;> (try subst hc) <;> decide
      · exact natToBytes_pepByte n c hc
  · unfold PepAst.postPart at hc
    cases hp : a.post with
    | none => rw [hp] at hc; cases hc
    | some n =>
      rw [hp] at hc
      simp only [List.mem_append, List.mem_cons, List.not_mem_nil, or_false] at hc
      rcases hc with (rfl | rfl | rfl | rfl | rfl) | hc
      all_goals first | decide | exact natToBytes_pepByte n c hc
  · unfold PepAst.devPart at hc
    cases hp : a.dev with
    | none => rw [hp] at hc; cases hc
    | some n =>
      rw [hp] at hc
      simp only [List.mem_append, List.mem_cons, List.not_mem_nil, or_false] at hc
      rcases hc with (rfl | rfl | rfl | rfl) | hc
      all_goals first | decide | exact natToBytes_pepByte n c hc
  · unfold PepAst.locPart at hc
    split at hc
    · cases hc
    · rename_i hne
      simp only [List.mem_cons] at hc
      rcases hc with rfl | hc
      · decide
      · rcases h.loc with h0 | h1
        · rw [h0] at hc; cases hc
        · exact loc_pepByte c (List.all_eq_true.mp h1.1 c hc)


namespace PepAst
/-- The `pep440` details after the epoch stage. -/
def ext0 (a : PepAst) : Option Pep440 := if a.epoch ≠ 0 then some { epoch := a.epoch } else none

/-- What `pep440Extension.init` returns on the canonical text. -/
def parsedV (a : PepAst) : Version :=
  { sys := .pypi, userNumCount := a.nums.length, isPrerelease := a.pre.isSome, num := a.nums,
    pre := match a.pre with | some (k, n) => [k.bytes, natToBytes n] | none => [] }
end PepAst

theorem render_split (a : PepAst) : a.render = a.epochPart ++ (renderNums a.nums ++ a.tail) := rfl

theorem pepEpoch_render (a : PepAst) (h : a.Valid) :
    pepEpoch .pypi a.render = .ok ({ v := { sys := .pypi }, ext := a.ext0 }, renderNums a.nums ++ a.tail) := by
  have hbody := body_pepByte a h
  rw [render_split]
  unfold pepEpoch PepAst.epochPart PepAst.ext0
  by_cases he : a.epoch = 0
  · simp only [he, ne_eq, not_true_eq_false, ↓reduceIte, List.nil_append]
    rw [findIdx?_nobang _ (fun c hc => (pepByte_facts c (hbody c hc)).2)]
  · simp only [ne_eq, he, not_false_eq_true, ↓reduceIte, List.append_assoc, List.singleton_append]
    have hd : ∀ c ∈ natToBytes a.epoch, c ≠ 33 := fun c hc => (pepByte_facts c (natToBytes_pepByte _ c hc)).2
    rw [findIdx?_bang _ _ hd]
    have hpos : 0 < (natToBytes a.epoch).length := List.length_pos_iff.mpr (natToBytes_ne_nil _)
    have hemp : (natToBytes a.epoch).isEmpty = false := by
      cases hh : natToBytes a.epoch with
      | nil => exact absurd hh (natToBytes_ne_nil _)
      | cons _ _ => rfl
    have hle : ¬ a.epoch > 255 := by have := h.epoch; omega
    simp only [hpos, ↓reduceIte, List.take_left', hemp, natToBytes_all_digit, Bool.not_true, Bool.or_self,
      digitsVal_natToBytes, hle, decide_false, Bool.false_eq_true]
    congr 2
    have : (natToBytes a.epoch ++ 33 :: (renderNums a.nums ++ a.tail)) =
        (natToBytes a.epoch ++ [33]) ++ (renderNums a.nums ++ a.tail) := by simp
    rw [this, List.drop_left' (by simp)]

/-- **C10-a for PEP 440**: `pep440Extension.init` on the canonical text of a valid AST. -/
theorem pepInitCore_render (a : PepAst) (h : a.Valid) :
    pepInitCore .pypi a.render = .ok (a.parsedV, a.extPre a.ext0) := by
  have hprint : ∀ c ∈ a.render, isPrintB c = true := by
    intro c hc
    rw [render_split] at hc
    simp only [List.mem_append] at hc
    rcases hc with hc | hc
    · unfold PepAst.epochPart at hc
      split at hc
      · simp only [List.mem_append, List.mem_singleton] at hc
        rcases hc with hc | rfl
        · exact (pepByte_facts c (natToBytes_pepByte _ c hc)).1
        · decide
      · cases hc
    · exact (pepByte_facts c (body_pepByte a h c (by simpa using hc))).1
  rw [pepInitCore_eq, trimSpace_print _ hprint, runes_check_print _ hprint, pepEpoch_render a h]
  simp only [Bool.not_true, Bool.false_eq_true, ↓reduceIte, Outcome.bind]
  -- the numbers
  match hn : a.nums, h.len with
  | x :: xs, hlen =>
    have hx : ∀ y ∈ x :: xs, NumOk false y := by rw [← hn]; exact h.num
    obtain ⟨ht1, ht2⟩ := tail_facts a h
    have hx0 := hx x (by simp)
    have hx1 : x < 9223372036854775807 := by rcases hx0.2 with h | ⟨h, _⟩; exact h; cases h
    obtain ⟨d, ds, hd, hdd⟩ := natToBytes_cons x.toNat
    unfold pepAfterEpoch
    have hbody : renderNums (x :: xs) ++ a.tail = d :: (ds ++ (dotNums xs ++ a.tail)) := by
      simp [renderNums, valueBytes_num x hx0.1 hx1, hd]
    have hdn := (isDigitB_iff d).mp hdd
    have hv1 : (d == 118) = false := by rw [beq_eq_false_iff_ne]; intro e; subst e; simp at hdn
    have hv2 : (d == 86) = false := by rw [beq_eq_false_iff_ne]; intro e; subst e; simp at hdn
    have hstrip : stripVee (renderNums (x :: xs) ++ a.tail) = renderNums (x :: xs) ++ a.tail := by
      rw [hbody]
      simp only [stripVee, hv1, hv2, Bool.or_self, Bool.false_eq_true, ↓reduceIte]
    rw [hstrip]
    have hnums : pepNums { v := { sys := .pypi }, ext := a.ext0 } (renderNums (x :: xs) ++ a.tail) =
        .ok ({ v := { sys := .pypi, num := x :: xs }, ext := a.ext0 }, a.textPre) := by
      unfold pepNums
      have := pepNums_go a.tail ht1 xs x { v := { sys := .pypi }, ext := a.ext0 }
        ((renderNums (x :: xs) ++ a.tail).length + 1) hx (by
          have := dotNums_length xs
          have hvb : 0 < (valueBytes x).length := by
            rw [valueBytes_num x hx0.1 hx1, hd]; simp
          simp only [renderNums, List.length_append]
          omega)
      simp only [renderNums, List.append_assoc] at this ⊢
      rw [this, ht2]
      rfl
    rw [hnums]
    simp only [Outcome.bind]
    unfold pepAfterNums
    have hpad : (decide ((x :: xs).length < 3)) = false := by simp at hlen ⊢; omega
    simp only [List.isEmpty_cons, Bool.false_eq_true, ↓reduceIte, hpad, Bool.and_false]
    rw [run_pre _ a h]
    simp only [Outcome.bind, List.isEmpty_nil, Bool.not_true, Bool.false_eq_true, ↓reduceIte]
    congr 2
    unfold PepAst.parsedV
    rw [hn]
    cases a.pre with
    | none => rfl
    | some kn => obtain ⟨k, n⟩ := kn; rfl

end DepsDev.Proofs.C10
