import DepsDev.Proofs.C07Prov
import DepsDev.Proofs.C07Attr

/-! C07 uniqueness invariant (M1, partial): when every declaration of the universe has the
default classifier and type, `resolvedPackages` holds the name of every node of the graph,
so no two nodes share a name. -/

namespace DepsDev.Resolve.Maven
open DepsDev.Gen

theorem clientRequirements_mem {u : Universe} {name ver : Bytes} {is : List Import}
    (h : clientRequirements u name ver = some is) :
    ∃ p ∈ u.pkgs, ∃ v ∈ p.versions, v.imports = is := by
  unfold clientRequirements clientVersion Universe.package? at h
  split at h
  · rename_i p hp
    cases hv : p.versions.find? (fun v => v.version == ver) with
    | none => simp [hv] at h
    | some v =>
      simp only [hv, Option.map_some, Option.some.injEq] at h
      exact ⟨p, List.mem_of_find?_eq_some hp, v, List.mem_of_find?_eq_some hv, h⟩
  · simp at h

theorem depKey_default {u : Universe} (hu : DefaultKeys u = true) {vk : VK} {o : ImportsOpt}
    {imps : List Dep} {d : Dep} (h : imports u vk o = some imps) (hd : d ∈ imps) :
    depKey d = defaultKey d.name := by
  obtain ⟨is, imp, hc, hm, _, rfl⟩ := mem_imports h hd
  obtain ⟨p, hp, v, hv, rfl⟩ := clientRequirements_mem hc
  simp only [DefaultKeys, List.all_eq_true] at hu
  have := hu p hp v hv imp hm
  simpa [depKey, toDep] using this

structure UniqI (s : State) : Prop where
  rp : ∀ i v, s.g.vkAt i = some v → defaultKey v.name ∈ s.resolvedPackages
  names : ∀ i j vi vj, s.g.vkAt i = some vi → s.g.vkAt j = some vj → vi.name = vj.name → i = j

theorem uniq_step {u : Universe} (hu : DefaultKeys u = true) {mgt : List (PackageKey × Bytes)} {first : Bool}
    {cur : Todo} {imps : List Dep} {d : Dep} {s s' : State}
    (himps : imports u cur.key.vk (optsOf first) = some imps) (hd : d ∈ imps)
    (hy : UniqI s) (hs : DepStep u mgt first cur d s s') : UniqI s' := by
  cases hs with
  | excluded _ => exact hy
  | noMatch _ _ =>
    exact ⟨fun i v h => hy.rp i v (by simpa using h),
      fun i j vi vj hi hj hn => hy.names i j vi vj (by simpa using hi) (by simpa using hj) hn⟩
  | edge _ _ _ _ _ _ hadd =>
    obtain ⟨_, _, rfl⟩ := addEdge_some hadd
    exact ⟨hy.rp, hy.names⟩
  | newNode mv g2 _ _ _ hrp _ hadd =>
    obtain ⟨_, _, rfl⟩ := addEdge_some hadd
    have hdk := depKey_default hu himps hd
    -- how vkAt looks after appending the node
    have hcases : ∀ i v, (s.g.addNode { name := d.name, version := mv }).1.vkAt i = some v →
        (s.g.vkAt i = some v ∧ i < s.g.nodes.length) ∨ (i = s.g.nodes.length ∧ v = { name := d.name, version := mv }) := by
      intro i v h
      have hl := vkAt_lt h
      simp only [nodes_length_addNode] at hl
      by_cases hi : i < s.g.nodes.length
      · obtain ⟨w, hw⟩ := vkAt_some_of_lt hi
        have := vkAt_addNode_old (v := { name := d.name, version := mv }) hw
        rw [this] at h
        cases h
        exact .inl ⟨hw, hi⟩
      · have : i = s.g.nodes.length := by omega
        subst this
        rw [vkAt_addNode_new] at h
        cases h
        exact .inr ⟨rfl, rfl⟩
    -- no old node has the new name
    have hfresh : ∀ i v, s.g.vkAt i = some v → v.name ≠ d.name := by
      intro i v h hn
      have := hy.rp i v h
      rw [hn, ← hdk] at this
      have hc : s.resolvedPackages.contains (depKey d) = true := by simpa using this
      rw [hc] at hrp
      cases hrp
    refine ⟨?_, ?_⟩
    · intro i v h
      simp only [vkAt_edges_irrel] at h
      rcases hcases i v h with ⟨h, _⟩ | ⟨_, rfl⟩
      · exact List.mem_cons_of_mem _ (hy.rp i v h)
      · simp [hdk]
    · intro i j vi vj hi hj hn
      simp only [vkAt_edges_irrel] at hi hj
      rcases hcases i vi hi with ⟨hi, _⟩ | ⟨rfl, rfl⟩
      · rcases hcases j vj hj with ⟨hj, _⟩ | ⟨rfl, rfl⟩
        · exact hy.names i j vi vj hi hj hn
        · exact absurd hn (hfresh i vi hi)
      · rcases hcases j vj hj with ⟨hj, _⟩ | ⟨rfl, rfl⟩
        · exact absurd hn.symm (hfresh j vj hj)
        · rfl

theorem uniq_loop {u : Universe} (hu : DefaultKeys u = true) {mgt : List (PackageKey × Bytes)} {root : VK}
    {reqs0 : ReqMap} {fuel : Nat} {s : State}
    (h : loop u mgt fuel true (initState root reqs0) = .ok (some s)) : UniqI s := by
  have := loop_inv_wf (u := u) (mgt := mgt) root
    (fun _ s => UniqI s) (fun _ _ _ _ s => UniqI s)
    (fun first s cur rest _ hx _ _ => ⟨hx.rp, hx.names⟩)
    (fun first cur curId imps ds d s s' _ himps hpos _ hy hs =>
      uniq_step hu himps (by obtain ⟨rest, rfl⟩ := hpos; simp) hy hs)
    (fun first cur curId ds s _ _ hy => ⟨hy.rp, hy.names⟩)
    fuel true (initState root reqs0) s (wf_init root reqs0)
    ⟨?_, ?_⟩ h
  · obtain ⟨_, hx, _, _⟩ := this
    exact hx
  · intro i v hv
    have hl := vkAt_lt hv
    simp only [initState, List.length_singleton] at hl
    have : i = 0 := by omega
    subst this
    have : (initState root reqs0).g.vkAt 0 = some root := rfl
    rw [this] at hv
    cases hv
    simp only [initState, rootKey, List.mem_singleton]
    rfl
  · intro i j vi vj hi hj _
    have hli := vkAt_lt hi
    have hlj := vkAt_lt hj
    simp only [initState, List.length_singleton] at hli hlj
    omega

end DepsDev.Resolve.Maven
