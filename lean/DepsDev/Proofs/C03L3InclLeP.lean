import DepsDev.Proofs.C03L3InclLe

/-!
# C03 layer L3 for npm, operator `le`: interval membership, operands with a prerelease tag; `L1PNpm .le`
-/
namespace DepsDev.Proofs.C03

open DepsDev DepsDev.Semver DepsDev.Ref

set_option linter.unusedSimpArgs false
set_option linter.unusedVariables false

theorem l1p_pre_lt_le : L1PPreO .le .lt := by l1p_pre
theorem l1p_pre_eq_le : L1PPreO .le .eq := by l1p_pre
theorem l1p_pre_gt_le : L1PPreO .le .gt := by l1p_pre

theorem l1p_npm_le : L1PNpm .le :=
  l1p_assemble _ l1p_full_le (l1p_pre_assemble _ l1p_pre_lt_le l1p_pre_eq_le l1p_pre_gt_le) l1p_part_le

end DepsDev.Proofs.C03
