import DepsDev.Model.Maven.Interp
import DepsDev.Model.Maven.Pipeline

/-!
# Lemmas about `interpolating` (C15): unfolding equations, the step-budget twin,
strings without placeholders, undefined keys, keys under expansion.
-/
namespace DepsDev.Proofs.C15Interp
open DepsDev DepsDev.Model.Maven

/-! ## Unfolding equations (the body of the Go loop) -/

theorem interp_no_open {d r s} (h : findOpen s = none) : interpolating d r s = (s, true) := by
  rw [interpolating.eq_def]; split
  · rfl
  · rename_i h'; rw [h] at h'; cases h'

theorem interp_no_close {d r s pre after} (h1 : findOpen s = some (pre, after)) (h2 : findClose after = none) :
    interpolating d r s = (s, true) := by
  rw [interpolating.eq_def]; split
  · rfl
  · rename_i p a h'; rw [h1] at h'; cases h'
    split
    · rfl
    · rename_i h''; rw [h2] at h''; cases h''

theorem interp_cycle {d r s pre after key rest} (h1 : findOpen s = some (pre, after))
    (h2 : findClose after = some (key, rest)) (hr : r.contains key = true) :
    interpolating d r s = (pre ++ cDollar :: cOpen :: after, false) := by
  rw [interpolating.eq_def]; split
  · rename_i h'; rw [h1] at h'; cases h'
  · rename_i p a h'; rw [h1] at h'; cases h'
    split
    · rename_i h''; rw [h2] at h''; cases h''
    · rename_i k t h''; rw [h2] at h''; cases h''
      rw [dif_pos hr]

theorem interp_defined {d r s pre after key rest v} (h1 : findOpen s = some (pre, after))
    (h2 : findClose after = some (key, rest)) (hr : r.contains key = false) (hv : d.get key = some v) :
    interpolating d r s =
      (pre ++ (interpolating d (key :: r) v).1 ++ (interpolating d r rest).1,
       (interpolating d (key :: r) v).2 && (interpolating d r rest).2) := by
  rw [interpolating.eq_def]; split
  · rename_i h'; rw [h1] at h'; cases h'
  · rename_i p a h'; rw [h1] at h'; cases h'
    split
    · rename_i h''; rw [h2] at h''; cases h''
    · rename_i k t h''; rw [h2] at h''; cases h''
      rw [dif_neg (by rw [hr]; simp)]
      split
      · rename_i w hw; rw [hv] at hw; cases hw; simp
      · rename_i hw; rw [hv] at hw; cases hw

theorem interp_undefined {d r s pre after key rest} (h1 : findOpen s = some (pre, after))
    (h2 : findClose after = some (key, rest)) (hr : r.contains key = false) (hv : d.get key = none) :
    interpolating d r s =
      (pre ++ (cDollar :: cOpen :: key ++ [cClose]) ++ (interpolating d r rest).1, false) := by
  rw [interpolating.eq_def]; split
  · rename_i h'; rw [h1] at h'; cases h'
  · rename_i p a h'; rw [h1] at h'; cases h'
    split
    · rename_i h''; rw [h2] at h''; cases h''
    · rename_i k t h''; rw [h2] at h''; cases h''
      rw [dif_neg (by rw [hr]; simp)]
      split
      · rename_i w hw; rw [hv] at hw; cases hw
      · simp

/-! ## The step-budget twin finishes within `need` steps and computes `interpolating` -/

theorem get_le_maxValLen {d : Dict} {k v} (h : d.get k = some v) : v.length ≤ maxValLen d := by
  unfold Dict.get at h
  induction d with
  | nil => simp [List.lookup] at h
  | cons kv rest ih =>
    obtain ⟨k', w⟩ := kv
    simp only [List.lookup] at h
    simp only [maxValLen]
    split at h
    · cases h; omega
    · have := ih h; omega

theorem interpF_eq (fuel : Nat) : ∀ (d : Dict) (r : List Bytes) (s : Bytes), need d r s ≤ fuel →
    interpF fuel d r s = some (interpolating d r s) := by
  induction fuel with
  | zero => intro d r s h; unfold need at h; omega
  | succ fuel ih =>
    intro d r s h
    cases h1 : findOpen s with
    | none => unfold interpF; simp [h1, interp_no_open h1]
    | some pa =>
      obtain ⟨pre, after⟩ := pa
      cases h2 : findClose after with
      | none => unfold interpF; simp [h1, h2, interp_no_close h1 h2]
      | some kr =>
        obtain ⟨key, rest⟩ := kr
        have hlen : rest.length < s.length := by
          have a := findOpen_len h1
          have b := findClose_len h2
          omega
        have hrest : need d r rest ≤ fuel := by unfold need at h ⊢; omega
        cases hr : r.contains key with
        | true => unfold interpF; simp only [h1, h2, hr, if_true, interp_cycle h1 h2 hr]
        | false =>
          cases hv : d.get key with
          | none =>
            unfold interpF
            simp only [h1, h2, hr, hv, Bool.false_eq_true, if_false]
            rw [ih d r rest hrest, interp_undefined h1 h2 hr hv]
          | some v =>
            have hfree := free_lt d r key v hv hr
            have hv' := get_le_maxValLen hv
            have hmul : (free d (key :: r) + 1) * (maxValLen d + 1) ≤ free d r * (maxValLen d + 1) :=
              Nat.mul_le_mul_right _ hfree
            rw [Nat.succ_mul] at hmul
            have hnest : need d (key :: r) v ≤ fuel := by unfold need at h ⊢; omega
            unfold interpF
            simp only [h1, h2, hr, hv, Bool.false_eq_true, if_false]
            rw [ih d (key :: r) v hnest, ih d r rest hrest, interp_defined h1 h2 hr hv]

/-! ## Strings without `${` -/

theorem findOpen_none_of_not_infix {s : Bytes} (h : ¬ [cDollar, cOpen] <:+: s) : findOpen s = none := by
  cases hf : findOpen s with
  | none => rfl
  | some pr =>
    obtain ⟨p, r⟩ := pr
    exact absurd ⟨p, r, by rw [findOpen_spec hf]; simp⟩ h

/-- `findOpen` finds the FIRST `${`: none in the text before it. -/
theorem findOpen_some_of_infix {s : Bytes} (h : [cDollar, cOpen] <:+: s) : (findOpen s).isSome := by
  obtain ⟨p, r, rfl⟩ := h
  induction p with
  | nil => simp [findOpen]
  | cons c p ih =>
    cases p with
    | nil =>
      simp only [List.cons_append, List.nil_append] at ih ⊢
      unfold findOpen
      split
      · simp
      · cases hf : findOpen (cDollar :: cOpen :: r) <;> simp [hf] at ih ⊢
    | cons c2 p2 =>
      simp only [List.cons_append, List.append_assoc] at ih ⊢
      unfold findOpen
      split
      · simp
      · cases hf : findOpen (c2 :: (p2 ++ (cDollar :: cOpen :: r))) <;> simp [hf] at ih ⊢

/-- the first `${` of `pre ++ "${" ++ after` is the displayed one when `pre` contains none -/
theorem findOpen_decomp (pre after : Bytes) (h : ¬ [cDollar, cOpen] <:+: pre) :
    findOpen (pre ++ cDollar :: cOpen :: after) = some (pre, after) := by
  induction pre with
  | nil => simp [findOpen]
  | cons c p ih =>
    have hp : ¬ [cDollar, cOpen] <:+: p := fun ⟨a, b, e⟩ => h ⟨c :: a, b, by simp [← e]⟩
    have ih := ih hp
    cases p with
    | nil =>
      simp only [List.cons_append, List.nil_append] at ih ⊢
      unfold findOpen
      have : ¬ (c = cDollar ∧ cDollar = cOpen) := by intro ⟨_, e⟩; exact absurd e (by decide)
      simp only [this, if_false, ih]
    | cons c2 p2 =>
      simp only [List.cons_append] at ih ⊢
      unfold findOpen
      have : ¬ (c = cDollar ∧ c2 = cOpen) := by
        intro ⟨e1, e2⟩; subst e1; subst e2
        exact h ⟨[], p2, by simp⟩
      simp only [this, if_false, ih]

theorem findClose_decomp (key rest : Bytes) (h : cClose ∉ key) :
    findClose (key ++ cClose :: rest) = some (key, rest) := by
  induction key with
  | nil => simp [findClose]
  | cons c t ih =>
    simp only [List.mem_cons, not_or] at h
    have hc : ¬ c = cClose := fun e => h.1 e.symm
    simp [findClose, hc, ih h.2]

theorem interp_identity {d r} {s : Bytes} (h : ¬ [cDollar, cOpen] <:+: s) : interpolating d r s = (s, true) :=
  interp_no_open (findOpen_none_of_not_infix h)

/-! ## Nothing defined: every string comes back unchanged -/

theorem interp_empty_dict (r : List Bytes) (s : Bytes) : (interpolating [] r s).1 = s := by
  induction hn : s.length using Nat.strongRecOn generalizing s with
  | _ n ih =>
    cases h1 : findOpen s with
    | none => rw [interp_no_open h1]
    | some pa =>
      obtain ⟨pre, after⟩ := pa
      cases h2 : findClose after with
      | none => rw [interp_no_close h1 h2]
      | some kr =>
        obtain ⟨key, rest⟩ := kr
        have e1 := findOpen_spec h1
        have e2 := (findClose_spec h2).1
        cases hr : r.contains key with
        | true => rw [interp_cycle h1 h2 hr]; exact e1.symm
        | false =>
          have hv : Dict.get [] key = none := rfl
          rw [interp_undefined h1 h2 hr hv]
          have hlen : rest.length < n := by
            have a := findOpen_len h1
            have b := findClose_len h2
            omega
          have := ih rest.length hlen rest rfl
          simp only [this]
          rw [e1, e2]; simp

/-! ## A self-referential property: the inner occurrence stays, the result is unresolved -/

theorem interp_self_reference {d : Dict} {k v pre after rest : Bytes}
    (hv : d.get k = some v) (h1 : findOpen v = some (pre, after)) (h2 : findClose after = some (k, rest)) :
    interpolating d [] (cDollar :: cOpen :: k ++ [cClose]) = (v, false) := by
  have hk : cClose ∉ k := (findClose_spec h2).2
  have o1 : findOpen (cDollar :: cOpen :: k ++ [cClose]) = some ([], k ++ [cClose]) := by
    simp [findOpen]
  have o2 : ∀ (k : Bytes), cClose ∉ k → findClose (k ++ [cClose]) = some (k, []) := by
    intro k hk
    induction k with
    | nil => simp [findClose]
    | cons c t ih =>
      simp only [List.mem_cons, not_or] at hk
      have hc : ¬ c = cClose := fun e => hk.1 e.symm
      simp [findClose, hc, ih hk.2]
  rw [interp_defined o1 (o2 k hk) (by simp) hv]
  have inner : interpolating d [k] v = (pre ++ cDollar :: cOpen :: after, false) :=
    interp_cycle h1 h2 (by simp)
  rw [inner, interp_no_open (by simp [findOpen])]
  simp [(findOpen_spec h1).symm]

/-! ## A kernel-evaluable twin of `interpolateStr` (well-founded recursion does not unfold in `decide`) -/

/-- `interpolateStr` computed by the step-budget loop with the budget `need`. -/
def interpolateStrF : InterpFn := fun d s => (interpF (need d [] s) d [] s).getD (s, false)

theorem interpolateStr_eq_F : interpolateStr = interpolateStrF := by
  funext d s
  simp [interpolateStr, interpolateStrF, interpF_eq _ d [] s (Nat.le_refl _)]

theorem goPipeline_eq_F (L : Lineage) : goPipeline L = goPipelineWith interpolateStrF L := by
  unfold goPipeline; rw [interpolateStr_eq_F]

end DepsDev.Proofs.C15Interp
