/-
Helper lemmas for C19, part 11: `strconv.Quote` rune by rune, for ARBITRARY byte strings.
`Quote` consumes the input in chunks `p` (an ASCII byte, an invalid byte, or the bytes of
one valid multi-byte rune) and emits for each an escape `E`; `Chunk p E` collects what
the later proofs need to know about such a pair, `Chunks v Q` says that `Q = quoteGo v`
is the concatenation of the escapes of the chunks of `v`.
-/
import DepsDev.Proofs.C19Utf8

namespace DepsDev.Proofs.C19
open DepsDev DepsDev.Gen DepsDev.Model.Resolve DepsDev.Model.Resolve.Attr DepsDev.Model.Resolve.AttrText
open DepsDev.Model.Resolve.AttrMachine

/-- `spaceWidth` sees a space exactly at a space byte, at every position of `E`
whatever follows. -/
def TameAt (E : Bytes) : Prop :=
  ∀ (tail : Bytes) (i : Nat), i < E.length →
    spaceWidth (E.drop i ++ tail) = if (E.drop i).head? = some 0x20 then 1 else 0

structure Chunk (p E : Bytes) : Prop where
  pshape : (∃ b, p = [b]) ∨ (p ≠ [] ∧ ∀ x ∈ p, 0x80 ≤ x.toNat)
  uq : ∀ tail, unquoteChar (E ++ tail) = some (p, E.length)
  ene : E ≠ []
  hq : E.head? ≠ some 0x22
  hn : E.head? ≠ some 0x0A
  raw : E.contains 0x5C = false →
    E = p ∧ p.contains 0x22 = false ∧ p.contains 0x0A = false ∧ ∀ x, validGo (p ++ x) 0 = validGo x 0
  bs : E.contains 0x5C = true → E.head? = some 0x5C
  tame : TameAt E
  sp : p = [0x20] → E = [0x20]
  nsp : p ≠ [0x20] → ∀ x ∈ E, x ≠ 0x20
  lq : E.getLast? = some 0x22 → E = [0x5C, 0x22]
  lb : E.getLast? = some 0x5C → p = [0x5C]

theorem Chunk.pne {p E : Bytes} (c : Chunk p E) : p ≠ [] := by
  rcases c.pshape with ⟨b, hb⟩ | ⟨h, _⟩
  · rw [hb]; simp
  · exact h

/-! ### printable-ASCII escapes are tame -/

theorem tameAt_printable (E : Bytes) (h : printable E = true) : TameAt E := by
  intro tail i hi
  have hd : E.drop i ≠ [] := by
    intro e
    have := congrArg List.length e
    simp at this; omega
  cases hdr : E.drop i with
  | nil => exact absurd hdr hd
  | cons b rest =>
    have hb : b ∈ E := List.mem_of_mem_drop (by rw [hdr]; simp)
    have hpb := (List.all_eq_true.mp h) b hb
    simp only [Bool.and_eq_true, decide_eq_true_eq] at hpb
    simp only [List.cons_append, List.head?_cons, Option.some.injEq]
    by_cases hsp : b = 0x20
    · subst hsp; simp [spaceWidth_space]
    · have hge : 0x21 ≤ b.toNat := by
        have : b.toNat ≠ 0x20 := fun e => hsp (UInt8.toNat.inj (by simpa using e))
        omega
      simp [hsp, spaceWidth_printable b _ hge hpb.2]

/-! ### kind 1: an ASCII byte -/

theorem chunk_ascii (b : UInt8) (hb : b.toNat < 128) : Chunk [b] (escapeRune b.toNat) := by
  obtain ⟨huc, hq, hnl, hne, hraw, hbs, hhead⟩ := ascii_escapes b.toNat hb
  obtain ⟨hpr, hnosp, hlq, hlb⟩ := ascii_escapes2 b.toNat hb
  refine ⟨Or.inl ⟨b, rfl⟩, ?_, hne, hq, hnl, ?_, hbs, tameAt_printable _ hpr, ?_, ?_, hlq, ?_⟩
  · intro tail
    have := unquoteChar_append (escapeRune b.toNat) tail _ hhead huc
    rw [this, toUInt8_toNat]
  · intro hc
    obtain ⟨e, h1, h2⟩ := hraw hc
    rw [toUInt8_toNat] at e
    refine ⟨e, ?_, ?_, ?_⟩
    · have : b ≠ 0x22 := fun eb => h1 (by rw [eb]; rfl)
      simp [this, Ne.symm this]
    · have : b ≠ 0x0A := fun eb => h2 (by rw [eb]; rfl)
      simp [this, Ne.symm this]
    · intro x
      simp only [List.cons_append, List.nil_append, validGo, decodeRune_ascii b x hb]
      have : ¬ (b.toNat = 0xFFFD) := by omega
      simp [this]
  · intro e
    injection e with e _
    rw [e]; exact escape_space
  · intro hne2
    apply hnosp
    intro e
    apply hne2
    have : b = 0x20 := UInt8.toNat.inj (by simpa using e)
    rw [this]
  · intro hl
    have := hlb hl
    have : b = 0x5C := UInt8.toNat.inj (by simpa using this)
    rw [this]

/-! ### kind 2: an invalid byte, written `\xHH` -/

def hexEsc (n : Nat) : Bytes := [0x5C, 0x78, lowerhex (n / 16), lowerhex (n % 16)]

theorem hex_escapes : ∀ n, n < 256 →
    unquoteChar (hexEsc n) = some ([n.toUInt8], 4) ∧ printable (hexEsc n) = true ∧
    (∀ x ∈ hexEsc n, x ≠ 0x20) ∧ (hexEsc n).getLast? ≠ some 0x22 ∧ (hexEsc n).getLast? ≠ some 0x5C := by
  set_option maxRecDepth 8000 in decide

theorem chunk_invalid (b : UInt8) (hb : 0x80 ≤ b.toNat) : Chunk [b] (hexEsc b.toNat) := by
  have hlt : b.toNat < 256 := by
    have := b.toNat_lt; omega
  obtain ⟨huc, hpr, hns, hl1, hl2⟩ := hex_escapes b.toNat hlt
  refine ⟨Or.inl ⟨b, rfl⟩, ?_, by simp [hexEsc], by simp [hexEsc], by simp [hexEsc], ?_, fun _ => by simp [hexEsc],
    tameAt_printable _ hpr, ?_, fun _ => hns, fun h => absurd h hl1, fun h => absurd h hl2⟩
  · intro tail
    have := unquoteChar_append (hexEsc b.toNat) tail _ (by intro c hc; simp [hexEsc] at hc; rw [← hc]; decide) huc
    rw [this, toUInt8_toNat]; rfl
  · intro hc; simp [hexEsc] at hc
  · intro e
    injection e with e _
    rw [e] at hb
    exact absurd hb (by decide)

/-! ### kind 3: a valid multi-byte rune -/

theorem lowerhex_props : ∀ n, n < 16 →
    0x21 ≤ (lowerhex n).toNat ∧ (lowerhex n).toNat ≤ 0x7E ∧ lowerhex n ≠ 0x20 ∧ lowerhex n ≠ 0x22 ∧
    lowerhex n ≠ 0x5C ∧ unhex (lowerhex n) = some n := by decide

/-- no white-space encoding starts with a continuation byte. -/
theorem patterns_head_cont : C19Print.spacePatterns.all (fun q =>
    match q.head? with
    | some c => !(decide (0x80 ≤ c.toNat) && decide (c.toNat ≤ 0xBF))
    | none => false) = true := by decide

/-- the non-ASCII white-space encodings are complete encodings of non-printable runes. -/
theorem patterns_nonprint : C19Print.spacePatterns.all (fun q =>
    match q.head? with
    | some c => decide (c.toNat < 0x80) ||
        ((decodeRune q).2 == q.length && decide (2 ≤ q.length) && !isPrint (decodeRune q).1)
    | none => false) = true := by decide +kernel

theorem spaceWidth_cont (b : UInt8) (rest : Bytes) (h1 : 0x80 ≤ b.toNat) (h2 : b.toNat ≤ 0xBF) :
    spaceWidth (b :: rest) = 0 := by
  unfold spaceWidth
  have : C19Print.spacePatterns.find? (fun p => p.isPrefixOf (b :: rest)) = none := by
    rw [List.find?_eq_none]
    intro p hp
    have := (List.all_eq_true.mp patterns_head_cont) p hp
    cases p with
    | nil => simp at this
    | cons c p =>
      simp only [List.head?_cons, Bool.not_eq_eq_eq_not, Bool.not_true, Bool.and_eq_false_imp,
        decide_eq_true_eq, decide_eq_false_iff_not] at this
      simp only [List.isPrefixOf_cons_cons, Bool.and_eq_true, beq_iff_eq, not_and]
      intro e
      subst e
      exact absurd h2 (this h1)
  rw [this]

theorem isPrefixOf_append_eq (q l : Bytes) (h : q.isPrefixOf l = true) : ∃ t, l = q ++ t := by
  induction q generalizing l with
  | nil => exact ⟨l, rfl⟩
  | cons c q ih =>
    cases l with
    | nil => simp at h
    | cons d l =>
      simp only [List.isPrefixOf_cons_cons, Bool.and_eq_true, beq_iff_eq] at h
      obtain ⟨t, ht⟩ := ih l h.2
      exact ⟨t, by rw [h.1, ht]; rfl⟩

/-- no white-space rune starts where a printable multi-byte rune starts. -/
theorem spaceWidth_printRune (p tail : Bytes) (r w : Nat) (hd : ∀ t, decodeRune (p ++ t) = (r, w))
    (hp : isPrint r = true) (hhead : 0x80 ≤ (p.headD 0).toNat) (hpne : p ≠ []) :
    spaceWidth (p ++ tail) = 0 := by
  unfold spaceWidth
  have : C19Print.spacePatterns.find? (fun q => q.isPrefixOf (p ++ tail)) = none := by
    rw [List.find?_eq_none]
    intro q hq hpre
    have hfact := (List.all_eq_true.mp patterns_nonprint) q hq
    obtain ⟨t, ht⟩ := isPrefixOf_append_eq q _ hpre
    cases q with
    | nil => simp at hfact
    | cons c q' =>
      simp only [List.head?_cons, Bool.or_eq_true, decide_eq_true_eq, Bool.and_eq_true, beq_iff_eq,
        Bool.not_eq_eq_eq_not, Bool.not_true] at hfact
      -- the head of q is the head of p
      cases p with
      | nil => exact absurd rfl hpne
      | cons d p' =>
        simp only [List.cons_append] at ht
        injection ht with hdc htl
        simp only [List.headD_cons] at hhead
        rcases hfact with hlt | ⟨⟨hw, h2⟩, hnp⟩
        · rw [← hdc] at hlt; omega
        · -- q is a complete encoding: decoding q ++ t gives q's rune
          obtain ⟨pq, restq, hsplit, hlen, _, _, _, _, _, _, hstab⟩ :=
            decodeRune_multi (c :: q') (decodeRune (c :: q')).1 (decodeRune (c :: q')).2 rfl (by rw [hw]; exact h2)
          have hrest : restq = [] := by
            have := congrArg List.length hsplit
            simp only [List.length_append] at this
            have hl : restq.length = 0 := by omega
            exact List.eq_nil_of_length_eq_zero hl
          rw [hrest, List.append_nil] at hsplit
          have h1 := hstab t
          rw [← hsplit] at h1
          have h2' := hd tail
          have hall : (d :: p') ++ tail = (c :: q') ++ t := by
            simp only [List.cons_append, hdc, htl]
          rw [hall, h1] at h2'
          injection h2' with hr _
          rw [hr] at hnp
          rw [hp] at hnp
          cases hnp
  rw [this]

theorem validGo_skip (pre x : Bytes) : validGo (pre ++ x) pre.length = validGo x 0 := by
  induction pre with
  | nil => rfl
  | cons a pre ih => simp only [List.cons_append, List.length_cons, validGo]; exact ih

theorem hexValue4 (r : Nat) (hr : r < 65536) (tail : Bytes) :
    hexValue 4 ([lowerhex (r / 4096 % 16), lowerhex (r / 256 % 16), lowerhex (r / 16 % 16), lowerhex (r % 16)] ++ tail) 0
      = some r := by
  have h3 := (lowerhex_props (r / 4096 % 16) (by omega)).2.2.2.2.2
  have h2 := (lowerhex_props (r / 256 % 16) (by omega)).2.2.2.2.2
  have h1 := (lowerhex_props (r / 16 % 16) (by omega)).2.2.2.2.2
  have h0 := (lowerhex_props (r % 16) (by omega)).2.2.2.2.2
  simp only [List.cons_append, List.nil_append, hexValue, h3, h2, h1, h0]
  congr 1
  omega

theorem hexValue8 (r : Nat) (hr : r < 4294967296) (tail : Bytes) :
    hexValue 8 ([lowerhex (r / 268435456 % 16), lowerhex (r / 16777216 % 16), lowerhex (r / 1048576 % 16),
      lowerhex (r / 65536 % 16), lowerhex (r / 4096 % 16), lowerhex (r / 256 % 16), lowerhex (r / 16 % 16),
      lowerhex (r % 16)] ++ tail) 0 = some r := by
  have h7 := (lowerhex_props (r / 268435456 % 16) (by omega)).2.2.2.2.2
  have h6 := (lowerhex_props (r / 16777216 % 16) (by omega)).2.2.2.2.2
  have h5 := (lowerhex_props (r / 1048576 % 16) (by omega)).2.2.2.2.2
  have h4 := (lowerhex_props (r / 65536 % 16) (by omega)).2.2.2.2.2
  have h3 := (lowerhex_props (r / 4096 % 16) (by omega)).2.2.2.2.2
  have h2 := (lowerhex_props (r / 256 % 16) (by omega)).2.2.2.2.2
  have h1 := (lowerhex_props (r / 16 % 16) (by omega)).2.2.2.2.2
  have h0 := (lowerhex_props (r % 16) (by omega)).2.2.2.2.2
  simp only [List.cons_append, List.nil_append, hexValue, h7, h6, h5, h4, h3, h2, h1, h0]
  congr 1
  omega

theorem escapeRune_hi (r : Nat) (hr : 0x80 ≤ r) (hv : validRune r = true) :
    escapeRune r =
      if isPrint r then encodeRune r
      else if r < 0x10000 then
        [0x5C, 0x75, lowerhex (r / 4096 % 16), lowerhex (r / 256 % 16), lowerhex (r / 16 % 16), lowerhex (r % 16)]
      else
        [0x5C, 0x55, lowerhex (r / 268435456 % 16), lowerhex (r / 16777216 % 16), lowerhex (r / 1048576 % 16),
         lowerhex (r / 65536 % 16), lowerhex (r / 4096 % 16), lowerhex (r / 256 % 16), lowerhex (r / 16 % 16),
         lowerhex (r % 16)] := by
  unfold escapeRune
  have n1 : (r == 0x22 || r == 0x5C) = false := by
    simp only [Bool.or_eq_false_iff, beq_eq_false_iff_ne, ne_eq]; omega
  have n2 : (r == 7) = false := by simp only [beq_eq_false_iff_ne, ne_eq]; omega
  have n3 : (r == 8) = false := by simp only [beq_eq_false_iff_ne, ne_eq]; omega
  have n4 : (r == 12) = false := by simp only [beq_eq_false_iff_ne, ne_eq]; omega
  have n5 : (r == 10) = false := by simp only [beq_eq_false_iff_ne, ne_eq]; omega
  have n6 : (r == 13) = false := by simp only [beq_eq_false_iff_ne, ne_eq]; omega
  have n7 : (r == 9) = false := by simp only [beq_eq_false_iff_ne, ne_eq]; omega
  have n8 : (r == 11) = false := by simp only [beq_eq_false_iff_ne, ne_eq]; omega
  have n9 : (decide (r < 0x20) || r == 0x7F) = false := by
    simp only [Bool.or_eq_false_iff, decide_eq_false_iff_not, beq_eq_false_iff_ne, ne_eq]; omega
  simp only [n1, n2, n3, n4, n5, n6, n7, n8, n9, Bool.false_eq_true, if_false, hv, if_true]

theorem printable_hex4 (a b c d : Nat) (ha : a < 16) (hb : b < 16) (hc : c < 16) (hd : d < 16) (x : UInt8) :
    printable [0x5C, x, lowerhex a, lowerhex b, lowerhex c, lowerhex d] = (decide (0x20 ≤ x.toNat) && decide (x.toNat ≤ 0x7E)) := by
  have := lowerhex_props a ha; have := lowerhex_props b hb
  have := lowerhex_props c hc; have := lowerhex_props d hd
  simp only [printable, List.all_cons, List.all_nil, Bool.and_true]
  have e : ∀ n, n < 16 → (decide (0x20 ≤ (lowerhex n).toNat) && decide ((lowerhex n).toNat ≤ 0x7E)) = true := by
    intro n hn
    have := lowerhex_props n hn
    simp only [Bool.and_eq_true, decide_eq_true_eq]; omega
  rw [e a ha, e b hb, e c hc, e d hd]
  simp

/-- kind 3: the bytes of a valid multi-byte rune. -/
theorem chunk_multi (p : Bytes) (r w : Nat) (hr : 0x80 ≤ r) (hv : validRune r = true) (henc : encodeRune r = p)
    (hlen : p.length = w) (hw : 2 ≤ w) (hbytes : ∀ x ∈ p, 0x80 ≤ x.toNat) (htail : ∀ x ∈ p.tail, x.toNat ≤ 0xBF)
    (hhead : 0xC2 ≤ (p.headD 0).toNat) (hd : ∀ t, decodeRune (p ++ t) = (r, w)) : Chunk p (escapeRune r) := by
  have hpne : p ≠ [] := by intro e; rw [e] at hlen; simp at hlen; omega
  have hno : ∀ (c : UInt8), c.toNat < 0x80 → c ∉ p := fun c hc hm => by have := hbytes c hm; omega
  rw [escapeRune_hi r hr hv]
  by_cases hp : isPrint r = true
  · -- written raw
    simp only [hp, if_true, henc]
    cases hpc : p with
    | nil => exact absurd hpc hpne
    | cons c p' =>
      rw [hpc] at hbytes htail hhead hd hlen hno
      simp only [List.headD_cons] at hhead
      have hc80 : 0x80 ≤ c.toNat := by omega
      have hnot : ∀ (x : UInt8), x.toNat < 0x80 → (c :: p').contains x = false := by
        intro x hx
        cases hcx : (c :: p').contains x with
        | false => rfl
        | true => exact absurd (List.contains_iff_mem.mp hcx) (hno x hx)
      have hlast : ∀ (x : UInt8), x.toNat < 0x80 → (c :: p').getLast? ≠ some x := by
        intro x hx hl
        exact hno x hx (List.mem_of_getLast? hl)
      refine ⟨Or.inr ⟨by simp, hbytes⟩, ?_, by simp, ?_, ?_, ?_, ?_, ?_, ?_, ?_, ?_, ?_⟩
      · intro tail
        have hne22 : ¬ c = 0x22 := fun e => by rw [e] at hc80; exact absurd hc80 (by decide)
        simp only [List.cons_append, unquoteChar, beq_iff_eq, hne22, if_false]
        have hge : c.toNat ≥ 0x80 := hc80
        simp only [hge, if_true]
        have := hd tail
        simp only [List.cons_append] at this
        rw [this]
        have hr' : ¬ r < 0x80 := by omega
        simp only [appendMulti, hr', if_false, henc, hpc, hlen]
      · intro e; simp at e; rw [e] at hc80; exact absurd hc80 (by decide)
      · intro e; simp at e; rw [e] at hc80; exact absurd hc80 (by decide)
      · intro _
        refine ⟨rfl, hnot _ (by decide), hnot _ (by decide), ?_⟩
        intro x
        have := hd x
        simp only [List.cons_append] at this ⊢
        rw [validGo, this]
        have h1 : (w == 1) = false := by simp only [beq_eq_false_iff_ne, ne_eq]; omega
        simp only [h1, Bool.and_false, Bool.false_eq_true, if_false]
        have hl' : p'.length = w - 1 := by simp at hlen; omega
        rw [← hl']
        exact validGo_skip p' x
      · intro hc; rw [hnot _ (by decide)] at hc; cases hc
      · -- tame
        intro tail i hi
        cases i with
        | zero =>
          simp only [List.drop_zero, List.head?_cons, Option.some.injEq]
          have hne20 : ¬ c = 0x20 := fun e => by rw [e] at hc80; exact absurd hc80 (by decide)
          simp only [hne20, if_false]
          exact spaceWidth_printRune (c :: p') tail r w hd hp (by simp; omega) (by simp)
        | succ j =>
          have hdrop : (c :: p').drop (j + 1) = p'.drop j := rfl
          rw [hdrop]
          have hj : j < p'.length := by simp at hi; omega
          cases hdr : p'.drop j with
          | nil =>
            have := congrArg List.length hdr
            simp at this; omega
          | cons b rest =>
            have hb : b ∈ p' := List.mem_of_mem_drop (by rw [hdr]; simp)
            have h1 := hbytes b (by simp [hb])
            have h2 := htail b (by simpa using hb)
            have hne20 : ¬ b = 0x20 := fun e => by rw [e] at h1; exact absurd h1 (by decide)
            simp only [List.cons_append, List.head?_cons, Option.some.injEq, hne20, if_false]
            exact spaceWidth_cont b _ h1 h2
      · intro e
        have := hbytes 0x20 (by rw [e]; simp)
        exact absurd this (by decide)
      · intro _ x hx e
        rw [e] at hx
        exact hno 0x20 (by decide) hx
      · intro hl; exact absurd hl (hlast 0x22 (by decide))
      · intro hl; exact absurd hl (hlast 0x5C (by decide))
  · -- written as \u or \U
    have hp' : isPrint r = false := by simpa using hp
    have hmax : r ≤ 0x10FFFF := by
      simp only [validRune, Bool.or_eq_true, Bool.and_eq_true, decide_eq_true_eq] at hv; omega
    have hpnsp : p ≠ [0x20] := by
      intro e
      have := hbytes 0x20 (by rw [e]; simp)
      exact absurd this (by decide)
    have hp5c : p ≠ [0x5C] := by
      intro e
      have := hbytes 0x5C (by rw [e]; simp)
      exact absurd this (by decide)
    simp only [hp', Bool.false_eq_true, if_false]
    have hr' : ¬ r < 0x80 := by omega
    by_cases hsmall : r < 0x10000
    · simp only [hsmall, if_true]
      have a3 : r / 4096 % 16 < 16 := by omega
      have a2 : r / 256 % 16 < 16 := by omega
      have a1 : r / 16 % 16 < 16 := by omega
      have a0 : r % 16 < 16 := by omega
      have hpr := printable_hex4 _ _ _ _ a3 a2 a1 a0 0x75
      have l3 := lowerhex_props _ a3; have l2 := lowerhex_props _ a2
      have l1 := lowerhex_props _ a1; have l0 := lowerhex_props _ a0
      refine ⟨Or.inr ⟨hpne, hbytes⟩, ?_, by simp, by simp, by simp, ?_, fun _ => by simp, ?_, ?_, ?_, ?_, ?_⟩
      · intro tail
        have hx := hexValue4 r hsmall tail
        simp only [List.cons_append, List.nil_append] at hx
        simp only [List.cons_append, List.nil_append, unquoteChar]
        simp only [show ((0x5C : UInt8) == 0x22) = false by decide, show ¬ ((0x5C : UInt8).toNat ≥ 0x80) by decide,
          show ((0x5C : UInt8) != 0x5C) = false by decide, Bool.false_eq_true, if_false,
          show ((0x75 : UInt8) == 0x61) = false by decide, show ((0x75 : UInt8) == 0x62) = false by decide,
          show ((0x75 : UInt8) == 0x66) = false by decide, show ((0x75 : UInt8) == 0x6E) = false by decide,
          show ((0x75 : UInt8) == 0x72) = false by decide, show ((0x75 : UInt8) == 0x74) = false by decide,
          show ((0x75 : UInt8) == 0x76) = false by decide, show ((0x75 : UInt8) == 0x78) = false by decide,
          beq_self_eq_true, if_true, hx, hv, appendMulti, hr', henc]
        rfl
      · intro hc; simp at hc
      · exact tameAt_printable _ (by rw [hpr]; decide)
      · intro e; exact absurd e hpnsp
      · intro _ x hx
        simp only [List.mem_cons, List.not_mem_nil, or_false] at hx
        rcases hx with e | e | e | e | e | e <;> rw [e]
        · decide
        · decide
        · exact l3.2.2.1
        · exact l2.2.2.1
        · exact l1.2.2.1
        · exact l0.2.2.1
      · intro hl
        simp at hl
        exact absurd hl l0.2.2.2.1
      · intro hl
        simp at hl
        exact absurd hl l0.2.2.2.2.1
    · simp only [hsmall, if_false]
      have hlt32 : r < 4294967296 := by omega
      have a7 : r / 268435456 % 16 < 16 := by omega
      have a6 : r / 16777216 % 16 < 16 := by omega
      have a5 : r / 1048576 % 16 < 16 := by omega
      have a4 : r / 65536 % 16 < 16 := by omega
      have a3 : r / 4096 % 16 < 16 := by omega
      have a2 : r / 256 % 16 < 16 := by omega
      have a1 : r / 16 % 16 < 16 := by omega
      have a0 : r % 16 < 16 := by omega
      have l7 := lowerhex_props _ a7; have l6 := lowerhex_props _ a6
      have l5 := lowerhex_props _ a5; have l4 := lowerhex_props _ a4
      have l3 := lowerhex_props _ a3; have l2 := lowerhex_props _ a2
      have l1 := lowerhex_props _ a1; have l0 := lowerhex_props _ a0
      have hpr : printable [0x5C, 0x55, lowerhex (r / 268435456 % 16), lowerhex (r / 16777216 % 16),
          lowerhex (r / 1048576 % 16), lowerhex (r / 65536 % 16), lowerhex (r / 4096 % 16), lowerhex (r / 256 % 16),
          lowerhex (r / 16 % 16), lowerhex (r % 16)] = true := by
        simp only [printable, List.all_cons, List.all_nil, Bool.and_true, Bool.and_eq_true, decide_eq_true_eq]
        refine ⟨by decide, by decide, ?_, ?_, ?_, ?_, ?_, ?_, ?_, ?_⟩ <;> omega
      refine ⟨Or.inr ⟨hpne, hbytes⟩, ?_, by simp, by simp, by simp, ?_, fun _ => by simp, ?_, ?_, ?_, ?_, ?_⟩
      · intro tail
        have hx := hexValue8 r hlt32 tail
        simp only [List.cons_append, List.nil_append] at hx
        simp only [List.cons_append, List.nil_append, unquoteChar]
        simp only [show ((0x5C : UInt8) == 0x22) = false by decide, show ¬ ((0x5C : UInt8).toNat ≥ 0x80) by decide,
          show ((0x5C : UInt8) != 0x5C) = false by decide, Bool.false_eq_true, if_false,
          show ((0x55 : UInt8) == 0x61) = false by decide, show ((0x55 : UInt8) == 0x62) = false by decide,
          show ((0x55 : UInt8) == 0x66) = false by decide, show ((0x55 : UInt8) == 0x6E) = false by decide,
          show ((0x55 : UInt8) == 0x72) = false by decide, show ((0x55 : UInt8) == 0x74) = false by decide,
          show ((0x55 : UInt8) == 0x76) = false by decide, show ((0x55 : UInt8) == 0x78) = false by decide,
          show ((0x55 : UInt8) == 0x75) = false by decide,
          beq_self_eq_true, if_true, hx, hv, appendMulti, hr', henc]
        rfl
      · intro hc; simp at hc
      · exact tameAt_printable _ hpr
      · intro e; exact absurd e hpnsp
      · intro _ x hx
        simp only [List.mem_cons, List.not_mem_nil, or_false] at hx
        rcases hx with e | e | e | e | e | e | e | e | e | e <;> rw [e]
        · decide
        · decide
        · exact l7.2.2.1
        · exact l6.2.2.1
        · exact l5.2.2.1
        · exact l4.2.2.1
        · exact l3.2.2.1
        · exact l2.2.2.1
        · exact l1.2.2.1
        · exact l0.2.2.1
      · intro hl
        simp at hl
        exact absurd hl l0.2.2.2.1
      · intro hl
        simp at hl
        exact absurd hl l0.2.2.2.2.1

end DepsDev.Proofs.C19
