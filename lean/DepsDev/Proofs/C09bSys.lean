import DepsDev.Proofs.C09Laws

/-!
# C09b — the systems whose versions carry no extension: Default, NPM, Cargo, Go, NuGet, Composer

Everything in `Proofs/C09*.lean` about spans, `canon`, `Union` and `Intersect` is stated for an
arbitrary system `s` with `s ≠ .maven` and versions without extension (`VG s`): the comparator
`genericOrd s` is lawful for every system. Only the evaluation of `Set.matchVersion`
(`matchVersion_eq`) was restricted to `Sys4`, because `matchVersion` has special cases for PyPI,
NuGet and RubyGems. Here it is redone for `Sys6` = `Sys4` + NuGet + Composer: under
prerelease-inclusive matching, and in release mode for a candidate with `isPrerelease = false`,
NuGet's extra rule ("a prerelease matches only spans with a prerelease bound") is not reached.
-/
namespace DepsDev.Proofs.C09b

open Std DepsDev DepsDev.Semver DepsDev.Proofs DepsDev.Proofs.C09

variable {s : System}

/-- The six systems whose versions have no extension (`Generic` of C10/C11). -/
def Sys6 (s : System) : Prop := Sys4 s ∨ s = .nuget ∨ s = .composer

theorem Sys4.sys6 (h : Sys4 s) : Sys6 s := Or.inl h

theorem Sys6.ne (h : Sys6 s) :
    s ≠ .maven ∧ (s == System.pypi) = false ∧ (s == System.rubygems) = false ∧ s ≠ .pypi ∧ s ≠ .rubygems := by
  rcases h with (h | h | h | h) | h | h <;> subst h <;> decide

/-- The span loop of `matchVersion` for a candidate of one of the six systems: with
prerelease-inclusive matching, or in release mode for a release candidate, it is "some span
contains `v`" as an interval. -/
theorem matchGo_eq6 (hs : Sys6 s) {v : Version} (hv : VG s v) (b : Bool)
    (hb : b = true ∨ v.isPrerelease = false) :
    ∀ l : List Span, (∀ x ∈ l, SpanOK s x) → VSet.matchVersion.go v b l = .ok (anyHas s l v) := by
  obtain ⟨-, n1, -, -, -⟩ := hs.ne
  intro l
  induction l with
  | nil => intro _; rfl
  | cons sp rest ih =>
    intro hok
    have ih' := ih (fun x hx => hok x (List.mem_cons_of_mem _ hx))
    have hsp := hok sp List.mem_cons_self
    rw [VSet.matchVersion.go]
    have hc : sp.contains v b = .ok (has s sp v) := by
      rcases hb with h | h
      · subst h; exact contains_incl hsp hv
      · cases b
        · rw [contains_release sp h]; exact contains_incl hsp hv
        · exact contains_incl hsp hv
    have hdec : (!b && v.isPrerelease) = false := by
      rcases hb with h | h
      · subst h; rfl
      · rw [h]; simp
    simp only [hv.1, n1, Bool.false_and, Bool.false_eq_true, ↓reduceIte, hdec, ite_self]
    rw [hc, ih']
    simp only [ok_bind, anyHas_cons]
    cases has s sp v <;> simp

theorem matchVersion_eq6 (hs : Sys6 s) {S : VSet} (hne : S.span ≠ []) (hok : ∀ x ∈ S.span, SpanOK s x)
    {v : Version} (hv : VG s v) (b : Bool) (hb : b = true ∨ v.isPrerelease = false) :
    S.matchVersion v b = .ok (anyHas s S.span v) := by
  obtain ⟨-, -, n3, -, -⟩ := hs.ne
  unfold VSet.matchVersion
  have : S.span.isEmpty = false := by
    cases h : S.span with
    | nil => exact absurd h hne
    | cons _ _ => rfl
  simp only [this, Bool.false_eq_true, ↓reduceIte, hv.1, n3]
  exact matchGo_eq6 hs hv b hb S.span hok

end DepsDev.Proofs.C09b
