import DepsDev.Proofs.C09bRel

/-!
# C09b — `canon` under release-mode matching of a prerelease candidate

`canon` merges `this = [a,b]` with a later `next = [c,d]` only if the prerelease tags of all four
bounds compare equal (`equalPrerelease`), and — when the tags are not empty — only if
`b` and `c` are equal in the order. A merge keeps the outer bounds and forgets the inner ones; in
release mode the inner bounds are what may accept a prerelease candidate (finding F-C09-pre-merge),
and the kept outer bound may accept candidates neither operand admits.

`Elig x y`: all four bounds of `x`, `y` carry a prerelease tag and the two spans overlap or touch
(neither lies entirely below the other; every merge of tagged spans is of this kind).
`NoPreMergeL s v l`: for any two eligible spans of `l` at different positions, no bound of the
two touches `v`. Under
this hypothesis every merge step of `canon` only involves spans that do not accept `v`, before and
after (`canonSpans_rel`): spans admitting `v` go through `canon` unchanged.
-/
namespace DepsDev.Proofs.C09b

open Std DepsDev DepsDev.Semver DepsDev.Proofs DepsDev.Proofs.C09

variable {s : System}

/-! ### the sort returns a permutation -/

theorem insertSorted_go_perm (x : Span) (fuel : Nat) : ∀ (pre suffix r : List Span),
    insertSorted.go x pre suffix fuel = .ok r → r.Perm (x :: (pre ++ suffix)) := by
  induction fuel with
  | zero =>
    intro pre suffix r h
    simp only [insertSorted.go] at h
    injection h with h
    subst h
    exact List.perm_middle
  | succ k ih =>
    intro pre suffix r h
    simp only [insertSorted.go] at h
    split at h
    · rename_i hnone
      injection h with h
      subst h
      have : pre = [] := by simpa using hnone
      subst this
      exact List.Perm.refl _
    · rename_i y hy
      simp only [bind, Outcome.bind] at h
      split at h
      · split at h
        · have := ih _ _ r h
          have hpre : pre = pre.dropLast ++ [y] := by
            rcases List.eq_nil_or_concat pre with hnil | ⟨l', z, hz⟩
            · rw [hnil] at hy; cases hy
            · rw [hz] at hy ⊢
              simp only [List.concat_eq_append, List.getLast?_append, List.getLast?_singleton, Option.some_or,
                Option.some.injEq] at hy
              subst hy
              simp
          refine this.trans ?_
          rw [List.perm_cons]
          conv => rhs; rw [hpre]
          simp
        · injection h with h
          subst h
          exact List.perm_middle
      · cases h
      · cases h

theorem insertSorted_perm (x : Span) (l r : List Span) (h : insertSorted x l = .ok r) : r.Perm (x :: l) := by
  unfold insertSorted at h
  split at h
  · injection h with h; subst h; exact List.Perm.refl _
  · simpa using insertSorted_go_perm x _ _ _ r h

theorem foldlM_insertSorted_perm (l : List Span) : ∀ (acc r : List Span),
    l.foldlM (fun acc x => insertSorted x acc) acc = .ok r → r.Perm (acc ++ l) := by
  induction l with
  | nil =>
    intro acc r h
    simp only [List.foldlM_nil, pure] at h
    injection h with h
    subst h
    simp
  | cons x xs ih =>
    intro acc r h
    simp only [List.foldlM_cons, bind, Outcome.bind] at h
    split at h
    · rename_i acc' hacc
      have p1 := insertSorted_perm x acc acc' hacc
      have p2 := ih acc' r h
      refine p2.trans ?_
      refine (List.Perm.append_right xs p1).trans ?_
      simp only [List.cons_append]
      exact List.perm_middle.symm
    · cases h
    · cases h

/-- `canon`'s sort returns a permutation of its input. -/
theorem insertionSort_perm (l r : List Span) (h : insertionSort l = .ok r) : r.Perm l := by
  unfold insertionSort at h
  simpa using foldlM_insertSorted_perm l [] r h

/-! ### eligible pairs -/

/-- All four bounds of `x` and `y` carry a prerelease tag, and the spans overlap or touch: neither
`x.max < y.min` nor `y.max < x.min`. -/
def Elig (s : System) (x y : Span) : Prop :=
  match x.min, x.max, y.min, y.max with
  | some a, some b, some c, some d =>
    a.pre ≠ [] ∧ b.pre ≠ [] ∧ c.pre ≠ [] ∧ d.pre ≠ [] ∧ ¬ pt s b < pt s c ∧ ¬ pt s d < pt s a
  | _, _, _, _ => False

instance (s : System) (x y : Span) : Decidable (Elig s x y) := by
  unfold Elig
  split <;> infer_instance

theorem elig_iff {x y : Span} {a b c d : Version} (h1 : x.min = some a) (h2 : x.max = some b)
    (h3 : y.min = some c) (h4 : y.max = some d) :
    Elig s x y ↔ (a.pre ≠ [] ∧ b.pre ≠ [] ∧ c.pre ≠ [] ∧ d.pre ≠ [] ∧ ¬ pt s b < pt s c ∧ ¬ pt s d < pt s a) := by
  unfold Elig; rw [h1, h2, h3, h4]

theorem Elig.symm {x y : Span} (h : Elig s x y) : Elig s y x := by
  unfold Elig at h ⊢
  cases h1 : x.min <;> cases h2 : x.max <;> cases h3 : y.min <;> cases h4 : y.max <;> simp_all

/-- If `x`, `y` are eligible then none of their bounds touches `v`. -/
def RS (s : System) (v : Version) (x y : Span) : Prop :=
  Elig s x y → NoTouch s v x ∧ NoTouch s v y

instance (s : System) (v : Version) (x y : Span) : Decidable (RS s v x y) := inferInstanceAs (Decidable (_ → _))

theorem RS.symm {v : Version} {x y : Span} (h : RS s v x y) : RS s v y x :=
  fun e => (h e.symm).symm

/-- The hypothesis of the release-mode union law, on a span list. -/
def NoPreMergeL (s : System) (v : Version) (l : List Span) : Prop := l.Pairwise (RS s v)

instance (s : System) (v : Version) (l : List Span) : Decidable (NoPreMergeL s v l) :=
  inferInstanceAs (Decidable (List.Pairwise _ _))

theorem NoPreMergeL.perm {v : Version} {l l' : List Span} (h : NoPreMergeL s v l) (p : l'.Perm l) :
    NoPreMergeL s v l' :=
  (p.pairwise_iff (fun h => RS.symm h)).mpr h

/-! ### one merge step: which bounds are involved -/

theorem comparePre_nonempty_right {sys : System} {p q : List Bytes} (h : (comparePre sys p q == 0) = true)
    (hp : p ≠ []) : q ≠ [] := by
  intro hq
  subst hq
  exact hp (comparePre_nil_right h)

theorem mergeTail_merge {this next this' : Span} {a b c d : Version}
    (h1 : this.min = some a) (h2 : this.max = some b)
    (h : mergeTail s this next a b c d = .ok (this', .merge)) :
    (comparePre a.sys a.pre b.pre == 0) = true ∧ (comparePre a.sys a.pre c.pre == 0) = true ∧
      (comparePre a.sys a.pre d.pre == 0) = true ∧ this'.min = some a ∧ (this'.max = some b ∨ this'.max = some d) := by
  unfold mergeTail at h
  have nocont : ∀ x : Span, (Outcome.ok (x, InnerCtl.cont) : Outcome (Span × InnerCtl)) = .ok (this', .merge) → False := by
    intro x hx
    injection hx with hx
    injection hx with _ hx
    cases hx
  by_cases q1 : (this.maxOpen && next.minOpen) = true
  · simp only [q1, ↓reduceIte] at h; exact (nocont _ h).elim
  simp only [q1, Bool.false_eq_true, ↓reduceIte] at h
  by_cases q2 : (!comparePre a.sys a.pre b.pre == 0) = true
  · simp only [q2, ↓reduceIte] at h; exact (nocont _ h).elim
  simp only [q2, Bool.false_eq_true, ↓reduceIte] at h
  by_cases q3 : (!comparePre a.sys a.pre c.pre == 0) = true
  · simp only [q3, ↓reduceIte] at h; exact (nocont _ h).elim
  simp only [q3, Bool.false_eq_true, ↓reduceIte] at h
  by_cases q4 : (!comparePre a.sys a.pre d.pre == 0) = true
  · simp only [q4, ↓reduceIte] at h; exact (nocont _ h).elim
  simp only [q4, Bool.false_eq_true, ↓reduceIte] at h
  refine ⟨by simpa using q2, by simpa using q3, by simpa using q4, ?_⟩
  by_cases q5 : (next.rank == Rank.empty) = true
  · simp only [q5, ↓reduceIte] at h
    injection h with h
    injection h with h _
    subst h
    exact ⟨h1, Or.inl h2⟩
  simp only [q5, Bool.false_eq_true, ↓reduceIte] at h
  by_cases q6 : decide (pt s d ≤ pt s b) = true
  · simp only [q6, ↓reduceIte] at h
    injection h with h
    injection h with h _
    subst h
    split
    · exact ⟨rfl, Or.inl rfl⟩
    · exact ⟨h1, Or.inl h2⟩
  · simp only [q6, Bool.false_eq_true, ↓reduceIte] at h
    injection h with h
    injection h with h _
    subst h
    exact ⟨rfl, Or.inr rfl⟩

/-- What a merging iteration of `canon`'s inner loop tells about the four bounds: their tags compare
equal; if `this.max` is below `next.min` it has no tag; the new `this` keeps `this.min` and ends
at `this.max` or `next.max`. -/
theorem canonInner_merge {this next this' : Span} (ht : SpanOK s this) (htne : this.rank ≠ .empty)
    (hn : SpanOK s next) (hnne : next.rank ≠ .empty) {a b c d : Version}
    (h1 : this.min = some a) (h2 : this.max = some b) (h3 : next.min = some c) (h4 : next.max = some d)
    (h : canonInner this next = .ok (this', .merge)) :
    (comparePre a.sys a.pre b.pre == 0) = true ∧ (comparePre a.sys a.pre c.pre == 0) = true ∧
      (comparePre a.sys a.pre d.pre == 0) = true ∧ (pt s b < pt s c → b.pre = []) ∧
      this'.min = some a ∧ (this'.max = some b ∨ this'.max = some d) := by
  obtain ⟨a', b', e1, e2, ha, hb, -⟩ := ht.bounds htne
  rw [h1] at e1; cases e1
  rw [h2] at e2; cases e2
  obtain ⟨c', d', e3, e4, hc, hd, -⟩ := hn.bounds hnne
  rw [h3] at e3; cases e3
  rw [h4] at e4; cases e4
  have tail := fun hh => mergeTail_merge (s := s) (this := this) (next := next) (this' := this') (c := c) (d := d) h1 h2 hh
  unfold mergeTail at tail
  have nobrk : ∀ (x : Span) (k : InnerCtl), k ≠ .merge →
      (Outcome.ok (x, k) : Outcome (Span × InnerCtl)) = .ok (this', .merge) → False := by
    intro x k hk hx
    injection hx with hx
    injection hx with _ hx
    exact hk hx
  unfold canonInner at h
  simp only [h1, h2, h3, h4, vLess_eq hb.1 hc.1, vEqual_eq hb.1 hc.1, ok_bind, equalPrerelease,
    vLessEq_eq hd.1 hb.1, vEqual_eq hb.1 hd.1] at h
  by_cases hbc : pt s b < pt s c
  · simp only [hbc, decide_true, ↓reduceIte] at h
    by_cases hpre : b.pre.isEmpty = true
    · simp only [hpre, ↓reduceIte] at h
      have hpre' : b.pre = [] := by simpa using hpre
      by_cases hop : (this.maxOpen || next.minOpen) = true
      · simp only [hop, ↓reduceIte, ok_bind] at h
        exact (nobrk _ _ (by intro hk; cases hk) h).elim
      · simp only [hop, Bool.false_eq_true, ↓reduceIte] at h
        obtain ⟨m, hm, hmg⟩ := inc_fill_ok hb.1 hpre'
        simp only [hm, ok_bind, vLess_eq hmg hc.1] at h
        by_cases hmc : pt s m < pt s c
        · simp only [hmc, decide_true, ↓reduceIte, ok_bind] at h
          exact (nobrk _ _ (by intro hk; cases hk) h).elim
        · simp only [hmc, decide_false, Bool.false_eq_true, ↓reduceIte, ok_bind] at h
          obtain ⟨t1, t2, t3, t4⟩ := tail h
          exact ⟨t1, t2, t3, fun _ => hpre', t4⟩
    · simp only [hpre, Bool.false_eq_true, ↓reduceIte, ok_bind] at h
      exact (nobrk _ _ (by intro hk; cases hk) h).elim
  · simp only [hbc, decide_false, Bool.false_eq_true, ↓reduceIte] at h
    by_cases hq : (!decide (pt s b ≤ pt s c ∧ pt s c ≤ pt s b) && !b.pre.isEmpty) = true
    · simp only [hq, ↓reduceIte, ok_bind] at h
      exact (nobrk _ _ (by intro hk; cases hk) h).elim
    · simp only [hq, Bool.false_eq_true, ↓reduceIte, ok_bind] at h
      obtain ⟨t1, t2, t3, t4⟩ := tail h
      exact ⟨t1, t2, t3, fun hh => absurd hh hbc, t4⟩

/-! ### the loops -/

/-- A bound flagged as a prerelease but without a tag (`clearPre` drops the tag and keeps the flag,
e.g. the upper bound of `^1.2.3-a`) does not have the number list of the candidate. -/
def FlagOK (v x : Version) : Prop := x.isPrerelease = true → x.pre = [] → v.num ≠ x.num

instance (v x : Version) : Decidable (FlagOK v x) := inferInstanceAs (Decidable (_ → _))

/-- Some not-yet-merged span of the flagged list admits `v` in release mode. -/
def liveRel (s : System) (L : List (Span × Bool)) (v : Version) : Bool :=
  L.any (fun p => !p.2 && relHas s p.1 v)

@[simp] theorem liveRel_nil (v : Version) : liveRel s [] v = false := rfl
@[simp] theorem liveRel_cons (p : Span × Bool) (L : List (Span × Bool)) (v : Version) :
    liveRel s (p :: L) v = ((!p.2 && relHas s p.1 v) || liveRel s L v) := by simp [liveRel]

theorem noTouch_congr {v : Version} {x y : Span} (h : NoTouch s v x) (h1 : y.min = x.min) (h2 : y.max = x.max) :
    NoTouch s v y :=
  ⟨fun a ha => h.1 a (h1 ▸ ha), fun b hb => h.2 b (h2 ▸ hb)⟩

theorem elig_congr_left {x x' y : Span} (h1 : x'.min = x.min) (h2 : x'.max = x.max) :
    Elig s x' y ↔ Elig s x y := by
  unfold Elig; rw [h1, h2]

/-- One merging iteration under the hypotheses: none of the spans involved admits `v`, before or
after, and the new `this` relates to the later spans as required. -/
theorem merge_step_rel {v : Version} (hp : v.isPrerelease = true) (hvt : v.pre ≠ [])
    {this next this' : Span} (ht : SpanOK s this) (htne : this.rank ≠ .empty)
    (hn : SpanOK s next) (hnne : next.rank ≠ .empty) (hle : MinLE s this next)
    (hPt : AllB (FlagOK v) this) (hPn : AllB (FlagOK v) next)
    (hI : Elig s this next → NoTouch s v this ∧ NoTouch s v next)
    (ht' : SpanOK s this') (h : canonInner this next = .ok (this', .merge)) :
    relHas s this v = false ∧ relHas s next v = false ∧ relHas s this' v = false ∧
      NoTouch s v this' ∧ (this'.max = this.max ∨ this'.max = next.max) ∧ this'.min = this.min := by
  obtain ⟨a, b, h1, h2, -⟩ := ht.bounds htne
  obtain ⟨c, d, h3, h4, -, -, hcd, -⟩ := hn.bounds hnne
  have hac : pt s a ≤ pt s c := hle.le h1 h3
  obtain ⟨t1, t2, t3, t4, t5, t6⟩ := canonInner_merge ht htne hn hnne h1 h2 h3 h4 h
  have hnt : NoTouch s v this ∧ NoTouch s v next := by
    by_cases hap : a.pre = []
    · have hbp : b.pre = [] := by rw [hap] at t1; exact comparePre_nil_left t1
      have hcp : c.pre = [] := by rw [hap] at t2; exact comparePre_nil_left t2
      have hdp : d.pre = [] := by rw [hap] at t3; exact comparePre_nil_left t3
      refine ⟨⟨?_, ?_⟩, ⟨?_, ?_⟩⟩
      · intro x hx; rw [h1] at hx; cases hx; exact noTouch_of_release hvt hap (fun hf => hPt.1 a h1 hf hap)
      · intro x hx; rw [h2] at hx; cases hx; exact noTouch_of_release hvt hbp (fun hf => hPt.2 b h2 hf hbp)
      · intro x hx; rw [h3] at hx; cases hx; exact noTouch_of_release hvt hcp (fun hf => hPn.1 c h3 hf hcp)
      · intro x hx; rw [h4] at hx; cases hx; exact noTouch_of_release hvt hdp (fun hf => hPn.2 d h4 hf hdp)
    · have hbp := comparePre_nonempty_right t1 hap
      have hcp := comparePre_nonempty_right t2 hap
      have hdp := comparePre_nonempty_right t3 hap
      apply hI
      rw [elig_iff h1 h2 h3 h4]
      exact ⟨hap, hbp, hcp, hdp, fun hbc => hbp (t4 hbc), by grind⟩
  have hnt' : NoTouch s v this' := by
    refine ⟨?_, ?_⟩
    · intro x hx; rw [t5] at hx; cases hx; exact hnt.1.1 a h1
    · intro x hx
      rcases t6 with e | e <;> rw [e] at hx <;> cases hx
      · exact hnt.1.2 b h2
      · exact hnt.2.2 d h4
  refine ⟨relHas_false_of_noTouch ht hp hnt.1, relHas_false_of_noTouch hn hp hnt.2,
    relHas_false_of_noTouch ht' hp hnt', hnt', ?_, t5.trans h1.symm⟩
  rcases t6 with e | e
  · exact Or.inl (e.trans h2.symm)
  · exact Or.inr (e.trans h4.symm)

/-- The inner loop of `canon` under release-mode matching. `hI`: `this` relates to every later
span as `RS` demands; `hPW`: so do the later spans among themselves. -/
theorem canonInnerLoop_rel {v : Version} (hp : v.isPrerelease = true) (hvt : v.pre ≠ []) :
    ∀ (rest : List (Span × Bool)) (this : Span), SpanOK s this → this.rank ≠ .empty → AllB (FlagOK v) this →
      RestOK s (FlagOK v) this rest →
      (∀ q ∈ rest, Elig s this q.1 → NoTouch s v this ∧ NoTouch s v q.1) →
      NoPreMergeL s v (rest.map (·.1)) → Sorted s (rest.map (·.1)) →
      ∀ t' r', canonInnerLoop this rest = .ok (t', r') →
        (relHas s t' v || liveRel s r' v) = (relHas s this v || liveRel s rest v) := by
  intro rest
  induction rest with
  | nil =>
    intro this _ _ _ _ _ _ _ t' r' h
    simp only [canonInnerLoop] at h
    injection h with h
    injection h with e1 e2
    subst e1 e2
    rfl
  | cons q rest ih =>
    intro this ht htne hPt hrest hI hPW hS t' r' h
    obtain ⟨next, m⟩ := q
    have hPW' : NoPreMergeL s v (rest.map (·.1)) := by
      simp only [NoPreMergeL, List.map_cons, List.pairwise_cons] at hPW
      exact hPW.2
    have hS' : Sorted s (rest.map (·.1)) := by
      simp only [List.map_cons, Sorted, List.pairwise_cons] at hS
      exact hS.2
    have hI' : ∀ q ∈ rest, Elig s this q.1 → NoTouch s v this ∧ NoTouch s v q.1 :=
      fun q hq => hI q (List.mem_cons_of_mem _ hq)
    cases m with
    | true =>
      obtain ⟨t1, r1, e, -⟩ := canonInnerLoop_spec (FlagOK v) rest this ht htne hPt hrest.tail
      rw [canonInnerLoop, e] at h
      injection h with h
      injection h with e1 e2
      subst e1 e2
      have := ih this ht htne hPt hrest.tail hI' hPW' hS' t1 r1 e
      simpa using this
    | false =>
      obtain ⟨hn, hnne, hle, hPn⟩ := hrest (next, false) List.mem_cons_self
      obtain ⟨this1, ctl, e1, hstep⟩ := canonInner_spec (FlagOK v) ht htne hn hnne hle hPt hPn
      rw [canonInnerLoop, e1] at h
      cases ctl with
      | brk =>
        have : this1 = this := hstep
        subst this
        simp only [ok_bind] at h
        injection h with h
        injection h with e1 e2
        subst e1 e2
        rfl
      | cont =>
        have : this1 = this := hstep
        subst this
        obtain ⟨t1, r1, e, -⟩ := canonInnerLoop_spec (FlagOK v) rest this1 ht htne hPt hrest.tail
        simp only [ok_bind, e] at h
        injection h with h
        injection h with e1 e2
        subst e1 e2
        have := ih this1 ht htne hPt hrest.tail hI' hPW' hS' t1 r1 e
        simp only [liveRel_cons, Bool.not_false, Bool.true_and]
        rw [Bool.or_left_comm, this, Bool.or_left_comm]
      | merge =>
        obtain ⟨s1, s2, s3, s4, s5, -⟩ := hstep
        obtain ⟨t1, r1, e, -⟩ := canonInnerLoop_spec (FlagOK v) rest this1 s1 s2 s5 (hrest.tail.congr s3 s4)
        simp only [ok_bind, e] at h
        injection h with h
        injection h with e1' e2'
        subst e1' e2'
        obtain ⟨z1, z2, z3, z4, z5, z6⟩ := merge_step_rel hp hvt ht htne hn hnne hle hPt hPn
          (hI (next, false) List.mem_cons_self) s1 e1
        have hI1 : ∀ q ∈ rest, Elig s this1 q.1 → NoTouch s v this1 ∧ NoTouch s v q.1 := by
          intro q hq he
          refine ⟨z4, ?_⟩
          rcases z5 with emax | emax
          · exact (hI' q hq ((elig_congr_left z6 emax).mp he)).2
          · -- `this1` ends at `next.max`: `next` and `q` are eligible, and `next` stands before `q`
            obtain ⟨qok, qne, -, -⟩ := hrest q (List.mem_cons_of_mem _ hq)
            obtain ⟨c, d, h3, h4, -⟩ := hn.bounds hnne
            obtain ⟨c', d', h3', h4', -, -, hcd', -⟩ := qok.bounds qne
            obtain ⟨a1, -, ha1, -⟩ := s1.bounds s2
            rw [elig_iff ha1 (emax.trans h4) h3' h4'] at he
            obtain ⟨_, p2, p3, p4, p5, _⟩ := he
            have hq' : q.1 ∈ rest.map (·.1) := List.mem_map_of_mem hq
            simp only [NoPreMergeL, List.map_cons, List.pairwise_cons] at hPW
            have hrs := hPW.1 q.1 hq'
            simp only [List.map_cons, Sorted, List.pairwise_cons] at hS
            have hcc : pt s c ≤ pt s c' := (sle_nonempty hn hnne qok (hS.1 q.1 hq')).2.le h3 h3'
            -- `next.min` carries a tag as well (its tag equals that of `this1.min = this.min`)
            obtain ⟨a, b, h1, h2, -⟩ := ht.bounds htne
            obtain ⟨t1', t2', t3', -, -, -⟩ := canonInner_merge ht htne hn hnne h1 h2 h3 h4 e1
            have hap : a.pre ≠ [] := by
              intro hap
              rw [hap] at t3'
              exact p2 (comparePre_nil_left t3')
            have hcp := comparePre_nonempty_right t2' hap
            exact (hrs ((elig_iff h3 h4 h3' h4').mpr ⟨hcp, p2, p3, p4, p5, by grind⟩)).2
        have := ih this1 s1 s2 s5 (hrest.tail.congr s3 s4) hI1 hPW' hS' t1 r1 e
        simp only [liveRel_cons, Bool.not_true, Bool.false_and, Bool.false_or, Bool.not_false, Bool.true_and]
        rw [this, z3, z1, z2]
        simp

/-- The outer loop of `canon` under release-mode matching. -/
theorem canonOuter_rel {v : Version} (hp : v.isPrerelease = true) (hvt : v.pre ≠ []) :
    ∀ (fuel : Nat) (L : List (Span × Bool)), L.length ≤ fuel →
      (∀ x ∈ L.map (·.1), SpanOK s x ∧ AllB (FlagOK v) x) → Sorted s (L.map (·.1)) →
      NoPreMergeL s v (L.map (·.1)) →
      ∀ out ae, canonOuter L fuel = .ok (out, ae) → anyRel s out v = liveRel s L v := by
  intro fuel
  induction fuel with
  | zero =>
    intro L hlen _ _ _ out ae h
    have : L = [] := List.eq_nil_of_length_eq_zero (by omega)
    subst this
    simp only [canonOuter] at h
    injection h with h
    injection h with e1 e2
    subst e1
    rfl
  | succ fuel ih =>
    intro L hlen hok hsorted hPW out ae h
    cases L with
    | nil =>
      simp only [canonOuter] at h
      injection h with h
      injection h with e1 e2
      subst e1
      rfl
    | cons q rest =>
      obtain ⟨this, m⟩ := q
      have hlen' : rest.length ≤ fuel := by simp at hlen; omega
      have hok' : ∀ x ∈ rest.map (·.1), SpanOK s x ∧ AllB (FlagOK v) x := fun x hx => hok x (by simp at hx ⊢; exact Or.inr hx)
      have hsorted' : Sorted s (rest.map (·.1)) := by
        simp only [List.map_cons, Sorted, List.pairwise_cons] at hsorted
        exact hsorted.2
      have hPW' : NoPreMergeL s v (rest.map (·.1)) := by
        simp only [NoPreMergeL, List.map_cons, List.pairwise_cons] at hPW
        exact hPW.2
      rw [canonOuter] at h
      by_cases hm : m = true
      · subst hm
        simp only [↓reduceIte] at h
        rw [ih rest hlen' hok' hsorted' hPW' out ae h]
        simp
      · have hm' : m = false := by simpa using hm
        subst hm'
        simp only [Bool.false_eq_true, ↓reduceIte] at h
        by_cases hte : this.rank = .empty
        · have hte' : (this.rank == Rank.empty) = true := by simp [hte]
          simp only [hte', ↓reduceIte] at h
          rw [ih rest hlen' hok' hsorted' hPW' out ae h]
          simp [relHas_empty hte]
        · have hte' : (this.rank == Rank.empty) = false := by simpa using hte
          simp only [hte', Bool.false_eq_true, ↓reduceIte] at h
          obtain ⟨htok, htP⟩ := hok this (by simp)
          have hrest : RestOK s (FlagOK v) this rest := by
            intro q hq
            have hq' : q.1 ∈ rest.map (·.1) := List.mem_map_of_mem hq
            obtain ⟨qok, qP⟩ := hok' q.1 hq'
            simp only [List.map_cons, Sorted, List.pairwise_cons] at hsorted
            obtain ⟨qne, qle⟩ := sle_nonempty htok hte qok (hsorted.1 q.1 hq')
            exact ⟨qok, qne, qle, qP⟩
          obtain ⟨t', r', e, -, -, -, -, -, h6, -⟩ := canonInnerLoop_spec (FlagOK v) rest this htok hte htP hrest
          have hI : ∀ q ∈ rest, Elig s this q.1 → NoTouch s v this ∧ NoTouch s v q.1 := by
            intro q hq he
            simp only [NoPreMergeL, List.map_cons, List.pairwise_cons] at hPW
            exact hPW.1 q.1 (List.mem_map_of_mem hq) he
          have hinner := canonInnerLoop_rel hp hvt rest this htok hte htP hrest hI hPW' hsorted' t' r' e
          simp only [e, ok_bind] at h
          have hlen'' : r'.length ≤ fuel := by
            have := congrArg List.length h6
            simp at this; omega
          cases ho : canonOuter r' fuel with
          | err => rw [ho] at h; cases h
          | panic => rw [ho] at h; cases h
          | ok res =>
            obtain ⟨out', ae'⟩ := res
            rw [ho] at h
            simp only [ok_bind] at h
            injection h with h
            injection h with e1 e2
            subst e1
            have := ih r' hlen'' (by rw [h6]; exact hok') (by rw [h6]; exact hsorted') (by rw [h6]; exact hPW') out' ae' ho
            rw [anyRel_cons, this, hinner, liveRel_cons]
            simp

theorem liveRel_init (l : List Span) (v : Version) : liveRel s (l.map (fun x => (x, false))) v = anyRel s l v := by
  induction l with
  | nil => rfl
  | cons x l ih => simp [ih]

theorem anyRel_perm {l l' : List Span} (p : l.Perm l') (v : Version) : anyRel s l v = anyRel s l' v := by
  apply bool_eq_of_iff
  rw [anyRel_iff, anyRel_iff]
  constructor
  · rintro ⟨x, hx, hv⟩; exact ⟨x, p.mem_iff.mp hx, hv⟩
  · rintro ⟨x, hx, hv⟩; exact ⟨x, p.mem_iff.mpr hx, hv⟩

/-- **`canon` under release-mode matching**: on well-formed spans none of whose untagged bounds is both
flagged as a prerelease and numbered like `v`, if no two eligible spans have a bound touching the prerelease candidate `v`, the
result admits `v` exactly when some input span does. -/
theorem canonSpans_rel (hs : s ≠ .maven) {v : Version} (hp : v.isPrerelease = true) (hvt : v.pre ≠ [])
    (l : List Span) (hok : ∀ x ∈ l, SpanOK s x ∧ AllB (FlagOK v) x) (hpm : NoPreMergeL s v l)
    {r : List Span} (h : canonSpans l = .ok r) : anyRel s r v = anyRel s l v := by
  unfold canonSpans at h
  by_cases h1 : l.length ≤ 1
  · simp only [h1, ↓reduceIte] at h
    injection h with h
    subst h
    rfl
  simp only [h1, ↓reduceIte] at h
  have hmv : (sysOfSpans l == System.maven) = false := by
    rcases sysOfSpans_eq l (fun x hx => (hok x hx).1) with h | h
    · rw [h]; simpa using hs
    · rw [h]; rfl
  simp only [hmv, Bool.false_eq_true, ↓reduceIte] at h
  obtain ⟨sorted, e1, hsorted, hmem⟩ := sort_spec l (fun x hx => (hok x hx).1)
  have hperm := insertionSort_perm l sorted e1
  simp only [e1, ok_bind, canonMerge] at h
  have hok' : ∀ x ∈ (sorted.map (fun x => (x, false))).map (·.1), SpanOK s x ∧ AllB (FlagOK v) x := by
    intro x hx
    simp only [List.map_map, Function.comp_def, List.map_id'] at hx
    exact hok x ((hmem x).mp hx)
  have hmap : (sorted.map (fun x => (x, false))).map (·.1) = sorted := by
    simp only [List.map_map, Function.comp_def, List.map_id']
  obtain ⟨out, ae, e2, -, -, -, g4, -⟩ := canonOuter_spec (FlagOK v) (sorted.length + 1)
    (sorted.map (fun x => (x, false))) (by simp) hok' (by rw [hmap]; exact hsorted)
  have hrel := canonOuter_rel hp hvt (sorted.length + 1) (sorted.map (fun x => (x, false))) (by simp) hok'
    (by rw [hmap]; exact hsorted) (by rw [hmap]; exact hpm.perm hperm) out ae e2
  simp only [e2, ok_bind] at h
  cases ae with
  | true =>
    obtain ⟨-, hall⟩ := g4 rfl
    simp only [↓reduceIte] at h
    injection h with h
    subst h
    have hempty : ∀ x ∈ sorted, x.rank = .empty := by
      intro x hx
      rcases hall (x, false) (List.mem_map_of_mem hx) with h | h
      · cases h
      · exact h
    have z1 : anyRel s (sorted.take 1) v = false := by
      rw [← Bool.not_eq_true, anyRel_iff]
      rintro ⟨x, hx, hv⟩
      rw [relHas_empty (hempty x (List.mem_of_mem_take hx))] at hv
      cases hv
    have z2 : anyRel s l v = false := by
      rw [← Bool.not_eq_true, anyRel_iff]
      rintro ⟨x, hx, hv⟩
      rw [relHas_empty (hempty x ((hmem x).mpr hx))] at hv
      cases hv
    rw [z1, z2]
  | false =>
    simp only [Bool.false_eq_true, ↓reduceIte] at h
    injection h with h
    subst h
    rw [hrel, liveRel_init, anyRel_perm hperm]

end DepsDev.Proofs.C09b
