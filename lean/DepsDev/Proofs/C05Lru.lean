import DepsDev.Model.Resolve.Lru

/-!
# C05: memoisation through the LRU cache is invisible

Invariant `Inv m c`: every cached entry `(k, v)` is what the computation stores for `k`.
It holds for the empty cache, is preserved by `Get`, by `Add` of the stored value (whatever
gets evicted) and by *any* loss of entries; under it a hit returns what a miss computes.
Lifted over call lists (`memo_correct`), adaptive programs (`run_eq_pure`), the three
caches of the PyPI resolver including the nested use of the constraint cache
(`run3_eq_pure`) and arbitrary schedules of threads sharing a cache (`sched_results_pure`).
Also: the structural invariant of the cache (distinct keys, at most `maxSize` entries).
-/

namespace DepsDev.Resolve.Lru

set_option linter.unusedSectionVars false

open List

variable {K V ρ : Type} [DecidableEq K]

theorem lookup_mem {k : K} {v : V} : ∀ {l : List (K × V)}, lookup k l = some v → (k, v) ∈ l
  | [], h => by simp [lookup] at h
  | (k', v') :: l, h => by
      unfold lookup at h
      split at h
      · rename_i hk; cases h; subst hk; exact mem_cons_self
      · exact mem_cons_of_mem _ (lookup_mem h)

theorem mem_erase_of {k : K} {x : K × V} : ∀ {l : List (K × V)}, x ∈ erase k l → x ∈ l
  | [], h => by simp [erase] at h
  | (k', v') :: l, h => by
      unfold erase at h
      split at h
      · exact mem_cons_of_mem _ h
      · rcases mem_cons.mp h with rfl | h'
        · exact mem_cons_self
        · exact mem_cons_of_mem _ (mem_erase_of h')

theorem mem_dropLast_of {α : Type} {x : α} : ∀ {l : List α}, x ∈ l.dropLast → x ∈ l
  | [], h => by simp at h
  | [a], h => by simp at h
  | a :: b :: l, h => by
      rw [dropLast_cons_cons] at h
      rcases mem_cons.mp h with rfl | h'
      · exact mem_cons_self
      · exact mem_cons_of_mem _ (mem_dropLast_of h')

/-- Every cached entry is what the computation stores for its key. -/
def Inv (m : Memo K V ρ) (c : Cache K V) : Prop :=
  ∀ k v, (k, v) ∈ c.entries → m.store k = some v

theorem inv_new (m : Memo K V ρ) (n : Nat) : Inv m (new n : Cache K V) := by
  intro k v h; simp [new] at h

/-- Losing entries (any eviction policy whatsoever) or reordering them keeps the invariant. -/
theorem Inv.of_subset {m : Memo K V ρ} {c c' : Cache K V} (h : Inv m c)
    (sub : ∀ x, x ∈ c'.entries → x ∈ c.entries) : Inv m c' :=
  fun k v hkv => h k v (sub _ hkv)

theorem get_fst (c : Cache K V) (k : K) : (get c k).1 = lookup k c.entries := by
  unfold get; split <;> simp [*]

theorem get_maxSize (c : Cache K V) (k : K) : (get c k).2.maxSize = c.maxSize := by
  unfold get; split <;> rfl

theorem get_inv {m : Memo K V ρ} {c : Cache K V} (h : Inv m c) (k : K) : Inv m (get c k).2 := by
  unfold get
  split
  · exact h
  · rename_i v hv
    intro k' v' hm
    rcases mem_cons.mp hm with heq | hm'
    · cases heq; exact h _ _ (lookup_mem hv)
    · exact h _ _ (mem_erase_of hm')

/-- A hit returns a value that the computation would store. -/
theorem get_hit {m : Memo K V ρ} {c : Cache K V} (h : Inv m c) {k : K} {v : V}
    (hv : (get c k).1 = some v) : m.store k = some v := by
  rw [get_fst] at hv; exact h _ _ (lookup_mem hv)

theorem add_inv {m : Memo K V ρ} {c c' : Cache K V} (h : Inv m c) {k : K} {v : V}
    (hs : m.store k = some v) (ha : add c k v = some c') : Inv m c' ∧ c'.maxSize = c.maxSize := by
  unfold add at ha
  split at ha
  · cases ha
    refine ⟨?_, rfl⟩
    intro k' v' hm
    rcases mem_cons.mp hm with heq | hm'
    · cases heq; exact hs
    · exact h _ _ (mem_erase_of hm')
  · split at ha
    · cases ha
      refine ⟨?_, rfl⟩
      intro k' v' hm
      rcases mem_cons.mp hm with heq | hm'
      · cases heq; exact hs
      · exact h _ _ hm'
    · split at ha
      · cases ha
      · cases ha
        refine ⟨?_, rfl⟩
        intro k' v' hm
        rcases mem_cons.mp hm with heq | hm'
        · cases heq; exact hs
        · exact h _ _ (mem_dropLast_of hm')

/-- `Add` cannot panic when the capacity is positive. -/
theorem add_isSome (c : Cache K V) (k : K) (v : V) (hpos : 0 < c.maxSize) : ∃ c', add c k v = some c' := by
  unfold add
  split
  · exact ⟨_, rfl⟩
  · split
    · exact ⟨_, rfl⟩
    · rename_i hlen
      split
      · rename_i hnil
        rw [hnil] at hlen
        exact absurd hpos (by simpa using hlen)
      · exact ⟨_, rfl⟩

/-- **One memoised call**: it returns what the uncached computation returns, whatever the cache
holds, and keeps the invariant. -/
theorem getOrCompute_spec (m : Memo K V ρ) {c : Cache K V} (h : Inv m c) (hpos : 0 < c.maxSize) (k : K) :
    ∃ c', getOrCompute m c k = some (m.result k, c') ∧ Inv m c' ∧ c'.maxSize = c.maxSize := by
  unfold getOrCompute
  have hg := get_inv h k
  have hm := get_maxSize c k
  generalize hgc : get c k = g at hg hm
  rcases g with ⟨o, c1⟩
  have hm' : c1.maxSize = c.maxSize := hm
  cases o with
  | some v =>
    have hst : m.store k = some v := get_hit h (by rw [hgc])
    exact ⟨c1, by simp [m.law k v hst], hg, hm'⟩
  | none =>
    simp only
    cases hs : m.store k with
    | none => exact ⟨c1, rfl, hg, hm'⟩
    | some v =>
      obtain ⟨c2, hc2⟩ := add_isSome c1 k v (by omega)
      have := add_inv hg hs hc2
      exact ⟨c2, by simp [hc2], this.1, by omega⟩

/-- **Memoisation theorem**: any list of memoised calls, from any cache state satisfying the
invariant, with whatever evictions happen on the way, returns exactly the uncached values. -/
theorem memo_correct (m : Memo K V ρ) : ∀ (ks : List K) {c : Cache K V}, Inv m c → 0 < c.maxSize →
    ∃ c', runCalls m c ks = some (ks.map m.result, c') ∧ Inv m c' ∧ c'.maxSize = c.maxSize
  | [], c, h, _ => ⟨c, rfl, h, rfl⟩
  | k :: ks, c, h, hpos => by
      obtain ⟨c1, h1, hi1, hm1⟩ := getOrCompute_spec m h hpos k
      obtain ⟨c2, h2, hi2, hm2⟩ := memo_correct m ks hi1 (by omega)
      exact ⟨c2, by simp [runCalls, h1, h2], hi2, by omega⟩

/-- Adaptive clients: the run against any cache satisfying the invariant returns the result of
the cache-free run. -/
theorem run_eq_pure {R : Type} (m : Memo K V ρ) : ∀ (p : Prog K ρ R) {c : Cache K V}, Inv m c → 0 < c.maxSize →
    ∃ c', p.run m c = some (p.pure m, c') ∧ Inv m c' ∧ c'.maxSize = c.maxSize
  | .done r, c, h, _ => ⟨c, rfl, h, rfl⟩
  | .call k cont, c, h, hpos => by
      obtain ⟨c1, h1, hi1, hm1⟩ := getOrCompute_spec m h hpos k
      obtain ⟨c2, h2, hi2, hm2⟩ := run_eq_pure m (cont (m.result k)) hi1 (by omega)
      exact ⟨c2, by simp [Prog.run, Prog.pure, h1, h2], hi2, by omega⟩

/-- Cache states that can arise: from empty, by memoised calls, bare `Get`s, and arbitrary loss
or reordering of entries. -/
inductive Reachable (m : Memo K V ρ) (n : Nat) : Cache K V → Prop where
  | init : Reachable m n (new n)
  | call {c c' : Cache K V} {k : K} {r : ρ} : Reachable m n c → getOrCompute m c k = some (r, c') → Reachable m n c'
  | get {c : Cache K V} (k : K) : Reachable m n c → Reachable m n (get c k).2
  | lose {c : Cache K V} (es : List (K × V)) : Reachable m n c → (∀ x, x ∈ es → x ∈ c.entries) →
      Reachable m n { c with entries := es }

theorem Reachable.inv {m : Memo K V ρ} {n : Nat} (hn : 0 < n) {c : Cache K V} (h : Reachable m n c) :
    Inv m c ∧ c.maxSize = n := by
  induction h with
  | init => exact ⟨inv_new m n, rfl⟩
  | call _ hc ih =>
    obtain ⟨c1, h1, hi1, hm1⟩ := getOrCompute_spec m ih.1 (by omega) _
    rw [h1] at hc; cases hc
    exact ⟨hi1, by omega⟩
  | get k _ ih => exact ⟨get_inv ih.1 k, by rw [get_maxSize]; exact ih.2⟩
  | lose es _ hsub ih => exact ⟨ih.1.of_subset hsub, ih.2⟩

/-- **History independence (b)**: from every reachable cache state a client computes what it
computes from the empty cache. -/
theorem history_independent {R : Type} (m : Memo K V ρ) {n : Nat} (hn : 0 < n) {c : Cache K V}
    (h : Reachable m n c) (p : Prog K ρ R) :
    (p.run m c).map (·.1) = some (p.pure m) ∧ (p.run m (new n)).map (·.1) = some (p.pure m) := by
  have hi := h.inv hn
  obtain ⟨c1, h1, _, _⟩ := run_eq_pure m p hi.1 (by omega)
  obtain ⟨c2, h2, _, _⟩ := run_eq_pure m p (inv_new m n) (show 0 < (new n : Cache K V).maxSize from hn)
  simp [h1, h2]

/-- A run leaves the cache in a reachable state, so resolutions compose. -/
theorem run_reachable {R : Type} (m : Memo K V ρ) {n : Nat} : ∀ (p : Prog K ρ R) {c c' : Cache K V} {r : R},
    Reachable m n c → p.run m c = some (r, c') → Reachable m n c'
  | .done _, c, c', r, h, hr => by simp [Prog.run] at hr; rw [← hr.2]; exact h
  | .call k cont, c, c', r, h, hr => by
      simp only [Prog.run] at hr
      split at hr
      · cases hr
      · rename_i r1 c1 hg
        exact run_reachable m (cont r1) (Reachable.call h hg) hr

/-! ### Threads sharing a cache -/

theorem stepThread_spec {R : Type} (m : Memo K V ρ) {c : Cache K V} (h : Inv m c) (hpos : 0 < c.maxSize)
    (p : Prog K ρ R) : ∃ c' p', stepThread m c p = some (c', p') ∧ Inv m c' ∧ c'.maxSize = c.maxSize ∧
      p'.pure m = p.pure m := by
  cases p with
  | done r => exact ⟨c, .done r, rfl, h, rfl, rfl⟩
  | call k cont =>
    obtain ⟨c1, h1, hi1, hm1⟩ := getOrCompute_spec m h hpos k
    exact ⟨c1, cont (m.result k), by simp [stepThread, h1], hi1, hm1, rfl⟩

/-- Under **every** schedule no thread's eventual result changes: the cache-free result of
each thread's remaining program is an invariant of the run. -/
theorem sched_pure_invariant {R : Type} (m : Memo K V ρ) : ∀ (s : List Nat) {c : Cache K V} (ps : List (Prog K ρ R)),
    Inv m c → 0 < c.maxSize →
    ∃ c' ps', runSched m c ps s = some (c', ps') ∧ Inv m c' ∧ c'.maxSize = c.maxSize ∧
      ps'.map (Prog.pure m) = ps.map (Prog.pure m)
  | [], c, ps, h, _ => ⟨c, ps, rfl, h, rfl, rfl⟩
  | i :: s, c, ps, h, hpos => by
      unfold runSched
      cases hi : ps[i]? with
      | none => simpa using sched_pure_invariant m s ps h hpos
      | some p =>
        obtain ⟨c1, p1, h1, hi1, hm1, hp1⟩ := stepThread_spec m h hpos p
        obtain ⟨c2, ps2, h2, hi2, hm2, hp2⟩ := sched_pure_invariant m s (ps.set i p1) hi1 (by omega)
        refine ⟨c2, ps2, by simp [h1, h2], hi2, by omega, ?_⟩
        rw [hp2, List.map_set, hp1]
        have hlt : i < ps.length := by
          rcases Nat.lt_or_ge i ps.length with hlt | hge
          · exact hlt
          · rw [List.getElem?_eq_none hge] at hi; cases hi
        have hpi : ps[i] = p := by
          rw [List.getElem?_eq_getElem hlt] at hi; exact Option.some.inj hi
        apply List.ext_getElem
        · simp
        · intro j h1 h2
          by_cases hij : i = j
          · subst hij; simp [hpi]
          · simp [hij]

/-- **Schedule independence with a shared cache**: if after any schedule thread `i` has
finished with `r`, then `r` is the result of its solo, cache-free run. -/
theorem sched_results_pure {R : Type} (m : Memo K V ρ) (s : List Nat) {c : Cache K V} (ps : List (Prog K ρ R))
    (h : Inv m c) (hpos : 0 < c.maxSize) {c' : Cache K V} {ps' : List (Prog K ρ R)}
    (hr : runSched m c ps s = some (c', ps')) (i : Nat) (r : R) (hd : ps'[i]? = some (.done r)) :
    (ps[i]?).map (Prog.pure m) = some r := by
  obtain ⟨c2, ps2, h2, _, _, hp⟩ := sched_pure_invariant m s ps h hpos
  rw [h2] at hr; cases hr
  have : (ps'.map (Prog.pure m))[i]? = (ps.map (Prog.pure m))[i]? := by rw [hp]
  simp only [List.getElem?_map, hd, Option.map_some] at this
  rw [← this]; rfl

/-! ### Structural invariant: distinct keys, bounded size -/

/-- keys pairwise distinct and at most `maxSize` entries -/
def WF (c : Cache K V) : Prop := (c.entries.map Prod.fst).Nodup ∧ c.entries.length ≤ c.maxSize

theorem lookup_none_not_mem {k : K} : ∀ {l : List (K × V)}, lookup k l = none → k ∉ l.map Prod.fst
  | [], _ => by simp
  | (k', v') :: l, h => by
      unfold lookup at h
      split at h
      · cases h
      · rename_i hk
        simp only [map_cons, mem_cons, not_or]
        exact ⟨fun e => hk e.symm, lookup_none_not_mem h⟩

theorem erase_keys_sub {k k0 : K} : ∀ {l : List (K × V)}, k0 ∈ (erase k l).map Prod.fst → k0 ∈ l.map Prod.fst
  | [], h => by simp [erase] at h
  | (k', v') :: l, h => by
      unfold erase at h
      split at h
      · simp only [map_cons, mem_cons]; exact Or.inr h
      · simp only [map_cons, mem_cons] at h ⊢
        rcases h with h | h
        · exact Or.inl h
        · exact Or.inr (erase_keys_sub h)

theorem erase_nodup {k : K} : ∀ {l : List (K × V)}, (l.map Prod.fst).Nodup →
    ((erase k l).map Prod.fst).Nodup ∧ k ∉ (erase k l).map Prod.fst
  | [], _ => by simp [erase]
  | (k', v') :: l, h => by
      simp only [map_cons, nodup_cons] at h
      unfold erase
      split
      · rename_i hk; subst hk; exact ⟨h.2, h.1⟩
      · rename_i hk
        have ih := erase_nodup (k := k) h.2
        simp only [map_cons, nodup_cons, mem_cons, not_or]
        exact ⟨⟨fun hm => h.1 (erase_keys_sub hm), ih.1⟩, fun e => hk e.symm, ih.2⟩

theorem erase_length {k : K} {v : V} : ∀ {l : List (K × V)}, lookup k l = some v → (erase k l).length + 1 = l.length
  | [], h => by simp [lookup] at h
  | (k', v') :: l, h => by
      unfold lookup at h
      unfold erase
      split at h
      · rename_i hk; simp [hk]
      · rename_i hk; simp [hk, erase_length h]

theorem dropLast_keys_nodup {α β : Type} : ∀ {l : List (α × β)}, (l.map Prod.fst).Nodup → (l.dropLast.map Prod.fst).Nodup := by
  intro l h
  have : l.dropLast.map Prod.fst = (l.map Prod.fst).dropLast := by simp [List.map_dropLast]
  rw [this]
  exact h.sublist (List.dropLast_sublist _)

theorem get_wf {c : Cache K V} (h : WF c) (k : K) : WF (get c k).2 := by
  unfold get
  split
  · exact h
  · rename_i v hv
    have he := erase_nodup (k := k) h.1
    refine ⟨?_, ?_⟩
    · simp only [map_cons, nodup_cons]; exact ⟨he.2, he.1⟩
    · have := erase_length hv; simp only [length_cons]; have := h.2; omega

theorem add_wf {c c' : Cache K V} (h : WF c) {k : K} {v : V} (ha : add c k v = some c') : WF c' := by
  unfold add at ha
  split at ha
  · rename_i v0 hv
    cases ha
    have he := erase_nodup (k := k) h.1
    refine ⟨?_, ?_⟩
    · simp only [map_cons, nodup_cons]; exact ⟨he.2, he.1⟩
    · have := erase_length hv; simp only [length_cons]; have := h.2; omega
  · rename_i hv
    have hk := lookup_none_not_mem hv
    split at ha
    · rename_i hlt
      cases ha
      refine ⟨?_, ?_⟩
      · simp only [map_cons, nodup_cons]; exact ⟨hk, h.1⟩
      · simp only [length_cons]; omega
    · split at ha
      · cases ha
      · rename_i a l hl
        cases ha
        refine ⟨?_, ?_⟩
        · simp only [map_cons, nodup_cons]
          refine ⟨?_, dropLast_keys_nodup h.1⟩
          intro hm
          apply hk
          have : c.entries.dropLast.map Prod.fst = (c.entries.map Prod.fst).dropLast := by simp [List.map_dropLast]
          rw [this] at hm
          exact (List.dropLast_sublist _).subset hm
        · have := h.2
          simp only [length_cons, length_dropLast]
          rw [hl] at this ⊢
          simp only [length_cons] at this ⊢
          omega

theorem wf_new (n : Nat) : WF (new n : Cache K V) := by simp [WF, new]

/-! ### The three caches of the PyPI resolver -/

section Three
variable {KM VM RM KC VC RC KP VP RP : Type} [DecidableEq KM] [DecidableEq KC] [DecidableEq KP]

theorem run2_eq_pure {R : Type} (mm : Memo KM VM RM) (mc : Memo KC VC RC) :
    ∀ (p : Prog2 KM RM KC RC R) {cm : Cache KM VM} {cc : Cache KC VC},
    Inv mm cm → 0 < cm.maxSize → Inv mc cc → 0 < cc.maxSize →
    ∃ cm' cc', p.run mm mc cm cc = some (p.pure mm mc, cm', cc') ∧
      Inv mm cm' ∧ cm'.maxSize = cm.maxSize ∧ Inv mc cc' ∧ cc'.maxSize = cc.maxSize
  | .done r, cm, cc, hm, _, hc, _ => ⟨cm, cc, rfl, hm, rfl, hc, rfl⟩
  | .callM k cont, cm, cc, hm, hmp, hc, hcp => by
      obtain ⟨c1, h1, hi1, hs1⟩ := getOrCompute_spec mm hm hmp k
      obtain ⟨cm', cc', h2, a, b, c', d⟩ := run2_eq_pure mm mc (cont (mm.result k)) hi1 (by omega) hc hcp
      exact ⟨cm', cc', by simp [Prog2.run, Prog2.pure, h1, h2], a, by omega, c', d⟩
  | .callC k cont, cm, cc, hm, hmp, hc, hcp => by
      obtain ⟨c1, h1, hi1, hs1⟩ := getOrCompute_spec mc hc hcp k
      obtain ⟨cm', cc', h2, a, b, c', d⟩ := run2_eq_pure mm mc (cont (mc.result k)) hm hmp hi1 (by omega)
      exact ⟨cm', cc', by simp [Prog2.run, Prog2.pure, h1, h2], a, b, c', by omega⟩

/-- Invariant of the third cache: an entry is what the (cache-free) sub-computation stores. -/
def InvP (M : Memo3 KM VM RM KC VC RC KP VP RP) (c : Cache KP VP) : Prop :=
  ∀ k v, (k, v) ∈ c.entries → (M.resultP k).2 = some v

/-- The code returns the value it stores (`return getVersionKeys(mvs)` on both paths). -/
def LawP (M : Memo3 KM VM RM KC VC RC KP VP RP) : Prop :=
  ∀ k v, (M.resultP k).2 = some v → (M.resultP k).1 = M.ofHitP v

structure Inv3 (M : Memo3 KM VM RM KC VC RC KP VP RP) (s : Caches KM VM KC VC KP VP) : Prop where
  m : Inv M.mm s.m
  c : Inv M.mc s.c
  p : InvP M s.p
  mpos : 0 < s.m.maxSize
  cpos : 0 < s.c.maxSize
  ppos : 0 < s.p.maxSize

/-- The third cache seen as a plain memo of its pure function. -/
def Memo3.asMemoP (M : Memo3 KM VM RM KC VC RC KP VP RP) (law : LawP M) : Memo KP VP RP where
  result := fun k => (M.resultP k).1
  store := fun k => (M.resultP k).2
  ofHit := M.ofHitP
  law := law

/-- **PyPI resolver, cache view**: from any state of the three caches satisfying the
invariants, a resolution returns what it returns with no caches at all. -/
theorem run3_eq_pure {R : Type} (M : Memo3 KM VM RM KC VC RC KP VP RP) (law : LawP M) :
    ∀ (p : Prog3 KM RM KC RC KP RP R) {s : Caches KM VM KC VC KP VP}, Inv3 M s →
    ∃ s', p.run M s = some (p.pure M, s') ∧ Inv3 M s'
  | .done r, s, h => ⟨s, rfl, h⟩
  | .callM k cont, s, h => by
      obtain ⟨c1, h1, hi1, hs1⟩ := getOrCompute_spec M.mm h.m h.mpos k
      obtain ⟨s', h2, hi2⟩ := run3_eq_pure M law (cont (M.mm.result k)) (s := { s with m := c1 })
        ⟨hi1, h.c, h.p, (by show 0 < c1.maxSize; have := h.mpos; omega), h.cpos, h.ppos⟩
      exact ⟨s', by simp [Prog3.run, Prog3.pure, h1, h2], hi2⟩
  | .callC k cont, s, h => by
      obtain ⟨c1, h1, hi1, hs1⟩ := getOrCompute_spec M.mc h.c h.cpos k
      obtain ⟨s', h2, hi2⟩ := run3_eq_pure M law (cont (M.mc.result k)) (s := { s with c := c1 })
        ⟨h.m, hi1, h.p, h.mpos, (by show 0 < c1.maxSize; have := h.cpos; omega), h.ppos⟩
      exact ⟨s', by simp [Prog3.run, Prog3.pure, h1, h2], hi2⟩
  | .callP k cont, s, h => by
      have hInvP : Inv (M.asMemoP law) s.p := h.p
      have hg := get_inv hInvP k
      have hmx := get_maxSize s.p k
      simp only [Prog3.run, Prog3.pure]
      generalize hgc : get s.p k = g at hg hmx
      rcases g with ⟨o, cp1⟩
      have hmx' : cp1.maxSize = s.p.maxSize := hmx
      have hg' : Inv (M.asMemoP law) cp1 := hg
      have hpos1 : 0 < cp1.maxSize := by have := h.ppos; omega
      cases o with
      | some v =>
        have hst : (M.resultP k).2 = some v := get_hit hInvP (by rw [hgc])
        have hres : (M.resultP k).1 = M.ofHitP v := law k v hst
        obtain ⟨s', h2, hi2⟩ := run3_eq_pure M law (cont (M.resultP k).1) (s := { s with p := cp1 })
          ⟨h.m, h.c, hg', h.mpos, h.cpos, hpos1⟩
        exact ⟨s', by simp only; rw [← hres]; exact h2, hi2⟩
      | none =>
        simp only
        obtain ⟨cm', cc', hr2, a, b, c', d⟩ := run2_eq_pure M.mm M.mc (M.sub k) h.m h.mpos h.c h.cpos
        have hpure : (M.sub k).pure M.mm M.mc = M.resultP k := rfl
        have hmp : 0 < cm'.maxSize := by have := h.mpos; omega
        have hcp : 0 < cc'.maxSize := by have := h.cpos; omega
        rw [hr2, hpure]
        generalize hrp : M.resultP k = rp
        rcases rp with ⟨r, ov⟩
        cases ov with
        | none =>
          obtain ⟨s', h2, hi2⟩ := run3_eq_pure M law (cont r) (s := { m := cm', c := cc', p := cp1 })
            ⟨a, c', hg', hmp, hcp, hpos1⟩
          exact ⟨s', by simpa using h2, hi2⟩
        | some v =>
          obtain ⟨cp2, hc2⟩ := add_isSome cp1 k v hpos1
          have hst : (M.asMemoP law).store k = some v := by simp [Memo3.asMemoP, hrp]
          have hadd := add_inv (m := M.asMemoP law) hg' hst hc2
          have hpos2 : 0 < cp2.maxSize := by have := hadd.2; omega
          obtain ⟨s', h2, hi2⟩ := run3_eq_pure M law (cont r) (s := { m := cm', c := cc', p := cp2 })
            ⟨a, c', hadd.1, hmp, hcp, hpos2⟩
          exact ⟨s', by simp only [hc2]; simpa using h2, hi2⟩

end Three

end DepsDev.Resolve.Lru
