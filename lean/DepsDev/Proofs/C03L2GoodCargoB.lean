import DepsDev.Proofs.C03L2Good

/-!
# C03 layer L2: the span of one Cargo comparator is `Good` (operators: ge gt le lt)

See `C03L2Good`: for every operand shape of layer L1, whatever `opVersionToSpan` returns is a
well-formed span (`SpanOK`) whose release bounds are tidy.
-/
namespace DepsDev.Proofs.C03

open DepsDev DepsDev.Semver DepsDev.Ref DepsDev.Proofs.C09

set_option linter.unusedSimpArgs false

theorem good_cargo_ge : GoodCargo .ge := by good_cargo_all
theorem good_cargo_gt : GoodCargo .gt := by good_cargo_all
theorem good_cargo_le : GoodCargo .le := by good_cargo_all
theorem good_cargo_lt : GoodCargo .lt := by good_cargo_all

end DepsDev.Proofs.C03
