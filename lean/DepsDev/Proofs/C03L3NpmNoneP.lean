import DepsDev.Proofs.C03L3NpmNone

/-!
# C03 layer L3 for npm, operator `none`: operands with a prerelease tag; `L3Npm .none`
-/
namespace DepsDev.Proofs.C03

open DepsDev DepsDev.Semver DepsDev.Ref

set_option linter.unusedSimpArgs false
set_option linter.unusedVariables false

theorem l3_pre_lt_none : L3PreO .none .lt := by l3_pre
theorem l3_pre_eq_none : L3PreO .none .eq := by l3_pre
theorem l3_pre_gt_none : L3PreO .none .gt := by l3_pre

theorem l3_npm_none : L3Npm .none :=
  l3_assemble _ l3_full_none (l3_pre_assemble _ l3_pre_lt_none l3_pre_eq_none l3_pre_gt_none) l3_part_none

end DepsDev.Proofs.C03
