/-
Helper lemmas for C18/B1–B3: the loop invariants of `npmRequirements` and the
characterisation of the store after its single write.
-/
import DepsDev.Proofs.C18Flatten

namespace DepsDev.Proofs.C18
open DepsDev
open DepsDev.Model.Resolve.ApiClient

theorem lookup_cons_ite {β : Type} (k k' : Bytes) (v : β) (l : List (Bytes × β)) :
    List.lookup k ((k', v) :: l) = if k = k' then some v else List.lookup k l := by
  by_cases h : k = k'
  · subst h
    simp
  · have : (k == k') = false := by simpa using h
    simp [List.lookup_cons, this, h]

theorem mangledName_ne_name (root : VersionKey) (pkgs : List Bytes) : mangledName root pkgs ≠ root.name := by
  intro h
  have := congrArg List.length h
  simp [mangledName] at this

theorem mangledOf_ne_name (root : VersionKey) (b : Bundle) : mangledOf root b ≠ root.name :=
  mangledName_ne_name root _

theorem isNPMBundle_mangledName (root : VersionKey) (pkgs : List Bytes) :
    isNPMBundle (mangledName root pkgs) = true := by
  simp [isNPMBundle, mangledName]

theorem isNPMBundle_mangledOf (root : VersionKey) (b : Bundle) : isNPMBundle (mangledOf root b) = true :=
  isNPMBundle_mangledName root _

/-- the parent of a bundle is the bundler itself or another mangled name. -/
theorem parentNameOf_cases (root : VersionKey) (b : Bundle) :
    parentNameOf root b = root.name ∨ ∃ pkgs, parentNameOf root b = mangledName root pkgs := by
  unfold parentNameOf
  by_cases h : (pkgsOf b.path).length - 1 > 0
  · exact Or.inr ⟨_, if_pos h⟩
  · exact Or.inl (if_neg h)

/-- the store after the write: the bundler's own key is untouched, every other key
of `allDeps` holds its current entry, the rest is unchanged. -/
theorem applyWrites_apply (rn : Bytes) (st : Store) (all : AllDeps) (k : Bytes) :
    applyWrites rn st all k =
      if k = rn then st k else
        match all.lookup k with
        | some acc => some (toEntry acc)
        | none => st k := by
  induction all with
  | nil => simp [applyWrites]
  | cons x rest ih =>
    obtain ⟨k', acc⟩ := x
    rw [lookup_cons_ite]
    unfold applyWrites
    by_cases hk' : k' = rn
    · simp only [hk', if_true]
      rw [ih]
      by_cases hk : k = rn
      · simp [hk]
      · simp [hk]
    · simp only [hk', if_false]
      by_cases hkk : k = k'
      · subst hkk
        simp [Store.insert, hk']
      · simp only [Store.insert, hkk, if_false]
        rw [ih]

/-! ### Invariant A: which entries `allDeps` holds (no hypothesis on the response) -/

structure InvA (root : VersionKey) (D : Bundle → Prop) (all : AllDeps) : Prop where
  entries : ∀ k acc, all.lookup k = some acc →
    k = root.name ∨ ∃ b, D b ∧ mangledOf root b = k ∧
      acc.vk = ⟨k, .concrete, b.version⟩ ∧ acc.originalName = b.name
  present : ∀ b, D b → ∃ acc, all.lookup (mangledOf root b) = some acc
  rootPresent : ∃ acc, all.lookup root.name = some acc

theorem stepBundle_invA {root : VersionKey} {D : Bundle → Prop} {all all' : AllDeps} {b : Bundle}
    (h : stepBundle root all b = some all') (inv : InvA root D all) :
    InvA root (fun x => x = b ∨ D x) all' := by
  unfold stepBundle at h
  simp only at h
  -- entries of the intermediate map
  have E1 : ∀ k acc, List.lookup k ((mangledOf root b,
      (⟨⟨mangledOf root b, .concrete, b.version⟩, b.name, flattenNPMDeps b.dependencies⟩ : BundleAcc)) :: all) = some acc →
      k = root.name ∨ ∃ x, (x = b ∨ D x) ∧ mangledOf root x = k ∧
        acc.vk = ⟨k, .concrete, x.version⟩ ∧ acc.originalName = x.name := by
    intro k acc hl
    rw [lookup_cons_ite] at hl
    by_cases hk : k = mangledOf root b
    · simp only [hk, if_true, Option.some.injEq] at hl
      subst hl
      exact Or.inr ⟨b, Or.inl rfl, hk.symm, by simp [hk], rfl⟩
    · simp only [hk, if_false] at hl
      rcases inv.entries k acc hl with h1 | ⟨x, hx, h2, h3, h4⟩
      · exact Or.inl h1
      · exact Or.inr ⟨x, Or.inr hx, h2, h3, h4⟩
  cases hp : List.lookup (parentNameOf root b) ((mangledOf root b,
      (⟨⟨mangledOf root b, .concrete, b.version⟩, b.name, flattenNPMDeps b.dependencies⟩ : BundleAcc)) :: all) with
  | none => rw [hp] at h; cases h
  | some pb =>
    rw [hp] at h
    simp only [Option.some.injEq] at h
    subst h
    refine ⟨?_, ?_, ?_⟩
    · intro k acc hl
      rw [lookup_cons_ite] at hl
      by_cases hk : k = parentNameOf root b
      · simp only [hk, if_true, Option.some.injEq] at hl
        subst hl
        rcases E1 _ pb hp with h1 | ⟨x, hx, h2, h3, h4⟩
        · exact Or.inl (hk.trans h1)
        · exact Or.inr ⟨x, hx, h2.trans hk.symm, by simpa [hk] using h3, h4⟩
      · simp only [hk, if_false] at hl
        exact E1 k acc hl
    · intro x hx
      rw [lookup_cons_ite]
      by_cases hk : mangledOf root x = parentNameOf root b
      · exact ⟨_, if_pos hk⟩
      · simp only [hk, if_false]
        rw [lookup_cons_ite]
        by_cases hm : mangledOf root x = mangledOf root b
        · exact ⟨_, if_pos hm⟩
        · simp only [hm, if_false]
          rcases hx with rfl | hx
          · exact absurd rfl hm
          · exact inv.present x hx
    · rw [lookup_cons_ite]
      by_cases hk : root.name = parentNameOf root b
      · exact ⟨_, if_pos hk⟩
      · simp only [hk, if_false]
        rw [lookup_cons_ite]
        have : root.name ≠ mangledOf root b := fun e => mangledOf_ne_name root b e.symm
        simp only [this, if_false]
        exact inv.rootPresent

theorem processBundles_invA {root : VersionKey} : ∀ {bs : List Bundle} {D : Bundle → Prop} {all all' : AllDeps},
    processBundles root all bs = some all' → InvA root D all →
    InvA root (fun x => x ∈ bs ∨ D x) all'
  | [], D, all, all', h, inv => by
    simp only [processBundles, Option.some.injEq] at h
    subst h
    exact ⟨fun k acc hl => by
        rcases inv.entries k acc hl with h1 | ⟨x, hx, r⟩
        · exact Or.inl h1
        · exact Or.inr ⟨x, Or.inr hx, r⟩,
      fun b hb => by
        rcases hb with hb | hb
        · cases hb
        · exact inv.present b hb,
      inv.rootPresent⟩
  | b :: bs, D, all, all', h, inv => by
    unfold processBundles at h
    cases hs : stepBundle root all b with
    | none => rw [hs] at h; cases h
    | some all1 =>
      rw [hs] at h
      have i1 := stepBundle_invA hs inv
      have i2 := processBundles_invA h i1
      refine ⟨fun k acc hl => ?_, fun x hx => ?_, i2.rootPresent⟩
      · rcases i2.entries k acc hl with h1 | ⟨x, hx, r⟩
        · exact Or.inl h1
        · refine Or.inr ⟨x, ?_, r⟩
          rcases hx with hx | hx | hx
          · exact Or.inl (List.mem_cons_of_mem _ hx)
          · exact Or.inl (by simp [hx])
          · exact Or.inr hx
      · apply i2.present
        rcases hx with hx | hx
        · rcases List.mem_cons.mp hx with rfl | hx
          · exact Or.inr (Or.inl rfl)
          · exact Or.inl hx
        · exact Or.inr (Or.inr hx)

/-! ### Invariant B: the bundling parent keeps its requirement (needs distinct mangled names) -/

def ParentInv (root : VersionKey) (D : Bundle → Prop) (all : AllDeps) : Prop :=
  ∀ b, D b → ∃ pacc, all.lookup (parentNameOf root b) = some pacc ∧ bundleReq root b ∈ pacc.deps

theorem stepBundle_parentInv {root : VersionKey} {D : Bundle → Prop} {all all' : AllDeps} {b : Bundle}
    (h : stepBundle root all b = some all') (inv : InvA root D all)
    (hfresh : ∀ x, D x → mangledOf root x ≠ mangledOf root b)
    (pinv : ParentInv root D all) :
    ParentInv root (fun x => x = b ∨ D x) all' := by
  unfold stepBundle at h
  simp only at h
  cases hp : List.lookup (parentNameOf root b) ((mangledOf root b,
      (⟨⟨mangledOf root b, .concrete, b.version⟩, b.name, flattenNPMDeps b.dependencies⟩ : BundleAcc)) :: all) with
  | none => rw [hp] at h; cases h
  | some pb =>
    rw [hp] at h
    simp only [Option.some.injEq] at h
    subst h
    intro x hx
    rcases hx with rfl | hx
    · exact ⟨_, by rw [lookup_cons_ite]; exact if_pos rfl, by simp⟩
    · obtain ⟨pacc, hl, hmem⟩ := pinv x hx
      -- the parent's key is not the key just (re)written
      have hne : parentNameOf root x ≠ mangledOf root b := by
        intro e
        rcases inv.entries _ _ hl with h1 | ⟨y, hy, h2, _⟩
        · exact mangledOf_ne_name root b (e.symm.trans h1)
        · exact hfresh y hy (h2.trans e)
      have hl1 : List.lookup (parentNameOf root x) ((mangledOf root b,
          (⟨⟨mangledOf root b, .concrete, b.version⟩, b.name, flattenNPMDeps b.dependencies⟩ : BundleAcc)) :: all) = some pacc := by
        rw [lookup_cons_ite]; simp [hne, hl]
      rw [lookup_cons_ite]
      by_cases hk : parentNameOf root x = parentNameOf root b
      · refine ⟨_, if_pos hk, ?_⟩
        have : pb = pacc := by
          rw [hk] at hl1
          rw [hl1] at hp
          exact (Option.some.inj hp).symm
        subst this
        simp [hmem]
      · exact ⟨pacc, by simp [hk, hl1], hmem⟩

theorem processBundles_parentInv {root : VersionKey} : ∀ {bs : List Bundle} {D : Bundle → Prop} {all all' : AllDeps},
    processBundles root all bs = some all' → InvA root D all →
    (bs.map (mangledOf root)).Nodup →
    (∀ b, b ∈ bs → ∀ x, D x → mangledOf root x ≠ mangledOf root b) →
    ParentInv root D all →
    ParentInv root (fun x => x ∈ bs ∨ D x) all'
  | [], D, all, all', h, _, _, _, pinv => by
    simp only [processBundles, Option.some.injEq] at h
    subst h
    intro b hb
    rcases hb with hb | hb
    · cases hb
    · exact pinv b hb
  | b :: bs, D, all, all', h, inv, hnd, hfresh, pinv => by
    unfold processBundles at h
    cases hs : stepBundle root all b with
    | none => rw [hs] at h; cases h
    | some all1 =>
      rw [hs] at h
      have i1 := stepBundle_invA hs inv
      have p1 := stepBundle_parentInv hs inv (hfresh b (by simp)) pinv
      simp only [List.map_cons, List.nodup_cons, List.mem_map, not_exists, not_and] at hnd
      have p2 := processBundles_parentInv h i1 hnd.2
        (by
          intro y hy x hx
          rcases hx with rfl | hx
          · exact fun e => hnd.1 y hy e.symm
          · exact hfresh y (List.mem_cons_of_mem _ hy) x hx)
        p1
      intro x hx
      apply p2
      rcases hx with hx | hx
      · rcases List.mem_cons.mp hx with rfl | hx
        · exact Or.inr (Or.inl rfl)
        · exact Or.inl hx
      · exact Or.inr (Or.inr hx)

theorem inj_of_nodup_map {α β : Type} (f : α → β) : ∀ {l : List α}, (l.map f).Nodup →
    ∀ {a b}, a ∈ l → b ∈ l → f a = f b → a = b
  | [], _, _, _, ha, _, _ => by cases ha
  | x :: l, h, a, b, ha, hb, e => by
    simp only [List.map_cons, List.nodup_cons, List.mem_map, not_exists, not_and] at h
    rcases List.mem_cons.mp ha with hax | hal
    · rcases List.mem_cons.mp hb with hbx | hbl
      · exact hax.trans hbx.symm
      · exact absurd (e.symm.trans (congrArg f hax)) (h.1 b hbl)
    · rcases List.mem_cons.mp hb with hbx | hbl
      · exact absurd (e.trans (congrArg f hbx)) (h.1 a hal)
      · exact inj_of_nodup_map f h.2 hal hbl e

/-! ### What `buildAllDeps` returns -/

theorem invA_init (root : VersionKey) (acc : BundleAcc) : InvA root (fun _ => False) [(root.name, acc)] :=
  ⟨fun k a hl => by
      rw [lookup_cons_ite] at hl
      by_cases hk : k = root.name
      · exact Or.inl hk
      · simp [hk] at hl,
    fun _ hb => hb.elim,
    ⟨acc, by rw [lookup_cons_ite]; exact if_pos rfl⟩⟩

theorem buildAllDeps_invA {root : VersionKey} {reqs : NpmReqs} {all : AllDeps}
    (h : buildAllDeps root reqs = some all) : InvA root (fun x => x ∈ reqs.bundled) all := by
  have i := processBundles_invA h (invA_init root _)
  refine ⟨fun k acc hl => ?_, fun b hb => ?_, i.rootPresent⟩
  · rcases i.entries k acc hl with h1 | ⟨x, hx, r⟩
    · exact Or.inl h1
    · rcases hx with hx | hx
      · exact Or.inr ⟨x, by simpa [sortBundled, mem_stableSort] using hx, r⟩
      · exact hx.elim
  · exact i.present b (Or.inl (by simpa [sortBundled, mem_stableSort] using hb))

/-- the responses on which B1/B2 are exact: no two bundle entries share a mangled name
(distinct installation paths of well-formed names have distinct mangled names). -/
def KeysNodup (root : VersionKey) (reqs : NpmReqs) : Prop := (reqs.bundled.map (mangledOf root)).Nodup

theorem sortBundled_keysNodup {root : VersionKey} {reqs : NpmReqs} (h : KeysNodup root reqs) :
    ((sortBundled reqs.bundled).map (mangledOf root)).Nodup :=
  (List.Perm.map _ (stableSort_perm _ _)).nodup_iff.mpr h

theorem buildAllDeps_parentInv {root : VersionKey} {reqs : NpmReqs} {all : AllDeps}
    (h : buildAllDeps root reqs = some all) (hnd : KeysNodup root reqs) :
    ParentInv root (fun x => x ∈ reqs.bundled) all := by
  have p := processBundles_parentInv h (invA_init root _) (sortBundled_keysNodup hnd)
    (fun _ _ _ hx => hx.elim) (fun _ hb => hb.elim)
  intro b hb
  exact p b (Or.inl (by simpa [sortBundled, mem_stableSort] using hb))

/-- B1 on `allDeps`, any response: every listed bundle has an entry under its mangled
name, Concrete, whose version and origin are those of a listed bundle with that
mangled name. -/
theorem buildAllDeps_entry {root : VersionKey} {reqs : NpmReqs} {all : AllDeps}
    (h : buildAllDeps root reqs = some all) {b : Bundle} (hb : b ∈ reqs.bundled) :
    ∃ acc b', all.lookup (mangledOf root b) = some acc ∧ b' ∈ reqs.bundled ∧
      mangledOf root b' = mangledOf root b ∧
      acc.vk = ⟨mangledOf root b, .concrete, b'.version⟩ ∧ acc.originalName = b'.name := by
  have i := buildAllDeps_invA h
  obtain ⟨acc, hl⟩ := i.present b hb
  rcases i.entries _ _ hl with h1 | ⟨b', hb', h2, h3, h4⟩
  · exact absurd h1 (mangledOf_ne_name root b)
  · exact ⟨acc, b', hl, hb', h2, h3, h4⟩

/-- B1 on `allDeps` for distinct mangled names: the entry is the bundle's own. -/
theorem buildAllDeps_entry_own {root : VersionKey} {reqs : NpmReqs} {all : AllDeps}
    (h : buildAllDeps root reqs = some all) (hnd : KeysNodup root reqs) {b : Bundle} (hb : b ∈ reqs.bundled) :
    ∃ acc, all.lookup (mangledOf root b) = some acc ∧
      acc.vk = ⟨mangledOf root b, .concrete, b.version⟩ ∧ acc.originalName = b.name := by
  obtain ⟨acc, b', hl, hb', h2, h3, h4⟩ := buildAllDeps_entry h hb
  have : b' = b := inj_of_nodup_map (mangledOf root) hnd hb' hb h2
  subst this
  exact ⟨acc, hl, h3, h4⟩

end DepsDev.Proofs.C18
