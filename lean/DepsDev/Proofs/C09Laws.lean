import DepsDev.Proofs.C09Match
import DepsDev.Proofs.C09NewSpan

/-!
# C09 — `Union` and `Intersect` on well-formed sets, in terms of interval membership
-/
namespace DepsDev.Proofs.C09

open Std DepsDev DepsDev.Semver DepsDev.Proofs

variable {s : System}

/-- A set as `ParseConstraint`, `Union` and `Intersect` produce it for a generic system: at
least one span (a set with no span at all would match every release), all spans well-formed. -/
structure SetOK (s : System) (S : VSet) : Prop where
  nonempty : S.span ≠ []
  spans : ∀ x ∈ S.span, SpanOK s x

theorem bounds_mem_congr {l l' : List Span} (h : ∀ y, y ∈ l ↔ y ∈ l') (x : Version) :
    x ∈ bounds l ↔ x ∈ bounds l' := by
  unfold bounds
  simp only [List.mem_flatMap]
  constructor
  · rintro ⟨sp, hsp, hx⟩; exact ⟨sp, (h sp).mp hsp, hx⟩
  · rintro ⟨sp, hsp, hx⟩; exact ⟨sp, (h sp).mpr hsp, hx⟩

theorem SeamFree.mono {P Q : Version → Prop} (h : ∀ x, Q x → P x) {v : Version} (hv : SeamFree s P v) :
    SeamFree s Q v :=
  fun a b ha hb => hv a b (h a ha) (h b hb)

/-- `Union`: succeeds, stays in the domain, result sorted by `min`, no new bounds, and denotes
the union for every candidate outside the successor seams of the operands' bounds. -/
theorem union_core (hs : s ≠ .maven) {A B : VSet} (hA : SetOK s A) (hB : SetOK s B) :
    ∃ U, A.union B = .ok U ∧ SetOK s U ∧ MinSorted s U.span ∧
      (∀ x ∈ bounds U.span, x ∈ bounds (A.span ++ B.span)) ∧
      ∀ v, SeamFree s (· ∈ bounds (A.span ++ B.span)) v →
        anyHas s U.span v = (anyHas s A.span v || anyHas s B.span v) := by
  have hok : ∀ x ∈ A.span ++ B.span, SpanOK s x ∧ AllB (· ∈ bounds (A.span ++ B.span)) x := by
    intro x hx
    refine ⟨?_, allB_bounds hx⟩
    rcases List.mem_append.mp hx with h | h
    · exact hA.spans x h
    · exact hB.spans x h
  obtain ⟨r, e, h1, h2, h3, h4⟩ := canonSpans_spec (· ∈ bounds (A.span ++ B.span)) hs (A.span ++ B.span) hok
  refine ⟨{ A with span := r }, by unfold VSet.union; rw [e]; rfl, ⟨?_, fun x hx => (h1 x hx).1⟩, h3, ?_, ?_⟩
  · apply h2
    intro h
    exact hA.nonempty (List.append_eq_nil_iff.mp h).1
  · exact bounds_of_allB (fun sp hsp => (h1 sp hsp).2)
  · intro v hv
    rw [h4 v (Or.inr hv), anyHas_append]

/-- `Intersect` (second operand sorted by `min`): succeeds, stays in the domain, result sorted,
no new bounds, and denotes the intersection for every candidate outside the successor seams of
the operands' bounds — and for every candidate at all when both operands have a single span. -/
theorem intersect_core (hs : s ≠ .maven) {A B : VSet} (hA : SetOK s A) (hB : SetOK s B)
    (hsorted : MinSorted s B.span) :
    ∃ R, A.intersect B = .ok R ∧ SetOK s R ∧ MinSorted s R.span ∧
      (∀ x ∈ bounds R.span, x ∈ bounds (A.span ++ B.span)) ∧
      ∀ v, (A.span.length * B.span.length ≤ 1 ∨ SeamFree s (· ∈ bounds (A.span ++ B.span)) v) →
        anyHas s R.span v = (anyHas s A.span v && anyHas s B.span v) := by
  obtain ⟨out, hne, hout, hlen, hv, e⟩ := intersect_eq (· ∈ bounds (A.span ++ B.span)) A B hA.spans hB.spans
    (fun x hx => allB_bounds (List.mem_append_left _ hx))
    (fun x hx => allB_bounds (List.mem_append_right _ hx)) hsorted
  obtain ⟨r, e', h1, h2, h3, h4⟩ := canonSpans_spec (· ∈ bounds (A.span ++ B.span)) hs out hout
  refine ⟨{ A with span := r }, by rw [e, e']; rfl, ⟨h2 hne, fun x hx => (h1 x hx).1⟩, h3, ?_, ?_⟩
  · exact bounds_of_allB (fun sp hsp => (h1 sp hsp).2)
  · intro v hseam
    rw [h4 v (hseam.imp hlen id), hv v]

/-! ### decidable checks of the domain predicates (for concrete instances) -/

def spanOKb (s : System) (sp : Span) : Bool :=
  match sp.rank, sp.min, sp.max with
  | .empty, none, none => true
  | .unit, some a, some b => decide (a = b) && decide (VOK s a) && !sp.minOpen && !sp.maxOpen
  | .vector, some a, some b => decide (VOK s a) && decide (VOK s b) && ltB a b
  | _, _, _ => false

theorem spanOK_of_b {sp : Span} (h : spanOKb s sp = true) : SpanOK s sp := by
  unfold spanOKb at h
  unfold SpanOK
  split at h
  · rename_i h1 h2 h3; rw [h1]; exact ⟨h2, h3⟩
  · rename_i a b h1 h2 h3
    rw [h1]
    simp only [Bool.and_eq_true, decide_eq_true_eq, Bool.not_eq_eq_eq_not, Bool.not_true] at h
    obtain ⟨⟨⟨rfl, h5⟩, h6⟩, h7⟩ := h
    exact ⟨a, h2, h3, h5, h6, h7⟩
  · rename_i a b h1 h2 h3
    rw [h1]
    simp only [Bool.and_eq_true, decide_eq_true_eq] at h
    exact ⟨a, b, h2, h3, h.1.1, h.1.2, (ltB_iff h.1.1.1 h.1.2.1).mp h.2⟩
  · cases h

def setOKb (s : System) (S : VSet) : Bool := !S.span.isEmpty && S.span.all (spanOKb s)

theorem setOK_of_b {S : VSet} (h : setOKb s S = true) : SetOK s S := by
  unfold setOKb at h
  rw [Bool.and_eq_true, List.all_eq_true] at h
  refine ⟨?_, fun x hx => spanOK_of_b (h.2 x hx)⟩
  intro hn
  rw [hn] at h
  simp at h

def minLeB (s : System) (x y : Span) : Bool :=
  match x.min, y.min with
  | some a, some c => x.rank == .empty || y.rank == .empty || (decide (VG s a) && decide (VG s c) && leB a c)
  | _, _ => true

theorem minSorted_of_b {l : List Span} (h : l.Pairwise (fun x y => minLeB s x y = true)) : MinSorted s l := by
  unfold MinSorted
  apply List.Pairwise.imp _ h
  intro x y hxy a c hx hy ha hc
  unfold minLeB at hxy
  rw [ha, hc] at hxy
  simp only [Bool.or_eq_true, beq_iff_eq, Bool.and_eq_true, decide_eq_true_eq] at hxy
  rcases hxy with (h | h) | h
  · exact absurd h hx
  · exact absurd h hy
  · exact (leB_iff h.1.1 h.1.2).mp h.2

end DepsDev.Proofs.C09
