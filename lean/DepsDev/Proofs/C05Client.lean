import DepsDev.Model.Resolve.PurityClient
import DepsDev.Proofs.C05Sort

/-!
# C05 (c): what the LocalClient reports does not depend on the order of the `AddVersion` calls

Hypotheses, stated once (`SortCanon`): the version sort returns a permutation of its input and,
on lists whose version strings are pairwise distinct, the same list for every permutation of
the input. `sortCanon_of_spec` derives this from "returns a sorted permutation" + "the
comparator decides every two distinct elements" via `sorted_perm_unique`; `SortCanon.comp`
shows it survives a post-pass that depends only on the sorted list (npm moves the version
tagged `latest` to the end).

Under U1 (no (package, version) pair added twice) `Versions` of a package is exactly
`sortV` of the set of its live added versions (`versions_eq`), whatever the order.
-/

namespace DepsDev.Resolve.Purity

open List

set_option linter.unusedSectionVars false

variable {P K A D : Type} [DecidableEq P] [DecidableEq K]

/-- What order independence needs of `SortVersions`. -/
structure SortCanon (sortV : List (Ver K A) → List (Ver K A)) : Prop where
  perm : ∀ l, (sortV l).Perm l
  canon : ∀ l l', (l.map Ver.key).Nodup → l.Perm l' → sortV l = sortV l'

/-- A routine that returns a sorted permutation, for a comparator that decides every two
versions with different version strings, is canonical. -/
theorem sortCanon_of_spec {lt : Ver K A → Ver K A → Bool} {dom : List (Ver K A) → Prop}
    {sortV : List (Ver K A) → List (Ver K A)} (hs : SortSpec lt dom sortV)
    (hdom : ∀ l, (l.map Ver.key).Nodup → dom l)
    (htot : ∀ a b : Ver K A, a.key ≠ b.key → lt a b = true ∨ lt b a = true) : SortCanon sortV where
  perm := hs.perm
  canon := by
    intro l l' hn p
    have hn' : (l'.map Ver.key).Nodup := (p.map Ver.key).nodup_iff.mp hn
    refine sort_perm_invariant hs p (hdom l hn) (hdom l' hn') ?_
    intro a ha b hb hab
    apply htot
    intro hk
    -- equal keys at two positions of a list with distinct keys: the same element
    apply hab
    clear p hn' htot hdom hs
    induction l with
    | nil => cases ha
    | cons x l ih =>
      simp only [map_cons, nodup_cons] at hn
      rcases mem_cons.mp ha with rfl | ha' <;> rcases mem_cons.mp hb with rfl | hb'
      · rfl
      · exact absurd (hk ▸ mem_map_of_mem (f := Ver.key) hb') hn.1
      · exact absurd (hk ▸ mem_map_of_mem (f := Ver.key) ha') hn.1
      · exact ih hn.2 ha' hb'

/-- A post-pass that only rearranges (npm: `latest` to the end) keeps canonicity. -/
theorem SortCanon.comp {sortV post : List (Ver K A) → List (Ver K A)} (h : SortCanon sortV)
    (hpost : ∀ l, (post l).Perm l) : SortCanon (post ∘ sortV) where
  perm := fun l => (hpost _).trans (h.perm l)
  canon := fun l l' hn p => by simp only [Function.comp]; rw [h.canon l l' hn p]

section
variable (deleted : A → Bool) (sortV : List (Ver K A) → List (Ver K A)) (sortD : List (P × D) → List (P × D))

def live (a : Add P K A D) : Bool := !deleted a.attrs
def verOf (a : Add P K A D) : Ver K A := ⟨a.key, a.attrs⟩
def keyOf (a : Add P K A D) : P × K := (a.pkg, a.key)

/-- the live versions added for package `pk`, in call order -/
def mine (pk : P) (adds : List (Add P K A D)) : List (Ver K A) :=
  (adds.filter fun a => live deleted a && decide (a.pkg = pk)).map verOf

/-- a live call that names `pk` as its package or among its dependencies -/
def mentions (pk : P) (a : Add P K A D) : Bool :=
  live deleted a && (decide (a.pkg = pk) || a.deps.any fun d => decide (d.1 = pk))

/-- **What `Versions pk` is**, as a function of the *set* of calls. -/
def versionsSpec (pk : P) (adds : List (Add P K A D)) : Option (List (Ver K A)) :=
  if (mine deleted pk adds).isEmpty then
    (if adds.any (mentions deleted pk) then some [] else none)
  else some (sortV (mine deleted pk adds))

/-- the effect of one call on `PackageVersions[pk]` -/
def pkgStep (pk : P) (o : Option (List (Ver K A))) (a : Add P K A D) : Option (List (Ver K A)) :=
  if deleted a.attrs then o
  else if a.pkg = pk then some (sortV (upsert (verOf a) (o.getD [])))
  else match o with
    | some x => some x
    | none => if (sortD a.deps).any (fun d => decide (d.1 = pk)) then some [] else none

/-- the effect of one call on `imports[vk]` -/
def impStep (vk : P × K) (o : Option (List (P × D))) (a : Add P K A D) : Option (List (P × D)) :=
  if deleted a.attrs then o else if vk = keyOf a then some (sortD a.deps) else o

end

theorem ensure_apply (f : P → Option (List (Ver K A))) (ds : List (P × D)) (pk : P) :
    ensure f ds pk = match f pk with
      | some x => some x
      | none => if ds.any (fun d => decide (d.1 = pk)) then some [] else none := by
  induction ds generalizing f with
  | nil => simp only [ensure, any_nil]; cases f pk <;> rfl
  | cons d ds ih =>
    simp only [ensure, any_cons]
    rw [ih]
    by_cases hd : (f d.1).isSome
    · simp only [hd, if_true]
      cases hf : f pk with
      | some x => rfl
      | none =>
        have hne : ¬ d.1 = pk := by intro e; rw [e, hf] at hd; cases hd
        have hdec : decide (d.1 = pk) = false := decide_eq_false hne
        simp only [hdec, Bool.false_or]
    · simp only [hd]
      have hfd : f d.1 = none := by
        cases h : f d.1 with
        | none => rfl
        | some x => rw [h] at hd; exact absurd rfl hd
      have hs : setFn f d.1 (some []) pk = if pk = d.1 then some [] else f pk := rfl
      simp only [Bool.false_eq_true, if_false]
      rw [hs]
      by_cases e : pk = d.1
      · have hfp : f pk = none := by rw [e]; exact hfd
        have hdec : decide (d.1 = pk) = true := decide_eq_true e.symm
        rw [if_pos e, hfp]
        simp only [hdec, Bool.true_or, if_true]
      · have hdec : decide (d.1 = pk) = false := decide_eq_false (fun h => e h.symm)
        rw [if_neg e]
        simp only [hdec, Bool.false_or]

theorem addVersion_versions (deleted : A → Bool) (sortV : List (Ver K A) → List (Ver K A))
    (sortD : List (P × D) → List (P × D)) (s : Store P K A D) (a : Add P K A D) (pk : P) :
    (addVersion deleted sortV sortD s a).versions pk = pkgStep deleted sortV sortD pk (s.versions pk) a := by
  unfold addVersion pkgStep
  by_cases hdel : deleted a.attrs = true
  · simp [hdel]
  · simp only [hdel, if_false, Bool.false_eq_true]
    rw [ensure_apply]
    by_cases e : a.pkg = pk
    · subst e; simp [setFn, verOf]
    · have e' : ¬ pk = a.pkg := fun h => e h.symm
      simp [setFn, e, e']

theorem addVersion_imports (deleted : A → Bool) (sortV : List (Ver K A) → List (Ver K A))
    (sortD : List (P × D) → List (P × D)) (s : Store P K A D) (a : Add P K A D) (vk : P × K) :
    (addVersion deleted sortV sortD s a).imports vk = impStep deleted sortD vk (s.imports vk) a := by
  unfold addVersion impStep
  by_cases hdel : deleted a.attrs = true
  · simp [hdel]
  · simp only [hdel, if_false, Bool.false_eq_true, setFn, keyOf]
    split <;> simp_all

theorem foldl_versions (deleted : A → Bool) (sortV : List (Ver K A) → List (Ver K A))
    (sortD : List (P × D) → List (P × D)) (pk : P) : ∀ (adds : List (Add P K A D)) (s : Store P K A D),
    (adds.foldl (addVersion deleted sortV sortD) s).versions pk =
      adds.foldl (pkgStep deleted sortV sortD pk) (s.versions pk)
  | [], _ => rfl
  | a :: l, s => by simp only [foldl_cons]; rw [foldl_versions deleted sortV sortD pk l, addVersion_versions]

theorem foldl_imports (deleted : A → Bool) (sortV : List (Ver K A) → List (Ver K A))
    (sortD : List (P × D) → List (P × D)) (vk : P × K) : ∀ (adds : List (Add P K A D)) (s : Store P K A D),
    (adds.foldl (addVersion deleted sortV sortD) s).imports vk =
      adds.foldl (impStep deleted sortD vk) (s.imports vk)
  | [], _ => rfl
  | a :: l, s => by simp only [foldl_cons]; rw [foldl_imports deleted sortV sortD vk l, addVersion_imports]

/-! ### versions -/

theorem replaceKey_fresh (v : Ver K A) : ∀ (l : List (Ver K A)), v.key ∉ l.map Ver.key → replaceKey v l = (l, false)
  | [], _ => rfl
  | w :: l, h => by
      simp only [map_cons, mem_cons, not_or] at h
      have hw : ¬ w.key = v.key := fun e => h.1 e.symm
      simp [replaceKey, hw, replaceKey_fresh v l h.2]

theorem upsert_fresh (v : Ver K A) (l : List (Ver K A)) (h : v.key ∉ l.map Ver.key) : upsert v l = l ++ [v] := by
  simp [upsert, replaceKey_fresh v l h]

theorem mem_mine (deleted : A → Bool) (pk : P) {adds : List (Add P K A D)} {v : Ver K A}
    (h : v ∈ mine deleted pk adds) : ∃ b, b ∈ adds ∧ b.pkg = pk ∧ verOf b = v := by
  simp only [mine, mem_map, mem_filter, Bool.and_eq_true, decide_eq_true_eq] at h
  obtain ⟨b, ⟨hb, _, hp⟩, hv⟩ := h
  exact ⟨b, hb, hp, hv⟩

/-- Under U1 the versions recorded for one package have pairwise distinct version strings. -/
theorem mine_keys_nodup (deleted : A → Bool) (pk : P) : ∀ (adds : List (Add P K A D)),
    (adds.map keyOf).Nodup → ((mine deleted pk adds).map Ver.key).Nodup
  | [], _ => by simp [mine]
  | a :: l, h => by
      simp only [map_cons, nodup_cons] at h
      have ih := mine_keys_nodup deleted pk l h.2
      unfold mine at ih ⊢
      simp only [filter_cons]
      split
      · rename_i hq
        simp only [Bool.and_eq_true, decide_eq_true_eq] at hq
        simp only [map_cons, nodup_cons]
        refine ⟨?_, ih⟩
        intro hm
        obtain ⟨v, hv, hkv⟩ := mem_map.mp hm
        obtain ⟨b, hb, hbp, hbv⟩ := mem_mine deleted pk (adds := l) hv
        apply h.1
        have : keyOf a = keyOf b := by
          simp only [keyOf, Prod.mk.injEq]
          refine ⟨by rw [hq.2, hbp], ?_⟩
          rw [← hbv] at hkv; simpa [verOf] using hkv.symm
        rw [this]; exact mem_map_of_mem hb
      · exact ih

theorem mine_append (deleted : A → Bool) (pk : P) (l₁ l₂ : List (Add P K A D)) :
    mine deleted pk (l₁ ++ l₂) = mine deleted pk l₁ ++ mine deleted pk l₂ := by
  simp [mine, filter_append]

/-- The invariant step: one more call takes the specification of the prefix to that of the
extended prefix. -/
theorem pkgStep_spec (deleted : A → Bool) {sortV : List (Ver K A) → List (Ver K A)}
    {sortD : List (P × D) → List (P × D)} (hV : SortCanon sortV) (hD : ∀ l, (sortD l).Perm l) (pk : P)
    (pre : List (Add P K A D)) (a : Add P K A D) (hk : ((pre ++ [a]).map keyOf).Nodup) :
    pkgStep deleted sortV sortD pk (versionsSpec deleted sortV pk pre) a =
      versionsSpec deleted sortV pk (pre ++ [a]) := by
  unfold pkgStep
  by_cases hdel : deleted a.attrs = true
  · -- a deleted version is not added at all
    have hm : mine deleted pk (pre ++ [a]) = mine deleted pk pre := by
      simp [mine, live, hdel]
    have hma : mentions deleted pk a = false := by simp [mentions, live, hdel]
    simp [hdel, versionsSpec, hm, any_append, hma]
  · have hlive : live deleted a = true := by simp [live, hdel]
    simp only [hdel, if_false, Bool.false_eq_true]
    by_cases e : a.pkg = pk
    · -- a version of this package: fresh key, appended, sorted
      simp only [e, if_true]
      have hm : mine deleted pk (pre ++ [a]) = mine deleted pk pre ++ [verOf a] := by
        simp [mine, hlive, e]
      have hnd := mine_keys_nodup deleted pk (pre ++ [a]) hk
      rw [hm] at hnd
      have hfresh : (verOf a).key ∉ (mine deleted pk pre).map Ver.key := by
        simp only [map_append, map_cons, map_nil] at hnd
        have := (nodup_append.mp hnd).2.2
        intro hin
        exact this _ hin _ (mem_singleton.mpr rfl) rfl
      have hne : (mine deleted pk pre ++ [verOf a]).isEmpty = false := by
        cases mine deleted pk pre <;> rfl
      simp only [versionsSpec, hm, hne, Bool.false_eq_true, if_false]
      congr 1
      by_cases hemp : (mine deleted pk pre).isEmpty = true
      · have hnil : mine deleted pk pre = [] := by
          cases h : mine deleted pk pre with
          | nil => rfl
          | cons x xs => rw [h] at hemp; cases hemp
        simp only [hnil, isEmpty_nil, if_true, nil_append]
        have hgd : ((if pre.any (mentions deleted pk) = true then some ([] : List (Ver K A)) else none).getD []) = [] := by
          split <;> rfl
        rw [hgd]
        rfl
      · simp only [hemp, Bool.false_eq_true, if_false, Option.getD_some]
        have hp := hV.perm (mine deleted pk pre)
        have hfresh' : (verOf a).key ∉ (sortV (mine deleted pk pre)).map Ver.key := by
          intro hin; exact hfresh ((hp.map Ver.key).mem_iff.mp hin)
        rw [upsert_fresh _ _ hfresh']
        apply hV.canon
        · exact ((hp.append_right [verOf a]).map Ver.key).nodup_iff.mpr hnd
        · exact hp.append_right _
    · -- another package: at most the "ensure the dependency's package exists" effect
      simp only [e, if_false]
      have hm : mine deleted pk (pre ++ [a]) = mine deleted pk pre := by
        simp [mine, e]
      have hany : (sortD a.deps).any (fun d => decide (d.1 = pk)) = a.deps.any (fun d => decide (d.1 = pk)) :=
        (hD a.deps).any_eq
      have hment : mentions deleted pk a = a.deps.any (fun d => decide (d.1 = pk)) := by
        simp [mentions, hlive, e]
      simp only [versionsSpec, hm, any_append, any_cons, any_nil, Bool.or_false, hment, hany]
      by_cases hemp : (mine deleted pk pre).isEmpty = true
      · simp only [hemp, if_true]
        by_cases hpre : pre.any (mentions deleted pk) = true
        · simp [hpre]
        · have hpre' : pre.any (mentions deleted pk) = false := by simpa using hpre
          simp only [hpre', Bool.false_or, Bool.false_eq_true, if_false]
      · simp [hemp]

theorem foldl_pkgStep_spec (deleted : A → Bool) {sortV : List (Ver K A) → List (Ver K A)}
    {sortD : List (P × D) → List (P × D)} (hV : SortCanon sortV) (hD : ∀ l, (sortD l).Perm l) (pk : P) :
    ∀ (rest pre : List (Add P K A D)), ((pre ++ rest).map keyOf).Nodup →
      rest.foldl (pkgStep deleted sortV sortD pk) (versionsSpec deleted sortV pk pre) =
        versionsSpec deleted sortV pk (pre ++ rest)
  | [], pre, _ => by simp
  | a :: rest, pre, hk => by
      have hk1 : ((pre ++ [a]).map keyOf).Nodup := by
        have : (pre ++ a :: rest) = (pre ++ [a]) ++ rest := by simp
        rw [this, map_append] at hk
        exact (nodup_append.mp hk).1
      simp only [foldl_cons]
      rw [pkgStep_spec deleted hV hD pk pre a hk1]
      have := foldl_pkgStep_spec deleted hV hD pk rest (pre ++ [a]) (by simpa using hk)
      simpa using this

/-- **`Versions` is a function of the set of calls.** -/
theorem versions_eq (deleted : A → Bool) {sortV : List (Ver K A) → List (Ver K A)}
    {sortD : List (P × D) → List (P × D)} (hV : SortCanon sortV) (hD : ∀ l, (sortD l).Perm l)
    (adds : List (Add P K A D)) (hk : (adds.map keyOf).Nodup) (pk : P) :
    (build deleted sortV sortD adds).Versions pk = versionsSpec deleted sortV pk adds := by
  unfold build Store.Versions
  rw [foldl_versions]
  have := foldl_pkgStep_spec deleted hV hD pk adds [] (by simpa using hk)
  simpa [versionsSpec, mine, Store.empty] using this

theorem versionsSpec_perm (deleted : A → Bool) {sortV : List (Ver K A) → List (Ver K A)} (hV : SortCanon sortV)
    {adds adds' : List (Add P K A D)} (p : adds.Perm adds') (hk : (adds.map keyOf).Nodup) (pk : P) :
    versionsSpec deleted sortV pk adds = versionsSpec deleted sortV pk adds' := by
  have pm : (mine deleted pk adds).Perm (mine deleted pk adds') := (p.filter _).map _
  have hemp : (mine deleted pk adds).isEmpty = (mine deleted pk adds').isEmpty := by
    have := pm.length_eq
    cases h1 : mine deleted pk adds <;> cases h2 : mine deleted pk adds' <;> simp_all
  unfold versionsSpec
  rw [hemp, p.any_eq, hV.canon _ _ (mine_keys_nodup deleted pk adds hk) pm]

/-! ### imports -/

def importsSpec (deleted : A → Bool) (sortD : List (P × D) → List (P × D)) (vk : P × K)
    (adds : List (Add P K A D)) : Option (List (P × D)) :=
  ((adds.filter fun a => live deleted a && decide (keyOf a = vk)).getLast?).map fun a => sortD a.deps

theorem foldl_impStep_spec (deleted : A → Bool) (sortD : List (P × D) → List (P × D)) (vk : P × K) :
    ∀ (rest pre : List (Add P K A D)),
      rest.foldl (impStep deleted sortD vk) (importsSpec deleted sortD vk pre) =
        importsSpec deleted sortD vk (pre ++ rest)
  | [], pre => by simp
  | a :: rest, pre => by
      have step : impStep deleted sortD vk (importsSpec deleted sortD vk pre) a =
          importsSpec deleted sortD vk (pre ++ [a]) := by
        unfold impStep importsSpec
        by_cases hdel : deleted a.attrs = true
        · simp [hdel, filter_append, live]
        · by_cases e : vk = keyOf a
          · have e' : keyOf a = vk := e.symm
            simp [hdel, filter_append, live, e', getLast?_append]
          · have e' : ¬ keyOf a = vk := fun h => e h.symm
            simp [hdel, filter_append, live, e, e']
      simp only [foldl_cons]
      rw [step]
      have := foldl_impStep_spec deleted sortD vk rest (pre ++ [a])
      simpa using this

theorem requirements_eq (deleted : A → Bool) (sortV : List (Ver K A) → List (Ver K A))
    (sortD : List (P × D) → List (P × D)) (adds : List (Add P K A D)) (vk : P × K) :
    (build deleted sortV sortD adds).Requirements vk = importsSpec deleted sortD vk adds := by
  unfold build Store.Requirements
  rw [foldl_imports]
  have := foldl_impStep_spec deleted sortD vk adds []
  simpa [importsSpec, Store.empty] using this

/-- Under U1 at most one call writes `imports[vk]`. -/
theorem filter_key_le_one (q : Add P K A D → Bool) (vk : P × K) (hq : ∀ a, q a = true → keyOf a = vk) :
    ∀ (l : List (Add P K A D)), (l.map keyOf).Nodup → (l.filter q).length ≤ 1
  | [], _ => by simp
  | a :: l, h => by
      simp only [map_cons, nodup_cons] at h
      have ih := filter_key_le_one q vk hq l h.2
      simp only [filter_cons]
      split
      · rename_i hqa
        have : l.filter q = [] := by
          apply filter_eq_nil_iff.mpr
          intro b hb hqb
          apply h.1
          rw [hq a hqa, ← hq b hqb]
          exact mem_map_of_mem hb
        simp [this]
      · exact ih

theorem importsSpec_perm (deleted : A → Bool) (sortD : List (P × D) → List (P × D))
    {adds adds' : List (Add P K A D)} (p : adds.Perm adds') (hk : (adds.map keyOf).Nodup) (vk : P × K) :
    importsSpec deleted sortD vk adds = importsSpec deleted sortD vk adds' := by
  unfold importsSpec
  have hq : ∀ a : Add P K A D, (live deleted a && decide (keyOf a = vk)) = true → keyOf a = vk := by
    intro a h; simp only [Bool.and_eq_true, decide_eq_true_eq] at h; exact h.2
  have hk' : (adds'.map keyOf).Nodup := (p.map keyOf).nodup_iff.mp hk
  have l1 := filter_key_le_one _ vk hq adds hk
  have l2 := filter_key_le_one _ vk hq adds' hk'
  have pf := p.filter (fun a => live deleted a && decide (keyOf a = vk))
  have : adds.filter (fun a => live deleted a && decide (keyOf a = vk)) =
      adds'.filter (fun a => live deleted a && decide (keyOf a = vk)) := by
    generalize adds.filter (fun a => live deleted a && decide (keyOf a = vk)) = x at *
    generalize adds'.filter (fun a => live deleted a && decide (keyOf a = vk)) = y at *
    match x, y, l1, l2, pf with
    | [], [], _, _, _ => rfl
    | [], _ :: _, _, _, pf => exact absurd pf.length_eq (by simp)
    | _ :: _, [], _, _, pf => exact absurd pf.length_eq (by simp)
    | [a], [b], _, _, pf => exact pf.singleton_eq
    | _ :: _ :: _, _, l1, _, _ => simp at l1
    | _, _ :: _ :: _, _, l2, _ => simp at l2
  rw [this]

end DepsDev.Resolve.Purity
