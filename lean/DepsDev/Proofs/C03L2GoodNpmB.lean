import DepsDev.Proofs.C03L2Good

/-!
# C03 layer L2: the span of one npm comparator is `Good` (operators: ge gt le lt)

See `C03L2Good`: for every operand shape of layer L1, whatever `opVersionToSpan` returns is a
well-formed span (`SpanOK`) whose release bounds are tidy.
-/
namespace DepsDev.Proofs.C03

open DepsDev DepsDev.Semver DepsDev.Ref DepsDev.Proofs.C09

set_option linter.unusedSimpArgs false

theorem good_npm_ge : GoodNpm .ge := by good_npm_all
theorem good_npm_gt : GoodNpm .gt := by good_npm_all
theorem good_npm_le : GoodNpm .le := by good_npm_all
theorem good_npm_lt : GoodNpm .lt := by good_npm_all

end DepsDev.Proofs.C03
