import DepsDev.Proofs.C07Step

/-! C07 helper lemmas: the base invariant `WF` of the breadth-first loop (the maps
`concreteVersions` and `nodes` point at graph nodes holding their version key, edges stay
inside the graph, every todo element is bound in `concreteVersions`) and the induction
principle `loop_inv_wf` that layers further invariants on top of it. -/

namespace DepsDev.Resolve.Maven
open DepsDev.Gen

def Graph.vkAt (g : Graph) (i : Nat) : Option VK := g.nodes[i]?.map (·.vk)

/-- `vkAt` only looks at the nodes -/
@[simp] theorem vkAt_edges_irrel (g : Graph) (es : List Edge) (i : Nat) :
    Graph.vkAt { nodes := g.nodes, edges := es } i = g.vkAt i := rfl

theorem vkAt_lt {g : Graph} {i : Nat} {v : VK} (h : g.vkAt i = some v) : i < g.nodes.length := by
  unfold Graph.vkAt at h
  cases hn : g.nodes[i]? with
  | none => simp [hn] at h
  | some n => exact (List.getElem?_eq_some_iff.mp hn).1

theorem vkAt_some_of_lt {g : Graph} {i : Nat} (h : i < g.nodes.length) : ∃ v, g.vkAt i = some v := by
  unfold Graph.vkAt
  simp [List.getElem?_eq_getElem h]

@[simp] theorem vkAt_addError (g : Graph) (n : Nat) (r : VK) (i : Nat) :
    (g.addError n r).vkAt i = g.vkAt i := by
  unfold Graph.vkAt Graph.addError
  simp only [List.getElem?_modify]
  by_cases h : n = i
  · subst h; cases g.nodes[n]? <;> simp
  · simp [h]

@[simp] theorem nodes_length_addError (g : Graph) (n : Nat) (r : VK) :
    (g.addError n r).nodes.length = g.nodes.length := by
  simp [Graph.addError]

@[simp] theorem edges_addError (g : Graph) (n : Nat) (r : VK) : (g.addError n r).edges = g.edges := rfl

theorem vkAt_addNode_old {g : Graph} {v w : VK} {i : Nat} (h : g.vkAt i = some w) :
    (g.addNode v).1.vkAt i = some w := by
  have hl := vkAt_lt h
  unfold Graph.vkAt Graph.addNode at *
  simp only
  rw [List.getElem?_append_left hl]
  exact h

@[simp] theorem vkAt_addNode_new (g : Graph) (v : VK) : (g.addNode v).1.vkAt g.nodes.length = some v := by
  unfold Graph.vkAt Graph.addNode
  simp

@[simp] theorem nodes_length_addNode (g : Graph) (v : VK) :
    (g.addNode v).1.nodes.length = g.nodes.length + 1 := by
  simp [Graph.addNode]

@[simp] theorem edges_addNode (g : Graph) (v : VK) : (g.addNode v).1.edges = g.edges := rfl

theorem addEdge_some {g g' : Graph} {a b : Nat} {r : Bytes} {t : DepType}
    (h : g.addEdge a b r t = some g') :
    a < g.nodes.length ∧ b < g.nodes.length ∧
      g' = { g with edges := g.edges ++ [{ src := a, dst := b, req := r, typ := t }] } := by
  unfold Graph.addEdge at h
  split at h
  · rename_i hc; cases h; exact ⟨hc.1, hc.2, rfl⟩
  · cases h

/-- lookup in an association list extended at the front -/
theorem lookup_cons_eq {α β : Type} [BEq α] [LawfulBEq α] [DecidableEq α] (k k' : α) (v : β) (l : List (α × β)) :
    List.lookup k' ((k, v) :: l) = if k' = k then some v else List.lookup k' l := by
  simp only [List.lookup_cons]
  by_cases h : k' = k
  · subst h; simp
  · have : (k' == k) = false := by simpa using h
    simp [this, h]

/-- The base invariant. -/
structure WF (root : VK) (s : State) : Prop where
  root0 : s.g.vkAt 0 = some root
  cvSound : ∀ k id, s.concreteVersions.lookup k = some id → s.g.vkAt id = some k.vk
  nodesSound : ∀ vk id, s.nodes.lookup vk = some id → s.g.vkAt id = some vk
  edgesIn : ∀ e ∈ s.g.edges, e.src < s.g.nodes.length ∧ e.dst < s.g.nodes.length
  todoBound : ∀ t ∈ s.todo, ∃ id, s.concreteVersions.lookup t.key = some id

theorem wf_init (root : VK) (reqs : ReqMap) : WF root (initState root reqs) := by
  refine ⟨rfl, ?_, ?_, ?_, ?_⟩
  · intro k id h
    simp only [initState, lookup_cons_eq, List.lookup_nil] at h
    split at h
    · rename_i hk; cases h; subst hk; rfl
    · cases h
  · intro vk id h
    simp only [initState, lookup_cons_eq, List.lookup_nil] at h
    split at h
    · rename_i hk; cases h; subst hk; rfl
    · cases h
  · intro e he; simp [initState] at he
  · intro t ht
    simp only [initState, List.mem_singleton] at ht
    subst ht
    exact ⟨0, by simp [initState, lookup_cons_eq]⟩

theorem curIdOf_eq {s : State} {cur : Todo} {id : Nat}
    (h : s.concreteVersions.lookup cur.key = some id) : curIdOf s cur = id := by
  simp [curIdOf, h]

/-- `WF` plus "cur is bound to curId": the invariant while cur's declarations are processed. -/
def WFJ (root : VK) (cur : Todo) (curId : Nat) (s : State) : Prop :=
  WF root s ∧ s.concreteVersions.lookup cur.key = some curId

theorem wfj_step {root : VK} {u : Universe} {mgt : List (PackageKey × Bytes)} {first : Bool} {cur : Todo}
    {curId : Nat} {d : Dep} {s s' : State}
    (hw : WFJ root cur curId s) (hs : DepStep u mgt first cur d s s') : WFJ root cur curId s' := by
  obtain ⟨hwf, hcur⟩ := hw
  have hcid : curIdOf s cur = curId := curIdOf_eq hcur
  cases hs with
  | excluded _ => exact ⟨hwf, hcur⟩
  | noMatch _ _ =>
    refine ⟨⟨?_, ?_, ?_, ?_, ?_⟩, hcur⟩
    · simpa using hwf.root0
    · intro k id h; simpa using hwf.cvSound k id h
    · intro vk id h; simpa using hwf.nodesSound vk id h
    · intro e he; simpa using hwf.edgesIn e he
    · exact hwf.todoBound
  | edge mv id g' _ _ _ hadd =>
    obtain ⟨ha, hb, rfl⟩ := addEdge_some hadd
    refine ⟨⟨hwf.root0, hwf.cvSound, hwf.nodesSound, ?_, hwf.todoBound⟩, hcur⟩
    intro e he
    simp only [List.mem_append, List.mem_singleton] at he
    rcases he with he | rfl
    · exact hwf.edgesIn e he
    · exact ⟨ha, hb⟩
  | newNode mv g2 _ _ hcv _ _ hadd =>
    obtain ⟨ha, hb, rfl⟩ := addEdge_some hadd
    simp only [nodes_length_addNode] at ha hb
    refine ⟨⟨?_, ?_, ?_, ?_, ?_⟩, ?_⟩
    · exact vkAt_addNode_old (v := { name := d.name, version := mv }) hwf.root0
    · intro k id h
      simp only [lookup_cons_eq] at h
      split at h
      · rename_i hk; cases h; subst hk; exact vkAt_addNode_new s.g _
      · exact vkAt_addNode_old (v := { name := d.name, version := mv }) (hwf.cvSound k id h)
    · intro vk id h
      simp only [lookup_cons_eq] at h
      split at h
      · rename_i hk; cases h; subst hk; exact vkAt_addNode_new s.g _
      · exact vkAt_addNode_old (v := { name := d.name, version := mv }) (hwf.nodesSound vk id h)
    · intro e he
      simp only [List.mem_append, List.mem_singleton, edges_addNode] at he
      simp only [nodes_length_addNode]
      rcases he with he | rfl
      · have := hwf.edgesIn e he; omega
      · simp only; rw [hcid] at ha ⊢; have := vkAt_lt (hwf.cvSound _ _ hcur); omega
    · intro t ht
      simp only [List.mem_append, List.mem_singleton] at ht
      rcases ht with ht | rfl
      · obtain ⟨id, hid⟩ := hwf.todoBound t ht
        refine ⟨id, ?_⟩
        simp only [lookup_cons_eq]
        split
        · rename_i hk; rw [hk, hcv] at hid; cases hid
        · exact hid
      · exact ⟨s.g.nodes.length, by simp [childTodo, lookup_cons_eq]⟩
    · simp only [lookup_cons_eq]
      split
      · rename_i hk; rw [hk, hcv] at hcur; cases hcur
      · exact hcur

/-- Induction principle: invariants `X` (between iterations) and `Y` (inside one) on top of `WF`. -/
theorem loop_inv_wf {u : Universe} {mgt : List (PackageKey × Bytes)} (root : VK)
    (X : Bool → State → Prop) (Y : Bool → Todo → Nat → List Dep → State → Prop)
    (hpop : ∀ first s cur rest, WF root s → X first s → s.todo = cur :: rest →
      s.concreteVersions.lookup cur.key = some (curIdOf s cur) →
      Y first cur (curIdOf s cur) [] { s with todo := rest })
    (hdep : ∀ first cur curId imps ds d s s', cur.includesDependencies = false →
      imports u cur.key.vk (optsOf first) = some imps → (∃ rest, imps = ds ++ d :: rest) →
      WFJ root cur curId s → Y first cur curId ds s → DepStep u mgt first cur d s s' →
      Y first cur curId (ds ++ [d]) s')
    (hfin : ∀ first cur curId ds s,
      ((cur.includesDependencies = true ∧ ds = []) ∨
       (cur.includesDependencies = false ∧ imports u cur.key.vk (optsOf first) = some ds)) →
      WFJ root cur curId s → Y first cur curId ds s →
      X false { s with done := s.done ++ [(curId, first, cur)] }) :
    ∀ fuel first s0 s, WF root s0 → X first s0 → loop u mgt fuel first s0 = .ok (some s) →
      ∃ f, X f s ∧ WF root s ∧ s.todo = [] := by
  intro fuel first s0 s hw hx h
  have := loop_inv (u := u) (mgt := mgt)
    (fun f s => WF root s ∧ X f s)
    (fun f cur curId ds s => WFJ root cur curId s ∧ Y f cur curId ds s)
    (by
      intro first s cur rest ⟨hw, hx⟩ htodo
      obtain ⟨id, hid⟩ := hw.todoBound cur (by simp [htodo])
      have hcid := curIdOf_eq hid
      refine ⟨⟨⟨hw.root0, hw.cvSound, hw.nodesSound, hw.edgesIn, ?_⟩, ?_⟩, ?_⟩
      · intro t ht; exact hw.todoBound t (by simp [htodo, ht])
      · simpa [hcid] using hid
      · exact hpop first s cur rest hw hx htodo (by simpa [hcid] using hid))
    (by
      intro first cur curId imps ds d s s' hinc himps hpos ⟨hwj, hy⟩ hs
      exact ⟨wfj_step hwj hs, hdep first cur curId imps ds d s s' hinc himps hpos hwj hy hs⟩)
    (by
      intro first cur curId ds s hc ⟨hwj, hy⟩
      refine ⟨?_, hfin first cur curId ds s hc hwj hy⟩
      exact ⟨hwj.1.root0, hwj.1.cvSound, hwj.1.nodesSound, hwj.1.edgesIn, hwj.1.todoBound⟩)
    fuel first s0 s ⟨hw, hx⟩ h
  obtain ⟨f, ⟨hw', hx'⟩, ht⟩ := this
  exact ⟨f, hx', hw', ht⟩

/-- A successful pass starts from `initState` with the management map of the root. -/
theorem resolveOnce_ok {u : Universe} {root : VK} {reqs : ReqMap} {fuel : Nat} {s : State}
    (h : resolveOnce u root reqs fuel = .ok (some s)) :
    ∃ mgt, dependencyManagement u root = some mgt ∧
      loop u mgt fuel true (initState root reqs) = .ok (some s) := by
  unfold resolveOnce at h
  split at h
  · cases h
  · split at h
    · cases h
    · rename_i mgt hm; exact ⟨mgt, hm, h⟩

end DepsDev.Resolve.Maven
