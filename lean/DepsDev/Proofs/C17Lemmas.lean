import DepsDev.Model.Api.Desc

/-! What the Bool-valued list checks of `Model/Api/Desc.lean` mean. -/
namespace DepsDev.Api

theorem subseq_mem {α : Type} [DecidableEq α] :
    ∀ (a b : List α), subseq a b = true → ∀ x ∈ a, x ∈ b := by
  intro a b
  induction b generalizing a with
  | nil =>
    intro h x hx
    cases a with
    | nil => cases hx
    | cons y ys => simp [subseq] at h
  | cons y ys ih =>
    intro h x hx
    cases a with
    | nil => cases hx
    | cons z zs =>
      unfold subseq at h
      split at h
      · next heq =>
        subst heq
        cases hx with
        | head => exact List.mem_cons_self
        | tail _ hx' => exact List.mem_cons_of_mem _ (ih zs h x hx')
      · exact List.mem_cons_of_mem _ (ih (z :: zs) h x hx)

theorem sameElems_mem {α : Type} [DecidableEq α] (a b : List α) (h : sameElems a b = true) :
    ∀ x, x ∈ a ↔ x ∈ b := by
  simp only [sameElems, Bool.and_eq_true, List.all_eq_true, List.contains_eq_mem, decide_eq_true_eq] at h
  intro x
  exact ⟨fun hx => h.1.2 x hx, fun hx => h.2 x hx⟩

theorem eqUpToOrder_mem {α : Type} [DecidableEq α] (a b : List α) (h : eqUpToOrder a b = true) :
    ∀ x, x ∈ a ↔ x ∈ b := by
  unfold eqUpToOrder at h
  split at h
  · next heq => subst heq; intro x; exact Iff.rfl
  · exact sameElems_mem a b h

/-- A strictly sorted list of keys has no repeated key. -/
theorem strictSorted_nodup : ∀ (l : List (List Nat)), strictSorted l = true → l.Nodup := by
  have key : ∀ (l : List (List Nat)) (a : List Nat), strictSorted (a :: l) = true →
      (∀ y ∈ l, a < y) ∧ strictSorted l = true := by
    intro l
    induction l with
    | nil => intro a _; exact ⟨fun _ h => (nomatch h), rfl⟩
    | cons b rest ih =>
      intro a h
      simp only [strictSorted, Bool.and_eq_true, decide_eq_true_eq] at h
      obtain ⟨hab, hrest⟩ := h
      obtain ⟨hb, _⟩ := ih b hrest
      refine ⟨?_, hrest⟩
      intro y hy
      cases hy with
      | head => exact hab
      | tail _ hy' => exact List.lt_trans hab (hb y hy')
  intro l
  induction l with
  | nil => intro _; exact List.nodup_nil
  | cons a rest ih =>
    intro h
    obtain ⟨ha, hrest⟩ := key rest a h
    refine List.nodup_cons.mpr ⟨?_, ih hrest⟩
    intro hmem
    exact List.lt_irrefl a (ha a hmem)

end DepsDev.Api
