import DepsDev.Proofs.C09Laws
import DepsDev.Proofs.C03Embed

/-!
# C03 layer L2, set level: what `andList` and `orList` do with the spans of the values

`andFold` is the fold `andList` performs over the spans of the comparators after the first
(`set = Intersect(set, {span})`), `orList` canonicalises the concatenation of the alternatives'
span lists. On well-formed spans (`SpanOK`, the invariant `newSpan` establishes, C09):

* `andFold_spec`: the fold never fails, keeps a single span, introduces no new bound, and that
  span contains **every** candidate (prerelease candidates included, inclusive matching) iff
  every operand span does — single-span intersection needs no `canon` merge;
* `orCanon_spec`: `canon` of the concatenation matches a candidate outside successor seams iff
  some alternative does; release candidates are never in a seam when the release bounds are tidy.

Both rest on C09's `intersect_eq` / `canonSpans_spec`.
-/
namespace DepsDev.Proofs.C03

open Std DepsDev DepsDev.Semver DepsDev.Proofs DepsDev.Proofs.C09

variable {s : System}

/-- The fold of `andList` over the spans of the second, third, … value: each step replaces the
set by `Intersect(set, {sp})` (both operands carry the system `Default`, as in the Go code). -/
def andFold (set : List Span) : List Span → Outcome (List Span)
  | [] => .ok set
  | sp :: rest => do
    let r ← VSet.intersect { sys := .default, span := set } { sys := .default, span := [sp] }
    andFold r.span rest

theorem canonSpans_short (l : List Span) (h : l.length ≤ 1) : canonSpans l = .ok l := by
  unfold canonSpans; simp [h]

/-- One step: a single span intersected with a single span. -/
theorem intersect_one (P : Version → Prop) {a b : Span} (ha : SpanOK s a ∧ AllB P a) (hb : SpanOK s b ∧ AllB P b) :
    ∃ r, VSet.intersect { sys := .default, span := [a] } { sys := .default, span := [b] } =
          .ok { sys := .default, span := [r] } ∧
      (SpanOK s r ∧ AllB P r) ∧ ∀ v, has s r v = (has s a v && has s b v) := by
  have m1 : ∀ (Q : Span → Prop) (c : Span), Q c → ∀ x ∈ [c], Q x := by
    intro Q c h x hx
    rw [List.mem_singleton] at hx
    subst hx; exact h
  obtain ⟨out, hne, hout, hlen, hv, e⟩ := intersect_eq (s := s) P (VSet.mk .default [a])
    (VSet.mk .default [b]) (m1 _ a ha.1) (m1 _ b hb.1) (m1 _ a ha.2) (m1 _ b hb.2)
    (minSorted_of_length_le_one [b] (Nat.le_refl 1))
  have h1 : out.length ≤ 1 := hlen (Nat.le_refl 1)
  cases out with
  | nil => exact absurd rfl hne
  | cons r t =>
    cases t with
    | cons _ _ => simp at h1
    | nil =>
      refine ⟨r, ?_, hout r List.mem_cons_self, ?_⟩
      · rw [e, canonSpans_short [r] (Nat.le_refl 1)]; rfl
      · intro v
        have := hv v
        simp only [anyHas_cons, anyHas_nil, Bool.or_false] at this
        exact this

/-- **The AND fold** on well-formed spans: never fails, yields one span whose bounds are bounds
of the operands, and that span contains a candidate iff all operands do — for every candidate
and inclusive matching (hence also for release candidates in either mode). -/
theorem andFold_spec (P : Version → Prop) : ∀ (rest : List Span) (a : Span), (SpanOK s a ∧ AllB P a) →
    (∀ x ∈ rest, SpanOK s x ∧ AllB P x) →
    ∃ r, andFold [a] rest = .ok [r] ∧ (SpanOK s r ∧ AllB P r) ∧
      ∀ v, has s r v = (has s a v && rest.all (fun x => has s x v)) := by
  intro rest
  induction rest with
  | nil =>
    intro a ha _
    exact ⟨a, rfl, ha, fun v => by simp⟩
  | cons b rest ih =>
    intro a ha hrest
    obtain ⟨r1, e1, h1, hv1⟩ := intersect_one P ha (hrest b List.mem_cons_self)
    obtain ⟨r, e, h, hv⟩ := ih r1 h1 (fun x hx => hrest x (List.mem_cons_of_mem _ hx))
    refine ⟨r, ?_, h, ?_⟩
    · simp only [andFold, e1]
      exact e
    · intro v
      rw [hv v, hv1 v, List.all_cons, Bool.and_assoc]

/-- A release bound is tidy (C09): at most three numbers in `[0,∞]`, an `∞` minor followed by an
`∞` patch. The property of bounds under which no release candidate lies in a successor seam. -/
def TidyR (v : Version) : Prop := v.pre = [] → Tidy v

/-- **The OR step** (`canon` of the concatenation of the alternatives' spans): never fails, stays
well-formed and non-empty, and for a release candidate with numbers in `[0,∞]` denotes the union. -/
theorem orCanon_spec (hs : s ≠ .maven) (l : List Span) (hok : ∀ x ∈ l, SpanOK s x ∧ AllB TidyR x) :
    ∃ r, canonSpans l = .ok r ∧ (∀ x ∈ r, SpanOK s x) ∧ (l ≠ [] → r ≠ []) ∧
      ∀ v, Bounded v → v.pre = [] → anyHas s r v = anyHas s l v := by
  obtain ⟨r, e, h1, h2, -, h4⟩ := canonSpans_spec (s := s) TidyR hs l hok
  refine ⟨r, e, fun x hx => (h1 x hx).1, h2, ?_⟩
  intro v hb hpre
  exact h4 v (Or.inr (release_seamFree (fun a ha hp => ha hp) hb hpre))

/-- Matching a release candidate against a non-empty well-formed set, in release mode. -/
theorem matchVersion_rel (hs : Sys4 s) (sys : System) {l : List Span} (hne : l ≠ []) (hok : ∀ x ∈ l, SpanOK s x)
    {v : Version} (hv : VG s v) (hrel : v.isPrerelease = false) :
    (VSet.mk sys l).matchVersion v false = .ok (anyHas s l v) :=
  matchVersion_eq hs (S := VSet.mk sys l) hne hok hv false (Or.inr hrel)

/-- `contains` in release mode on a release candidate is interval membership. -/
theorem contains_rel {sp : Span} (hsp : SpanOK s sp) {v : Version} (hv : VG s v) (hrel : v.isPrerelease = false) :
    sp.contains v false = .ok (has s sp v) := by
  rw [contains_release sp hrel]; exact contains_incl hsp hv

end DepsDev.Proofs.C03
