import DepsDev.Proofs.C03L3NpmLe

/-!
# C03 layer L3 for npm, operator `le`: operands with a prerelease tag; `L3Npm .le`
-/
namespace DepsDev.Proofs.C03

open DepsDev DepsDev.Semver DepsDev.Ref

set_option linter.unusedSimpArgs false
set_option linter.unusedVariables false

theorem l3_pre_lt_le : L3PreO .le .lt := by l3_pre
theorem l3_pre_eq_le : L3PreO .le .eq := by l3_pre
theorem l3_pre_gt_le : L3PreO .le .gt := by l3_pre

theorem l3_npm_le : L3Npm .le :=
  l3_assemble _ l3_full_le (l3_pre_assemble _ l3_pre_lt_le l3_pre_eq_le l3_pre_gt_le) l3_part_le

end DepsDev.Proofs.C03
