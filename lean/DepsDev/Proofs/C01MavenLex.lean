import DepsDev.Proofs.C01MavenKey

/-!
# C01 for Maven, part 2: the whole loop

`mavenLex` is the position-wise lexicographic comparison of the key lists with the key
of a missing element as default; it is a `TransCmp` by construction (`padLex`).

`mavenCompare a b = .ok (ordToInt (mavenLex a b))` holds for all lists in `MavenGood`:

* the first element has separator 0, every other one `.` or `-`;
* every element text is a number or a qualifier, qualifiers carry `int = 0` (`elemOK`);
* an element equivalent to a missing one (`-ga`, `-final`, `-release`) is not the last one;
* a literal `.0` (which the loop cannot tell from padding) is followed by a tail that is
  greater than the empty tail (`posTail`) — this is where `ZeroDotQual` lists fall out:
  in `4.1.0.Beta1` the `.0` is followed by `.beta`, which is *smaller* than nothing.

The Maven-Central shape of DESIGN 6.4 without `ZeroDotQual` is a subset (part 3).
-/
namespace DepsDev.Proofs

open Std DepsDev DepsDev.Semver

/-- The lawful comparator that `mavenCompare` renders on `MavenGood` lists. -/
def mavenLex (a b : List MavenElem) : Ordering :=
  padLex MK.cmp mkNone (a.map mkey) (b.map mkey)

instance : TransCmp mavenLex := TransCmp.comap (padLex MK.cmp mkNone) (List.map mkey)

/-- Key comparison of a missing element with `e`. -/
def vsNone (e : MavenElem) : Ordering := MK.cmp mkNone (mkey e)

theorem cmp_none_right (e : MavenElem) : MK.cmp (mkey e) mkNone = (vsNone e).swap :=
  OrientedCmp.eq_swap

theorem vsNone_pad46 : vsNone pad46 = .lt := by decide

/-- The tail is greater than the empty tail, as the loop sees it (a literal `.0` and the
elements equivalent to a missing one are skipped). -/
def posTail : List MavenElem → Bool
  | [] => false
  | e :: t =>
    if e == pad46 then posTail t else
    match vsNone e with
    | .lt => true
    | .eq => posTail t
    | .gt => false

/-- Elements after the first. -/
def tailOK : List MavenElem → Bool
  | [] => true
  | e :: t => elemOK e && sepOK e && tailOK t &&
      (if e == pad46 then posTail t else if vsNone e == .eq then !t.isEmpty else true)

/-- The domain of the lawfulness theorem (see the header). -/
def MavenGood : List MavenElem → Bool
  | [] => false
  | h :: t => h.sep == 0 && elemOK h && tailOK t

theorem mavenLex_nil_cons (e : MavenElem) (t : List MavenElem) :
    mavenLex [] (e :: t) = (vsNone e).then (mavenLex [] t) := by
  simp [mavenLex, padLex, vsNone]

theorem mavenLex_cons_nil (e : MavenElem) (t : List MavenElem) :
    mavenLex (e :: t) [] = (vsNone e).swap.then (mavenLex t []) := by
  rw [← cmp_none_right]; simp [mavenLex, padLex]

theorem mavenLex_cons_cons (a b : MavenElem) (as bs : List MavenElem) :
    mavenLex (a :: as) (b :: bs) = (MK.cmp (mkey a) (mkey b)).then (mavenLex as bs) := by
  simp [mavenLex, padLex]

theorem mavenLex_nil_nil : mavenLex [] [] = .eq := by simp [mavenLex, padLex]

theorem posTail_lt {t : List MavenElem} (h : posTail t = true) : mavenLex [] t = .lt := by
  induction t with
  | nil => simp [posTail] at h
  | cons e t ih =>
    rw [mavenLex_nil_cons]
    unfold posTail at h
    split at h
    · rename_i he
      have : e = pad46 := by simpa using he
      subst this
      simp [vsNone_pad46]
    · split at h
      · rename_i hv; simp [hv]
      · rename_i hv; simp [hv, ih h]
      · simp at h

theorem posTail_gt {t : List MavenElem} (h : posTail t = true) : mavenLex t [] = .gt := by
  have := posTail_lt h
  rw [OrientedCmp.eq_swap (cmp := mavenLex), this]; rfl

theorem tailOK_ne_eq {t : List MavenElem} (h : tailOK t = true) (hne : t ≠ []) :
    mavenLex [] t ≠ .eq := by
  induction t with
  | nil => exact absurd rfl hne
  | cons e t ih =>
    rw [mavenLex_nil_cons]
    simp only [tailOK, Bool.and_eq_true] at h
    obtain ⟨⟨⟨_, _⟩, ht⟩, hx⟩ := h
    split at hx
    · rename_i he
      have : e = pad46 := by simpa using he
      subst this
      simp [vsNone_pad46]
    · split at hx
      · rename_i hv
        have hv' : vsNone e = .eq := by simpa using hv
        have : t ≠ [] := by simpa using hx
        simpa [hv'] using ih ht this
      · rename_i hv
        have hv' : vsNone e ≠ .eq := by simpa using hv
        cases hve : vsNone e <;> simp_all

/-- Left side exhausted. -/
theorem mavenCompareNilL_eq {b : List MavenElem} (h : tailOK b = true) :
    mavenCompareNilL b = .ok (ordToInt (mavenLex [] b)) := by
  induction b with
  | nil => simp [mavenCompareNilL, mavenLex_nil_nil]
  | cons e t ih =>
    rw [mavenLex_nil_cons]
    have h' := h
    simp only [tailOK, Bool.and_eq_true] at h
    obtain ⟨⟨⟨he, hs⟩, ht⟩, hx⟩ := h
    unfold mavenCompareNilL
    by_cases hp : e = pad46
    · subst hp
      simp only [beq_self_eq_true, ↓reduceIte] at hx
      simp [mavenStep_none_pad46, ih ht, posTail_lt hx, vsNone_pad46, Outcome.bind]
    · have hp' : (e == pad46) = false := by simpa using hp
      simp only [hp', Bool.false_eq_true, ↓reduceIte] at hx
      rw [mavenStep_none_some e he hs hp]
      show (match stepOf (vsNone e) with | .ok none => _ | .ok (some r) => _ | .err => _ | .panic => _) = _
      unfold stepOf
      by_cases hv : vsNone e = .eq
      · have hne : t ≠ [] := by simpa [hv] using hx
        have hz : ordToInt (mavenLex [] t) ≠ 0 := fun h0 => tailOK_ne_eq ht hne (ordToInt_eq_zero.mp h0)
        simp [hv, ih ht, Outcome.bind, hz]
      · cases hve : vsNone e <;> simp_all

/-- Right side exhausted. -/
theorem mavenCompare_nil_right {a : List MavenElem} (h : tailOK a = true) :
    mavenCompare a [] = .ok (ordToInt (mavenLex a [])) := by
  induction a with
  | nil => simp [mavenCompare, mavenCompareNilL, mavenLex_nil_nil]
  | cons e t ih =>
    rw [mavenLex_cons_nil]
    simp only [tailOK, Bool.and_eq_true] at h
    obtain ⟨⟨⟨he, hs⟩, ht⟩, hx⟩ := h
    unfold mavenCompare
    by_cases hp : e = pad46
    · subst hp
      simp only [beq_self_eq_true, ↓reduceIte] at hx
      simp [mavenStep_pad46_none, ih ht, posTail_gt hx, vsNone_pad46]
    · rw [mavenStep_some_none e he hs hp, cmp_none_right]
      unfold stepOf
      cases hve : vsNone e <;> simp [ih ht]

/-- Both sides after the first element. -/
theorem mavenCompare_tail {a b : List MavenElem} (ha : tailOK a = true) (hb : tailOK b = true) :
    mavenCompare a b = .ok (ordToInt (mavenLex a b)) := by
  induction a generalizing b with
  | nil =>
    unfold mavenCompare
    exact mavenCompareNilL_eq hb
  | cons x as ih =>
    cases b with
    | nil => exact mavenCompare_nil_right ha
    | cons y bs =>
      rw [mavenLex_cons_cons]
      simp only [tailOK, Bool.and_eq_true] at ha hb
      obtain ⟨⟨⟨hxe, hxs⟩, hat⟩, _⟩ := ha
      obtain ⟨⟨⟨hye, hys⟩, hbt⟩, _⟩ := hb
      unfold mavenCompare
      rw [mavenStep_some_some x y hxe hye (.inr ⟨hxs, hys⟩)]
      unfold stepOf
      cases hc : MK.cmp (mkey x) (mkey y) <;> simp [ih hat hbt]

/-- **Maven, general form**: on `MavenGood` element lists the loop never fails and is
the rendering of the lawful comparator `mavenLex`. -/
theorem mavenCompare_eq {a b : List MavenElem} (ha : MavenGood a = true) (hb : MavenGood b = true) :
    mavenCompare a b = .ok (ordToInt (mavenLex a b)) := by
  cases a with
  | nil => simp [MavenGood] at ha
  | cons x as =>
    cases b with
    | nil => simp [MavenGood] at hb
    | cons y bs =>
      rw [mavenLex_cons_cons]
      simp only [MavenGood, Bool.and_eq_true, beq_iff_eq] at ha hb
      obtain ⟨⟨hxs, hxe⟩, hat⟩ := ha
      obtain ⟨⟨hys, hye⟩, hbt⟩ := hb
      unfold mavenCompare
      rw [mavenStep_some_some x y hxe hye (.inl (hxs.trans hys.symm))]
      unfold stepOf
      cases hc : MK.cmp (mkey x) (mkey y) <;> simp [mavenCompare_tail hat hbt]

end DepsDev.Proofs
