/-
Helper lemmas for C19, part 7: `strconv.Unquote(strconv.Quote(v)) = v` for ASCII
values (every byte < 0x80: printable characters, quotes, backslashes, control
characters), and the structure of `Quote`'s output that the deptest parser relies on.
-/
import DepsDev.Proofs.C19DepText

namespace DepsDev.Proofs.C19
open DepsDev DepsDev.Gen DepsDev.Model.Resolve DepsDev.Model.Resolve.Attr DepsDev.Model.Resolve.AttrText
open DepsDev.Model.Resolve.AttrMachine

theorem hexValue_append (n : Nat) (s r : Bytes) (v : Nat) (x : Nat) (h : hexValue n s v = some x) :
    hexValue n (s ++ r) v = some x := by
  induction n generalizing s v with
  | zero => simpa [hexValue] using h
  | succ n ih =>
    cases s with
    | nil => simp [hexValue] at h
    | cons b s =>
      simp only [hexValue, List.cons_append] at h ⊢
      cases hb : unhex b with
      | none => simp [hb] at h
      | some y => simp only [hb] at h ⊢; exact ih s _ h

/-- closed facts about the escapes of the 128 ASCII runes (by evaluation): `UnquoteChar`
reads an escape back as the byte, an escape never starts with a quote or a newline, an
escape without a backslash is the byte itself, one with a backslash starts with it, and
the only escape ending in a backslash is that of the backslash; no escape contains
white space other than the space itself. -/
theorem ascii_escapes : ∀ r, r < 128 →
    unquoteChar (escapeRune r) = some ([r.toUInt8], (escapeRune r).length) ∧
    (escapeRune r).head? ≠ some 0x22 ∧ (escapeRune r).head? ≠ some 0x0A ∧ escapeRune r ≠ [] ∧
    ((escapeRune r).contains 0x5C = false → escapeRune r = [r.toUInt8] ∧ r ≠ 0x22 ∧ r ≠ 0x0A) ∧
    ((escapeRune r).contains 0x5C = true → (escapeRune r).head? = some 0x5C) ∧
    (∀ c, (escapeRune r).head? = some c → c.toNat < 128) := by
  decide

/-- `UnquoteChar` of an ASCII-headed input only looks at the bytes it consumes. -/
theorem unquoteChar_append (e r : Bytes) (res : Bytes × Nat) (hh : ∀ c, e.head? = some c → c.toNat < 128)
    (h : unquoteChar e = some res) : unquoteChar (e ++ r) = some res := by
  cases e with
  | nil => simp [unquoteChar] at h
  | cons c rest =>
    have hc := hh c rfl
    have hge : ¬ c.toNat ≥ 0x80 := by omega
    simp only [unquoteChar, List.cons_append] at h ⊢
    by_cases h1 : c = 0x22
    · simp [h1] at h
    · simp only [beq_iff_eq, h1, if_false, hge] at h ⊢
      by_cases h2 : c = 0x5C
      · simp only [h2, bne_self_eq_false, Bool.false_eq_true, if_false] at h ⊢
        cases rest with
        | nil => simp at h
        | cons e s =>
          simp only [List.cons_append] at h ⊢
          by_cases k0 : e = 0x61
          · subst k0; simpa using h
          simp only [beq_iff_eq, k0, if_false] at h ⊢
          by_cases k1 : e = 0x62
          · subst k1; simpa using h
          simp only [beq_iff_eq, k1, if_false] at h ⊢
          by_cases k2 : e = 0x66
          · subst k2; simpa using h
          simp only [beq_iff_eq, k2, if_false] at h ⊢
          by_cases k3 : e = 0x6E
          · subst k3; simpa using h
          simp only [beq_iff_eq, k3, if_false] at h ⊢
          by_cases k4 : e = 0x72
          · subst k4; simpa using h
          simp only [beq_iff_eq, k4, if_false] at h ⊢
          by_cases k5 : e = 0x74
          · subst k5; simpa using h
          simp only [beq_iff_eq, k5, if_false] at h ⊢
          by_cases k6 : e = 0x76
          · subst k6; simpa using h
          simp only [beq_iff_eq, k6, if_false] at h ⊢
          by_cases kx : e = 0x78
          · subst kx
            simp only [beq_self_eq_true, if_true] at h ⊢
            cases hv : hexValue 2 s 0 with
            | none => simp [hv] at h
            | some v => rw [hexValue_append _ _ _ _ _ hv]; simpa [hv] using h
          simp only [beq_iff_eq, kx, if_false] at h ⊢
          by_cases ku : e = 0x75
          · subst ku
            simp only [beq_self_eq_true, if_true] at h ⊢
            cases hv : hexValue 4 s 0 with
            | none => simp [hv] at h
            | some v => rw [hexValue_append _ _ _ _ _ hv]; simpa [hv] using h
          simp only [beq_iff_eq, ku, if_false] at h ⊢
          by_cases kU : e = 0x55
          · subst kU
            simp only [beq_self_eq_true, if_true] at h ⊢
            cases hv : hexValue 8 s 0 with
            | none => simp [hv] at h
            | some v => rw [hexValue_append _ _ _ _ _ hv]; simpa [hv] using h
          simp only [beq_iff_eq, kU, if_false] at h ⊢
          by_cases ko : (0x30 ≤ e.toNat && e.toNat ≤ 0x37) = true
          · simp only [ko, if_true] at h ⊢
            cases s with
            | nil => simp at h
            | cons d1 s1 =>
              cases s1 with
              | nil => simp at h
              | cons d2 s2 => simpa using h
          simp only [ko, Bool.false_eq_true, if_false] at h ⊢
          exact h
      · have : (c != 0x5C) = true := by simpa using h2
        simp only [this, if_true] at h ⊢
        exact h

/-! ### Quote on ASCII input works byte by byte -/

theorem decodeRune_ascii (b : UInt8) (rest : Bytes) (hb : b.toNat < 128) :
    decodeRune (b :: rest) = (b.toNat, 1) := by
  simp [decodeRune, hb]

theorem quoteGo_ascii_cons (b : UInt8) (rest : Bytes) (hb : b.toNat < 128) :
    quoteGo (b :: rest) 0 = escapeRune b.toNat ++ quoteGo rest 0 := by
  rw [quoteGo]
  simp only [decodeRune_ascii b rest hb]
  have : ¬ (b.toNat = 0xFFFD) := by omega
  simp [this]

theorem toUInt8_toNat (b : UInt8) : b.toNat.toUInt8 = b := by
  cases b; simp

/-! ### the slow path of Unquote reads Quote's output back -/

theorem unquoteGo_skip (pre rest buf : Bytes) :
    unquoteGo (pre ++ rest) pre.length buf = unquoteGo rest 0 buf := by
  induction pre with
  | nil => rfl
  | cons x p ih => simp only [List.cons_append, List.length_cons, unquoteGo]; exact ih

theorem unquoteGo_escape (r : Nat) (hr : r < 128) (tail buf : Bytes) :
    unquoteGo (escapeRune r ++ tail) 0 buf = unquoteGo tail 0 (buf ++ [r.toUInt8]) := by
  obtain ⟨huc, hq, hnl, hne, _, _, hhead⟩ := ascii_escapes r hr
  have happ := unquoteChar_append (escapeRune r) tail _ hhead huc
  cases he : escapeRune r with
  | nil => exact absurd he hne
  | cons x xs =>
    rw [he] at happ hq hnl
    have hx1 : ¬ x = 0x22 := by simpa using hq
    have hx2 : ¬ x = 0x0A := by simpa using hnl
    simp only [List.cons_append] at happ ⊢
    rw [unquoteGo]
    simp only [beq_iff_eq, hx1, if_false, happ, hx2, List.length_cons, Nat.add_sub_cancel]
    exact unquoteGo_skip xs tail _

theorem unquoteGo_quoteGo (v : Bytes) (hv : isAscii v = true) (buf : Bytes) :
    unquoteGo (quoteGo v 0 ++ [0x22]) 0 buf = some (buf ++ v) := by
  induction v generalizing buf with
  | nil => simp [quoteGo, unquoteGo]
  | cons b v ih =>
    simp only [isAscii, List.all_cons, Bool.and_eq_true, decide_eq_true_eq] at hv
    rw [quoteGo_ascii_cons b v hv.1, List.append_assoc, unquoteGo_escape _ hv.1]
    rw [ih (by simpa [isAscii] using hv.2), toUInt8_toNat]
    simp

/-! ### the fast path -/

theorem splitAt1_some (q : UInt8) (x : Bytes) : ∃ p, splitAt1 q (x ++ [q]) = some p := by
  induction x with
  | nil => exact ⟨([], []), by simp [splitAt1]⟩
  | cons b x ih =>
    obtain ⟨p, hp⟩ := ih
    simp only [List.cons_append, splitAt1]
    by_cases hb : b = q
    · exact ⟨([], x ++ [q]), by simp [hb]⟩
    · have : (b == q) = false := by simpa using hb
      exact ⟨(b :: p.1, p.2), by simp [this, hp]⟩

theorem splitAt1_quoteGo (v : Bytes) (hv : isAscii v = true) :
    ∃ pre rem, splitAt1 0x22 (quoteGo v 0 ++ [0x22]) = some (pre, rem) ∧
      (pre.contains 0x5C = false → pre = v ∧ rem = [] ∧ v.contains 0x0A = false) := by
  induction v with
  | nil => exact ⟨[], [], by simp [quoteGo, splitAt1], fun _ => ⟨rfl, rfl, rfl⟩⟩
  | cons b v ih =>
    simp only [isAscii, List.all_cons, Bool.and_eq_true, decide_eq_true_eq] at hv
    obtain ⟨pre', rem', hsp, himp⟩ := ih (by simpa [isAscii] using hv.2)
    obtain ⟨_, _, _, hne, hnob, hbs, _⟩ := ascii_escapes b.toNat hv.1
    rw [quoteGo_ascii_cons b v hv.1, List.append_assoc]
    cases hc : (escapeRune b.toNat).contains 0x5C with
    | true =>
      have hh := hbs hc
      cases he : escapeRune b.toNat with
      | nil => exact absurd he hne
      | cons x xs =>
        rw [he] at hh
        have hx : x = 0x5C := by simpa using hh
        subst hx
        obtain ⟨p, hp⟩ := splitAt1_some 0x22 (xs ++ quoteGo v 0)
        rw [List.append_assoc] at hp
        refine ⟨0x5C :: p.1, p.2, ?_, ?_⟩
        · simp [splitAt1, hp]
        · intro h; simp at h
    | false =>
      obtain ⟨he, hb1, hb2⟩ := hnob hc
      rw [he, toUInt8_toNat]
      have hbq : (b == 0x22) = false := by
        have : b ≠ 0x22 := by
          intro e; apply hb1; rw [e]; rfl
        simpa using this
      have hbn : b ≠ 0x0A := by
        intro e; apply hb2; rw [e]; rfl
      have hbb : b ≠ 0x5C := by
        intro e
        rw [he, toUInt8_toNat, e] at hc
        simp at hc
      refine ⟨b :: pre', rem', ?_, ?_⟩
      · simp [splitAt1, hbq, hsp]
      · intro h
        have h' : pre'.contains 0x5C = false := by
          simp only [List.contains_cons, Bool.or_eq_false_iff] at h
          exact h.2
        obtain ⟨e1, e2, e3⟩ := himp h'
        refine ⟨by rw [e1], e2, ?_⟩
        simp only [List.contains_cons, Bool.or_eq_false_iff, beq_eq_false_iff_ne, ne_eq]
        exact ⟨fun e => hbn e.symm, e3⟩

/-- `strconv.Unquote(strconv.Quote(v)) = v` for every ASCII string `v`. -/
theorem unquote_quote (v : Bytes) (hv : isAscii v = true) : unquote (quote v) = some v := by
  obtain ⟨pre, rem, hsp, himp⟩ := splitAt1_quoteGo v hv
  simp only [unquote, quote, beq_self_eq_true, if_true, hsp]
  by_cases hcond : (!pre.contains 0x5C && !pre.contains 0x0A && validString pre) = true
  · simp only [hcond, if_true]
    simp only [Bool.and_eq_true, Bool.not_eq_eq_eq_not, Bool.not_true] at hcond
    obtain ⟨e1, e2, _⟩ := himp hcond.1.1
    simp [e1, e2]
  · simp only [hcond, Bool.false_eq_true, if_false]
    have := unquoteGo_quoteGo v hv []
    simpa using this

end DepsDev.Proofs.C19
