/-
Helper lemmas for C19, part 7: `strconv.Quote` / `UnquoteChar` on ASCII bytes (closed
facts about the 128 ASCII escapes, locality of `UnquoteChar`), used for the ASCII chunks
of `Quote`'s output (C19Chunks, C19QuoteAll).
-/
import DepsDev.Proofs.C19DepText

namespace DepsDev.Proofs.C19
open DepsDev DepsDev.Gen DepsDev.Model.Resolve DepsDev.Model.Resolve.Attr DepsDev.Model.Resolve.AttrText
open DepsDev.Model.Resolve.AttrMachine

theorem hexValue_append (n : Nat) (s r : Bytes) (v : Nat) (x : Nat) (h : hexValue n s v = some x) :
    hexValue n (s ++ r) v = some x := by
  induction n generalizing s v with
  | zero => simpa [hexValue] using h
  | succ n ih =>
    cases s with
    | nil => simp [hexValue] at h
    | cons b s =>
      simp only [hexValue, List.cons_append] at h ⊢
      cases hb : unhex b with
      | none => simp [hb] at h
      | some y => simp only [hb] at h ⊢; exact ih s _ h

/-- closed facts about the escapes of the 128 ASCII runes (by evaluation): `UnquoteChar`
reads an escape back as the byte, an escape never starts with a quote or a newline, an
escape without a backslash is the byte itself, one with a backslash starts with it, and
the only escape ending in a backslash is that of the backslash; no escape contains
white space other than the space itself. -/
theorem ascii_escapes : ∀ r, r < 128 →
    unquoteChar (escapeRune r) = some ([r.toUInt8], (escapeRune r).length) ∧
    (escapeRune r).head? ≠ some 0x22 ∧ (escapeRune r).head? ≠ some 0x0A ∧ escapeRune r ≠ [] ∧
    ((escapeRune r).contains 0x5C = false → escapeRune r = [r.toUInt8] ∧ r ≠ 0x22 ∧ r ≠ 0x0A) ∧
    ((escapeRune r).contains 0x5C = true → (escapeRune r).head? = some 0x5C) ∧
    (∀ c, (escapeRune r).head? = some c → c.toNat < 128) := by
  decide

/-- `UnquoteChar` of an ASCII-headed input only looks at the bytes it consumes. -/
theorem unquoteChar_append (e r : Bytes) (res : Bytes × Nat) (hh : ∀ c, e.head? = some c → c.toNat < 128)
    (h : unquoteChar e = some res) : unquoteChar (e ++ r) = some res := by
  cases e with
  | nil => simp [unquoteChar] at h
  | cons c rest =>
    have hc := hh c rfl
    have hge : ¬ c.toNat ≥ 0x80 := by omega
    simp only [unquoteChar, List.cons_append] at h ⊢
    by_cases h1 : c = 0x22
    · simp [h1] at h
    · simp only [beq_iff_eq, h1, if_false, hge] at h ⊢
      by_cases h2 : c = 0x5C
      · simp only [h2, bne_self_eq_false, Bool.false_eq_true, if_false] at h ⊢
        cases rest with
        | nil => simp at h
        | cons e s =>
          simp only [List.cons_append] at h ⊢
          by_cases k0 : e = 0x61
          · subst k0; simpa using h
          simp only [beq_iff_eq, k0, if_false] at h ⊢
          by_cases k1 : e = 0x62
          · subst k1; simpa using h
          simp only [beq_iff_eq, k1, if_false] at h ⊢
          by_cases k2 : e = 0x66
          · subst k2; simpa using h
          simp only [beq_iff_eq, k2, if_false] at h ⊢
          by_cases k3 : e = 0x6E
          · subst k3; simpa using h
          simp only [beq_iff_eq, k3, if_false] at h ⊢
          by_cases k4 : e = 0x72
          · subst k4; simpa using h
          simp only [beq_iff_eq, k4, if_false] at h ⊢
          by_cases k5 : e = 0x74
          · subst k5; simpa using h
          simp only [beq_iff_eq, k5, if_false] at h ⊢
          by_cases k6 : e = 0x76
          · subst k6; simpa using h
          simp only [beq_iff_eq, k6, if_false] at h ⊢
          by_cases kx : e = 0x78
          · subst kx
            simp only [beq_self_eq_true, if_true] at h ⊢
            cases hv : hexValue 2 s 0 with
            | none => simp [hv] at h
            | some v => rw [hexValue_append _ _ _ _ _ hv]; simpa [hv] using h
          simp only [beq_iff_eq, kx, if_false] at h ⊢
          by_cases ku : e = 0x75
          · subst ku
            simp only [beq_self_eq_true, if_true] at h ⊢
            cases hv : hexValue 4 s 0 with
            | none => simp [hv] at h
            | some v => rw [hexValue_append _ _ _ _ _ hv]; simpa [hv] using h
          simp only [beq_iff_eq, ku, if_false] at h ⊢
          by_cases kU : e = 0x55
          · subst kU
            simp only [beq_self_eq_true, if_true] at h ⊢
            cases hv : hexValue 8 s 0 with
            | none => simp [hv] at h
            | some v => rw [hexValue_append _ _ _ _ _ hv]; simpa [hv] using h
          simp only [beq_iff_eq, kU, if_false] at h ⊢
          by_cases ko : (0x30 ≤ e.toNat && e.toNat ≤ 0x37) = true
          · simp only [ko, if_true] at h ⊢
            cases s with
            | nil => simp at h
            | cons d1 s1 =>
              cases s1 with
              | nil => simp at h
              | cons d2 s2 => simpa using h
          simp only [ko, Bool.false_eq_true, if_false] at h ⊢
          exact h
      · have : (c != 0x5C) = true := by simpa using h2
        simp only [this, if_true] at h ⊢
        exact h

/-! ### Quote on ASCII input works byte by byte -/

theorem decodeRune_ascii (b : UInt8) (rest : Bytes) (hb : b.toNat < 128) :
    decodeRune (b :: rest) = (b.toNat, 1) := by
  simp [decodeRune, hb]

theorem quoteGo_ascii_cons (b : UInt8) (rest : Bytes) (hb : b.toNat < 128) :
    quoteGo (b :: rest) 0 = escapeRune b.toNat ++ quoteGo rest 0 := by
  rw [quoteGo]
  simp only [decodeRune_ascii b rest hb]
  have : ¬ (b.toNat = 0xFFFD) := by omega
  simp [this]

theorem toUInt8_toNat (b : UInt8) : b.toNat.toUInt8 = b := by
  cases b; simp

/-! ### the slow path of Unquote reads Quote's output back -/

theorem unquoteGo_skip (pre rest buf : Bytes) :
    unquoteGo (pre ++ rest) pre.length buf = unquoteGo rest 0 buf := by
  induction pre with
  | nil => rfl
  | cons x p ih => simp only [List.cons_append, List.length_cons, unquoteGo]; exact ih

/-! ### the fast path -/

theorem splitAt1_some (q : UInt8) (x : Bytes) : ∃ p, splitAt1 q (x ++ [q]) = some p := by
  induction x with
  | nil => exact ⟨([], []), by simp [splitAt1]⟩
  | cons b x ih =>
    obtain ⟨p, hp⟩ := ih
    simp only [List.cons_append, splitAt1]
    by_cases hb : b = q
    · exact ⟨([], x ++ [q]), by simp [hb]⟩
    · have : (b == q) = false := by simpa using hb
      exact ⟨(b :: p.1, p.2), by simp [this, hp]⟩

end DepsDev.Proofs.C19
