import DepsDev.Proofs.C03L3Npm

/-!
# C03 layer L3 for npm, operator `tilde`: one comparator, prerelease candidates (operands without tag)

See `C03L3Npm` for the statements and the proof script; `C03L3NpmTildeP` has the tagged operands
and the assembled `L3Npm .tilde`.
-/
namespace DepsDev.Proofs.C03

open DepsDev DepsDev.Semver DepsDev.Ref

set_option linter.unusedSimpArgs false
set_option linter.unusedVariables false

theorem l3_full_tilde : L3Full .tilde := by l3_full
theorem l3_part_tilde : L3Part .tilde := by l3_part

end DepsDev.Proofs.C03
