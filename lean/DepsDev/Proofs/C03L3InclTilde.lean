import DepsDev.Proofs.C03L3Incl

/-!
# C03 layer L3 for npm, operator `tilde`: interval membership of a prerelease candidate (operands without tag)

See `C03L3Incl` for the statements and the proof script; `C03L3InclTildeP` has the tagged operands
and the assembled `L1PNpm .tilde`.
-/
namespace DepsDev.Proofs.C03

open DepsDev DepsDev.Semver DepsDev.Ref

set_option linter.unusedSimpArgs false
set_option linter.unusedVariables false

theorem l1p_full_tilde : L1PFull .tilde := by l1p_full
theorem l1p_part_tilde : L1PPart .tilde := by l1p_part

end DepsDev.Proofs.C03
