import DepsDev.Proofs.C06Tree

/-! Helper lemmas for C06 (clause T2): what the two marking loops (`markProtected`, the
hoisting loop `hoist`) do to the `protected` sets. -/

namespace DepsDev.Resolve.Npm

theorem IsSuffix.length_le {q p : Path} (h : IsSuffix q p) : q.length ≤ p.length := by
  obtain ⟨pre, rfl⟩ := h; simp

theorem IsSuffix.eq_of_length {q p : Path} (h : IsSuffix q p) (hl : p.length ≤ q.length) : q = p := by
  obtain ⟨pre, rfl⟩ := h
  have : pre.length = 0 := by simp at hl; omega
  have : pre = [] := List.eq_nil_of_length_eq_zero this
  simp [this]

theorem IsSuffix.antisymm {q p : Path} (h1 : IsSuffix q p) (h2 : IsSuffix p q) : q = p :=
  h1.eq_of_length h2.length_le

theorem IsSuffix.cons_cases {r p : Path} {s : Slot} (h : IsSuffix r (s :: p)) : r = s :: p ∨ IsSuffix r p := by
  obtain ⟨pre, hpre⟩ := h
  cases pre with
  | nil => left; simpa using hpre.symm
  | cons x pre =>
    right
    simp only [List.cons_append, List.cons.injEq] at hpre
    exact ⟨pre, hpre.2⟩

theorem IsSuffix.of_cons {s : Slot} {q p : Path} (h : IsSuffix (s :: q) p) : IsSuffix q p := by
  obtain ⟨pre, rfl⟩ := h
  exact ⟨pre ++ [s], by simp⟩

theorem IsSuffix.nil_eq {r : Path} (h : IsSuffix r []) : r = [] := by
  obtain ⟨pre, hpre⟩ := h
  exact (List.append_eq_nil_iff.1 hpre.symm).2

theorem not_isSuffix_cons (s : Slot) (p : Path) : ¬ IsSuffix (s :: p) p := by
  intro h
  have := h.length_le
  simp at this
  omega

theorem mem_setInsert {k y : Name} {l : List Name} : y ∈ setInsert k l ↔ y = k ∨ y ∈ l := by
  unfold setInsert
  split
  · rename_i h
    constructor
    · exact Or.inr
    · rintro (rfl | h')
      · simpa using h
      · exact h'
  · simp

/-- `t'` is `t` with additional marks `x` in the `protected` sets of directories on the way
from `cur` to the root; nothing else differs. -/
structure MarksRel (x : Name) (cur : Path) (t t' : Tree) : Prop where
  keys : t'.keys = t.keys
  node : ∀ r n, t.get? r = some n → ∃ n', t'.get? r = some n' ∧
    n'.ver = n.ver ∧ n'.ideps = n.ideps ∧ n'.processed = n.processed ∧ n'.id = n.id ∧
    (∀ y ∈ n.prot, y ∈ n'.prot) ∧ (∀ y ∈ n'.prot, y ∈ n.prot ∨ (y = x ∧ IsSuffix r cur))

theorem MarksRel.refl (x : Name) (cur : Path) (t : Tree) : MarksRel x cur t t :=
  ⟨rfl, fun _ n h => ⟨n, h, rfl, rfl, rfl, rfl, fun _ hy => hy, fun _ hy => Or.inl hy⟩⟩

theorem MarksRel.trans {x : Name} {cur : Path} {t1 t2 t3 : Tree}
    (h1 : MarksRel x cur t1 t2) (h2 : MarksRel x cur t2 t3) : MarksRel x cur t1 t3 := by
  refine ⟨h2.keys.trans h1.keys, ?_⟩
  intro r n hn
  obtain ⟨n2, hn2, a1, a2, a3, a4, a5, a6⟩ := h1.node r n hn
  obtain ⟨n3, hn3, b1, b2, b3, b4, b5, b6⟩ := h2.node r n2 hn2
  refine ⟨n3, hn3, b1.trans a1, b2.trans a2, b3.trans a3, b4.trans a4, fun y hy => b5 y (a5 y hy), ?_⟩
  intro y hy
  rcases b6 y hy with hy | hy
  · exact a6 y hy
  · exact Or.inr hy

/-- the converse direction of `node`. -/
theorem MarksRel.node' {x : Name} {cur : Path} {t t' : Tree} (h : MarksRel x cur t t') {r : Path}
    {n' : TNode} (hn' : t'.get? r = some n') : ∃ n, t.get? r = some n ∧
    n'.ver = n.ver ∧ n'.ideps = n.ideps ∧ n'.processed = n.processed ∧ n'.id = n.id ∧
    (∀ y ∈ n.prot, y ∈ n'.prot) ∧ (∀ y ∈ n'.prot, y ∈ n.prot ∨ (y = x ∧ IsSuffix r cur)) := by
  have hr : r ∈ t.keys := by
    rw [← h.keys]; exact Tree.mem_keys_of_mem (Tree.get?_some_mem hn')
  obtain ⟨n, hn⟩ := Tree.mem_keys_get? hr
  obtain ⟨n2, hn2, rest⟩ := h.node r n hn
  rw [hn'] at hn2; cases hn2
  exact ⟨n, hn, rest⟩

theorem MarksRel.modify (x : Name) {cur p : Path} (hp : IsSuffix p cur) (t : Tree) :
    MarksRel x cur t (t.modify p (addProtected x)) := by
  refine ⟨Tree.keys_modify _ _ _, ?_⟩
  intro r n hn
  rw [Tree.get?_modify]
  by_cases hpr : p = r
  · subst hpr
    simp only [if_true, hn, Option.map_some]
    refine ⟨_, rfl, rfl, rfl, rfl, rfl, ?_, ?_⟩
    · intro y hy; exact mem_setInsert.2 (Or.inr hy)
    · intro y hy
      rcases mem_setInsert.1 hy with hy | hy
      · exact Or.inr ⟨hy, hp⟩
      · exact Or.inl hy
  · simp only [hpr, if_false]
    exact ⟨n, hn, rfl, rfl, rfl, rfl, fun _ hy => hy, fun _ hy => Or.inl hy⟩

theorem markNode_empty (x : Name) : markNode x Name.empty = addProtected x := by
  funext n
  simp [markNode, addProtected]

theorem markProtected_rel (x : Name) (cur0 : Path) (t : Tree) (cur : Path) (hc : IsSuffix cur cur0) :
    MarksRel x cur0 t (markProtected x Name.empty t cur) := by
  induction cur generalizing t with
  | nil =>
    simp only [markProtected]
    split
    · exact MarksRel.refl _ _ _
    · rw [markNode_empty]; exact MarksRel.modify x hc t
  | cons s parent ih =>
    simp only [markProtected]
    split
    · exact MarksRel.refl _ _ _
    · rw [markNode_empty]
      exact (MarksRel.modify x hc t).trans (ih _ hc.of_cons)

theorem hoist_rel {pkg alias : Name} (cur0 : Path) {t t' : Tree} {cur L : Path}
    (h : hoist pkg alias t cur = .ok (t', L)) (hc : IsSuffix cur cur0) : MarksRel pkg cur0 t t' := by
  induction cur generalizing t with
  | nil =>
    simp only [hoist, Outcome.ok.injEq, Prod.mk.injEq] at h
    obtain ⟨rfl, _⟩ := h
    exact MarksRel.refl _ _ _
  | cons s pp ih =>
    simp only [hoist] at h
    split at h
    · cases h
    · split at h
      · simp only [Outcome.ok.injEq, Prod.mk.injEq] at h
        obtain ⟨rfl, _⟩ := h
        exact MarksRel.refl _ _ _
      · split at h
        · simp only [Outcome.ok.injEq, Prod.mk.injEq] at h
          obtain ⟨rfl, _⟩ := h
          exact MarksRel.refl _ _ _
        · exact (MarksRel.modify pkg hc t).trans (ih h hc.of_cons)

theorem candidate_none_of_keys {t t' : Tree} (h : t'.keys = t.keys) {p : Path} {ipk alias : Name}
    (hn : candidate t p ipk alias = none) : candidate t' p ipk alias = none := by
  have := candidate_isSome_keys h p ipk alias
  rw [hn] at this
  cases hc : candidate t' p ipk alias with
  | none => rfl
  | some v => rw [hc] at this; simp at this

/-- The marking loop marks every directory from `cur` up to (excluding) the first one whose
slot is occupied. -/
theorem markProtected_marks (x : Name) (t : Tree) (cur r : Path) (hr : IsSuffix r cur)
    (hk : r ∈ t.keys)
    (hfree : ∀ r', IsSuffix r' cur → IsSuffix r r' → candidate t r' x Name.empty = none) :
    ∃ n', (markProtected x Name.empty t cur).get? r = some n' ∧ x ∈ n'.prot := by
  induction cur generalizing t with
  | nil =>
    have : r = [] := hr.nil_eq
    subst this
    have h0 := hfree [] (IsSuffix.refl _) (IsSuffix.refl _)
    simp only [markProtected, h0, Option.isSome_none, Bool.false_eq_true, if_false]
    obtain ⟨n, hn⟩ := Tree.mem_keys_get? hk
    rw [Tree.get?_modify]
    simp only [if_true, hn, Option.map_some]
    exact ⟨_, rfl, by rw [markNode_empty]; exact mem_setInsert.2 (Or.inl rfl)⟩
  | cons s parent ih =>
    have h0 := hfree (s :: parent) (IsSuffix.refl _) hr
    simp only [markProtected, h0, Option.isSome_none, Bool.false_eq_true, if_false]
    rcases hr.cons_cases with hr' | hr'
    · subst hr'
      obtain ⟨n, hn⟩ := Tree.mem_keys_get? hk
      have h1 : (t.modify (s :: parent) (markNode x Name.empty)).get? (s :: parent) =
          some (markNode x Name.empty n) := by
        rw [Tree.get?_modify]; simp [hn]
      obtain ⟨n', hn', _, _, _, _, hmono, _⟩ :=
        (markProtected_rel x (s :: parent) (t.modify (s :: parent) (markNode x Name.empty)) parent
          ((IsSuffix.refl _).of_cons)).node _ _ h1
      refine ⟨n', hn', hmono x ?_⟩
      rw [markNode_empty]; exact mem_setInsert.2 (Or.inl rfl)
    · apply ih _ hr'
      · rw [Tree.keys_modify]; exact hk
      · intro r' hr1 hr2
        exact candidate_none_of_keys (Tree.keys_modify _ _ _) (hfree r' (hr1.cons s) hr2)

/-- The hoisting loop marks every directory it leaves, and it only leaves a directory for
its parent after finding the parent's slot free. -/
theorem hoist_marks {pkg alias : Name} {t t' : Tree} {cur L : Path}
    (h : hoist pkg alias t cur = .ok (t', L)) (r : Path) (hr : IsSuffix r cur) (hL : IsSuffix L r)
    (hne : r ≠ L) (hk : r ∈ t.keys) :
    (∃ n', t'.get? r = some n' ∧ pkg ∈ n'.prot) ∧
      (r ≠ cur → (candidate t r pkg alias).isSome = false) := by
  induction cur generalizing t with
  | nil =>
    simp only [hoist, Outcome.ok.injEq, Prod.mk.injEq] at h
    obtain ⟨_, rfl⟩ := h
    exact absurd (hr.nil_eq) hne
  | cons s pp ih =>
    simp only [hoist] at h
    split at h
    · cases h
    · rename_i ppn hppn
      split at h
      · simp only [Outcome.ok.injEq, Prod.mk.injEq] at h
        obtain ⟨_, rfl⟩ := h
        exact absurd (hr.antisymm hL) hne
      · rename_i hcand
        split at h
        · simp only [Outcome.ok.injEq, Prod.mk.injEq] at h
          obtain ⟨_, rfl⟩ := h
          exact absurd (hr.antisymm hL) hne
        · have hk1 : (t.modify (s :: pp) (addProtected pkg)).keys = t.keys := Tree.keys_modify _ _ _
          rcases hr.cons_cases with hr' | hr'
          · subst hr'
            refine ⟨?_, fun hh => absurd rfl hh⟩
            obtain ⟨n, hn⟩ := Tree.mem_keys_get? hk
            have h1 : (t.modify (s :: pp) (addProtected pkg)).get? (s :: pp) = some (addProtected pkg n) := by
              rw [Tree.get?_modify]; simp [hn]
            obtain ⟨n', hn', _, _, _, _, hmono, _⟩ :=
              (hoist_rel (s :: pp) h ((IsSuffix.refl _).of_cons)).node _ _ h1
            exact ⟨n', hn', hmono pkg (mem_setInsert.2 (Or.inl rfl))⟩
          · obtain ⟨h1, h2⟩ := ih h hr' (by rw [hk1]; exact hk)
            refine ⟨h1, fun _ => ?_⟩
            by_cases hrp : r = pp
            · subst hrp; simpa using hcand
            · have := h2 hrp
              rw [candidate_isSome_keys hk1] at this
              exact this

/-- If the hoisting loop ends above where it started, the directory it ends in was checked
not to be protected for the package. -/
theorem hoist_unprotected {pkg alias : Name} {t t' : Tree} {cur L : Path}
    (h : hoist pkg alias t cur = .ok (t', L)) (hne : L ≠ cur) :
    ∃ n, t.get? L = some n ∧ isProtected n pkg alias = false := by
  induction cur generalizing t with
  | nil =>
    simp only [hoist, Outcome.ok.injEq, Prod.mk.injEq] at h
    exact absurd h.2.symm hne
  | cons s pp ih =>
    simp only [hoist] at h
    split at h
    · cases h
    · rename_i ppn hppn
      split at h
      · simp only [Outcome.ok.injEq, Prod.mk.injEq] at h
        exact absurd h.2.symm hne
      · split at h
        · simp only [Outcome.ok.injEq, Prod.mk.injEq] at h
          exact absurd h.2.symm hne
        · rename_i hprot
          by_cases hLpp : L = pp
          · subst hLpp
            exact ⟨ppn, hppn, by simpa using hprot⟩
          · obtain ⟨n, hn, hp⟩ := ih h hLpp
            refine ⟨n, ?_, hp⟩
            rw [Tree.get?_modify] at hn
            have hsuf : IsSuffix L pp := (hoist_dyn h).2
            have : ¬ (s :: pp = L) := by
              intro heq; rw [← heq] at hsuf; exact not_isSuffix_cons s pp hsuf
            simpa [this] using hn

end DepsDev.Resolve.Npm
