import DepsDev.Proofs.C13Sort

/-!
# The comparators of graph.go are strict total orders whose ties are identical values

`Node.Compare`, `NodeError.Compare` and the edge `less` of `renumber`, as modelled, given
that ranks (`Nat`) stand for `VersionKey` / `dep.Type` values under their own total orders.
-/

namespace DepsDev.Resolve.GraphCanon

/-- A three-way comparison that is a total order whose `.eq` is identity. -/
structure CmpLaws {α : Type} (cmp : α → α → Ordering) : Prop where
  eq_iff : ∀ a b, cmp a b = .eq ↔ a = b
  swap : ∀ a b, cmp b a = (cmp a b).swap
  trans_lt : ∀ a b c, cmp a b = .lt → cmp b c = .lt → cmp a c = .lt

theorem CmpLaws.strictTotal {α : Type} {cmp : α → α → Ordering} (h : CmpLaws cmp) :
    StrictTotal (fun a b => cmp a b == .lt) where
  irrefl := by
    intro a
    have : cmp a a = .eq := (h.eq_iff a a).mpr rfl
    simp [this]
  trans := by
    intro a b c hab hbc
    have hab' : cmp a b = .lt := by simpa using hab
    have hbc' : cmp b c = .lt := by simpa using hbc
    simp [h.trans_lt a b c hab' hbc']
  tri := by
    intro a b hab hba
    apply (h.eq_iff a b).mp
    have hs := h.swap a b
    cases hc : cmp a b with
    | lt => simp [hc] at hab
    | eq => rfl
    | gt => rw [hc] at hs; simp [hs, Ordering.swap] at hba

theorem natCmpLaws : CmpLaws (fun a b : Nat => compare a b) where
  eq_iff := fun a b => Nat.compare_eq_eq
  swap := fun a b => (Nat.compare_swap a b).symm
  trans_lt := by
    intro a b c hab hbc
    rw [Nat.compare_eq_lt] at *
    omega

/-- Lexicographic combination of two lawful comparisons through two projections that
together determine the value. -/
theorem CmpLaws.lex {α β γ : Type} {c1 : β → β → Ordering} {c2 : γ → γ → Ordering}
    (h1 : CmpLaws c1) (h2 : CmpLaws c2) (p1 : α → β) (p2 : α → γ)
    (inj : ∀ a b, p1 a = p1 b → p2 a = p2 b → a = b) :
    CmpLaws (fun a b => (c1 (p1 a) (p1 b)).then (c2 (p2 a) (p2 b))) where
  eq_iff := by
    intro a b
    simp only [Ordering.then_eq_eq]
    constructor
    · rintro ⟨e1, e2⟩
      exact inj a b ((h1.eq_iff _ _).mp e1) ((h2.eq_iff _ _).mp e2)
    · rintro rfl
      exact ⟨(h1.eq_iff _ _).mpr rfl, (h2.eq_iff _ _).mpr rfl⟩
  swap := by
    intro a b
    simp only [Ordering.swap_then, ← h1.swap, ← h2.swap]
  trans_lt := by
    intro a b c hab hbc
    simp only [Ordering.then_eq_lt] at *
    rcases hab with hab | ⟨eab, hab⟩ <;> rcases hbc with hbc | ⟨ebc, hbc⟩
    · exact Or.inl (h1.trans_lt _ _ _ hab hbc)
    · rw [(h1.eq_iff _ _).mp ebc] at hab; exact Or.inl hab
    · rw [← (h1.eq_iff _ _).mp eab] at hbc; exact Or.inl hbc
    · refine Or.inr ⟨?_, h2.trans_lt _ _ _ hab hbc⟩
      rw [(h1.eq_iff _ _).mp eab, (h1.eq_iff _ _).mp ebc]
      exact (h1.eq_iff _ _).mpr rfl

/-! ### byte strings -/

theorem bytesCmp_eq_iff : ∀ a b : Bytes, bytesCmp a b = .eq ↔ a = b := by
  intro a
  induction a with
  | nil => intro b; cases b <;> simp [bytesCmp]
  | cons x xs ih =>
    intro b
    cases b with
    | nil => simp [bytesCmp]
    | cons y ys =>
      simp only [bytesCmp, Ordering.then_eq_eq, Nat.compare_eq_eq, ih, List.cons.injEq]
      constructor
      · rintro ⟨h1, h2⟩; exact ⟨UInt8.toNat_inj.mp h1, h2⟩
      · rintro ⟨h1, h2⟩; exact ⟨by rw [h1], h2⟩

theorem bytesCmp_swap : ∀ a b : Bytes, bytesCmp b a = (bytesCmp a b).swap := by
  intro a
  induction a with
  | nil => intro b; cases b <;> simp [bytesCmp, Ordering.swap]
  | cons x xs ih =>
    intro b
    cases b with
    | nil => simp [bytesCmp, Ordering.swap]
    | cons y ys =>
      simp only [bytesCmp, Ordering.swap_then, ← ih, Nat.compare_swap]

theorem bytesCmp_trans_lt : ∀ a b c : Bytes, bytesCmp a b = .lt → bytesCmp b c = .lt → bytesCmp a c = .lt := by
  intro a
  induction a with
  | nil =>
    intro b c hab hbc
    cases b with
    | nil => simp [bytesCmp] at hab
    | cons y ys =>
      cases c with
      | nil => simp [bytesCmp] at hbc
      | cons z zs => simp [bytesCmp]
  | cons x xs ih =>
    intro b c hab hbc
    cases b with
    | nil => simp [bytesCmp] at hab
    | cons y ys =>
      cases c with
      | nil => simp [bytesCmp] at hbc
      | cons z zs =>
        simp only [bytesCmp, Ordering.then_eq_lt, Nat.compare_eq_lt, Nat.compare_eq_eq] at *
        rcases hab with hab | ⟨eab, hab⟩ <;> rcases hbc with hbc | ⟨ebc, hbc⟩
        · exact Or.inl (by omega)
        · exact Or.inl (by omega)
        · exact Or.inl (by omega)
        · exact Or.inr ⟨by omega, ih _ _ hab hbc⟩

theorem bytesCmpLaws : CmpLaws bytesCmp := ⟨bytesCmp_eq_iff, bytesCmp_swap, bytesCmp_trans_lt⟩

/-! ### `NodeError.Compare` -/

theorem nodeErrorCmpLaws : CmpLaws NodeError.cmp :=
  CmpLaws.lex natCmpLaws bytesCmpLaws NodeError.req NodeError.msg
    (by intro a b h1 h2; cases a; cases b; simp_all)

theorem nodeErrorLess_strictTotal : StrictTotal NodeError.less :=
  nodeErrorCmpLaws.strictTotal

/-! ### error lists: length first, then element-wise (the body of `Node.Compare`) -/

/-- The error-slice part of `Node.Compare`. -/
def errListCmp (a b : List NodeError) : Ordering :=
  (compare a.length b.length).then (errsCmp a b)

theorem errsCmp_self : ∀ a : List NodeError, errsCmp a a = .eq := by
  intro a
  induction a with
  | nil => simp [errsCmp]
  | cons x xs ih => simp [errsCmp, ih, (nodeErrorCmpLaws.eq_iff x x).mpr rfl]

theorem errsCmp_eq : ∀ a b : List NodeError, a.length = b.length → errsCmp a b = .eq → a = b := by
  intro a
  induction a with
  | nil => intro b hl _; cases b with
    | nil => rfl
    | cons _ _ => simp at hl
  | cons x xs ih =>
    intro b hl h
    cases b with
    | nil => simp at hl
    | cons y ys =>
      simp only [errsCmp, Ordering.then_eq_eq] at h
      simp only [List.length_cons, Nat.add_right_cancel_iff] at hl
      rw [(nodeErrorCmpLaws.eq_iff x y).mp h.1, ih ys hl h.2]

theorem errsCmp_swap : ∀ a b : List NodeError, errsCmp b a = (errsCmp a b).swap := by
  intro a
  induction a with
  | nil => intro b; cases b <;> simp [errsCmp, Ordering.swap]
  | cons x xs ih =>
    intro b
    cases b with
    | nil => simp [errsCmp, Ordering.swap]
    | cons y ys => simp only [errsCmp, Ordering.swap_then, ← ih, ← nodeErrorCmpLaws.swap]

theorem errsCmp_trans_lt : ∀ a b c : List NodeError, a.length = b.length → b.length = c.length →
    errsCmp a b = .lt → errsCmp b c = .lt → errsCmp a c = .lt := by
  intro a
  induction a with
  | nil => intro b c _ _ hab _; cases b <;> simp [errsCmp] at hab
  | cons x xs ih =>
    intro b c l1 l2 hab hbc
    cases b with
    | nil => simp at l1
    | cons y ys =>
      cases c with
      | nil => simp at l2
      | cons z zs =>
        simp only [List.length_cons, Nat.add_right_cancel_iff] at l1 l2
        simp only [errsCmp, Ordering.then_eq_lt] at *
        rcases hab with hab | ⟨eab, hab⟩ <;> rcases hbc with hbc | ⟨ebc, hbc⟩
        · exact Or.inl (nodeErrorCmpLaws.trans_lt _ _ _ hab hbc)
        · rw [(nodeErrorCmpLaws.eq_iff _ _).mp ebc] at hab; exact Or.inl hab
        · rw [← (nodeErrorCmpLaws.eq_iff _ _).mp eab] at hbc; exact Or.inl hbc
        · refine Or.inr ⟨?_, ih _ _ l1 l2 hab hbc⟩
          rw [(nodeErrorCmpLaws.eq_iff _ _).mp eab, (nodeErrorCmpLaws.eq_iff _ _).mp ebc]
          exact (nodeErrorCmpLaws.eq_iff _ _).mpr rfl

theorem errListCmpLaws : CmpLaws errListCmp where
  eq_iff := by
    intro a b
    simp only [errListCmp, Ordering.then_eq_eq, Nat.compare_eq_eq]
    constructor
    · rintro ⟨h1, h2⟩; exact errsCmp_eq a b h1 h2
    · rintro rfl; exact ⟨rfl, errsCmp_self a⟩
  swap := by
    intro a b
    simp only [errListCmp, Ordering.swap_then, ← errsCmp_swap, Nat.compare_swap]
  trans_lt := by
    intro a b c hab hbc
    simp only [errListCmp, Ordering.then_eq_lt, Nat.compare_eq_lt, Nat.compare_eq_eq] at *
    rcases hab with hab | ⟨eab, hab⟩ <;> rcases hbc with hbc | ⟨ebc, hbc⟩
    · exact Or.inl (by omega)
    · exact Or.inl (by omega)
    · exact Or.inl (by omega)
    · exact Or.inr ⟨by omega, errsCmp_trans_lt a b c eab ebc hab hbc⟩

/-! ### `Node.Compare` -/

theorem nodeCmpLaws : CmpLaws Node.cmp :=
  CmpLaws.lex natCmpLaws errListCmpLaws Node.ver Node.errs
    (by intro a b h1 h2; cases a; cases b; simp_all)

/-- `Node.Compare` returns 0 exactly on identical nodes. -/
theorem Node.cmp_eq_iff (a b : Node) : a.cmp b = .eq ↔ a = b := nodeCmpLaws.eq_iff a b

theorem nodeLess_strictTotal : StrictTotal Node.less := nodeCmpLaws.strictTotal

theorem pairLess_strictWeak : StrictWeak pairLess :=
  nodeLess_strictTotal.weak.pullback Prod.fst

/-! ### the edge order of `renumber` -/

/-- `Edge.less` as a lexicographic three-way comparison. -/
def Edge.cmp (a b : Edge) : Ordering :=
  (compare a.src b.src).then ((compare a.dst b.dst).then ((bytesCmp a.req b.req).then (compare a.typ b.typ)))

theorem reqTypLaws : CmpLaws (fun x y : Bytes × Nat => (bytesCmp x.1 y.1).then (compare x.2 y.2)) :=
  CmpLaws.lex bytesCmpLaws natCmpLaws Prod.fst Prod.snd (fun _ _ h1 h2 => Prod.ext h1 h2)

theorem dstReqTypLaws : CmpLaws (fun x y : Nat × (Bytes × Nat) =>
    (compare x.1 y.1).then ((bytesCmp x.2.1 y.2.1).then (compare x.2.2 y.2.2))) :=
  CmpLaws.lex natCmpLaws reqTypLaws Prod.fst Prod.snd (fun _ _ h1 h2 => Prod.ext h1 h2)

theorem edgeCmpLaws : CmpLaws Edge.cmp :=
  CmpLaws.lex natCmpLaws dstReqTypLaws (fun e : Edge => e.src) (fun e : Edge => (e.dst, (e.req, e.typ)))
    (by intro a b h1 h2; cases a; cases b; simp_all)

theorem Edge.less_eq_cmp (a b : Edge) : a.less b = (a.cmp b == .lt) := by
  obtain ⟨s1, d1, r1, t1⟩ := a
  obtain ⟨s2, d2, r2, t2⟩ := b
  simp only [Edge.less, Edge.cmp]
  by_cases hs : s1 = s2
  · subst hs
    by_cases hd : d1 = d2
    · subst hd
      by_cases hr : r1 = r2
      · subst hr
        simp [(bytesCmp_eq_iff _ _).mpr rfl]
      · have hne : bytesCmp r1 r2 ≠ .eq := fun h => hr ((bytesCmp_eq_iff _ _).mp h)
        cases hc : bytesCmp r1 r2 <;> simp_all
    · rcases Nat.lt_or_gt_of_ne hd with h | h
      · simp [hd, Nat.compare_eq_lt.mpr h, h]
      · simp [hd, Nat.compare_eq_gt.mpr h, Nat.not_lt.mpr (Nat.le_of_lt h)]
  · rcases Nat.lt_or_gt_of_ne hs with h | h
    · simp [Ne.symm hs, Nat.compare_eq_lt.mpr h, h]
    · simp [Ne.symm hs, Nat.compare_eq_gt.mpr h, Nat.not_lt.mpr (Nat.le_of_lt h)]

theorem edgeLess_strictTotal : StrictTotal Edge.less := by
  have h := edgeCmpLaws.strictTotal
  have e : Edge.less = fun a b => a.cmp b == .lt := by
    funext a b; exact Edge.less_eq_cmp a b
  rw [e]; exact h

end DepsDev.Resolve.GraphCanon
