/-
Helper lemmas for C19, part 3: `strings.Fields` on a string written as tokens joined
by single spaces. If every token is non-empty and contains no white space then
`fields (join " " toks) = toks`.
-/
import DepsDev.Proofs.C19Machine

namespace DepsDev.Proofs.C19
open DepsDev DepsDev.Gen DepsDev.Model.Resolve DepsDev.Model.Resolve.Attr DepsDev.Model.Resolve.AttrText

theorem find?_congr' {α} (p q : α → Bool) (l : List α) (h : ∀ x ∈ l, p x = q x) :
    l.find? p = l.find? q := by
  induction l with
  | nil => rfl
  | cons a l ih =>
    simp only [List.find?_cons]
    rw [h a (by simp), ih (fun x hx => h x (by simp [hx]))]

/-- facts about the generated table of white-space encodings the model relies on. -/
theorem patterns_tail : ∀ p ∈ C19Print.spacePatterns, ∀ c ∈ p.tail, c ≠ 0x20 := by decide
theorem patterns_ne : ∀ p ∈ C19Print.spacePatterns, p ≠ [] := by decide

theorem isPrefixOf_append_left (p x y : Bytes) (h : p.isPrefixOf x = true) :
    p.isPrefixOf (x ++ y) = true := by
  induction p generalizing x with
  | nil => simp
  | cons b p ih =>
    cases x with
    | nil => simp at h
    | cons a x =>
      simp only [List.cons_append, List.isPrefixOf_cons_cons, Bool.and_eq_true] at h ⊢
      exact ⟨h.1, ih x h.2⟩

/-- a pattern without spaces that is a prefix of `x ++ " " ++ rest` is a prefix of `x`. -/
theorem isPrefixOf_of_append_space (p x rest : Bytes) (hp : ∀ c ∈ p, c ≠ 0x20)
    (h : p.isPrefixOf (x ++ 0x20 :: rest) = true) : p.isPrefixOf x = true := by
  induction p generalizing x with
  | nil => simp
  | cons b p ih =>
    cases x with
    | nil =>
      simp only [List.nil_append, List.isPrefixOf_cons_cons, Bool.and_eq_true, beq_iff_eq] at h
      exact absurd h.1 (hp b (by simp))
    | cons a x =>
      simp only [List.cons_append, List.isPrefixOf_cons_cons, Bool.and_eq_true] at h ⊢
      exact ⟨h.1, ih x (fun c hc => hp c (by simp [hc])) h.2⟩

theorem spaceWidth_append_space (a : UInt8) (x rest : Bytes) :
    spaceWidth ((a :: x) ++ 0x20 :: rest) = spaceWidth (a :: x) := by
  unfold spaceWidth
  have hc := find?_congr' (fun p : Bytes => p.isPrefixOf ((a :: x) ++ 0x20 :: rest))
    (fun p : Bytes => p.isPrefixOf (a :: x)) C19Print.spacePatterns ?_
  · rw [hc]
  intro p hp
  show p.isPrefixOf ((a :: x) ++ 0x20 :: rest) = p.isPrefixOf (a :: x)
  cases p with
  | nil => simp
  | cons b p =>
    have ht := patterns_tail (b :: p) hp
    simp only [List.tail_cons] at ht
    cases hpre : (b :: p).isPrefixOf (a :: x) with
    | true => exact isPrefixOf_append_left _ _ _ hpre
    | false =>
      cases hpre2 : (b :: p).isPrefixOf ((a :: x) ++ 0x20 :: rest) with
      | false => rfl
      | true =>
        simp only [List.cons_append, List.isPrefixOf_cons_cons, Bool.and_eq_true] at hpre2
        have := isPrefixOf_of_append_space p x rest ht hpre2.2
        simp only [List.isPrefixOf_cons_cons, hpre2.1, this, Bool.and_self] at hpre
        cases hpre

theorem spaceWidth_space (rest : Bytes) : spaceWidth (0x20 :: rest) = 1 := by
  simp [spaceWidth, C19Print.spacePatterns, List.find?, List.isPrefixOf]

theorem hasSpace_cons (b : UInt8) (t : Bytes) :
    hasSpace (b :: t) = (spaceWidth (b :: t) != 0 || hasSpace t) := rfl

/-- scanning a space-free token followed by a space. -/
theorem fieldsGo_token (tok rest cur : Bytes) (hs : hasSpace tok = false) :
    fieldsGo (tok ++ 0x20 :: rest) 0 cur = fieldsGo (0x20 :: rest) 0 (tok.reverse ++ cur) := by
  induction tok generalizing cur with
  | nil => simp
  | cons b t ih =>
    rw [hasSpace_cons] at hs
    simp only [Bool.or_eq_false_iff, bne_eq_false_iff_eq, beq_iff_eq] at hs
    have hw : spaceWidth ((b :: t) ++ 0x20 :: rest) = 0 := by rw [spaceWidth_append_space]; exact hs.1
    have : fieldsGo ((b :: t) ++ 0x20 :: rest) 0 cur = fieldsGo (t ++ 0x20 :: rest) 0 (b :: cur) := by
      show fieldsGo (b :: (t ++ 0x20 :: rest)) 0 cur = _
      rw [fieldsGo]
      simp only [List.cons_append] at hw
      simp [hw]
    rw [this, ih (b :: cur) hs.2]
    simp

/-- scanning a space-free token at the end of the string. -/
theorem fieldsGo_last (tok cur : Bytes) (hs : hasSpace tok = false) :
    fieldsGo tok 0 cur = if (tok.reverse ++ cur).isEmpty then [] else [(tok.reverse ++ cur).reverse] := by
  induction tok generalizing cur with
  | nil => simp [fieldsGo]
  | cons b t ih =>
    rw [hasSpace_cons] at hs
    simp only [Bool.or_eq_false_iff, bne_eq_false_iff_eq, beq_iff_eq] at hs
    rw [fieldsGo]
    simp only [hs.1, if_true]
    rw [ih (b :: cur) hs.2]
    simp

theorem fieldsGo_space (rest cur : Bytes) :
    fieldsGo (0x20 :: rest) 0 cur = (if cur.isEmpty then [] else [cur.reverse]) ++ fieldsGo rest 0 [] := by
  rw [fieldsGo]
  simp [spaceWidth_space]

/-- a token that `strings.Fields` leaves whole. -/
def plainTok (t : Bytes) : Bool := !t.isEmpty && !hasSpace t

/-- `strings.Fields(strings.Join(toks, " ")) = toks` for non-empty, space-free tokens. -/
theorem fields_join (toks : List Bytes) (h : ∀ t ∈ toks, plainTok t = true) :
    fields (join [0x20] toks) = toks := by
  unfold fields
  induction toks with
  | nil => simp [join, fieldsGo]
  | cons t ts ih =>
    have ht := h t (by simp)
    simp only [plainTok, Bool.and_eq_true, Bool.not_eq_eq_eq_not, Bool.not_true] at ht
    cases ts with
    | nil =>
      simp only [join]
      rw [fieldsGo_last t [] ht.2]
      cases t with
      | nil => simp at ht
      | cons b t' => simp
    | cons u us =>
      simp only [join]
      have : t ++ [0x20] ++ join [0x20] (u :: us) = t ++ 0x20 :: join [0x20] (u :: us) := by simp
      rw [this, fieldsGo_token t _ [] ht.2, fieldsGo_space]
      rw [ih (fun x hx => h x (by simp [hx]))]
      cases t with
      | nil => simp at ht
      | cons b t' => simp

end DepsDev.Proofs.C19
