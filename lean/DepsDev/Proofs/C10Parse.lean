import DepsDev.Proofs.C10Nums

/-!
# C10-a — the generic version parser on canonical text

`elem`/`metadata` on dot-separated identifiers, the stages `gPre`, `gBuild`, `gFinish`, the
AST `SemVerAst` with `render`/`embed`, and `parseGeneric_render`:
`parseGeneric sys (render a) allowInf = ok (embed a)` for the six SemVer-family systems.
-/
namespace DepsDev.Proofs.C10
open DepsDev DepsDev.Semver Digits

/-- Bytes of a prerelease/build identifier: `[0-9A-Za-z-]`. -/
def isIdentB (c : UInt8) : Bool := c == 45 || isAlnumB c

/-- Identifier bytes of system `s`: `[0-9A-Za-z-]`, and for NuGet also `*` (floating versions). -/
def identByte (s : System) (c : UInt8) : Bool := isIdentB c || (s == .nuget && c == 42)

/-- A non-empty identifier of system `s` (for NuGet with at most one `*`, as its scanner accepts). -/
def IdentOk (s : System) (i : Bytes) : Bool := !i.isEmpty && i.all (identByte s) && decide (i.count 42 ≤ 1)

theorem forall_uint8' (P : UInt8 → Prop) (h : ∀ n, n < 256 → P (UInt8.ofNat n)) : ∀ c, P c :=
  forall_uint8 P h

theorem ident_vs_all : ∀ c : UInt8, isIdentB c = true → (isVS c = true ∧ isAlnumHyphenRune (c.toNat : Int) = true) := by
  apply forall_uint8
  decide +kernel

theorem not_ident_all : ∀ c : UInt8, isIdentB c = false → isAlnumHyphenRune (c.toNat : Int) = false := by
  apply forall_uint8
  decide +kernel

/-- What may follow an identifier: the end, or an accepted byte outside `[0-9A-Za-z-]` other than `*`. -/
def StopsIdent (ys : Bytes) : Prop :=
  ys = [] ∨ ∃ c r, ys = c :: r ∧ isVS c = true ∧ isIdentB c = false ∧ c ≠ 42

theorem StopsIdent.stops {ys : Bytes} (h : StopsIdent ys) : Stops isAlnumHyphenRune ys := by
  rcases h with h | ⟨c, r, h, hc, hd, _⟩
  · exact Or.inl h
  · exact Or.inr ⟨c, r, h, hc, not_ident_all c hd⟩

theorem scanNuGet_go_succ (l : Lex) (seen : Bool) (k : Nat) :
    PS.scanNuGetElem.go l seen (k + 1) =
      if isAlnumHyphenRune l.next.1 = true then PS.scanNuGetElem.go l.next.2 seen k
      else if (l.next.2.back.next.1 == 42 && !seen) = true then PS.scanNuGetElem.go l.next.2.back.next.2 true k
      else l.next.2.back.next.2.back := rfl

theorem scanNuGet_go (xs ys : Bytes) (hx : ∀ c ∈ xs, isIdentB c = true ∨ c = 42) (hy : StopsIdent ys) :
    ∀ (seen : Bool) (l : Lex) (fuel : Nat), l.rest = xs ++ ys → xs.length < fuel →
      xs.count 42 ≤ (if seen then 0 else 1) →
      PS.scanNuGetElem.go l seen fuel = { l with rest := ys, prev := ys } := by
  induction xs with
  | nil =>
    intro seen l fuel hr hf _
    obtain ⟨fuel, rfl⟩ : ∃ k, fuel = k + 1 := ⟨fuel - 1, by simp at hf; omega⟩
    simp only [List.nil_append] at hr
    rw [scanNuGet_go_succ]
    rcases hy with rfl | ⟨c, r, rfl, hc, hpc, h42⟩
    · have h1 : l.next = (eof, { l with prev := [] }) := next_nil l hr
      have h2 : l.next.2.back = { l with prev := [] } := by rw [h1]; simp [Lex.back, hr]
      have h3 : ({ l with prev := [] } : Lex).next = (eof, { l with prev := [] }) := next_nil _ hr
      rw [h2, h3, h1]
      have e : isAlnumHyphenRune eof = false := by decide
      have e2 : ((eof : Rune) == 42) = false := by decide
      simp only [e, e2, Bool.false_eq_true, ↓reduceIte, Bool.false_and]
      simp [Lex.back, hr]
    · have h1 : l.next = ((c.toNat : Int), { l with rest := r, prev := c :: r }) := next_vs l c r hr hc
      have h2 : l.next.2.back = { l with rest := c :: r, prev := c :: r } := by rw [h1]; rfl
      have h3 : ({ l with rest := c :: r, prev := c :: r } : Lex).next =
          ((c.toNat : Int), { l with rest := r, prev := c :: r }) := next_vs _ c r rfl hc
      rw [h2, h3, h1]
      have e := not_ident_all c hpc
      have e2 : (((c.toNat : Int) : Rune) == 42) = false := by
        have : c.toNat ≠ 42 := fun e => h42 (UInt8.toNat_inj.mp e)
        rw [beq_eq_false_iff_ne]; show ¬ ((c.toNat : Int) = 42); omega
      simp only [e, e2, Bool.false_eq_true, ↓reduceIte, Bool.false_and]
      rfl
  | cons x xs ih =>
    intro seen l fuel hr hf hcnt
    obtain ⟨fuel, rfl⟩ : ∃ k, fuel = k + 1 := ⟨fuel - 1, by simp at hf; omega⟩
    simp only [List.cons_append] at hr
    rw [scanNuGet_go_succ]
    rcases hx x (by simp) with hxi | rfl
    · have hx0 := ident_vs_all x hxi
      have h1 : l.next = ((x.toNat : Int), { l with rest := xs ++ ys, prev := x :: (xs ++ ys) }) := next_vs l x _ hr hx0.1
      have hne : x ≠ 42 := by intro e; subst e; exact absurd hxi (by decide)
      rw [h1]
      simp only [hx0.2, ↓reduceIte]
      rw [ih (fun c hc => hx c (by simp [hc])) seen _ fuel rfl (by simpa using hf)
        (by rw [List.count_cons_of_ne hne] at hcnt; exact hcnt)]
    · -- the (single) `*`
      have hv : isVS 42 = true := by decide
      have hseen : seen = false := by
        cases seen with
        | false => rfl
        | true => simp at hcnt
      subst hseen
      have hc0 : xs.count 42 ≤ 0 := by simp at hcnt; omega
      have h1 : l.next = (((42 : UInt8).toNat : Int), { l with rest := xs ++ ys, prev := 42 :: (xs ++ ys) }) := next_vs l 42 _ hr hv
      have h2 : l.next.2.back = { l with rest := 42 :: (xs ++ ys), prev := 42 :: (xs ++ ys) } := by rw [h1]; rfl
      have h3 : ({ l with rest := 42 :: (xs ++ ys), prev := 42 :: (xs ++ ys) } : Lex).next =
          (((42 : UInt8).toNat : Int), { l with rest := xs ++ ys, prev := 42 :: (xs ++ ys) }) := next_vs _ 42 _ rfl hv
      rw [h2, h3, h1]
      have e : isAlnumHyphenRune (((42 : UInt8).toNat : Int)) = false := by decide
      have e2 : ((((42 : UInt8).toNat : Int) : Rune) == 42 && !false) = true := by decide
      simp only [e, e2, Bool.false_eq_true, ↓reduceIte]
      rw [ih (fun c hc => hx c (by simp [hc])) true _ fuel rfl (by simpa using hf) (by simpa using hc0)]

theorem scanNuGet_block (xs ys : Bytes) (hx : ∀ c ∈ xs, isIdentB c = true ∨ c = 42) (hc : xs.count 42 ≤ 1)
    (hy : StopsIdent ys) (l : Lex) (hr : l.rest = xs ++ ys) :
    PS.scanNuGetElem l = { l with rest := ys, prev := ys } := by
  unfold PS.scanNuGetElem
  exact scanNuGet_go xs ys hx hy false l _ hr (by rw [hr]; simp; omega) (by simpa using hc)

/-- `elem` on an identifier followed by a stopping byte. -/
theorem elem_ident (p : PS) (id ys : Bytes) (hr : p.lex.rest = id ++ ys) (hid : IdentOk p.v.sys id = true)
    (hy : StopsIdent ys) :
    PS.elem p = (some id, { p with lex := { p.lex with rest := ys, prev := ys } }) := by
  simp only [IdentOk, Bool.and_eq_true, Bool.not_eq_true', List.isEmpty_eq_false_iff, List.all_eq_true,
    decide_eq_true_eq] at hid
  obtain ⟨⟨hne, hall⟩, hcnt⟩ := hid
  have hscan : (if p.v.sys == .nuget then PS.scanNuGetElem p.lex else PS.scanWhile isAlnumHyphenRune p.lex) =
      { p.lex with rest := ys, prev := ys } := by
    split
    · refine scanNuGet_block id ys ?_ hcnt hy p.lex hr
      intro c hc
      have := hall c hc
      simp only [identByte, Bool.or_eq_true, Bool.and_eq_true, beq_iff_eq] at this
      exact this.imp (fun h => h) (fun h => h.2)
    · rename_i hn
      refine scanWhile_block isAlnumHyphenRune (by decide) id ys (fun c hc => ident_vs_all c ?_) hy.stops p.lex hr
      have := hall c hc
      simp only [identByte, hn, Bool.false_and, Bool.or_false] at this
      exact this
  unfold PS.elem
  simp only [hscan, hr, List.length_append]
  have hpos : 0 < id.length := List.length_pos_iff.mpr hne
  have : (id.length + ys.length - ys.length == 0) = false := by rw [beq_eq_false_iff_ne]; omega
  simp only [this, Bool.false_eq_true, ↓reduceIte]
  have : id.length + ys.length - ys.length = id.length := by omega
  rw [this, List.take_left']
  rfl

/-- What may follow a dot-separated identifier list: the end, or an accepted byte outside
`[0-9A-Za-z-]` other than `*` and `.`. -/
def StopsMeta (ys : Bytes) : Prop :=
  ys = [] ∨ ∃ c r, ys = c :: r ∧ isVS c = true ∧ isIdentB c = false ∧ c ≠ 42 ∧ c ≠ 46

theorem StopsMeta.ident {ys : Bytes} (h : StopsMeta ys) : StopsIdent ys := by
  rcases h with h | ⟨c, r, h, h1, h2, h3, _⟩
  · exact Or.inl h
  · exact Or.inr ⟨c, r, h, h1, h2, h3⟩

theorem StopsMeta.next_ne_dot {ys : Bytes} (h : StopsMeta ys) (l : Lex) (hr : l.rest = ys) :
    (l.next.1 == 46) = false := by
  rcases h with h | ⟨c, r, h, h1, _, _, h3⟩
  · rw [next_nil l (hr.trans h)]; rfl
  · rw [next_vs l c r (hr.trans h) h1]
    have : c.toNat ≠ 46 := fun e => h3 (UInt8.toNat_inj.mp e)
    rw [beq_eq_false_iff_ne]; show ¬ ((c.toNat : Int) = 46); omega

theorem metadata_go (ys : Bytes) (hy : StopsMeta ys) (ids : List Bytes) :
    ∀ (id : Bytes) (p : PS) (acc : List Bytes) (r0 : Rune) (fuel : Nat),
      p.lex.rest = joinWith 46 (id :: ids) ++ ys → (∀ i ∈ id :: ids, IdentOk p.v.sys i = true) → ids.length < fuel →
      PS.metadata.go p acc r0 fuel =
        (acc ++ id :: ids, ({ p.lex with rest := ys, prev := ys } : Lex).next.1,
          { p with lex := ({ p.lex with rest := ys, prev := ys } : Lex).next.2 }) := by
  induction ids with
  | nil =>
    intro id p acc r0 fuel hr hid hf
    obtain ⟨fuel, rfl⟩ : ∃ k, fuel = k + 1 := ⟨fuel - 1, by simp at hf; omega⟩
    simp only [joinWith] at hr
    simp only [PS.metadata.go, elem_ident p id ys hr (hid id (by simp)) hy.ident]
    have := hy.next_ne_dot ({ p.lex with rest := ys, prev := ys } : Lex) rfl
    simp only [this, Bool.false_eq_true, ↓reduceIte]
  | cons b rest ih =>
    intro id p acc r0 fuel hr hid hf
    obtain ⟨fuel, rfl⟩ : ∃ k, fuel = k + 1 := ⟨fuel - 1, by simp at hf; omega⟩
    have hr' : p.lex.rest = id ++ (46 :: (joinWith 46 (b :: rest) ++ ys)) := by
      rw [hr]; simp [joinWith]
    have hstop : StopsIdent (46 :: (joinWith 46 (b :: rest) ++ ys)) :=
      Or.inr ⟨46, _, rfl, by decide, by decide, by decide⟩
    simp only [PS.metadata.go, elem_ident p id _ hr' (hid id (by simp)) hstop]
    rw [next_vs _ 46 (joinWith 46 (b :: rest) ++ ys) rfl (by decide)]
    have h46 : (((46 : UInt8).toNat : Int) == (46 : Rune)) = true := by decide
    simp only [h46, ↓reduceIte]
    rw [ih b { v := p.v, lex := { p.lex with rest := joinWith 46 (b :: rest) ++ ys, prev := 46 :: (joinWith 46 (b :: rest) ++ ys) } }
      _ _ fuel rfl (fun i hi => hid i (by simp at hi ⊢; right; exact hi)) (by simpa using hf)]
    simp


theorem joinWith_length (id : Bytes) (ids : List Bytes) : ids.length ≤ (joinWith 46 (id :: ids)).length := by
  induction ids generalizing id with
  | nil => simp
  | cons b rest ih =>
    have := ih b
    simp only [joinWith, List.length_append, List.length_cons, List.length_nil] at this ⊢
    omega

/-- `metadata` on `id1.id2.….idk` followed by a stopping byte (or the end). -/
theorem metadata_idents (ys : Bytes) (hy : StopsMeta ys) (id : Bytes) (ids : List Bytes) (p : PS)
    (hr : p.lex.rest = joinWith 46 (id :: ids) ++ ys) (hid : ∀ i ∈ id :: ids, IdentOk p.v.sys i = true) :
    PS.metadata p =
      (id :: ids, ({ p.lex with rest := ys, prev := ys } : Lex).next.1,
        { p with lex := ({ p.lex with rest := ys, prev := ys } : Lex).next.2 }) := by
  unfold PS.metadata
  rw [metadata_go ys hy ids id p [] 0 _ hr hid (by
    have := joinWith_length id ids
    rw [hr, List.length_append]; omega)]
  rfl

/-- The printed prerelease part: empty, or `-id1.….idk`. -/
def renderPre : List Bytes → Bytes
  | [] => []
  | ps => 45 :: joinWith 46 ps

/-- The printed build part: empty, or `+id1.….idk` (this is also how `Version.build` stores it). -/
def renderBuild : List Bytes → Bytes
  | [] => []
  | ps => 43 :: joinWith 46 ps


/-- Stage 2 on `-id1.….idk` (the `-` already consumed, `r = '-'`). -/
theorem gPre_dash (sys : System) (p : PS) (ys : Bytes) (hy : StopsMeta ys) (id : Bytes) (ids : List Bytes)
    (hr : p.lex.rest = joinWith 46 (id :: ids) ++ ys) (hid : ∀ i ∈ id :: ids, IdentOk p.v.sys i = true)
    (h3 : 3 ≤ p.v.num.length) :
    PS.gPre sys p 45 =
      .ok ({ v := { p.v with isPrerelease := true, pre := p.v.pre ++ id :: ids },
             lex := ({ p.lex with rest := ys, prev := ys } : Lex).next.2 },
           ({ p.lex with rest := ys, prev := ys } : Lex).next.1) := by
  unfold PS.gPre
  have hgo : (sys == System.go && decide (p.v.num.length < 3)) = false := by
    have : ¬ p.v.num.length < 3 := by omega
    simp [this]
  have hm := metadata_idents ys hy id ids { p with v := { p.v with isPrerelease := true } } hr hid
  simp only [beq_self_eq_true, ↓reduceIte, hgo, Bool.false_eq_true, hm]

/-- Stage 2 when no prerelease part follows (`r` is the end of input or `+`). -/
theorem gPre_none (sys : System) (hs : Generic sys = true) (p : PS) (r : Rune) (h : r = eof ∨ r = 43) :
    PS.gPre sys p r = .ok (p, r) := by
  unfold PS.gPre
  have h1 : (r == 45) = false := by rcases h with rfl | rfl <;> decide
  have h2 : (r == 42) = false := by rcases h with rfl | rfl <;> decide
  simp only [h1, h2, Bool.false_eq_true, ↓reduceIte, Bool.false_and, generic_ne_rubygems sys hs]

/-- Stage 3 on `+id1.….idk` up to the end of the input (the `+` already consumed). -/
theorem gBuild_plus (sys : System) (hs : Generic sys = true) (p : PS) (id : Bytes) (ids : List Bytes)
    (hr : p.lex.rest = joinWith 46 (id :: ids)) (hid : ∀ i ∈ id :: ids, IdentOk p.v.sys i = true)
    (h3 : 3 ≤ p.v.num.length) :
    PS.gBuild sys p 43 =
      .ok ({ v := { p.v with build := 43 :: joinWith 46 (id :: ids) },
             lex := { p.lex with rest := [], prev := [] } }, eof) := by
  unfold PS.gBuild
  have hgo : (sys == System.go && decide (p.v.num.length < 3)) = false := by
    have : ¬ p.v.num.length < 3 := by omega
    simp [this]
  have hm := metadata_idents [] (Or.inl rfl) id ids p (by simpa using hr) hid
  rw [next_nil _ rfl] at hm
  have hne : (sys != System.rubygems) = true := by simp [bne, generic_ne_rubygems sys hs]
  simp only [beq_self_eq_true, hne, Bool.and_self, ↓reduceIte, hgo, Bool.false_eq_true, hm, hr,
    List.length_nil, Nat.sub_zero, List.take_length]

/-- Stage 3 when no build part follows. -/
theorem gBuild_none (sys : System) (p : PS) : PS.gBuild sys p eof = .ok (p, eof) := by
  unfold PS.gBuild
  have : ((eof : Rune) == 43) = false := by decide
  simp only [this, Bool.false_and, Bool.false_eq_true, ↓reduceIte]

/-- Stage 4 at the end of the input with no error recorded. -/
theorem gFinish_eof (sys : System) (p : PS) (he : p.lex.err = false) (h3 : 3 ≤ p.v.num.length) :
    PS.gFinish sys p eof = .ok { p.v with userNumCount := p.v.num.length } := by
  unfold PS.gFinish
  have h1 : ((eof : Rune) != eof) = false := by decide
  have h2 : decide (p.v.num.length < 3) = false := by simp; omega
  simp only [h1, Bool.false_eq_true, ↓reduceIte, h2, Bool.and_false, he]


theorem stopsMeta_build (bs : List Bytes) : StopsMeta (renderBuild bs) := by
  cases bs with
  | nil => exact Or.inl rfl
  | cons b bs => exact Or.inr ⟨43, _, rfl, by decide, by decide, by decide, by decide⟩

theorem stopsNums_tail (pre build : List Bytes) : StopsNums (renderPre pre ++ renderBuild build) := by
  cases pre with
  | nil =>
    cases build with
    | nil => exact Or.inl rfl
    | cons b bs => exact Or.inr ⟨43, _, rfl, by decide, by decide, by decide⟩
  | cons a as => exact Or.inr ⟨45, _, rfl, by decide, by decide, by decide⟩

/-- Stages 2–4 in sequence. -/
def gTail (sys : System) (p : PS) (r : Rune) : Outcome Version :=
  match PS.gPre sys p r with
  | .err => .err
  | .panic => .panic
  | .ok (p, r) =>
    match PS.gBuild sys p r with
    | .err => .err
    | .panic => .panic
    | .ok (p, r) => PS.gFinish sys p r

theorem parseGenericCore_eq (sys : System) (str : Bytes) (ai : Bool) :
    parseGenericCore sys str ai =
      match PS.gHead sys str ai with
      | none => .err
      | some (p, r) => gTail sys p r := rfl

theorem gTail_of (sys : System) (p p1 p2 : PS) (r r1 r2 : Rune)
    (h1 : PS.gPre sys p r = .ok (p1, r1)) (h2 : PS.gBuild sys p1 r1 = .ok (p2, r2)) :
    gTail sys p r = PS.gFinish sys p2 r2 := by
  unfold gTail
  rw [h1]
  simp only []
  rw [h2]

/-- Stages 2–4 on `[-pre][+build]` after the numbers. -/
theorem tail_render (sys : System) (hs : Generic sys = true) (ai : Bool) (v : Version) (h3 : 3 ≤ v.num.length)
    (hv : v.pre = []) (pre build : List Bytes)
    (hpre : ∀ i ∈ pre, IdentOk v.sys i = true) (hbuild : ∀ i ∈ build, IdentOk v.sys i = true) :
    gTail sys
        { v := v, lex := ({ rest := renderPre pre ++ renderBuild build, prev := renderPre pre ++ renderBuild build, allowInf := ai, err := false } : Lex).next.2 }
        ({ rest := renderPre pre ++ renderBuild build, prev := renderPre pre ++ renderBuild build, allowInf := ai, err := false } : Lex).next.1 =
      .ok { v with userNumCount := v.num.length, isPrerelease := v.isPrerelease || !pre.isEmpty,
                   pre := pre, build := if build.isEmpty then v.build else renderBuild build } := by
  cases pre with
  | nil =>
    cases build with
    | nil =>
      simp only [renderPre, renderBuild, List.append_nil]
      rw [next_nil _ rfl, gTail_of sys _ _ _ _ _ _ (gPre_none sys hs _ _ (Or.inl rfl)) (gBuild_none sys _),
        gFinish_eof sys _ rfl h3]
      simp [hv]
    | cons b bs =>
      simp only [renderPre, renderBuild, List.nil_append]
      rw [next_vs _ 43 (joinWith 46 (b :: bs)) rfl (by decide)]
      simp only []
      rw [show (((43 : UInt8).toNat : Int) : Rune) = 43 from rfl]
      have hb := gBuild_plus sys hs
        { v := v, lex := { rest := joinWith 46 (b :: bs), prev := 43 :: joinWith 46 (b :: bs), allowInf := ai, err := false } }
        b bs rfl hbuild h3
      rw [gTail_of sys _ _ _ _ _ _ (gPre_none sys hs _ _ (Or.inr rfl)) hb, gFinish_eof sys _ rfl h3]
      simp [hv]
  | cons a as =>
    simp only [renderPre, List.cons_append]
    rw [next_vs _ 45 (joinWith 46 (a :: as) ++ renderBuild build) rfl (by decide)]
    simp only []
    rw [show (((45 : UInt8).toNat : Int) : Rune) = 45 from rfl]
    have hp := gPre_dash sys
      { v := v, lex := { rest := joinWith 46 (a :: as) ++ renderBuild build, prev := 45 :: (joinWith 46 (a :: as) ++ renderBuild build), allowInf := ai, err := false } }
      (renderBuild build) (stopsMeta_build build) a as rfl hpre h3
    cases build with
    | nil =>
      simp only [renderBuild] at hp ⊢
      rw [next_nil _ rfl] at hp
      rw [gTail_of sys _ _ _ _ _ _ hp (gBuild_none sys _), gFinish_eof sys _ rfl h3]
      simp [hv]
    | cons b bs =>
      simp only [renderBuild] at hp ⊢
      rw [next_vs _ 43 (joinWith 46 (b :: bs)) rfl (by decide)] at hp
      simp only [] at hp
      rw [show (((43 : UInt8).toNat : Int) : Rune) = 43 from rfl] at hp
      have hb := gBuild_plus sys hs
        { v := { v with isPrerelease := true, pre := v.pre ++ a :: as }, lex := { rest := joinWith 46 (b :: bs), prev := 43 :: joinWith 46 (b :: bs), allowInf := ai, err := false } }
        b bs rfl hbuild h3
      rw [gTail_of sys _ _ _ _ _ _ hp hb, gFinish_eof sys _ rfl h3]
      simp [hv]


/-! ## The AST of a canonical SemVer-family version, its rendering and its embedding -/

/-- What `Version.Canon` prints for the SemVer family: at least three numeric components
(`infinity` stands for '∞', which only occurs in span bounds), prerelease identifiers, build
identifiers. -/
structure SemVerAst where
  nums : List Int
  pre : List Bytes := []
  build : List Bytes := []
  deriving Repr, DecidableEq

/-- `n0.n1.….nk` -/
def renderNums : List Int → Bytes
  | [] => []
  | x :: xs => valueBytes x ++ dotNums xs

namespace SemVerAst

/-- Well-formedness of an AST for system `sys`; `ai` = whether '∞' components are allowed
(the parser's `allowInfinity`). -/
def Valid (sys : System) (ai : Bool) (a : SemVerAst) : Prop :=
  3 ≤ a.nums.length ∧ LenOk sys a.nums.length ∧ (∀ x ∈ a.nums, NumOk ai x) ∧
  (sys = .nuget → a.nums.length = 4 → a.nums[3]? ≠ some 0) ∧
  (∀ i ∈ a.pre, IdentOk sys i = true) ∧ (∀ i ∈ a.build, IdentOk sys i = true)

/-- The canonical text (with build metadata). -/
def render (sys : System) (a : SemVerAst) : Bytes :=
  lead sys ++ (renderNums a.nums ++ (renderPre a.pre ++ renderBuild a.build))

/-- The version the text denotes. -/
def embed (sys : System) (a : SemVerAst) : Version :=
  { sys := sys, userNumCount := a.nums.length, isPrerelease := !a.pre.isEmpty, num := a.nums,
    pre := a.pre, build := renderBuild a.build, ext := .none }

end SemVerAst

/-- **C10-a, generic parser core**: the text of a valid AST parses to its embedding. -/
theorem parseGenericCore_render (sys : System) (hs : Generic sys = true) (ai : Bool) (a : SemVerAst)
    (ha : a.Valid sys ai) : parseGenericCore sys (a.render sys) ai = .ok (a.embed sys) := by
  obtain ⟨h3, hlen, hnum, hn4, hpre, hbuild⟩ := ha
  obtain ⟨nums, pre, build⟩ := a
  simp only at h3 hlen hnum hn4 hpre hbuild
  match nums, h3 with
  | x :: xs, h3 =>
    have hxs : 2 ≤ xs.length := by simp at h3; omega
    rw [parseGenericCore_eq]
    simp only [SemVerAst.render, renderNums, List.append_assoc]
    rw [gHead_render sys hs ai x xs _ hnum (by simpa [Nat.add_comm] using hlen) hxs (stopsNums_tail pre build)
      (by
        intro h1 h2
        have := hn4 h1 (by simp [h2])
        simpa using this)]
    simp only []
    rw [tail_render sys hs ai { sys := sys, num := x :: xs } h3 rfl pre build hpre hbuild]
    simp only [SemVerAst.embed]
    cases build <;> simp [renderBuild]

theorem parseGeneric_render (sys : System) (hs : Generic sys = true) (ai : Bool) (a : SemVerAst)
    (ha : a.Valid sys ai) : parseGeneric sys (a.render sys) ai = .ok (a.embed sys) := by
  unfold parseGeneric
  rw [parseGenericCore_render sys hs ai a ha]
  simp only [generic_ne_rubygems sys hs, Bool.false_eq_true, ↓reduceIte]
  rfl

end DepsDev.Proofs.C10
