import DepsDev.Proofs.C01Generic

/-!
# C01 for Maven, part 1: the element key and one step of the loop

`mavenExtension.compare` walks the two element lists position by position; a missing
element is replaced by a pad that takes the other side's separator. On elements whose
text is a number or a qualifier, one step of the loop is (the `Int` rendering of) the
comparison of a four-component key, compared lexicographically:

| element                                   | key                          |
|-------------------------------------------|------------------------------|
| qualifier of rank ≤ "" (alpha … ga)       | `(0, -sep, rank, "")`        |
| *absent*                                  | `(0, -'-', rank "", "")`     |
| qualifier of rank > "" (`sp`, unknown)    | `(1, rank, -sep, text)`      |
| number                                    | `(2, sep, value, "")`        |

with **one exception**: the literal element `.0` is struct-equal to the pad, so the step
"absent vs `.0`" continues although the key of `.0` is greater than the key of *absent*.
Part 2 (`C01MavenLex`) deals with that exception at the list level.
-/
namespace DepsDev.Proofs

open Std DepsDev DepsDev.Semver
open DepsDev.Gen.SemverTables (versionNumeric versionQualifier versionEOF versionSeparator mavenEmptyQualifier)

/-- Key of a Maven element (or of a missing element). -/
structure MK where
  c : Int
  x : Int
  y : Int
  s : Bytes

def MK.cmp : MK → MK → Ordering :=
  compareLex (compareOn MK.c) (compareLex (compareOn MK.x) (compareLex (compareOn MK.y)
    (fun a b => List.compareLex compare a.s b.s)))

instance : TransCmp MK.cmp := by
  haveI : TransCmp (fun a b : MK => List.compareLex compare a.s b.s) :=
    TransCmp.comap (List.compareLex (compare : UInt8 → UInt8 → Ordering)) MK.s
  unfold MK.cmp
  infer_instance

theorem MK.cmp_def (k l : MK) : MK.cmp k l =
    (compare k.c l.c).then ((compare k.x l.x).then ((compare k.y l.y).then (List.compareLex compare k.s l.s))) := rfl

/-- Category of the element's text. -/
def mcat (e : MavenElem) : Int := (mavenCategory e.str).1

def mkey (e : MavenElem) : MK :=
  if mcat e == versionNumeric then ⟨2, e.sep.toNat, e.int, []⟩
  else if mavenOrder e.str > mavenEmptyQualifier then ⟨1, mavenOrder e.str, -(e.sep.toNat : Int), e.str⟩
  else ⟨0, -(e.sep.toNat : Int), mavenOrder e.str, []⟩

/-- Key of a missing element: that of `-ga` / `-final` / `-release`. -/
def mkNone : MK := ⟨0, -45, -2, []⟩

/-- The element's text is a number or a qualifier (non-empty, not starting with `.` or `-`),
and a qualifier carries `int = 0` as `mavenExtension.init` leaves it. -/
def elemOK (e : MavenElem) : Bool :=
  mcat e == versionNumeric || (mcat e == versionQualifier && e.int == 0)

/-- The literal `.0`, struct-equal to the pad for separators other than `-`. -/
def pad46 : MavenElem := ⟨46, [48], 0⟩

/-- What one step yields for the key comparison `o`: continue on `.eq`. -/
def stepOf (o : Ordering) : Outcome (Option Int) :=
  .ok (if o = .eq then none else some (ordToInt o))

theorem compare_int (a b : Int) : compare a b = if a < b then .lt else if a = b then .eq else .gt := by
  simp [compare, compareOfLessAndEq]

theorem cmpBytes_eq_zero {a b : Bytes} (h : cmpBytes a b = 0) : a = b := by
  fun_induction cmpBytes a b with
  | case1 => rfl
  | case2 => simp at h
  | case3 => simp at h
  | case4 => simp at h
  | case5 => simp at h
  | case6 a as b bs h1 h2 ih =>
    have h1' : ¬ a.toNat < b.toNat := by simpa [UInt8.lt_iff_toNat_lt] using h1
    have h2' : ¬ b.toNat < a.toNat := by simpa [UInt8.lt_iff_toNat_lt] using h2
    have : a = b := UInt8.toNat_inj.mp (by omega)
    rw [this, ih h]

theorem mcat_cases (e : MavenElem) :
    mcat e = versionEOF ∨ mcat e = versionNumeric ∨ mcat e = versionSeparator ∨ mcat e = versionQualifier := by
  unfold mcat mavenCategory
  split
  · simp
  · simp only []
    split
    · simp
    · split
      · simp
      · split <;> simp

theorem elemOK_cases {e : MavenElem} (h : elemOK e = true) :
    mcat e = 4 ∨ (mcat e = 3 ∧ e.int = 0) := by
  simpa [elemOK, versionNumeric, versionQualifier] using h

/-- The two separators of non-first elements. -/
def sepOK (e : MavenElem) : Bool := e.sep == 45 || e.sep == 46

theorem sepOK_cases {e : MavenElem} (h : sepOK e = true) : e.sep = 45 ∨ e.sep = 46 := by
  simpa [sepOK] using h

/-- Two elements whose separator difference is a sign: same separator, or both `.`/`-`. -/
def sepPair (a b : MavenElem) : Prop := a.sep = b.sep ∨ (sepOK a = true ∧ sepOK b = true)

theorem sepPair_cases {a b : MavenElem} (h : sepPair a b) :
    a.sep = b.sep ∨ (a.sep = 45 ∧ b.sep = 46) ∨ (a.sep = 46 ∧ b.sep = 45) := by
  rcases h with h | ⟨ha, hb⟩
  · exact .inl h
  · rcases sepOK_cases ha with ha | ha <;> rcases sepOK_cases hb with hb | hb <;> simp [ha, hb]

/-- One step with both elements present. -/
theorem mavenStep_some_some (a b : MavenElem) (ha : elemOK a = true) (hb : elemOK b = true)
    (hs : sepPair a b) :
    mavenStep (some a) (some b) = stepOf (MK.cmp (mkey a) (mkey b)) := by
  by_cases hab : a = b
  · subst hab
    have : MK.cmp (mkey a) (mkey a) = .eq := ReflCmp.compare_self
    unfold mavenStep
    simp [stepOf, this]
  have hne : (a == b) = false := by simpa using hab
  have hstr : a.sep = b.sep → a.int = b.int → a.str ≠ b.str := by
    intro h1 h2 h3
    apply hab
    cases a; cases b; simp_all
  unfold mavenStep
  simp only [hne, Bool.false_eq_true, ↓reduceIte]
  show (if (mcat a == versionQualifier && decide (mavenOrder a.str > mavenEmptyQualifier)) = true then _ else _) = _
  simp only [show ∀ e : MavenElem, (mavenCategory e.str).fst = mcat e from fun _ => rfl]
  unfold stepOf mkey mavenUnknownQualifierCompare compareMavenQualifier sgnStrB
  rw [MK.cmp_def]
  simp only [versionNumeric, versionQualifier, versionEOF, mavenEmptyQualifier]
  have hcb := cmpBytes_eq a.str b.str
  have hcz := @cmpBytes_eq_zero a.str b.str
  generalize mavenOrder a.str = oa at *
  generalize mavenOrder b.str = ob at *
  rcases elemOK_cases ha with ca | ⟨ca, ia⟩ <;> rcases elemOK_cases hb with cb | ⟨cb, ib⟩
  · -- numeric, numeric
    simp only [ca, cb]
    rcases sepPair_cases hs with h | ⟨h1, h2⟩ | ⟨h1, h2⟩
    · simp [h, sgnInt_eq, compare_int]
      split <;> simp_all
      split <;> simp_all
    · simp [h1, h2, compare_int]
    · simp [h1, h2, compare_int]
  · -- numeric, qualifier
    simp only [ca, cb]
    by_cases hob : ob > -2 <;> simp [hob, compare_int, Outcome.bind]
  · -- qualifier, numeric
    simp only [ca, cb]
    by_cases hoa : oa > -2 <;> simp [hoa, compare_int, Outcome.bind]
  · -- qualifier, qualifier
    simp only [ca, cb]
    by_cases hoa : oa > -2 <;> by_cases hob : ob > -2
    · -- both above the empty qualifier
      simp only [hoa, hob]
      by_cases hoo : oa = ob
      · subst hoo
        rcases sepPair_cases hs with h | ⟨h1, h2⟩ | ⟨h1, h2⟩
        · have hz := hstr h (by rw [ia, ib])
          have hnz : cmpBytes a.str b.str ≠ 0 := fun h0 => hz (hcz h0)
          simp [h, Outcome.bind, hcb] at hnz ⊢
          exact hz
        · simp [h1, h2, compare_int, Outcome.bind]
        · simp [h1, h2, compare_int, Outcome.bind]
      · have : (oa == ob) = false := by simpa using hoo
        simp [this, sgnInt_eq, compare_int, Outcome.bind, hoo]
        split <;> simp_all
    · have h1 : (oa == ob) = false := by simp; omega
      have h2 : ¬ oa < ob := by omega
      have h3 : oa > ob := by omega
      simp [hoa, hob, h1, sgnInt, h2, h3, compare_int, Outcome.bind]
    · have h1 : (ob == oa) = false := by simp; omega
      have h2 : ¬ ob < oa := by omega
      have h3 : ob > oa := by omega
      simp [hoa, hob, h1, sgnInt, h2, h3, compare_int, Outcome.bind]
    · -- both known, at or below the empty qualifier
      have h1 : oa < 0 := by omega
      rcases sepPair_cases hs with h | ⟨h1, h2⟩ | ⟨h1, h2⟩
      · simp [hoa, hob, h, h1, sgnInt_eq, compare_int]
        split <;> simp_all
        split <;> simp_all
      · simp [hoa, hob, h1, h2, compare_int]
      · simp [hoa, hob, h1, h2, compare_int]

theorem mavenOrder_nil : mavenOrder [] = -2 := by decide
theorem mavenOrder_zero : mavenOrder [48] = 0 := by decide

theorem pad_ne_of_elemOK {b : MavenElem} (hb : elemOK b = true) : b ≠ ⟨45, [], 0⟩ := by
  intro h; subst h; revert hb; decide

/-- One step with the left element missing; `b` is not the literal `.0`. -/
theorem mavenStep_none_some (b : MavenElem) (hb : elemOK b = true) (hs : sepOK b = true)
    (hp : b ≠ pad46) :
    mavenStep none (some b) = stepOf (MK.cmp mkNone (mkey b)) := by
  unfold mavenStep
  simp only []
  show (if (mavenPad b.sep == b) = true then _ else _) = _
  simp only [show ∀ e : MavenElem, (mavenCategory e.str).fst = mcat e from fun _ => rfl]
  unfold stepOf mkey mkNone mavenUnknownQualifierCompare compareMavenQualifier sgnStrB
  rw [MK.cmp_def]
  simp only [versionNumeric, versionQualifier, versionEOF, mavenEmptyQualifier]
  have hp45 := pad_ne_of_elemOK hb
  generalize hob : mavenOrder b.str = ob at *
  rcases sepOK_cases hs with h | h
  · have hpad : mavenPad b.sep = ⟨45, [], 0⟩ := by rw [h]; rfl
    have hne : ((⟨45, [], 0⟩ : MavenElem) == b) = false := by simpa using fun e => hp45 e.symm
    simp only [hpad, hne, mavenOrder_nil]
    rcases elemOK_cases hb with cb | ⟨cb, ib⟩
    · simp [cb, h, compare_int]
    · simp only [cb]
      by_cases ho : ob > -2
      · have : ¬ ob < -2 := by omega
        simp [ho, h, sgnInt, this, compare_int, Outcome.bind]
      · simp [ho, h, sgnInt_eq, compare_int]
        split <;> simp_all
  · have hpad : mavenPad b.sep = pad46 := by rw [h]; rfl
    have hne : (pad46 == b) = false := by simpa using fun e => hp e.symm
    simp only [hpad, hne]
    simp only [pad46, mavenOrder_zero]
    rcases elemOK_cases hb with cb | ⟨cb, ib⟩
    · simp [cb, h, compare_int]
    · simp only [cb]
      by_cases ho : ob > -2
      · have : ¬ ob < -2 := by omega
        simp [ho, h, sgnInt, this, compare_int, Outcome.bind]
      · have h1 : ob < 0 := by omega
        have h2 : ¬ 0 < ob := by omega
        simp [ho, h, sgnInt, h1, h2, compare_int]

/-- One step with the right element missing; `a` is not the literal `.0`. -/
theorem mavenStep_some_none (a : MavenElem) (ha : elemOK a = true) (hs : sepOK a = true)
    (hp : a ≠ pad46) :
    mavenStep (some a) none = stepOf (MK.cmp (mkey a) mkNone) := by
  unfold mavenStep
  simp only []
  show (if (a == mavenPad a.sep) = true then _ else _) = _
  simp only [show ∀ e : MavenElem, (mavenCategory e.str).fst = mcat e from fun _ => rfl]
  unfold stepOf mkey mkNone mavenUnknownQualifierCompare compareMavenQualifier sgnStrB
  rw [MK.cmp_def]
  simp only [versionNumeric, versionQualifier, versionEOF, mavenEmptyQualifier]
  have hp45 := pad_ne_of_elemOK ha
  generalize hoa : mavenOrder a.str = oa at *
  rcases sepOK_cases hs with h | h
  · have hpad : mavenPad a.sep = ⟨45, [], 0⟩ := by rw [h]; rfl
    have hne : (a == (⟨45, [], 0⟩ : MavenElem)) = false := by simpa using hp45
    simp only [hpad, hne, mavenOrder_nil]
    rcases elemOK_cases ha with ca | ⟨ca, ia⟩
    · simp [ca, h, compare_int]
    · simp only [ca]
      by_cases ho : oa > -2
      · have : ¬ oa < -2 := by omega
        simp [ho, h, sgnInt, this, compare_int, Outcome.bind]
      · simp [ho, h, sgnInt_eq, compare_int]
        split <;> simp_all
        split <;> simp_all
  · have hpad : mavenPad a.sep = pad46 := by rw [h]; rfl
    have hne : (a == pad46) = false := by simpa using hp
    simp only [hpad, hne]
    simp only [pad46, mavenOrder_zero]
    rcases elemOK_cases ha with ca | ⟨ca, ia⟩
    · simp [ca, h, compare_int]
    · simp only [ca]
      by_cases ho : oa > -2
      · have : ¬ oa < -2 := by omega
        simp [ho, h, sgnInt, this, compare_int, Outcome.bind]
      · have h1 : oa < 0 := by omega
        simp [ho, h, sgnInt, h1, compare_int]

/-- The exception: a literal `.0` against a missing element continues. -/
theorem mavenStep_none_pad46 : mavenStep none (some pad46) = .ok none := by decide
theorem mavenStep_pad46_none : mavenStep (some pad46) none = .ok none := by decide

end DepsDev.Proofs
