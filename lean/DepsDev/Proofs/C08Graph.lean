import DepsDev.Model.Resolve.PypiHyp

/-! Lemmas about `buildGraph` / `hasRouteToRoot` (no assumption on the state): node
set (P1, P5) and reachability (P4). -/
namespace DepsDev.Resolve.Pypi

/-! ### association lists -/

theorem idsGet_some_mem {ids : List (Nat × Ver)} {p : Nat} {v : Ver} (h : idsGet ids p = some v) : (p, v) ∈ ids := by
  induction ids with
  | nil => simp [idsGet] at h
  | cons hd tl ih =>
    obtain ⟨q, w⟩ := hd
    simp only [idsGet] at h
    split at h
    · simp_all
    · exact List.mem_cons_of_mem _ (ih h)

theorem idsGet_none_iff {ids : List (Nat × Ver)} {p : Nat} : idsGet ids p = none ↔ p ∉ ids.map (·.1) := by
  induction ids with
  | nil => simp [idsGet]
  | cons hd tl ih =>
    obtain ⟨q, w⟩ := hd
    simp only [idsGet, List.map_cons, List.mem_cons, not_or]
    split
    · simp_all
    · rename_i hne
      constructor
      · intro h; exact ⟨fun e => hne e.symm, ih.mp h⟩
      · intro h; exact ih.mpr h.2

theorem idsGet_append_none {ids : List (Nat × Ver)} {p q : Nat} {v : Ver} :
    idsGet (ids ++ [(q, v)]) p = match idsGet ids p with | some w => some w | none => if q = p then some v else none := by
  induction ids with
  | nil => simp [idsGet]
  | cons hd tl ih =>
    obtain ⟨a, w⟩ := hd
    simp only [List.cons_append, idsGet]
    split
    · rfl
    · exact ih

/-- well-formed node table: distinct packages, every entry's version belongs to its package -/
def IdsWF (ids : List (Nat × Ver)) : Prop := (ids.map (·.1)).Nodup ∧ ∀ e ∈ ids, e.2.pkg = e.1

theorem idsGet_of_mem {ids : List (Nat × Ver)} (wf : IdsWF ids) {p : Nat} {v : Ver} (h : (p, v) ∈ ids) : idsGet ids p = some v := by
  induction ids with
  | nil => simp at h
  | cons hd tl ih =>
    obtain ⟨q, w⟩ := hd
    have nd := wf.1
    simp only [List.map_cons, List.nodup_cons] at nd
    simp only [idsGet]
    rcases List.mem_cons.mp h with e | e
    · cases e; simp
    · split
      · rename_i hq
        exfalso; apply nd.1
        subst hq
        exact List.mem_map.mpr ⟨(q, v), e, rfl⟩
      · exact ih ⟨nd.2, fun x hx => wf.2 x (List.mem_cons_of_mem _ hx)⟩ e

/-! ### `addNodes`: the node table -/

theorem addNodes_spec (S : State) (fuel : Nat) (root : Ver) :
    ∀ (pins : List Pin) (conn : Conn) (ids ids' : List (Nat × Ver)),
      addNodes S fuel pins conn ids = some ids' → IdsWF ids → ids.head? = some (root.pkg, root) →
      IdsWF ids' ∧ ids'.head? = some (root.pkg, root) := by
  intro pins
  induction pins with
  | nil => intro conn ids ids' h wf hd; simp [addNodes] at h; subst h; exact ⟨wf, hd⟩
  | cons p ps ih =>
    intro conn ids ids' h wf hd
    simp only [addNodes] at h
    split at h
    · simp at h
    · exact ih _ _ _ h wf hd
    · split at h
      · exact ih _ _ _ h wf hd
      · rename_i hnone
        refine ih _ _ _ h ?_ ?_
        · constructor
          · rw [List.map_append, List.nodup_append]
            refine ⟨wf.1, by simp, ?_⟩
            intro a ha b hb
            simp at hb; subst hb
            intro e; subst e
            exact (idsGet_none_iff.mp hnone) ha
          · intro e he
            rcases List.mem_append.mp he with h1 | h1
            · exact wf.2 e h1
            · simp at h1; subst h1; rfl
        · cases ids with
          | nil => simp at hd
          | cons a t => simpa using hd

/-! ### `hasRouteToRoot`: the connection log -/

def Pinned (S : State) (m : Ver) : Prop := ∃ ex, (⟨m.pkg, m.id, ex⟩ : Pin) ∈ S.mapping

theorem getPin_some_pinned {m : List Pin} {p i : Nat} (h : getPin m p = some i) : ∃ ex, (⟨p, i, ex⟩ : Pin) ∈ m := by
  induction m with
  | nil => simp [getPin] at h
  | cons q tl ih =>
    simp only [getPin] at h
    split at h
    · rename_i e
      simp at h
      refine ⟨q.ex, ?_⟩
      have : q = ⟨p, i, q.ex⟩ := by cases q; simp_all
      rw [← this]; exact List.mem_cons_self
    · obtain ⟨ex, hm⟩ := ih h
      exact ⟨ex, List.mem_cons_of_mem _ hm⟩

/-- every `true` mark is the root or a pinned version with a recorded parent that was
marked `true` EARLIER (deeper in the log): a well-founded justification -/
def Justified (S : State) (root : Ver) : Conn → Prop
  | [] => True
  | (m, b) :: tail =>
    Justified S root tail ∧
      (b = true → m = root ∨ (Pinned S m ∧ ∃ c r par, getCrit S.criteria m.pkg = some c ∧ (r, par) ∈ c.info ∧ (par, true) ∈ tail))

/-- a `true` mark is never shadowed -/
def ConnW (conn : Conn) : Prop := ∀ v, (v, true) ∈ conn → connGet conn v = some true

theorem connGet_true_mem {conn : Conn} {v : Ver} (h : connGet conn v = some true) : (v, true) ∈ conn := by
  induction conn with
  | nil => simp [connGet] at h
  | cons hd tl ih =>
    obtain ⟨w, b⟩ := hd
    simp only [connGet] at h
    split at h
    · simp at h; subst h; rename_i e; subst e; exact List.mem_cons_self
    · exact List.mem_cons_of_mem _ (ih h)

theorem connGet_cons_ne {conn : Conn} {v u : Ver} {b : Bool} (h : v ≠ u) : connGet ((v, b) :: conn) u = connGet conn u := by
  simp [connGet, h]

theorem connGet_cons_self {conn : Conn} {v : Ver} {b : Bool} : connGet ((v, b) :: conn) v = some b := by
  simp [connGet]

structure Post (S : State) (root : Ver) (v : Ver) (conn conn' : Conn) : Prop where
  just : Justified S root conn'
  w : ConnW conn'
  new : ∀ m, (m, true) ∈ conn' → m = v ∨ (m, true) ∈ conn ∨ (connGet conn m = none ∧ Pinned S m)
  vis : ∀ u, connGet conn u ≠ none → connGet conn' u ≠ none
  mono : ∀ m, (m, true) ∈ conn → (m, true) ∈ conn'

theorem Post.refl {S root v conn} (j : Justified S root conn) (w : ConnW conn) : Post S root v conn conn :=
  ⟨j, w, fun _ h => Or.inr (Or.inl h), fun _ h => h, fun _ h => h⟩

theorem connW_cons_false {conn : Conn} {v : Ver} (w : ConnW conn) (h : connGet conn v = none) : ConnW ((v, false) :: conn) := by
  intro u hu
  rcases List.mem_cons.mp hu with e | e
  · simp at e
  · have := w u e
    by_cases hvu : v = u
    · subst hvu; rw [h] at this; simp at this
    · rw [connGet_cons_ne hvu]; exact this

theorem connW_cons_true {conn : Conn} {v : Ver} (w : ConnW conn) : ConnW ((v, true) :: conn) := by
  intro u hu
  by_cases hvu : v = u
  · subst hvu; exact connGet_cons_self
  · rw [connGet_cons_ne hvu]
    rcases List.mem_cons.mp hu with e | e
    · simp at e; exact absurd e.symm hvu
    · exact w u e

/-- specification of the parent loop, given the specification of the recursive call -/
theorem parentsLoop_spec (S : State) (root : Ver) (rec : Ver → Conn → Option (Conn × Bool))
    (hrec : ∀ u conn conn' b, Pinned S u → Justified S root conn → ConnW conn → rec u conn = some (conn', b) →
      Post S root u conn conn' ∧ ((u, true) ∈ conn' → (u, true) ∈ conn ∨ connGet conn u = none) ∧
        (b = true → (u, true) ∈ conn') ∧ (b = false → (u, true) ∉ conn'))
    (v : Ver) (c : Criterion) (hc : getCrit S.criteria v.pkg = some c) (hv : v = root ∨ Pinned S v) :
    ∀ (ps : List (Req × Ver)) (conn conn' : Conn) (b : Bool), (∀ x ∈ ps, x ∈ c.info) →
      Justified S root conn → ConnW conn → (v, true) ∉ conn → connGet conn v ≠ none →
      parentsLoop rec S v ps conn = some (conn', b) →
      Post S root v conn conn' ∧ (b = true → (v, true) ∈ conn') ∧ (b = false → (v, true) ∉ conn') := by
  intro ps
  induction ps with
  | nil =>
    intro conn conn' b _ j w hnt _ h
    simp [parentsLoop] at h
    obtain ⟨rfl, rfl⟩ := h
    exact ⟨Post.refl j w, by simp, fun _ => hnt⟩
  | cons hd tl ih =>
    obtain ⟨r, parent⟩ := hd
    intro conn conn' b hsub j w hnt hvis h
    have hsub' : ∀ x ∈ tl, x ∈ c.info := fun x hx => hsub x (List.mem_cons_of_mem _ hx)
    have hmem : (r, parent) ∈ c.info := hsub _ List.mem_cons_self
    simp only [parentsLoop] at h
    split at h
    · -- parent already connected
      rename_i hpt
      simp at h
      obtain ⟨rfl, rfl⟩ := h
      have hpm := connGet_true_mem hpt
      refine ⟨⟨?_, connW_cons_true w, ?_, ?_, ?_⟩, by simp, by simp⟩
      · refine ⟨j, fun _ => ?_⟩
        rcases hv with hv | hv
        · exact Or.inl hv
        · exact Or.inr ⟨hv, c, r, parent, hc, hmem, hpm⟩
      · intro m hm
        rcases List.mem_cons.mp hm with e | e
        · simp at e; exact Or.inl e
        · exact Or.inr (Or.inl e)
      · intro u hu
        by_cases hvu : v = u
        · subst hvu; simp [connGet]
        · rw [connGet_cons_ne hvu]; exact hu
      · intro m hm; exact List.mem_cons_of_mem _ hm
    · split at h
      · exact ih conn conn' b hsub' j w hnt hvis h
      · rename_i hpin
        simp only [ne_eq, Decidable.not_not] at hpin
        have hpp : Pinned S parent := getPin_some_pinned hpin
        split at h
        · simp at h
        · -- recursive call found a route
          rename_i conn1 hr
          simp at h
          obtain ⟨rfl, rfl⟩ := h
          obtain ⟨post, _, hb, _⟩ := hrec parent conn conn1 true hpp j w hr
          have hpm : (parent, true) ∈ conn1 := hb rfl
          refine ⟨⟨?_, connW_cons_true post.w, ?_, ?_, ?_⟩, by simp, by simp⟩
          · refine ⟨post.just, fun _ => ?_⟩
            rcases hv with hv | hv
            · exact Or.inl hv
            · exact Or.inr ⟨hv, c, r, parent, hc, hmem, hpm⟩
          · intro m hm
            rcases List.mem_cons.mp hm with e | e
            · simp at e; exact Or.inl e
            · rcases post.new m e with h1 | h1 | h1
              · rw [h1]
                rcases (hrec parent conn conn1 true hpp j w hr).2.1 hpm with h2 | h2
                · exact Or.inr (Or.inl h2)
                · exact Or.inr (Or.inr ⟨h2, hpp⟩)
              · exact Or.inr (Or.inl h1)
              · exact Or.inr (Or.inr h1)
          · intro u hu
            by_cases hvu : v = u
            · subst hvu; simp [connGet]
            · rw [connGet_cons_ne hvu]; exact post.vis u hu
          · intro m hm; exact List.mem_cons_of_mem _ (post.mono m hm)
        · -- recursive call found none
          rename_i conn1 hr
          obtain ⟨post, hnew, _, hb⟩ := hrec parent conn conn1 false hpp j w hr
          have hnt1 : (v, true) ∉ conn1 := by
            intro hin
            rcases post.new v hin with h1 | h1 | h1
            · subst h1; exact hb rfl hin
            · exact hnt h1
            · exact hvis h1.1
          obtain ⟨post2, hb1, hb2⟩ := ih conn1 conn' b hsub' post.just post.w hnt1 (post.vis v hvis) h
          refine ⟨⟨post2.just, post2.w, ?_, fun u hu => post2.vis u (post.vis u hu), fun m hm => post2.mono m (post.mono m hm)⟩, hb1, hb2⟩
          intro m hm
          rcases post2.new m hm with h1 | h1 | h1
          · exact Or.inl h1
          · rcases post.new m h1 with h2 | h2 | h2
            · subst h2
              rcases hnew h1 with h3 | h3
              · exact Or.inr (Or.inl h3)
              · exact Or.inr (Or.inr ⟨h3, hpp⟩)
            · exact Or.inr (Or.inl h2)
            · exact Or.inr (Or.inr h2)
          · right; right
            refine ⟨?_, h1.2⟩
            cases hg : connGet conn m with
            | none => rfl
            | some x => exact absurd h1.1 (post.vis m (by simp [hg]))

theorem not_mem_of_connGet_none {conn : Conn} {v : Ver} (w : ConnW conn) (h : connGet conn v = none) : (v, true) ∉ conn := by
  intro hin; have := w v hin; rw [h] at this; simp at this

theorem hasRoute_spec (S : State) (root : Ver) :
    ∀ (fuel : Nat) (u : Ver) (conn conn' : Conn) (b : Bool), Pinned S u → Justified S root conn → ConnW conn →
      hasRouteToRoot S fuel u conn = some (conn', b) →
      Post S root u conn conn' ∧ ((u, true) ∈ conn' → (u, true) ∈ conn ∨ connGet conn u = none) ∧
        (b = true → (u, true) ∈ conn') ∧ (b = false → (u, true) ∉ conn') ∧ connGet conn' u ≠ none := by
  intro fuel
  induction fuel with
  | zero => intro u conn conn' b _ _ _ h; simp [hasRouteToRoot] at h
  | succ fuel ih =>
    intro u conn conn' b hp j w h
    simp only [hasRouteToRoot] at h
    split at h
    · rename_i b0 hg
      simp at h
      obtain ⟨rfl, rfl⟩ := h
      refine ⟨Post.refl j w, fun hh => Or.inl hh, ?_, ?_, by simp [hg]⟩
      · intro hb; subst hb; exact connGet_true_mem hg
      · intro hb; subst hb; intro hin; have := w u hin; rw [hg] at this; simp at this
    · rename_i hg
      have hnt : (u, true) ∉ conn := not_mem_of_connGet_none w hg
      have j1 : Justified S root ((u, false) :: conn) := ⟨j, by simp⟩
      have w1 : ConnW ((u, false) :: conn) := connW_cons_false w hg
      have hnt1 : (u, true) ∉ (u, false) :: conn := by
        intro hin; rcases List.mem_cons.mp hin with e | e
        · simp at e
        · exact hnt e
      have hv1 : connGet ((u, false) :: conn) u ≠ none := by simp [connGet]
      split at h
      · simp at h
        obtain ⟨rfl, rfl⟩ := h
        refine ⟨⟨j1, w1, ?_, ?_, fun m hm => List.mem_cons_of_mem _ hm⟩, ?_, by simp, fun _ => hnt1, hv1⟩
        · intro m hm
          rcases List.mem_cons.mp hm with e | e
          · simp at e
          · exact Or.inr (Or.inl e)
        · intro x hx
          by_cases hux : u = x
          · subst hux; exact hv1
          · rw [connGet_cons_ne hux]; exact hx
        · intro hin; exact absurd hin hnt1
      · rename_i crit hc
        have hrec : ∀ u conn conn' b, Pinned S u → Justified S root conn → ConnW conn →
            hasRouteToRoot S fuel u conn = some (conn', b) →
            Post S root u conn conn' ∧ ((u, true) ∈ conn' → (u, true) ∈ conn ∨ connGet conn u = none) ∧
              (b = true → (u, true) ∈ conn') ∧ (b = false → (u, true) ∉ conn') := by
          intro u conn conn' b a1 a2 a3 a4
          obtain ⟨x1, x2, x3, x4, _⟩ := ih u conn conn' b a1 a2 a3 a4
          exact ⟨x1, x2, x3, x4⟩
        obtain ⟨post, hb1, hb2⟩ := parentsLoop_spec S root (hasRouteToRoot S fuel) hrec u crit hc (Or.inr hp)
          crit.info _ conn' b (fun _ hx => hx) j1 w1 hnt1 hv1 h
        refine ⟨⟨post.just, post.w, ?_, ?_, ?_⟩, fun _ => Or.inr hg, hb1, hb2, post.vis u hv1⟩
        · intro m hm
          rcases post.new m hm with h1 | h1 | h1
          · exact Or.inl h1
          · rcases List.mem_cons.mp h1 with e | e
            · simp at e
            · exact Or.inr (Or.inl e)
          · by_cases hum : u = m
            · exact Or.inl hum.symm
            · rw [connGet_cons_ne hum] at h1; exact Or.inr (Or.inr h1)
        · intro x hx
          apply post.vis
          by_cases hux : u = x
          · subst hux; exact hv1
          · rw [connGet_cons_ne hux]; exact hx
        · intro m hm; exact post.mono m (List.mem_cons_of_mem _ hm)

/-! ### `addNodes` with the connection log -/

def pinVer (p : Pin) : Ver := ⟨p.pkg, p.id⟩

theorem idsGet_isSome_of_key {ids : List (Nat × Ver)} {p : Nat} (h : p ∈ ids.map (·.1)) : ∃ v, idsGet ids p = some v := by
  cases hg : idsGet ids p with
  | some v => exact ⟨v, rfl⟩
  | none => exact absurd h (idsGet_none_iff.mp hg)

theorem addNodes_log (S : State) (root : Ver) (fuel : Nat) :
    ∀ (pins : List Pin) (conn : Conn) (ids ids' : List (Nat × Ver)),
      (∀ p ∈ pins, p ∈ S.mapping) → Justified S root conn → ConnW conn →
      (∀ m, (m, true) ∈ conn → m.pkg ∈ ids.map (·.1) ∨ ∃ p ∈ pins, pinVer p = m) →
      (∀ m, Pinned S m → connGet conn m = none → ∃ p ∈ pins, pinVer p = m) →
      addNodes S fuel pins conn ids = some ids' →
      ∃ connF, Justified S root connF ∧ (∀ m, (m, true) ∈ connF → m.pkg ∈ ids'.map (·.1)) ∧
        (∀ e ∈ ids', e ∈ ids ∨ (e.2, true) ∈ connF) ∧ (∀ m, (m, true) ∈ conn → (m, true) ∈ connF) := by
  intro pins
  induction pins with
  | nil =>
    intro conn ids ids' _ j _ k _ h
    simp [addNodes] at h; subst h
    refine ⟨conn, j, ?_, fun e he => Or.inl he, fun _ h => h⟩
    intro m hm
    rcases k m hm with h1 | ⟨p, hp, _⟩
    · exact h1
    · simp at hp
  | cons p ps ih =>
    intro conn ids ids' hpins j w k vv h
    simp only [addNodes] at h
    have hpm : p ∈ S.mapping := hpins p List.mem_cons_self
    have hpinned : Pinned S (pinVer p) := ⟨p.ex, by cases p; exact hpm⟩
    have hps : ∀ q ∈ ps, q ∈ S.mapping := fun q hq => hpins q (List.mem_cons_of_mem _ hq)
    -- the generic step, for whichever node table `ids2 ⊇ ids` follows
    have step : ∀ (conn' : Conn) (b : Bool) (ids2 : List (Nat × Ver)),
        hasRouteToRoot S fuel (pinVer p) conn = some (conn', b) →
        (∀ x ∈ ids, x ∈ ids2) → (b = true → p.pkg ∈ ids2.map (·.1)) →
        (∀ e ∈ ids2, e ∈ ids ∨ e = (p.pkg, pinVer p) ∧ b = true) →
        addNodes S fuel ps conn' ids2 = some ids' →
        ∃ connF, Justified S root connF ∧ (∀ m, (m, true) ∈ connF → m.pkg ∈ ids'.map (·.1)) ∧
          (∀ e ∈ ids', e ∈ ids ∨ (e.2, true) ∈ connF) ∧ (∀ m, (m, true) ∈ conn → (m, true) ∈ connF) := by
      intro conn' b ids2 hr hsub hkey hnew h2
      obtain ⟨post, _, hb1, hb2, hvis⟩ := hasRoute_spec S root fuel (pinVer p) conn conn' b hpinned j w hr
      have keyv : (pinVer p, true) ∈ conn' → (pinVer p).pkg ∈ ids2.map (·.1) := by
        intro hin
        cases b with
        | true => exact hkey rfl
        | false => exact absurd hin (hb2 rfl)
      have fromRemaining : ∀ m, (m, true) ∈ conn' → (∃ q ∈ p :: ps, pinVer q = m) →
          m.pkg ∈ ids2.map (·.1) ∨ ∃ q ∈ ps, pinVer q = m := by
        intro m hm ⟨q, hq, hqm⟩
        rcases List.mem_cons.mp hq with e | e
        · subst e; subst hqm; exact Or.inl (keyv hm)
        · exact Or.inr ⟨q, e, hqm⟩
      have k2 : ∀ m, (m, true) ∈ conn' → m.pkg ∈ ids2.map (·.1) ∨ ∃ q ∈ ps, pinVer q = m := by
        intro m hm
        rcases post.new m hm with h1 | h1 | h1
        · subst h1; exact Or.inl (keyv hm)
        · rcases k m h1 with h3 | h3
          · left
            obtain ⟨x, hx, hxe⟩ := List.mem_map.mp h3
            exact List.mem_map.mpr ⟨x, hsub x hx, hxe⟩
          · exact fromRemaining m hm h3
        · exact fromRemaining m hm (vv m h1.2 h1.1)
      have v2 : ∀ m, Pinned S m → connGet conn' m = none → ∃ q ∈ ps, pinVer q = m := by
        intro m hpm2 hn
        have hn0 : connGet conn m = none := by
          cases hg : connGet conn m with
          | none => rfl
          | some x => exact absurd hn (post.vis m (by simp [hg]))
        obtain ⟨q, hq, hqm⟩ := vv m hpm2 hn0
        rcases List.mem_cons.mp hq with e | e
        · subst e; subst hqm; exact absurd hn hvis
        · exact ⟨q, e, hqm⟩
      obtain ⟨connF, jF, kF, eF, mF⟩ := ih conn' ids2 ids' hps post.just post.w k2 v2 h2
      refine ⟨connF, jF, kF, ?_, fun m hm => mF m (post.mono m hm)⟩
      intro e he
      rcases eF e he with h1 | h1
      · rcases hnew e h1 with h3 | ⟨h3, hb⟩
        · exact Or.inl h3
        · right; subst h3; exact mF _ (hb1 hb)
      · exact Or.inr h1
    split at h
    · simp at h
    · rename_i conn' hr
      exact step conn' false ids hr (fun _ hx => hx) (by simp) (fun e he => Or.inl he) h
    · rename_i conn' hr
      split at h
      · rename_i w0 hg
        refine step conn' true ids hr (fun _ hx => hx) (fun _ => ?_) (fun e he => Or.inl he) h
        exact List.mem_map.mpr ⟨(p.pkg, w0), idsGet_some_mem hg, rfl⟩
      · refine step conn' true (ids ++ [(p.pkg, ⟨p.pkg, p.id⟩)]) hr (fun x hx => List.mem_append_left _ hx) (fun _ => by simp) ?_ h
        intro e he
        rcases List.mem_append.mp he with h1 | h1
        · exact Or.inl h1
        · simp at h1; exact Or.inr ⟨by rw [h1]; rfl, rfl⟩

/-! ### edges -/

theorem edgesOf_mem {ids : List (Nat × Ver)} {to : Ver} {info : List (Req × Ver)} {e : Edge} :
    e ∈ edgesOf ids to info ↔ ∃ r par, (r, par) ∈ info ∧ idsGet ids par.pkg = some e.src ∧ e.dst = to ∧ e.req = r := by
  induction info with
  | nil => simp [edgesOf]
  | cons hd tl ih =>
    obtain ⟨r0, par0⟩ := hd
    simp only [edgesOf]
    split
    · rename_i hn
      rw [ih]
      constructor
      · rintro ⟨r, par, hm, h1, h2, h3⟩; exact ⟨r, par, List.mem_cons_of_mem _ hm, h1, h2, h3⟩
      · rintro ⟨r, par, hm, h1, h2, h3⟩
        rcases List.mem_cons.mp hm with e1 | e1
        · cases e1; rw [hn] at h1; simp at h1
        · exact ⟨r, par, e1, h1, h2, h3⟩
    · rename_i f hf
      rw [List.mem_cons, ih]
      constructor
      · rintro (h | ⟨r, par, hm, h1, h2, h3⟩)
        · subst h; exact ⟨r0, par0, List.mem_cons_self, hf, rfl, rfl⟩
        · exact ⟨r, par, List.mem_cons_of_mem _ hm, h1, h2, h3⟩
      · rintro ⟨r, par, hm, h1, h2, h3⟩
        rcases List.mem_cons.mp hm with e1 | e1
        · cases e1
          left
          rw [hf] at h1
          cases e; simp_all
        · exact Or.inr ⟨r, par, e1, h1, h2, h3⟩

theorem addEdges_mem (S : State) (root : Ver) (ids : List (Nat × Ver)) :
    ∀ (l : List (Nat × Ver)) (es : List Edge), addEdges S root ids l = some es →
      ∀ e, e ∈ es ↔ ∃ p c r par, (p, e.dst) ∈ l ∧ getCrit S.criteria p = some c ∧ (r, par) ∈ c.info ∧
        idsGet ids par.pkg = some e.src ∧ e.req = r := by
  intro l
  induction l with
  | nil => intro es h e; simp [addEdges] at h; subst h; simp
  | cons hd tl ih =>
    obtain ⟨p0, to0⟩ := hd
    intro es h e
    simp only [addEdges] at h
    split at h
    · rename_i hn
      split at h
      · rw [ih es h e]
        constructor
        · rintro ⟨p, c, r, par, h1, h2, h3, h4, h5⟩; exact ⟨p, c, r, par, List.mem_cons_of_mem _ h1, h2, h3, h4, h5⟩
        · rintro ⟨p, c, r, par, h1, h2, h3, h4, h5⟩
          rcases List.mem_cons.mp h1 with e1 | e1
          · cases e1; rw [hn] at h2; simp at h2
          · exact ⟨p, c, r, par, e1, h2, h3, h4, h5⟩
      · simp at h
    · rename_i crit hc
      split at h
      · simp at h
      · rename_i es0 hes
        simp at h; subst h
        rw [List.mem_append, edgesOf_mem, ih es0 hes e]
        constructor
        · rintro (⟨r, par, h1, h2, h3, h4⟩ | ⟨p, c, r, par, h1, h2, h3, h4, h5⟩)
          · exact ⟨p0, crit, r, par, by rw [h3]; exact List.mem_cons_self, hc, h1, h2, h4⟩
          · exact ⟨p, c, r, par, List.mem_cons_of_mem _ h1, h2, h3, h4, h5⟩
        · rintro ⟨p, c, r, par, h1, h2, h3, h4, h5⟩
          rcases List.mem_cons.mp h1 with e1 | e1
          · cases e1; rw [hc] at h2; cases h2
            exact Or.inl ⟨r, par, h3, h4, rfl, h5⟩
          · exact Or.inr ⟨p, c, r, par, e1, h2, h3, h4, h5⟩

/-- reachability along edges of a graph -/
inductive Reach (g : Graph) (root : Ver) : Ver → Prop
  | root : Reach g root root
  | step {u v : Ver} : Reach g root u → (∃ e ∈ g.edges, e.src = u ∧ e.dst = v) → Reach g root v

theorem reach_of_log (S : State) (root : Ver) (ids : List (Nat × Ver)) (es : List Edge)
    (hes : addEdges S root ids ids = some es) (hroot : idsGet ids root.pkg = some root) :
    ∀ (l : Conn), Justified S root l → (∀ m, (m, true) ∈ l → m.pkg ∈ ids.map (·.1)) →
      ∀ m, (m, true) ∈ l → ∃ node, idsGet ids m.pkg = some node ∧ Reach ⟨ids.map (·.2), es⟩ root node := by
  intro l
  induction l with
  | nil => intro _ _ m hm; simp at hm
  | cons hd tl ih =>
    obtain ⟨m0, b0⟩ := hd
    intro j hk m hm
    have ih' := ih j.1 (fun x hx => hk x (List.mem_cons_of_mem _ hx))
    rcases List.mem_cons.mp hm with e | e
    · simp at e
      obtain ⟨rfl, rfl⟩ := e
      rcases j.2 rfl with h1 | ⟨_, c, r, par, hc, hinfo, hpar⟩
      · subst h1; exact ⟨m, hroot, Reach.root⟩
      · obtain ⟨f, hf, hreach⟩ := ih' par hpar
        obtain ⟨to, hto⟩ := idsGet_isSome_of_key (hk m List.mem_cons_self)
        refine ⟨to, hto, Reach.step hreach ⟨⟨f, to, r⟩, ?_, rfl, rfl⟩⟩
        exact (addEdges_mem S root ids ids es hes ⟨f, to, r⟩).mpr ⟨m.pkg, c, r, par, idsGet_some_mem hto, hc, hinfo, hf, rfl⟩
    · exact ih' m e

/-- everything the graph-level properties need about a successful `buildGraph` -/
theorem buildGraph_spec {S : State} {root : Ver} {g : Graph} {ids : List (Nat × Ver)}
    (h : buildGraph S root = .ok g ids) :
    IdsWF ids ∧ ids.head? = some (root.pkg, root) ∧ g.nodes = ids.map (·.2) ∧
      addEdges S root ids ids = some g.edges ∧ (∀ v ∈ g.nodes, Reach g root v) := by
  simp only [buildGraph] at h
  split at h
  · simp at h
  · rename_i ids0 hn
    split at h
    · simp at h
    · rename_i es hes
      simp at h
      obtain ⟨rfl, rfl⟩ := h
      have wf0 : IdsWF [(root.pkg, root)] := ⟨by simp, by simp⟩
      obtain ⟨wf, hd⟩ := addNodes_spec S _ root S.mapping _ _ _ hn wf0 rfl
      have hroot : idsGet ids0 root.pkg = some root := by
        cases ids0 with
        | nil => simp at hd
        | cons a t => simp at hd; subst hd; simp [idsGet]
      obtain ⟨connF, jF, kF, eF, _⟩ := addNodes_log S root _ S.mapping [(root, true)] [(root.pkg, root)] ids0
        (fun _ hp => hp) ⟨trivial, fun _ => Or.inl rfl⟩
        (by intro v hv; simp at hv; subst hv; simp [connGet])
        (by intro m hm; simp at hm; subst hm; simp)
        (by
          intro m ⟨ex, hm⟩ _
          exact ⟨⟨m.pkg, m.id, ex⟩, hm, rfl⟩)
        hn
      refine ⟨wf, hd, rfl, hes, ?_⟩
      intro v hv
      obtain ⟨e, he, rfl⟩ := List.mem_map.mp hv
      rcases eF e he with h1 | h1
      · simp at h1; subst h1; exact Reach.root
      · obtain ⟨node, hnode, hreach⟩ := reach_of_log S root ids0 es hes hroot connF jF kF e.2 h1
        have : idsGet ids0 e.1 = some e.2 := idsGet_of_mem wf (by cases e; exact he)
        rw [wf.2 e he, this] at hnode
        cases hnode; exact hreach

end DepsDev.Resolve.Pypi
