import DepsDev.Proofs.C03L3NpmEq

/-!
# C03 layer L3 for npm, operator `eq`: operands with a prerelease tag; `L3Npm .eq`
-/
namespace DepsDev.Proofs.C03

open DepsDev DepsDev.Semver DepsDev.Ref

set_option linter.unusedSimpArgs false
set_option linter.unusedVariables false

theorem l3_pre_lt_eq : L3PreO .eq .lt := by l3_pre
theorem l3_pre_eq_eq : L3PreO .eq .eq := by l3_pre
theorem l3_pre_gt_eq : L3PreO .eq .gt := by l3_pre

theorem l3_npm_eq : L3Npm .eq :=
  l3_assemble _ l3_full_eq (l3_pre_assemble _ l3_pre_lt_eq l3_pre_eq_eq l3_pre_gt_eq) l3_part_eq

end DepsDev.Proofs.C03
