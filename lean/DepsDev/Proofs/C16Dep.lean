import DepsDev.Model.Pypi.Dep508
import DepsDev.Proofs.C16Bytes

/-! Lemmas about the model of `ParseDependency` (C16): exact results of its stages. -/

namespace DepsDev.Proofs.C16Dep
open DepsDev DepsDev.Pypi DepsDev.Ref.Pep508 DepsDev.Proofs.C16Bytes

@[simp] theorem ok_bind {α β} (a : α) (f : α → Outcome β) : (Outcome.ok a >>= f) = f a := rfl
@[simp] theorem err_bind {α β} (f : α → Outcome β) : ((Outcome.err : Outcome α) >>= f) = .err := rfl
@[simp] theorem panic_bind {α β} (s : String) (f : α → Outcome β) : ((Outcome.panic s : Outcome α) >>= f) = .panic s := rfl
@[simp] theorem pure_eq {α} (a : α) : (pure a : Outcome α) = .ok a := rfl

/-! ### parseExtras -/

theorem parseExtras_no_bracket {c : UInt8} {cs : Bytes} (h : c.toNat ≠ 91) :
    parseExtras (c :: cs) = .ok ([], c :: cs) := by
  simp [parseExtras, h]

theorem ne93_of_91 {c : UInt8} (h : c.toNat = 91) : (c == 93) = false := by
  have : c ≠ 93 := by intro h2; rw [h2] at h; revert h; decide
  simpa using this

theorem parseExtras_unterminated {c : UInt8} {cs : Bytes} (h : c.toNat = 91)
    (hi : indexWhere (· == 93) cs = none) : parseExtras (c :: cs) = .err := by
  simp [parseExtras, h, indexByte, indexWhere, ne93_of_91 h, hi]

theorem slice_ok (site : String) (s : Bytes) {lo hi : Nat} (h1 : lo ≤ hi) (h2 : hi ≤ s.length) :
    slice site s lo hi = .ok ((s.take hi).drop lo) := by simp [slice, h1, h2]

theorem sliceFrom_ok (site : String) (s : Bytes) {lo : Nat} (h : lo ≤ s.length) :
    sliceFrom site s lo = .ok (s.drop lo) := by simp [sliceFrom, h]

theorem parseExtras_bracket {c : UInt8} {cs : Bytes} {e : Nat} (h : c.toNat = 91)
    (hi : indexWhere (· == 93) cs = some e) :
    parseExtras (c :: cs) = .ok (trim (cs.take e), cs.drop (e + 1)) := by
  have hlt := indexWhere_lt hi
  simp only [parseExtras, h, indexByte, indexWhere, ne93_of_91 h, hi, Option.map, beq_self_eq_true,
    if_true, Bool.false_eq_true, if_false]
  rw [slice_ok _ _ (by omega) (by simp; omega), sliceFrom_ok _ _ (by simp; omega)]
  simp

/-- Extras section followed by anything: `"[" inner "]" rest`. -/
theorem parseExtras_section (inner rest : Bytes) (h : ∀ c ∈ inner, c ≠ 93) :
    parseExtras (91 :: inner ++ 93 :: rest) = .ok (trim inner, rest) := by
  have hi : indexWhere (· == 93) (inner ++ 93 :: rest) = some inner.length :=
    indexWhere_append_hit inner (fun c hc => by simpa using h c hc) 93 (by decide) rest
  rw [List.cons_append, parseExtras_bracket (by decide) hi]
  simp

/-! ### parseConstraint -/

/-- "May be parenthesized, we can remove those." (the value; `stripParens` never panics) -/
def stripParensVal (c0 : Bytes) : Bytes :=
  if hasPrefix c0 [40] && hasSuffix c0 [41] then (c0.take (c0.length - 1)).drop 1 else c0

theorem paren_len {c0 : Bytes} (h : (hasPrefix c0 [40] && hasSuffix c0 [41]) = true) : 2 ≤ c0.length := by
  simp only [Bool.and_eq_true, hasPrefix, hasSuffix] at h
  match c0, h with
  | [], h => simp at h
  | [x], h =>
    obtain ⟨h1, h2⟩ := h
    simp [List.isSuffixOf] at h1 h2
    subst h1; revert h2; decide
  | _ :: _ :: _, _ => simp

theorem stripParens_ok (c0 : Bytes) : stripParens c0 = .ok (stripParensVal c0) := by
  unfold stripParens stripParensVal
  by_cases h : (hasPrefix c0 [40] && hasSuffix c0 [41]) = true
  · have := paren_len h
    simp only [h, if_true]
    rw [slice_ok _ _ (by omega) (by omega)]
  · simp [h]

theorem parseConstraint_nil : parseConstraint [] = .ok ([], []) := rfl

theorem parseConstraint_semi {c : UInt8} {cs : Bytes} (h : c.toNat = 59) :
    parseConstraint (c :: cs) = .ok ([], c :: cs) := by
  simp [parseConstraint, h]

theorem indexByteOrLen_le (s : Bytes) (b : UInt8) : indexByteOrLen s b ≤ s.length := by
  unfold indexByteOrLen
  cases hi : indexByte s b with
  | none => simp
  | some e => have := indexWhere_lt hi; simp; omega

theorem parseConstraint_general {c : UInt8} {cs : Bytes} (h : c.toNat ≠ 59) :
    parseConstraint (c :: cs) =
      .ok (stripParensVal (trim ((c :: cs).take (indexByteOrLen (c :: cs) 59))),
           (c :: cs).drop (indexByteOrLen (c :: cs) 59)) := by
  have hend := indexByteOrLen_le (c :: cs) 59
  unfold parseConstraint
  simp only [h, beq_iff_eq, if_false]
  rw [slice_ok _ _ (Nat.zero_le _) hend, sliceFrom_ok _ _ hend]
  simp only [ok_bind, List.drop_zero, stripParens_ok, pure_eq]

/-- Constraint text `P` (no `;`) followed by nothing or by `;…`. -/
theorem parseConstraint_append (P Rt : Bytes) (hP : ∀ c ∈ P, c ≠ 59)
    (hR : Rt = [] ∨ ∃ m, Rt = 59 :: m) :
    parseConstraint (P ++ Rt) = .ok (stripParensVal (trim P), Rt) := by
  have hP' : ∀ c ∈ P, (c == 59) = false := fun c hc => by simpa using hP c hc
  cases P with
  | nil =>
    rcases hR with rfl | ⟨m, rfl⟩
    · rfl
    · rw [List.nil_append, parseConstraint_semi (by decide)]; rfl
  | cons c cs =>
    have hc : c.toNat ≠ 59 := by
      intro h; exact hP c (by simp) (byte_eq h)
    have hidx : indexByteOrLen (c :: cs ++ Rt) 59 = (c :: cs).length := by
      unfold indexByteOrLen
      rcases hR with rfl | ⟨m, rfl⟩
      · have : indexByte (c :: cs ++ []) 59 = none := by
          rw [List.append_nil]; exact indexWhere_none _ hP'
        rw [this]; simp
      · have : indexByte (c :: cs ++ 59 :: m) 59 = some (c :: cs).length :=
          indexWhere_append_hit _ hP' 59 (by decide) m
        rw [this]
    rw [List.cons_append, parseConstraint_general hc, ← List.cons_append, hidx]
    simp
where
  byte_eq {c : UInt8} (h : c.toNat = 59) : c = 59 := UInt8.toNat_inj.mp (by simpa using h)

end DepsDev.Proofs.C16Dep

namespace DepsDev.Proofs.C16Dep
open DepsDev DepsDev.Pypi DepsDev.Ref.Pep508 DepsDev.Proofs.C16Bytes

/-! ### The whole function -/

theorem parseDependency_name_only (v s : Bytes) (hv : v ≠ []) (ht : trim v = s)
    (hns : ∀ x ∈ s, isNameStop x = false) (hne : s ≠ []) :
    parseDependency v = .ok { name := canonPackageName s } := by
  unfold parseDependency
  have : v.isEmpty = false := by cases v <;> simp_all
  simp only [this, Bool.false_eq_true, if_false, ht, indexWhere_none s hns]

theorem parseDependency_split (v name : Bytes) (c : UInt8) (t : Bytes) (hv : v ≠ [])
    (ht : trim v = name ++ c :: t) (hname : name ≠ []) (hns : ∀ x ∈ name, isNameStop x = false)
    (hc : isNameStop c = true) :
    parseDependency v = parseAfterName name (c :: t) := by
  unfold parseDependency
  have : v.isEmpty = false := by cases v <;> simp_all
  simp only [this, Bool.false_eq_true, if_false, ht, indexWhere_append_hit name hns c hc t]
  obtain ⟨k, hk⟩ : ∃ k, name.length = k + 1 := by
    cases name with
    | nil => exact absurd rfl hname
    | cons a as => exact ⟨as.length, rfl⟩
  rw [hk]
  simp only []
  rw [← hk, slice_prefix, sliceFrom_suffix]
  rfl

/-- No index or slice expression of `ParseDependency` can panic. -/
theorem parseAfterName_no_panic (nm tl : Bytes) (h : EndsNonWs tl) :
    (parseAfterName nm tl).isPanic = false := by
  unfold parseAfterName
  have hs : trimLeft tl ≠ [] := by
    obtain ⟨p, c, rfl, hc⟩ := h
    unfold trimLeft
    induction p with
    | nil => simp [List.dropWhile, hc]
    | cons a p ih =>
      rw [List.cons_append, List.dropWhile_cons]
      by_cases ha : isWs a = true
      · simp only [ha, if_true]; exact ih
      · simp [ha]
  generalize trimLeft tl = s at hs
  obtain ⟨c, cs, rfl⟩ : ∃ c cs, s = c :: cs := by
    cases s with
    | nil => exact absurd rfl hs
    | cons c cs => exact ⟨c, cs, rfl⟩
  have hex : (∃ e r, parseExtras (c :: cs) = .ok (e, r)) ∨ parseExtras (c :: cs) = .err := by
    by_cases h91 : c.toNat = 91
    · cases hi : indexWhere (· == 93) cs with
      | none => right; exact parseExtras_unterminated h91 hi
      | some e => left; exact ⟨_, _, parseExtras_bracket h91 hi⟩
    · left; exact ⟨_, _, parseExtras_no_bracket h91⟩
  rcases hex with ⟨e, r, he⟩ | he
  · simp only [he, ok_bind]
    have hc : ∃ k r', parseConstraint r = .ok (k, r') := by
      cases r with
      | nil => exact ⟨_, _, parseConstraint_nil⟩
      | cons a as =>
        by_cases h59 : a.toNat = 59
        · exact ⟨_, _, parseConstraint_semi h59⟩
        · exact ⟨_, _, parseConstraint_general h59⟩
    obtain ⟨k, r', hk⟩ := hc
    simp only [hk, ok_bind]
    unfold parseEnvironment
    cases r' with
    | nil => rfl
    | cons a as => by_cases h59 : (a.toNat != 59) = true <;> simp [h59, Outcome.isPanic]
  · simp [he, Outcome.isPanic]

theorem drop_ends {s : Bytes} (h : EndsNonWs s) {n : Nat} (hn : n < s.length) : EndsNonWs (s.drop n) := by
  obtain ⟨p, c, rfl, hc⟩ := h
  have : n ≤ p.length := by simp at hn; omega
  rw [List.drop_append_of_le_length this]
  exact ⟨_, c, rfl, hc⟩

theorem parseDependency_no_panic (v : Bytes) : (parseDependency v).isPanic = false := by
  unfold parseDependency
  by_cases hv : v.isEmpty = true
  · simp [hv, Outcome.isPanic]
  simp only [hv, Bool.false_eq_true, if_false]
  cases hi : indexWhere isNameStop (trim v) with
  | none => rfl
  | some n =>
    cases n with
    | zero => rfl
    | succ k =>
      have hlt := indexWhere_lt hi
      simp only []
      rw [slice_ok _ _ (Nat.zero_le _) (by omega), sliceFrom_ok _ _ (by omega)]
      simp only [ok_bind]
      apply parseAfterName_no_panic
      rcases trim_ends v with h | h
      · rw [h] at hlt; simp at hlt
      · exact drop_ends h hlt

end DepsDev.Proofs.C16Dep

namespace DepsDev.Proofs.C16Dep
open DepsDev DepsDev.Pypi DepsDev.Ref.Pep508 DepsDev.Proofs.C16Bytes

/-! ### Segment level: `name  ws  [extras]  constraint  ;marker` as byte strings -/

/-- `"[" inner "]"` or nothing. -/
def exSeg : Option Bytes → Bytes
  | none => []
  | some i => 91 :: i ++ [93]

/-- `";" m` or nothing. -/
def rSeg : Option Bytes → Bytes
  | none => []
  | some m => 59 :: m

/-- `strings.Trim` of an optional text (nothing gives ""). -/
def optTrim : Option Bytes → Bytes
  | none => []
  | some i => trim i

theorem parseAfterName_segments (nm : Bytes) (wA : Ws) (ex : Option Bytes) (P : Bytes) (R : Option Bytes)
    (hex : ∀ i, ex = some i → ∀ c ∈ i, c ≠ 93)
    (hP : ∀ c ∈ P, c ≠ 59)
    (hstart : StartsNonWs (exSeg ex ++ P ++ rSeg R))
    (hnob : ex = none → ∀ c cs, P ++ rSeg R = c :: cs → c.toNat ≠ 91) :
    parseAfterName nm (wA.bytes ++ (exSeg ex ++ P ++ rSeg R)) =
      .ok { name := canonPackageName nm,
            extras := optTrim ex,
            constraint := stripParensVal (trim P),
            environment := optTrim R } := by
  unfold parseAfterName
  rw [trimLeft_ws_append, trimLeft_of_starts hstart]
  dsimp only
  have hR : rSeg R = [] ∨ ∃ m, rSeg R = 59 :: m := by
    cases R with
    | none => left; rfl
    | some m => right; exact ⟨m, rfl⟩
  have hstep : parseExtras (exSeg ex ++ P ++ rSeg R) =
      .ok (optTrim ex, P ++ rSeg R) := by
    cases ex with
    | none =>
      obtain ⟨c, cs, hcs, _⟩ := hstart
      simp only [exSeg, List.nil_append] at hcs ⊢
      rw [hcs, parseExtras_no_bracket (hnob rfl c cs hcs)]; rfl
    | some i =>
      have : exSeg (some i) ++ P ++ rSeg R = 91 :: i ++ 93 :: (P ++ rSeg R) := by simp [exSeg]
      rw [this, parseExtras_section i _ (hex i rfl)]; rfl
  rw [hstep]
  simp only [ok_bind]
  rw [parseConstraint_append P (rSeg R) hP hR]
  simp only [ok_bind]
  cases R with
  | none => rfl
  | some m => simp [rSeg, parseEnvironment, optTrim]

theorem isNameStop_of_isWs {c : UInt8} (h : isWs c = true) : isNameStop c = true := by
  simp [isNameStop, h]

theorem parseDependency_segments (wL wT wA : Ws) (name : Bytes) (ex : Option Bytes) (P : Bytes) (R : Option Bytes)
    (hname : name ≠ []) (hns : ∀ x ∈ name, isNameStop x = false)
    (hex : ∀ i, ex = some i → ∀ c ∈ i, c ≠ 93)
    (hP : ∀ c ∈ P, c ≠ 59)
    (hstart : StartsNonWs (exSeg ex ++ P ++ rSeg R))
    (hend : EndsNonWs (exSeg ex ++ P ++ rSeg R))
    (hstop : wA = [] → ∀ c cs, exSeg ex ++ P ++ rSeg R = c :: cs → isNameStop c = true)
    (hnob : ex = none → ∀ c cs, P ++ rSeg R = c :: cs → c.toNat ≠ 91) :
    parseDependency (wL.bytes ++ (name ++ (wA.bytes ++ (exSeg ex ++ P ++ rSeg R))) ++ wT.bytes) =
      .ok { name := canonPackageName name,
            extras := optTrim ex,
            constraint := stripParensVal (trim P),
            environment := optTrim R } := by
  have hbs : StartsNonWs (name ++ (wA.bytes ++ (exSeg ex ++ P ++ rSeg R))) := by
    cases name with
    | nil => exact absurd rfl hname
    | cons a as =>
      refine ⟨a, _, rfl, ?_⟩
      have := hns a (by simp)
      cases hw : isWs a with
      | false => rfl
      | true => rw [isNameStop_of_isWs hw] at this; cases this
  have hbe : EndsNonWs (name ++ (wA.bytes ++ (exSeg ex ++ P ++ rSeg R))) :=
    ends_append _ (ends_append _ hend)
  have htrim := trim_ws_tight wL wT hbs hbe
  obtain ⟨c, t, htail, hc⟩ : ∃ c t, wA.bytes ++ (exSeg ex ++ P ++ rSeg R) = c :: t ∧ isNameStop c = true := by
    cases wA with
    | nil =>
      obtain ⟨c, cs, hcs, _⟩ := hstart
      exact ⟨c, cs, by simpa [Ws.bytes] using hcs, hstop rfl c cs hcs⟩
    | cons b w => exact ⟨wsByte b, _, rfl, isNameStop_of_isWs (isWs_wsByte b)⟩
  have hv : wL.bytes ++ (name ++ (wA.bytes ++ (exSeg ex ++ P ++ rSeg R))) ++ wT.bytes ≠ [] := by
    intro h
    have := congrArg List.length h
    cases name with
    | nil => exact hname rfl
    | cons a as => simp at this
  rw [parseDependency_split _ name c t hv (by rw [htrim, htail]) hname hns hc, ← htail]
  exact parseAfterName_segments name wA ex P R hex hP hstart hnob

theorem parseDependency_bare (wL wT : Ws) (name : Bytes)
    (hname : name ≠ []) (hns : ∀ x ∈ name, isNameStop x = false) :
    parseDependency (wL.bytes ++ name ++ wT.bytes) = .ok { name := canonPackageName name } := by
  have hv : wL.bytes ++ name ++ wT.bytes ≠ [] := by
    intro h
    have := congrArg List.length h
    cases name with
    | nil => exact hname rfl
    | cons a as => simp at this
  have hnw : ∀ x ∈ name, isWs x = false := by
    intro x hx
    have := hns x hx
    cases hw : isWs x with
    | false => rfl
    | true => rw [isNameStop_of_isWs hw] at this; cases this
  have hs : StartsNonWs name := by
    cases name with
    | nil => exact absurd rfl hname
    | cons a as => exact ⟨a, as, rfl, hnw a (by simp)⟩
  have he : EndsNonWs name := by
    have hne := hname
    rcases List.eq_nil_or_concat name with h | ⟨p, c, h⟩
    · exact absurd h hne
    · exact ⟨p, c, by simpa using h, hnw c (by rw [h]; simp)⟩
  exact parseDependency_name_only _ name hv (trim_ws_tight wL wT hs he) hns hname

end DepsDev.Proofs.C16Dep
