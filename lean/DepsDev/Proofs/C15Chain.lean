import DepsDev.Proofs.C15Equal

/-!
# C15: the Go pipeline equals the reference semantics on lineages with inheritance

Fragment: the project and any number of ancestors, none of which has profiles,
placeholders or import-scoped entries; within one POM the keys are distinct, but a child
may redeclare (override) keys of its ancestors. The core of the proof is that Maven's nested
child-wins keyed merges equal the library's "concatenate, then first declaration wins".
-/
namespace DepsDev.Proofs.C15Chain
open DepsDev DepsDev.Model.Maven DepsDev.Ref DepsDev.Ref.MavenModel DepsDev.Gen
open DepsDev.Proofs.C15Interp DepsDev.Proofs.C15Precedence DepsDev.Proofs.C15Equal

/-- concatenate, then the first declaration of a key wins -/
def firstWins (ds : List Dep) : List Dep := ds.foldl (put false) []

/-! ## `put false` (= `putIfAbsent`) -/

theorem put_present (acc : List Dep) (d : Dep) (h : mkey d ∈ acc.map mkey) : put false acc d = acc := by
  induction acc with
  | nil => simp at h
  | cons x xs ih =>
    by_cases e : mkey x = mkey d
    · simp [put, e]
    · have : mkey d ∈ xs.map mkey := by
        simp only [List.map_cons, List.mem_cons] at h
        cases h with
        | inl h => exact absurd h.symm e
        | inr h => exact h
      simp [put, e, ih this]

theorem put_absent (acc : List Dep) (d : Dep) (h : mkey d ∉ acc.map mkey) : put false acc d = acc ++ [d] :=
  put_fresh false acc d (fun x hx e => h (by rw [← e]; exact List.mem_map_of_mem hx))

theorem keys_put (acc : List Dep) (d : Dep) :
    (put false acc d).map mkey = if mkey d ∈ acc.map mkey then acc.map mkey else acc.map mkey ++ [mkey d] := by
  by_cases h : mkey d ∈ acc.map mkey
  · rw [put_present acc d h]; simp [h]
  · rw [put_absent acc d h]; simp [h]

theorem mem_put {acc : List Dep} {d x : Dep} (h : x ∈ put false acc d) : x ∈ acc ∨ x = d := by
  by_cases hk : mkey d ∈ acc.map mkey
  · rw [put_present acc d hk] at h; exact Or.inl h
  · rw [put_absent acc d hk] at h; simpa using h

theorem allDistinct_snoc' {l : List DepKey} {k : DepKey} (h : Clauses.allDistinct l = true) (hk : k ∉ l) :
    Clauses.allDistinct (l ++ [k]) = true := by
  induction l with
  | nil => simp [Clauses.allDistinct]
  | cons x xs ih =>
    have ⟨h1, h2⟩ := allDistinct_cons h
    simp only [List.mem_cons, not_or] at hk
    simp only [List.cons_append, Clauses.allDistinct, Bool.and_eq_true, Bool.not_eq_true', List.contains_eq_mem,
      decide_eq_false_iff_not, List.mem_append, List.mem_singleton, not_or]
    exact ⟨⟨h1, fun e => hk.1 e.symm⟩, ih h2 hk.2⟩

theorem distinct_put (acc : List Dep) (d : Dep) (h : Clauses.allDistinct (acc.map mkey) = true) :
    Clauses.allDistinct ((put false acc d).map mkey) = true := by
  rw [keys_put]; split
  · exact h
  · rename_i hk; exact allDistinct_snoc' h hk

theorem distinct_foldl_put (ds acc : List Dep) (h : Clauses.allDistinct (acc.map mkey) = true) :
    Clauses.allDistinct ((ds.foldl (put false) acc).map mkey) = true := by
  induction ds generalizing acc with
  | nil => exact h
  | cons d rest ih => exact ih _ (distinct_put acc d h)

theorem distinct_firstWins (ds : List Dep) : Clauses.allDistinct ((firstWins ds).map mkey) = true :=
  distinct_foldl_put ds [] rfl

theorem mem_foldl_put {ds acc : List Dep} {x : Dep} (h : x ∈ ds.foldl (put false) acc) : x ∈ acc ∨ x ∈ ds := by
  induction ds generalizing acc with
  | nil => exact Or.inl h
  | cons d rest ih =>
    cases ih h with
    | inl h' =>
      cases mem_put h' with
      | inl h'' => exact Or.inl h''
      | inr h'' => exact Or.inr (by simp [h''])
    | inr h' => exact Or.inr (by simp [h'])

theorem mem_firstWins {ds : List Dep} {x : Dep} (h : x ∈ firstWins ds) : x ∈ ds := by
  cases mem_foldl_put h with
  | inl h => cases h
  | inr h => exact h

theorem keys_foldl_put_sub (ds acc : List Dep) (k : DepKey) (h : k ∈ acc.map mkey ∨ k ∈ ds.map mkey) :
    k ∈ (ds.foldl (put false) acc).map mkey := by
  induction ds generalizing acc with
  | nil => simpa using h
  | cons d rest ih =>
    apply ih
    rw [keys_put]
    cases h with
    | inl h => left; split <;> simp [h]
    | inr h =>
      simp only [List.map_cons, List.mem_cons] at h
      cases h with
      | inl h => left; subst h; split <;> simp_all
      | inr h => right; exact h

/-- every key of the input is a key of the deduplicated list -/
theorem keys_firstWins (ds : List Dep) (k : DepKey) (h : k ∈ ds.map mkey) : k ∈ (firstWins ds).map mkey :=
  keys_foldl_put_sub ds [] k (Or.inr h)

/-- folding `putIfAbsent` over a list or over its first-wins dedupe gives the same result -/
theorem foldl_put_firstWins_snoc (X A : List Dep) (x : Dep)
    (ih : X.foldl (put false) A = (firstWins X).foldl (put false) A) :
    (X ++ [x]).foldl (put false) A = (firstWins (X ++ [x])).foldl (put false) A := by
  unfold firstWins at *
  simp only [List.foldl_append, List.foldl_cons, List.foldl_nil]
  by_cases hk : mkey x ∈ X.map mkey
  · have h1 : mkey x ∈ (X.foldl (put false) []).map mkey := keys_foldl_put_sub X [] _ (Or.inr hk)
    have h2 : mkey x ∈ (X.foldl (put false) A).map mkey := keys_foldl_put_sub X A _ (Or.inr hk)
    rw [put_present _ x h1, put_present _ x h2, ih]
  · have h1 : mkey x ∉ (X.foldl (put false) []).map mkey := by
      intro hm
      obtain ⟨y, hy, ey⟩ := List.mem_map.1 hm
      have := mem_foldl_put hy
      cases this with
      | inl h => cases h
      | inr h => exact hk (by rw [← ey]; exact List.mem_map_of_mem h)
    rw [put_absent _ x h1, List.foldl_append, ← ih]
    rfl

theorem foldl_put_firstWins_rev (Y A : List Dep) :
    Y.reverse.foldl (put false) A = (firstWins Y.reverse).foldl (put false) A := by
  induction Y with
  | nil => rfl
  | cons y ys ih => rw [List.reverse_cons]; exact foldl_put_firstWins_snoc _ A y ih

theorem foldl_put_firstWins (X A : List Dep) : X.foldl (put false) A = (firstWins X).foldl (put false) A := by
  have := foldl_put_firstWins_rev X.reverse A
  simpa using this

/-! ## the library's dedupe loops compute `firstWins` -/

theorem find_isSome_iff (acc : List Dep) (k : DepKey) :
    (acc.find? fun md => mkey md = k).isSome = true ↔ k ∈ acc.map mkey := by
  simp only [List.find?_isSome, decide_eq_true_eq, List.mem_map]

theorem insertIfAbsent_entry (acc : List Dep) (d : Dep) :
    DepMap.insertIfAbsent (acc.map entry) d.key d.normType = (put false acc d).map entry := by
  unfold DepMap.insertIfAbsent
  rw [get_map_entry, key_eq_mkey]
  by_cases hk : mkey d ∈ acc.map mkey
  · have := (find_isSome_iff acc (mkey d)).2 hk
    cases hf : acc.find? (fun md => mkey md = mkey d) with
    | none => rw [hf] at this; cases this
    | some x => simp [put_present acc d hk]
  · have : (acc.find? fun md => mkey md = mkey d) = none := by
      cases hf : acc.find? (fun md => mkey md = mkey d) with
      | none => rfl
      | some x => exact absurd ((find_isSome_iff acc (mkey d)).1 (by rw [hf]; rfl)) hk
    simp [this, put_absent acc d hk, entry, key_eq_mkey]

theorem dedupeDeps_firstWins (ds acc : List Dep) :
    dedupeDeps ds (acc.map entry) = (ds.foldl (put false) acc).map entry := by
  induction ds generalizing acc with
  | nil => rfl
  | cons d rest ih => simp only [dedupeDeps, List.foldl, insertIfAbsent_entry, ih]

theorem addDepManagement_firstWins (ds acc : List Dep) (hs : ds.all (fun d => d.scope != bImport) = true) :
    addDepManagement ds (acc.map entry) = ((ds.foldl (put false) acc).map entry, []) := by
  induction ds generalizing acc with
  | nil => rfl
  | cons d rest ih =>
    simp only [List.all_cons, Bool.and_eq_true] at hs
    have hne : ¬ d.scope = bImport := by simpa using hs.1
    simp only [addDepManagement, hne, if_false, List.foldl, insertIfAbsent_entry, ih _ hs.2]

/-! ## Maven's keyed merge (child wins) on a target with distinct keys -/

theorem mergeKeyed_false (tgt src : List Dep) (h : Clauses.allDistinct (tgt.map mkey) = true) :
    mergeKeyed tgt src false = src.foldl (put false) tgt := by
  unfold mergeKeyed
  cases src with
  | nil => rfl
  | cons x xs => simp [mergeDuplicates_distinct tgt h]

/-- **Inheritance = concatenate + first wins**: merging a child (distinct keys) with the
deduplicated concatenation of its ancestors' lists is the deduplicated concatenation. -/
theorem inherit_eq_firstWins (child anc : List Dep) (h : Clauses.allDistinct (child.map mkey) = true) :
    mergeKeyed child (firstWins anc) false = firstWins (child ++ anc) := by
  rw [mergeKeyed_false child _ h]
  unfold firstWins
  rw [List.foldl_append, foldl_put_distinct false child [] (by simpa using h)]
  simp only [List.nil_append]
  exact (foldl_put_firstWins anc child).symm

/-! ## the chain of a project: what both sides merge -/

def catDeps (ch : List Project) : List Dep := ch.flatMap (·.deps)
def catMgmt (ch : List Project) : List Dep := ch.flatMap (·.mgmt)

/-- the first non-empty groupId / version walking up the chain -/
def mergedG : List Project → Bytes
  | [] => []
  | p :: rest => if p.g.isEmpty then mergedG rest else p.g
def mergedV : List Project → Bytes
  | [] => []
  | p :: rest => if p.v.isEmpty then mergedV rest else p.v

/-- a POM of the fragment -/
def plainPom (p : Project) : Bool :=
  p.profiles.isEmpty && plain p.g && plain p.v && p.deps.all plainDep && p.mgmt.all plainDep &&
  p.mgmt.all (fun d => d.scope != bImport) &&
  Clauses.allDistinct (p.deps.map mkey) && Clauses.allDistinct (p.mgmt.map mkey)

structure PlainPom (p : Project) : Prop where
  profiles : p.profiles = []
  pg : plain p.g = true
  pv : plain p.v = true
  pdeps : p.deps.all plainDep = true
  pmgmt : p.mgmt.all plainDep = true
  noimp : p.mgmt.all (fun d => d.scope != bImport) = true
  ddeps : Clauses.allDistinct (p.deps.map mkey) = true
  dmgmt : Clauses.allDistinct (p.mgmt.map mkey) = true

theorem plainPom_iff (p : Project) (h : plainPom p = true) : PlainPom p := by
  simp only [plainPom, Bool.and_eq_true, List.isEmpty_iff] at h
  obtain ⟨⟨⟨⟨⟨⟨⟨h1, h2⟩, h3⟩, h4⟩, h5⟩, h6⟩, h7⟩, h8⟩ := h
  exact ⟨h1, h2, h3, h4, h5, h6, h7, h8⟩

/-! ### the library's loop walks the same chain -/

theorem foldl_mergeParent (anc : List Project) (root : Project) :
    let m := anc.foldl Project.MergeParent root
    m.deps = catDeps (root :: anc) ∧ m.mgmt = catMgmt (root :: anc) ∧
    m.g = mergedG (root :: anc) ∧ m.v = mergedV (root :: anc) ∧
    m.a = root.a ∧ m.parent = root.parent ∧ m.profiles = root.profiles := by
  induction anc generalizing root with
  | nil => simp [catDeps, catMgmt, mergedG, mergedV]
  | cons a rest ih =>
    have := ih (root.MergeParent a)
    simp only [List.foldl] at this ⊢
    obtain ⟨h1, h2, h3, h4, h5, h6, h7⟩ := this
    refine ⟨?_, ?_, ?_, ?_, h5, h6, h7⟩
    · rw [h1]; simp [catDeps, Project.MergeParent]
    · rw [h2]; simp [catMgmt, Project.MergeParent]
    · rw [h3]; simp only [mergedG, Project.MergeParent, strMerge]
      by_cases e : root.g.isEmpty <;> simp [e]
    · rw [h4]; simp only [mergedV, Project.MergeParent, strMerge]
      by_cases e : root.v.isEmpty <;> simp [e]

def noKey : Key := ⟨[], [], []⟩

theorem chain_end {repo : List Project} {fuel : Nat} {seen : List Key} {p : Project} (h : p.parent = noKey) :
    chain repo fuel seen p = some [p] := by
  unfold chain; simp [h, noKey]

theorem chain_step {repo : List Project} {fuel : Nat} {seen : List Key} {p : Project} {l : List Project}
    (h : ¬ p.parent = noKey) (hc : chain repo fuel seen p = some l) :
    ∃ k par l', fuel = k + 1 ∧ (p.parent.g.isEmpty || p.parent.a.isEmpty || p.parent.v.isEmpty) = false ∧
      seen.contains p.parent = false ∧ fetch repo p.parent = some par ∧ par.packaging = bPom ∧
      chain repo k (p.parent :: seen) par = some l' ∧ l = p :: l' := by
  have h' : ¬ p.parent = ⟨[], [], []⟩ := h
  cases fuel with
  | zero => unfold chain at hc; simp [h'] at hc
  | succ k =>
    unfold chain at hc
    simp only [h', if_false] at hc
    cases he : (p.parent.g.isEmpty || p.parent.a.isEmpty || p.parent.v.isEmpty) with
    | true => simp [he] at hc
    | false =>
      by_cases hs : p.parent ∈ seen
      · simp [he, hs] at hc
      · have hsb : seen.contains p.parent = false := by simpa using hs
        cases hf : fetch repo p.parent with
        | none => simp [he, hs, hf] at hc
        | some par =>
          by_cases hp : par.packaging = bPom
          · cases hch : chain repo k (p.parent :: seen) par with
            | none => simp [he, hs, hf, hp, hch] at hc
            | some l' =>
              simp [he, hs, hf, hp, hch] at hc
              exact ⟨k, par, l', rfl, rfl, hsb, rfl, hp, hch, hc.symm⟩
          · simp [he, hs, hf, hp] at hc

theorem chain_head {repo : List Project} {fuel : Nat} {seen : List Key} {p : Project} {l : List Project}
    (hc : chain repo fuel seen p = some l) : ∃ l', l = p :: l' := by
  by_cases h : p.parent = noKey
  · rw [chain_end h] at hc; exact ⟨[], by simpa using hc.symm⟩
  · obtain ⟨_, _, l', _, _, _, _, _, _, e⟩ := chain_step h hc; exact ⟨l', e⟩

theorem loop_follows_chain (repo : List Project) :
    ∀ (anc : List Project) (p : Project) (fuelC : Nat) (seen : List Key) (fuel n : Nat) (result : Project),
      chain repo fuelC seen p = some (p :: anc) → (∀ q ∈ anc, q.profiles = []) → anc.length ≤ fuel → 0 < n →
      mergeParentsLoop repo fuel n seen p.parent result = some (anc.foldl Project.MergeParent result) := by
  intro anc
  induction anc with
  | nil =>
    intro p fuelC seen fuel n result hc _ _ _
    have hp : p.parent = noKey := by
      apply Classical.byContradiction
      intro h
      obtain ⟨k, par, l', _, _, _, _, _, hch, e⟩ := chain_step h hc
      obtain ⟨l'', e'⟩ := chain_head hch
      simp [e'] at e
    have hp' : p.parent = ⟨[], [], []⟩ := hp
    rw [hp']; simp [loop_no_parent]
  | cons a rest ih =>
    intro p fuelC seen fuel n result hc hprof hlen hn
    have hp : ¬ p.parent = noKey := by
      intro h; rw [chain_end h] at hc; simp at hc
    obtain ⟨k, par, l', _, hne, hns, hfetch, hpk, hch, e⟩ := chain_step hp hc
    obtain ⟨l'', e'⟩ := chain_head hch
    subst e'
    simp only [List.cons.injEq, true_and] at e
    obtain ⟨ea, er⟩ := e
    subst ea; subst er
    cases fuel with
    | zero => simp at hlen
    | succ f =>
      have hprofA : a.profiles = [] := hprof a (by simp)
      have hn' : decide (n > 0) = true := by simpa using hn
      unfold mergeParentsLoop
      simp only [hne, Bool.false_eq_true, if_false, hns, hfetch, hn', hpk, ne_eq, not_true_eq_false,
        decide_false, Bool.and_false, mergeProfiles_none a hprofA, List.foldl]
      exact ih a k (p.parent :: seen) f (n + 1) (result.MergeParent a) hch
        (fun q hq => hprof q (by simp [hq])) (by simp at hlen; omega) (by omega)

/-! ### Maven's assembly of the same chain -/

theorem injectProfiles_none (env : Env) (p : Project) (h : p.profiles = []) :
    injectProfiles env p = ⟨p.g, p.a, p.v, p.parent, p.packaging, putProps [] p.props, mergeDuplicates p.deps, p.mgmt⟩ := by
  unfold injectProfiles MavenModel.activeProfiles
  simp [h]

theorem firstWins_distinct (ds : List Dep) (h : Clauses.allDistinct (ds.map mkey) = true) : firstWins ds = ds := by
  unfold firstWins
  rw [foldl_put_distinct false ds [] (by simpa using h)]; simp

theorem assemble_plain (env : Env) : ∀ (p : Project) (rest : List Project), (∀ q ∈ p :: rest, PlainPom q) →
    ∃ m, assemble env (p :: rest) = some m ∧ m.g = mergedG (p :: rest) ∧ m.v = mergedV (p :: rest) ∧ m.a = p.a ∧
      m.deps = firstWins (catDeps (p :: rest)) ∧ m.mgmt = firstWins (catMgmt (p :: rest)) := by
  intro p rest
  induction rest generalizing p with
  | nil =>
    intro h
    have hp := h p (by simp)
    refine ⟨injectProfiles env p, by simp [assemble], ?_, ?_, ?_, ?_, ?_⟩
    · simp [injectProfiles_none env p hp.profiles, mergedG]
    · simp [injectProfiles_none env p hp.profiles, mergedV]
    · simp [injectProfiles_none env p hp.profiles]
    · simp [injectProfiles_none env p hp.profiles, catDeps, mergeDuplicates_distinct _ hp.ddeps,
        firstWins_distinct _ hp.ddeps]
    · simp [injectProfiles_none env p hp.profiles, catMgmt, firstWins_distinct _ hp.dmgmt]
  | cons q rest ih =>
    intro h
    have hp := h p (by simp)
    obtain ⟨m, hm, hg, hv, _, hd, hmg⟩ := ih q (fun x hx => h x (by simp [hx]))
    refine ⟨inherit (injectProfiles env p) m, by simp [assemble, hm], ?_, ?_, ?_, ?_, ?_⟩
    · simp only [inherit, injectProfiles_none env p hp.profiles, hg]; rfl
    · simp only [inherit, injectProfiles_none env p hp.profiles, hv]; rfl
    · simp [inherit, injectProfiles_none env p hp.profiles]
    · simp only [inherit, injectProfiles_none env p hp.profiles, hd, mergeDuplicates_distinct _ hp.ddeps]
      rw [inherit_eq_firstWins _ _ hp.ddeps]; simp [catDeps]
    · simp only [inherit, injectProfiles_none env p hp.profiles, hmg]
      rw [inherit_eq_firstWins _ _ hp.dmgmt]; simp [catMgmt]

/-! ### properties of the merged lists -/

theorem all_flatMap {q : Dep → Bool} {f : Project → List Dep} {ch : List Project}
    (h : ∀ p ∈ ch, (f p).all q = true) : (ch.flatMap f).all q = true := by
  simp only [List.all_eq_true, List.mem_flatMap] at h ⊢
  intro x ⟨p, hp, hx⟩
  exact h p hp x hx

theorem all_firstWins {q : Dep → Bool} {ds : List Dep} (h : ds.all q = true) : (firstWins ds).all q = true := by
  simp only [List.all_eq_true] at h ⊢
  intro x hx
  exact h x (mem_firstWins hx)

theorem plain_mergedG {ch : List Project} (h : ∀ p ∈ ch, PlainPom p) : plain (mergedG ch) = true := by
  induction ch with
  | nil => decide
  | cons p rest ih =>
    simp only [mergedG]
    split
    · exact ih (fun q hq => h q (by simp [hq]))
    · exact (h p (by simp)).pg

theorem plain_mergedV {ch : List Project} (h : ∀ p ∈ ch, PlainPom p) : plain (mergedV ch) = true := by
  induction ch with
  | nil => decide
  | cons p rest ih =>
    simp only [mergedV]
    split
    · exact ih (fun q hq => h q (by simp [hq]))
    · exact (h p (by simp)).pv

/-- Maven's validation of the effective model -/
def validCond (g a v : Bytes) (deps mgmt : List Dep) : Bool :=
  validId g && validId a && !v.isEmpty &&
  !deps.any (fun d => !validId d.g || !validId d.a || d.v.isEmpty) &&
  !mgmt.any (fun d => !validId d.g || !validId d.a)

theorem ref_chain (L : Lineage) (rest : List Project)
    (hch : chain L.repo (L.repo.length + 1) [] L.root = some (L.root :: rest)) (hp : ∀ q ∈ L.root :: rest, PlainPom q) :
    MavenModel.effective L =
      if validCond (mergedG (L.root :: rest)) L.root.a (mergedV (L.root :: rest))
          ((firstWins (catDeps (L.root :: rest))).map (refFill (firstWins (catMgmt (L.root :: rest)))))
          (firstWins (catMgmt (L.root :: rest)))
      then some ((firstWins (catDeps (L.root :: rest))).map (refFill (firstWins (catMgmt (L.root :: rest)))),
                 firstWins (catMgmt (L.root :: rest)))
      else none := by
  obtain ⟨m, hm, hg, hv, ha, hd, hmg⟩ := assemble_plain libEnv L.root rest hp
  have hpD : (firstWins (catDeps (L.root :: rest))).all plainDep = true :=
    all_firstWins (all_flatMap (fun q hq => (hp q hq).pdeps))
  have hpG : (firstWins (catMgmt (L.root :: rest))).all plainDep = true :=
    all_firstWins (all_flatMap (fun q hq => (hp q hq).pmgmt))
  have hni := not_isImport_of_scope (all_firstWins (all_flatMap (fun q hq => (hp q hq).noimp)) :
    (firstWins (catMgmt (L.root :: rest))).all (fun d => d.scope != bImport) = true)
  have hown : (firstWins (catMgmt (L.root :: rest))).filter (fun d => !isImport d) = firstWins (catMgmt (L.root :: rest)) :=
    filter_all _ _ hni
  have himp : (firstWins (catMgmt (L.root :: rest))).filter isImport = [] := filter_none _ _ hni
  unfold MavenModel.effective effectiveIn effectiveModel
  simp only [hch, hm, Option.bind_eq_bind, Option.bind_some, Option.pure_def, hd, hmg, hg, hv, ha]
  simp only [ref_mapM_plain _ hpD, ref_mapM_plain _ hpG, ref_interpTop_plain _ (plain_mergedG hp),
    ref_interpTop_plain _ (plain_mergedV hp), Option.bind_some, hown, himp, List.mapM_nil, Option.pure_def,
    List.isEmpty_nil, if_true]
  rw [foldl_fillLast_distinct _ _ (distinct_firstWins _) (distinct_firstWins _)]
  unfold validCond
  by_cases c1 : validId (mergedG (L.root :: rest)) = true <;> by_cases c2 : validId L.root.a = true <;>
    by_cases c3 : (mergedV (L.root :: rest)).isEmpty = true <;>
    by_cases c4 : ((firstWins (catDeps (L.root :: rest))).map (refFill (firstWins (catMgmt (L.root :: rest))))).any
        (fun d => !validId d.g || !validId d.a || d.v.isEmpty) = true <;>
    by_cases c5 : (firstWins (catMgmt (L.root :: rest))).any (fun d => !validId d.g || !validId d.a) = true <;>
    simp [c1, c2, c3, c4, c5]

/-! ### the library on the same chain -/

theorem go_chain (L : Lineage) (rest : List Project)
    (hch : chain L.repo (L.repo.length + 1) [] L.root = some (L.root :: rest)) (hp : ∀ q ∈ L.root :: rest, PlainPom q)
    (hlen : rest.length ≤ C15Consts.maxMavenParent - 1)
    (hneD : (catDeps (L.root :: rest)).all (fun d => !d.g.isEmpty && !d.a.isEmpty) = true)
    (hneG : (catMgmt (L.root :: rest)).all (fun d => !d.g.isEmpty && !d.a.isEmpty) = true) :
    goPipeline L =
      some ((firstWins (catDeps (L.root :: rest))).map (fun d => (refFill (firstWins (catMgmt (L.root :: rest))) d).normType),
            (firstWins (catMgmt (L.root :: rest))).map Dep.normType) := by
  have hprofs : ∀ q ∈ rest, q.profiles = [] := fun q hq => (hp q (by simp [hq])).profiles
  have hloop := loop_follows_chain L.repo rest L.root (L.repo.length + 1) [] (C15Consts.maxMavenParent - 1) 1 L.root
    hch hprofs hlen (by omega)
  obtain ⟨hd, hm, _, _, _, _, _⟩ := foldl_mergeParent rest L.root
  have hpD : (catDeps (L.root :: rest)).all plainDep = true := all_flatMap (fun q hq => (hp q hq).pdeps)
  have hpG : (catMgmt (L.root :: rest)).all plainDep = true := all_flatMap (fun q hq => (hp q hq).pmgmt)
  have hniG : (catMgmt (L.root :: rest)).all (fun d => d.scope != bImport) = true :=
    all_flatMap (fun q hq => (hp q hq).noimp)
  unfold goPipeline goPipelineWith goProjectWith
  rw [mergeProfiles_none L.root (hp L.root (by simp)).profiles]
  simp only [mergeParentsWith, hloop, Option.map_some]
  have hi := go_interpolateDeps_plain (rest.foldl Project.MergeParent L.root).propertyMap hpD hneD
  have hmm := go_interpolateDeps_plain (rest.foldl Project.MergeParent L.root).propertyMap hpG hneG
  simp only [interpolateDeps] at hi hmm
  simp only [Project.InterpolateWith, hd, hm, hi, hmm, Project.ProcessDependencies]
  have e1 := dedupeDeps_firstWins (catDeps (L.root :: rest)) []
  have e2 := addDepManagement_firstWins (catMgmt (L.root :: rest)) [] hniG
  simp only [List.map_nil] at e1 e2
  rw [e1, e2]
  simp only [importLoop_empty, List.map_map]
  congr 1
  congr 1
  apply List.map_congr_left
  intro d _
  simp only [Function.comp]
  exact go_fill_eq _ d

/-! ### the fragment and the theorem -/

/-- The fragment: the project's parent chain resolves (as Maven resolves it), is no longer than the
library's parent bound, and every POM on it is a `plainPom`. -/
def InheritPlain (L : Lineage) : Bool :=
  match chain L.repo (L.repo.length + 1) [] L.root with
  | none => false
  | some ch => ch.all plainPom && decide (ch.length ≤ C15Consts.maxMavenParent)

theorem mkey_ga {x y : Dep} (h : mkey y = mkey x) : y.g = x.g ∧ y.a = x.a := by
  unfold mkey at h
  simp only [DepKey.mk.injEq] at h
  exact ⟨h.1, h.2.1⟩

theorem refFill_ga (G : List Dep) (d : Dep) : (refFill G d).g = d.g ∧ (refFill G d).a = d.a := by
  unfold refFill; split <;> exact ⟨rfl, rfl⟩

theorem inherit_plain_agrees (L : Lineage) (h : InheritPlain L = true) (hv : MavenModel.effective L ≠ none) :
    (goPipeline L).map canon = (MavenModel.effective L).map canon := by
  unfold InheritPlain at h
  cases hch : chain L.repo (L.repo.length + 1) [] L.root with
  | none => simp [hch] at h
  | some ch =>
    simp only [hch, Bool.and_eq_true, decide_eq_true_eq] at h
    obtain ⟨rest, e⟩ := chain_head hch
    subst e
    have hp : ∀ q ∈ L.root :: rest, PlainPom q := fun q hq => plainPom_iff q (List.all_eq_true.1 h.1 q hq)
    have href := ref_chain L rest hch hp
    -- Maven accepts the model: the validation condition holds
    have hvalid : validCond (mergedG (L.root :: rest)) L.root.a (mergedV (L.root :: rest))
        ((firstWins (catDeps (L.root :: rest))).map (refFill (firstWins (catMgmt (L.root :: rest)))))
        (firstWins (catMgmt (L.root :: rest))) = true := by
      cases hc : validCond (mergedG (L.root :: rest)) L.root.a (mergedV (L.root :: rest))
        ((firstWins (catDeps (L.root :: rest))).map (refFill (firstWins (catMgmt (L.root :: rest)))))
        (firstWins (catMgmt (L.root :: rest))) with
      | true => rfl
      | false => rw [hc] at href; exact absurd href hv
    rw [hvalid, if_pos rfl] at href
    simp only [validCond, Bool.and_eq_true, Bool.not_eq_true', List.any_eq_false] at hvalid
    obtain ⟨⟨_, hvD⟩, hvG⟩ := hvalid
    -- hence every declared entry has a group and an artifact id
    have hneD : (catDeps (L.root :: rest)).all (fun d => !d.g.isEmpty && !d.a.isEmpty) = true := by
      rw [List.all_eq_true]
      intro x hx
      obtain ⟨y, hy, ey⟩ := List.mem_map.1 (keys_firstWins _ _ (List.mem_map_of_mem (f := mkey) hx))
      have hbad := hvD (refFill (firstWins (catMgmt (L.root :: rest))) y) (List.mem_map_of_mem hy)
      simp only [Bool.or_eq_true, Bool.not_eq_true', not_or, Bool.not_eq_false] at hbad
      have ⟨eg, ea⟩ := refFill_ga (firstWins (catMgmt (L.root :: rest))) y
      have ⟨eg', ea'⟩ := mkey_ga ey
      rw [eg, eg'] at hbad; rw [ea, ea'] at hbad
      simp [validId_nonempty hbad.1.1, validId_nonempty hbad.1.2]
    have hneG : (catMgmt (L.root :: rest)).all (fun d => !d.g.isEmpty && !d.a.isEmpty) = true := by
      rw [List.all_eq_true]
      intro x hx
      obtain ⟨y, hy, ey⟩ := List.mem_map.1 (keys_firstWins _ _ (List.mem_map_of_mem (f := mkey) hx))
      have hbad := hvG y hy
      simp only [Bool.or_eq_true, Bool.not_eq_true', not_or, Bool.not_eq_false] at hbad
      have ⟨eg', ea'⟩ := mkey_ga ey
      rw [eg', ea'] at hbad
      simp [validId_nonempty hbad.1, validId_nonempty hbad.2]
    have hlen : rest.length ≤ C15Consts.maxMavenParent - 1 := by
      have := h.2; simp only [List.length_cons] at this; omega
    rw [go_chain L rest hch hp hlen hneD hneG, href]
    simp only [Option.map_some, canon, List.map_map]
    congr 1
    congr 1
    · apply List.map_congr_left
      intro d _
      simp only [Function.comp, canon_normType]
    · apply List.map_congr_left
      intro d _
      simp only [Function.comp, canon_normType]

end DepsDev.Proofs.C15Chain
