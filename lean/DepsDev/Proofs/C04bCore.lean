import DepsDev.Proofs.C04bMaven
import DepsDev.Model.Semver.Constraint

/-!
# C04 (extension) — the invariant carried through the constraint machinery

`OKP Q x`: the computation `x` does not panic and, when it returns a value, the value satisfies
`Q` (a partial-correctness triple with "no panic" built in; `okp_bind` is the sequencing rule).

`VK s v`: `v` is a version of system `s` whose extension is absent or of the kind of `s`
(for Maven: with no element text starting with a separator). This is all `compare` needs not
to panic (`vcompare_np`): the failed type assertion needs two extensions of different kinds,
the `panic(bCategory)` of Maven needs an element text starting with `.`/`-`.

Facts about `System.Parse` / `System.parse`: the result is `VK` (`parseInf_okp`), and has at
least one number for every system but Maven (`parse_okp`).
-/
namespace DepsDev.Proofs.C04b

open DepsDev DepsDev.Semver DepsDev.Proofs Gen.SemverTables

/-! ## `OKP` -/

/-- No panic, and the postcondition on a returned value. -/
def OKP {α} (Q : α → Prop) : Outcome α → Prop
  | .ok a => Q a
  | .err => True
  | .panic => False

theorem okp_ok {α} {Q : α → Prop} {a : α} (h : Q a) : OKP Q (.ok a) := h
theorem okp_err {α} {Q : α → Prop} : OKP Q (.err : Outcome α) := trivial

theorem okp_bind {α β} {P : α → Prop} {Q : β → Prop} {x : Outcome α} {f : α → Outcome β}
    (hx : OKP P x) (hf : ∀ a, P a → OKP Q (f a)) : OKP Q (x >>= f) := by
  cases x with
  | ok a => exact hf a hx
  | err => trivial
  | panic => exact hx

theorem okp_bind' {α β} {P : α → Prop} {Q : β → Prop} {x : Outcome α} {f : α → Outcome β}
    (hx : OKP P x) (hf : ∀ a, P a → OKP Q (f a)) : OKP Q (x.bind f) := okp_bind hx hf

theorem okp_mono {α} {P Q : α → Prop} {x : Outcome α} (hx : OKP P x) (h : ∀ a, P a → Q a) : OKP Q x := by
  cases x with
  | ok a => exact h a hx
  | err => trivial
  | panic => exact hx

theorem okp_np {α} {Q : α → Prop} {x : Outcome α} (h : OKP Q x) : NoPanic x := by
  intro e; subst e; exact h

theorem okp_val {α} {Q : α → Prop} {x : Outcome α} {a : α} (h : OKP Q x) (e : x = .ok a) : Q a := by
  subst e; exact h

theorem okp_not_panic {α} {Q : α → Prop} {x : Outcome α} (h : OKP Q x) (e : x = .panic) : False := by
  subst e; exact h

theorem okp_intro {α} {Q : α → Prop} {x : Outcome α} (hnp : NoPanic x) (h : ∀ a, x = .ok a → Q a) : OKP Q x := by
  cases x with
  | ok a => exact h a rfl
  | err => trivial
  | panic => exact absurd rfl hnp

theorem okp_true {α} {x : Outcome α} (hnp : NoPanic x) : OKP (fun _ => True) x :=
  okp_intro hnp (fun _ _ => trivial)

theorem okp_and {α} {P Q : α → Prop} {x : Outcome α} (h1 : OKP P x) (h2 : OKP Q x) :
    OKP (fun a => P a ∧ Q a) x := by
  cases x with
  | ok a => exact ⟨h1, h2⟩
  | err => trivial
  | panic => exact h1

/-! ## `VK` -/

/-- The extension is absent or of the kind of the system. -/
def ExtOK (s : System) : Ext → Prop
  | .none => True
  | .maven els => s = .maven ∧ noSepStart els = true
  | .pep _ => s = .pypi
  | .gem _ => s = .rubygems

/-- A version of system `s` as it occurs inside the constraint machinery. -/
structure VK (s : System) (v : Version) : Prop where
  sys : v.sys = s
  ext : ExtOK s v.ext

/-- **`compare` never panics on two versions of one system's kind.** -/
theorem vcompare_np {s : System} {a b : Version} (ha : ExtOK s a.ext) (hb : ExtOK s b.ext) :
    NoPanic (vcompare a b) := by
  unfold vcompare
  split
  · exact noPanic_ok _
  · cases hea : a.ext <;> cases heb : b.ext <;> rw [hea] at ha <;> rw [heb] at hb <;>
      simp only [ExtOK] at ha hb <;> simp only
    all_goals first
      | (np_auto; done)
      | (obtain ⟨r, hr⟩ := Props.C01Maven.maven_no_panic _ _ ha.2 hb.2
         rw [hr]; exact noPanic_ok _)
      | (exfalso; obtain ⟨h1, _⟩ := ha; subst h1; cases hb; done)
      | (exfalso; obtain ⟨h1, _⟩ := hb; subst h1; cases ha; done)
      | (exfalso; subst ha; cases hb; done)

theorem vk_np {s : System} {a b : Version} (ha : VK s a) (hb : VK s b) : NoPanic (vcompare a b) :=
  vcompare_np ha.ext hb.ext

theorem vcmp_okp {s : System} {a b : Version} (ha : VK s a) (hb : VK s b) :
    OKP (fun _ => True) (vcompare a b) := okp_true (vk_np ha hb)

theorem vEqual_okp {s : System} {a b : Version} (ha : VK s a) (hb : VK s b) : OKP (fun _ => True) (vEqual a b) := by
  unfold vEqual; exact okp_bind (vcmp_okp ha hb) (fun _ _ => trivial)
theorem vLess_okp {s : System} {a b : Version} (ha : VK s a) (hb : VK s b) : OKP (fun _ => True) (vLess a b) := by
  unfold vLess; exact okp_bind (vcmp_okp ha hb) (fun _ _ => trivial)
theorem vLessEq_okp {s : System} {a b : Version} (ha : VK s a) (hb : VK s b) : OKP (fun _ => True) (vLessEq a b) := by
  unfold vLessEq; exact okp_bind (vcmp_okp ha hb) (fun _ _ => trivial)
theorem vGreater_okp {s : System} {a b : Version} (ha : VK s a) (hb : VK s b) : OKP (fun _ => True) (vGreater a b) := by
  unfold vGreater; exact okp_bind (vcmp_okp ha hb) (fun _ _ => trivial)

/-! ## `System.parse` -/

theorem parseInf_noPanic (sys : System) (b : Bytes) (ai : Bool) : NoPanic (parseInf sys b ai) := by
  unfold parseInf
  split
  · exact noPanic_ok _
  · cases sys <;> simp only
    case maven =>
      have := mavenInit_noPanic b
      split
      · exact noPanic_ok _
      · exact noPanic_err
      · rename_i hp; exact absurd hp this
    case pypi => exact pepInit_noPanic _ b
    all_goals exact parseGeneric_noPanic _ b ai

theorem parseGeneric_vk (s : System) (hs : s ≠ .maven ∧ s ≠ .pypi) (b : Bytes) (ai : Bool) (v : Version)
    (h : parseGeneric s b ai = .ok v) : VK s v := by
  unfold parseGeneric at h
  split at h
  · cases h
  · cases h
  · split at h
    · rename_i hr
      have : s = .rubygems := by simpa using hr
      subst this
      split at h
      · injection h with h; subst h; exact ⟨rfl, rfl⟩
      · cases h
      · cases h
    · injection h with h; subst h
      exact ⟨rfl, trivial⟩

/-- Whatever `System.parse` returns is a version of the system's kind (either setting of
`allowInfinity`). -/
theorem parseInf_vk (s : System) (b : Bytes) (ai : Bool) (v : Version) (h : parseInf s b ai = .ok v) : VK s v := by
  unfold parseInf at h
  split at h
  · injection h with h; subst h; exact ⟨rfl, trivial⟩
  · cases s
    case maven =>
      simp only at h
      split at h
      · rename_i els q hm
        injection h with h; subst h
        exact ⟨rfl, rfl, mavenInit_noSepStart b els q hm⟩
      · cases h
      · cases h
    case pypi =>
      simp only at h
      unfold pepInit at h
      split at h
      · injection h with h; subst h; exact ⟨rfl, rfl⟩
      · cases h
      · cases h
    all_goals exact parseGeneric_vk _ (by decide) b ai v h

theorem parseInf_okp (s : System) (b : Bytes) (ai : Bool) : OKP (VK s) (parseInf s b ai) :=
  okp_intro (parseInf_noPanic s b ai) (parseInf_vk s b ai)

/-! ### at least one number (every system but Maven) -/

theorem addNum_len (p : PS) (x : Value) : p.v.num.length ≤ (PS.addNum p x).2.v.num.length := by
  unfold PS.addNum PS.setErr
  simp only
  repeat' split
  all_goals simp [Version.addNum]

theorem addNum_true (p : PS) (x : Value) (h : (PS.addNum p x).1 = true) : (PS.addNum p x).2.v.num ≠ [] := by
  unfold PS.addNum PS.setErr at h ⊢
  simp only at h ⊢
  repeat' split at h
  all_goals first
    | (cases h; done)
    | (repeat' split
       all_goals simp_all [Version.addNum])

/-- `number` either fails without touching the version, or ends in `addNum` on the same version. -/
theorem number_cases (p : PS) :
    (∃ q x, q.v = p.v ∧ PS.number p = PS.addNum q x) ∨ ((PS.number p).1 = false ∧ (PS.number p).2.v = p.v) := by
  unfold PS.number
  simp only
  repeat' split
  all_goals first
    | (right; exact ⟨rfl, rfl⟩)
    | (left; refine ⟨_, _, ?_, rfl⟩; rfl)

theorem number_len (p : PS) : p.v.num.length ≤ (PS.number p).2.v.num.length := by
  rcases number_cases p with ⟨q, x, hq, e⟩ | ⟨_, e⟩
  · rw [e, ← hq]; exact addNum_len q x
  · rw [e]; exact Nat.le_refl _

theorem number_true (p : PS) (h : (PS.number p).1 = true) : (PS.number p).2.v.num ≠ [] := by
  rcases number_cases p with ⟨q, x, hq, e⟩ | ⟨e, _⟩
  · rw [e] at h ⊢; exact addNum_true q x h
  · rw [e] at h; cases h

theorem gNums_len (fuel : Nat) : ∀ (p : PS) (r : Rune), p.v.num.length ≤ (PS.gNums p r fuel).1.v.num.length := by
  induction fuel with
  | zero => intro p r; exact Nat.le_refl _
  | succ n ih =>
    intro p r
    unfold PS.gNums
    split
    · simp only
      split
      · exact Nat.le_trans (number_len p)
          (ih { v := (PS.number p).2.v, lex := ((PS.number p).2.lex.next).2 } ((PS.number p).2.lex.next).1)
      · exact number_len p
    · exact Nat.le_refl _

theorem gHead_num (sys : System) (str : Bytes) (ai : Bool) (p : PS) (r : Rune)
    (h : PS.gHead sys str ai = some (p, r)) : p.v.num ≠ [] := by
  unfold PS.gHead at h
  simp only at h
  split at h
  · cases h
  · rename_i hn
    have h1 : (PS.number (PS.gLead sys str ai)).1 = true := by simpa using hn
    have h2 := number_true _ h1
    have h3 := gNums_len (str.length + 1)
      { v := (PS.number (PS.gLead sys str ai)).2.v, lex := ((PS.number (PS.gLead sys str ai)).2.lex.next).2 }
      ((PS.number (PS.gLead sys str ai)).2.lex.next).1
    have hpos : 0 < (PS.number (PS.gLead sys str ai)).2.v.num.length := List.length_pos_iff.mpr h2
    generalize PS.gNums _ _ (str.length + 1) = g at h h3
    simp only at h3
    have hg : 0 < g.1.v.num.length := by omega
    repeat' split at h
    all_goals first
      | (cases h; done)
      | (injection h with h; injection h with h _; subst h
         first
           | exact List.length_pos_iff.mp hg
           | (simp only [ne_eq, ← List.length_eq_zero_iff, List.length_take]
              simp only [Bool.and_eq_true, beq_iff_eq] at *
              omega))

theorem metadata_v' (q : PS) (pre : List Bytes) (r : Rune) (p' : PS) (h : PS.metadata q = (pre, r, p')) :
    p'.v = q.v := by
  have := metadata_v q
  rw [h] at this
  exact this

theorem gPre_num (sys : System) (p : PS) (r : Rune) (p' : PS) (r' : Rune)
    (h : PS.gPre sys p r = .ok (p', r')) : p'.v.num = p.v.num := by
  unfold PS.gPre at h
  simp only at h
  repeat' split at h
  all_goals first
    | (cases h; done)
    | (injection h with h; injection h with h _; subst h
       first
         | rfl
         | (simp only [metadata_v]))

theorem gBuild_num (sys : System) (p : PS) (r : Rune) (p' : PS) (r' : Rune)
    (h : PS.gBuild sys p r = .ok (p', r')) : p'.v.num = p.v.num := by
  unfold PS.gBuild at h
  simp only at h
  repeat' split at h
  all_goals first
    | (cases h; done)
    | (injection h with h; injection h with h _; subst h
       first
         | rfl
         | (simp only [metadata_v]))

theorem gFinish_num (sys : System) (p : PS) (r : Rune) (v : Version)
    (h : PS.gFinish sys p r = .ok v) (hp : p.v.num ≠ []) : v.num ≠ [] := by
  unfold PS.gFinish at h
  simp only at h
  repeat' split at h
  all_goals first
    | (cases h; done)
    | (injection h with h; subst h; simp_all [PS.setErr])

theorem parseGenericCore_num (sys : System) (str : Bytes) (ai : Bool) (v : Version)
    (h : parseGenericCore sys str ai = .ok v) : v.num ≠ [] := by
  unfold parseGenericCore at h
  split at h
  · cases h
  · rename_i p r hh
    have h0 := gHead_num sys str ai p r hh
    split at h
    · cases h
    · cases h
    · rename_i p1 r1 h1
      have e1 := gPre_num sys p r p1 r1 h1
      split at h
      · cases h
      · cases h
      · rename_i p2 r2 h2
        have e2 := gBuild_num sys p1 r1 p2 r2 h2
        exact gFinish_num sys p2 r2 v h (by rw [e2, e1]; exact h0)

theorem parseGeneric_num (sys : System) (str : Bytes) (ai : Bool) (v : Version)
    (h : parseGeneric sys str ai = .ok v) : v.num ≠ [] := by
  unfold parseGeneric at h
  split at h
  · cases h
  · cases h
  · rename_i w hw
    have := parseGenericCore_num sys str ai w hw
    split at h
    · split at h
      · injection h with h; subst h; exact this
      · cases h
      · cases h
    · injection h with h; subst h; exact this

theorem pepParsePre_num (p : PepState) (r : Bytes) : (pepParsePre p r).1.v.num = p.v.num := by
  unfold pepParsePre
  simp only
  repeat' split
  all_goals rfl

theorem pepParsePost_v (p : PepState) (r : Bytes) : (pepParsePost p r).1.v = p.v := by
  unfold pepParsePost
  simp only
  repeat' split
  all_goals rfl

theorem pepParseDev_v (p : PepState) (r : Bytes) : (pepParseDev p r).1.v = p.v := by
  unfold pepParseDev
  simp only
  repeat' split
  all_goals rfl

theorem pepParseLocal_v (p : PepState) (r : Bytes) (p' : PepState) (r' : Bytes)
    (h : pepParseLocal p r = .ok (p', r')) : p'.v = p.v := by
  unfold pepParseLocal at h
  repeat' split at h
  all_goals first
    | (cases h; done)
    | (injection h with h; injection h with h _; subst h; rfl)

theorem pepInitCore_num (sys : System) (b : Bytes) (v : Version) (e : Option Pep440)
    (h : pepInitCore sys b = .ok (v, e)) : v.num ≠ [] := by
  unfold pepInitCore at h
  simp only [bind, Outcome.bind] at h
  split at h
  · cases h
  · split at h
    · split at h
      · rename_i a _
        split at h
        · cases h
        · rename_i hne
          split at h
          · rename_i pl hpl
            obtain ⟨p', r'⟩ := pl
            have hv := pepParseLocal_v _ _ _ _ hpl
            simp only at h
            split at h
            · cases h
            · injection h with h
              injection h with h _
              subst h
              rw [hv, pepParseDev_v, pepParsePost_v, pepParsePre_num]
              simp only
              have hne' : a.1.v.num ≠ [] := by simpa using hne
              split
              · simp [hne']
              · exact hne'
          · cases h
          · cases h
      · cases h
      · cases h
    · cases h
    · cases h

theorem parseInf_num (s : System) (hs : s ≠ .maven) (b : Bytes) (ai : Bool) (v : Version)
    (h : parseInf s b ai = .ok v) : v.num ≠ [] := by
  unfold parseInf at h
  split at h
  · injection h with h; subst h; simp
  · cases s
    case maven => exact absurd rfl hs
    case pypi =>
      simp only at h
      unfold pepInit at h
      split at h
      · rename_i w e hw
        injection h with h; subst h
        exact pepInitCore_num _ _ w e hw
      · cases h
      · cases h
    all_goals exact parseGeneric_num _ b ai v h

/-- `System.Parse`: no panic; the result is of the system's kind and (Maven apart) has a number. -/
theorem parse_okp (s : System) (b : Bytes) : OKP (fun v => VK s v ∧ (s ≠ .maven → v.num ≠ [])) (parse s b) := by
  unfold parse
  split
  · exact okp_err
  · exact okp_intro (parseInf_noPanic s b false)
      (fun v h => ⟨parseInf_vk s b false v h, fun hs => parseInf_num s hs b false v h⟩)

theorem parse_vk (s : System) (b : Bytes) : OKP (VK s) (parse s b) :=
  okp_mono (parse_okp s b) (fun _ h => h.1)

end DepsDev.Proofs.C04b
