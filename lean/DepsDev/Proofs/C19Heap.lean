/-
Helper lemmas for C19, part 1: the heap model.
 * `Attr.compare` is a lexicographic comparison of a key (mask, attrBits, values), hence
   a lawful total preorder (core's `Std.TransCmp` instances);
 * under `SetOK` it is `.eq` exactly for sets with the same contents;
 * `setAttr/addAttr/clone` preserve `SetOK` and only touch the set's own map (frame).
-/
import DepsDev.Model.Resolve.AttrSpec

namespace DepsDev.Proofs.C19
open DepsDev DepsDev.Gen DepsDev.Model.Resolve DepsDev.Model.Resolve.Attr DepsDev.Model.Resolve.AttrMachine
open DepsDev.Model.Resolve.AttrSpec

/-! ### association lists -/

theorem get?_insert (m : AMap) (k k' : Nat) (v : Bytes) :
    (m.insert k v).get? k' = if k' = k then some v else m.get? k' := by
  simp only [AMap.insert, AMap.get?, List.lookup_cons]
  by_cases h : k' = k
  · subst h; simp
  · have : (k' == k) = false := by simp [h]
    simp [this, h]

theorem get_eq (m : AMap) (k : Nat) : m.get k = (m.get? k).getD [] := rfl

/-! ### Compare as a lexicographic key comparison -/

/-- the values `Compare` looks at. -/
def vals (h : Heap) (s : Set) : List Bytes := (keysOf s.bits).map fun k => (s.attrs h).get k

/-- `Compare` is the lexicographic comparison of (mask, attrBits, values). -/
def keyCmp (h : Heap) : Set → Set → Ordering :=
  compareLex (compareOn Set.mask) (compareLex (compareOn Set.bits) (compareOn (vals h)))

theorem natCompare (a b : Nat) :
    Ord.compare a b = if a < b then .lt else if a > b then .gt else .eq := by
  by_cases h1 : a < b
  · simp [h1, Nat.compare_eq_lt.mpr h1]
  · by_cases h2 : a > b
    · simp [h1, h2, Nat.compare_eq_gt.mpr h2]
    · have : a = b := by omega
      simp [h1, h2, Nat.compare_eq_eq.mpr this]

theorem compareVals_eq (ks : List Nat) (ma mb : AMap) :
    compareVals ks ma mb = Ord.compare (ks.map fun k => ma.get k) (ks.map fun k => mb.get k) := by
  induction ks with
  | nil => simp [compareVals]
  | cons k ks ih =>
    simp only [compareVals, List.map_cons, List.compare_eq_compareLex, List.compareLex_cons_cons,
      stringsCompare]
    rw [ih, List.compare_eq_compareLex]
    cases Ord.compare (ma.get k) (mb.get k) <;> rfl

theorem compare_eq_keyCmp (h : Heap) (a b : Set) : Attr.compare h a b = keyCmp h a b := by
  simp only [Attr.compare, keyCmp, compareLex, compareOn, natCompare]
  by_cases h1 : a.mask < b.mask
  · simp [h1, Ordering.then]
  · by_cases h2 : a.mask > b.mask
    · simp [h1, h2, Ordering.then]
    · by_cases h3 : a.bits < b.bits
      · simp [h1, h2, h3, Ordering.then]
      · by_cases h4 : a.bits > b.bits
        · simp [h1, h2, h3, h4, Ordering.then]
        · have hb : a.bits = b.bits := by omega
          simp only [h1, h2, if_false, Ordering.then, vals, compareVals_eq, hb, Nat.lt_irrefl, gt_iff_lt]

instance (h : Heap) : Std.TransCmp (keyCmp h) := by unfold keyCmp; infer_instance
instance (h : Heap) : Std.ReflCmp (keyCmp h) := by unfold keyCmp; infer_instance

theorem compare_fun_eq (h : Heap) : Attr.compare h = keyCmp h := by
  funext a b; exact compare_eq_keyCmp h a b

instance compareTrans (h : Heap) : Std.TransCmp (Attr.compare h) := by
  rw [compare_fun_eq]; infer_instance

instance compareRefl (h : Heap) : Std.ReflCmp (Attr.compare h) := by
  rw [compare_fun_eq]; infer_instance

/-- `Compare = 0` iff the compared keys coincide. -/
theorem compare_eq_iff_key (h : Heap) (a b : Set) :
    Attr.compare h a b = .eq ↔ a.mask = b.mask ∧ a.bits = b.bits ∧ vals h a = vals h b := by
  rw [compare_eq_keyCmp]
  simp only [keyCmp, compareLex_eq_eq, compareOn, Std.LawfulEqCmp.compare_eq_iff_eq]

/-! ### keysOf -/

theorem mem_keysOf (bits k : Nat) :
    k ∈ keysOf bits ↔ k < C19AttrKeys.attrBitsWidth ∧ bits.testBit k = true := by
  simp [keysOf]

theorem testBit_imp_lt {bits k : Nat} (hlt : bits < 2 ^ C19AttrKeys.attrBitsWidth)
    (hk : bits.testBit k = true) : k < C19AttrKeys.attrBitsWidth := by
  apply Classical.byContradiction
  intro hge
  have hle : C19AttrKeys.attrBitsWidth ≤ k := by omega
  have : bits < 2 ^ k := Nat.lt_of_lt_of_le hlt (Nat.pow_le_pow_right (by decide) hle)
  simp [Nat.testBit_lt_two_pow this] at hk

/-! ### equality of Compare and of contents -/

theorem getAttr_eq (h : Heap) (s : Set) (k : Nat) : getAttr h s k = (s.attrs h).get? k := rfl

/-- Under `SetOK`, `Compare a b = 0` exactly when `a` and `b` hold the same flags and
the same key/value pairs. -/
theorem compare_eq_iff_same (h : Heap) (a b : Set) (ha : SetOK h a) (hb : SetOK h b) :
    Attr.compare h a b = .eq ↔ SameContents h a h b := by
  rw [compare_eq_iff_key]
  constructor
  · rintro ⟨hm, hbits, hv⟩
    refine ⟨hm, fun k => ?_⟩
    simp only [getAttr_eq]
    by_cases hk : a.bits.testBit k = true
    · have hk' : b.bits.testBit k = true := hbits ▸ hk
      have hlt := testBit_imp_lt ha.bitsLt hk
      have hmem : k ∈ keysOf a.bits := (mem_keysOf _ _).mpr ⟨hlt, hk⟩
      have h1 := ha.bitsOK k
      have h2 := hb.bitsOK k
      rw [hk] at h1
      rw [hk'] at h2
      -- both present; the compared values are equal
      have hvk : (a.attrs h).get k = (b.attrs h).get k := by
        have := congrArg (fun l => l) hv
        simp only [vals] at hv
        rw [← hbits] at hv
        exact (List.map_inj_left.mp hv) k hmem
      simp only [get_eq] at hvk
      cases hx : (a.attrs h).get? k with
      | none => simp [hx] at h1
      | some x =>
        cases hy : (b.attrs h).get? k with
        | none => simp [hy] at h2
        | some y => simp [hx, hy] at hvk; simp [hvk]
    · have hk0 : a.bits.testBit k = false := by simpa using hk
      have hk' : b.bits.testBit k = false := hbits ▸ hk0
      have h1 := ha.bitsOK k
      have h2 := hb.bitsOK k
      rw [hk0] at h1
      rw [hk'] at h2
      cases hx : (a.attrs h).get? k with
      | some x => simp [hx] at h1
      | none =>
        cases hy : (b.attrs h).get? k with
        | some y => simp [hy] at h2
        | none => rfl
  · rintro ⟨hm, hg⟩
    have hbits : a.bits = b.bits := by
      apply Nat.eq_of_testBit_eq
      intro k
      rw [ha.bitsOK k, hb.bitsOK k]
      have := hg k
      simp only [getAttr_eq] at this
      rw [this]
    refine ⟨hm, hbits, ?_⟩
    simp only [vals, hbits]
    apply List.map_congr_left
    intro k _
    have := hg k
    simp only [getAttr_eq] at this
    simp [get_eq, this]

/-! ### setAttr, addAttr, clone: effect and frame -/

theorem setAttr_panic_iff (h : Heap) (s : Set) (key : Nat) (v : Bytes) :
    setAttr h s key v = .panic ↔ key ≥ C19AttrKeys.setAttrKeyLimit := by
  unfold setAttr; split <;> simp_all

/-- effect of `SetAttr` on a well-formed set. -/
theorem setAttr_spec (h : Heap) (s : Set) (key : Nat) (v : Bytes) (hs : SetOK h s)
    (hk : key < C19AttrKeys.setAttrKeyLimit) :
    ∃ h' s' r', setAttr h s key v = .ok (h', s') ∧ s'.ref = some r' ∧
      (s.ref = some r' ∨ (s.ref = none ∧ r' = h.next)) ∧
      h.next ≤ h'.next ∧ r' < h'.next ∧
      (∀ r, r ≠ r' → h'.cells r = h.cells r) ∧
      s'.mask = s.mask ∧ s'.bits = s.bits ||| (1 <<< key) ∧
      s'.attrs h' = (s.attrs h).insert key v ∧
      SetOK h' s' := by
  have hnot : ¬ key ≥ C19AttrKeys.setAttrKeyLimit := by omega
  cases hr : s.ref with
  | some r =>
    have hrlt := hs.wf r hr
    refine ⟨h.write r ((h.cells r).insert key v), { s with ref := some r, bits := s.bits ||| (1 <<< key) }, r, ?_, rfl,
      Or.inl rfl, Nat.le_refl _, hrlt, ?_, rfl, rfl, ?_, ?_⟩
    · simp [setAttr, hnot, hr]
    · intro r0 hne; simp [Heap.write, hne]
    · simp [Set.attrs, hr, Heap.write]
    · have hattrs : Set.attrs (h.write r ((h.cells r).insert key v))
          { s with ref := some r, bits := s.bits ||| (1 <<< key) } = (s.attrs h).insert key v := by
        simp [Set.attrs, hr, Heap.write]
      refine ⟨?_, ?_, ?_⟩
      · intro r0 h0; simp at h0; subst h0; exact hrlt
      · intro k
        rw [hattrs, get?_insert]
        simp only [Nat.testBit_or, Nat.one_shiftLeft, Nat.testBit_two_pow]
        have := hs.bitsOK k
        by_cases hkk : k = key
        · subst hkk; simp
        · have : ¬ key = k := fun e => hkk e.symm
          simp [hkk, this, hs.bitsOK k]
      · apply Nat.or_lt_two_pow hs.bitsLt
        rw [Nat.one_shiftLeft]
        apply Nat.pow_lt_pow_right (by decide)
        exact Nat.lt_of_lt_of_le hk (by decide)
  | none =>
    refine ⟨(h.alloc []).1.write h.next (((h.alloc []).1.cells h.next).insert key v),
      { s with ref := some h.next, bits := s.bits ||| (1 <<< key) }, h.next, ?_, rfl,
      Or.inr ⟨rfl, rfl⟩, ?_, ?_, ?_, rfl, rfl, ?_, ?_⟩
    · simp [setAttr, hnot, hr, Heap.alloc]
    · simp [Heap.write, Heap.alloc]
    · simp [Heap.write, Heap.alloc]
    · intro r0 hne; simp [Heap.write, Heap.alloc, hne]
    · simp [Set.attrs, hr, Heap.write, Heap.alloc]
    · have hattrs : Set.attrs ((h.alloc []).1.write h.next (((h.alloc []).1.cells h.next).insert key v))
          { s with ref := some h.next, bits := s.bits ||| (1 <<< key) } = (s.attrs h).insert key v := by
        simp [Set.attrs, hr, Heap.write, Heap.alloc]
      refine ⟨?_, ?_, ?_⟩
      · intro r0 h0; simp at h0; subst h0; simp [Heap.write, Heap.alloc]
      · intro k
        rw [hattrs, get?_insert]
        simp only [Nat.testBit_or, Nat.one_shiftLeft, Nat.testBit_two_pow]
        by_cases hkk : k = key
        · subst hkk; simp
        · have : ¬ key = k := fun e => hkk e.symm
          simp [hkk, this, hs.bitsOK k]
      · apply Nat.or_lt_two_pow hs.bitsLt
        rw [Nat.one_shiftLeft]
        apply Nat.pow_lt_pow_right (by decide)
        exact Nat.lt_of_lt_of_le hk (by decide)

/-- `SetOK` survives any change of the heap that leaves the set's own map alone. -/
theorem SetOK.frame {h h' : Heap} {s : Set} (hs : SetOK h s) (hn : h.next ≤ h'.next)
    (hc : ∀ r, s.ref = some r → h'.cells r = h.cells r) : SetOK h' s ∧ s.attrs h' = s.attrs h := by
  have hattrs : s.attrs h' = s.attrs h := by
    cases hr : s.ref with
    | none => simp [Set.attrs, hr]
    | some r => simp [Set.attrs, hr, hc r hr]
  refine ⟨⟨fun r hr => Nat.lt_of_lt_of_le (hs.wf r hr) hn, ?_, hs.bitsLt⟩, hattrs⟩
  intro k; rw [hattrs]; exact hs.bitsOK k

theorem setOK_zero (h : Heap) : SetOK h Set.zero :=
  ⟨fun r hr => by simp [Set.zero] at hr, fun k => by simp [Set.zero, Set.attrs, AMap.get?],
   by simp [Set.zero]; exact Nat.two_pow_pos _⟩

/-- effect of `Clone`. -/
theorem clone_spec (h : Heap) (s : Set) (hs : SetOK h s) :
    (clone h s).2.ref = some h.next ∧ (clone h s).1.next = h.next + 1 ∧
    (∀ r, r ≠ h.next → (clone h s).1.cells r = h.cells r) ∧
    (clone h s).2.mask = s.mask ∧ (clone h s).2.bits = s.bits ∧
    (clone h s).2.attrs (clone h s).1 = s.attrs h ∧ SetOK (clone h s).1 (clone h s).2 := by
  have hattrs : (clone h s).2.attrs (clone h s).1 = s.attrs h := by
    simp [clone, Set.attrs, Heap.alloc]
  refine ⟨rfl, rfl, ?_, rfl, rfl, hattrs, ⟨?_, ?_, hs.bitsLt⟩⟩
  · intro r hne; simp [clone, Heap.alloc, hne]
  · intro r hr; simp [clone, Heap.alloc] at hr; subst hr; simp [clone, Heap.alloc]
  · intro k; rw [hattrs]; exact hs.bitsOK k

end DepsDev.Proofs.C19
