import DepsDev.Proofs.C04bSpan

/-!
# C04 (extension) — `canon`, `Set.Intersect`, `Set.matchVersion`, `parseSet` never panic

`AllOK s l`: every span of `l` is `SpOK s`. The nil dereferences of `canon`'s merge loop
(`equalPrerelease(this.min, next.min)` with an empty `next`) are unreachable because the sort
puts the empty spans first, whatever `compare` answers (`EF`; `spanLess_none_some`,
`spanLess_some_none`), and the outer loop skips them.
-/
namespace DepsDev.Proofs.C04b
open DepsDev DepsDev.Semver DepsDev.Proofs

def AllOK (s : System) (l : List Span) : Prop := ∀ sp ∈ l, SpOK s sp

/-- Empty spans (nil bounds) come first. -/
def EF (l : List Span) : Prop := l.Pairwise (fun a b => b.min = none → a.min = none)

theorem spOK_min {s : System} {sp : Span} (h : SpOK s sp) : ∀ x, sp.min = some x → VK s x := by
  intro x hx
  rcases h with rfl | ⟨_, a, b, ha, _, va, _⟩
  · cases hx
  · rw [ha] at hx; injection hx with hx; subst hx; exact va

theorem spOK_max {s : System} {sp : Span} (h : SpOK s sp) : ∀ x, sp.max = some x → VK s x := by
  intro x hx
  rcases h with rfl | ⟨_, a, b, _, hb, _, vb⟩
  · cases hx
  · rw [hb] at hx; injection hx with hx; subst hx; exact vb

theorem spOK_ne {s : System} {sp : Span} (h : SpOK s sp) (hr : sp.rank ≠ .empty) :
    ∃ a b, sp.min = some a ∧ sp.max = some b ∧ VK s a ∧ VK s b := by
  rcases h with rfl | ⟨_, h⟩
  · exact absurd rfl hr
  · exact h

theorem spOK_min_none {s : System} {sp : Span} (h : SpOK s sp) (hm : sp.min = none) : sp = Span.emptySpan := by
  rcases h with rfl | ⟨_, a, b, ha, _⟩
  · rfl
  · rw [ha] at hm; cases hm

theorem spOK_rank_iff {s : System} {sp : Span} (h : SpOK s sp) : sp.rank = .empty ↔ sp.min = none := by
  constructor
  · intro hr
    rcases h with rfl | ⟨hne, _⟩
    · rfl
    · exact absurd hr hne
  · intro hm
    rw [spOK_min_none h hm]; rfl

theorem compareOpt_okp {s : System} {a b : Option Version} (ha : ∀ x, a = some x → VK s x)
    (hb : ∀ x, b = some x → VK s x) : OKP (fun _ => True) (compareOpt a b) := by
  unfold compareOpt
  split
  · trivial
  · trivial
  · trivial
  · exact vcmp_okp (ha _ rfl) (hb _ rfl)

theorem spanLess_okp {s : System} {a b : Span} (ha : SpOK s a) (hb : SpOK s b) :
    OKP (fun _ => True) (spanLess a b) := by
  unfold spanLess
  refine okp_bind (compareOpt_okp (spOK_min ha) (spOK_min hb)) ?_
  intro c _
  split
  · trivial
  · split
    · trivial
    · refine okp_bind (compareOpt_okp (spOK_max ha) (spOK_max hb)) ?_
      intro c' _
      split
      · trivial
      · split <;> trivial

/-- An empty span sorts before a non-empty one … -/
theorem spanLess_none_some (a b : Span) (x : Version) (ha : a.min = none) (hb : b.min = some x) :
    spanLess a b = .ok true := by
  unfold spanLess
  rw [ha, hb]
  rfl

/-- … and never after it. -/
theorem spanLess_some_none (a b : Span) (x : Version) (ha : a.min = some x) (hb : b.min = none) :
    spanLess a b = .ok false := by
  unfold spanLess
  rw [ha, hb]
  rfl

theorem spanLess_rel {s : System} {x y : Span} (hx : SpOK s x) (hy : SpOK s y) :
    OKP (fun lt => (lt = true → y.min = none → x.min = none) ∧ (lt = false → x.min = none → y.min = none))
      (spanLess x y) := by
  refine okp_intro (okp_np (spanLess_okp hx hy)) ?_
  intro lt h
  cases hxm : x.min with
  | none =>
    cases hym : y.min with
    | none => exact ⟨fun _ _ => rfl, fun _ _ => rfl⟩
    | some b =>
      rw [spanLess_none_some x y b hxm hym] at h
      injection h with h; subst h
      exact ⟨(fun _ h => nomatch h), fun h => nomatch h⟩
  | some a =>
    cases hym : y.min with
    | none =>
      rw [spanLess_some_none x y a hxm hym] at h
      injection h with h; subst h
      exact ⟨(fun h => nomatch h), fun _ h => nomatch h⟩
    | some b => exact ⟨(fun _ h => nomatch h), fun _ h => nomatch h⟩

theorem insertGo_okp {s : System} {x : Span} (hx : SpOK s x) (fuel : Nat) : ∀ (pre suffix : List Span),
    AllOK s (pre ++ suffix) → EF (pre ++ suffix) → (∀ y ∈ suffix, y.min = none → x.min = none) →
    pre.length < fuel →
    OKP (fun r => AllOK s r ∧ EF r) (insertSorted.go x pre suffix fuel) := by
  induction fuel with
  | zero => intro pre suffix _ _ _ h; omega
  | succ n ih =>
    intro pre suffix hall hef hsuf hlen
    unfold insertSorted.go
    rcases List.eq_nil_or_concat pre with rfl | ⟨pre', y, rfl⟩
    · simp only [List.getLast?_nil]
      refine okp_ok ⟨?_, ?_⟩
      · intro z hz
        rcases List.mem_cons.mp hz with rfl | hz
        · exact hx
        · exact hall z (by simpa using hz)
      · exact List.pairwise_cons.mpr ⟨hsuf, by simpa [EF] using hef⟩
    · simp only [List.concat_eq_append, List.getLast?_append, List.getLast?_singleton, Option.some_or,
        List.dropLast_concat] at hall hef hlen ⊢
      have hy : SpOK s y := hall y (by simp)
      refine okp_bind (spanLess_rel hx hy) ?_
      intro lt ⟨h1, h2⟩
      have hef' := List.pairwise_append.mp hef
      have hpre := List.pairwise_append.mp hef'.1
      split
      · rename_i hlt
        refine ih pre' (y :: suffix) (by simpa using hall) (by simpa using hef) ?_ (by simp at hlen; omega)
        intro z hz
        rcases List.mem_cons.mp hz with rfl | hz
        · exact h1 hlt
        · exact hsuf z hz
      · rename_i hlt
        have hlt' : lt = false := by simpa using hlt
        refine okp_ok ⟨?_, ?_⟩
        · intro z hz
          rcases List.mem_append.mp hz with hz | hz
          · exact hall z (List.mem_append_left _ hz)
          · rcases List.mem_cons.mp hz with rfl | hz
            · exact hx
            · exact hall z (List.mem_append_right _ hz)
        · refine List.pairwise_append.mpr ⟨hef'.1, List.pairwise_cons.mpr ⟨hsuf, hef'.2.1⟩, ?_⟩
          intro a ha b hb hbn
          rcases List.mem_cons.mp hb with rfl | hb
          · have hyn := h2 hlt' hbn
            rcases List.mem_append.mp ha with ha | ha
            · exact hpre.2.2 a ha y (by simp) hyn
            · simp only [List.mem_singleton] at ha; subst ha; exact hyn
          · exact hef'.2.2 a ha b hb hbn

theorem insertSorted_okp {s : System} {x : Span} (hx : SpOK s x) {l : List Span} (hl : AllOK s l) (hE : EF l) :
    OKP (fun r => AllOK s r ∧ EF r) (insertSorted x l) := by
  unfold insertSorted
  split
  · refine okp_ok ⟨?_, List.pairwise_singleton _ _⟩
    intro z hz; simp only [List.mem_singleton] at hz; subst hz; exact hx
  · exact insertGo_okp hx _ _ [] (by simpa using hl) (by simpa using hE) (by simp) (by omega)

theorem insertionSort_fold {s : System} (l : List Span) : ∀ (acc : List Span), AllOK s l → AllOK s acc → EF acc →
    OKP (fun r => AllOK s r ∧ EF r) (l.foldlM (fun acc x => insertSorted x acc) acc) := by
  induction l with
  | nil => intro acc _ h1 h2; exact okp_ok ⟨h1, h2⟩
  | cons x xs ih =>
    intro acc hl h1 h2
    simp only [List.foldlM_cons]
    refine okp_bind (insertSorted_okp (hl x (List.mem_cons_self ..)) h1 h2) ?_
    intro acc' ⟨g1, g2⟩
    exact ih acc' (fun z hz => hl z (List.mem_cons_of_mem _ hz)) g1 g2

theorem insertionSort_okp {s : System} {l : List Span} (hl : AllOK s l) :
    OKP (fun r => AllOK s r ∧ EF r) (insertionSort l) := by
  unfold insertionSort
  exact insertionSort_fold l [] hl (fun _ h => by cases h) List.Pairwise.nil

theorem ok_bind {α β} (a : α) (f : α → Outcome β) : (Outcome.ok a >>= f) = f a := rfl

theorem canonInner_okp {s : System} {this next : Span} (ht : SpOK s this) (htr : this.rank ≠ .empty)
    (hn : SpOK s next) (hnr : next.rank ≠ .empty) :
    OKP (fun p => SpOK s p.1 ∧ p.1.rank ≠ .empty) (canonInner this next) := by
  obtain ⟨tmin, tmax, e1, e2, v1, v2⟩ := spOK_ne ht htr
  obtain ⟨nmin, nmax, e3, e4, v3, v4⟩ := spOK_ne hn hnr
  unfold canonInner
  rw [e2, e3]
  simp only
  refine okp_bind (vLess_okp v2 v3) ?_
  intro lt _
  refine okp_bind (vEqual_okp v2 v3) ?_
  intro eq _
  refine okp_bind (P := fun _ => True) ?_ ?_
  · split
    · split
      · split
        · trivial
        · refine okp_bind (inc_okp (vk_fill v2 0)) ?_
          intro mp1 hmp1
          refine okp_bind (vLess_okp hmp1 v3) ?_
          intro lt2 _
          split <;> trivial
      · trivial
    · split <;> trivial
  · intro r _
    have hthis : SpOK s this ∧ this.rank ≠ .empty := ⟨ht, htr⟩
    split
    · exact okp_ok hthis
    · split
      · exact okp_ok hthis
      · rw [e1, e4]
        simp only [equalPrerelease, ok_bind]
        split
        · exact okp_ok hthis
        · split
          · exact okp_ok hthis
          · split
            · exact okp_ok hthis
            · split
              · exact okp_ok hthis
              · refine okp_bind (vLessEq_okp v4 v2) ?_
                intro le _
                split
                · refine okp_bind (vEqual_okp v2 v4) ?_
                  intro eq' _
                  split
                  · exact okp_ok ⟨Or.inr ⟨htr, tmin, tmax, rfl, rfl, v1, v2⟩, htr⟩
                  · exact okp_ok hthis
                · exact okp_ok ⟨Or.inr ⟨(fun h => nomatch h), tmin, nmax, rfl, rfl, v1, v4⟩, (fun h => nomatch h)⟩

theorem canonInnerLoop_okp {s : System} (rest : List (Span × Bool)) : ∀ this : Span, SpOK s this → this.rank ≠ .empty →
    (∀ p ∈ rest, SpOK s p.1 ∧ p.1.rank ≠ .empty) →
    OKP (fun r => SpOK s r.1 ∧ r.1.rank ≠ .empty ∧ r.2.map (·.1) = rest.map (·.1)) (canonInnerLoop this rest) := by
  induction rest with
  | nil =>
    intro this h1 h2 _
    exact okp_ok ⟨h1, h2, rfl⟩
  | cons p rest ih =>
    intro this h1 h2 hall
    obtain ⟨next, m⟩ := p
    have hrest : ∀ p ∈ rest, SpOK s p.1 ∧ p.1.rank ≠ .empty := fun q hq => hall q (List.mem_cons_of_mem _ hq)
    cases m with
    | true =>
      simp only [canonInnerLoop]
      refine okp_bind (ih this h1 h2 hrest) ?_
      intro r ⟨g1, g2, g3⟩
      exact okp_ok ⟨g1, g2, by simp [g3]⟩
    | false =>
      simp only [canonInnerLoop]
      have hnext := hall (next, false) (List.mem_cons_self ..)
      refine okp_bind (canonInner_okp h1 h2 hnext.1 hnext.2) ?_
      intro r ⟨k1, k2⟩
      obtain ⟨this', ctl⟩ := r
      cases ctl with
      | brk => exact okp_ok ⟨k1, k2, rfl⟩
      | cont =>
        refine okp_bind (ih this' k1 k2 hrest) ?_
        intro r ⟨g1, g2, g3⟩
        exact okp_ok ⟨g1, g2, by simp [g3]⟩
      | merge =>
        refine okp_bind (ih this' k1 k2 hrest) ?_
        intro r ⟨g1, g2, g3⟩
        exact okp_ok ⟨g1, g2, by simp [g3]⟩

theorem canonOuter_okp {s : System} (fuel : Nat) : ∀ l : List (Span × Bool), AllOK s (l.map (·.1)) → EF (l.map (·.1)) →
    OKP (fun r => AllOK s r.1) (canonOuter l fuel) := by
  induction fuel with
  | zero =>
    intro l _ _
    simp only [canonOuter]
    exact okp_ok (fun _ h => nomatch h)
  | succ n ih =>
    intro l hall hef
    cases l with
    | nil =>
      simp only [canonOuter]
      exact okp_ok (fun _ h => nomatch h)
    | cons p rest =>
      obtain ⟨this, m⟩ := p
      have hrest : AllOK s (rest.map (·.1)) := fun z hz => hall z (by simp at hz ⊢; exact Or.inr hz)
      have hef' : EF (rest.map (·.1)) := by
        simp only [EF, List.map_cons, List.pairwise_cons] at hef
        exact hef.2
      simp only [canonOuter]
      split
      · exact ih rest hrest hef'
      · split
        · exact ih rest hrest hef'
        · rename_i hre
          have hr : this.rank ≠ .empty := by simpa using hre
          have hthis : SpOK s this := hall this (by simp)
          have hcross : ∀ b ∈ rest.map (·.1), b.min = none → this.min = none := by
            simp only [EF, List.map_cons, List.pairwise_cons] at hef
            exact hef.1
          have hne : ∀ p ∈ rest, SpOK s p.1 ∧ p.1.rank ≠ .empty := by
            intro q hq
            have hq' : q.1 ∈ rest.map (·.1) := List.mem_map.mpr ⟨q, hq, rfl⟩
            have hqs := hrest q.1 hq'
            refine ⟨hqs, ?_⟩
            intro he
            have := hcross q.1 hq' ((spOK_rank_iff hqs).mp he)
            exact hr ((spOK_rank_iff hthis).mpr this)
          refine okp_bind (canonInnerLoop_okp rest this hthis hr hne) ?_
          intro r ⟨g1, _, g3⟩
          obtain ⟨this', rest'⟩ := r
          simp only at g1 g3 ⊢
          refine okp_bind (ih rest' (by rw [g3]; exact hrest) (by rw [g3]; exact hef')) ?_
          intro r2 hr2
          obtain ⟨out, ae⟩ := r2
          refine okp_ok ?_
          intro z hz
          rcases List.mem_cons.mp hz with rfl | hz
          · exact g1
          · exact hr2 z hz

/-- **`canon` never panics on well-formed spans**, and returns well-formed spans. -/
theorem canonSpans_okp {s : System} {l : List Span} (hl : AllOK s l) : OKP (AllOK s) (canonSpans l) := by
  unfold canonSpans
  split
  · exact okp_ok hl
  · split
    · exact okp_ok hl
    · refine okp_bind (insertionSort_okp hl) ?_
      intro sorted ⟨h1, h2⟩
      unfold canonMerge
      have hm : (sorted.map (fun x => (x, false))).map (·.1) = sorted := by
        rw [List.map_map]
        have : ((fun x : Span × Bool => x.1) ∘ fun x => (x, false)) = id := rfl
        rw [this, List.map_id]
      refine okp_bind (canonOuter_okp _ _ (by rw [hm]; exact h1) (by rw [hm]; exact h2)) ?_
      intro r hr
      obtain ⟨out, ae⟩ := r
      simp only at hr ⊢
      split
      · exact okp_ok (fun z hz => h1 z (List.mem_of_mem_take hz))
      · exact okp_ok hr

theorem allOK_snoc {s : System} {l : List Span} {x : Span} (hl : AllOK s l) (hx : SpOK s x) : AllOK s (l ++ [x]) := by
  intro z hz
  rcases List.mem_append.mp hz with h | h
  · exact hl z h
  · simp only [List.mem_singleton] at h; subst h; exact hx

theorem tloop_okp {s : System} {selem : Span} (hse : SpOK s selem) (hne : selem.rank ≠ .empty) (ts : List Span) :
    ∀ acc : List Span, AllOK s acc → AllOK s ts → OKP (AllOK s) (VSet.intersect.tloop selem ts acc) := by
  obtain ⟨smin, smax, e1, e2, v1, v2⟩ := spOK_ne hse hne
  induction ts with
  | nil => intro acc hacc _; exact okp_ok hacc
  | cons telem rest ih =>
    intro acc hacc hts
    have hrest : AllOK s rest := fun z hz => hts z (List.mem_cons_of_mem _ hz)
    have ht : SpOK s telem := hts telem (List.mem_cons_self ..)
    simp only [VSet.intersect.tloop]
    split
    · exact ih acc hacc hrest
    · rename_i hte
      have hte' : telem.rank ≠ .empty := by simpa using hte
      obtain ⟨tmin, tmax, e3, e4, v3, v4⟩ := spOK_ne ht hte'
      rw [e1, e2, e3, e4]
      simp only
      refine okp_bind (vLess_okp v4 v1) ?_
      intro c1 _
      refine okp_bind (vEqual_okp v4 v1) ?_
      intro c2 _
      split
      · exact ih acc hacc hrest
      · refine okp_bind (vGreater_okp v3 v2) ?_
        intro g _
        split
        · exact okp_ok hacc
        · refine okp_bind (vGreater_okp v3 v1) ?_
          intro gmin _
          refine okp_bind (vEqual_okp v3 v1) ?_
          intro emin _
          refine okp_bind (vLess_okp v4 v2) ?_
          intro lmax _
          refine okp_bind (vEqual_okp v4 v2) ?_
          intro emax _
          have hmin : VK s (if (gmin || emin && telem.minOpen) = true then (tmin, telem.minOpen) else (smin, selem.minOpen)).1 := by
            split
            · exact v3
            · exact v1
          have hmax : VK s (if (lmax || emax && telem.maxOpen) = true then (tmax, telem.maxOpen) else (smax, selem.maxOpen)).1 := by
            split
            · exact v4
            · exact v2
          refine okp_bind (newSpan_spok hmin hmax _ _) ?_
          intro sp hsp
          exact ih _ (allOK_snoc hacc hsp) hrest

/-- **`Set.Intersect` never panics on well-formed sets**, and returns a well-formed set. -/
theorem intersect_okp {s : System} {S T : VSet} (hS : AllOK s S.span) (hT : AllOK s T.span) :
    OKP (fun R => AllOK s R.span) (S.intersect T) := by
  unfold VSet.intersect
  have hfold : ∀ (l acc : List Span), AllOK s l → AllOK s acc →
      OKP (AllOK s) (l.foldlM (fun acc selem => if (selem.rank == Rank.empty) = true then Outcome.ok acc
          else VSet.intersect.tloop selem T.span acc) acc) := by
    intro l
    induction l with
    | nil => intro acc _ hacc; exact okp_ok hacc
    | cons x xs ih =>
      intro acc hl hacc
      simp only [List.foldlM_cons]
      refine okp_bind (P := AllOK s) ?_ ?_
      · split
        · exact okp_ok hacc
        · rename_i hx
          exact tloop_okp (hl x (List.mem_cons_self ..)) (by simpa using hx) T.span acc hacc hT
      · intro acc' hacc'
        exact ih acc' (fun z hz => hl z (List.mem_cons_of_mem _ hz)) hacc'
  refine okp_bind (hfold S.span [] hS (fun _ h => nomatch h)) ?_
  intro out hout
  simp only
  refine okp_bind (canonSpans_okp (s := s) (l := if out.isEmpty then [Span.emptySpan] else out) ?_) ?_
  · split
    · intro z hz; simp only [List.mem_singleton] at hz; subst hz; exact spOK_empty s
    · exact hout
  · intro sp hsp
    exact okp_ok hsp

theorem contains_okp {s : System} {sp : Span} (hsp : SpOK s sp) {v : Version} (hv : VK s v) (incl : Bool) :
    OKP (fun _ => True) (sp.contains v incl) := by
  unfold Span.contains
  split
  · trivial
  · refine okp_bind (compareOpt_okp (spOK_min hsp) (fun x hx => by injection hx with hx; subst hx; exact hv)) ?_
    intro _ _; trivial
  · rename_i hr
    obtain ⟨a, b, ha, hb, va, vb⟩ := spOK_ne hsp (by rw [hr]; exact fun h => nomatch h)
    rw [ha, hb]
    simp only
    refine okp_bind (vcmp_okp hv va) ?_
    intro c _
    split
    · trivial
    · refine okp_bind (vcmp_okp vb hv) ?_
      intro c' _
      split
      · trivial
      · split
        · trivial
        · split
          · refine okp_bind (vLessEq_okp va hv) ?_
            intro le _
            split
            · trivial
            · split <;> trivial
          · trivial

theorem matchGo_okp {s : System} {v : Version} (hv : VK s v) (b : Bool) :
    ∀ l : List Span, AllOK s l → OKP (fun _ => True) (VSet.matchVersion.go v b l) := by
  intro l
  induction l with
  | nil => intro _; trivial
  | cons sp rest ih =>
    intro h
    have ih' := ih (fun x hx => h x (List.mem_cons_of_mem _ hx))
    have hsp := h sp List.mem_cons_self
    rw [VSet.matchVersion.go]
    split
    · exact ih'
    · refine okp_bind (contains_okp hsp hv _) ?_
      intro c _
      split
      · trivial
      · exact ih'

/-- **`Set.matchVersion` never panics** on a well-formed set and a version of the system's kind. -/
theorem matchVersion_okp {s : System} {S : VSet} (hS : AllOK s S.span) {v : Version} (hv : VK s v) (incl : Bool) :
    OKP (fun _ => True) (S.matchVersion v incl) := by
  unfold VSet.matchVersion
  split
  · trivial
  · exact matchGo_okp hv _ _ hS

/-- `System.parseSpan`: the slice `s[1:len(s)-1]` is in range (a one-byte text starting with a
bracket does not end with a closing bracket); the bounds are of the system's kind. -/
theorem parseSpan_okp (s : System) (b : Bytes) : OKP (fun p => SpOK s p.1) (parseSpan s b) := by
  unfold parseSpan
  split
  · exact okp_err
  · split
    · exact okp_ok (spOK_empty s)
    · split
      · rename_i hhead
        simp only
        split
        · exact okp_err
        · rename_i hclose
          split
          · rename_i hlen
            exfalso
            cases b with
            | nil => simp at hhead
            | cons c t =>
              cases t with
              | nil =>
                simp only [List.head?_cons, List.getLastD_cons, List.getLastD_nil] at hhead hclose
                simp at hhead hclose
                rcases hhead with rfl | rfl
                · exact absurd (hclose (by decide)) (by decide)
                · exact absurd (hclose (by decide)) (by decide)
              | cons d u => simp at hlen; omega
          · split
            · refine okp_bind (parseInf_okp s _ false) ?_
              intro mn hmn
              refine okp_bind (parseInf_okp s _ true) ?_
              intro mx hmx
              exact okp_ok (spOK_mk .vector (fun h => nomatch h) _ _ hmn hmx)
            · exact okp_err
      · refine okp_bind (parse_vk s b) ?_
        intro v hv
        exact okp_ok (spOK_mk .unit (fun h => nomatch h) false false hv hv)

theorem parseSet_okp (s : System) (b : Bytes) : OKP (fun p => AllOK s p.1.span) (parseSet s b) := by
  unfold parseSet
  split
  · exact okp_err
  · split
    · refine okp_ok ?_
      intro z hz; simp only [List.mem_singleton] at hz; subst hz; exact spOK_empty s
    · simp only
      have hfold : ∀ (l : List Bytes) (acc : List Span × Nat), AllOK s acc.1 →
          OKP (fun r : List Span × Nat => AllOK s r.1) (l.foldlM (fun (acc : List Span × Nat) str => do
            let (sp, simple) ← parseSpan s str
            Outcome.ok (acc.1 ++ [sp], acc.2 + (if simple then 1 else 2))) acc) := by
        intro l
        induction l with
        | nil => intro acc h; exact okp_ok h
        | cons x xs ih =>
          intro acc h
          simp only [List.foldlM_cons]
          refine okp_bind (P := fun r : List Span × Nat => AllOK s r.1) ?_ (fun a ha => ih a ha)
          refine okp_bind (parseSpan_okp s x) ?_
          intro p hp
          obtain ⟨sp, simple⟩ := p
          exact okp_ok (allOK_snoc h hp)
      refine okp_bind (hfold _ ([], 0) (fun _ h => nomatch h)) ?_
      intro r hr
      obtain ⟨spans, w⟩ := r
      exact okp_ok hr

end DepsDev.Proofs.C04b
