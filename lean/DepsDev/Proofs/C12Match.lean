import DepsDev.Proofs.C12Order

/-!
# C12 — lemmas about `sortBase`, `moveLatest`, `filterMatch`

Everything here is about the model of match.go; the property-level statements are in
`Props/C12.lean`.
-/
namespace DepsDev.Proofs.C12Match

open List DepsDev DepsDev.Semver DepsDev.Resolve.Match DepsDev.Proofs.SortUnique DepsDev.Proofs.C12Order


/-! ### `sortBase` -/

theorem all_perm {α : Type} {l₁ l₂ : List α} (p : l₁ ~ l₂) (f : α → Bool) : l₁.all f = l₂.all f := by
  rw [Bool.eq_iff_iff, List.all_eq_true, List.all_eq_true]
  exact ⟨fun h x hx => h x (p.mem_iff.mpr hx), fun h x hx => h x (p.mem_iff.mp hx)⟩

theorem comparable_perm (s : Semver.System) {l₁ l₂ : List RVersion} (p : l₁ ~ l₂) :
    comparable s l₁ = comparable s l₂ := by
  unfold comparable
  have pm : l₁.map (dec s) ~ l₂.map (dec s) := p.map _
  rw [all_perm p, all_perm pm]
  congr 1
  apply List.all_congr rfl
  intro a
  exact all_perm pm _

theorem dv_eq_dec {s : Semver.System} {l : List RVersion} {d : DV} (h : d ∈ l.map (dec s)) : InList s l d := by
  obtain ⟨v, hv, rfl⟩ := List.mem_map.mp h
  exact ⟨v, hv, rfl⟩

theorem inj_of_nodup_map {α β : Type} {f : α → β} {l : List α} (nd : (l.map f).Nodup)
    {a b : α} (ha : a ∈ l) (hb : b ∈ l) (hab : f a = f b) : a = b := by
  induction l with
  | nil => cases ha
  | cons x xs ih =>
    simp only [List.map_cons, List.nodup_cons, List.mem_map, not_exists, not_and] at nd
    cases ha with
    | head =>
      cases hb with
      | head => rfl
      | tail _ hb' => exact absurd hab.symm (nd.1 b hb')
    | tail _ ha' =>
      cases hb with
      | head => exact absurd hab (nd.1 a ha')
      | tail _ hb' => exact ih nd.2 ha' hb'

/-- Ties of `less` among the decorated elements of a list with pairwise distinct version
strings are identical elements. -/
theorem less_tri_eq {s : Semver.System} {l : List RVersion} (H : OrderLawful s l)
    (nd : (l.map (fun v => v.key.version)).Nodup) {a b : DV}
    (ha : a ∈ l.map (dec s)) (hb : b ∈ l.map (dec s))
    (h1 : less a b = false) (h2 : less b a = false) : a = b := by
  have e := H.tri a b (dv_eq_dec ha) (dv_eq_dec hb) h1 h2
  obtain ⟨va, hva, rfl⟩ := List.mem_map.mp ha
  obtain ⟨vb, hvb, rfl⟩ := List.mem_map.mp hb
  have : va = vb := inj_of_nodup_map nd hva hvb e
  rw [this]

/-- **Order-insensitivity of the sort**: with a lawful order (`OrderLawful`) and pairwise
distinct version strings, `sortBase` depends only on the multiset of records. -/
theorem sortBase_perm {s : Semver.System} {l₁ l₂ : List RVersion} (H : OrderLawful s l₁)
    (nd : (l₁.map (fun v => v.key.version)).Nodup) (p : l₁ ~ l₂) : sortBase s l₁ = sortBase s l₂ := by
  unfold sortBase
  rw [comparable_perm s p]
  split
  · congr 1
    exact goSort_eq_of_perm H.weak (fun y hy => dv_eq_dec hy)
      (fun a b ha hb => less_tri_eq H nd ha hb) (p.map _)
  · rfl

theorem sortBase_ok {s : Semver.System} {l : List RVersion} {ds : List DV} (h : sortBase s l = .ok ds) :
    ds = goSort less (l.map (dec s)) := by
  unfold sortBase at h
  split at h
  · injection h with h; exact h.symm
  · cases h

theorem sortBase_perm_input {s : Semver.System} {l : List RVersion} {ds : List DV} (h : sortBase s l = .ok ds) :
    ds ~ l.map (dec s) := by
  rw [sortBase_ok h]; exact goSort_perm _

theorem sortBase_sorted {s : Semver.System} {l : List RVersion} (H : OrderLawful s l) {ds : List DV}
    (h : sortBase s l = .ok ds) : Sorted less ds := by
  rw [sortBase_ok h]
  exact goSort_sorted H.weak (fun y hy => dv_eq_dec hy)

theorem mem_sortBase {s : Semver.System} {l : List RVersion} {ds : List DV} (h : sortBase s l = .ok ds)
    {d : DV} (hd : d ∈ ds) : InList s l d :=
  dv_eq_dec ((sortBase_perm_input h).mem_iff.mp hd)

theorem map_v_dec (s : Semver.System) (l : List RVersion) : (l.map (dec s)).map DV.v = l := by
  induction l with
  | nil => rfl
  | cons x xs ih => simp [dec, ih]

theorem sortBase_map_v_perm {s : Semver.System} {l : List RVersion} {ds : List DV} (h : sortBase s l = .ok ds) :
    ds.map DV.v ~ l := by
  have := (sortBase_perm_input h).map DV.v
  rwa [map_v_dec] at this

/-! ### the ecosystem order on records -/

/-- `a` is not after `b` in the order `SortVersions` sorts by (system `s`): parsable before
unparsable, then `vcompare`, then the version string. -/
def vle (s : Semver.System) (a b : RVersion) : Prop := less (dec s b) (dec s a) = false

theorem sorted_map_v {s : Semver.System} {l : List RVersion} {ds : List DV}
    (hin : ∀ d ∈ ds, InList s l d) (hs : Sorted less ds) : (ds.map DV.v).Pairwise (vle s) := by
  rw [List.pairwise_map]
  refine hs.imp_of_mem ?_
  intro a b ha hb hab
  obtain ⟨va, _, rfl⟩ := hin a ha
  obtain ⟨vb, _, rfl⟩ := hin b hb
  simpa [vle, dec] using hab

/-! ### `splitLast`, `moveLatest` -/

theorem splitLast_some {α : Type} {p : α → Bool} {l pre post : List α} {x : α}
    (h : splitLast p l = some (pre, x, post)) :
    l = pre ++ x :: post ∧ p x = true ∧ ∀ y ∈ post, p y = false := by
  induction l generalizing pre with
  | nil => simp [splitLast] at h
  | cons a as ih =>
    simp only [splitLast] at h
    split at h
    · rename_i pre' y post' heq
      injection h with h
      simp only [Prod.mk.injEq] at h
      obtain ⟨rfl, rfl, rfl⟩ := h
      obtain ⟨e, hp, hpost⟩ := ih heq
      exact ⟨by rw [e]; rfl, hp, hpost⟩
    · rename_i hnone
      split at h
      · rename_i hpa
        injection h with h
        simp only [Prod.mk.injEq] at h
        obtain ⟨rfl, rfl, rfl⟩ := h
        refine ⟨rfl, hpa, ?_⟩
        clear ih
        -- `splitLast p as = none` means no element of `as` satisfies `p`
        have : ∀ (l : List α), splitLast p l = none → ∀ y ∈ l, p y = false := by
          intro l
          induction l with
          | nil => intro _ y hy; cases hy
          | cons b bs ihb =>
            intro hn y hy
            simp only [splitLast] at hn
            split at hn
            · cases hn
            · rename_i hbs
              split at hn
              · cases hn
              · rename_i hpb
                rcases List.mem_cons.mp hy with rfl | hy'
                · simpa using hpb
                · exact ihb hbs y hy'
        exact this as hnone
      · cases h

theorem splitLast_none {α : Type} {p : α → Bool} {l : List α} (h : splitLast p l = none) :
    ∀ y ∈ l, p y = false := by
  induction l with
  | nil => intro y hy; cases hy
  | cons b bs ih =>
    intro y hy
    simp only [splitLast] at h
    split at h
    · cases h
    · rename_i hbs
      split at h
      · cases h
      · rename_i hpb
        rcases List.mem_cons.mp hy with rfl | hy'
        · simpa using hpb
        · exact ih hbs y hy'

theorem moveLatest_perm (ds : List DV) : moveLatest ds ~ ds := by
  unfold moveLatest
  split
  · exact Perm.refl _
  · rename_i pre x post heq
    obtain ⟨e, _, _⟩ := splitLast_some heq
    simp only
    split
    · exact Perm.refl _
    · rw [e]
      simp only [List.append_assoc]
      exact Perm.append_left pre (by simp [perm_append_singleton])

/-- Shape of `moveLatest` on a sorted list: a sorted part followed by at most one moved
element, which is the last (hence greatest) element carrying the tag `latest` (`DV.hasLatest`). -/
inductive MovedShape (ds : List DV) : List DV → Prop where
  /-- nothing carries "latest" -/
  | none (h : ∀ d ∈ ds, d.hasLatest = false) : MovedShape ds ds
  /-- the greatest carrier is a pre-release and not everything is: left in place -/
  | kept (x : DV) (hx : x ∈ ds) (hl : x.hasLatest = true)
      (hmax : ∀ y ∈ ds, y.hasLatest = true → less x y = false)
      (hpre : x.isPre = true) (hrel : ∃ z ∈ ds, z.isPre = false) : MovedShape ds ds
  /-- the greatest carrier is moved last -/
  | moved (ys : List DV) (x : DV) (hp : ys ++ [x] ~ ds) (hs : Sorted less ys) (hl : x.hasLatest = true)
      (hmax : ∀ y ∈ ds, y.hasLatest = true → less x y = false)
      (hex : ¬ (x.isPre = true ∧ ∃ z ∈ ds, z.isPre = false)) : MovedShape ds (ys ++ [x])

theorem moveLatest_shape {S : DV → Prop} (hw : StrictWeakOn less S) {ds : List DV} (hS : ∀ d ∈ ds, S d)
    (hs : Sorted less ds) : MovedShape ds (moveLatest ds) := by
  unfold moveLatest
  split
  · rename_i hnone
    exact MovedShape.none (splitLast_none hnone)
  · rename_i pre x post heq
    obtain ⟨e, hpx, hpost⟩ := splitLast_some heq
    have hxmem : x ∈ ds := by rw [e]; simp
    have hirr : less x x = false := by
      cases h : less x x with
      | false => rfl
      | true => rw [← h]; exact hw.asymm x x (hS x hxmem) (hS x hxmem) h
    have hmax : ∀ y ∈ ds, y.hasLatest = true → less x y = false := by
      intro y hy hly
      rw [e] at hy hs
      rcases List.mem_append.mp hy with hy | hy
      · -- y before x in the sorted list
        have := (List.pairwise_append.mp hs).2.2 y hy x (by simp)
        exact this
      · rcases List.mem_cons.mp hy with rfl | hy
        · exact hirr
        · rw [hpost y hy] at hly; cases hly
    simp only
    have hall : (ds.all DV.isPre = false) ↔ ∃ z ∈ ds, z.isPre = false := by
      rw [List.all_eq_false]
      constructor
      · rintro ⟨z, hz, h⟩; exact ⟨z, hz, by simpa using h⟩
      · rintro ⟨z, hz, h⟩; exact ⟨z, hz, by simp [h]⟩
    split
    · rename_i hc
      simp only [Bool.and_eq_true, Bool.not_eq_true'] at hc
      exact MovedShape.kept x hxmem hpx hmax hc.1 (hall.mp hc.2)
    · rename_i hc
      have hperm : (pre ++ post) ++ [x] ~ ds := by
        rw [e]
        simp only [List.append_assoc]
        exact Perm.append_left pre (by simp [perm_append_singleton])
      have hsorted : Sorted less (pre ++ post) := by
        rw [e] at hs
        exact hs.sublist (List.Sublist.append_left (List.sublist_cons_self x post) pre)
      refine MovedShape.moved (pre ++ post) x hperm hsorted hpx hmax ?_
      intro ⟨h1, h2⟩
      apply hc
      simp only [Bool.and_eq_true, Bool.not_eq_true']
      exact ⟨h1, hall.mpr h2⟩

/-! ### `filterMatch` -/

/-- The record satisfies the (parsed) requirement. -/
def sat (c : Semver.Constraint) (v : RVersion) : Bool := c.matchStr v.key.version == .ok true

theorem filterMatch_ok {c : Semver.Constraint} {l r : List RVersion} (h : filterMatch c l = .ok r) :
    r = l.filter (sat c) := by
  induction l generalizing r with
  | nil => simp only [filterMatch] at h; injection h with h; simp [← h]
  | cons v vs ih =>
    simp only [filterMatch] at h
    split at h
    · rename_i m hm
      split at h
      · rename_i r' hr'
        injection h with h
        have := ih hr'
        subst this
        cases m
        · simp [← h, sat, hm]
        · simp [← h, sat, hm]
      · cases h
      · cases h
    · cases h
    · cases h

end DepsDev.Proofs.C12Match
