import DepsDev.Props.C01
import DepsDev.Proofs.SortUnique

/-!
# C12 — the comparator of `SortVersions` / `sortNPMVersions` is a strict weak order

`less` (Model/Resolve/Match.lean) orders decorated list elements: parsable before
unparsable, then the ecosystem's `vcompare`, then the version string. Given C01's laws
for `vcompare` on the parsed versions of the list (`CmpLawful`; proved in C01 for every
system except Maven), `less` is a strict weak order on the list's elements whose ties are
elements with identical version strings (`less_strictWeakOn`, `less_tri`).
-/
namespace DepsDev.Proofs.C12Order

open DepsDev DepsDev.Semver DepsDev.Resolve.Match DepsDev.Proofs DepsDev.Proofs.SortUnique
open DepsDev.Props

/-- The parsed versions of the list's version strings (system `s`). -/
def ParsedOf (s : Semver.System) (l : List Resolve.Match.Version) (x : Semver.Version) : Prop :=
  ∃ v ∈ l, Semver.parse s v.key.version = .ok x

/-- **Hypothesis `CmpLawful`**: the clauses of C01 (total, reflexive, sign-antisymmetric,
transitive, congruent) hold for `vcompare` on the parsed versions of the list. -/
def CmpLawful (s : Semver.System) (l : List Resolve.Match.Version) : Prop := C01.Laws (ParsedOf s l)

theorem totalPreorderOn_mono {P Q : Semver.Version → Prop} (h : C01.TotalPreorderOn P)
    (hQP : ∀ x, Q x → P x) : C01.TotalPreorderOn Q := by
  obtain ⟨c, hT, hc⟩ := h
  exact ⟨c, hT, fun a b ha hb => hc a b (hQP a ha) (hQP b hb)⟩

theorem cmpLawful_of_wf {s : Semver.System} (h : C01.TotalPreorderOn (C01.WF s))
    (l : List Resolve.Match.Version) : CmpLawful s l :=
  C01.laws (totalPreorderOn_mono h (fun x ⟨v, _, hv⟩ => C01.parse_wf s v.key.version x hv))

/-- NPM, and the default system used for `UnknownSystem`: unconditional (C01 `generic`). -/
theorem cmpLawful_npm (l : List Resolve.Match.Version) : CmpLawful .npm l :=
  cmpLawful_of_wf (C01.generic .npm (by simp [C01.IsGeneric])) l

theorem cmpLawful_default (l : List Resolve.Match.Version) : CmpLawful .default l :=
  cmpLawful_of_wf (C01.generic .default (by simp [C01.IsGeneric])) l

/-- PyPI: unconditional (C01 `pypi`). -/
theorem cmpLawful_pypi (l : List Resolve.Match.Version) : CmpLawful .pypi l :=
  cmpLawful_of_wf C01.pypi l

theorem CmpLawful.perm {s : Semver.System} {l₁ l₂ : List Resolve.Match.Version} (h : CmpLawful s l₁)
    (p : l₁.Perm l₂) : CmpLawful s l₂ := by
  have e : ParsedOf s l₂ = ParsedOf s l₁ := by
    funext x
    simp only [ParsedOf, eq_iff_iff]
    constructor
    · rintro ⟨v, hv, hx⟩; exact ⟨v, p.mem_iff.mpr hv, hx⟩
    · rintro ⟨v, hv, hx⟩; exact ⟨v, p.mem_iff.mp hv, hx⟩
  unfold CmpLawful
  rw [e]; exact h

/-! ### byte-string order -/

theorem cmpBytes_lawful : LawfulInt cmpBytes :=
  LawfulInt.of_cmp (List.compareLex compare) cmpBytes_eq

theorem cmpBytes_eq_zero : ∀ {a b : Bytes}, cmpBytes a b = 0 → a = b
  | [], [], _ => rfl
  | [], _ :: _, h => by simp [cmpBytes] at h
  | _ :: _, [], h => by simp [cmpBytes] at h
  | a :: as, b :: bs, h => by
    simp only [cmpBytes] at h
    split at h
    · omega
    · split at h
      · omega
      · rename_i h1 h2
        have : a = b := by
          have := UInt8.lt_or_lt_of_ne (a := a) (b := b)
          by_cases hab : a = b
          · exact hab
          · rcases this hab with h' | h'
            · exact absurd h' h1
            · exact absurd h' h2
        subst this
        rw [cmpBytes_eq_zero h]

/-! ### the comparator as a sign -/

/-- Sign-valued form of `less`. -/
def dcmp (a b : DV) : Int :=
  match a.sv, b.sv with
  | some _, none => -1
  | none, some _ => 1
  | some x, some y =>
    match Semver.vcompare x y with
    | .ok c => thenInt c (cmpBytes a.v.key.version b.v.key.version)
    | .err => 0
    | .panic => 0
  | none, none => cmpBytes a.v.key.version b.v.key.version

theorem less_iff_dcmp (a b : DV) : less a b = true ↔ dcmp a b < 0 := by
  unfold less dcmp
  cases a.sv <;> cases b.sv <;> simp
  split <;> rename_i heq <;> simp [thenInt, heq]
  split <;> simp_all

theorem less_eq_dcmp (a b : DV) : less a b = decide (dcmp a b < 0) := by
  rw [Bool.eq_iff_iff, less_iff_dcmp]; simp

/-- Membership of a decorated element in the decorated list. -/
def InList (s : Semver.System) (l : List Resolve.Match.Version) (d : DV) : Prop := ∃ v ∈ l, d = dec s v

theorem parsedOf_of_inList {s : Semver.System} {l : List Resolve.Match.Version} {d : DV} {x : Semver.Version}
    (hd : InList s l d) (hx : d.sv = some x) : ParsedOf s l x := by
  obtain ⟨v, hv, rfl⟩ := hd
  refine ⟨v, hv, ?_⟩
  simp only [dec] at hx
  cases h : Semver.parse s v.key.version <;> simp_all [Outcome.toOption]

section laws
variable {s : Semver.System} {l : List Resolve.Match.Version} (H : CmpLawful s l)
include H

theorem dcmp_antisymm {a b : DV} (ha : InList s l a) (hb : InList s l b) : dcmp b a = - dcmp a b := by
  unfold dcmp
  cases hx : a.sv <;> cases hy : b.sv <;> simp
  · exact cmpBytes_lawful.antisymm _ _
  · rename_i x y
    have px := parsedOf_of_inList ha hx
    have py := parsedOf_of_inList hb hy
    obtain ⟨c, hc, _⟩ := H.total x y px py
    have hc' := H.antisymm x y c px py hc
    rw [hc, hc']
    simp only [thenInt]
    have := cmpBytes_lawful.antisymm a.v.key.version b.v.key.version
    split <;> split <;> simp_all <;> omega

theorem dcmp_trans_le {a b c : DV} (ha : InList s l a) (hb : InList s l b) (hc : InList s l c)
    (h1 : dcmp a b ≤ 0) (h2 : dcmp b c ≤ 0) : dcmp a c ≤ 0 := by
  unfold dcmp at h1 h2 ⊢
  cases hx : a.sv <;> cases hy : b.sv <;> cases hz : c.sv <;> simp only [hx, hy, hz] at h1 h2 ⊢ <;>
    try omega
  · exact cmpBytes_lawful.trans_le h1 h2
  · rename_i x y z
    have px := parsedOf_of_inList ha hx
    have py := parsedOf_of_inList hb hy
    have pz := parsedOf_of_inList hc hz
    obtain ⟨c1, e1, s1⟩ := H.total x y px py
    obtain ⟨c2, e2, s2⟩ := H.total y z py pz
    obtain ⟨c3, e3, s3⟩ := H.total x z px pz
    rw [e1] at h1; rw [e2] at h2; rw [e3]
    simp only [thenInt] at h1 h2 ⊢
    by_cases z1 : c1 = 0
    · subst z1
      have hcong := H.congr x y z px py pz e1
      rw [e2, e3] at hcong
      injection hcong with hcong
      subst hcong
      by_cases z2 : c3 = 0
      · subst z2
        simp only [bne_self_eq_false, Bool.false_eq_true, ↓reduceIte] at h1 h2 ⊢
        exact cmpBytes_lawful.trans_le h1 h2
      · simp only [bne_iff_ne, ne_eq, z2, not_false_eq_true, ↓reduceIte] at h2 ⊢
        exact h2
    · simp only [bne_iff_ne, ne_eq, z1, not_false_eq_true, ↓reduceIte] at h1
      have hc2 : c2 ≤ 0 := by
        by_cases z2 : c2 = 0
        · omega
        · simp only [bne_iff_ne, ne_eq, z2, not_false_eq_true, ↓reduceIte] at h2; exact h2
      have := H.trans_le x y z c1 c2 c3 px py pz e1 e2 e3 h1 hc2
      have h3 : c3 < 0 := this.2 (Or.inl (by omega))
      have : c3 ≠ 0 := by omega
      simp only [bne_iff_ne, ne_eq, this, not_false_eq_true, ↓reduceIte]
      omega

theorem dcmp_eq_zero {a b : DV} (ha : InList s l a) (hb : InList s l b) (h : dcmp a b = 0) :
    a.v.key.version = b.v.key.version := by
  unfold dcmp at h
  cases hx : a.sv <;> cases hy : b.sv <;> simp only [hx, hy] at h <;> try omega
  · exact cmpBytes_eq_zero h
  · rename_i x y
    obtain ⟨c, e, _⟩ := H.total x y (parsedOf_of_inList ha hx) (parsedOf_of_inList hb hy)
    rw [e] at h
    simp only [thenInt] at h
    split at h
    · rename_i hne; simp at hne; omega
    · exact cmpBytes_eq_zero h

/-- `less` is a strict weak order on the decorated elements of the list. -/
theorem less_strictWeakOn : StrictWeakOn less (InList s l) where
  asymm := by
    intro a b ha hb h
    rw [less_eq_dcmp] at h ⊢
    have := dcmp_antisymm H ha hb
    simp only [decide_eq_true_eq, decide_eq_false_iff_not] at h ⊢
    omega
  le_trans := by
    intro a b c ha hb hc h1 h2
    rw [less_eq_dcmp] at h1 h2 ⊢
    simp only [decide_eq_false_iff_not, Int.not_lt] at h1 h2 ⊢
    -- a ≤ b (0 ≤ dcmp b a), b ≤ c (0 ≤ dcmp c b) ⊢ a ≤ c
    have e1 := dcmp_antisymm H ha hb
    have e2 := dcmp_antisymm H hb hc
    have e3 := dcmp_antisymm H ha hc
    have := dcmp_trans_le H ha hb hc (by omega) (by omega)
    omega

/-- Ties of `less` among the list's elements have identical version strings. -/
theorem less_tri {a b : DV} (ha : InList s l a) (hb : InList s l b)
    (h1 : less a b = false) (h2 : less b a = false) : a.v.key.version = b.v.key.version := by
  rw [less_eq_dcmp] at h1 h2
  simp only [decide_eq_false_iff_not, Int.not_lt] at h1 h2
  have := dcmp_antisymm H ha hb
  exact dcmp_eq_zero H ha hb (by omega)

end laws

/-! ### the hypothesis in decidable form -/

/-- **Hypothesis `OrderLawful`** (what the sorting theorems use): on the decorated elements of
the list, `less` is a strict weak order whose ties have identical version strings. It follows
from `CmpLawful` (`orderLawful_of_cmpLawful`), hence holds for every NPM / PyPI / default-system
list, and it is decidable for a concrete list (`orderLawfulB_iff`): its negation is the
classifier of finding F-C12-mvn-intrans. -/
structure OrderLawful (s : Semver.System) (l : List Resolve.Match.Version) : Prop where
  weak : StrictWeakOn less (InList s l)
  tri : ∀ a b, InList s l a → InList s l b → less a b = false → less b a = false →
    a.v.key.version = b.v.key.version

theorem orderLawful_of_cmpLawful {s : Semver.System} {l : List Resolve.Match.Version} (H : CmpLawful s l) :
    OrderLawful s l :=
  ⟨less_strictWeakOn H, fun _ _ ha hb => less_tri H ha hb⟩

theorem inList_iff {s : Semver.System} {l : List Resolve.Match.Version} {d : DV} :
    InList s l d ↔ d ∈ l.map (dec s) := by
  simp only [InList, List.mem_map]
  constructor
  · rintro ⟨v, hv, rfl⟩; exact ⟨v, hv, rfl⟩
  · rintro ⟨v, hv, rfl⟩; exact ⟨v, hv, rfl⟩

theorem OrderLawful.perm {s : Semver.System} {l₁ l₂ : List Resolve.Match.Version} (h : OrderLawful s l₁)
    (p : l₁.Perm l₂) : OrderLawful s l₂ := by
  have e : ∀ d, InList s l₂ d → InList s l₁ d := fun d ⟨v, hv, hd⟩ => ⟨v, p.mem_iff.mpr hv, hd⟩
  exact ⟨h.weak.mono e, fun a b ha hb => h.tri a b (e a ha) (e b hb)⟩

theorem OrderLawful.of_subset {s : Semver.System} {l₁ l₂ : List Resolve.Match.Version} (h : OrderLawful s l₁)
    (hsub : ∀ v ∈ l₂, v ∈ l₁) : OrderLawful s l₂ := by
  have e : ∀ d, InList s l₂ d → InList s l₁ d := fun d ⟨v, hv, hd⟩ => ⟨v, hsub v hv, hd⟩
  exact ⟨h.weak.mono e, fun a b ha hb => h.tri a b (e a ha) (e b hb)⟩

theorem orderLawfulB_iff (s : Semver.System) (l : List Resolve.Match.Version) :
    orderLawfulB s l = true ↔ OrderLawful s l := by
  unfold orderLawfulB
  simp only [List.all_eq_true, Bool.and_eq_true, Bool.or_eq_true, Bool.not_eq_true', beq_iff_eq]
  constructor
  · intro h
    refine ⟨⟨?_, ?_⟩, ?_⟩
    · intro a b ha hb hab
      rcases (h a (inList_iff.mp ha) b (inList_iff.mp hb)).1.1 with h1 | h1
      · rw [hab] at h1; cases h1
      · exact h1
    · intro a b c ha hb hc h1 h2
      rcases (h a (inList_iff.mp ha) b (inList_iff.mp hb)).2 c (inList_iff.mp hc) with (h3 | h3) | h3
      · rw [h1] at h3; cases h3
      · rw [h2] at h3; cases h3
      · exact h3
    · intro a b ha hb h1 h2
      rcases (h a (inList_iff.mp ha) b (inList_iff.mp hb)).1.2 with (h3 | h3) | h3
      · rw [h1] at h3; cases h3
      · rw [h2] at h3; cases h3
      · exact h3
  · intro ⟨⟨hasym, htrans⟩, htri⟩ a ha b hb
    have ia := inList_iff.mpr ha
    have ib := inList_iff.mpr hb
    refine ⟨⟨?_, ?_⟩, ?_⟩
    · cases hab : less a b with
      | false => exact Or.inl rfl
      | true => exact Or.inr (hasym a b ia ib hab)
    · cases hab : less a b with
      | true => exact Or.inl (Or.inl rfl)
      | false =>
        cases hba : less b a with
        | true => exact Or.inl (Or.inr rfl)
        | false => exact Or.inr (htri a b ia ib hab hba)
    · intro c hc
      have ic := inList_iff.mpr hc
      cases hba : less b a with
      | true => exact Or.inl (Or.inl rfl)
      | false =>
        cases hcb : less c b with
        | true => exact Or.inl (Or.inr rfl)
        | false => exact Or.inr (htrans a b c ia ib ic hba hcb)

end DepsDev.Proofs.C12Order
