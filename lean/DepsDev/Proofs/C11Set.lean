import DepsDev.Proofs.C11Bound

/-!
# C11 — `parseSpan`, `parseSet` on printed sets; matching with prereleases included

`parseSpan_ok`: the text of a well-formed span (`SpanOk`) parses to a span that agrees with
it up to what comparison reads (`SpanRe`); `parseSet_toBytes`: the same for a non-empty list
of spans; `set_roundtrip_spans`: the reparsed set prints identically and
`matchVersion · true` cannot tell it from the original.
-/
namespace DepsDev.Proofs.C11
open DepsDev DepsDev.Semver DepsDev.Proofs.C10 DepsDev.Proofs.Digits

/-- `"<empty>"` -/
def emptyText : Bytes := [60, 101, 109, 112, 116, 121, 62]

theorem emptyText_eq : "<empty>".toUTF8.toList = emptyText := by rw [toList_eq]; rfl

/-- The spans the theorem covers: empty spans, unit spans on a bound without '∞', vector spans
whose lower bound has no '∞' (the upper bound may). -/
def SpanOk (s : System) (sp : Span) : Prop :=
  match sp.rank with
  | .empty => True
  | .unit => ∃ m, sp.min = some m ∧ BoundShape s false m
  | .vector => ∃ a b, sp.min = some a ∧ sp.max = some b ∧ BoundShape s false a ∧ BoundShape s true b

/-- `sp'` is `sp` as `parseSpan` returns it from `sp`'s text. -/
inductive SpanRe : Span → Span → Prop
  | empty (sp : Span) (hr : sp.rank = .empty) : SpanRe sp Span.emptySpan
  | unit (sp : Span) (m m' : Version) (hr : sp.rank = .unit) (hm : sp.min = some m) (re : Reparsed m m')
      (hc : canon m' false = canon m false) :
      SpanRe sp { rank := .unit, min := some m', max := some m' }
  | vector (sp : Span) (a b a' b' : Version) (hr : sp.rank = .vector) (ha : sp.min = some a) (hb : sp.max = some b)
      (ra : Reparsed a a') (rb : Reparsed b b') (ca : canon a' false = canon a false)
      (cb : canon b' false = canon b false) :
      SpanRe sp { rank := .vector, minOpen := sp.minOpen, maxOpen := sp.maxOpen, min := some a', max := some b' }

theorem render_cons (s : System) (ai : Bool) (a : SemVerAst) (ha : a.Valid s ai) :
    ∃ c r, a.render s = c :: r ∧ okByte c = true := by
  have hall := render_okByte s ai a ha
  cases hr : a.render s with
  | nil =>
    exfalso
    obtain ⟨h3, _, hnum, _⟩ := ha
    match hn : a.nums, h3 with
    | x :: xs, _ =>
      have := congrArg List.length hr
      simp only [SemVerAst.render, hn, renderNums, List.length_append, List.length_nil] at this
      rcases valueBytes_head ai x (hnum x (by simp [hn])) with ⟨_, hv⟩ | ⟨d, ds, hv, _⟩
      · rw [hv] at this; simp [infB] at this
      · rw [hv] at this; simp at this
  | cons c r =>
    rw [hr] at hall
    exact ⟨c, r, rfl, by simp at hall; exact hall.1⟩

theorem canon_bound_cons (s : System) (ai : Bool) (v : Version) (h : BoundShape s ai v) :
    ∃ c r, canon v false = c :: r ∧ okByte c = true ∧ (c :: r).all okByte = true := by
  rw [canon_bound s ai v h]
  obtain ⟨c, r, hr, hc⟩ := render_cons s ai _ (boundAst_valid s ai v h)
  have := render_okByte s ai _ (boundAst_valid s ai v h)
  rw [hr] at this ⊢
  exact ⟨c, r, rfl, hc, this⟩

theorem parseSpan_empty (s : System) (sp : Span) (hr : sp.rank = .empty) :
    parseSpan s sp.toBytes = .ok (Span.emptySpan, false) := by
  have : sp.toBytes = emptyText := by
    unfold Span.toBytes; rw [hr]; exact emptyText_eq
  rw [this]
  unfold parseSpan
  rw [emptyText_eq]
  simp [emptyText]

theorem parseSpan_unit (s : System) (hs : Generic s = true) (sp : Span) (m : Version) (hr : sp.rank = .unit)
    (hm : sp.min = some m) (hb : BoundShape s false m) :
    ∃ sp' simple, parseSpan s sp.toBytes = .ok (sp', simple) ∧ SpanRe sp sp' := by
  obtain ⟨m', hp, re, hc⟩ := unit_roundtrip s hs m hb
  obtain ⟨c, r, hcr, hok, _⟩ := canon_bound_cons s false m hb
  have htext : sp.toBytes = canon m false := by unfold Span.toBytes; rw [hr, hm]
  obtain ⟨_, _, h91, _, h40, _, _, _, h60⟩ := okByte_not_sep c hok
  refine ⟨{ rank := .unit, min := some m', max := some m' }, !m'.isWildcard, ?_, SpanRe.unit sp m m' hr hm re hc⟩
  rw [htext]
  unfold parseSpan
  rw [emptyText_eq, hp, hcr]
  have e1 : ((c :: r) == emptyText) = false := by
    simp only [emptyText, beq_eq_false_iff_ne, ne_eq, List.cons.injEq, not_and]
    intro e; exact absurd e h60
  have e2 : (c == 91) = false := by simpa using h91
  have e3 : (c == 40) = false := by simpa using h40
  simp only [List.isEmpty_cons, Bool.false_eq_true, ↓reduceIte, e1, List.head?_cons, Option.some.injEq,
    beq_iff_eq, Option.some_beq_some, e2, e3, Bool.or_self]
  rfl


theorem all_okByte_ne (t : Bytes) (h : t.all okByte = true) (sep : UInt8) (hs : okByte sep = false) :
    ∀ c ∈ t, c ≠ sep := by
  intro c hc e
  subst e
  have := List.all_eq_true.mp h c hc
  rw [hs] at this
  cases this

theorem getLastD_append_singleton (l : Bytes) (x d : UInt8) : (l ++ [x]).getLastD d = x := by
  simp [List.getLastD_eq_getLast?]

theorem parseSpan_vector (s : System) (hs : Generic s = true) (sp : Span) (a b : Version) (hr : sp.rank = .vector)
    (ha : sp.min = some a) (hb : sp.max = some b) (sa : BoundShape s false a) (sb : BoundShape s true b) :
    ∃ sp' simple, parseSpan s sp.toBytes = .ok (sp', simple) ∧ SpanRe sp sp' := by
  obtain ⟨a', hpa, rea, hca⟩ := bound_roundtrip s hs false a sa
  obtain ⟨b', hpb, reb, hcb⟩ := bound_roundtrip s hs true b sb
  obtain ⟨_, _, hea, _, oka⟩ := canon_bound_cons s false a sa
  obtain ⟨_, _, heb, _, okb⟩ := canon_bound_cons s true b sb
  rw [← hea] at oka
  rw [← heb] at okb
  refine ⟨{ rank := .vector, minOpen := sp.minOpen, maxOpen := sp.maxOpen, min := some a', max := some b' }, false, ?_,
    SpanRe.vector sp a b a' b' hr ha hb rea reb hca hcb⟩
  -- the text
  have htext : sp.toBytes = (if sp.minOpen then 40 else 91) :: (canon a false ++ 58 :: canon b false ++ [if sp.maxOpen then 41 else 93]) := by
    unfold Span.toBytes; rw [hr, ha, hb]; simp
  have hsplit : splitOn 58 (canon a false ++ 58 :: canon b false) = [canon a false, canon b false] := by
    have := splitOn_joinWith 58 (canon a false) [canon b false] (by
      intro q hq
      simp at hq
      rcases hq with rfl | rfl
      · exact all_okByte_ne _ oka 58 (by decide)
      · exact all_okByte_ne _ okb 58 (by decide))
    simpa [joinWith] using this
  rw [htext]
  unfold parseSpan
  rw [emptyText_eq]
  have ho : ∀ o : Bool, ((if o then (40 : UInt8) else 91) == 91 || (if o then (40 : UInt8) else 91) == 40) = true := by
    intro o; cases o <;> decide
  have hmo : ∀ o : Bool, ((if o then (40 : UInt8) else 91) == 40) = o := by intro o; cases o <;> decide
  have ho' : ∀ o : Bool, ((if o then (40 : UInt8) else 91) == 91 || o) = true := by intro o; cases o <;> decide
  have hmc : ∀ o : Bool, ((if o then (41 : UInt8) else 93) == 41) = o := by intro o; cases o <;> decide
  have hcl : ∀ o : Bool, ((if o then (41 : UInt8) else 93) != 93 && (if o then (41 : UInt8) else 93) != 41) = false := by
    intro o; cases o <;> decide
  have he : (((if sp.minOpen then (40 : UInt8) else 91) :: (canon a false ++ 58 :: canon b false ++ [if sp.maxOpen then 41 else 93])) == emptyText) = false := by
    cases sp.minOpen <;> simp [emptyText]
  have hlast : ((if sp.minOpen then (40 : UInt8) else 91) :: (canon a false ++ 58 :: canon b false ++ [if sp.maxOpen then 41 else 93])).getLastD 0 =
      (if sp.maxOpen then 41 else 93) := by
    rw [← List.cons_append, getLastD_append_singleton]
  have hlen : ¬ ((if sp.minOpen then (40 : UInt8) else 91) :: (canon a false ++ 58 :: canon b false ++ [if sp.maxOpen then 41 else 93])).length < 2 := by
    simp only [List.length_cons, List.length_append, List.length_nil]; omega
  have hmid : (((if sp.minOpen then (40 : UInt8) else 91) :: (canon a false ++ 58 :: canon b false ++ [if sp.maxOpen then 41 else 93])).drop 1).dropLast =
      canon a false ++ 58 :: canon b false := by
    rw [List.drop_one, List.tail_cons,
      show canon a false ++ 58 :: canon b false ++ [if sp.maxOpen then (41 : UInt8) else 93] =
        (canon a false ++ 58 :: canon b false) ++ [if sp.maxOpen then (41 : UInt8) else 93] by simp,
      List.dropLast_concat]
  simp only [List.isEmpty_cons, Bool.false_eq_true, ↓reduceIte, he, List.head?_cons, Option.some_beq_some, ho,
    hlast, hcl, hlen, hmid, hsplit, hpa, hpb, hmo, hmc, ho']
  rfl

/-- `parseSpan` on the text of a well-formed span. -/
theorem parseSpan_ok (s : System) (hs : Generic s = true) (sp : Span) (h : SpanOk s sp) :
    ∃ sp' simple, parseSpan s sp.toBytes = .ok (sp', simple) ∧ SpanRe sp sp' := by
  unfold SpanOk at h
  cases hr : sp.rank with
  | empty => exact ⟨_, _, parseSpan_empty s sp hr, SpanRe.empty sp hr⟩
  | unit =>
    rw [hr] at h
    obtain ⟨m, hm, hb⟩ := h
    exact parseSpan_unit s hs sp m hr hm hb
  | vector =>
    rw [hr] at h
    obtain ⟨a, b, ha, hb, sa, sb⟩ := h
    exact parseSpan_vector s hs sp a b hr ha hb sa sb


/-! ## `parseSet` -/

theorem spanText_props (s : System) (sp : Span) (h : SpanOk s sp) :
    sp.toBytes ≠ [] ∧ ∀ c ∈ sp.toBytes, c ≠ 44 := by
  unfold SpanOk at h
  cases hr : sp.rank with
  | empty =>
    have : sp.toBytes = emptyText := by unfold Span.toBytes; rw [hr]; exact emptyText_eq
    rw [this]
    exact ⟨by decide, by decide⟩
  | unit =>
    rw [hr] at h
    obtain ⟨m, hm, hb⟩ := h
    have htext : sp.toBytes = canon m false := by unfold Span.toBytes; rw [hr, hm]
    obtain ⟨c, r, hcr, _, hall⟩ := canon_bound_cons s false m hb
    rw [htext, hcr]
    exact ⟨by simp, all_okByte_ne _ hall 44 (by decide)⟩
  | vector =>
    rw [hr] at h
    obtain ⟨a, b, ha, hb, sa, sb⟩ := h
    have htext : sp.toBytes = (if sp.minOpen then 40 else 91) :: (canon a false ++ 58 :: canon b false ++ [if sp.maxOpen then 41 else 93]) := by
      unfold Span.toBytes; rw [hr, ha, hb]; simp
    obtain ⟨_, _, hea, _, oka⟩ := canon_bound_cons s false a sa
    obtain ⟨_, _, heb, _, okb⟩ := canon_bound_cons s true b sb
    rw [← hea] at oka
    rw [← heb] at okb
    rw [htext]
    refine ⟨by simp, ?_⟩
    intro c hc
    simp only [List.mem_cons, List.mem_append, List.not_mem_nil, or_false] at hc
    rcases hc with rfl | (hc | rfl | hc) | rfl
    · cases sp.minOpen <;> decide
    · exact all_okByte_ne _ oka 44 (by decide) c hc
    · decide
    · exact all_okByte_ne _ okb 44 (by decide) c hc
    · cases sp.maxOpen <;> decide

/-- One step of `parseSet`'s loop over the comma-separated pieces. -/
def setStep (s : System) (acc : List Span × Nat) (str : Bytes) : Outcome (List Span × Nat) := do
  let (sp, simple) ← parseSpan s str
  Outcome.ok (acc.1 ++ [sp], acc.2 + (if simple then 1 else 2))

theorem parseSet_eq (s : System) (t : Bytes) :
    parseSet s t =
      if t.length < 2 || t.head? != some 123 || t.getLast? != some 125 then .err
      else if t == [123, 125] then .ok ({ sys := s, span := [Span.emptySpan] }, false)
      else ((splitOn 44 ((t.drop 1).dropLast)).foldlM (setStep s) ([], 0)).bind
        (fun r => .ok ({ sys := s, span := r.1 }, r.2 == 1)) := rfl

/-- Pointwise `SpanRe`. -/
inductive AllRe : List Span → List Span → Prop
  | nil : AllRe [] []
  | cons {sp sp' : Span} {l l' : List Span} (h : SpanRe sp sp') (t : AllRe l l') : AllRe (sp :: l) (sp' :: l')

theorem foldl_setStep (s : System) (hs : Generic s = true) (sps : List Span) (h : ∀ sp ∈ sps, SpanOk s sp) :
    ∀ acc : List Span × Nat, ∃ sps' w, (sps.map Span.toBytes).foldlM (setStep s) acc = .ok (acc.1 ++ sps', w) ∧
      AllRe sps sps' := by
  induction sps with
  | nil => intro acc; exact ⟨[], acc.2, by simp [pure], AllRe.nil⟩
  | cons sp rest ih =>
    intro acc
    obtain ⟨sp', simple, hp, hre⟩ := parseSpan_ok s hs sp (h sp (by simp))
    obtain ⟨sps', w, hf, hall⟩ := ih (fun x hx => h x (by simp [hx])) (acc.1 ++ [sp'], acc.2 + (if simple then 1 else 2))
    refine ⟨sp' :: sps', w, ?_, AllRe.cons hre hall⟩
    simp only [List.map_cons, List.foldlM_cons]
    have : setStep s acc sp.toBytes = .ok (acc.1 ++ [sp'], acc.2 + (if simple then 1 else 2)) := by
      unfold setStep; rw [hp]; rfl
    rw [this]
    simp only [List.append_assoc, List.singleton_append] at hf
    exact hf


theorem spanRe_toBytes (sp sp' : Span) (h : SpanRe sp sp') : sp'.toBytes = sp.toBytes := by
  cases h with
  | empty hr => unfold Span.toBytes; rw [hr]; rfl
  | unit m m' hr hm re hc => unfold Span.toBytes; rw [hr, hm]; simpa using hc
  | vector a b a' b' hr ha hb ra rb ca cb => unfold Span.toBytes; rw [hr, ha, hb]; simp [ca, cb]

theorem allRe_toBytes (l l' : List Span) (h : AllRe l l') : l'.map Span.toBytes = l.map Span.toBytes := by
  induction h with
  | nil => rfl
  | cons h _ ih => simp [spanRe_toBytes _ _ h, ih]

theorem joinWith_ne_nil (sep : UInt8) (p : Bytes) (ps : List Bytes) (hp : p ≠ []) : joinWith sep (p :: ps) ≠ [] := by
  cases ps with
  | nil => simpa [joinWith] using hp
  | cons q qs => simp [joinWith, hp]

/-- `parseSet` on the text of a set of well-formed spans. -/
theorem parseSet_toBytes (s : System) (hs : Generic s = true) (S : VSet) (hne : S.span ≠ [])
    (hok : ∀ sp ∈ S.span, SpanOk s sp) :
    ∃ sps' simple, parseSet s S.toBytes = .ok ({ sys := s, span := sps' }, simple) ∧ AllRe S.span sps' := by
  obtain ⟨sps', w, hf, hall⟩ := foldl_setStep s hs S.span hok ([], 0)
  refine ⟨sps', w == 1, ?_, hall⟩
  match hsp : S.span, hne with
  | sp :: rest, _ =>
    rw [hsp] at hf hok
    have hp0 := spanText_props s sp (hok sp (by simp))
    have hjoin : joinWith 44 ((sp :: rest).map Span.toBytes) ≠ [] := joinWith_ne_nil 44 _ _ hp0.1
    have htext : S.toBytes = 123 :: (joinWith 44 ((sp :: rest).map Span.toBytes) ++ [125]) := by
      unfold VSet.toBytes; rw [hsp]; rfl
    rw [parseSet_eq, htext]
    have h1 : ((123 :: (joinWith 44 ((sp :: rest).map Span.toBytes) ++ [125])).length < 2 ||
        (123 :: (joinWith 44 ((sp :: rest).map Span.toBytes) ++ [125])).head? != some 123 ||
        (123 :: (joinWith 44 ((sp :: rest).map Span.toBytes) ++ [125])).getLast? != some 125) = false := by
      have : (123 :: (joinWith 44 ((sp :: rest).map Span.toBytes) ++ [125])).getLast? = some 125 := by
        rw [← List.cons_append, List.getLast?_append]; simp
      rw [this]
      simp
    have h2 : ((123 :: (joinWith 44 ((sp :: rest).map Span.toBytes) ++ [125])) == [123, 125]) = false := by
      rw [beq_eq_false_iff_ne]
      intro e
      cases hj : joinWith 44 ((sp :: rest).map Span.toBytes) with
      | nil => exact hjoin hj
      | cons c r =>
        rw [hj] at e
        have := congrArg List.length e
        simp at this
    have h3 : ((123 :: (joinWith 44 ((sp :: rest).map Span.toBytes) ++ [125])).drop 1).dropLast =
        joinWith 44 ((sp :: rest).map Span.toBytes) := by
      rw [List.drop_one, List.tail_cons, List.dropLast_concat]
    have h4 : splitOn 44 (joinWith 44 ((sp :: rest).map Span.toBytes)) = (sp :: rest).map Span.toBytes := by
      rw [List.map_cons]
      apply splitOn_joinWith
      intro q hq
      rw [← List.map_cons] at hq
      obtain ⟨x, hx, rfl⟩ := List.mem_map.mp hq
      exact (spanText_props s x (hok x hx)).2
    simp only [h1, h2, Bool.false_eq_true, ↓reduceIte, h3, h4, hf]
    rfl


/-! ## Matching with prereleases included -/

/-- The per-span decision of `Set.matchVersion` (copied from the model) for a given flag. -/
def decision (v : Version) (includePre : Bool) (sp : Span) : Option Bool :=
  let pre := includePre
  let r1 : Option Bool :=
    if v.sys == .pypi && sp.rank == .vector then
      let r : Option Bool :=
        if !pre && (v.isPrerelease || isPyPIDev v) then
          let anyPre := optPre sp.min || optPre sp.max
          let anyDev := optDev sp.min || optDev sp.max
          if !(anyPre || anyDev) then none
          else if sp.minOpen then none
          else some true
        else some pre
      match r with
      | none => none
      | some pre' =>
        if isPyPIPost v && !optPost sp.min && sp.minOpen &&
           (match sp.min with | some m => numsEqual v m | none => false) then none
        else if isPyPILocal v then none
        else some pre'
    else some pre
  match r1 with
  | none => none
  | some pre' =>
    if v.sys == .nuget then
      if !pre' && v.isPrerelease then
        if !optPre sp.min && !optPre sp.max then none else some true
      else some pre'
    else some pre'

theorem go_cons (v : Version) (ip : Bool) (sp : Span) (rest : List Span) :
    VSet.matchVersion.go v ip (sp :: rest) =
      match decision v ip sp with
      | none => VSet.matchVersion.go v ip rest
      | some pre' => (sp.contains v pre').bind (fun c => if c then .ok true else VSet.matchVersion.go v ip rest) := rfl

/-- With prereleases included the decision is "evaluate `contains` with `true`" or "skip". -/
theorem decision_true (v : Version) (sp : Span) :
    decision v true sp =
      if (v.sys == .pypi && sp.rank == .vector) = true then
        (if (isPyPIPost v && !optPost sp.min && sp.minOpen &&
           (match sp.min with | some m => numsEqual v m | none => false)) = true then none
         else if isPyPILocal v = true then none else some true)
      else some true := by
  unfold decision
  simp only [Bool.not_true, Bool.false_and, Bool.false_eq_true, ↓reduceIte]
  by_cases h1 : (v.sys == .pypi && sp.rank == .vector) = true
  · simp only [h1, ↓reduceIte]
    by_cases h2 : (isPyPIPost v && !optPost sp.min && sp.minOpen &&
        (match sp.min with | some m => numsEqual v m | none => false)) = true
    · simp only [h2, ↓reduceIte]
    · simp only [h2, Bool.false_eq_true, ↓reduceIte]
      by_cases h3 : isPyPILocal v = true
      · simp only [h3, ↓reduceIte]
      · simp [h3]
  · simp [h1]


theorem isPyPIPost_none (a : Version) (h : a.ext = .none) : isPyPIPost a = false := by
  simp [isPyPIPost, h]

theorem decision_re (v : Version) (sp sp' : Span) (h : SpanRe sp sp') :
    decision v true sp' = decision v true sp := by
  rw [decision_true, decision_true]
  cases h with
  | empty hr => simp [hr, Span.emptySpan]
  | unit m m' hr hm re hc => simp [hr]
  | vector a b a' b' hr ha hb ra rb ca cb =>
    simp only [hr, ha, optPost, isPyPIPost_none a ra.ext, isPyPIPost_none a' ra.ext', numsEqual, ra.num, pad3,
      compareNums_pad_right]

theorem decision_true_cases (v : Version) (sp : Span) :
    decision v true sp = none ∨ decision v true sp = some true := by
  rw [decision_true]
  by_cases h1 : (v.sys == .pypi && sp.rank == .vector) = true
  · simp only [h1, ↓reduceIte]
    by_cases h2 : (isPyPIPost v && !optPost sp.min && sp.minOpen &&
        (match sp.min with | some m => numsEqual v m | none => false)) = true
    · simp only [h2, ↓reduceIte]; simp
    · simp only [h2, Bool.false_eq_true, ↓reduceIte]
      by_cases h3 : isPyPILocal v = true
      · simp only [h3, ↓reduceIte]; simp
      · simp only [h3, Bool.false_eq_true, ↓reduceIte]; simp
  · simp only [h1, Bool.false_eq_true, ↓reduceIte]; simp

theorem contains_re (v : Version) (sp sp' : Span) (h : SpanRe sp sp') :
    sp'.contains v true = sp.contains v true := by
  cases h with
  | empty hr => simp [Span.contains, hr, Span.emptySpan]
  | unit m m' hr hm re hc =>
    simp only [Span.contains, hr, hm, compareOpt, vcompare_reparsed_left v m m' re]
  | vector a b a' b' hr ha hb ra rb ca cb =>
    simp only [Span.contains, hr, ha, hb, vcompare_reparsed_right v a a' ra, vcompare_reparsed_left v b b' rb,
      ↓reduceIte]

theorem go_re (v : Version) (l l' : List Span) (h : AllRe l l') :
    VSet.matchVersion.go v true l' = VSet.matchVersion.go v true l := by
  induction h with
  | nil => rfl
  | @cons sp sp' l l' h _ ih =>
    rw [go_cons, go_cons, decision_re v _ _ h, ih]
    rcases decision_true_cases v sp with hd | hd
    · rw [hd]
    · rw [hd]; simp only []; rw [contains_re v _ _ h]

theorem matchVersion_re (v : Version) (S S' : VSet) (h : AllRe S.span S'.span) :
    S'.matchVersion v true = S.matchVersion v true := by
  unfold VSet.matchVersion
  generalize S.span = l at h
  generalize S'.span = l' at h
  cases h with
  | nil => rfl
  | cons hh ht =>
    simp only [List.isEmpty_cons, Bool.false_eq_true, ↓reduceIte, ite_self]
    exact go_re v _ _ (AllRe.cons hh ht)

/-- **C11 (Proofs level).** The text of a set of well-formed spans parses back to a set that
prints identically and matches the same versions when prereleases are included. -/
theorem set_roundtrip_spans (s : System) (hs : Generic s = true) (S : VSet) (hne : S.span ≠ [])
    (hok : ∀ sp ∈ S.span, SpanOk s sp) :
    ∃ S' simple, parseSet s S.toBytes = .ok (S', simple) ∧ S'.toBytes = S.toBytes ∧
      ∀ v, S'.matchVersion v true = S.matchVersion v true := by
  obtain ⟨sps', simple, hp, hall⟩ := parseSet_toBytes s hs S hne hok
  refine ⟨{ sys := s, span := sps' }, simple, hp, ?_, fun v => matchVersion_re v S _ hall⟩
  unfold VSet.toBytes
  rw [allRe_toBytes _ _ hall]

end DepsDev.Proofs.C11
