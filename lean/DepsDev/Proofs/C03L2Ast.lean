import DepsDev.Proofs.C03L2Good

/-!
# C03 layer L2, AST level: what the constraint parser computes from the comparators

`astSet sys r` is the set `ParseConstraint` builds for a requirement whose alternatives are
comparator lists `r` (npm: `||` of blank-separated comparators; Cargo: one comma-separated
list): every comparator goes through `opVersionToSpan` on its parsed operand (`compSpan`), the
comparators of one alternative are folded with `Intersect` (`altSpans`, as `andList` does), the
alternatives' spans are concatenated and canonicalised (`rangeGo`, as `orList` does), the set
carries the system. `C03L2Parse` proves that `parseConstraint` returns exactly this set whenever
the tokeniser splits the text into the comparators' tokens.

`astMatch_spec`: if every comparator's span is `Good` and contains the release candidate iff
`f c`, then matching the candidate against `astSet` answers "some alternative, all comparators".
-/
namespace DepsDev.Proofs.C03

open DepsDev DepsDev.Semver DepsDev.Ref DepsDev.Proofs.C09

variable {s : System}

/-- The token type `constraintParser.value` passes to `opVersionToSpan`. -/
def compTok (sys : System) (c : Comparator) : Nat :=
  if sys == .cargo then tokOfCargo c.op c.p.nums else tokOf c.op

/-- The span of one comparator. -/
def compSpan (sys : System) (c : Comparator) : Outcome Span :=
  opVersionToSpan (compTok sys c) (embedPartial sys c.p)

/-- `andList` after the first value: intersect the set with each further comparator's span. -/
def altGo (sys : System) (set : List Span) : List Comparator → Outcome (List Span)
  | [] => .ok set
  | c :: cs => do
    let sp ← compSpan sys c
    let r ← VSet.intersect { sys := .default, span := set } { sys := .default, span := [sp] }
    altGo sys r.span cs

/-- `andList` on one alternative. -/
def altSpans (sys : System) : List Comparator → Outcome (List Span)
  | [] => .ok []
  | c :: cs => do
    let sp ← compSpan sys c
    altGo sys [sp] cs

/-- `orList`: append the alternatives' spans, then `canon`. -/
def rangeGo (sys : System) (acc : List Span) : List (List Comparator) → Outcome (List Span)
  | [] => canonSpans acc
  | cs :: rest => do
    let set ← altSpans sys cs
    rangeGo sys (acc ++ set) rest

/-- The set of `ParseConstraint`. -/
def astSet (sys : System) (r : List (List Comparator)) : Outcome VSet := do
  let spans ← rangeGo sys [] r
  .ok (if spans.isEmpty then { sys := .default, span := [] } else { sys := sys, span := spans })

/-- `Constraint.Match` on the parsed candidate (npm, Cargo: release mode). -/
def astMatch (sys : System) (r : List (List Comparator)) (x : SemVerAst) : Outcome Bool := do
  let S ← astSet sys r
  S.matchVersion (embedVer sys x) false

/-- What layer L1 (plus `Good`) provides for one comparator and one candidate `v`. -/
def CompSpec (sys : System) (v : Version) (f : Comparator → Bool) (c : Comparator) : Prop :=
  ∃ sp, compSpan sys c = .ok sp ∧ Good sys sp ∧ has sys sp v = f c

/-- `sps` are the spans of the comparators `cs`, in order. -/
inductive SpansOf (sys : System) : List Comparator → List Span → Prop
  | nil : SpansOf sys [] []
  | cons {c : Comparator} {sp : Span} {cs : List Comparator} {sps : List Span} :
      compSpan sys c = .ok sp → SpansOf sys cs sps → SpansOf sys (c :: cs) (sp :: sps)

theorem altGo_eq_andFold (sys : System) : ∀ (cs : List Comparator) (set : List Span) (sps : List Span),
    SpansOf sys cs sps → altGo sys set cs = andFold set sps := by
  intro cs
  induction cs with
  | nil =>
    intro set sps h
    cases h
    rfl
  | cons c cs ih =>
    intro set sps h
    cases h with
    | cons h1 h2 =>
      rename_i sp sps'
      simp only [altGo, andFold, h1, bind, Outcome.bind]
      cases VSet.intersect { sys := .default, span := set } { sys := .default, span := [sp] } with
      | ok r => exact ih r.span sps' h2
      | err => rfl
      | panic => rfl

/-- **One alternative**: the AND list yields a single `Good` span that contains `v` iff every
comparator's span does (any candidate `v`, inclusive interval membership). -/
theorem altSpans_spec (sys : System) (v : Version) (f : Comparator → Bool) (cs : List Comparator) (hne : cs ≠ [])
    (h : ∀ c ∈ cs, CompSpec sys v f c) :
    ∃ r, altSpans sys cs = .ok [r] ∧ Good sys r ∧ has sys r v = cs.all f := by
  cases cs with
  | nil => exact absurd rfl hne
  | cons c cs =>
    obtain ⟨sp, e, hg, hv⟩ := h c List.mem_cons_self
    -- the spans of the remaining comparators
    have hrest : ∃ sps : List Span, SpansOf sys cs sps ∧
        (∀ x ∈ sps, SpanOK sys x ∧ AllB TidyR x) ∧ sps.all (fun x => has sys x v) = cs.all f := by
      have h' : ∀ c' ∈ cs, CompSpec sys v f c' := fun c' hc' => h c' (List.mem_cons_of_mem _ hc')
      clear e hg hv h
      induction cs with
      | nil => exact ⟨[], .nil, by simp, rfl⟩
      | cons d ds ih =>
        obtain ⟨sd, ed, gd, vd⟩ := h' d List.mem_cons_self
        obtain ⟨sps, f2, g2, v2⟩ := ih (by simp) (fun c' hc' => h' c' (List.mem_cons_of_mem _ hc'))
        refine ⟨sd :: sps, .cons ed f2, ?_, ?_⟩
        · intro x hx
          rcases List.mem_cons.mp hx with rfl | hx
          · exact gd
          · exact g2 x hx
        · simp only [List.all_cons, vd, v2]
    obtain ⟨sps, f2, g2, v2⟩ := hrest
    obtain ⟨r, er, gr, vr⟩ := andFold_spec (s := sys) TidyR sps sp hg g2
    refine ⟨r, ?_, gr, ?_⟩
    · simp only [altSpans, e, bind, Outcome.bind]
      rw [altGo_eq_andFold sys cs [sp] sps f2]
      exact er
    · rw [vr v, hv, v2, List.all_cons]

/-- **The OR list**: the accumulated spans plus one single-span set per alternative, canonicalised. -/
theorem rangeGo_spec (sys : System) (hs : sys ≠ .maven) (v : Version) (hb : Bounded v) (hpre : v.pre = [])
    (f : Comparator → Bool) :
    ∀ (r : List (List Comparator)) (acc : List Span), (∀ cs ∈ r, cs ≠ []) →
      (∀ cs ∈ r, ∀ c ∈ cs, CompSpec sys v f c) → (∀ x ∈ acc, Good sys x) → (acc ≠ [] ∨ r ≠ []) →
      ∃ out, rangeGo sys acc r = .ok out ∧ out ≠ [] ∧ (∀ x ∈ out, SpanOK sys x) ∧
        anyHas sys out v = (anyHas sys acc v || r.any (fun cs => cs.all f)) := by
  intro r
  induction r with
  | nil =>
    intro acc _ _ hacc hne
    obtain ⟨out, e, h1, h2, h3⟩ := orCanon_spec (s := sys) hs acc hacc
    have hne' : acc ≠ [] := by
      rcases hne with h | h
      · exact h
      · exact absurd rfl h
    exact ⟨out, e, h2 hne', h1, by rw [h3 v hb hpre]; simp⟩
  | cons cs rest ih =>
    intro acc hnil hspec hacc _
    obtain ⟨sp, e, hg, hv⟩ := altSpans_spec sys v f cs (hnil cs List.mem_cons_self) (hspec cs List.mem_cons_self)
    obtain ⟨out, e2, h1, h2, h3⟩ := ih (acc ++ [sp]) (fun cs' h => hnil cs' (List.mem_cons_of_mem _ h))
      (fun cs' h => hspec cs' (List.mem_cons_of_mem _ h))
      (by
        intro x hx
        rcases List.mem_append.mp hx with hx | hx
        · exact hacc x hx
        · rw [List.mem_singleton] at hx; subst hx; exact hg)
      (Or.inl (by simp))
    refine ⟨out, ?_, h1, h2, ?_⟩
    · simp only [rangeGo, e, bind, Outcome.bind]
      exact e2
    · rw [h3, anyHas_append, anyHas_cons, anyHas_nil, Bool.or_false, hv, List.any_cons, Bool.or_assoc]

/-- **L2 on the AST level**: matching a release candidate against the parsed set answers
"some alternative all of whose comparators' spans contain it". -/
theorem astMatch_spec (sys : System) (hs : Sys4 sys) (r : List (List Comparator)) (hne : r ≠ [])
    (hnil : ∀ cs ∈ r, cs ≠ []) (x : SemVerAst) (hx : x.pre = [])
    (hM : x.major < B∞) (hm : x.minor < B∞) (hp : x.patch < B∞) (f : Comparator → Bool)
    (h : ∀ cs ∈ r, ∀ c ∈ cs, CompSpec sys (embedVer sys x) f c) :
    ∃ S, astSet sys r = .ok S ∧ S.sys = sys ∧ SetOK sys S ∧
      S.matchVersion (embedVer sys x) false = .ok (r.any (fun cs => cs.all f)) := by
  have hb : Bounded (embedVer sys x) := by
    refine ⟨by simp [embedVer], ?_⟩
    intro y hy
    simp only [embedVer, List.mem_cons, List.not_mem_nil, or_false] at hy
    rw [inf_val]
    have k : ∀ n : Nat, n < B∞ → (0 : Int) ≤ (n : Int) ∧ (n : Int) ≤ (9223372036854775807 : Int) := by
      intro n hn; constructor <;> omega
    rcases hy with rfl | rfl | rfl
    · exact k _ hM
    · exact k _ hm
    · exact k _ hp
  have hpre : (embedVer sys x).pre = [] := by simp [embedVer, embedPre, hx]
  obtain ⟨out, e, hne', hok, hv⟩ := rangeGo_spec sys hs.ne.1 (embedVer sys x) hb hpre f r [] hnil h (by simp) (Or.inr hne)
  have hemp : out.isEmpty = false := by
    cases out with
    | nil => exact absurd rfl hne'
    | cons _ _ => rfl
  refine ⟨{ sys := sys, span := out }, ?_, rfl, ⟨hne', hok⟩, ?_⟩
  · simp only [astSet, e, bind, Outcome.bind, hemp, Bool.false_eq_true, ↓reduceIte]
  · rw [matchVersion_rel hs sys hne' hok ⟨rfl, rfl⟩ (by simp [embedVer, hx]), hv]
    simp

end DepsDev.Proofs.C03
