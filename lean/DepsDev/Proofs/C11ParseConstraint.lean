import DepsDev.Proofs.C11Constraint

/-!
# C11 — the tie, part 4: `orList` and `ParseConstraint`

`parseConstraint_spec`: for a SemVer-family system the set of every accepted constraint is a
non-empty list of spans satisfying `SpanInv`. Non-emptiness uses that the trimmed constraint
text cannot start with a blank the tokeniser skips (`trimSpace_head`), that `token` reports the
end of input only there (`token_eof`), and that a parser that produced no span without error
consumed nothing.
-/
namespace DepsDev.Proofs.C11
open DepsDev DepsDev.Semver DepsDev.Proofs.C10 DepsDev.Proofs.Digits

theorem orList_go_succ (p : CP) (spans : List Span) (lwo : Bool) (k : Nat) :
    cpOrList.go p spans lwo (k + 1) =
      (cpAndList p).bind (fun (set, ok, p1) =>
        if !ok then (if lwo then .ok ([], p1.setErr) else cpOrList.fin p1 spans)
        else
          if p.sys == .nuget && (spans ++ set).length > 1 then .ok ([], p1.setErr) else
          (token p.sys p1.rest).bind (fun (typ, _, r) =>
            if typ == (if p.sys == .maven || p.sys == .nuget then tokComma else tokOr)
            then cpOrList.go { p1 with rest := r } (spans ++ set) true k
            else cpOrList.fin p1 (spans ++ set))) := rfl

/-- What a successful `orList` call guarantees. -/
def OLInv (s : System) (p0 : CP) (o : Outcome (List Span × CP)) : Prop :=
  ∀ spans p', o = .ok (spans, p') →
    AllInv s spans ∧ p'.sys = s ∧ (p'.err = false → p0.err = false) ∧
    (p'.err = false → spans = [] → p'.rest = p0.rest)

theorem olInv_err (s : System) (p0 p' : CP) (hs : p'.sys = s) : OLInv s p0 (.ok ([], p'.setErr)) := by
  intro a b h
  injection h with h
  injection h with e1 e2
  subst e1 e2
  exact ⟨by simp [AllInv], by simp [CP.setErr, hs], by simp [CP.setErr], by simp [CP.setErr]⟩

theorem orList_fin_spec (s : System) (p0 p : CP) (spans : List Span) (hp : p.sys = s) (hsp : AllInv s spans)
    (he : p.err = false → p0.err = false) (hinv : p.err = false → spans = [] → p.rest = p0.rest) :
    OLInv s p0 (cpOrList.fin p spans) := by
  unfold cpOrList.fin
  split
  · intro _ _ h; cases h
  · exact olInv_err s p0 p hp
  · rename_i sp hc
    obtain ⟨g1, g2⟩ := canonSpans_spec s spans sp hc hsp
    intro a b h
    injection h with h
    injection h with e1 e2
    subst e1 e2
    refine ⟨g1, hp, he, ?_⟩
    intro herr hnil
    apply hinv herr
    apply Classical.byContradiction
    intro hne
    exact g2 hne hnil

theorem orList_go_spec (s : System) (hs : Generic s = true) (p0 : CP) (fuel : Nat) :
    ∀ (p : CP) (spans : List Span) (lwo : Bool), p.sys = s → AllInv s spans → (p.err = false → p0.err = false) →
      (p.err = false → spans = [] → lwo = false ∧ p.rest = p0.rest) →
      OLInv s p0 (cpOrList.go p spans lwo fuel) := by
  induction fuel with
  | zero =>
    intro p spans lwo hp hsp he hinv
    simp only [cpOrList.go]
    exact orList_fin_spec s p0 p spans hp hsp he (fun h1 h2 => (hinv h1 h2).2)
  | succ k ih =>
    intro p spans lwo hp hsp he hinv
    rw [orList_go_succ]
    cases ha : cpAndList p with
    | err => intro _ _ h; cases h
    | panic => intro _ _ h; cases h
    | ok res =>
      obtain ⟨set, ok, p1⟩ := res
      obtain ⟨a1, a2, a3, a4, a5⟩ := cpAndList_spec s hs p p hp id set ok p1 ha
      have he1 : p1.err = false → p0.err = false := fun h => he (a3 h)
      simp only [Outcome.bind]
      split
      · rename_i hnok
        have hok : ok = false := by simpa using hnok
        split
        · exact olInv_err s p0 p1 a2
        · rename_i hlwo
          apply orList_fin_spec s p0 p1 spans a2 hsp he1
          intro herr hnil
          rw [a5 hok herr]
          exact (hinv (a3 herr) hnil).2
      · rename_i hnok
        have hok : ok = true := by simpa using hnok
        have hsp' : AllInv s (spans ++ set) := by
          intro y hy
          simp only [List.mem_append] at hy
          rcases hy with hy | hy
          · exact hsp y hy
          · exact a1 y hy
        have hne' : p1.err = false → spans ++ set ≠ [] := by
          intro herr
          have := a4 hok herr
          simp [this]
        split
        · exact olInv_err s p0 p1 a2
        · cases ht : token p.sys p1.rest with
          | err => intro _ _ h; cases h
          | panic => intro _ _ h; cases h
          | ok t =>
            obtain ⟨typ, tok, r⟩ := t
            simp only
            generalize (if (p.sys == System.maven || p.sys == System.nuget) = true then tokComma else tokOr) = orTok
            split
            · exact ih { p1 with rest := r } (spans ++ set) true a2 hsp' he1 (fun herr hnil => absurd hnil (hne' herr))
            · exact orList_fin_spec s p0 p1 _ a2 hsp' he1 (fun herr hnil => absurd hnil (hne' herr))

theorem cpOrList_spec (s : System) (hs : Generic s = true) (p : CP) (hp : p.sys = s) : OLInv s p (cpOrList p) := by
  unfold cpOrList
  exact orList_go_spec s hs p _ p [] false hp (by simp [AllInv]) id (fun _ _ => ⟨rfl, rfl⟩)

/-! ## The trimmed constraint text does not start with a blank the tokeniser would skip -/

/-- Every element of `runes b`: non-empty bytes, and an ASCII first byte is the rune itself. -/
theorem runes_go_elem (fuel : Nat) : ∀ (b : Bytes) (e : Nat × Bytes), e ∈ Bytes.runes.go b fuel →
    ∃ c t, e.2 = c :: t ∧ (c < 0x80 → e.1 = c.toNat) := by
  induction fuel with
  | zero => intro b e h; simp [Bytes.runes.go] at h
  | succ k ih =>
    intro b e h
    cases b with
    | nil => simp [Bytes.runes.go] at h
    | cons c t =>
      simp only [Bytes.runes.go, List.mem_cons] at h
      rcases h with rfl | h
      · refine ⟨c, ((c :: t).take (if (Bytes.decodeRune (c :: t)).2 == 0 then 1 else (Bytes.decodeRune (c :: t)).2)).tail, ?_, ?_⟩
        · simp only
          have hw : 0 < (if (Bytes.decodeRune (c :: t)).2 == 0 then 1 else (Bytes.decodeRune (c :: t)).2) := by
            split
            · omega
            · rename_i h0
              have : (Bytes.decodeRune (c :: t)).2 ≠ 0 := by simpa using h0
              omega
          obtain ⟨w, hw'⟩ : ∃ w, (if (Bytes.decodeRune (c :: t)).2 == 0 then 1 else (Bytes.decodeRune (c :: t)).2) = w + 1 :=
            ⟨_, (Nat.succ_pred_eq_of_pos hw).symm⟩
          rw [hw']
          simp
        · intro hc
          simp only [decodeRune_ascii c t hc]
      · exact ih _ e h

theorem ws_is_space : ∀ c : UInt8, c < 0x7F → byteTypeOf c.toNat = Gen.SemverTables.tWS → Bytes.isSpaceRune c.toNat = true := by
  apply forall_uint8; decide +kernel

theorem head?_of_prefix {α} {l₁ l₂ : List α} (h : l₁ <+: l₂) (hne : l₁ ≠ []) : l₁.head? = l₂.head? := by
  obtain ⟨t, rfl⟩ := h
  cases l₁ with
  | nil => exact absurd rfl hne
  | cons a as => rfl

/-- `strings.TrimSpace` leaves nothing, or text whose first byte is not a blank of the tokeniser. -/
theorem trimSpace_head (b : Bytes) (c : UInt8) (t : Bytes) (h : Bytes.trimSpace b = c :: t) :
    ¬ (c < 0x7F ∧ byteTypeOf c.toNat = Gen.SemverTables.tWS) := by
  unfold Bytes.trimSpace at h
  simp only at h
  generalize hrs1 : (Bytes.runes b).dropWhile (fun p => Bytes.isSpaceRune p.1) = rs1 at h
  generalize hrs2 : (rs1.reverse.dropWhile (fun p => Bytes.isSpaceRune p.1)).reverse = rs2 at h
  have hpre : rs2 <+: rs1 := by
    rw [← hrs2, ← List.reverse_suffix, List.reverse_reverse]
    exact List.dropWhile_suffix _
  cases rs2 with
  | nil => simp at h
  | cons e es =>
    have hhead : rs1.head? = some e := by
      rw [← head?_of_prefix hpre (by simp)]; rfl
    have hnot : Bytes.isSpaceRune e.1 = false := by
      have := List.head?_dropWhile_not (fun p : Nat × Bytes => Bytes.isSpaceRune p.1) (Bytes.runes b)
      rw [hrs1, hhead] at this
      exact this
    have hmem : e ∈ Bytes.runes b := by
      have h1 : e ∈ rs1 := List.mem_of_mem_head? hhead
      rw [← hrs1] at h1
      exact (List.dropWhile_suffix _).subset h1
    obtain ⟨c', t', he, hr⟩ := runes_go_elem _ b e hmem
    simp only [List.flatMap_cons, he, List.cons_append, List.cons.injEq] at h
    obtain ⟨rfl, _⟩ := h
    intro ⟨hc, hws⟩
    have hc80 : c' < 0x80 := by
      rw [UInt8.lt_iff_toNat_lt] at hc ⊢
      have : (0x7F : UInt8).toNat = 127 := rfl
      have : (0x80 : UInt8).toNat = 128 := rfl
      omega
    have := ws_is_space c' hc hws
    rw [← hr hc80, hnot] at this
    cases this


/-! ## `token` returns `tokEOF` only at the end of the input -/

theorem operators_no_eof :
    Gen.SemverTables.operators.all (fun m => m.all (fun p => p.2 != tokEOF)) = true := by decide +kernel

theorem opLookup_ne_eof (sys : System) (m : OpSet) (h : opSetOf sys = .ok m) (k : Bytes) : opLookup m k ≠ tokEOF := by
  unfold opSetOf at h
  split at h
  · rename_i m' hm
    injection h with h
    subst h
    have hmem : m' ∈ Gen.SemverTables.operators := List.mem_of_getElem? hm
    have hall := List.all_eq_true.mp operators_no_eof m' hmem
    unfold opLookup
    split
    · rename_i k' t hf
      have := List.mem_of_find?_eq_some hf
      have := List.all_eq_true.mp hall _ this
      simpa using this
    · decide
  · cases h

theorem classifyVS_cases (sys : System) (tok : Bytes) (start : Bool) (nd : Nat) :
    classifyVS sys tok start nd = tokVersion ∨ classifyVS sys tok start nd = tokWildcard := by
  fun_induction classifyVS sys tok start nd <;> simp_all

theorem token_eof (sys : System) (str t r : Bytes) (h : token sys str = .ok (tokEOF, t, r)) : skipWS str = [] := by
  unfold token at h
  split at h
  · assumption
  · exfalso
    rename_i s hd tl hsk
    simp only [bind, Outcome.bind] at h
    split at h
    · injection h with h
      injection h with h _
      exact absurd h (by decide)
    · split at h
      · rename_i ops hops
        split at h
        · injection h with h
          injection h with h _
          exact opLookup_ne_eof sys ops hops _ h
        · split at h
          · split at h
            · injection h with h
              injection h with h _
              exact opLookup_ne_eof sys ops hops _ h
            · injection h with h
              injection h with h _
              rcases classifyVS_cases sys _ true 0 with h' | h' <;> rw [h'] at h <;> exact absurd h (by decide)
          · split at h
            · split at h
              · split at h <;> (injection h with h; injection h with h _; exact absurd h (by decide))
              · injection h with h; injection h with h _; exact absurd h (by decide)
            · injection h with h; injection h with h _; exact absurd h (by decide)
      · cases h
      · cases h

theorem skipWS_cons (c : UInt8) (t : Bytes) (h : ¬ (c < 0x7F ∧ byteTypeOf c.toNat = Gen.SemverTables.tWS)) :
    skipWS (c :: t) = c :: t := by
  unfold skipWS
  have : (decide (c < 0x7F) && byteTypeOf c.toNat == Gen.SemverTables.tWS) = false := by
    by_cases h1 : c < 0x7F
    · by_cases h2 : byteTypeOf c.toNat = Gen.SemverTables.tWS
      · exact absurd ⟨h1, h2⟩ h
      · simp [h2]
    · simp [h1]
  simp [this]


/-! ## `ParseConstraint` -/

theorem geText_eq : ">=0.0.0".toUTF8.toList = [62, 61, 48, 46, 48, 46, 48] := by rw [toList_eq]; rfl

/-- **The tie for C11 (invariant part).** For a SemVer-family system, the set of every constraint
`ParseConstraint` accepts is a non-empty list of spans whose bounds are AST images. -/
theorem parseConstraint_spec (s : System) (hs : Generic s = true) (b : Bytes) (c : Constraint)
    (h : parseConstraint s b = .ok c) : AllInv s c.set.span ∧ c.set.span ≠ [] ∧ c.set.sys = s := by
  unfold parseConstraint at h
  simp only [bind, Outcome.bind] at h
  split at h
  · cases h
  · -- the text handed to the lexer: non-empty, not starting with a blank
    have hlex : ∃ c0 t0, (if (Bytes.trimSpace b).isEmpty then ">=0.0.0".toUTF8.toList else Bytes.trimSpace b) = c0 :: t0 ∧
        ¬ (c0 < 0x7F ∧ byteTypeOf c0.toNat = Gen.SemverTables.tWS) := by
      split
      · rw [geText_eq]; exact ⟨62, _, rfl, by decide⟩
      · rename_i hne
        cases ht : Bytes.trimSpace b with
        | nil => rw [ht] at hne; simp at hne
        | cons c0 t0 => exact ⟨c0, t0, rfl, trimSpace_head b c0 t0 ht⟩
    generalize (if (Bytes.trimSpace b).isEmpty then ">=0.0.0".toUTF8.toList else Bytes.trimSpace b) = lexStr at h hlex
    split at h
    · -- Go
      rename_i hgo
      have hsgo : s = .go := by simpa using hgo
      subst hsgo
      split at h
      · cases h
      · cases h
      · rename_i lo hlo
        have hbl := parse_bvw .go hs lexStr lo hlo
        split at h
        · rename_i hi1 hhi1
          split at h
          · rename_i hi2 hhi2
            split at h
            · rename_i sp hsp
              injection h with h
              subst h
              have h1 : BVw .go hi1 := by
                split at hhi1
                · exact incN_bvw hbl 0 hhi1
                · injection hhi1 with e; subst e; exact hbl
              have h2 := incN_bvw h1 0 hhi2
              have h3 : BVw .go ((hi2.setMinor 0).setPatch 0) :=
                setNum_bvw (setNum_bvw h2 1 _ (Or.inl (by omega)) zero_ok) 2 _ (Or.inl (by omega)) zero_ok
              exact ⟨allInv_one (newSpan_spec .go hs _ _ _ _ hbl h3 sp hsp), by simp, rfl⟩
            · cases h
            · cases h
          · cases h
          · cases h
        · cases h
        · cases h
    · -- the recursive-descent parser
      split at h
      · rename_i p0 hp0
        have hp0s : p0.sys = s ∧ p0.rest = lexStr := by
          split at hp0
          · split at hp0
            · injection hp0 with hp0
              subst hp0
              split <;> simp [CP.setErr]
            · cases hp0
            · cases hp0
          · injection hp0 with hp0; subst hp0; exact ⟨rfl, rfl⟩
        split at h
        · rename_i res hres
          obtain ⟨spans, p1⟩ := res
          obtain ⟨o1, o2, o3, o4⟩ := cpOrList_spec s hs p0 hp0s.1 spans p1 hres
          simp only at h
          split at h
          · rename_i tk htk
            obtain ⟨typ, tok, r⟩ := tk
            by_cases ht : (typ != tokEOF) = true
            · simp only [ht, ↓reduceIte, CP.setErr] at h
              cases h
            · simp only [ht, Bool.false_eq_true, ↓reduceIte] at h
              split at h
              · cases h
              rename_i herr
              injection h with h
              subst h
              have htyp : typ = tokEOF ∧ p1.err = false := ⟨by simpa using ht, by simpa using herr⟩
              have hne : spans ≠ [] := by
                intro hnil
                have hrest := o4 htyp.2 hnil
                rw [hrest, hp0s.2, htyp.1] at htk
                have := token_eof s lexStr tok r htk
                obtain ⟨c0, t0, hl, hws⟩ := hlex
                rw [hl, skipWS_cons c0 t0 hws] at this
                cases this
              have : spans.isEmpty = false := by simpa using hne
              simp only [this, Bool.false_eq_true, ↓reduceIte]
              exact ⟨o1, hne, trivial⟩
          · cases h
          · cases h
        · cases h
        · cases h
      · cases h
      · cases h

end DepsDev.Proofs.C11
