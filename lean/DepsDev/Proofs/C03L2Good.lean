import DepsDev.Proofs.C03L2Sets
import DepsDev.Proofs.C03Cargo

/-!
# C03 layer L2: the span of one comparator is well-formed and its release bounds are tidy

For every operator and operand shape of layer L1, whatever span `opVersionToSpan` returns is
`Good`: `SpanOK` (C09's invariant, established by `newSpan`) and every bound without prerelease
tag is `Tidy` (at most three numbers in `[0,∞]`, an `∞` minor followed by an `∞` patch) — the
property under which release candidates never fall into a successor seam of `canon`.
-/
namespace DepsDev.Proofs.C03

open DepsDev DepsDev.Semver DepsDev.Ref DepsDev.Proofs.C09

set_option linter.unusedSimpArgs false

variable {s : System}

/-- Well-formed span whose release bounds are tidy. -/
def Good (s : System) (sp : Span) : Prop := SpanOK s sp ∧ AllB TidyR sp

/-- Whatever span the computation returns is `Good`. -/
def GoodOut (s : System) (o : Outcome Span) : Prop := ∀ sp, o = .ok sp → Good s sp

theorem goodOut_empty : GoodOut s (.ok Span.emptySpan) := by
  intro sp h
  injection h with h
  subst h
  exact ⟨spanOK_empty, ⟨fun a h => (by cases h), fun b h => (by cases h)⟩⟩

theorem goodOut_err : GoodOut s .err := fun _ h => by cases h

theorem nmin_eq_normMin (a : Version) : nmin a = normMin a := rfl
theorem nmax_eq_normMax (a : Version) : nmax a = normMax a := rfl

/-- The bounds `newSpan` stores are the normalised arguments. -/
theorem newSpan_bounds {a b : Version} {ao bo : Bool} {sp : Span} (h : newSpan a ao b bo = .ok sp) :
    (∀ x, sp.min = some x → x = nmin a) ∧ (∀ y, sp.max = some y → y = nmin a ∨ y = nmax b) := by
  rw [newSpan_unfold] at h
  simp only [bind, Outcome.bind] at h
  split at h
  · split at h
    · injection h with h; subst h
      exact ⟨fun x hx => (by cases hx), fun y hy => (by cases hy)⟩
    · split at h
      · injection h with h; subst h
        exact ⟨fun x hx => (by injection hx with hx; exact hx.symm),
          fun y hy => (by injection hy with hy; exact Or.inl hy.symm)⟩
      · split at h
        · split at h
          · injection h with h; subst h
            exact ⟨fun x hx => (by injection hx with hx; exact hx.symm),
              fun y hy => (by injection hy with hy; exact Or.inr hy.symm)⟩
          · cases h
        · cases h
        · cases h
  · cases h
  · cases h

theorem goodOut_newSpan (hs : Sys4 s) {a b : Version} (ha : VG s a) (hb : VG s b) (ao bo : Bool)
    (ta : TidyR (nmin a)) (tb : TidyR (nmax b)) : GoodOut s (newSpan a ao b bo) := by
  intro sp h
  refine ⟨newSpan_spanOK ?_ ha hb ao bo h, ?_⟩
  · rcases hs with h | h | h | h <;> subst h <;> decide
  · obtain ⟨h1, h2⟩ := newSpan_bounds h
    refine ⟨fun x hx => ?_, fun y hy => ?_⟩
    · rw [h1 x hx]; exact ta
    · rcases h2 y hy with e | e
      · rw [e]; exact ta
      · rw [e]; exact tb

theorem sys4_npm : Sys4 .npm := Or.inr (Or.inl rfl)
theorem sys4_cargo : Sys4 .cargo := Or.inr (Or.inr (Or.inl rfl))

/-- `TidyR` with the numbers typed as `Int` (so that `omega` sees the inequalities). -/
theorem tidyR_iff (v : Version) : TidyR v ↔ (v.pre = [] → v.num.length ≤ 3 ∧
    (∀ x ∈ v.num, (0 : Int) ≤ (x : Int) ∧ (x : Int) ≤ (9223372036854775807 : Int)) ∧
    ((v.num.getD 1 0 : Int) = (9223372036854775807 : Int) → (v.num.getD 2 0 : Int) = (9223372036854775807 : Int))) := by
  unfold TidyR Tidy Bounded Version.getNum
  rw [inf_val]
  simp only [and_assoc]

/-- Close a `TidyR` goal on an explicit normalised bound. -/
macro "tidy_close" : tactic => `(tactic|
  (simp [tidyR_iff, nmin, nmax, Version.major, Version.getNum, Version.setTail, Version.atLeast3, range3,
     wild_val, inf_val, List.findIdx?_cons, minVersion, natCast_beq_wild, natCast_ne_wild, natCast_succ_beq_wild,
     natCast_succ_ne_wild, Gen.SemverTables.minPre, embedPre, *] <;> (try simp only [Value] at *) <;> omega))

macro "good_npm_fin" : tactic => `(tactic| first
  | with_reducible exact goodOut_empty
  | with_reducible exact goodOut_err
  | ((with_reducible refine goodOut_newSpan sys4_npm ?_ ?_ _ _ ?_ ?_) <;> first | exact ⟨rfl, rfl⟩ | tidy_close))

macro "good_npm" : tactic => `(tactic| first
  | good_npm_fin
  | (split <;> good_npm_fin)
  | (split <;> split <;> good_npm_fin))

/-- The statement for one npm operator. -/
def GoodNpm (op : Op) : Prop :=
  ∀ (nums : List XR), TShape nums → ∀ (pre : List Ident), (pre ≠ [] → nums.length = 3 ∧ XR.x ∉ nums) →
    GoodOut .npm (opVersionToSpan (tokOf op) (embedPartial .npm ⟨nums, pre⟩))

macro "good_npm_all" : tactic => `(tactic| (
  intro nums hs pre hpre
  cases hs with
  | n3 a b c ha hb hc =>
    have ia := natCast_beq_inf a ha; have ja := value_inc_nat a ha; have ka := natCast_succ_ne_inf a ha; have ib := natCast_beq_inf b hb; have jb := value_inc_nat b hb; have kb := natCast_succ_ne_inf b hb; have ic := natCast_beq_inf c hc; have jc := value_inc_nat c hc; have kc := natCast_succ_ne_inf c hc
    by_cases h0 : a = 0 <;> by_cases h1 : b = 0 <;> by_cases h2 : c = 0 <;> cases pre <;> l1_eval <;> good_npm
  | nnx a b ha hb =>
    have ia := natCast_beq_inf a ha; have ja := value_inc_nat a ha; have ka := natCast_succ_ne_inf a ha; have ib := natCast_beq_inf b hb; have jb := value_inc_nat b hb; have kb := natCast_succ_ne_inf b hb
    have hp : pre = [] := pre_ne_nil_of hpre (by simp)
    subst hp
    by_cases h0 : a = 0 <;> by_cases h1 : b = 0 <;> l1_eval <;> good_npm
  | n2 a b ha hb =>
    have ia := natCast_beq_inf a ha; have ja := value_inc_nat a ha; have ka := natCast_succ_ne_inf a ha; have ib := natCast_beq_inf b hb; have jb := value_inc_nat b hb; have kb := natCast_succ_ne_inf b hb
    have hp : pre = [] := pre_ne_nil_of hpre (by simp)
    subst hp
    by_cases h0 : a = 0 <;> by_cases h1 : b = 0 <;> l1_eval <;> good_npm
  | nxx a ha =>
    have ia := natCast_beq_inf a ha; have ja := value_inc_nat a ha; have ka := natCast_succ_ne_inf a ha
    have hp : pre = [] := pre_ne_nil_of hpre (by simp)
    subst hp
    by_cases h0 : a = 0 <;> l1_eval <;> good_npm
  | nx a ha =>
    have ia := natCast_beq_inf a ha; have ja := value_inc_nat a ha; have ka := natCast_succ_ne_inf a ha
    have hp : pre = [] := pre_ne_nil_of hpre (by simp)
    subst hp
    by_cases h0 : a = 0 <;> l1_eval <;> good_npm
  | n1 a ha =>
    have ia := natCast_beq_inf a ha; have ja := value_inc_nat a ha; have ka := natCast_succ_ne_inf a ha
    have hp : pre = [] := pre_ne_nil_of hpre (by simp)
    subst hp
    by_cases h0 : a = 0 <;> l1_eval <;> good_npm
  | x1 =>
    have hp : pre = [] := pre_ne_nil_of hpre (by simp)
    subst hp
    l1_eval <;> good_npm
  | xx =>
    have hp : pre = [] := pre_ne_nil_of hpre (by simp)
    subst hp
    l1_eval <;> good_npm
  | xxx =>
    have hp : pre = [] := pre_ne_nil_of hpre (by simp)
    subst hp
    l1_eval <;> good_npm))


macro "good_cargo_fin" : tactic => `(tactic| first
  | with_reducible exact goodOut_empty
  | with_reducible exact goodOut_err
  | ((with_reducible refine goodOut_newSpan sys4_cargo ?_ ?_ _ _ ?_ ?_) <;> first | exact ⟨rfl, rfl⟩ | tidy_close))

macro "good_cargo" : tactic => `(tactic| first
  | good_cargo_fin
  | (split <;> good_cargo_fin)
  | (split <;> split <;> good_cargo_fin))

/-- The statement for one Cargo operator. -/
def GoodCargo (op : Op) : Prop :=
  ∀ (nums : List XR), TShape nums → ∀ (pre : List Ident), (pre ≠ [] → nums.length = 3 ∧ XR.x ∉ nums) →
    GoodOut .cargo (opVersionToSpan (tokOfCargo op nums) (embedPartial .cargo ⟨nums, pre⟩))

macro "good_cargo_all" : tactic => `(tactic| (
  intro nums hs pre hpre
  cases hs with
  | n3 a b c ha hb hc =>
    have ia := natCast_beq_inf a ha; have ja := value_inc_nat a ha; have ka := natCast_succ_ne_inf a ha; have ib := natCast_beq_inf b hb; have jb := value_inc_nat b hb; have kb := natCast_succ_ne_inf b hb; have ic := natCast_beq_inf c hc; have jc := value_inc_nat c hc; have kc := natCast_succ_ne_inf c hc
    by_cases h0 : a = 0 <;> by_cases h1 : b = 0 <;> by_cases h2 : c = 0 <;> cases pre <;> simp only [tokOfCargo] <;> l1_eval <;> good_cargo
  | nnx a b ha hb =>
    have ia := natCast_beq_inf a ha; have ja := value_inc_nat a ha; have ka := natCast_succ_ne_inf a ha; have ib := natCast_beq_inf b hb; have jb := value_inc_nat b hb; have kb := natCast_succ_ne_inf b hb
    have hp : pre = [] := pre_ne_nil_of hpre (by simp)
    subst hp
    by_cases h0 : a = 0 <;> by_cases h1 : b = 0 <;> simp only [tokOfCargo] <;> l1_eval <;> good_cargo
  | n2 a b ha hb =>
    have ia := natCast_beq_inf a ha; have ja := value_inc_nat a ha; have ka := natCast_succ_ne_inf a ha; have ib := natCast_beq_inf b hb; have jb := value_inc_nat b hb; have kb := natCast_succ_ne_inf b hb
    have hp : pre = [] := pre_ne_nil_of hpre (by simp)
    subst hp
    by_cases h0 : a = 0 <;> by_cases h1 : b = 0 <;> simp only [tokOfCargo] <;> l1_eval <;> good_cargo
  | nxx a ha =>
    have ia := natCast_beq_inf a ha; have ja := value_inc_nat a ha; have ka := natCast_succ_ne_inf a ha
    have hp : pre = [] := pre_ne_nil_of hpre (by simp)
    subst hp
    by_cases h0 : a = 0 <;> simp only [tokOfCargo] <;> l1_eval <;> good_cargo
  | nx a ha =>
    have ia := natCast_beq_inf a ha; have ja := value_inc_nat a ha; have ka := natCast_succ_ne_inf a ha
    have hp : pre = [] := pre_ne_nil_of hpre (by simp)
    subst hp
    by_cases h0 : a = 0 <;> simp only [tokOfCargo] <;> l1_eval <;> good_cargo
  | n1 a ha =>
    have ia := natCast_beq_inf a ha; have ja := value_inc_nat a ha; have ka := natCast_succ_ne_inf a ha
    have hp : pre = [] := pre_ne_nil_of hpre (by simp)
    subst hp
    by_cases h0 : a = 0 <;> simp only [tokOfCargo] <;> l1_eval <;> good_cargo
  | x1 =>
    have hp : pre = [] := pre_ne_nil_of hpre (by simp)
    subst hp
    simp only [tokOfCargo] <;> l1_eval <;> good_cargo
  | xx =>
    have hp : pre = [] := pre_ne_nil_of hpre (by simp)
    subst hp
    simp only [tokOfCargo] <;> l1_eval <;> good_cargo
  | xxx =>
    have hp : pre = [] := pre_ne_nil_of hpre (by simp)
    subst hp
    simp only [tokOfCargo] <;> l1_eval <;> good_cargo))

end DepsDev.Proofs.C03
