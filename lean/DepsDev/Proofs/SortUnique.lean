import DepsDev.Model.Resolve.Match

/-!
# Sorting: `goSort` returns a sorted permutation, and sorted permutations are unique

`goSort` (Model/Resolve/Match.lean) is the insertion sort Go's `sort.Slice` runs on
short slices. These lemmas make the choice of algorithm irrelevant (DESIGN Appendix B):

* `goSort_perm`: the result is a permutation of the input (any `less`);
* `goSort_sorted`: it is sorted when `less` is a strict weak order **on the elements of the
  list** (`StrictWeakOn`, laws restricted to a predicate `S`);
* `sorted_perm_unique`: two sorted permutations of the same list are equal when ties of
  `less` among its elements are identical elements – hence **any** correct sorting
  procedure (`sort.Slice` for every length, `List.mergeSort`, …) returns `goSort`'s result
  (`eq_goSort_of_sorted_perm`), and the result does not depend on the input order
  (`goSort_eq_of_perm`).
-/
namespace DepsDev.Proofs.SortUnique

open List DepsDev.Resolve.Match

/-- Sortedness for a strict `lt`: no later element is less than an earlier one. -/
abbrev Sorted {α : Type} (lt : α → α → Bool) (l : List α) : Prop :=
  l.Pairwise (fun a b => lt b a = false)

/-- `lt` is a strict weak order on the elements satisfying `S`: asymmetric, and
"not greater" is transitive. -/
structure StrictWeakOn {α : Type} (lt : α → α → Bool) (S : α → Prop) : Prop where
  asymm : ∀ a b, S a → S b → lt a b = true → lt b a = false
  le_trans : ∀ a b c, S a → S b → S c → lt b a = false → lt c b = false → lt c a = false

theorem StrictWeakOn.mono {α : Type} {lt : α → α → Bool} {S T : α → Prop} (h : StrictWeakOn lt S)
    (hTS : ∀ a, T a → S a) : StrictWeakOn lt T where
  asymm := fun a b ha hb => h.asymm a b (hTS a ha) (hTS b hb)
  le_trans := fun a b c ha hb hc => h.le_trans a b c (hTS a ha) (hTS b hb) (hTS c hc)

section
variable {α : Type} {lt : α → α → Bool}

theorem insertLast_perm (x : α) (l : List α) : insertLast lt x l ~ x :: l := by
  induction l with
  | nil => simp [insertLast]
  | cons y ys ih =>
    simp only [insertLast]
    split
    · exact Perm.refl _
    · exact (Perm.cons y ih).trans (Perm.swap x y ys)

theorem sortFrom_perm (acc l : List α) : sortFrom lt acc l ~ acc ++ l := by
  induction l generalizing acc with
  | nil => simp [sortFrom]
  | cons x xs ih =>
    simp only [sortFrom]
    refine (ih _).trans ?_
    refine ((insertLast_perm x acc).append_right xs).trans ?_
    simpa using (perm_middle (a := x) (l₁ := acc) (l₂ := xs)).symm

theorem goSort_perm (l : List α) : goSort lt l ~ l := by
  simpa [goSort] using sortFrom_perm (lt := lt) [] l

theorem mem_goSort {a : α} {l : List α} : a ∈ goSort lt l ↔ a ∈ l := (goSort_perm l).mem_iff

@[simp] theorem length_goSort (l : List α) : (goSort lt l).length = l.length := (goSort_perm l).length_eq

theorem insertLast_sorted {S : α → Prop} (h : StrictWeakOn lt S) {x : α} {l : List α}
    (hx : S x) (hl : ∀ y ∈ l, S y) (hs : Sorted lt l) : Sorted lt (insertLast lt x l) := by
  induction l with
  | nil => simp [insertLast, Sorted]
  | cons y ys ih =>
    simp only [insertLast]
    have hy : S y := hl y mem_cons_self
    have hys : ∀ z ∈ ys, S z := fun z hz => hl z (mem_cons_of_mem _ hz)
    split
    · rename_i hall
      rw [List.all_eq_true] at hall
      refine List.Pairwise.cons ?_ hs
      intro z hz
      exact h.asymm x z hx (hl z hz) (by simpa using hall z hz)
    · rename_i hall
      refine List.Pairwise.cons ?_ (ih hys hs.tail)
      intro z hz
      have hz' := (insertLast_perm (lt := lt) x ys).mem_iff.mp hz
      rcases List.mem_cons.mp hz' with rfl | hz''
      · -- `lt z y = false`: some element of `y :: ys` is not greater than `z`
        have : ∃ e ∈ y :: ys, lt z e = false := by
          have hall' := Bool.eq_false_iff.mpr hall
          rw [List.all_eq_false] at hall'
          obtain ⟨e, he, hne⟩ := hall'
          exact ⟨e, he, by simpa using hne⟩
        obtain ⟨e, he, hze⟩ := this
        rcases List.mem_cons.mp he with rfl | he'
        · exact hze
        · have hey : lt e y = false := List.rel_of_pairwise_cons hs he'
          exact h.le_trans y e z hy (hys e he') hx hey hze
      · exact List.rel_of_pairwise_cons hs hz''

theorem sortFrom_sorted {S : α → Prop} (h : StrictWeakOn lt S) {acc l : List α}
    (hacc : ∀ y ∈ acc, S y) (hl : ∀ y ∈ l, S y) (hs : Sorted lt acc) : Sorted lt (sortFrom lt acc l) := by
  induction l generalizing acc with
  | nil => simpa [sortFrom] using hs
  | cons x xs ih =>
    simp only [sortFrom]
    have hx : S x := hl x mem_cons_self
    apply ih
    · intro y hy
      rcases List.mem_cons.mp ((insertLast_perm (lt := lt) x acc).mem_iff.mp hy) with rfl | hy'
      · exact hx
      · exact hacc y hy'
    · exact fun y hy => hl y (mem_cons_of_mem _ hy)
    · exact insertLast_sorted h hx hacc hs

/-- `goSort` sorts, for a strict weak order on the elements of the list. -/
theorem goSort_sorted {S : α → Prop} (h : StrictWeakOn lt S) {l : List α} (hl : ∀ y ∈ l, S y) :
    Sorted lt (goSort lt l) :=
  sortFrom_sorted h (by simp) hl List.Pairwise.nil

/-- **Uniqueness of the sorted permutation**: if ties of `lt` among the elements are
identical elements, two sorted permutations of the same multiset are the same list. -/
theorem sorted_perm_unique {l₁ l₂ : List α}
    (tri : ∀ a b, a ∈ l₁ → b ∈ l₁ → lt a b = false → lt b a = false → a = b)
    (h₁ : Sorted lt l₁) (h₂ : Sorted lt l₂) (p : l₁ ~ l₂) : l₁ = l₂ :=
  List.Perm.eq_of_pairwise (le := fun a b => lt b a = false)
    (fun a b ha hb hab hba => tri a b ha (p.mem_iff.mpr hb) hba hab) h₁ h₂ p

/-- Any sorted permutation of `l` (e.g. the one Go's `sort.Slice` produces, for every length)
is `goSort lt l`. -/
theorem eq_goSort_of_sorted_perm {S : α → Prop} (h : StrictWeakOn lt S) {l s : List α}
    (hl : ∀ y ∈ l, S y)
    (tri : ∀ a b, a ∈ l → b ∈ l → lt a b = false → lt b a = false → a = b)
    (hs : Sorted lt s) (p : s ~ l) : s = goSort lt l :=
  sorted_perm_unique (fun a b ha hb => tri a b (p.mem_iff.mp ha) (p.mem_iff.mp hb)) hs
    (goSort_sorted h hl) (p.trans (goSort_perm l).symm)

/-- The result of sorting depends only on the multiset. -/
theorem goSort_eq_of_perm {S : α → Prop} (h : StrictWeakOn lt S) {l₁ l₂ : List α}
    (hl : ∀ y ∈ l₁, S y)
    (tri : ∀ a b, a ∈ l₁ → b ∈ l₁ → lt a b = false → lt b a = false → a = b)
    (p : l₁ ~ l₂) : goSort lt l₁ = goSort lt l₂ := by
  have hl₂ : ∀ y ∈ l₂, S y := fun y hy => hl y (p.mem_iff.mpr hy)
  apply sorted_perm_unique _ (goSort_sorted h hl) (goSort_sorted h hl₂)
    ((goSort_perm l₁).trans (p.trans (goSort_perm l₂).symm))
  intro a b ha hb
  exact tri a b (mem_goSort.mp ha) (mem_goSort.mp hb)

/-- Inserting at the end of a list that stays sorted appends. -/
theorem insertLast_of_sorted (x : α) (l : List α) (hs : Sorted lt (l ++ [x])) :
    insertLast lt x l = l ++ [x] := by
  induction l with
  | nil => rfl
  | cons y ys ih =>
    have hxy : lt x y = false := by
      have := hs
      simp only [List.cons_append] at this
      exact List.rel_of_pairwise_cons this (by simp)
    have : ((y :: ys).all fun e => lt x e) = false := by
      simp [List.all_cons, hxy]
    simp only [insertLast, this, Bool.false_eq_true, ↓reduceIte, List.cons_append]
    rw [ih (by simpa using hs.tail)]

theorem sortFrom_of_sorted (acc l : List α) (hs : Sorted lt (acc ++ l)) : sortFrom lt acc l = acc ++ l := by
  induction l generalizing acc with
  | nil => simp [sortFrom]
  | cons x xs ih =>
    simp only [sortFrom]
    have h1 : Sorted lt (acc ++ [x]) := by
      have : (acc ++ [x]).Sublist (acc ++ x :: xs) := by
        simp
      exact hs.sublist this
    rw [insertLast_of_sorted x acc h1, ih (acc ++ [x]) (by simpa using hs)]
    simp

/-- A sorted list is a fixed point of `goSort` (for any `lt`). -/
theorem goSort_of_sorted (l : List α) (hs : Sorted lt l) : goSort lt l = l := by
  simpa [goSort] using sortFrom_of_sorted (lt := lt) [] l (by simp; exact hs)

end

end DepsDev.Proofs.SortUnique
