import DepsDev.Proofs.C03L3Npm

/-!
# C03 layer L3 for npm, operator `lt`: one comparator, prerelease candidates (operands without tag)

See `C03L3Npm` for the statements and the proof script; `C03L3NpmLtP` has the tagged operands
and the assembled `L3Npm .lt`.
-/
namespace DepsDev.Proofs.C03

open DepsDev DepsDev.Semver DepsDev.Ref

set_option linter.unusedSimpArgs false
set_option linter.unusedVariables false

theorem l3_full_lt : L3Full .lt := by l3_full
theorem l3_part_lt : L3Part .lt := by l3_part

end DepsDev.Proofs.C03
